import sys, time
sys.path.insert(0, "/verif")
from harness import core
from harness.props import est_common  # noqa: F401  (shim)
from harness.props import moves_common as M
import os
from harness import lean
if os.environ.get('DRIVER'):
    lean.DRIVER = os.environ['DRIVER']
which = sys.argv[1]
seed = int(sys.argv[2]) if len(sys.argv) > 2 else 0
ctx = core.Ctx("T", "quick", seed)
rep = core.Report("T")
t = time.time()
getattr(M, which)(ctx, rep)
print(which, "evals", rep.evaluations, "nontriv", len(rep.nontrivial), "dis", len(rep.disagreements), "viol", len(rep.violations), f"{time.time()-t:.1f}s")
for k, v in sorted(rep.hist.items()):
    print("  ", k, v)
import json
for d in rep.disagreements[:3]:
    print("DIS", json.dumps({k: d[k] for k in ("slice", "impl", "model", "signature")}, default=str)[:900])
    print("   input", json.dumps(d.get("input"), default=str)[:700])
for v in rep.violations[:3]:
    print("VIOL", v["what"], json.dumps({k: v[k] for k in v if k not in ("what", "lines")}, default=str)[:900])
