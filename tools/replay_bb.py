import os, sys, json, random
os.environ['SKGLM_VERIF'] = '1'
sys.path.insert(0, '/verif')
import numpy as np
from harness import bbox
v = json.load(open(sys.argv[1]))
case = bbox.from_description(v["case"])
res = bbox.run_case(case)
w = res["out"][0]
print("knobs", case.knobs, "groups", case.groups, "wgs", case.wgs, case.pen.describe())
print("w_init", case.w_init)
print("w     ", w)
ww, bb = case.split(w)
print("Xw buf", res["Xw_buf"]); print("X w+b ", case.X @ ww + bb)
print("obj hist", res["out"][1], "true obj", case.objective(w), "start obj", case.objective(case.w_init if case.w_init is not None else np.zeros_like(w)))
