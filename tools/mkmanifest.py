"""Regenerate MANIFEST.json from the table below (kept in one place so it stays valid)."""
import json, os
ROOT = os.path.dirname(os.path.dirname(os.path.abspath(__file__)))
props = {json.loads(l)["id"]: json.loads(l) for l in open(os.path.join(ROOT, "properties.jsonl"))}

# property -> (technique, level text, level note, design ref)
CLAIMED = json.load(open(os.path.join(ROOT, "tools", "claims.json")))
NA = json.load(open(os.path.join(ROOT, "tools", "not_applicable.json")))

checks = []
for pid in sorted(CLAIMED):
    c = CLAIMED[pid]
    checks.append(dict(
        property_id=pid,
        quick_cmd=f"./check {pid} --tier quick",
        thorough_cmd=f"./check {pid} --tier thorough",
        evidence_file=f"evidence/{pid}.json",
        replay_cmd_template=f"./check {pid} --replay {{path}}",
        engine="lean4-proof+correspondence",
        level_claimed=dict(category="proof", text=c["text"], design_ref=c.get("design_ref", "DESIGN.md §6")),
        level_note=c["note"],
        technique=c["technique"],
    ))
hooks_commits = []
hc = os.path.join(ROOT, "tools", "hook_commits.txt")
if os.path.exists(hc):
    hooks_commits = [l.strip() for l in open(hc) if l.strip()]
m = dict(
    version=1,
    setup_cmd="cd lean && lake build Skglm driver 2>&1 | grep -v linter | tail -5",
    hooks=dict(
        guard="SKGLM_VERIF",
        enable="SKGLM_VERIF=1 in the environment of the harness process (set by ./check); hooks live in skglm/_verif.py and are no-ops otherwise",
        baseline_off_cmd="cd /repo && env -u SKGLM_VERIF /venv/bin/python -m pytest -ra -q -p no:cacheprovider --timeout=900 --continue-on-collection-errors",
        source_commits=hooks_commits,
        add_only=True,
    ),
    engines=[dict(name="lean4-proof+correspondence", path="lean/ , harness/ , check",
                  serves_properties=sorted(CLAIMED),
                  kind_free_text="Lean 4 theorems about a hand-written executable model (lean/Skglm), tied to /repo on every "
                                 "run by a differential correspondence harness (harness/) that runs the compiled model driver "
                                 "and the real skglm code on the same inputs and evaluates the theorems' conclusions on the "
                                 "real outputs to find failing inputs")],
    checks=checks,
    notes="See DESIGN.md. Every check rebuilds the Lean property module, audits axioms, then runs the correspondence against /repo's working tree.",
    not_applicable=[dict(property_id=p, reason=r) for p, r in sorted(NA.items()) if p not in CLAIMED],
)
json.dump(m, open(os.path.join(ROOT, "MANIFEST.json"), "w"), indent=1)
print("claimed", sorted(CLAIMED), "not_applicable", [p for p in sorted(NA) if p not in CLAIMED])
assert set(CLAIMED) | set(NA) >= set(props), set(props) - set(CLAIMED) - set(NA)
