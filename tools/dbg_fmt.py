import os, sys, json, copy
os.environ['SKGLM_VERIF'] = '1'
sys.path.insert(0, '/verif')
import numpy as np
from harness import bbox
v = json.load(open(sys.argv[1]))
case = bbox.from_description(v["case"])
print(case.knobs, case.df.kind, case.pen.describe(), "sw", case.sw)
for sp in (False, True):
    c2 = copy.copy(case); c2.sparse = sp
    r = bbox.run_case(c2)
    print("sparse" if sp else "dense ", r["err"], r["out"][0], r["out"][1], r["out"][2])
