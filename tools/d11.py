import os, sys
os.environ['SKGLM_VERIF'] = '1'
import numpy as np
from skglm import _verif
from skglm.solvers import AndersonCD
from skglm.datafits import Quadratic
from skglm.penalties import WeightedL1
from skglm.utils.jit_compilation import compiled_clone as cc
rng = np.random.default_rng(0)
hits = 0
for trial in range(200):
    n, p = 12, 12
    X = np.asfortranarray(rng.standard_normal((n, p)))
    y = rng.standard_normal(n)
    u = 5
    wts = np.r_[np.ones(p - u), np.zeros(u)]
    w0 = np.r_[rng.choice([0.5, 1, -1, 2], size=p - u), np.zeros(u)].astype(float)
    Xw0 = X @ w0
    s = AndersonCD(p0=1, max_epochs=int(rng.choice([7, 8, 14, 30])), max_iter=int(rng.choice([1, 2, 5])), tol=1e-12, fit_intercept=False)
    _verif.start()
    w, o, st = s.solve(X, y, cc(Quadratic()), cc(WeightedL1(0.01, wts)), w0, Xw0)
    tr = _verif.stop()
    err = np.max(np.abs(Xw0 - X @ w))
    wss = [e["ws_size"] for k, e in tr if k == "ws"]
    if err > 1e-8:
        hits += 1
        if hits < 3: print(trial, err, wss, s.max_epochs, s.max_iter)
print("hits", hits)
# diagnostics on the last trial
for k, e in tr:
    if k == "ws":
        ws = set(int(j) for j in e["ws"]); print("ws", sorted(ws), "excluded nonzero", [j for j in range(p) if j not in ws and w0[j] != 0])
    if k == "extrap" and e["is_extrap"]:
        print("extrap accepted?", np.allclose(e["w"], e["w_acc"]))
