import os, sys, random, time
os.environ['SKGLM_VERIF'] = '1'
sys.path.insert(0, '/verif')
from harness import solvers, lean
from harness.core import Report
rng = random.Random(6)
case = solvers.gen_case(rng, df_kinds=["quadratic"], pen_kinds=["l1"])
res = solvers.run_acd(case)
orig = lean.drive
slow = []
def timed(lines):
    out = []
    for l in lines:
        t0 = time.time(); o = orig([l], timeout=120); dt = time.time() - t0
        if dt > 0.5:
            slow.append(l)
        out += o
    return out
solvers.check_trace_acd(case, res, Report("C01"), timed)
open('/tmp/slow_line.txt', 'w').write(slow[0] + "\n")
print(len(slow), slow[0][:200])
