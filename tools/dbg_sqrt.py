import os, sys, random
sys.path.insert(0,'/verif')
import numpy as np
from harness.props import est_common
from harness import core
rng = random.Random("C11-0")
import warnings
for i in range(300):
    case = est_common.gen_est(rng, "SqrtLasso")
    with warnings.catch_warnings(record=True) as wlist:
        warnings.simplefilter("always")
        est, err = est_common.fit_case(case)
    v, d = est_common.doc_violation(case, est.coef_, 0.0, rng)
    if v > 1e-3:
        r = case.y - case.X @ est.coef_
        print(i, case.kwargs, case.X.shape, "viol", v, "res", np.linalg.norm(r), "ynorm", np.linalg.norm(case.y), [str(w.message)[:80] for w in wlist][:2])
        if i > 40: break
