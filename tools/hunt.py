"""dev: hunt for oracle violations on a given combo: tools/hunt.py <df> <pen> <n> [oracles...]"""
import os, sys, random, json
os.environ['SKGLM_VERIF'] = '1'
sys.path.insert(0, '/verif')
from harness import solvers, lean
from harness.core import Report
from harness.props.solver_common import ORACLES
df, pen, n = sys.argv[1], sys.argv[2], int(sys.argv[3])
orc = sys.argv[4:] or ["cert", "buffer", "feasible", "history", "descent"]
rng = random.Random(os.environ.get("VERIF_SEED", "0"))
rep = Report("X")
for i in range(n):
    case = solvers.gen_case(rng, df_kinds=[df], pen_kinds=[pen], warm=(True if os.environ.get("WARM") else None))
    res = solvers.run_acd(case)
    if res["err"]:
        print("ERR", res["err"]); continue
    for o in orc:
        ORACLES[o](case, res, rep)
print("violations", len(rep.violations))
seen = set()
for v in rep.violations:
    k = v["signature"].get("kind")
    if k in seen: continue
    seen.add(k)
    print(k, v["what"], json.dumps(v.get("oracle"))[:300], v["case"]["knobs"], "warm" if v["case"]["w_init"] else "cold", v["case"]["sparse"])
    json.dump(v, open(f"/tmp/hunt_{k}.json", "w"), default=str)
