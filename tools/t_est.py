import os, sys, time, collections
os.environ['SKGLM_VERIF']='1'
sys.path.insert(0,'/verif')
from harness import core
from harness.props import est_common
fns = sys.argv[1:] or ["run_doc_objectives","run_classifiers","run_purity","run_warm_refits","run_n_iter","run_containers"]
for fn in fns:
    ctx=core.Ctx("C11","quick",int(os.environ.get("VERIF_SEED","0"))); rep=core.Report("C11")
    t0=time.time()
    getattr(est_common,fn)(ctx,rep)
    print(fn, round(time.time()-t0,1), rep.evaluations, "violations", len(rep.violations))
    seen=collections.Counter()
    for v in rep.violations:
        k=(v['signature'].get('estimator'), v['signature'].get('kind'), v['signature'].get('container'))
        seen[k]+=1
        if seen[k]==1: print("   ", k, v['what'][:140], str(v.get('oracle'))[:120], str(v.get('impl_output'))[:200], str(v.get('history'))[:100])
    print("   ", dict(seen))
