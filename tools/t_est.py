import sys, time, json
sys.path.insert(0, "/verif")
from harness import core
from harness.props import est_common as E
fn = sys.argv[1]; seed = int(sys.argv[2]) if len(sys.argv) > 2 else 0
ctx = core.Ctx("C18", "quick", seed); rep = core.Report("C18")
t = time.time(); getattr(E, fn)(ctx, rep)
print(fn, "evals", rep.evaluations, "dis", len(rep.disagreements), "viol", len(rep.violations), f"{time.time()-t:.1f}s")
for k, v in sorted(rep.hist.items()): print("  ", k, v)
for d in rep.disagreements[:3]: print("DIS", json.dumps({k: d[k] for k in ("slice", "line", "impl", "model")}, default=str)[:600])
seen = set()
for v in rep.violations:
    key = v["what"][:100]
    if key in seen: continue
    seen.add(key); print("VIOL", v["what"][:300], v["signature"], str(v.get("impl_output"))[:300])
