#!/bin/bash
# dev helper: rebuild driver, run a check without the Lean proof build, show replays
cd /verif/lean && lake build driver 2>&1 | grep -v linter | grep -A8 error | head -30
cd /verif && rm -f replays/*
./check "$@" 2>&1 | tail -8
python3 tools/showreplays.py | cut -c1-2000
