import json, glob, sys
for f in sorted(glob.glob('/verif/replays/*.json')):
    d = json.load(open(f))
    if d['kind'] == 'failing-input':
        print(f, '|', d['what'], '|', d['signature'], '|', d.get('input'), '| impl', d.get('impl_output'),
              '| oracle', d.get('oracle'), '| model', d.get('model_output'))
    else:
        print(f, json.dumps(d)[:2500])
