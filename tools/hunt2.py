"""dev: black-box hunt: tools/hunt2.py <Solver> <n> [oracles...]"""
import os, sys, random, json, collections, time
os.environ['SKGLM_VERIF'] = '1'
sys.path.insert(0, '/verif')
from harness import bbox
from harness.core import Report
solver, n = sys.argv[1], int(sys.argv[2])
orc = sys.argv[3:] or list(bbox.ORACLES)
rng = random.Random(os.environ.get("VERIF_SEED", "0"))
rep = Report("X")
errs = collections.Counter()
t0 = time.time()
for i in range(n):
    case = bbox.gen_bb(rng, solver, degenerate=bool(os.environ.get("DEGEN")))
    res = bbox.run_case(case)
    if res["err"]:
        errs[res["err"][:150]] += 1
        if errs[res["err"][:150]] == 1:
            json.dump(case.describe(), open(f"/tmp/hunt2_err_{len(errs)}.json", "w"), default=str)
        continue
    for o in orc:
        bbox.ORACLES[o](case, res, rep, rng)
print("time", round(time.time() - t0, 1), "errors", dict(errs))
print("violations", len(rep.violations))
seen = collections.Counter()
for v in rep.violations:
    k = (v["signature"].get("kind"), v["signature"]["datafit"], v["signature"]["penalty"], v["signature"]["fit_intercept"])
    seen[k] += 1
    if seen[k] == 1:
        json.dump(v, open(f"/tmp/hunt2_{solver}_{k[0]}.json", "w"), default=str)
        print(k, v["what"][:100], json.dumps(v.get("oracle"), default=str)[:200], v["case"]["knobs"], "warm" if v["case"]["w_init"] else "cold", "sparse" if v["case"]["sparse"] else "dense")
print(dict(seen))
