import os, sys, random, json
os.environ['SKGLM_VERIF'] = '1'
sys.path.insert(0, '/verif')
import numpy as np
from harness import bbox
from harness.core import Report
rng = random.Random("0")
for i in range(150):
    case = bbox.gen_bb(rng, "GroupProxNewton")
    res = bbox.run_case(case)
    rep = Report("X")
    bbox.o_buffer(case, res, rep, rng)
    if rep.violations:
        v = rep.violations[0]
        print(case.knobs, case.groups, case.wgs, case.pen.describe())
        print("w_init", case.w_init)
        print("w", res["out"][0])
        print("Xw", v["impl_output"]["Xw"]); print("X@w", v["impl_output"]["X_w_plus_b"])
        print("X", case.X.tolist())
        break
