#!/bin/bash
# tools/trymut.sh <worktree> <checks...>: confirm the demo on the scratch tree (with and without the patch, using
# `git apply -R` — never `git stash`, which is shared between worktrees), then apply the patch to /repo, run the
# given checks (no Lean build), and undo the patch.
wt=$1; shift
cd $wt
git -C $wt diff -- skglm > /tmp/mut.diff
echo "--- demo on changed tree"; PYTHONPATH=$wt timeout 900 /venv/bin/python _seed/demo.py > /tmp/demo_mut.log 2>&1; echo "exit $?"; tail -2 /tmp/demo_mut.log
git apply -R /tmp/mut.diff; echo "--- demo on unchanged tree"; PYTHONPATH=$wt timeout 900 /venv/bin/python _seed/demo.py > /tmp/demo_base.log 2>&1; echo "exit $?"; git apply /tmp/mut.diff
cd /repo && git apply /tmp/mut.diff && git status --short | head -5
cd /verif
for c in "$@"; do ./check $c --no-lean 2>&1 | grep -E "^\[|VIOLATION|KNOWN" | cut -c1-260; done
cd /repo && git checkout -- . && git status --short | head -3
