import os, sys, time, json, collections
os.environ['SKGLM_VERIF']='1'
sys.path.insert(0,'/verif')
from harness import matrix
cells = matrix.all_cells()
print("cells", len(cells))
t0=time.time()
val = matrix.model_validate(cells)
print("model accepted", sum(val), time.time()-t0)
# interpreted pass
t0=time.time()
res = matrix.run_parallel(cells, {"NUMBA_DISABLE_JIT": "1"}, chunk=300)
print("interp time", time.time()-t0, len(res))
byk = {matrix.key(r["cell"]): r for r in res}
cnt = collections.Counter()
ex = {}
for c, v in zip(cells, val):
    r = byk[matrix.key(c)]
    k = ("acc" if v else "ref", r["outcome"], r.get("cls"))
    cnt[k] += 1
    ex.setdefault(k, (c, r.get("msg")))
for k, n in sorted(cnt.items(), key=lambda kv: -kv[1]):
    print(n, k, json.dumps(ex[k][0]), (ex[k][1] or "")[:150])
json.dump(res, open("/tmp/matrix_interp.json","w"))
