"""dev: run one traced AndersonCD case and time each driver request"""
import os, sys, random, time, collections
os.environ['SKGLM_VERIF'] = '1'
sys.path.insert(0, '/verif')
from harness import solvers, lean
from harness.core import Report

seed = int(sys.argv[1]) if len(sys.argv) > 1 else 1
rng = random.Random(seed)
case = solvers.gen_case(rng, df_kinds=[sys.argv[2] if len(sys.argv) > 2 else "quadratic"],
                        pen_kinds=[sys.argv[3] if len(sys.argv) > 3 else "l1"])
print(case.X.shape, case.knobs, case.sparse, case.w_init is not None)
res = solvers.run_acd(case)
print(len(res['trace']), res['err'])
print(collections.Counter(k for k, _ in res['trace']))
orig = lean.drive


def timed(lines):
    out = []
    for l in lines:
        t0 = time.time()
        o = orig([l], timeout=60)
        dt = time.time() - t0
        if dt > 0.5:
            print("SLOW", l.split()[0], dt, len(l))
        out += o
    return out


rep = Report("C01")
solvers.check_trace_acd(case, res, rep, timed)
print("disagreements", len(rep.disagreements))
for d in rep.disagreements[:4]:
    print({k: (str(v)[:500]) for k, v in d.items() if k != 'case'})
