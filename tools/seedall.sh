#!/bin/bash
# tools/seedall.sh <seed>: every check without the Lean build (development), then restore the committed evidence
cd /verif
for p in $(python3 -c "import json;print(' '.join(c['property_id'] for c in json.load(open('MANIFEST.json'))['checks']))"); do
  VERIF_SEED=$1 ./check $p --no-lean 2>&1 | grep -E "^\[|VIOLATION" | cut -c1-230
done
git checkout -- evidence
