import os, sys, random, json, faulthandler
faulthandler.enable()
os.environ['SKGLM_VERIF'] = '1'
sys.path.insert(0, '/verif')
from harness import bbox
rng = random.Random("C01-0-bb-FISTA-0")
for c in range(15):
    case = bbox.gen_bb(rng, "FISTA")
    json.dump(case.describe(), open("/tmp/fista_last.json", "w"), default=str)
    print(c, case.df.kind, case.pen.kind, case.X.shape, case.sparse, case.knobs, case.w_init is not None, flush=True)
    res = bbox.run_case(case)
    print("  ->", res["err"], flush=True)
