"""compare a junit xml with /root/.vp/BASELINE.json stable_pass"""
import json, sys
import xml.etree.ElementTree as ET
base = set(json.load(open('/root/.vp/BASELINE.json'))['stable_pass'])
t = ET.parse(sys.argv[1]).getroot()
passed = set()
for tc in t.iter('testcase'):
    if not any(ch.tag in ('failure', 'error', 'skipped') for ch in tc):
        passed.add(f"{tc.get('classname')}::{tc.get('name')}")
print("passed", len(passed), "baseline", len(base), "missing", sorted(base - passed)[:10], "extra", len(passed - base))
