#!/bin/bash
# tools/seeds.sh <prop> [seeds...]: run a check (without the Lean build) under several seeds
cd /verif
prop=$1; shift
find replays -name '*.json' -delete 2>/dev/null
for sd in "${@:-0 1 2}"; do VERIF_SEED=$sd ./check $prop --no-lean 2>&1 | tail -3; done
python3 tools/showreplays.py | cut -c1-2500 | head -40
