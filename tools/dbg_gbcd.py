import os, sys, json, copy
os.environ['SKGLM_VERIF'] = '1'
sys.path.insert(0, '/verif')
import numpy as np
from harness import bbox
from harness.impl import to_csc
v = json.load(open(sys.argv[1]))
case = bbox.from_description(v["case"])
print(case.knobs, case.groups, "wgs", case.wgs)
print(np.round(case.X, 3))
solver, datafit, penalty = case.build()
Xs = to_csc(case.X)
for rep in range(3):
    print("sparse L", datafit.get_lipschitz_sparse(Xs.data, Xs.indptr, Xs.indices, case.y))
print("dense  L", datafit.get_lipschitz(np.asfortranarray(case.X), case.y))
for e in (1, 5, 6, 7, 8, 13, 14):
    c2 = copy.copy(case); c2.knobs = dict(case.knobs, max_epochs=e, max_iter=1)
    objs = []
    for rep in range(3):
        r = bbox.run_case(c2); objs.append(round(case.objective(r["out"][0]), 6))
    c3 = copy.copy(c2); c3.sparse = False
    r = bbox.run_case(c3)
    print(e, objs, "dense", round(case.objective(r["out"][0]), 6))
