#!/bin/bash
# tools/runall.sh [tier]: run every claimed check (full, with Lean) and summarise
cd /verif
tier=${1:-quick}
for p in $(python3 -c "import json;print(' '.join(c['property_id'] for c in json.load(open('MANIFEST.json'))['checks']))"); do
  /usr/bin/time -f "%es" ./check $p --tier $tier 2>&1 | grep -E "^\[|VIOLATION|KNOWN|[0-9]s$" | tr '\n' ' '; echo
done
