import os, sys, time, json, collections, random
os.environ['SKGLM_VERIF']='1'
sys.path.insert(0,'/verif')
from harness import matrix
cells = matrix.all_cells()
val = matrix.model_validate(cells)
acc = [c for c, v in zip(cells, val) if v]
ref = [c for c, v in zip(cells, val) if not v]
t0=time.time()
res = matrix.run_parallel(ref, {}, chunk=400)
print("refused-by-model cells", len(ref), "time", round(time.time()-t0,1))
cnt = collections.Counter((r["outcome"], r.get("cls")) for r in res)
print(cnt)
for r in res:
    if r["outcome"] not in ("refused",):
        print("  ", r["cell"], r["outcome"], r.get("cls"), (r.get("msg") or "")[:100]); break
rng = random.Random(0)
sample = rng.sample(acc, 64)
t0=time.time()
res2 = matrix.run_parallel(sample, {}, chunk=4, workers=16)
print("accepted sample", len(sample), "time", round(time.time()-t0,1))
cnt = collections.Counter((r["outcome"], r.get("cls")) for r in res2)
print(cnt)
for r in res2:
    if r["outcome"] not in ("solved",):
        print("  ", r["cell"], r["outcome"], r.get("cls"), (r.get("msg") or "")[:200])
