import sys, time, json
sys.path.insert(0, "/verif")
from harness import core
from harness.props import est_common  # noqa
from harness.props import mt_path
seed = int(sys.argv[1]) if len(sys.argv) > 1 else 0
ctx = core.Ctx("C05", "quick", seed); rep = core.Report("C05")
t = time.time(); mt_path.run_mt_path(ctx, rep)
print("evals", rep.evaluations, "viol", len(rep.violations), f"{time.time()-t:.1f}s")
for k, v in sorted(rep.hist.items()): print("  ", k, v)
seen = set()
for v in rep.violations:
    key = (v["what"][:80], json.dumps(v["signature"], sort_keys=True))
    if key in seen: continue
    seen.add(key); print("VIOL", v["what"][:200], v["signature"])
