"""tools/keepmut.py <worktree> <seed-id> <caught-by...>: archive a confirmed seeded defect under /verif/seeded/<id>/"""
import json, os, shutil, subprocess, sys
wt, sid = sys.argv[1], sys.argv[2]
caught = sys.argv[3:]
dst = f"/verif/seeded/{sid}"
os.makedirs(dst, exist_ok=True)
diff = subprocess.run(["git", "-C", wt, "diff", "--", "skglm"], capture_output=True, text=True).stdout
open(f"{dst}/patch.diff", "w").write(diff)
shutil.copy(f"{wt}/_seed/demo.py", f"{dst}/demo.py")
meta = json.load(open(f"{wt}/_seed/meta.json"))
meta["confirmed_by_me"] = ["demo.py exits 1 on the changed tree and 0 on the unchanged tree (tools/trymut.sh)",
                           "patch applied to /repo with `git apply`, checks run, then `git checkout -- .`"]
meta["checks_run"] = caught
meta["base_commit"] = subprocess.run(["git", "-C", wt, "rev-parse", "--short", "HEAD"], capture_output=True, text=True).stdout.strip()
json.dump(meta, open(f"{dst}/meta.json", "w"), indent=1)
print("kept", dst, len(diff), "bytes")
