"""Line protocol shared with the Lean driver (lean/Skglm/Driver/Proto.lean)."""
import math
import struct


def fb(x):
    """float -> decimal uint64 bit pattern"""
    return str(struct.unpack("<Q", struct.pack("<d", float(x)))[0])


def bf(tok):
    """token -> python value (float | str)"""
    if tok == "nan":
        return math.nan
    if tok == "inf":
        return math.inf
    if tok == "-inf":
        return -math.inf
    if tok.isdigit():
        return struct.unpack("<d", struct.pack("<Q", int(tok)))[0]
    if tok[:1] == "i" and tok[1:].lstrip("-").isdigit():
        return float(int(tok[1:]))
    return tok


def vec(xs):
    xs = list(xs)
    return " ".join([str(len(xs))] + [fb(x) for x in xs])


def ivec(xs):
    xs = list(xs)
    return " ".join([str(len(xs))] + [str(int(x)) for x in xs])


def mat(X):
    """row-major entries only (dimensions are given separately)"""
    return " ".join(fb(x) for row in X for x in row)


def b(x):
    return "1" if x else "0"


def decode(line):
    return [bf(t) for t in line.split()]


def close(a, b, rtol=1e-9, atol=1e-9):
    """tolerance comparison of two decoded tokens; strings and non-finite values exactly"""
    if isinstance(a, str) or isinstance(b, str):
        return a == b
    if math.isnan(a) or math.isnan(b):
        return math.isnan(a) and math.isnan(b)
    if math.isinf(a) or math.isinf(b):
        return a == b
    return abs(a - b) <= atol + rtol * max(abs(a), abs(b))


def same(xs, ys, rtol=1e-9, atol=1e-9):
    return len(xs) == len(ys) and all(close(x, y, rtol, atol) for x, y in zip(xs, ys))


def canon(v):
    """canonicalise an implementation result into decoded tokens"""
    import numpy as np
    if isinstance(v, (bool, np.bool_)):
        return ["T" if v else "F"]
    if isinstance(v, (int, np.integer)):
        return [float(v)]
    if isinstance(v, (float, np.floating)):
        return [float(v)]
    if isinstance(v, str):
        return [v]
    a = np.asarray(v)
    if a.dtype == bool:
        return ["T" if t else "F" for t in a.ravel()]
    return [float(t) for t in a.ravel()]
