"""Regenerate lean/Skglm/Generated/Tables.lean from /repo's current source (run at the start of the C13 and
C20 checks).  Extracted by import + inspect + ast:

  * the method set of every datafit / penalty class and whether it carries a group structure;
  * every solver's `_datafit_required_attr` / `_penalty_required_attr` and the literal checks of its
    `custom_checks` (group compatibility, sparse-suffix check, sparse refusal, datafit must be None,
    strategy needs `subdiff_distance`);
  * the `datafit.m(...)` / `penalty.m(...)` call sites inside the @njit helpers each solver module uses
    (a missing method there is a numba TypingError, not an explanatory refusal), with the branch they sit
    under (sparse / dense kernel, strategy);
  * the slice expression of the coefficient vector at every `penalty.value / subdiff_distance /
    generalized_support` call site of the solvers (full vector, `w[:n_features]`, `w[:-1]`, other).

The extractor is part of the trusted base; it is cross-checked by the runtime matrix of harness/matrix.py.
"""
import ast
import importlib
import inspect
import os
import sys
import textwrap

ROOT = os.path.dirname(os.path.dirname(os.path.abspath(__file__)))
OUT = os.path.join(ROOT, "lean", "Skglm", "Generated", "Tables.lean")

SOLVERS = [("AndersonCD", "skglm.solvers.anderson_cd"), ("FISTA", "skglm.solvers.fista"),
           ("GramCD", "skglm.solvers.gram_cd"), ("GroupBCD", "skglm.solvers.group_bcd"),
           ("GroupProxNewton", "skglm.solvers.group_prox_newton"), ("LBFGS", "skglm.solvers.lbfgs"),
           ("MultiTaskBCD", "skglm.solvers.multitask_bcd"), ("ProxNewton", "skglm.solvers.prox_newton"),
           ("PDCD_WS", "skglm.experimental.pdcd_ws")]
DATAFITS = [("Quadratic", "skglm.datafits"), ("WeightedQuadratic", "skglm.datafits"), ("Logistic", "skglm.datafits"),
            ("QuadraticSVC", "skglm.datafits"), ("Huber", "skglm.datafits"), ("Poisson", "skglm.datafits"),
            ("Gamma", "skglm.datafits"), ("Cox", "skglm.datafits"), ("QuadraticGroup", "skglm.datafits"),
            ("LogisticGroup", "skglm.datafits"), ("QuadraticMultiTask", "skglm.datafits"),
            ("SqrtQuadratic", "skglm.experimental.sqrt_lasso"), ("Pinball", "skglm.experimental.quantile_regression")]
PENALTIES = [("L1", "skglm.penalties"), ("L1_plus_L2", "skglm.penalties"), ("WeightedL1", "skglm.penalties"),
             ("MCPenalty", "skglm.penalties"), ("WeightedMCPenalty", "skglm.penalties"), ("SCAD", "skglm.penalties"),
             ("IndicatorBox", "skglm.penalties"), ("L0_5", "skglm.penalties"), ("L2_3", "skglm.penalties"),
             ("LogSumPenalty", "skglm.penalties"), ("PositiveConstraint", "skglm.penalties"), ("L2", "skglm.penalties"),
             ("L2_1", "skglm.penalties"), ("L2_05", "skglm.penalties.block_separable"),
             ("BlockMCPenalty", "skglm.penalties.block_separable"), ("BlockSCAD", "skglm.penalties.block_separable"),
             ("WeightedGroupL2", "skglm.penalties"), ("WeightedL1GroupL2", "skglm.penalties"),
             ("SLOPE", "skglm.penalties")]


def methods_of(cls):
    out = set()
    for name, member in inspect.getmembers(cls):
        if name.startswith("__"):
            continue
        if callable(member):
            out.add(name)
    return out


def has_group(cls):
    try:
        src = inspect.getsource(cls)
    except (OSError, TypeError):
        return False
    spec_src = "".join(inspect.getsource(c) for c in cls.__mro__ if c.__module__.startswith("skglm") and
                       c.__name__ not in ("BaseDatafit", "BasePenalty", "BaseMultitaskDatafit"))
    return "grp_ptr" in spec_src and "grp_indices" in spec_src and "self.grp_ptr" in spec_src


def flatten_req(req):
    return [list(a) if not isinstance(a, str) else [a] for a in req]


class Calls(ast.NodeVisitor):
    """datafit.<m> / penalty.<m> attribute uses inside one function, with `hasattr` guards noted"""

    def __init__(self, dname, pname):
        self.dname, self.pname = dname, pname
        self.out = []       # (target, method, guarded)
        self.guards = []

    def visit_If(self, node):
        t = ast.unparse(node.test)
        g = None
        if t.startswith("hasattr("):
            g = t
        self.guards.append(g)
        for n in node.body:
            self.visit(n)
        self.guards.pop()
        self.guards.append(None)
        for n in node.orelse:
            self.visit(n)
        self.guards.pop()

    def visit_Attribute(self, node):
        if isinstance(node.value, ast.Name) and node.value.id in (self.dname, self.pname):
            tgt = "df" if node.value.id == self.dname else "pen"
            guarded = any(g and (f'"{node.attr}"' in g or f"'{node.attr}'" in g) for g in self.guards)
            self.out.append((tgt, node.attr, guarded))
        self.generic_visit(node)


def njit_functions(mod):
    """name -> ast.FunctionDef of the @njit functions defined in a module"""
    tree = ast.parse(inspect.getsource(mod))
    out = {}
    for node in tree.body:
        if isinstance(node, ast.FunctionDef):
            decos = [ast.unparse(d) for d in node.decorator_list]
            if any(d.startswith("njit") for d in decos):
                out[node.name] = node
    return out, tree


def kernel_calls(solver_name, modname):
    """method uses on datafit/penalty inside the njit kernels reachable from the solver's `_solve`, tagged
    sparse / dense by the kernel's name (suffix `_sparse` or `_s`) and by strategy when the kernel receives it"""
    mod = importlib.import_module(modname)
    fns, tree = njit_functions(mod)
    common = importlib.import_module("skglm.solvers.common")
    cfns, _ = njit_functions(common)
    allf = dict(cfns)
    allf.update(fns)
    src = inspect.getsource(mod)
    import re

    def calls_fn(text, name):
        return re.search(r"(?<![A-Za-z0-9_])" + re.escape(name) + r"\(", text) is not None
    used = {n for n in allf if calls_fn(src, n)}
    # close under calls between kernels
    changed = True
    while changed:
        changed = False
        for n in list(used):
            body = ast.unparse(allf[n])
            for m in allf:
                if m not in used and calls_fn(body, m):
                    used.add(m)
                    changed = True
    # kernels invoked only when the datafit lacks some method: `if hasattr(datafit, "m"): ... else: kernel(...)`
    unless = {}

    class Sites(ast.NodeVisitor):
        def __init__(self):
            self.stack = []

        def visit_If(self, node):
            t = ast.unparse(node.test)
            attr = None
            if t.startswith("hasattr(datafit,"):
                attr = t.split(",", 1)[1].strip(" )\"'")
            self.stack.append(None)
            for n_ in node.body:
                self.visit(n_)
            self.stack.pop()
            self.stack.append(attr)
            for n_ in node.orelse:
                self.visit(n_)
            self.stack.pop()

        def visit_Call(self, node):
            if isinstance(node.func, ast.Name) and node.func.id in allf:
                g = [a_ for a_ in self.stack if a_]
                unless.setdefault(node.func.id, set()).add(g[-1] if g else "")
            self.generic_visit(node)
    Sites().visit(tree)
    calls = []
    for n in sorted(used):
        f = allf[n]
        args = [a.arg for a in f.args.args]
        if "datafit" not in args and "penalty" not in args:
            continue
        v = Calls("datafit", "penalty")
        for st in f.body:
            v.visit(st)
        sparse = 1 if (n.endswith("_sparse") or n.endswith("_s")) else (
            0 if (n + "_sparse" in allf or n + "_s" in allf) else 2)
        us = unless.get(n, {""})
        un = "" if "" in us else sorted(us)[0]
        for tgt, meth, guarded in v.out:
            if meth in ("grp_ptr", "grp_indices"):
                continue
            calls.append((n, tgt, meth, sparse, guarded, un))
    return sorted(set(calls))


def custom_flags(cls):
    src = textwrap.dedent(inspect.getsource(cls.custom_checks)) if "custom_checks" in cls.__dict__ else ""
    return dict(
        group_df="check_group_compatible(datafit)" in src,
        group_pen="check_group_compatible(penalty)" in src,
        sparse_suffix="support_sparse=" in src,
        refuse_sparse=("issparse(X)" in src and "raise ValueError" in src and "support_sparse" not in src),
        df_must_be_none="datafit is not None" in src,
        strategy_needs_subdiff='hasattr(penalty, "subdiff_distance")' in src or "hasattr(penalty, 'subdiff_distance')" in src,
    )


def slice_sites(modname):
    """(function, method, slice kind) for every penalty.value / subdiff_distance / generalized_support call"""
    mod = importlib.import_module(modname)
    tree = ast.parse(inspect.getsource(mod))
    out = []
    for fn in ast.walk(tree):
        if not isinstance(fn, ast.FunctionDef):
            continue
        for node in ast.walk(fn):
            if isinstance(node, ast.Call) and isinstance(node.func, ast.Attribute) and \
                    isinstance(node.func.value, ast.Name) and node.func.value.id == "penalty" and \
                    node.func.attr in ("value", "subdiff_distance", "generalized_support") and node.args:
                a = ast.unparse(node.args[0]).replace(" ", "")
                if a.endswith("[:n_features]") or a.endswith("[:n_features,:]"):
                    kind = 1
                elif a.endswith("[:-1]"):
                    kind = 2
                elif "[" in a:
                    kind = 3
                else:
                    kind = 0
                out.append((fn.name, node.func.attr, kind, a))
    return out


def main():
    repo = os.environ.get("SKGLM_REPO", "/repo")
    if repo not in sys.path:
        sys.path.insert(0, repo)
    meth_names = set()
    df_info, pen_info, sol_info = [], [], []
    for name, modname in DATAFITS:
        cls = getattr(importlib.import_module(modname), name)
        ms = methods_of(cls)
        df_info.append((name, ms, has_group(cls)))
        meth_names |= ms
    for name, modname in PENALTIES:
        cls = getattr(importlib.import_module(modname), name)
        ms = methods_of(cls)
        pen_info.append((name, ms, has_group(cls)))
        meth_names |= ms
    for name, modname in SOLVERS:
        cls = getattr(importlib.import_module(modname), name)
        rd, rp = flatten_req(cls._datafit_required_attr), flatten_req(cls._penalty_required_attr)
        calls = kernel_calls(name, modname)
        flags = custom_flags(cls)
        strat_attr = "ws_strategy" if "ws_strategy" in inspect.signature(cls.__init__).parameters else (
            "opt_strategy" if "opt_strategy" in inspect.signature(cls.__init__).parameters else "")
        msrc = inspect.getsource(importlib.import_module(modname))
        has_int = ("+ self.fit_intercept" in msrc) or ("+ fit_intercept" in msrc)
        slices = slice_sites(modname)
        sol_info.append((name, rd, rp, calls, flags, strat_attr, has_int, slices))
        for alt in rd + rp:
            meth_names |= set(alt)
        for (_, _, m, _, _, un) in calls:
            meth_names.add(m)
            meth_names.add(m + "_sparse")
            if un:
                meth_names.add(un)
    meths = sorted(meth_names)
    mid = {m: i for i, m in enumerate(meths)}

    def ids(ms):
        return "[" + ", ".join(str(mid[m]) for m in sorted(ms) if m in mid) + "]"

    L = []
    L.append("/- GENERATED by harness/gen_tables.py from the current skglm source — do not edit. -/")
    L.append("namespace Skglm.Gen")
    L.append("")
    L.append("/-- method / attribute names, by id -/")
    L.append("def methodNames : List String := [" + ", ".join(f'"{m}"' for m in meths) + "]")
    L.append("")
    for tname, info in (("DatafitC", df_info), ("PenaltyC", pen_info)):
        L.append(f"inductive {tname} where")
        for name, _, _ in info:
            L.append(f"  | {name}")
        L.append("  deriving DecidableEq, Repr")
        L.append(f"def {tname}.all : List {tname} := [" + ", ".join(f".{n}" for n, _, _ in info) + "]")
        L.append(f"def {tname}.ofName : String → Option {tname}")
        for name, _, _ in info:
            L.append(f'  | "{name}" => some .{name}')
        L.append("  | _ => none")
        L.append(f"def {tname}.methods : {tname} → List Nat")
        for name, ms, _ in info:
            L.append(f"  | .{name} => {ids(ms)}")
        L.append(f"def {tname}.isGroup : {tname} → Bool")
        for name, _, g in info:
            L.append(f"  | .{name} => {'true' if g else 'false'}")
        L.append("")
    L.append("inductive SolverC where")
    for name, *_ in sol_info:
        L.append(f"  | {name}")
    L.append("  deriving DecidableEq, Repr")
    L.append("def SolverC.all : List SolverC := [" + ", ".join(f".{n}" for n, *_ in sol_info) + "]")
    L.append("def SolverC.ofName : String → Option SolverC")
    for name, *_ in sol_info:
        L.append(f'  | "{name}" => some .{name}')
    L.append("  | _ => none")
    L.append("")
    L.append("/-- a `datafit.m` / `penalty.m` use inside a compiled kernel: target (`true` = datafit), method id,")
    L.append("    kernel kind (0 dense-only, 1 sparse-only, 2 both), guarded by `hasattr` -/")
    L.append("structure KCall where")
    L.append("  onDatafit : Bool")
    L.append("  meth : Nat")
    L.append("  kind : Nat")
    L.append("  guarded : Bool")
    L.append("  /-- the kernel is only invoked when the datafit lacks this method (`none`: always) -/")
    L.append("  unlessDatafitHas : Option Nat")
    L.append("  deriving DecidableEq, Repr")
    L.append("")

    def lst(xs):
        return "[" + ", ".join(xs) + "]"
    L.append("def SolverC.reqDatafit : SolverC → List (List Nat)")
    for name, rd, *_ in sol_info:
        L.append(f"  | .{name} => " + lst([ids(a) for a in rd]))
    L.append("def SolverC.reqPenalty : SolverC → List (List Nat)")
    for name, _, rp, *_ in sol_info:
        L.append(f"  | .{name} => " + lst([ids(a) for a in rp]))
    for flag in ("group_df", "group_pen", "sparse_suffix", "refuse_sparse", "df_must_be_none", "strategy_needs_subdiff"):
        lname = "".join(w.capitalize() for w in flag.split("_"))
        L.append(f"def SolverC.flag{lname} : SolverC → Bool")
        for name, _, _, _, flags, *_ in sol_info:
            L.append(f"  | .{name} => {'true' if flags[flag] else 'false'}")
    L.append("def SolverC.hasStrategy : SolverC → Bool")
    for name, _, _, _, _, strat, *_ in sol_info:
        L.append(f"  | .{name} => {'true' if strat else 'false'}")
    L.append("def SolverC.hasIntercept : SolverC → Bool")
    for name, _, _, _, _, _, hi, _ in sol_info:
        L.append(f"  | .{name} => {'true' if hi else 'false'}")
    L.append("def SolverC.kernelCalls : SolverC → List KCall")
    for name, _, _, calls, *_ in sol_info:
        items = [f"⟨{'true' if t == 'df' else 'false'}, {mid[m]}, {k}, {'true' if g else 'false'}, "
                 f"{('some ' + str(mid[un])) if un else 'none'}⟩" for (_, t, m, k, g, un) in calls]
        L.append(f"  | .{name} => " + lst(items))
    L.append("")
    L.append("/-- id of `subdiff_distance`, and the map `m ↦ m_sparse` on method ids -/")
    L.append(f"def subdiffId : Nat := {mid.get('subdiff_distance', 0)}")
    L.append("def sparseTwin : Nat → Nat")
    for m in meths:
        if m + "_sparse" in mid:
            L.append(f"  | {mid[m]} => {mid[m + '_sparse']}")
    L.append("  | n => n")
    L.append("")
    L.append("-- entries: (method: 0 value, 1 subdiff_distance, 2 generalized_support ; slice kind)")
    L.append("/-- slice of the coefficient vector handed to `penalty.value / subdiff_distance / generalized_support`")
    L.append("    at each call site of a solver with an intercept: 0 full vector, 1 `[:n_features]`, 2 `[:-1]`, 3 other -/")
    L.append("def SolverC.penaltySlices : SolverC → List (Nat × Nat)")
    mk = dict(value=0, subdiff_distance=1, generalized_support=2)
    for name, _, _, _, _, _, hi, slices in sol_info:
        L.append(f"  | .{name} => " + lst([f"({mk[m]}, {k})" for (_, m, k, _) in slices]))
    L.append("")
    L.append("end Skglm.Gen")
    os.makedirs(os.path.dirname(OUT), exist_ok=True)
    text = "\n".join(L) + "\n"
    old = open(OUT).read() if os.path.exists(OUT) else None
    if old != text:
        with open(OUT, "w") as fh:
            fh.write(text)
    return dict(methods=len(meths), datafits=len(df_info), penalties=len(pen_info), solvers=len(sol_info),
                kernel_calls=sum(len(s[3]) for s in sol_info), slice_sites=sum(len(s[7]) for s in sol_info),
                changed=old != text,
                slices={s[0]: [(f, m, k, a) for (f, m, k, a) in s[7]] for s in sol_info})


if __name__ == "__main__":
    import json
    print(json.dumps(main(), indent=1, default=str)[:3000])
