"""Independent reference mathematics (numpy, written from the documentation, not from skglm's
code): objective, gradient, sub-differentials and the optimality certificate recomputed from
X, y, w, b alone.  Used by the semantic oracles only."""
import math

import numpy as np


def dloss(df, sw, y, u):
    """derivative of the documented (normalised) loss w.r.t. the linear predictor"""
    k = df.kind
    n = len(u)
    if k == "quadratic":
        return (u - y) / n
    if k == "wquadratic":
        return sw * (u - y) / np.sum(sw)
    if k == "logistic":
        return -y / (1 + np.exp(y * u)) / n
    if k == "huber":
        r = y - u
        return np.where(np.abs(r) <= df.delta, -r, -np.sign(r) * df.delta) / n
    if k == "poisson":
        return (np.exp(u) - y) / n
    if k == "gamma":
        return (1 - y * np.exp(-u)) / n
    if k == "svc":
        return u
    raise KeyError(k)


def grad_w(df, X, sw, y, w, b):
    u = X @ w + b
    g = X.T @ dloss(df, sw, y, u)
    if df.kind == "svc":
        g = g - 1.0
    return g


def grad_b(df, X, sw, y, w, b):
    return float(np.sum(dloss(df, sw, y, X @ w + b)))


def objective(df, pen, wts, X, sw, y, w, b):
    """documented objective; inf when a configured constraint is violated"""
    v = df.ref_value(sw, y, X @ w + b, w)
    pv = sum(pen.ref_pen1(float(x), float(t)) for x, t in zip(w, wts))
    return v + pv


def subdiff(pen, wt, w):
    """regular sub-differential of the documented penalty at w as an interval (lo, hi);
    None when w is infeasible (empty set)"""
    k, a = pen.kind, pen.alpha
    pos = pen.kind in pen.HAS_POS and pen.positive
    if pos and w < 0:
        return None

    def kink(level):
        if pos:
            return (-math.inf, level)
        return (-level, level)
    s = float(np.sign(w))
    if k == "l1":
        return kink(a) if w == 0 else (a * s, a * s)
    if k == "wl1":
        return kink(a * wt) if w == 0 else (a * wt * s, a * wt * s)
    if k == "l1l2":
        r = pen.l1_ratio
        if w == 0:
            return kink(a * r)
        v = a * (r * s + (1 - r) * w)
        return (v, v)
    if k in ("mcp", "wmcp"):
        g = pen.gamma
        m = wt if k == "wmcp" else 1.0
        if w == 0:
            return kink(a * m)
        v = m * (a * s - w / g) if abs(w) < a * g else 0.0
        return (v, v)
    if k == "scad":
        g = pen.gamma
        if w == 0:
            return (-a, a)
        if abs(w) <= a:
            v = a * s
        elif abs(w) <= a * g:
            v = (a * g * s - w) / (g - 1)
        else:
            v = 0.0
        return (v, v)
    if k == "box":
        if w < 0 or w > a:
            return None
        if a == 0:
            return (-math.inf, math.inf)
        if w == 0:
            return (-math.inf, 0.0)
        if w == a:
            return (0.0, math.inf)
        return (0.0, 0.0)
    if k == "pos":
        if w < 0:
            return None
        return (-math.inf, 0.0) if w == 0 else (0.0, 0.0)
    if k == "l05":
        if w == 0:
            return (-math.inf, math.inf)
        v = a * s / (2 * math.sqrt(abs(w)))
        return (v, v)
    if k == "l23":
        if w == 0:
            return (-math.inf, math.inf)
        v = a * s * 2 / (3 * abs(w) ** (1 / 3))
        return (v, v)
    if k == "logsum":
        e = pen.eps
        if w == 0:
            return (-a / e, a / e)
        v = a * s / (e + abs(w))
        return (v, v)
    raise KeyError(k)


def dist_subdiff(pen, wt, w, x):
    sd = subdiff(pen, wt, w)
    if sd is None:
        return math.inf
    lo, hi = sd
    return max(0.0, lo - x, x - hi)


def cert_subdiff(df, pen, wts, X, sw, y, w, b, fit_intercept):
    """first-order optimality violation recomputed from X, y, w, b alone:
    max_j dist(-grad_j, subdiff pen_j(w_j)), |d/db| (unpenalised intercept)"""
    g = grad_w(df, X, sw, y, w, b)
    d = [dist_subdiff(pen, float(t), float(x), -float(gj)) for x, t, gj in zip(w, wts, g)]
    v = max(d) if d else 0.0
    if fit_intercept:
        v = max(v, abs(grad_b(df, X, sw, y, w, b)))
    return v, d


def lipschitz(df, X, sw):
    """coordinate-wise curvature bounds of the documented loss"""
    k = df.kind
    n = X.shape[0]
    if k in ("quadratic", "huber"):
        return (X ** 2).sum(axis=0) / n
    if k == "wquadratic":
        return (sw[:, None] * X ** 2).sum(axis=0) / np.sum(sw)
    if k == "logistic":
        return (X ** 2).sum(axis=0) / (4 * n)
    if k == "svc":
        return (X ** 2).sum(axis=0)
    return None
