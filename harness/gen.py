"""Shared input generators: threshold grids and structured values (all randomness from ctx.rng)."""
import math

DYADIC = [0.125, 0.25, 0.5, 1.0, 1.5, 2.0, 3.0]


def grid8(lim=24):
    return [k / 8 for k in range(-lim, lim + 1)]


def pick(rng, xs):
    return xs[rng.randrange(len(xs))]


def real(rng, scale=None):
    """a 'random real': gaussian times a log-uniform scale"""
    s = scale if scale is not None else 10 ** rng.uniform(-3, 3)
    return rng.gauss(0, 1) * s


def pos_real(rng, lo=-3, hi=3):
    return 10 ** rng.uniform(lo, hi)


def near(rng, t):
    """a value at, just below or just above threshold t"""
    c = rng.randrange(5)
    if c == 0:
        return t
    if c == 1:
        return math.nextafter(t, math.inf)
    if c == 2:
        return math.nextafter(t, -math.inf)
    return t + rng.choice([-1, 1]) * 10 ** rng.uniform(-9, -1)
