"""Report object, known findings, evidence and verdict logic shared by all property checks."""
import hashlib
import json
import os
import random
import time

from . import lean

ROOT = lean.ROOT
REPO = os.environ.get("SKGLM_REPO", "/repo")

TRUSTED_BASE = [
    "Lean 4.33 kernel; Mathlib v4.33 as compiled in the image",
    "axioms allowed: propext, Classical.choice, Quot.sound (audited by #print axioms on every property theorem)",
    "theorems are about the hand-written model over exact reals; floating point, numba code generation, "
    "numpy/scipy/sklearn internals are not modelled",
    "the model is tied to /repo by the correspondence harness (harness/*.py): generators, tolerance 1e-9 "
    "relative, exception classification",
]


class Ctx:
    def __init__(self, prop, tier, seed):
        self.prop, self.tier, self.seed = prop, tier, seed
        self.rng = random.Random(f"{prop}-{seed}")
        self.thorough = tier == "thorough"
        self.t0 = time.time()

    def n(self, quick, thorough):
        return thorough if self.thorough else quick


class Report:
    def __init__(self, prop):
        self.prop = prop
        self.evaluations = 0
        self.nontrivial = set()
        self.hist = {}
        self.samples = []
        self.disagreements = []   # model != implementation (correspondence broken)
        self.violations = []      # the property fails on the real code at a concrete input
        self.rule = ""
        self.traces = 0
        self.notes = []
        self.extra = {}

    def count(self, key, trivial=False, ident=None):
        """one evaluated case, classified by branch key"""
        self.evaluations += 1
        self.hist[key] = self.hist.get(key, 0) + 1
        if not trivial and ident is not None:
            self.nontrivial.add(ident)

    def sample(self, s, cap=6):
        if len(self.samples) < cap:
            self.samples.append(s)

    def disagree(self, slice_, line, impl, model, signature=None, **kw):
        if len(self.disagreements) < 200:
            self.disagreements.append(dict(slice=slice_, line=line, impl=impl, model=model,
                                           signature=signature or {}, **kw))
        else:
            self.extra["disagreements_dropped"] = self.extra.get("disagreements_dropped", 0) + 1

    def violate(self, what, signature, **replay):
        """a concrete input on which the property fails on the implementation"""
        if len(self.violations) < 200:
            self.violations.append(dict(what=what, signature=signature, **replay))
        else:
            self.extra["violations_dropped"] = self.extra.get("violations_dropped", 0) + 1


def load_known():
    p = os.path.join(ROOT, "known_findings.json")
    if not os.path.exists(p):
        return []
    return json.load(open(p)).get("findings", [])


def matches(known, prop, signature):
    if known.get("property") != prop:
        return False
    for k, v in known.get("match", {}).items():
        sv = signature.get(k)
        if isinstance(v, list):
            if sv not in v:
                return False
        elif sv != v:
            return False
    return True


def write_replay(prop, payload):
    os.makedirs(os.path.join(ROOT, "replays"), exist_ok=True)
    blob = json.dumps(payload, sort_keys=True, default=str)
    h = hashlib.sha1(blob.encode()).hexdigest()[:12]
    rel = os.path.join("replays", f"{prop}-{h}.json")
    with open(os.path.join(ROOT, rel), "w") as fh:
        json.dump(payload, fh, indent=1, sort_keys=True, default=str)
    return rel


def conclude(ctx, rep, leanres, level_text=""):
    """print verdict lines, write evidence, return exit code"""
    prop = ctx.prop
    known = load_known()
    exit_code = 0
    n_viol = 0
    known_hit = []
    reported = set()

    # 1. concrete failing inputs on the real code
    for v in rep.violations:
        k = next((k for k in known if matches(k, prop, v["signature"])), None)
        if k is not None:
            key = k.get("id", k.get("what"))
            if key not in known_hit:
                known_hit.append(key)
                print(f"KNOWN-FINDING: property={prop} {k.get('id','')} {k.get('what','')}")
            continue
        sig = json.dumps(v["signature"], sort_keys=True)
        if sig in reported:
            continue
        reported.add(sig)
        n_viol += 1
        if n_viol <= 5:
            path = write_replay(prop, dict(property=prop, kind="failing-input", seed=ctx.seed,
                                           tier=ctx.tier, **v,
                                           cmd=f"./check {prop} --replay <this file>"))
            print(f"VIOLATION property={prop} replay={path}")
        exit_code = 1

    # 2. broken proof obligations / correspondence without a failing input
    broken = []
    if not leanres["ok"]:
        broken.append(dict(kind="lean", detail=leanres["failures"][:10]))
    unexplained = []
    for d in rep.disagreements:
        # a disagreement is explained when a violation (known or new) carries the same signature site
        site = d["signature"].get("site")
        expl = any(v["signature"].get("site") == site and site is not None for v in rep.violations)
        if not expl:
            unexplained.append(d)
    if unexplained:
        broken.append(dict(kind="correspondence", first=unexplained[0], count=len(unexplained)))
    if broken and exit_code == 0:
        path = write_replay(prop, dict(property=prop, kind="no-failing-input-found", seed=ctx.seed,
                                       tier=ctx.tier, broken=broken))
        print(f"VIOLATION property={prop} replay={path} no-failing-input-found")
        n_viol += 1
        exit_code = 1
    elif broken:
        rep.notes.append(f"also broken: {json.dumps(broken, default=str)[:2000]}")

    wall = time.time() - ctx.t0
    cov = dict(
        obligations=leanres["obligations"], discharged=leanres["discharged"],
        checker_cmd=leanres["checker_cmd"], trusted_base=TRUSTED_BASE + leanres.get("trusted_extra", []),
        evaluations=rep.evaluations, distinct_nontrivial=len(rep.nontrivial),
        rule=rep.rule, samples=rep.samples or ["(no correspondence case was generated)"],
        traces_validated_against_impl=rep.traces,
        branch_histogram=dict(sorted(rep.hist.items(), key=lambda kv: -kv[1])[:80]),
        theorems=leanres.get("theorems", {}), examples=leanres.get("examples", 0),
        disagreements=len(rep.disagreements), failing_inputs=len(rep.violations),
        known_findings_hit=known_hit, lean_build_s=leanres.get("build_s"),
        notes=rep.notes, **rep.extra)
    ev = dict(property_id=prop, tier=ctx.tier, seed=ctx.seed, level="proof", coverage=cov,
              assumptions=TRUSTED_BASE, wall_s=round(wall, 2), violations=n_viol)
    os.makedirs(os.path.join(ROOT, "evidence"), exist_ok=True)
    with open(os.path.join(ROOT, "evidence", f"{prop}.json"), "w") as fh:
        json.dump(ev, fh, indent=1, default=str)
    print(f"[{prop}] tier={ctx.tier} seed={ctx.seed} obligations={cov['obligations']} "
          f"discharged={cov['discharged']} evaluations={rep.evaluations} "
          f"nontrivial={len(rep.nontrivial)} disagreements={len(rep.disagreements)} "
          f"failing_inputs={len(rep.violations)} known={known_hit} wall={wall:.1f}s exit={exit_code}")
    return exit_code


def lean_check(modules, thorough=False):
    """build the property modules + driver, audit axioms and forbidden tokens"""
    res = dict(ok=True, failures=[], obligations=0, discharged=0, theorems={}, examples=0)
    ok, log, secs = lean.build(list(modules) + ["driver"])
    res["build_s"] = round(secs, 1)
    res["checker_cmd"] = ("cd lean && lake build " + " ".join(modules) +
                          " driver && lake env lean .audit/<module>.lean  (#print axioms on every theorem)")
    if not ok:
        res["ok"] = False
        res["failures"].append("lake build failed: " + log[-1500:])
    hits = lean.forbidden_hits(modules)
    if hits:
        res["ok"] = False
        res["failures"].append("forbidden tokens: " + "; ".join(hits[:5]))
    for m in modules:
        names, ex = lean.theorems_of(m)
        res["obligations"] += len(names) + ex
        if ok:
            per, failures, ex2 = lean.audit(m)
            res["theorems"].update(per)
            res["examples"] += ex2
            good = [n for n in names if n in per and set(per[n]) <= lean.ALLOWED_AXIOMS]
            res["discharged"] += len(good) + ex
            if failures:
                res["ok"] = False
                res["failures"] += failures
    if thorough and ok:
        rc, out = lean._run(["lake", "env", "leanchecker"] + list(modules), timeout=3600)
        res["leanchecker"] = "ok" if rc == 0 else out[-500:]
        if rc != 0:
            res["ok"] = False
            res["failures"].append("leanchecker: " + out[-500:])
    return res
