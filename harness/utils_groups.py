"""groups argument of GroupLasso -> list of index lists (documented semantics of grp_converter)"""


def groups_of(groups, p):
    if isinstance(groups, int):
        return [list(range(i, i + groups)) for i in range(0, p, groups)]
    if isinstance(groups[0], int):
        out, i = [], 0
        for k in groups:
            out.append(list(range(i, i + k)))
            i += k
        return out
    return [list(g) for g in groups]
