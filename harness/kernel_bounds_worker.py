"""Kernel-level half of C20: every compiled penalty / datafit kernel is called on arguments shaped the way the
solvers' inner loops shape them — a working set that is a strict subset of the features and sits at the END of
the index range (so that indexing a working-set-sized array with a feature index leaves the array), exact zeros
in the coefficients, the last feature / group / sample / stored entry carrying signal.  Run once with
NUMBA_BOUNDSCHECK=1 and once without (fresh interpreters); prints one JSON line per call."""
import json
import sys
import warnings

import numpy as np

warnings.filterwarnings("ignore")


def cells():
    import skglm.datafits as D
    import skglm.penalties as P
    from skglm.penalties.block_separable import L2_05, BlockMCPenalty, BlockSCAD
    from skglm.experimental.sqrt_lasso import SqrtQuadratic
    from skglm.experimental.quantile_regression import Pinball
    p, n = 9, 7
    wts = np.array([1., 0.5, 2., 0., 1., 3., 0.5, 1., 2.])
    pens = []
    for pos in (False, True):
        pens += [(f"L1(positive={pos})", P.L1(0.1, pos)), (f"L1_plus_L2(positive={pos})", P.L1_plus_L2(0.1, 0.5, pos)),
                 (f"WeightedL1(positive={pos})", P.WeightedL1(0.1, wts, pos)),
                 (f"MCPenalty(positive={pos})", P.MCPenalty(0.1, 3., pos)),
                 (f"WeightedMCPenalty(positive={pos})", P.WeightedMCPenalty(0.1, 3., wts, pos))]
    pens += [("SCAD", P.SCAD(0.1, 3.7)), ("IndicatorBox", P.IndicatorBox(1.0)), ("L0_5", P.L0_5(0.1)), ("L2_3", P.L2_3(0.1)),
             ("LogSumPenalty", P.LogSumPenalty(0.1, 1.0)), ("PositiveConstraint", P.PositiveConstraint()),
             ("SLOPE", P.SLOPE(np.linspace(0.3, 0.01, p)))]
    rows = [("L2_1", P.L2_1(0.1)), ("L2_05", L2_05(0.1)), ("BlockMCPenalty", BlockMCPenalty(0.1, 3.)),
            ("BlockSCAD", BlockSCAD(0.1, 3.7))]
    gp = np.array([0, 2, 3, 6, 9], dtype=np.int32)
    gi = np.array([4, 0, 2, 5, 1, 3, 8, 6, 7], dtype=np.int32)
    wg = np.array([1., 0.5, 2., 1.])
    groups = []
    for pos in (False, True):
        groups.append((f"WeightedGroupL2(positive={pos})", P.WeightedGroupL2(0.1, wg, gp, gi, pos)))
    groups.append(("WeightedL1GroupL2", P.WeightedL1GroupL2(0.1, wg, wts, gp, gi)))
    sw = np.array([1., 2., 1., .5, 1., 3., 1.])
    dfs = [("Quadratic", D.Quadratic()), ("WeightedQuadratic", D.WeightedQuadratic(sw)), ("Logistic", D.Logistic()),
           ("Huber", D.Huber(1.0)), ("Poisson", D.Poisson()), ("Gamma", D.Gamma()), ("QuadraticSVC", D.QuadraticSVC()),
           ("SqrtQuadratic", SqrtQuadratic()), ("Pinball", Pinball(0.3))]
    gdfs = [("QuadraticGroup", D.QuadraticGroup(gp, gi)), ("LogisticGroup", D.LogisticGroup(gp, gi))]
    return p, n, pens, rows, groups, dfs, gdfs, (gp, gi)


def out(v):
    a = np.asarray(v, dtype=float)
    return [None if not np.isfinite(t) else round(float(t), 10) for t in a.ravel()]


def main():
    from scipy import sparse
    from skglm.utils.jit_compilation import compiled_clone
    p, n, pens, rows, groups, dfs, gdfs, (gp, gi) = cells()
    rng = np.random.RandomState(3)
    X = np.asfortranarray(rng.randn(n, p))
    X[:, -1] *= 3.0
    X[-1, :] *= 2.0
    X[:, 1] = 0.0
    Xs = sparse.csc_matrix(X)
    w = np.array([0.7, 0., -0.4, 0., 0.3, 0., 0., 0.9, 0.])       # zeros inside and at the end
    wpos = np.abs(w)
    ws = np.array([8, 6, 5, 7], dtype=np.int64)                   # strict subset, indices >= len(ws), unsorted
    grad_ws = rng.randn(len(ws))
    ylin = X @ w + 0.1 * rng.randn(n)
    ybin = np.where(ylin > 0, 1.0, -1.0)
    ypos = np.abs(ylin) + 0.5
    calls = []

    def run(name, f):
        try:
            r = dict(call=name, ok=True, val=out(f()))
        except Exception as e:    # noqa: BLE001
            r = dict(call=name, ok=False, cls=type(e).__name__, msg=str(e)[:160])
        print("CALL " + json.dumps(r), flush=True)

    for name, pen in pens:
        c = compiled_clone(pen)
        ww = wpos if ("positive=True" in name or name in ("IndicatorBox", "PositiveConstraint")) else w
        if hasattr(c, "subdiff_distance"):
            run(f"{name}.subdiff_distance[ws at end]", lambda: c.subdiff_distance(ww, grad_ws, ws))
        if hasattr(c, "prox_1d"):
            run(f"{name}.prox_1d[last]", lambda: [c.prox_1d(0.8, 0.5, p - 1), c.prox_1d(-0.8, 0.5, p - 1)])
        if hasattr(c, "prox_vec"):
            run(f"{name}.prox_vec", lambda: c.prox_vec(ww.copy(), 0.5))
        run(f"{name}.value", lambda: c.value(ww))
        if hasattr(c, "generalized_support"):
            run(f"{name}.generalized_support", lambda: c.generalized_support(ww))
        if hasattr(c, "is_penalized"):
            run(f"{name}.is_penalized", lambda: c.is_penalized(p))
        if hasattr(c, "alpha_max"):
            run(f"{name}.alpha_max", lambda: c.alpha_max(rng.randn(p)))
    W = np.column_stack([w, -w])
    Gws = rng.randn(len(ws), 2)
    for name, pen in rows:
        c = compiled_clone(pen)
        if hasattr(c, "subdiff_distance"):
            run(f"{name}.subdiff_distance[ws at end]", lambda: c.subdiff_distance(W, Gws, ws))
        run(f"{name}.prox_1feat[last]", lambda: c.prox_1feat(np.array([0.8, -0.3]), 0.5, p - 1))
        run(f"{name}.value", lambda: c.value(W))
        run(f"{name}.generalized_support", lambda: c.generalized_support(W))
    gws = np.array([3, 2], dtype=np.int64)                        # last groups, unsorted
    ggrad = rng.randn(int(sum(gp[g + 1] - gp[g] for g in gws)))
    for name, pen in groups:
        c = compiled_clone(pen)
        ww = wpos if "positive=True" in name else w
        if hasattr(c, "subdiff_distance"):
            run(f"{name}.subdiff_distance[groups at end]", lambda: c.subdiff_distance(ww, ggrad, gws))
        run(f"{name}.prox_1group[last]", lambda: c.prox_1group(np.array([0.8, -0.3, 0.1]), 0.5, len(gp) - 2))
        run(f"{name}.value", lambda: c.value(ww))
        run(f"{name}.generalized_support", lambda: c.generalized_support(ww))
        run(f"{name}.is_penalized", lambda: c.is_penalized(len(gp) - 1))
    for name, df in dfs:
        c = compiled_clone(df)
        y = ybin if name in ("Logistic", "QuadraticSVC") else ypos if name in ("Poisson", "Gamma") else ylin
        Xd, Xsp = (X, Xs)
        if name == "QuadraticSVC":
            Xd = np.asfortranarray((X * y[:, None]).T[:, :n])
            Xsp = sparse.csc_matrix(Xd)
        pp = Xd.shape[1]
        wv = w[:pp] if name != "QuadraticSVC" else np.abs(rng.randn(pp)) * 0.1
        Xw = Xd @ wv
        if hasattr(c, "initialize"):
            run(f"{name}.initialize", lambda: (c.initialize(Xd, y), 0.0)[1])
        for m in ("gradient_scalar",):
            if hasattr(c, m):
                run(f"{name}.{m}[last]", lambda: getattr(c, m)(Xd, y, wv, Xw, pp - 1))
        if hasattr(c, "raw_grad"):
            run(f"{name}.raw_grad", lambda: c.raw_grad(y, Xw))
        if hasattr(c, "raw_hessian"):
            run(f"{name}.raw_hessian", lambda: c.raw_hessian(y, Xw))
        if hasattr(c, "get_lipschitz"):
            run(f"{name}.get_lipschitz", lambda: c.get_lipschitz(Xd, y))
        if hasattr(c, "initialize_sparse"):
            run(f"{name}.initialize_sparse", lambda: (c.initialize_sparse(Xsp.data, Xsp.indptr, Xsp.indices, y), 0.0)[1])
        if hasattr(c, "gradient_scalar_sparse"):
            run(f"{name}.gradient_scalar_sparse[last]",
                lambda: c.gradient_scalar_sparse(Xsp.data, Xsp.indptr, Xsp.indices, y, Xw, pp - 1))
        if hasattr(c, "full_grad_sparse"):
            run(f"{name}.full_grad_sparse", lambda: c.full_grad_sparse(Xsp.data, Xsp.indptr, Xsp.indices, y, Xw))
        if hasattr(c, "get_lipschitz_sparse"):
            run(f"{name}.get_lipschitz_sparse", lambda: c.get_lipschitz_sparse(Xsp.data, Xsp.indptr, Xsp.indices, y))
    for name, df in gdfs:
        c = compiled_clone(df)
        y = ybin if name == "LogisticGroup" else ylin
        Xw = X @ w
        if hasattr(c, "initialize"):
            run(f"{name}.initialize", lambda: (c.initialize(X, y), 0.0)[1])
        run(f"{name}.get_lipschitz", lambda: c.get_lipschitz(X, y))
        run(f"{name}.gradient_g[last]", lambda: c.gradient_g(X, y, w, Xw, len(gp) - 2))
        if hasattr(c, "gradient_g_sparse"):
            run(f"{name}.gradient_g_sparse[last]",
                lambda: c.gradient_g_sparse(Xs.data, Xs.indptr, Xs.indices, y, w, Xw, len(gp) - 2))
        if hasattr(c, "get_lipschitz_sparse"):
            np.random.seed(0)
            run(f"{name}.get_lipschitz_sparse", lambda: np.round(c.get_lipschitz_sparse(Xs.data, Xs.indptr, Xs.indices, y), 3))
    # solver helper kernels on a working set at the end of the range
    from skglm.solvers.common import dist_fix_point_cd
    from skglm.solvers.anderson_cd import _cd_epoch, construct_grad
    c = compiled_clone(cells()[2][4][1])       # WeightedL1(positive=False)
    d = compiled_clone(cells()[5][0][1])
    d.initialize(X, ylin)
    lips = d.get_lipschitz(X, ylin)
    Xw = X @ w
    run("construct_grad[ws at end]", lambda: construct_grad(X, ylin, w, Xw, d, ws))
    run("dist_fix_point_cd[ws at end]", lambda: dist_fix_point_cd(w, construct_grad(X, ylin, w, Xw, d, ws), lips[ws], d, c, ws))
    w2, Xw2 = w.copy(), Xw.copy()
    run("_cd_epoch[ws at end]", lambda: (_cd_epoch(X, ylin, w2, Xw2, lips, d, c, ws), w2)[1])


if __name__ == "__main__":
    main()
    print("END", flush=True)
