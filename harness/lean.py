"""Building the Lean library, auditing proofs, and talking to the model driver."""
import os
import re
import subprocess
import time

ROOT = os.path.dirname(os.path.dirname(os.path.abspath(__file__)))
LEAN = os.path.join(ROOT, "lean")
DRIVER = os.path.join(LEAN, ".lake", "build", "bin", "driver")
ALLOWED_AXIOMS = {"propext", "Classical.choice", "Quot.sound"}
FORBIDDEN = re.compile(
    r"\bsorry\b|\badmit\b|^axiom |native_decide|bv_decide|implemented_by|\bunsafe |maxHeartbeats 0")


def _run(cmd, cwd=LEAN, timeout=3600, inp=None):
    p = subprocess.run(cmd, cwd=cwd, stdout=subprocess.PIPE, stderr=subprocess.STDOUT,
                       input=inp, text=True, timeout=timeout)
    return p.returncode, p.stdout


def build(targets):
    """lake build of the given module targets (and the driver). Returns (ok, log, seconds)."""
    t0 = time.time()
    rc, out = _run(["lake", "build"] + list(targets))
    out = "\n".join(l for l in out.splitlines() if "linter" not in l)
    return rc == 0, out, time.time() - t0


def strip_comments(src):
    src = re.sub(r"/-.*?-/", "", src, flags=re.S)
    src = re.sub(r"--.*", "", src)
    return src


def import_closure(modules):
    """files of this project transitively imported by the given modules"""
    seen, todo = set(), list(modules)
    while todo:
        m = todo.pop()
        if m in seen or not m.startswith("Skglm"):
            continue
        path = os.path.join(LEAN, m.replace(".", "/") + ".lean")
        if not os.path.exists(path):
            continue
        seen.add(m)
        for l in open(path).read().splitlines():
            mm = re.match(r"\s*import\s+(\S+)", l)
            if mm:
                todo.append(mm.group(1))
    return sorted(seen)


def forbidden_hits(modules=None):
    """forbidden tokens (sorry, admit, axiom, native_decide, ...) in the import closure of `modules`
    (whole library when None)"""
    hits = []
    if modules is None:
        files = [os.path.join(d, f) for d, _, fs in os.walk(os.path.join(LEAN, "Skglm")) for f in fs
                 if f.endswith(".lean")]
    else:
        files = [os.path.join(LEAN, m.replace(".", "/") + ".lean") for m in import_closure(modules)]
    for p in files:
        src = strip_comments(open(p).read())
        for i, l in enumerate(src.splitlines()):
            if FORBIDDEN.search(l):
                hits.append(f"{os.path.relpath(p, LEAN)}:{i+1}:{l.strip()}")
    return hits


def theorems_of(module):
    """names of the `theorem`s declared in a module file (fully qualified by its namespaces)"""
    path = os.path.join(LEAN, module.replace(".", "/") + ".lean")
    src = strip_comments(open(path).read())
    names, ns = [], []
    examples = 0
    for l in src.splitlines():
        m = re.match(r"\s*namespace\s+(\S+)", l)
        if m:
            ns.append(m.group(1))
            continue
        m = re.match(r"\s*end\s+(\S+)", l)
        if m and ns and ns[-1] == m.group(1):
            ns.pop()
            continue
        m = re.match(r"\s*(private\s+)?(?:protected\s+)?(?:theorem|lemma)\s+(\S+)", l)
        if m and not m.group(1):      # private helpers are audited through the theorems that use them
            names.append(".".join(ns + [m.group(2)]))
        if re.match(r"\s*example\b", l):
            examples += 1
    return names, examples


def audit(module):
    """#print axioms for every theorem of a property module.
    Returns (per_theorem: {name: [axioms]} , failures: [str], n_examples)."""
    names, examples = theorems_of(module)
    os.makedirs(os.path.join(LEAN, ".audit"), exist_ok=True)
    f = os.path.join(LEAN, ".audit", module.replace(".", "_") + ".lean")
    with open(f, "w") as fh:
        fh.write(f"import {module}\n")
        for n in names:
            fh.write(f"#print axioms {n}\n")
    rc, out = _run(["lake", "env", "lean", f])
    per, failures = {}, []
    for m in re.finditer(r"'(\S+?)' depends on axioms: \[([^\]]*)\]", out.replace("\n", " ")):
        per[m.group(1)] = [a.strip() for a in m.group(2).split(",") if a.strip()]
    for m in re.finditer(r"'(\S+?)' does not depend on any axioms", out):
        per[m.group(1)] = []
    for n in names:
        if n not in per:
            failures.append(f"{n}: no axiom report ({out[-300:]!r})")
        else:
            bad = set(per[n]) - ALLOWED_AXIOMS
            if bad:
                failures.append(f"{n}: non-standard axioms {sorted(bad)}")
    if rc != 0:
        failures.append("audit file failed to elaborate: " + out[-500:])
    return per, failures, examples


def drive(lines, timeout=1800):
    """pipe request lines through the compiled model driver, return response lines"""
    if not lines:
        return []
    inp = "\n".join(lines) + "\n"
    p = subprocess.run([DRIVER], input=inp, stdout=subprocess.PIPE, stderr=subprocess.PIPE,
                       text=True, timeout=timeout)
    out = p.stdout.splitlines()
    if len(out) != len(lines):
        raise RuntimeError(f"driver answered {len(out)} lines for {len(lines)} requests: "
                           f"{p.stderr[-500:]}")
    return out
