"""The composition matrix of C13 / C20: every solver x datafit x penalty x {dense, CSC} x {intercept} x
{strategy} cell is run on the real code in worker subprocesses (a crash of the interpreter is an
observation), compared with the modelled validation, and — for accepted cells — run again under
NUMBA_BOUNDSCHECK=1."""
import json
import os
import subprocess
import sys
from concurrent.futures import ThreadPoolExecutor

from . import lean
from .gen_tables import SOLVERS, DATAFITS, PENALTIES

ROOT = lean.ROOT
HAS_INT = {"AndersonCD", "GroupBCD", "GroupProxNewton", "MultiTaskBCD", "ProxNewton"}
HAS_STRAT = {"AndersonCD", "GroupBCD", "MultiTaskBCD", "ProxNewton", "FISTA"}


def all_cells():
    cells = []
    for s, _ in SOLVERS:
        for d in ["None"] + [d for d, _ in DATAFITS]:
            for p, _ in PENALTIES:
                for sp in (False, True):
                    for fi in ((False, True) if s in HAS_INT else (False,)):
                        for sd in ((True, False) if s in HAS_STRAT else (True,)):
                            cells.append(dict(solver=s, datafit=d, penalty=p, sparse=sp, intercept=fi, subdiff=sd))
    return cells


def model_validate(cells):
    lines = [f"validate {c['solver']} {c['datafit']} {c['penalty']} {int(c['sparse'])} {int(c['subdiff'])}"
             for c in cells]
    return [o.strip() == "T" for o in lean.drive(lines)]


def run_batch(cells, env_extra, timeout=1800):
    """run cells in one worker process; returns list of result dicts (crash -> outcome 'crash')"""
    env = dict(os.environ)
    env.update(env_extra)
    env["PYTHONPATH"] = os.environ.get("SKGLM_REPO", "/repo") + ":" + ROOT + ":" + env.get("PYTHONPATH", "")
    todo = list(cells)
    results = []
    while todo:
        inp = "\n".join(json.dumps(c) for c in todo) + "\n"
        try:
            p = subprocess.run([sys.executable, "-m", "harness.matrix_worker"], input=inp, capture_output=True,
                               text=True, env=env, cwd=ROOT, timeout=timeout)
            out, rc = p.stdout, p.returncode
        except subprocess.TimeoutExpired as e:
            out, rc = (e.stdout or b"").decode() if isinstance(e.stdout, bytes) else (e.stdout or ""), -9
        done, started = [], None
        for line in out.splitlines():
            if line.startswith("START "):
                started = json.loads(line[6:])
            elif line.startswith("DONE "):
                done.append(json.loads(line[5:]))
                started = None
        results += done
        if len(done) == len(todo):
            break
        # the worker died (or timed out) while running `started`
        bad = started if started is not None else todo[len(done)]
        results.append(dict(cell=bad, outcome="crash" if rc != -9 else "timeout", cls=f"exit {rc}",
                            msg="the interpreter terminated while running this cell"))
        todo = todo[len(done) + 1:]
    return results


def run_parallel(cells, env_extra, chunk=40, workers=14):
    chunks = [cells[i:i + chunk] for i in range(0, len(cells), chunk)]
    out = []
    with ThreadPoolExecutor(max_workers=workers) as ex:
        for r in ex.map(lambda ch: run_batch(ch, env_extra), chunks):
            out += r
    return out


def key(c):
    return (c["solver"], c["datafit"], c["penalty"], c["sparse"], c["intercept"], c["subdiff"])
