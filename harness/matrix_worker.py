"""Worker process of the composition matrix (C13 / C20): reads cells as JSON lines on stdin, runs each on a
small problem of the right shape family with the real code, prints one JSON line per cell.  Run in a fresh
interpreter so that a crash of the interpreter is an observation (the parent sees which cell was running),
and so that NUMBA_BOUNDSCHECK=1 / NUMBA_DISABLE_JIT=1 can be set in the environment."""
import json
import sys
import warnings

import numpy as np

warnings.filterwarnings("ignore")


def make_problem(dname, rng_seed, tail):
    """data shaped for the datafit family; `tail` moves the non-zero structure to the array ends"""
    rng = np.random.RandomState(rng_seed)
    n, p = 8, 6
    if dname == "QuadraticSVC":
        n = 6          # the dual has one coefficient per sample: keep penalty weights (length 6) applicable
    if dname in ("Logistic", "LogisticGroup"):
        n = 24         # far more samples than features and noisy labels: not separable, every fit is bounded
    X = rng.randn(n, p)
    X[:, 1] = 0.0 if not tail else X[:, 1]
    if tail:
        X[:, -1] *= 3.0
        X[-1, :] *= 2.0
    w = np.array([1.0, 0, 0, -1.0, 0, 0.5])
    lin = X @ w
    if dname in ("Logistic", "LogisticGroup", "QuadraticSVC"):
        y = np.where(lin + 0.3 * rng.randn(n) > 0, 1.0, -1.0)
        flip = rng.rand(n) < 0.25
        y = np.where(flip, -y, y)
        y[0], y[1] = 1.0, -1.0
    elif dname == "Poisson":
        y = rng.poisson(np.exp(0.3 * lin)).astype(float)
        X = 0.3 * X
    elif dname == "Gamma":
        y = np.exp(0.3 * lin) * rng.uniform(0.5, 1.5, n)
        X = 0.3 * X
    elif dname == "Cox":
        tm = np.array([1., 2, 2, 3, 4, 4, 5, 6])[:n]
        s = np.array([1., 1, 0, 1, 1, 1, 0, 1])[:n]
        y = np.column_stack([tm, s])
        X = 0.3 * X
    elif dname == "QuadraticMultiTask":
        y = np.column_stack([lin, -lin]) + 0.1 * rng.randn(n, 2)
    else:
        y = lin + 0.1 * rng.randn(n)
    return np.asfortranarray(X), y


def build(cell):
    import skglm.datafits as D
    import skglm.penalties as P
    import skglm.solvers as S
    from skglm.penalties.block_separable import L2_05, BlockMCPenalty, BlockSCAD
    from skglm.experimental.sqrt_lasso import SqrtQuadratic
    from skglm.experimental.quantile_regression import Pinball
    from skglm.experimental.pdcd_ws import PDCD_WS
    from skglm.utils.jit_compilation import compiled_clone
    p = 6
    gp = np.array([0, 2, 3, 6], dtype=np.int32)
    gi = np.array([4, 0, 2, 5, 1, 3], dtype=np.int32)      # non-contiguous, permuted layout
    dn, pn, sn = cell["datafit"], cell["penalty"], cell["solver"]
    dmap = dict(Quadratic=lambda: D.Quadratic(), WeightedQuadratic=lambda: D.WeightedQuadratic(np.array([1., 2, 1, .5, 1, 3, 1, 2])),
                Logistic=lambda: D.Logistic(), QuadraticSVC=lambda: D.QuadraticSVC(), Huber=lambda: D.Huber(1.0),
                Poisson=lambda: D.Poisson(), Gamma=lambda: D.Gamma(), Cox=lambda: D.Cox(True),
                QuadraticGroup=lambda: D.QuadraticGroup(gp, gi), LogisticGroup=lambda: D.LogisticGroup(gp, gi),
                QuadraticMultiTask=lambda: D.QuadraticMultiTask(), SqrtQuadratic=lambda: SqrtQuadratic(),
                Pinball=lambda: Pinball(0.3))
    a = 0.05
    pmap = dict(L1=lambda: P.L1(a), L1_plus_L2=lambda: P.L1_plus_L2(a, 0.5), WeightedL1=lambda: P.WeightedL1(a, np.array([1., 0, 2, 1, .5, 1])),
                MCPenalty=lambda: P.MCPenalty(a, 3.), WeightedMCPenalty=lambda: P.WeightedMCPenalty(a, 3., np.array([1., .5, 2, 1, .5, 1])),
                SCAD=lambda: P.SCAD(a, 3.7), IndicatorBox=lambda: P.IndicatorBox(1.0), L0_5=lambda: P.L0_5(a), L2_3=lambda: P.L2_3(a),
                LogSumPenalty=lambda: P.LogSumPenalty(a, 1.0), PositiveConstraint=lambda: P.PositiveConstraint(), L2=lambda: P.L2(a),
                L2_1=lambda: P.L2_1(a), L2_05=lambda: L2_05(a), BlockMCPenalty=lambda: BlockMCPenalty(a, 3.),
                BlockSCAD=lambda: BlockSCAD(a, 3.7), WeightedGroupL2=lambda: P.WeightedGroupL2(a, np.array([1., .5, 2.]), gp, gi),
                WeightedL1GroupL2=lambda: P.WeightedL1GroupL2(a, np.array([1., .5, 2.]), np.array([1., 0, .5, 1, 2, 1]), gp, gi),
                SLOPE=lambda: P.SLOPE(np.array([.3, .25, .2, .1, .05, .01])))
    datafit = None if dn == "None" else compiled_clone(dmap[dn]())
    penalty = compiled_clone(pmap[pn]())
    cls = PDCD_WS if sn == "PDCD_WS" else getattr(S, sn)
    kw = {}
    import inspect
    params = inspect.signature(cls.__init__).parameters
    if "fit_intercept" in params:
        kw["fit_intercept"] = bool(cell["intercept"])
    for k in ("ws_strategy", "opt_strategy"):
        if k in params:
            kw[k] = "subdiff" if cell["subdiff"] else "fixpoint"
    if "max_iter" in params:
        kw["max_iter"] = 30
    if "max_epochs" in params:
        kw["max_epochs"] = 200
    if "tol" in params:
        kw["tol"] = 1e-6
    if sn == "GramCD":
        kw["greedy_cd"] = False
    return cls(**kw), datafit, penalty


EXPLAIN = ("not compatible", "must implement", "Missing", "not block-separable", "Penalty must implement",
           "supports only", "not yet supported", "should only take positive", "has no attribute", "Unsupported",
           "must be `None`", "Sparse matrices", "sparse",
           "Lipschitz constant per feature")


NONCONVEX = ("MCPenalty", "WeightedMCPenalty", "SCAD", "L0_5", "L2_3", "LogSumPenalty", "L2_05", "BlockMCPenalty", "BlockSCAD")


def run(cell):
    from scipy import sparse
    if cell["solver"] == "PDCD_WS" and cell["penalty"] in NONCONVEX:
        # documented precondition of PDCD_WS: "the penalty is required to be convex"
        return dict(outcome="out-of-scope", msg="PDCD_WS documents that the penalty must be convex")
    X, y = make_problem(cell["datafit"], 7, cell.get("tail", False))
    try:
        solver, datafit, penalty = build(cell)
    except Exception as e:    # noqa: BLE001
        return dict(outcome="build-error", cls=type(e).__name__, msg=str(e)[:200])
    Xin = sparse.csc_matrix(X) if cell["sparse"] else X
    if cell["datafit"] == "QuadraticSVC":
        yXT = (X * y[:, None]).T
        Xin = sparse.csc_matrix(yXT) if cell["sparse"] else np.asfortranarray(yXT)
    try:
        # "datafit initialised on the data, as the documented examples do"
        if datafit is not None:
            if cell["sparse"] and hasattr(datafit, "initialize_sparse"):
                datafit.initialize_sparse(Xin.data, Xin.indptr, Xin.indices, y)
            elif not cell["sparse"] and hasattr(datafit, "initialize"):
                datafit.initialize(Xin, y)
        out = solver.solve(Xin, y, datafit, penalty)
    except (AttributeError, ValueError) as e:
        msg = str(e)
        explained = any(t in msg for t in EXPLAIN)
        inside = "numba" in msg.lower() or "broadcast" in msg.lower() or "nopython" in msg.lower()
        if explained and not inside:
            return dict(outcome="refused", cls=type(e).__name__, msg=msg[:160])
        return dict(outcome="error", cls=type(e).__name__, msg=msg[:300])
    except Exception as e:    # noqa: BLE001
        return dict(outcome="error", cls=type(e).__name__, msg=str(e)[:300])
    w, obj, stop = out[0], out[1], out[2]
    w = np.asarray(w, float)
    finite = bool(np.all(np.isfinite(w)) and np.all(np.isfinite(np.asarray(obj, float))) and np.isfinite(float(np.max(stop))))
    return dict(outcome="solved" if finite else "nonfinite", w=[round(float(t), 9) for t in w.ravel()],
                stop=float(np.max(stop)), n_iter=len(obj))


def main():
    for line in sys.stdin:
        line = line.strip()
        if not line:
            continue
        cell = json.loads(line)
        print("START " + json.dumps(cell), flush=True)
        res = run(cell)
        print("DONE " + json.dumps(dict(cell=cell, **res)), flush=True)


if __name__ == "__main__":
    main()
