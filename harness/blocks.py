"""Block / group penalties: configuration objects, real objects, documented formulas."""
import math

import numpy as np

from .impl import compiled
from .proto import fb, b


class Blk:
    ROW = ("l21", "l205", "bmcp", "bscad")       # act on rows of W (multitask)
    GROUP = ("wgl2", "wl1gl2")                   # act on groups of features

    def __init__(self, kind, alpha, gamma=None, positive=False):
        self.kind, self.alpha, self.gamma, self.positive = kind, alpha, gamma, positive

    def tokens(self):
        k = self.kind
        if k in ("bmcp", "bscad"):
            return f"{k} {fb(self.alpha)} {fb(self.gamma)}"
        if k == "wgl2":
            return f"{k} {fb(self.alpha)} {b(self.positive)}"
        return f"{k} {fb(self.alpha)}"

    def key(self):
        return (self.kind, self.alpha, self.gamma, self.positive)

    def describe(self):
        d = dict(kind=self.kind, alpha=self.alpha)
        if self.gamma is not None:
            d["gamma"] = self.gamma
        if self.kind == "wgl2":
            d["positive"] = self.positive
        return d

    def cls_name(self):
        return dict(l21="L2_1", l205="L2_05", bmcp="BlockMCPenalty", bscad="BlockSCAD",
                    wgl2="WeightedGroupL2", wl1gl2="WeightedL1GroupL2")[self.kind]

    def build(self, weights_groups=None, weights_features=None, grp_ptr=None, grp_indices=None):
        import skglm.penalties as P
        from skglm.penalties.block_separable import (L2_05, BlockMCPenalty, BlockSCAD)
        k = self.kind
        if k == "l21":
            return P.L2_1(self.alpha)
        if k == "l205":
            return L2_05(self.alpha)
        if k == "bmcp":
            return BlockMCPenalty(self.alpha, self.gamma)
        if k == "bscad":
            return BlockSCAD(self.alpha, self.gamma)
        gp = np.asarray(grp_ptr, dtype=np.int32)
        gi = np.asarray(grp_indices, dtype=np.int32)
        if k == "wgl2":
            return P.WeightedGroupL2(self.alpha, np.asarray(weights_groups, float), gp, gi,
                                     positive=self.positive)
        return P.WeightedL1GroupL2(self.alpha, np.asarray(weights_groups, float),
                                   np.asarray(weights_features, float), gp, gi)

    # documented penalty of one block (inf when the positivity constraint is violated)
    def ref_pen(self, u, wg=1.0, wf=None):
        u = np.asarray(u, float)
        nu = float(np.sqrt(np.sum(u * u)))
        a, g = self.alpha, self.gamma
        k = self.kind
        if k == "l21":
            return a * nu
        if k == "l205":
            return a * math.sqrt(nu)
        if k == "bmcp":
            return a * nu - nu * nu / (2 * g) if nu <= a * g else g * a * a / 2
        if k == "bscad":
            if nu <= a:
                return a * nu
            if nu <= a * g:
                return (2 * a * g * nu - nu * nu - a * a) / (2 * (g - 1))
            return a * a * (g + 1) / 2
        if k == "wgl2":
            if self.positive and np.any(u < 0):
                return math.inf
            return a * wg * nu
        return a * (wg * nu + float(np.sum(np.asarray(wf) * np.abs(u))))

    def admissible_step(self, s):
        if self.kind == "bmcp":
            return s < self.gamma
        if self.kind == "bscad":
            return s < self.gamma - 1
        return True


def blocks():
    out = []
    for a in (0.25, 0.5, 1.0, 2.0):
        out += [Blk("l21", a), Blk("l205", a), Blk("wl1gl2", a),
                Blk("wgl2", a, positive=False), Blk("wgl2", a, positive=True)]
        for g in (1.5, 3.0, 8.0):
            out.append(Blk("bmcp", a, gamma=g))
        for g in (2.5, 3.7, 8.0):
            out.append(Blk("bscad", a, gamma=g))
    return out


def group_layout(rng, p):
    """random partition of range(p) into groups given as index lists (non-contiguous, permuted)"""
    idx = list(range(p))
    if rng.random() < 0.6:
        rng.shuffle(idx)
    groups, i = [], 0
    while i < p:
        k = min(p - i, rng.choice([1, 1, 2, 3, 4]))
        groups.append(idx[i:i + k])
        i += k
    grp_ptr = np.cumsum([0] + [len(g) for g in groups]).astype(np.int32)
    grp_indices = np.array([j for g in groups for j in g], dtype=np.int32)
    return groups, grp_ptr, grp_indices


_blk_cache = {}


def compiled_blk(blk, wgs=None, wfs=None, grp_ptr=None, grp_indices=None):
    key = (blk.key(), None if wgs is None else tuple(map(float, wgs)),
           None if wfs is None else tuple(map(float, wfs)),
           None if grp_ptr is None else tuple(map(int, grp_ptr)),
           None if grp_indices is None else tuple(map(int, grp_indices)))
    if key not in _blk_cache:
        if len(_blk_cache) > 3000:
            _blk_cache.clear()
        _blk_cache[key] = compiled(blk.build(wgs, wfs, grp_ptr, grp_indices))
    return _blk_cache[key]
