"""Running the real solvers with the guarded trace hooks, turning each observed transition into a
request for the Lean model (level S correspondence), and the semantic oracles shared by the
solver-level properties (C01, C03, C04, C05, C17, C19 ...)."""
import math

import numpy as np

from . import ref
from .impl import Pen, Dfit, compiled_df, compiled_pen, classify_exc, gen_matrix, to_csc, case_csc, csc_tokens, seed_numba
from .proto import fb, b as fbool, vec, mat, decode, close, same, canon

ACD_DATAFITS = ("quadratic", "wquadratic", "logistic", "huber", "svc")


class CDCase:
    def __init__(self, df, pen, wts, X, y, sw, knobs, sparse=False, w_init=None, label=""):
        self.df, self.pen, self.wts, self.X, self.y, self.sw = df, pen, np.asarray(wts, float), X, y, sw
        self.knobs, self.sparse, self.w_init, self.label = dict(knobs), sparse, w_init, label

    @property
    def fit_intercept(self):
        return bool(self.knobs.get("fit_intercept", True))

    def describe(self):
        return dict(solver="AndersonCD", datafit=self.df.describe(), penalty=self.pen.describe(),
                    weights=self.wts.tolist(), X=self.X.tolist(), y=self.y.tolist(), sw=self.sw.tolist(),
                    knobs=self.knobs, sparse=self.sparse, explicit_zeros=getattr(self, 'explicit_zeros', None),
                    w_init=None if self.w_init is None else np.asarray(self.w_init).tolist(), label=self.label)

    def signature(self, **kw):
        return dict(solver="AndersonCD", datafit=self.df.cls_name(), penalty=self.pen.cls_name(),
                    positive=bool(self.pen.positive), fit_intercept=self.fit_intercept,
                    ws_strategy=self.knobs.get("ws_strategy", "subdiff"), sparse=self.sparse,
                    warm=self.w_init is not None, **kw)

    def prob_tokens(self):
        n, p = self.X.shape
        return (f"{self.df.tokens()} {n} {p} {mat(self.X)} {vec(self.sw)[len(str(n))+1:]} "
                f"{vec(self.y)[len(str(n))+1:]} {self.pen.tokens()} {vec(self.wts)[len(str(p))+1:]} "
                f"{fbool(self.fit_intercept)}")

    def state_tokens(self, w, Xw):
        p = self.X.shape[1]
        bb = w[p] if self.fit_intercept else 0.0
        s = " ".join(fb(x) for x in w[:p]) + " " + fb(bb)
        if len(Xw):
            s += " " + " ".join(fb(x) for x in Xw)
        return s


def run_acd(case):
    """run the real AndersonCD on the case; returns dict(out=..., trace=[...], w0, Xw0)"""
    from skglm import _verif
    from skglm.solvers import AndersonCD
    n, p = case.X.shape
    solver = AndersonCD(**case.knobs)
    datafit = compiled_df(case.df, case.sw)
    weighted = case.pen.kind in Pen.WEIGHTED
    penalty = compiled_pen(case.pen, case.wts if weighted else None)
    Xin = case_csc(case) if case.sparse else np.asfortranarray(case.X)
    w_init = Xw_init = None
    if case.w_init is not None:
        w_init = np.array(case.w_init, dtype=float)
        bb = w_init[p] if case.fit_intercept else 0.0
        Xw_init = case.X @ w_init[:p] + bb
    elif getattr(case, "explicit_buffers", False):
        # cold start through caller-owned buffers, so that the returned Xw can be compared with X w + b
        w_init = np.zeros(p + case.fit_intercept)
        Xw_init = np.zeros(n)
    seed_numba()
    _verif.start()
    try:
        out = solver.solve(Xin, case.y.copy(), datafit, penalty, w_init, Xw_init)
        err = None
    except Exception as e:  # noqa: BLE001
        out, err = None, classify_exc(e) + ":" + str(e)[:200]
    trace = _verif.stop() or []
    return dict(out=out, err=err, trace=trace, w_buf=w_init, Xw_buf=Xw_init)


def tol_close(a, b_, rtol=1e-8, atol=1e-10):
    return close(float(a), float(b_), rtol, atol)


def check_trace_acd(case, res, rep, lean_drive):
    """level S: every observed transition is a transition of the model; the event sequence follows
    the model's control flow; the returned values are what the events say."""
    tr = res["trace"]
    if res["err"] is not None or not tr:
        return
    n, p = case.X.shape
    fi = case.fit_intercept
    K = case.knobs
    fixpoint = K.get("ws_strategy", "subdiff") == "fixpoint"
    prob = case.prob_tokens()
    csc = csc_tokens(case_csc(case)) if case.sparse else None
    reqs = []   # (line, expected tokens, what, comparison mode)
    ctl = []    # control-flow findings

    def st(ev):
        return case.state_tokens(ev["w"], ev["Xw"])

    prev = None         # (w, Xw) before the current event
    ws = None
    last_and = None
    last_accept = None
    cur_head = None
    i = 0
    n_obj = 0
    for kind, ev in tr:
        if kind == "head":
            line = f"cd_head {prob} {st(ev)} {fbool(fixpoint)} {K.get('p0', 10)}"
            opt = ev["opt"]
            exp = [float(x) for x in opt] + [float(ev["intercept_opt"]), float(ev["stop_crit"])]
            reqs.append((line, exp, "head", "head"))
            cur_head = ev
            prev = (ev["w"], ev["Xw"])
        elif kind == "ws":
            ws = [int(j) for j in ev["ws"]]
            # contract of argpartition: size and membership of the top scores
            if len(ws) != int(ev["ws_size"]) or len(set(ws)) != len(ws) or any(j < 0 or j >= p for j in ws):
                ctl.append(f"working set {ws} is not a set of ws_size={ev['ws_size']} features")
            reqs[-1] = (reqs[-1][0], reqs[-1][1] + [float(ev["ws_size"])], "head", "head+ws")
        elif kind == "epoch":
            wl = " ".join(str(j) for j in ws)
            pw, pXw = prev
            if case.sparse:
                line = f"cd_epoch_sp {prob} {csc} {case.state_tokens(pw, pXw)} {len(ws)} {wl}"
            else:
                line = f"cd_epoch {prob} {case.state_tokens(pw, pXw)} {len(ws)} {wl}"
            reqs.append((line, None, "epoch", ("state", ev["w"], ev["Xw"])))
            prev = (ev["w"], ev["Xw"])
        elif kind == "intercept":
            pw, pXw = prev
            line = f"cd_intercept {prob} {case.state_tokens(pw, pXw)}"
            reqs.append((line, None, "intercept", ("state", ev["w"], ev["Xw"])))
            prev = (ev["w"], ev["Xw"])
        elif kind == "anderson":
            last_and = ev
        elif kind == "accept":
            last_accept = ev
        elif kind == "extrap":
            if ev["is_extrap"]:
                pw, pXw = prev
                A = last_and
                Kb = A["arr_w"].shape[1] - 1
                wl = " ".join(str(j) for j in ws)
                bufs = []
                for k in range(1, Kb + 1):
                    wk = np.array(pw, dtype=float)
                    wk[ws] = A["arr_w"][:len(ws), k]
                    if fi:
                        wk[p] = A["arr_w"][len(ws), k]
                    bufs.append(case.state_tokens(wk, A["arr_Xw"][:, k]))
                line = (f"cd_extrap {prob} {case.state_tokens(pw, pXw)} {len(ws)} {wl} {Kb} "
                        + " ".join(bufs) + " " + " ".join(fb(c) for c in A["C"]))
                ev = dict(ev, _anderson=A, _prev=(np.array(pw, copy=True), np.array(pXw, copy=True)), _accept=last_accept)
                last_accept = None
                reqs.append((line, None, "extrap", ("extrap", ev, list(ws))))
            prev = (ev["w"], ev["Xw"])
        elif kind == "inner":
            wl = " ".join(str(j) for j in ws)
            line = f"cd_scores_ws {prob} {st(ev)} {fbool(fixpoint)} {len(ws)} {wl}"
            reqs.append((line, [float(ev["stop_crit_in"])], "inner", "vals"))
        elif kind == "obj":
            line = f"cd_obj {prob} {st(ev)}"
            reqs.append((line, [float(ev["p_obj"])], "obj", "vals"))
            n_obj += 1
    outs = lean_drive([r[0] for r in reqs])
    sig0 = case.signature()
    for (line, exp, what, mode), out in zip(reqs, outs):
        m = decode(out)
        rep.traces += 0
        rep.count(f"S:{what}", False, hash(line))
        if any(isinstance(t, str) and t.startswith("err:") for t in m):
            rep.disagree("S:" + what, line[:300], "(impl transition)", m, dict(sig0, site="AndersonCD._solve:" + what),
                         case=case.describe())
            continue
        ok = True
        if mode in ("vals",):
            ok = same(exp, m, 1e-7, 1e-9)
            got = exp
        elif mode in ("head", "head+ws"):
            mm = m[:len(exp)]
            ok = same(exp, mm, 1e-7, 1e-9)
            got = exp
        elif mode[0] == "state":
            _, w1, Xw1 = mode
            got = [float(x) for x in w1[:p]] + [float(w1[p]) if fi else 0.0] + [float(x) for x in Xw1]
            ok = same(got, m, 1e-7, 1e-9)
        elif mode[0] == "extrap":
            _, ev, wsl = mode
            # model: acc state, obj cur, obj acc, out state
            ns = p + 1 + n
            acc, objs, outst = m[:ns], m[ns:ns + 2], m[ns + 2:]
            wacc = ev["w_acc"]
            got_acc = [float(wacc[j]) for j in range(p)] + [float(wacc[p]) if fi else 0.0] + \
                      [float(x) for x in ev["Xw_acc"]]
            w1, Xw1 = ev["w"], ev["Xw"]
            got_out = [float(x) for x in w1[:p]] + [float(w1[p]) if fi else 0.0] + [float(x) for x in Xw1]
            # a near-tie in the acceptance test may legitimately go either way
            tie = (isinstance(objs[0], float) and isinstance(objs[1], float)
                   and abs(objs[0] - objs[1]) <= 1e-9 * (1 + abs(objs[0])))
            # an extrapolated coordinate within rounding of a constraint bound may be feasible in one
            # floating-point evaluation and infeasible in the other
            bound_tie = False
            wa = np.asarray(wacc[:p], float)
            lo = float(np.min(wa)) if p else 0.0
            hi = float(np.max(wa)) if p else 0.0
            pk = case.pen
            if (pk.kind in Pen.HAS_POS and pk.positive) or pk.kind in ("pos", "box"):
                if abs(min(lo, 0.0)) <= 1e-9 and (pk.kind != "box" or abs(max(hi - pk.alpha, 0.0)) <= 1e-9):
                    if (lo < 1e-9) or (pk.kind == "box" and hi > pk.alpha - 1e-9):
                        tie = True
                        bound_tie = True
            # the two objective values the implementation compared are the model's objective at the current and at
            # the extrapolated point (each evaluated with that point's own coefficients and model fit)
            acc_ev = ev.get("_accept")
            if acc_ev is not None and all(isinstance(t, float) for t in objs):
                io = [float(acc_ev["p_obj"]), float(acc_ev["p_obj_acc"])]
                scale_o = 1e-7 * (1 + max(abs(t) for t in objs if np.isfinite(t)) if any(np.isfinite(t) for t in objs) else 1.0)
                bad_o = [k for k in range(2) if not ((np.isinf(io[k]) and np.isinf(objs[k])) or abs(io[k] - objs[k]) <= scale_o
                                                     * max(1.0, float(np.max(np.abs(ev["_anderson"]["C"]))))
                                                     or (bound_tie and np.isinf(io[k]) != np.isinf(objs[k]))
                                                     # exp() overflow in the Float evaluation of the model (the code computes
                                                     # the logistic loss in a stable form): overflow is not modelled
                                                     or (np.isinf(objs[k]) and np.isfinite(io[k]) and case.df.kind == "logistic"
                                                         and float(np.max(np.abs(ev["Xw_acc"]))) > 500))]
                if bad_o:
                    rep.disagree("S:accept-objectives", line[:300], io, objs, dict(sig0, site="AndersonCD._solve:accept"),
                                 case=case.describe())
            # cancellation in sum_k c_k w_k: errors scale with |c| * |iterates|
            A = ev.get("_anderson")
            cs = 1.0 + (float(np.max(np.abs(A["C"]))) if A is not None else 0.0) * (
                1.0 + (float(np.max(np.abs(A["arr_Xw"]))) if A is not None else 0.0))
            at = 1e-9 * cs
            ok_acc = same(got_acc, acc, 1e-6, at)
            pw_, pXw_ = ev["_prev"]
            got_cur = [float(x) for x in pw_[:p]] + [float(pw_[p]) if fi else 0.0] + [float(x) for x in pXw_]
            ok_out = same(got_out, outst, 1e-6, at) or (tie and (same(got_out, acc, 1e-6, at)
                                                                 or same(got_out, got_acc, 1e-6, at)
                                                                 or same(got_out, got_cur, 1e-6, at)))
            ok = ok_acc and ok_out
            got = dict(acc=got_acc, out=got_out)
            m = dict(acc=acc, objs=objs, out=outst)
        if not ok:
            rep.disagree("S:" + what, line[:200] + " ...", got if not isinstance(got, list) else got[:40],
                         m if not isinstance(m, list) else m[:40],
                         dict(sig0, site="AndersonCD._solve:" + what), case=case.describe())
    rep.traces += 1
    # ---- control flow (shape of the event sequence) and returned values
    check_ctl_acd(case, res, rep, ctl)


def check_ctl_acd(case, res, rep, ctl):
    tr = [(k, e) for k, e in res["trace"] if k in ("head", "ws", "epoch", "intercept", "extrap", "inner", "obj")]
    K = case.knobs
    fi = case.fit_intercept
    tol = K.get("tol", 1e-4)
    max_iter, max_epochs = K.get("max_iter", 50), K.get("max_epochs", 50000)
    p = case.X.shape[1]
    pos = 0

    def nxt(kind):
        nonlocal pos
        if pos < len(tr) and tr[pos][0] == kind:
            pos += 1
            return tr[pos - 1][1]
        ctl.append(f"expected event '{kind}' at position {pos}, got "
                   f"'{tr[pos][0] if pos < len(tr) else 'end'}'")
        return None
    objs, last_stop = [], math.inf
    t = 0
    done = False
    while t < max_iter and not ctl:
        h = nxt("head")
        if h is None:
            break
        last_stop = float(h["stop_crit"])
        if last_stop <= tol:
            done = True
            break
        w_ = nxt("ws")
        if w_ is None:
            break
        ws_size = int(w_["ws_size"])
        for epoch in range(max_epochs):
            if nxt("epoch") is None:
                break
            if fi and nxt("intercept") is None:
                break
            if nxt("extrap") is None:
                break
            if epoch % 10 == 0:
                e = nxt("inner")
                if e is None:
                    break
                sc = float(e["stop_crit_in"])
                if ws_size == p:
                    brk = sc <= tol
                else:
                    brk = sc < 0.3 * last_stop
                if brk:
                    break
        if ctl:
            break
        o = nxt("obj")
        if o is None:
            break
        objs.append(float(o["p_obj"]))
        t += 1
    if not ctl and pos != len(tr):
        ctl.append(f"{len(tr) - pos} events after the run should have ended (first: '{tr[pos][0]}')")
    out = res["out"]
    if not ctl and out is not None:
        w, obj_out, stop = out
        if len(obj_out) != len(objs) or not same([float(x) for x in obj_out], objs, 0, 0):
            ctl.append(f"returned history {list(obj_out)} is not the list of per-iteration objectives {objs}")
        if not (float(stop) == last_stop or (math.isinf(stop) and math.isinf(last_stop))):
            ctl.append(f"returned stop_crit {stop} is not the last computed one {last_stop}")
    for c in ctl:
        rep.disagree("S:control", c, "event sequence", "model control flow",
                     dict(case.signature(), site="AndersonCD._solve:control"), case=case.describe())


# ------------------------------------------------------------------ semantic oracles (real outputs)

def split(case, w):
    p = case.X.shape[1]
    return np.asarray(w[:p], float), (float(w[p]) if case.fit_intercept else 0.0)


def true_obj(case, w):
    ww, bb = split(case, w)
    return ref.objective(case.df, case.pen, case.wts, case.X, case.sw, case.y, ww, bb)


def oracle_finite_feasible(case, res, rep, prop_site="AndersonCD.solve"):
    """C04 / C19: finite numbers, constraints hold at whatever point the run stopped"""
    out = res["out"]
    if out is None:
        return
    w, obj_out, stop = out
    ww, bb = split(case, w)
    sig = case.signature(site=prop_site)
    if not np.all(np.isfinite(w)) or not np.all(np.isfinite(obj_out)):
        rep.violate("solver returned non-finite coefficients / objective history",
                    dict(sig, kind="nonfinite"), case=case.describe(), impl_output=dict(w=np.asarray(w).tolist(),
                                                                                         obj=np.asarray(obj_out).tolist()))
    pen = case.pen
    lo_ok = (not (pen.kind in Pen.HAS_POS and pen.positive) and pen.kind not in ("pos", "box")) or bool(np.all(ww >= 0))
    hi_ok = pen.kind != "box" or bool(np.all(ww <= pen.alpha))
    if not (lo_ok and hi_ok):
        rep.violate("solver returned an infeasible coefficient vector (constraint violated at the stopping point)",
                    dict(sig, kind="infeasible"), case=case.describe(), impl_output=np.asarray(w).tolist())


def oracle_buffer(case, res, rep):
    """C05: on return the caller's model-fit buffer equals X w + b for the returned coefficients"""
    out = res["out"]
    if out is None or res["Xw_buf"] is None:
        return
    w = out[0]
    ww, bb = split(case, w)
    want = case.X @ ww + bb
    got = res["Xw_buf"]
    scale = 1 + float(np.max(np.abs(want))) if len(want) else 1.0
    if w is not res["w_buf"] or not np.all(np.abs(got - want) <= 1e-7 * scale):
        rep.violate("after solve the caller's Xw buffer is not X w + b for the returned coefficients",
                    dict(case.signature(site="AndersonCD.solve"), kind="buffer"), case=case.describe(),
                    impl_output=dict(Xw=np.asarray(got).tolist(), X_w_plus_b=want.tolist(), w=np.asarray(w).tolist()))


def oracle_cert(case, res, rep):
    """C01: stop_crit <= tol  =>  first-order optimality within tol, recomputed from X, y, w alone"""
    out = res["out"]
    if out is None:
        return
    w, obj_out, stop = out
    tol = case.knobs.get("tol", 1e-4)
    if not (stop <= tol) or not np.all(np.isfinite(w)):
        return
    ww, bb = split(case, w)
    if case.knobs.get("ws_strategy", "subdiff") == "subdiff":
        v, d = ref.cert_subdiff(case.df, case.pen, case.wts, case.X, case.sw, case.y, ww, bb, case.fit_intercept)
    else:
        # fixed-point residual with independently recomputed gradient and constants (the prox kernel
        # itself is the subject of C07)
        g = ref.grad_w(case.df, case.X, case.sw, case.y, ww, bb)
        L = ref.lipschitz(case.df, case.X, case.sw)
        pobj = compiled_pen(case.pen, case.wts if case.pen.kind in Pen.WEIGHTED else None)
        d = []
        for j in range(len(ww)):
            if L[j] == 0:
                d.append(0.0)
            else:
                d.append(abs(ww[j] - pobj.prox_1d(float(ww[j] - g[j] / L[j]), float(1 / L[j]), j)))
        v = max(d) if d else 0.0
        if case.fit_intercept:
            v = max(v, abs(ref.grad_b(case.df, case.X, case.sw, case.y, ww, bb)))
    slack = 1e-7 * (1 + float(np.max(np.abs(case.X))) * (1 + float(np.max(np.abs(ww))) if len(ww) else 1))
    if not v <= tol * (1 + 1e-6) + slack:
        rep.violate("stop_crit <= tol was returned but the optimality violation recomputed from X, y, w is larger",
                    dict(case.signature(site="AndersonCD.solve"), kind="certificate"), case=case.describe(),
                    impl_output=dict(w=np.asarray(w).tolist(), stop_crit=float(stop)),
                    oracle=dict(name="independent recomputation of the optimality violation", violation=v, tol=tol,
                                per_feature=[float(x) for x in d]))


def oracle_stop_value(case, res, rep):
    """C17: when a run stops on its tolerance the returned stopping value is (an upper bound of, and for unit
    intercept scale equal to) the optimality violation of the returned point"""
    out = res["out"]
    if out is None:
        return
    w, obj_out, stop = out
    tol = case.knobs.get("tol", 1e-4)
    if not (stop <= tol) or case.knobs.get("ws_strategy", "subdiff") != "subdiff" or not np.all(np.isfinite(w)):
        return
    ww, bb = split(case, w)
    v, d = ref.cert_subdiff(case.df, case.pen, case.wts, case.X, case.sw, case.y, ww, bb, case.fit_intercept)
    slack = 1e-7 * (1 + float(np.max(np.abs(case.X))) * (1 + (float(np.max(np.abs(ww))) if len(ww) else 0)))
    if not v <= stop * (1 + 1e-6) + slack:
        rep.violate("the run stopped on its tolerance but the returned stopping value is smaller than the optimality "
                    "violation of the returned point", dict(case.signature(site="AndersonCD.solve"), kind="stop-value"),
                    case=case.describe(), impl_output=dict(stop_crit=float(stop), w=np.asarray(w).tolist()),
                    oracle=dict(name="violation recomputed from X, y, w", violation=v))


def oracle_history(case, res, rep):
    """C17: one entry per outer iteration performed, each the true objective of the iterate then;
    last entry = objective of the returned point"""
    out = res["out"]
    if out is None:
        return
    w, obj_out, stop = out
    objs_ev = [e for k, e in res["trace"] if k == "obj"]
    heads = [e for k, e in res["trace"] if k == "head"]
    sig = dict(case.signature(site="AndersonCD.solve"))
    n_bodies = len(objs_ev)
    if len(obj_out) != n_bodies:
        rep.violate(f"objective history has {len(obj_out)} entries for {n_bodies} outer iterations performed",
                    dict(sig, kind="history-length"), case=case.describe(), impl_output=np.asarray(obj_out).tolist())
        return
    for tix, (e, rec) in enumerate(zip(objs_ev, obj_out)):
        want = true_obj(case, e["w"])
        if not (abs(want - rec) <= 1e-7 * (1 + abs(want)) or (math.isinf(want) and math.isinf(rec))):
            rep.violate("objective history entry is not the true objective of the iterate at that time",
                        dict(sig, kind="history-value"), case=case.describe(),
                        impl_output=dict(entry=float(rec), index=tix),
                        oracle=dict(name="loss + penalty recomputed from X, y, w (intercept unpenalised)", value=want))
            break
    if len(obj_out):
        want = true_obj(case, w)
        if not abs(want - obj_out[-1]) <= 1e-7 * (1 + abs(want)):
            rep.violate("last history entry is not the objective of the returned point",
                        dict(sig, kind="history-last"), case=case.describe(),
                        impl_output=dict(entry=float(obj_out[-1])), oracle=dict(value=want))


def oracle_descent(case, res, rep, start_obj=None):
    """C03: the returned point is no worse than the start"""
    out = res["out"]
    if out is None:
        return None
    w = out[0]
    p = case.X.shape[1]
    w0 = np.zeros(p + case.fit_intercept) if case.w_init is None else np.asarray(case.w_init, float)
    f0 = true_obj(case, w0) if start_obj is None else start_obj
    f1 = true_obj(case, w)
    if not f1 <= f0 + 1e-9 * (1 + abs(f0)):
        rep.violate("the returned point has a larger true objective than the starting point",
                    dict(case.signature(site="AndersonCD.solve"), kind="ascent"), case=case.describe(),
                    impl_output=dict(w=np.asarray(w).tolist()), oracle=dict(start=f0, returned=f1))
    return f1


# ------------------------------------------------------------------ generators

def gen_pen(rng, kinds=None):
    kinds = kinds or ["l1", "l1", "l1l2", "wl1", "mcp", "wmcp", "scad", "box", "pos", "l05", "l23", "logsum"]
    k = rng.choice(kinds)
    a = rng.choice([0.01, 0.05, 0.1, 0.3, 1.0])
    pos = rng.random() < 0.35
    if k == "l1":
        return Pen("l1", a, positive=pos)
    if k == "wl1":
        return Pen("wl1", a, positive=pos)
    if k == "l1l2":
        return Pen("l1l2", a, l1_ratio=rng.choice([0.1, 0.5, 0.9, 1.0]), positive=pos)
    if k == "mcp":
        return Pen("mcp", a, gamma=rng.choice([3.0, 10.0, 30.0]), positive=pos)
    if k == "wmcp":
        return Pen("wmcp", a, gamma=rng.choice([3.0, 10.0, 30.0]), positive=pos)
    if k == "scad":
        return Pen("scad", a, gamma=rng.choice([3.7, 10.0, 30.0]))
    if k == "box":
        return Pen("box", rng.choice([0.1, 1.0, 10.0]))
    if k == "pos":
        return Pen("pos")
    if k == "logsum":
        return Pen("logsum", a, eps=rng.choice([0.5, 1.0, 4.0]))
    return Pen(k, a)


def normalise_cols(X, df, sw):
    """scale columns so that non-convex penalties sit inside their well-posed step range (L_j = 1)"""
    L = ref.lipschitz(df, X, sw)
    X = X.copy()
    for j in range(X.shape[1]):
        if L[j] > 0:
            X[:, j] /= math.sqrt(L[j])
    return np.asfortranarray(X)


def gen_case(rng, df_kinds=None, pen_kinds=None, degenerate=False, warm=None, budgets=None,
             force_positive=False, **_ignored):
    dk = rng.choice(df_kinds or ["quadratic", "quadratic", "logistic", "huber", "wquadratic", "svc"])
    df = Dfit("huber", rng.choice([0.5, 1.35, 5.0])) if dk == "huber" else Dfit(dk)
    pen = gen_pen(rng, pen_kinds)
    if force_positive and pen.kind in Pen.HAS_POS:
        pen.positive = True
    if dk == "svc":
        pen = Pen("box", rng.choice([0.1, 1.0, 10.0]))
    n, p = rng.randrange(2, 13), rng.randrange(1, 11)
    mode = rng.choice(["gauss", "gauss", "dyadic", "sparse"] + (["degenerate"] * 3 if degenerate else []))
    X = gen_matrix(rng, n, p, mode)
    sw = np.ones(n)
    if dk == "wquadratic":
        sw = np.array([rng.choice([0.5, 1.0, 1.0, 2.0, 3.0]) for _ in range(n)])
    y = df.gen_y(rng, n, structured=rng.random() < 0.4)
    if rng.random() < 0.3 and dk in ("quadratic", "huber", "wquadratic"):
        y = y + 5.0          # non-centred targets: the intercept matters
    if dk == "svc":
        # X is yXT of shape (n_features, n_samples): rows = features; coefficients = dual variables
        pass
    nonconvex = pen.kind in ("mcp", "wmcp", "scad", "l05", "l23", "logsum")
    if nonconvex and mode != "degenerate":
        X = normalise_cols(X, df, sw)
        if pen.kind in ("mcp", "wmcp", "scad") and pen.gamma <= 1.0 / 0.9:
            pen.gamma = 3.0
    wts = np.ones(p)
    if pen.kind in Pen.WEIGHTED:
        wts = np.array([rng.choice([0.0, 0.5, 1.0, 1.0, 2.0]) for _ in range(p)])
        if pen.kind == "wmcp":
            wts = np.maximum(wts, 0.5)
    b = budgets or {}
    knobs = dict(
        max_iter=b.get("max_iter", rng.choice([0, 1, 2, 3, 5, 20, 50])),
        max_epochs=b.get("max_epochs", rng.choice([1, 2, 5, 6, 7, 8, 11, 12, 13, 14, 30, 200])),
        p0=rng.choice([1, 2, 10]),
        tol=rng.choice([1e-1, 1e-3, 1e-6, 1e-10]),
        ws_strategy=rng.choice(["subdiff", "subdiff", "fixpoint"]),
        fit_intercept=(rng.random() < 0.5) and dk != "svc",
    )
    w_init = None
    if warm if warm is not None else (rng.random() < 0.4):
        w_init = np.array([rng.choice([0.0, 0.0, 0.5, 1.0, -1.0, 2.0]) for _ in range(p + knobs["fit_intercept"])])
        if (pen.kind in Pen.HAS_POS and pen.positive) or pen.kind in ("pos", "box"):
            w_init[:p] = np.abs(w_init[:p])
        if pen.kind == "box":
            w_init[:p] = np.minimum(w_init[:p], pen.alpha)
    if pen.kind == "wl1" and rng.random() < 0.25 and dk != "svc":
        # warm start whose support does not fit in the working set: many unpenalised features at zero,
        # all penalised features non-zero, smallest p0
        p = max(p, 10)
        X = gen_matrix(rng, n, p, "gauss")
        u = rng.randrange(3, 6)
        wts = np.array([0.0] * u + [rng.choice([0.5, 1.0, 2.0]) for _ in range(p - u)])
        flip = rng.random() < 0.6          # which tied features argpartition drops depends on their position
        knobs["p0"] = 1
        knobs["max_epochs"] = rng.choice([7, 8, 13, 14, 30])
        knobs["max_iter"] = rng.choice([1, 2, 5])
        w_init = np.array([0.0] * u + [rng.choice([0.5, 1.0, -1.0, 2.0]) for _ in range(p - u)]
                          + ([rng.choice([0.0, 1.0])] if knobs["fit_intercept"] else []))
        if pen.positive:
            w_init[:p] = np.abs(w_init[:p])
        if flip:
            wts = wts[::-1].copy()
            w_init[:p] = w_init[:p][::-1].copy()
        mode = "support-exceeds-ws"
    elif rng.random() < 0.3 and dk != "svc" and pen.kind not in ("box", "pos"):
        # working-set churn: more features than samples, small working sets, several outer iterations whose
        # inner loops end exactly on an extrapolation epoch
        p = rng.randrange(8, 15)
        n = rng.randrange(4, 9)
        base = np.array([[rng.gauss(0, 1) for _ in range(p)] for _ in range(n)])
        for j in range(1, p):
            base[:, j] = 0.6 * base[:, j - 1] + 0.8 * base[:, j]
        X = np.asfortranarray(base)
        if nonconvex:
            X = normalise_cols(X, df, np.ones(n))
        sw = np.ones(n) if dk != "wquadratic" else np.array([rng.choice([0.5, 1.0, 2.0]) for _ in range(n)])
        y = df.gen_y(rng, n, structured=False)
        wts = np.ones(p)
        if pen.kind in Pen.WEIGHTED:
            wts = np.array([rng.choice([0.5, 1.0, 1.0, 2.0]) for _ in range(p)])
        pen.alpha = rng.choice([0.003, 0.01, 0.03])
        knobs.update(p0=rng.choice([1, 2, 3]), max_epochs=rng.choice([7, 7, 14, 21]),
                     max_iter=rng.choice([5, 10, 20]), tol=rng.choice([1e-6, 1e-10]))
        w_init = None
        mode = "ws-churn"
    elif rng.random() < 0.3 and dk != "svc" and pen.kind not in ("box", "pos", "l05", "l23", "logsum"):
        # medium-size sparse-regression problem solved to convergence with a tight / default epoch budget
        n, p = 30, 60
        base = np.array([[rng.gauss(0, 1) for _ in range(p)] for _ in range(n)])
        base[:, 1:] += 0.7 * base[:, :-1]
        X = np.asfortranarray(base)
        sw = np.ones(n) if dk != "wquadratic" else np.array([rng.choice([0.5, 1.0, 2.0]) for _ in range(n)])
        if nonconvex:
            X = normalise_cols(X, df, sw)
        wt = np.zeros(p)
        for j in rng.sample(range(p), 8):
            wt[j] = 2 * rng.gauss(0, 1)
        lin = X @ wt
        if dk == "logistic":
            y = np.where(lin + 0.5 * np.array([rng.gauss(0, 1) for _ in range(n)]) > 0, 1.0, -1.0)
        else:
            y = lin + 0.5 * np.array([rng.gauss(0, 1) for _ in range(n)])
        wts = np.ones(p)
        if pen.kind in Pen.WEIGHTED:
            wts = np.array([rng.choice([0.5, 1.0, 1.0, 2.0]) for _ in range(p)])
        g0 = ref.grad_w(df, X, sw, y, np.zeros(p), 0.0)
        pen.alpha = rng.choice([0.01, 0.03, 0.1]) * float(np.max(np.abs(g0)))
        knobs.update(p0=rng.choice([2, 10]), max_epochs=rng.choice([7, 7, 14, 50000]), max_iter=50,
                     tol=rng.choice([1e-4, 1e-6]))
        w_init = None
        mode = "medium"
    sparse = rng.random() < 0.35
    c = CDCase(df, pen, wts, X, y, sw, knobs, sparse=sparse, w_init=w_init, label=mode)
    if sparse and rng.random() < 0.4:
        c.explicit_zeros = rng.randrange(1 << 30)     # CSC with explicitly stored zeros (null columns included)
    c.explicit_buffers = rng.random() < 0.6
    return c
