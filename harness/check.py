"""Entry point: ./check <property> [--tier quick|thorough] [--replay file]"""
import argparse
import importlib
import json
import os
import sys

sys.path.insert(0, os.path.dirname(os.path.dirname(os.path.abspath(__file__))))
from harness import core  # noqa: E402


def main():
    ap = argparse.ArgumentParser()
    ap.add_argument("prop")
    ap.add_argument("--tier", default=os.environ.get("VERIF_TIER", "quick"))
    ap.add_argument("--replay")
    ap.add_argument("--no-lean", action="store_true", help="development only: skip the Lean build")
    a = ap.parse_args()
    seed = int(os.environ.get("VERIF_SEED", "0"))
    mod = importlib.import_module(f"harness.props.{a.prop.lower()}")
    ctx = core.Ctx(a.prop, a.tier, seed)
    if a.replay:
        payload = json.load(open(a.replay))
        rc = mod.replay(ctx, payload)
        sys.exit(rc)
    rep = core.Report(a.prop)
    if hasattr(mod, "prepare"):
        mod.prepare(ctx, rep)          # e.g. regenerate the Lean tables from the current source
    if a.no_lean:
        leanres = dict(ok=True, failures=[], obligations=0, discharged=0, checker_cmd="(skipped)")
    else:
        leanres = core.lean_check(mod.LEAN_MODULES, thorough=ctx.thorough)
    if leanres["ok"] or os.path.exists(core.lean.DRIVER):
        mod.run(ctx, rep)
    else:
        rep.notes.append("driver not built; correspondence skipped")
    sys.exit(core.conclude(ctx, rep, leanres))


if __name__ == "__main__":
    main()
