"""Black-box runs of every solver (no hooks needed) with the semantic oracles of the solver-level
properties: certificate (C01), descent (C03), feasibility / finiteness (C04, C19), buffers (C05),
history (C17).  Reference mathematics is written from the documentation (harness/ref.py,
harness/blocks.py), never from skglm's own formulas."""
import math

import numpy as np

from . import ref
from .blocks import Blk, group_layout
from .impl import Pen, Dfit, compiled, classify_exc, gen_matrix, to_csc, case_csc, seed_numba
from .solvers import gen_pen, normalise_cols

SOLVERS = ("AndersonCD", "ProxNewton", "GramCD", "FISTA", "LBFGS", "GroupBCD", "GroupProxNewton",
           "MultiTaskBCD")


class BBCase:
    def __init__(self, solver, family, df, pen, X, y, knobs, sw=None, wts=None, groups=None,
                 wgs=None, wfs=None, sparse=False, w_init=None, label=""):
        self.solver, self.family, self.df, self.pen = solver, family, df, pen
        self.X, self.y, self.knobs = X, y, dict(knobs)
        n, p = X.shape
        self.sw = np.ones(n) if sw is None else sw
        self.wts = np.ones(p) if wts is None else np.asarray(wts, float)
        self.groups, self.wgs, self.wfs = groups, wgs, wfs
        self.sparse, self.w_init, self.label = sparse, w_init, label

    @property
    def fit_intercept(self):
        if self.solver in ("FISTA", "LBFGS"):
            return False
        return bool(self.knobs.get("fit_intercept", False))

    def describe(self):
        d = dict(solver=self.solver, datafit=self.df.describe(), penalty=self.pen.describe(),
                 X=self.X.tolist(), y=np.asarray(self.y).tolist(), knobs=self.knobs, sparse=self.sparse,
                 w_init=None if self.w_init is None else np.asarray(self.w_init).tolist(), label=self.label,
                 explicit_zeros=getattr(self, 'explicit_zeros', None))
        if self.family == "sep":
            d.update(weights=self.wts.tolist(), sw=self.sw.tolist())
        if self.family == "group":
            d.update(groups=self.groups, weights_groups=np.asarray(self.wgs).tolist(),
                     weights_features=None if self.wfs is None else np.asarray(self.wfs).tolist())
        return d

    def signature(self, **kw):
        return dict(solver=self.solver, datafit=self.df.cls_name() if self.family != "group" else
                    dict(quadratic="QuadraticGroup", logistic="LogisticGroup")[self.df.kind],
                    penalty=self.pen.cls_name(), positive=bool(getattr(self.pen, "positive", False)),
                    fit_intercept=self.fit_intercept, sparse=self.sparse, warm=self.w_init is not None,
                    ws_strategy=self.knobs.get("ws_strategy", self.knobs.get("opt_strategy", "subdiff")), **kw)

    # ---- real objects
    def build(self):
        import skglm.datafits as D
        import skglm.penalties as P
        import skglm.solvers as S
        n, p = self.X.shape
        if self.family == "sep":
            datafit = None if self.solver == "GramCD" else compiled(self.df.build(self.sw))
            if self.solver == "LBFGS":
                penalty = compiled(P.L2(self.pen.alpha))
            else:
                penalty = compiled(self.pen.build(self.wts if self.pen.kind in Pen.WEIGHTED else None))
        elif self.family == "group":
            gp = np.cumsum([0] + [len(g) for g in self.groups]).astype(np.int32)
            gi = np.array([j for g in self.groups for j in g], dtype=np.int32)
            cls = D.QuadraticGroup if self.df.kind == "quadratic" else D.LogisticGroup
            datafit = compiled(cls(gp, gi))
            penalty = compiled(self.pen.build(self.wgs, self.wfs, gp, gi))
        else:
            datafit = compiled(D.QuadraticMultiTask())
            penalty = compiled(self.pen.build())
        solver = getattr(S, self.solver)(**self.knobs)
        return solver, datafit, penalty

    # ---- reference mathematics
    def split(self, w):
        p = self.X.shape[1]
        w = np.asarray(w, float)
        if self.family == "mtl":
            return w[:p], (w[p] if self.fit_intercept else np.zeros(w.shape[1]))
        return w[:p], (float(w[p]) if self.fit_intercept else 0.0)

    def pen_value(self, ww):
        if self.solver == "LBFGS":
            return 0.5 * self.pen.alpha * float(np.sum(ww ** 2))
        if self.family == "sep":
            return sum(self.pen.ref_pen1(float(x), float(t)) for x, t in zip(ww, self.wts))
        if self.family == "group":
            return sum(self.pen.ref_pen(ww[g], self.wgs[k], None if self.wfs is None else np.asarray(self.wfs)[g])
                       for k, g in enumerate(self.groups))
        return sum(self.pen.ref_pen(ww[j]) for j in range(ww.shape[0]))

    def loss(self, ww, bb):
        if self.family == "mtl":
            R = self.y - self.X @ ww - bb
            return float(np.sum(R ** 2)) / (2 * self.X.shape[0])
        return self.df.ref_value(self.sw, self.y, self.X @ ww + bb, ww)

    def objective(self, w):
        ww, bb = self.split(w)
        return self.loss(ww, bb) + self.pen_value(ww)

    def grad(self, ww, bb):
        if self.family == "mtl":
            return self.X.T @ (self.X @ ww + bb - self.y) / self.X.shape[0]
        return ref.grad_w(self.df, self.X, self.sw, self.y, ww, bb)

    def grad_b(self, ww, bb):
        if self.family == "mtl":
            return np.sum(self.X @ ww + bb - self.y, axis=0) / self.X.shape[0]
        return ref.grad_b(self.df, self.X, self.sw, self.y, ww, bb)

    def cert(self, w, rng):
        """first-order optimality violation from X, y, w alone"""
        from .props.c08 import block_dist
        ww, bb = self.split(w)
        g = self.grad(ww, bb)
        if self.solver == "LBFGS":
            d = np.abs(g + self.pen.alpha * ww)
            return float(np.max(d)) if len(d) else 0.0, d.tolist()
        if self.family == "sep":
            d = [ref.dist_subdiff(self.pen, float(t), float(x), -float(gj)) for x, t, gj in zip(ww, self.wts, g)]
        elif self.family == "group":
            d = []
            for k, idx in enumerate(self.groups):
                wf = None if self.wfs is None else np.asarray(self.wfs)[idx]
                d.append(block_dist(rng, self.pen, self.wgs[k], wf, ww[idx], -g[idx])[0])
        else:
            d = [block_dist(rng, self.pen, 1.0, None, ww[j], -g[j])[0] for j in range(ww.shape[0])]
        v = max(d) if d else 0.0
        if self.fit_intercept:
            v = max(v, float(np.max(np.abs(self.grad_b(ww, bb)))))
        return v, [float(x) for x in d]

    def cert_fixpoint(self, w):
        """fixed-point residual max_blocks || w_b - prox(w_b - grad_b / L_b, 1 / L_b) || with the gradient recomputed from
        X, y, w and the block constants recomputed by SVD / the documented formulas; the prox is the compiled kernel
        (held to the documented prox objective by C07).  Blocks with L_b = 0 (null columns / groups) are skipped, as
        documented ("nothing to gain")."""
        solver, datafit, penalty = self.build()
        ww, bb = self.split(w)
        g = self.grad(ww, bb)
        n = self.X.shape[0]
        r = 0.0
        if self.family == "sep":
            c = {"quadratic": 1.0, "wquadratic": None, "logistic": 0.25, "huber": 1.0}.get(self.df.kind, "skip")
            if c == "skip":
                return None
            for j in range(self.X.shape[1]):
                if self.df.kind == "wquadratic":
                    L = float(np.sum(self.sw * self.X[:, j] ** 2) / np.sum(self.sw))
                else:
                    L = c * float(np.sum(self.X[:, j] ** 2)) / n
                if L == 0:
                    continue
                r = max(r, abs(ww[j] - penalty.prox_1d(ww[j] - g[j] / L, 1 / L, j)))
        elif self.family == "group":
            c = 1.0 if self.df.kind == "quadratic" else 0.25
            for k, idx in enumerate(self.groups):
                L = c * float(np.linalg.norm(self.X[:, idx], ord=2) ** 2) / n
                if L == 0:
                    continue
                r = max(r, float(np.linalg.norm(ww[idx] - penalty.prox_1group(ww[idx] - g[idx] / L, 1 / L, k))))
        else:
            for j in range(self.X.shape[1]):
                L = float(np.sum(self.X[:, j] ** 2)) / n
                if L == 0:
                    continue
                r = max(r, float(np.linalg.norm(ww[j] - penalty.prox_1feat(ww[j] - g[j] / L, 1 / L, j))))
        if self.fit_intercept:
            r = max(r, float(np.max(np.abs(self.grad_b(ww, bb)))))
        return r

    def feasible(self, w):
        ww, _ = self.split(w)
        pen = self.pen
        if self.family == "sep" and self.solver != "LBFGS":
            if (pen.kind in Pen.HAS_POS and pen.positive) or pen.kind in ("pos", "box"):
                if np.any(ww < 0):
                    return False
            if pen.kind == "box" and np.any(ww > pen.alpha):
                return False
        if self.family == "group" and pen.kind == "wgl2" and pen.positive and np.any(ww < 0):
            return False
        return True


def run_case(case):
    n, p = case.X.shape
    solver, datafit, penalty = case.build()
    Xin = case_csc(case) if case.sparse else np.asfortranarray(case.X)
    y = np.asfortranarray(case.y.copy()) if case.family == "mtl" else case.y.copy()
    w_init = Xw_init = None
    if case.w_init is not None:
        w_init = np.array(case.w_init, dtype=float, order="C")
        ww, bb = case.split(w_init)
        Xw_init = case.X @ ww + bb
        if case.family == "mtl":
            Xw_init = np.asfortranarray(Xw_init)
    seed_numba()
    try:
        if case.solver in ("FISTA", "ProxNewton", "LBFGS", "GroupProxNewton") and datafit is not None:
            # these solvers do not initialise the datafit themselves; the documented examples do it
            # before calling solve
            if case.sparse and hasattr(datafit, "initialize_sparse"):
                datafit.initialize_sparse(Xin.data, Xin.indptr, Xin.indices, y)
            elif not case.sparse and hasattr(datafit, "initialize"):
                datafit.initialize(Xin, y)
        out = solver.solve(Xin, y, datafit, penalty, w_init, Xw_init)
        err = None
    except Exception as e:  # noqa: BLE001
        out, err = None, classify_exc(e) + ":" + str(e)[:300]
    return dict(out=out, err=err, w_buf=w_init, Xw_buf=Xw_init)


# ------------------------------------------------------------------ oracles

def tol_of(case):
    return case.knobs.get("tol", 1e-4)


def o_finite_feasible(case, res, rep, rng):
    out = res["out"]
    if out is None:
        return
    w, obj, stop = out
    sig = case.signature(site=f"{case.solver}.solve")
    if not np.all(np.isfinite(w)) or not np.all(np.isfinite(np.asarray(obj, float))) or not math.isfinite(float(stop)) \
            and len(obj) > 0:
        rep.violate("solver returned non-finite coefficients / history / stopping value", dict(sig, kind="nonfinite"),
                    case=case.describe(), impl_output=dict(w=np.asarray(w).tolist(), obj=np.asarray(obj).tolist(),
                                                           stop=float(stop)))
        return
    if not case.feasible(w):
        rep.violate("solver returned an infeasible coefficient vector", dict(sig, kind="infeasible"),
                    case=case.describe(), impl_output=np.asarray(w).tolist())


def null_block_check(case, w, stop, tol, rep, rng):
    """blocks whose columns are all zero carry no curvature and are skipped by the fixed-point score: first-order
    optimality there is a statement about the penalty alone"""
    _, dsub = case.cert(w, rng)
    blocks = case.groups if case.family == "group" else [[j] for j in range(case.X.shape[1])]
    for k_, idx in enumerate(blocks):
        if not np.any(case.X[:, idx]) and k_ < len(dsub) and dsub[k_] > tol * (1 + 1e-5) + 1e-9:
            rep.violate("stop_crit <= tol was returned (fixed-point strategy) while the coefficients of an all-zero "
                        "block are not stationary for the penalty",
                        dict(case.signature(site=f"{case.solver}.solve"), kind="certificate-null-block"),
                        case=case.describe(), impl_output=dict(w=np.asarray(w).tolist(), stop_crit=float(stop)),
                        oracle=dict(block=k_, subdiff_distance=float(dsub[k_]), tol=tol))
            return


def o_cert(case, res, rep, rng):
    out = res["out"]
    if out is None:
        return
    w, obj, stop = out
    tol = tol_of(case)
    strat = case.knobs.get("ws_strategy", case.knobs.get("opt_strategy", "subdiff"))
    if case.solver == "FISTA" and not (stop < tol):
        return      # FISTA stops on the strict test stop_crit < tol
    if strat == "fixpoint" and case.solver in ("GroupBCD", "MultiTaskBCD", "ProxNewton") and np.all(np.isfinite(w)):
        # fixed-point strategy: the reported value is the fixed-point residual; recompute it independently
        try:
            v = case.cert_fixpoint(w)
        except Exception:    # noqa: BLE001  (a penalty without the kernel: nothing to compare)
            v = None
        if v is not None:
            ww, _ = case.split(w)
            slack = 1e-6 * (1 + float(np.max(np.abs(case.X))) * (1 + (float(np.max(np.abs(ww))) if ww.size else 0)))
            if stop <= tol:
                null_block_check(case, w, stop, tol, rep, rng)
            if case.solver != "ProxNewton":
                if stop <= tol and not v <= tol * (1 + 1e-5) + slack:
                    rep.violate("stop_crit <= tol was returned (fixed-point strategy) but the fixed-point residual recomputed "
                                "from X, y, w is larger", dict(case.signature(site=f"{case.solver}.solve"), kind="certificate"),
                                case=case.describe(), impl_output=dict(w=np.asarray(w).tolist(), stop_crit=float(stop)),
                                oracle=dict(name="fixed-point residual", violation=v, tol=tol))
                big = case.knobs.get("max_iter", 0) >= 50 and case.knobs.get("max_epochs", 0) >= 100
                if big and not stop <= tol and v <= 1e-3 * tol and case.pen.kind in ("wgl2", "l21"):
                    rep.violate("the solver exhausts a generous budget at a point whose fixed-point residual is (far) below the "
                                "tolerance: the reported stopping value does not describe the returned point",
                                dict(case.signature(site=f"{case.solver}.solve"), kind="stop-value-stuck"),
                                case=case.describe(), impl_output=dict(w=np.asarray(w).tolist(), stop_crit=float(stop)),
                                oracle=dict(name="fixed-point residual", violation=v, tol=tol))
        return
    if not (stop <= tol) or not np.all(np.isfinite(w)) or strat != "subdiff":
        return
    v, d = case.cert(w, rng)
    ww, _ = case.split(w)
    slack = 1e-6 * (1 + float(np.max(np.abs(case.X))) * (1 + (float(np.max(np.abs(ww))) if ww.size else 0)))
    if not v <= tol * (1 + 1e-5) + slack:
        rep.violate("stop_crit <= tol was returned but the optimality violation recomputed from X, y, w is larger",
                    dict(case.signature(site=f"{case.solver}.solve"), kind="certificate"), case=case.describe(),
                    impl_output=dict(w=np.asarray(w).tolist(), stop_crit=float(stop)),
                    oracle=dict(name="independent recomputation of the optimality violation", violation=v, tol=tol,
                                per_block=d))


def o_stop_value(case, res, rep, rng):
    out = res["out"]
    if out is None or case.solver in ("LBFGS",):
        return
    w, obj, stop = out
    tol = tol_of(case)
    strat = case.knobs.get("ws_strategy", case.knobs.get("opt_strategy", "subdiff"))
    if not (stop <= tol) or not np.all(np.isfinite(w)) or strat != "subdiff":
        return
    v, d = case.cert(w, rng)
    ww, _ = case.split(w)
    slack = 1e-6 * (1 + float(np.max(np.abs(case.X))) * (1 + (float(np.max(np.abs(ww))) if ww.size else 0)))
    if case.solver == "FISTA" and stop < tol and abs(v - stop) > 1e-5 * (1 + v) + slack:
        rep.violate("the run stopped on its tolerance but the returned stopping value is not the optimality violation of the "
                    "returned point", dict(case.signature(site="FISTA.solve"), kind="stop-value-other-point"),
                    case=case.describe(), impl_output=dict(stop_crit=float(stop), w=np.asarray(w).tolist()),
                    oracle=dict(violation=v))
        return
    if not v <= stop * (1 + 1e-5) + slack:
        rep.violate("the run stopped on its tolerance but the returned stopping value is smaller than the optimality "
                    "violation of the returned point", dict(case.signature(site=f"{case.solver}.solve"), kind="stop-value"),
                    case=case.describe(), impl_output=dict(stop_crit=float(stop), w=np.asarray(w).tolist()),
                    oracle=dict(violation=v))


def o_buffer(case, res, rep, rng):
    out = res["out"]
    if out is None or res["Xw_buf"] is None or case.solver in ("FISTA", "LBFGS", "GramCD"):
        return
    w = out[0]
    ww, bb = case.split(w)
    want = case.X @ ww + bb
    got = res["Xw_buf"]
    scale = 1 + float(np.max(np.abs(want))) if want.size else 1.0
    if w is not res["w_buf"] or not np.all(np.abs(got - want) <= 1e-7 * scale):
        rep.violate("after solve the caller's Xw buffer is not X w + b for the returned coefficients",
                    dict(case.signature(site=f"{case.solver}.solve"), kind="buffer"), case=case.describe(),
                    impl_output=dict(Xw=np.asarray(got).tolist(), X_w_plus_b=want.tolist(), w=np.asarray(w).tolist()))


def o_history(case, res, rep, rng):
    """C17 without hooks: length <= max_iter, no padding, last entry = objective of the returned point"""
    out = res["out"]
    if out is None:
        return
    w, obj, stop = out
    obj = np.asarray(obj, float)
    sig = case.signature(site=f"{case.solver}.solve")
    mi = case.knobs.get("max_iter")
    if mi is not None and len(obj) > mi and case.solver != "LBFGS":
        rep.violate(f"history has {len(obj)} entries for max_iter={mi}", dict(sig, kind="history-length"),
                    case=case.describe(), impl_output=obj.tolist())
        return
    if len(obj) == 0:
        return
    want = case.objective(w)
    if case.solver == "GramCD" and not math.isinf(want):
        pass
    if not (abs(want - obj[-1]) <= 1e-7 * (1 + abs(want)) or (math.isinf(want) and math.isinf(obj[-1]))):
        rep.violate("the last history entry is not the true objective of the returned point "
                    "(loss + penalty, intercept unpenalised)", dict(sig, kind="history-last"),
                    case=case.describe(), impl_output=dict(history=obj.tolist(), w=np.asarray(w).tolist()),
                    oracle=dict(name="objective recomputed from X, y, w", value=want))


def o_history_len(case, res, rep, rng):
    """C17: run with max_iter = k for growing k: while the run does not stop on its tolerance the
    history has exactly k entries"""
    out = res["out"]
    if out is None or case.solver == "LBFGS":
        return
    w, obj, stop = out
    mi = case.knobs.get("max_iter")
    tol = tol_of(case)
    if mi is None:
        return
    converged = stop <= tol if case.solver != "FISTA" else stop < tol
    if not converged and len(obj) != mi:
        rep.violate(f"the run used its whole budget max_iter={mi} without meeting the tolerance but the history has "
                    f"{len(obj)} entries", dict(case.signature(site=f"{case.solver}.solve"), kind="history-length"),
                    case=case.describe(), impl_output=np.asarray(obj).tolist())


def o_descent(case, res, rep, rng):
    out = res["out"]
    if case.label == "pn-saturated":
        return      # starts at |Xw| ~ 800: the sigmoid is saturated to the last bit, descent is decided by rounding (not modelled)
    if out is None or case.solver in ("FISTA", "LBFGS"):
        return
    w = out[0]
    p = case.X.shape[1]
    if case.w_init is None:
        w0 = np.zeros_like(np.asarray(w, float))
    else:
        w0 = np.asarray(case.w_init, float)
    f0, f1 = case.objective(w0), case.objective(w)
    # sparse group constants come from a capped power iteration (100 steps, tol 1e-6) that may
    # under-estimate the block curvature (C09 allows that accuracy): only gross ascent is reported
    rt = 1e-5 if (case.solver == "GroupBCD" and case.sparse) else 1e-9
    if case.solver == "ProxNewton" and case.pen.kind in ("mcp", "wmcp", "scad", "l05", "l23", "logsum"):
        return
    if not f1 <= f0 + rt * (1 + abs(f0)):
        rep.violate("the returned point has a larger true objective than the starting point",
                    dict(case.signature(site=f"{case.solver}.solve"), kind="ascent"), case=case.describe(),
                    impl_output=dict(w=np.asarray(w).tolist()), oracle=dict(start=f0, returned=f1))


ORACLES = dict(cert=o_cert, stop_value=o_stop_value, buffer=o_buffer, feasible=o_finite_feasible, history=o_history,
               history_len=o_history_len, descent=o_descent)


# ------------------------------------------------------------------ generators

def gen_bb(rng, solver, degenerate=False, warm=None):
    case = _gen_bb(rng, solver, degenerate, warm)
    if case.sparse and rng.random() < 0.4:
        case.explicit_zeros = rng.randrange(1 << 30)    # CSC with explicitly stored zeros (null columns included)
    return case


def _gen_bb(rng, solver, degenerate=False, warm=None):
    n, p = rng.randrange(3, 13), rng.randrange(1, 10)
    mode = rng.choice(["gauss", "gauss", "dyadic", "sparse"] + (["degenerate"] * 3 if degenerate else []))
    X = gen_matrix(rng, n, p, mode)
    sparse = rng.random() < 0.35
    tol = rng.choice([1e-1, 1e-3, 1e-6, 1e-9])
    fi = rng.random() < 0.5
    w_init = None
    if solver in ("ProxNewton", "GramCD", "FISTA", "LBFGS"):
        if solver == "ProxNewton":
            dk = rng.choice(["quadratic", "logistic", "logistic", "poisson", "gamma", "wquadratic"])
        elif solver == "GramCD":
            dk = "quadratic"
        elif solver == "LBFGS":
            dk = rng.choice(["logistic", "quadratic", "poisson"])
        else:
            dk = rng.choice(["quadratic", "logistic", "huber", "svc", "wquadratic"])
        df = Dfit("huber", rng.choice([0.5, 1.35])) if dk == "huber" else Dfit(dk)
        if dk in ("poisson", "gamma"):
            # small scale: benign; unit scale: the undamped Newton step overshoots and the line search must work
            X = X * rng.choice([0.3, 1.0, 1.0])
        pen = gen_pen(rng, ["l1", "l1", "l1l2", "wl1", "mcp", "scad", "pos"] if solver != "LBFGS" else ["l1"])
        if dk == "svc":
            pen = Pen("box", rng.choice([0.1, 1.0, 10.0]))
        sw = np.ones(n)
        if dk == "wquadratic":
            sw = np.array([rng.choice([0.5, 1.0, 2.0, 3.0]) for _ in range(n)])
        y = df.gen_y(rng, n, structured=rng.random() < 0.4)
        if pen.kind in ("mcp", "scad") and mode != "degenerate" and dk not in ("poisson", "gamma"):
            X = normalise_cols(X, df, sw)
        wts = np.ones(p)
        if pen.kind in Pen.WEIGHTED:
            wts = np.array([rng.choice([0.0, 0.5, 1.0, 2.0]) for _ in range(p)])
        if solver == "ProxNewton" and rng.random() < 0.35:
            # the undamped Newton step overshoots: only the backtracking line search makes this a descent method
            dk = rng.choice(["poisson", "logistic"])
            df = Dfit(dk)
            X = gen_matrix(rng, n, p, rng.choice(["gauss", "sparse", "dyadic"])) * (rng.choice([1.0, 2.0]) if dk == "poisson" else 1.0)
            y = df.gen_y(rng, n, structured=False)
            sw = np.ones(n)
            pen = Pen(rng.choice(["l1", "l1l2"]), rng.choice([0.01, 0.05, 0.1]), l1_ratio=0.7, positive=False)
            wts = np.ones(p)
            sparse = rng.random() < 0.5
            mode = "pn-overshoot"
            if dk == "logistic":
                warm = True
        if solver == "ProxNewton":
            knobs = dict(p0=rng.choice([1, 2, 10]), max_iter=rng.choice([0, 1, 2, 5, 20]),
                         max_pn_iter=rng.choice([1, 2, 5, 50]), tol=tol,
                         ws_strategy=rng.choice(["subdiff", "subdiff", "fixpoint"]), fit_intercept=fi)
            sparse = sparse and dk != "wquadratic"
        elif solver == "GramCD":
            knobs = dict(max_iter=rng.choice([0, 1, 2, 5, 8, 20, 100]), use_acc=rng.random() < 0.5,
                         greedy_cd=rng.random() < 0.5, tol=tol, fit_intercept=False)
            if knobs["use_acc"]:
                knobs["greedy_cd"] = False
        elif solver == "FISTA":
            knobs = dict(max_iter=rng.choice([0, 1, 5, 50, 300]), tol=tol,
                         opt_strategy="subdiff")
        else:
            knobs = dict(max_iter=rng.choice([1, 5, 50]), tol=tol)
        if (warm if warm is not None else rng.random() < 0.3) and solver != "LBFGS":
            far = rng.choice([1.0, 1.0, 3.0]) if solver == "ProxNewton" else 1.0     # far from the solution
            if mode == "pn-overshoot":
                far = rng.choice([3.0, 5.0])
            w_init = far * np.array([rng.choice([0.0, 0.0, 0.5, 1.0, -1.0])
                                     for _ in range(p + (fi and solver == "ProxNewton"))])
            if (pen.kind in Pen.HAS_POS and pen.positive) or pen.kind in ("pos", "box"):
                w_init[:p] = np.abs(w_init[:p])
            if pen.kind == "box":
                w_init[:p] = np.minimum(w_init[:p], pen.alpha)
        if solver == "ProxNewton" and dk in ("poisson", "gamma", "logistic") and rng.random() < 0.12:
            # a start so far out that exp() saturates: the Hessian weights underflow to exactly 0
            w_init = np.zeros(p + fi)
            # ... on the side where the loss itself stays representable (exp(800) is not a double)
            sgn = -1.0 if dk == "poisson" else 1.0 if dk == "gamma" else rng.choice([-1.0, 1.0])
            jbig = int(np.argmax(np.abs(X).sum(axis=0)))
            if fi:
                w_init[-1] = 800.0 * sgn
            elif np.all(X[:, jbig] >= 0) or dk == "logistic":
                w_init[jbig] = 800.0 * sgn
            mode = "pn-saturated"
        if solver == "GramCD" and dk == "quadratic" and sparse:
            pass
        return BBCase(solver, "sep", df, pen, X, y, knobs, sw=sw, wts=wts, sparse=sparse, w_init=w_init, label=mode)
    if solver in ("GroupBCD", "GroupProxNewton"):
        groups, gp, gi = group_layout(rng, p)
        dk = "logistic" if solver == "GroupProxNewton" else rng.choice(["quadratic", "quadratic", "logistic"])
        df = Dfit(dk)
        y = df.gen_y(rng, n, structured=rng.random() < 0.4)
        if dk == "quadratic" and rng.random() < 0.3:
            y = y + 3.0
        a = rng.choice([0.01, 0.05, 0.1, 0.3])
        if solver == "GroupBCD" and rng.random() < 0.3:
            pen = Blk("wl1gl2", a)
        else:
            pen = Blk("wgl2", a, positive=rng.random() < 0.35)
        wgs = np.array([rng.choice([0.5, 1.0, 1.0, 2.0]) for _ in groups])
        wfs = np.array([rng.choice([0.0, 0.5, 1.0]) for _ in range(p)]) if pen.kind == "wl1gl2" else None
        if solver == "GroupBCD":
            knobs = dict(max_iter=rng.choice([0, 1, 2, 5, 50]), max_epochs=rng.choice([1, 5, 6, 7, 8, 13, 14, 100]),
                         p0=rng.choice([1, 2, 10]), tol=tol, fit_intercept=fi,
                         ws_strategy="subdiff" if pen.kind == "wl1gl2" else rng.choice(["subdiff", "fixpoint"]))
            if pen.kind == "wl1gl2":
                knobs["ws_strategy"] = "fixpoint"
        else:
            knobs = dict(p0=rng.choice([1, 2, 10]), max_iter=rng.choice([0, 1, 2, 5, 20]),
                         max_pn_iter=rng.choice([1, 2, 5, 50]), tol=tol, fit_intercept=fi)
            sparse = False
        if warm if warm is not None else rng.random() < 0.3:
            w_init = np.array([rng.choice([0.0, 0.0, 0.5, 1.0, -1.0]) for _ in range(p + fi)])
            if pen.kind == "wgl2" and pen.positive:
                w_init[:p] = np.abs(w_init[:p])
        return BBCase(solver, "group", df, pen, X, y, knobs, groups=groups, wgs=wgs, wfs=wfs, sparse=sparse,
                      w_init=w_init, label=mode)
    if solver == "MultiTaskBCD":
        T = rng.randrange(1, 4)
        Y = np.array([[rng.gauss(0, 1) for _ in range(T)] for _ in range(n)])
        if rng.random() < 0.4:
            Y = Y + rng.choice([2.0, 5.0])
        a = rng.choice([0.01, 0.05, 0.1, 0.3, 1.0])
        k = rng.choice(["l21", "l21", "bmcp", "bscad", "l205"])
        pen = Blk(k, a, gamma=(3.0 if k == "bmcp" else 3.7) if k in ("bmcp", "bscad") else None)
        if k in ("bmcp", "bscad", "l205") and mode != "degenerate":
            X = normalise_cols(X, Dfit("quadratic"), np.ones(n))
        knobs = dict(max_iter=rng.choice([0, 1, 2, 5, 50]), max_epochs=rng.choice([1, 5, 6, 7, 11, 12, 13, 100]),
                     p0=rng.choice([1, 2, 10]), tol=tol, use_acc=rng.random() < 0.6,
                     ws_strategy=rng.choice(["subdiff", "fixpoint"]), fit_intercept=fi)
        if warm if warm is not None else rng.random() < 0.3:
            w_init = np.array([[rng.choice([0.0, 0.0, 0.5, -1.0]) for _ in range(T)] for _ in range(p + fi)])
        return BBCase(solver, "mtl", Dfit("quadratic"), pen, X, Y, knobs, sparse=sparse, w_init=w_init, label=mode)
    raise KeyError(solver)


def from_description(d):
    """rebuild a BBCase from `describe()` output (replays)"""
    pd = dict(d["penalty"])
    kind = pd.pop("kind")
    fam = "group" if "groups" in d else ("mtl" if d["solver"] == "MultiTaskBCD" else "sep")
    if fam == "sep":
        pen = Pen(kind, pd.get("alpha"), gamma=pd.get("gamma"), l1_ratio=pd.get("l1_ratio"), eps=pd.get("eps"),
                  positive=pd.get("positive", False))
    else:
        pen = Blk(kind, pd.get("alpha"), gamma=pd.get("gamma"), positive=pd.get("positive", False))
    dfd = d["datafit"]
    df = Dfit(dfd["kind"], dfd.get("delta"))
    X = np.asfortranarray(np.array(d["X"], float))
    y = np.array(d["y"], float)
    case = BBCase(d["solver"], fam, df, pen, X, y, d["knobs"],
                  sw=None if "sw" not in d else np.array(d["sw"], float),
                  wts=None if "weights" not in d else np.array(d["weights"], float),
                  groups=d.get("groups"), wgs=None if d.get("weights_groups") is None else np.array(d["weights_groups"]),
                  wfs=None if d.get("weights_features") is None else np.array(d["weights_features"]),
                  sparse=d["sparse"], w_init=None if d["w_init"] is None else np.array(d["w_init"], float),
                  label=d.get("label", ""))
    if d.get("explicit_zeros") is not None:
        case.explicit_zeros = d["explicit_zeros"]
    return case
