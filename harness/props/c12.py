"""C12 - classifier outputs are consistent with the fitted linear model(s)."""
from . import est_common

LEAN_MODULES = ["Skglm.Properties.C12"]


def run(ctx, rep):
    rep.rule = ("SparseLogisticRegression and LinearSVC on label sets {strings, arbitrary ints, {-1,1}, {0,1}}, 2-4 classes, "
                "intercept on/off: predict vs classes_[decision], probabilities sum to one and are monotone, relabelling "
                "invariance, one-vs-rest rows (intercept included) vs per-class binary fits")
    est_common.run_classifiers(ctx, rep)
    est_common.run_plumbing(ctx, rep)


def replay(ctx, payload):
    print(payload)
    return 0
