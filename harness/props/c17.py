"""C17 - reported diagnostics describe the run that happened (AndersonCD level S + history oracle)."""
from .solver_common import run_parallel, run_bbox

LEAN_MODULES = ["Skglm.Properties.C17", "Skglm.Properties.FISTA", "Skglm.Properties.GramCD", "Skglm.Properties.LBFGS"]


def run(ctx, rep):
    rep.rule = ("AndersonCD runs as in C01; the event automaton checks one history entry per outer iteration and "
                "that the returned stop_crit is the last one computed; oracle: each entry equals loss + penalty "
                "recomputed from X, y and the iterate logged at that time (intercept unpenalised)")
    run_parallel(ctx, rep, oracles=["history", "stop_value"])
    run_bbox(ctx, rep, oracles=["history", "history_len", "stop_value"])
    from . import est_common
    est_common.run_n_iter(ctx, rep)
    from . import moves_common
    moves_common.run_fista(ctx, rep)
    moves_common.run_gram_moves(ctx, rep, ctx.n(30, 300))
    moves_common.run_lbfgs(ctx, rep)


def replay(ctx, payload):
    print(payload)
    return 0
