"""C03 - monotone descent under every iteration budget; extrapolation never hurts.

Level S correspondence on AndersonCD (every epoch / intercept / extrapolation-acceptance transition is
the model's) + oracles on the real code: true objective at return <= at start, non-increasing along
deterministic budget prefixes (max_iter 0..6, max_epochs 1..20 around the extrapolation period)."""
from .solver_common import run_parallel, run_bbox

LEAN_MODULES = ["Skglm.Properties.C03", "Skglm.Properties.BCD", "Skglm.Properties.ProxNewton", "Skglm.Properties.ProxNewtonDir", "Skglm.Properties.GroupProxNewton", "Skglm.Properties.Anderson", "Skglm.Properties.MultiTask", "Skglm.Properties.GramCD"]


def run(ctx, rep):
    rep.rule = ("AndersonCD runs as in C01 (columns normalised so that non-convex penalties sit in their well-posed "
                "step range) + for each case the budget ladders max_iter in {0,1,2,3,4,6} and max_epochs in "
                "{1,2,5,6,7,8,12,13,14,20}; each solve is one evaluation; non-trivial = at least one outer iteration")
    run_parallel(ctx, rep, oracles=["descent", "budget"], n_quick=7, n_thorough=80)
    # datafits whose value reads the coefficients themselves (the SVC dual: ||yXT w||^2 / 2 - sum(w)), not only the model
    # fit: the guarded acceptance must evaluate the candidate's own coefficients
    run_parallel(ctx, rep, oracles=["descent", "budget"], n_quick=24, n_thorough=200, combos=[("svc", "box")] * 2)
    run_bbox(ctx, rep, oracles=["descent"], ladder=True, solvers_=["ProxNewton", "GramCD", "GroupBCD", "GroupProxNewton", "MultiTaskBCD"], n_quick=30, n_thorough=200)
    from . import moves_common
    moves_common.run_bcd_moves(ctx, rep)
    moves_common.run_pn_linesearch(ctx, rep)
    moves_common.run_pn_direction(ctx, rep)
    moves_common.run_gpn_linesearch(ctx, rep)
    moves_common.run_mt_moves(ctx, rep)
    moves_common.run_gram_moves(ctx, rep)


def replay(ctx, payload):
    print(payload)
    return 0
