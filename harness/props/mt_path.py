"""C05 for MultiTaskBCD.path: grids of regularisation strengths in any order, from no / arbitrary W_init
(with and without intercept, dense and CSC): every point must meet the optimality certificate of its own
alpha, recomputed from X, Y and the returned coefficients alone, exactly as a cold start would."""
import copy
import os
import random
from concurrent.futures import ProcessPoolExecutor

import numpy as np

from ..core import Report
from .solver_common import merge


def _worker(args):
    from .. import bbox
    from ..impl import to_csc, case_csc, seed_numba, classify_exc
    prop, seed, chunk, n_cases = args
    rng = random.Random(f"{prop}-{seed}-mtpath-{chunk}")
    rep = Report(prop)
    for c in range(n_cases):
        case = bbox.gen_bb(rng, "MultiTaskBCD", warm=False)
        case.knobs.update(max_iter=100, max_epochs=2000, tol=1e-8, ws_strategy="subdiff")
        if case.pen.kind != "l21":
            case.pen = bbox.Blk("l21", case.pen.alpha)      # convex: every converged point is comparable
        n, p = case.X.shape
        T = case.y.shape[1]
        fi = case.fit_intercept
        amax = float(np.max(np.linalg.norm(case.X.T @ (case.y - (case.y.mean(axis=0) if fi else 0)), axis=1))) / n
        k = rng.randrange(1, 5)
        alphas = [amax * rng.choice([1.2, 0.9, 0.5, 0.2, 0.05, 0.01]) for _ in range(k)]
        mode = rng.choice(["none", "none", "random", "zero", "dense-support"])
        W_init = None
        if mode != "none":
            W = np.zeros((p + fi, T))
            if mode == "random":
                W = np.array([[rng.choice([0.0, 0.0, 0.5, -1.0]) for _ in range(T)] for _ in range(p + fi)])
            elif mode == "dense-support":
                W = np.array([[rng.gauss(0, 1) for _ in range(T)] for _ in range(p + fi)])
            W_init = np.ascontiguousarray(W.T)          # documented orientation: (n_tasks, n_features [+1])
        solver, datafit, penalty = case.build()
        Xin = case_csc(case) if case.sparse else np.asfortranarray(case.X)
        desc = dict(case.describe(), alphas=alphas, W_init=None if W_init is None else W_init.tolist())
        sig = dict(site="MultiTaskBCD.path", fit_intercept=fi, sparse=case.sparse, w_init=mode)
        seed_numba()
        try:
            out = solver.path(Xin, np.asfortranarray(case.y.copy()), datafit, penalty, np.array(alphas),
                              W_init=None if W_init is None else W_init.copy())
        except Exception as e:    # noqa: BLE001
            rep.count(f"mtpath:{mode}:fi={fi}:raised", False, ("mtpath", chunk, c))
            rep.violate("MultiTaskBCD.path raises on a legitimate grid / start point: " + classify_exc(e) + ": " + str(e)[:160],
                        dict(sig, kind="raises"), case=desc, impl_output=classify_exc(e) + ":" + str(e)[:300])
            continue
        coefs, stops = out[1], out[2]
        rep.count(f"mtpath:{mode}:fi={fi}:{'csc' if case.sparse else 'dense'}:k={k}", False, ("mtpath", chunk, c))
        if coefs.shape != (T, p + fi, k):
            rep.violate("MultiTaskBCD.path returns coefficients of the wrong shape", dict(sig, kind="shape"), case=desc,
                        impl_output=dict(shape=list(coefs.shape)), oracle=dict(shape=[T, p + fi, k]))
            continue
        for t, a in enumerate(alphas):
            c2 = copy.copy(case)
            c2.pen = bbox.Blk("l21", a)
            w = np.ascontiguousarray(coefs[:, :, t].T)         # (p + fi, T)
            if not np.all(np.isfinite(w)):
                rep.violate("MultiTaskBCD.path returns non-finite coefficients", dict(sig, kind="nonfinite"), case=desc,
                            impl_output=dict(t=t, w=w.tolist()))
                continue
            if not stops[t] <= 1e-8:
                continue
            v, d = c2.cert(w, rng)
            ww, _ = c2.split(w)
            slack = 1e-6 * (1 + float(np.max(np.abs(case.X))) * (1 + float(np.max(np.abs(ww))) if ww.size else 1))
            if not v <= 1e-8 + slack:
                rep.violate("a point of MultiTaskBCD.path reported converged does not meet the optimality certificate of "
                            "its own alpha", dict(sig, kind="certificate"), case=desc,
                            impl_output=dict(t=t, alpha=a, w=w.tolist(), stop_crit=float(stops[t])),
                            oracle=dict(violation=v, per_row=d))
    return rep


def run_mt_path(ctx, rep, n_quick=24, n_thorough=240, chunks=6):
    n = ctx.n(n_quick, n_thorough)
    tasks = [(ctx.prop, ctx.seed, ch, max(1, n // chunks)) for ch in range(chunks)]
    with ProcessPoolExecutor(max_workers=min(len(tasks), max(1, (os.cpu_count() or 2) - 1))) as ex:
        for r in ex.map(_worker, tasks):
            merge(rep, r)


def _warm_worker(args):
    """MultiTaskBCD.solve from user-supplied (W_init, XW_init): supports larger than the working set, rows that are zero
    on the first task but not on the others, small p0, budgets that reach an extrapolation: on return the caller's
    buffer is X W + b and a reported convergence is a certificate for the returned W"""
    from .. import bbox
    from ..impl import seed_numba, classify_exc
    prop, seed, chunk, n_cases = args
    rng = random.Random(f"{prop}-{seed}-mtwarm-{chunk}")
    rep = Report(prop)
    for c in range(n_cases):
        case = bbox.gen_bb(rng, "MultiTaskBCD", warm=True)
        n, p = case.X.shape
        T = max(2, case.y.shape[1])
        if case.y.shape[1] < T:
            case.y = np.column_stack([case.y] + [np.array([rng.gauss(0, 1) for _ in range(n)]) for _ in range(T - case.y.shape[1])])
        fi = case.fit_intercept
        case.pen = bbox.Blk("l21", rng.choice([0.01, 0.05]))
        W0 = np.zeros((p + fi, T))
        for j in range(p):
            r = rng.random()
            if r < 0.5:
                W0[j, 1:] = [rng.choice([0.5, -1.0, 2.0]) for _ in range(T - 1)]      # zero on the first task only
            elif r < 0.7:
                W0[j] = [rng.choice([0.5, -1.0]) for _ in range(T)]
        case.w_init = W0
        case.sparse = rng.random() < 0.3
        case.knobs.update(p0=rng.choice([1, 1, 2]), use_acc=True, max_iter=rng.choice([1, 2, 5, 50]),
                          max_epochs=rng.choice([7, 8, 14, 100]), tol=rng.choice([1e-3, 1e-8]), ws_strategy="subdiff")
        res = bbox.run_case(case)
        rep.count(f"mt-warm:{'csc' if case.sparse else 'dense'}:fi={fi}", False, ("mtwarm", chunk, c))
        if res["err"] is not None:
            rep.violate(f"MultiTaskBCD.solve fails from a user-supplied start: {res['err'][:140]}",
                        dict(case.signature(site="MultiTaskBCD.solve"), kind="raises"), case=case.describe(), impl_output=res["err"])
            continue
        for o in ("buffer", "cert"):
            bbox.ORACLES[o](case, res, rep, rng)
    return rep


def run_mt_warm(ctx, rep, n_quick=36, n_thorough=300, chunks=6):
    n = ctx.n(n_quick, n_thorough)
    tasks = [(ctx.prop, ctx.seed, ch, max(1, n // chunks)) for ch in range(chunks)]
    with ProcessPoolExecutor(max_workers=min(len(tasks), max(1, (os.cpu_count() or 2) - 1))) as ex:
        for r in ex.map(_warm_worker, tasks):
            merge(rep, r)
