"""C07 - proximal operators return a global minimiser of the prox objective.

Correspondence (level K): every prox kernel of the real compiled penalties is called on the
threshold grid / random reals and compared with the Lean model (driver op `prox1`, `BST`, ...).
Oracle: brute-force minimisation of u -> 0.5 (u-x)^2 + s*pen(u) with the *documented* penalty
formula (harness.impl.Pen.ref_pen1), independent of skglm's own value()."""
import math

import numpy as np

from .. import gen, lean
from ..impl import Pen, compiled_pen, call
from ..proto import fb, b, decode, same, canon

LEAN_MODULES = ["Skglm.Properties.C07"]


def pens(ctx):
    """penalty configurations: dyadic hyper-parameters so thresholds are hit exactly"""
    out = []
    A = [0.25, 0.5, 1.0, 2.0]
    for a in A:
        for p in (False, True):
            out.append(Pen("l1", a, positive=p))
            out.append(Pen("wl1", a, positive=p))
            for r in (0.0, 0.25, 0.5, 1.0):
                out.append(Pen("l1l2", a, l1_ratio=r, positive=p))
            for g in (1.5, 2.0, 3.0, 8.0):
                out.append(Pen("mcp", a, gamma=g, positive=p))
                out.append(Pen("wmcp", a, gamma=g, positive=p))
        for g in (2.5, 3.0, 3.7, 8.0):
            out.append(Pen("scad", a, gamma=g))
        out.append(Pen("box", a))
        out.append(Pen("l05", a))
        out.append(Pen("l23", a))
        for e in (0.25, 0.5, 1.0, 4.0):
            out.append(Pen("logsum", a, eps=e))
    out.append(Pen("pos"))
    return out


def prox_obj(pen, wt, x, s, u):
    v = pen.ref_pen1(u, wt)
    if math.isinf(v):
        return math.inf
    return 0.5 * (u - x) ** 2 + s * v


def brute_min(pen, wt, x, s, extra):
    """smallest prox objective over a dense grid plus structural candidates"""
    lim = abs(x) + 1.0
    cands = list(np.linspace(-lim, lim, 2001)) + [0.0, x] + list(extra)
    a = pen.alpha or 0.0
    for t in (a, a * (pen.gamma or 1.0), a * s * wt):
        cands += [t, -t]
    # refine around the best grid point
    best = min(cands, key=lambda u: prox_obj(pen, wt, x, s, u))
    h = 2 * lim / 2000
    cands2 = list(np.linspace(best - h, best + h, 401))
    best2 = min(cands2, key=lambda u: prox_obj(pen, wt, x, s, u))
    return min(prox_obj(pen, wt, x, s, best), prox_obj(pen, wt, x, s, best2)), best2


def scalar_cases(ctx):
    rng = ctx.rng
    grid = gen.grid8(32)
    steps = [0.125, 0.25, 0.5, 1.0, 2.0]
    wts = [0.0, 0.5, 1.0, 2.0]
    n_per = ctx.n(40, 600)
    for pen in pens(ctx):
        for _ in range(n_per):
            wt = gen.pick(rng, wts) if pen.kind in Pen.WEIGHTED else 1.0
            c = rng.random()
            if c < 0.6:
                x, s = gen.pick(rng, grid), gen.pick(rng, steps)
            elif c < 0.8:
                s = gen.pick(rng, steps)
                # exactly on / next to a threshold of the kernel
                a = pen.alpha or 1.0
                t = gen.pick(rng, [a * s * wt, a * (pen.gamma or 1.0), a, a * s, 0.0])
                x = rng.choice([-1, 1]) * gen.near(rng, t)
            else:
                x, s = gen.real(rng, 10 ** rng.uniform(-2, 2)), gen.pos_real(rng, -2, 1)
            yield pen, wt, x, s


def run(ctx, rep):
    rep.rule = ("scalar prox kernels of all 11 separable penalties x dyadic hyper-parameters; x on the k/8 "
                "grid, on/next to each threshold (nextafter) and random reals; block proxes on structured "
                "vectors; a case is non-trivial when the result is non-zero and differs from x; distinct by "
                "(penalty, weight, x, step)")
    cases = list(scalar_cases(ctx))
    lines, impls = [], []
    for pen, wt, x, s in cases:
        lines.append(f"prox1 {pen.tokens()} {fb(wt)} {fb(x)} {fb(s)}")
        weights = [wt, 1.0] if pen.kind in Pen.WEIGHTED else None
        obj = compiled_pen(pen, weights)
        impls.append(call(obj.prox_1d, float(x), float(s), 0))
    outs = lean.drive(lines)
    for (pen, wt, x, s), line, out, r in zip(cases, lines, outs, impls):
        m = decode(out)
        i = canon(r)
        site = f"{pen.cls_name()}.prox_1d"
        sig = dict(site=site, positive=bool(pen.positive))
        trivial = isinstance(r, str) or r == 0.0 or r == x
        rep.count(f"{pen.kind}:{'zero' if r == 0.0 else 'ident' if r == x else 'shrunk'}", trivial,
                  (pen.key(), wt, x, s))
        inp = dict(penalty=pen.describe(), weight=wt, x=x, step=s)
        outside = not pen.admissible_step(s, wt)
        if outside and i == ["err:ZeroDivisionError"]:
            # step exactly on the edge of the admissible range (1 - s/gamma = 0, gamma - 1 - s = 0):
            # numba raises where IEEE arithmetic gives inf; nothing is claimed there
            continue
        if not same(i, m):
            rep.disagree("K:prox1", line, i, m, sig, input=inp)
        # oracle on the real code: finite, and a global minimiser in the admissible range
        if not pen.admissible_step(s, wt):
            continue
        if isinstance(r, str) or not math.isfinite(r):
            rep.violate(f"{site} is not finite / raises on a finite input", dict(sig, kind="nonfinite"),
                        input=inp, impl_output=str(r), lines=[line])
            continue
        if pen.kind in ("l05", "l23") and abs(x) > 1e6:
            continue
        best, arg = brute_min(pen, wt, x, s, [r] + [t for t in m if isinstance(t, float)])
        got = prox_obj(pen, wt, x, s, r)
        if not got <= best + 1e-9 * (1 + abs(best)):
            rep.violate(f"{site} does not return a global minimiser of the prox objective",
                        dict(sig, kind="not-minimiser"), input=inp, impl_output=r,
                        oracle=dict(name="brute-force prox objective", impl_obj=got, better_obj=best,
                                    better_u=arg), lines=[line], model_output=m)
    rep.sample(dict(line=lines[0], impl=canon(impls[0]), model=decode(outs[0])))
    rep.sample(dict(case=dict(penalty=cases[-1][0].describe(), wt=cases[-1][1], x=cases[-1][2],
                              step=cases[-1][3]), impl=canon(impls[-1])))
    run_blocks(ctx, rep)
    slope_cases(ctx, rep)


def block_obj(blk, wg, wf, x, s, u):
    v = blk.ref_pen(u, wg, wf)
    if math.isinf(v):
        return math.inf
    return 0.5 * float(np.sum((np.asarray(u) - x) ** 2)) + s * v


def block_cands(rng, blk, wg, wf, x, s, r, m):
    k = len(x)
    cands = [np.zeros(k), np.array(x, float)]
    if r is not None:
        cands.append(np.array(r, float))
    if m is not None and len(m) == k and all(isinstance(t, float) and math.isfinite(t) for t in m):
        cands.append(np.array(m, float))
    bases = [np.array(x, float), np.maximum(x, 0.0)]
    if blk.kind == "wl1gl2":
        bases.append(np.sign(x) * np.maximum(0, np.abs(x) - blk.alpha * s * np.asarray(wf)))
    for base in bases:
        for c in np.linspace(0, 1.2, 61):
            cands.append(c * base)
    if r is not None and all(math.isfinite(t) for t in r):
        r = np.array(r, float)
        for d in (1e-3, 1e-2, 0.1):
            for i in range(k):
                for sg in (-1, 1):
                    e = np.zeros(k)
                    e[i] = sg * d
                    cands.append(r + e)
            for _ in range(6):
                cands.append(r + d * np.array([rng.gauss(0, 1) for _ in range(k)]))
    return cands


def block_cases(ctx):
    """(blk, wg, wf, x, s, site, impl result) for every block prox kernel"""
    from ..blocks import blocks, Blk, group_layout, compiled_blk
    rng = ctx.rng
    vals = [0.0, 0.0, 0.5, -0.5, 1.0, -1.0, 2.0, -2.0, 0.25, 3.0]
    steps = [0.125, 0.25, 0.5, 1.0, 2.0]
    n_per = ctx.n(12, 200)
    for blk in blocks():
        for _ in range(n_per):
            s = gen.pick(rng, steps)
            if blk.kind in Blk.ROW:
                k = rng.randrange(1, 5)
                x = np.array([gen.pick(rng, vals) if rng.random() < 0.8 else rng.gauss(0, 1) for _ in range(k)])
                if rng.random() < 0.15:
                    x[:] = 0.0
                obj = compiled_blk(blk)
                r = call(obj.prox_1feat, x.copy(), float(s), 0)
                yield blk, 1.0, np.ones(k), x, s, f"{blk.cls_name()}.prox_1feat", r, dict()
            else:
                p = rng.randrange(1, 8)
                groups, gp, gi = group_layout(rng, p)
                wgs = np.array([gen.pick(rng, [0.0, 0.5, 1.0, 2.0]) for _ in groups])
                wfs = np.array([gen.pick(rng, [0.0, 0.25, 0.5, 1.0, 2.0]) for _ in range(p)])
                obj = compiled_blk(blk, wgs, wfs, gp, gi)
                for g, idx in enumerate(groups):
                    x = np.array([gen.pick(rng, vals) if rng.random() < 0.8 else rng.gauss(0, 1) for _ in idx])
                    if rng.random() < 0.15:
                        x[:] = 0.0
                    r = call(obj.prox_1group, x.copy(), float(s), g)
                    yield (blk, float(wgs[g]), wfs[idx], x, s, f"{blk.cls_name()}.prox_1group", r,
                           dict(groups=groups, weights_groups=wgs.tolist(), weights_features=wfs.tolist(), g=g))


def run_blocks(ctx, rep):
    from ..proto import vec
    cases = list(block_cases(ctx))
    lines = [f"blk_prox {blk.tokens()} {fb(wg)} {vec(wf)} {vec(x)[len(str(len(x)))+1:]} {fb(s)}"
             for blk, wg, wf, x, s, site, r, extra in cases]
    outs = lean.drive(lines)
    for (blk, wg, wf, x, s, site, r, extra), line, out in zip(cases, lines, outs):
        m = decode(out)
        i = canon(r)
        sig = dict(site=site, positive=bool(blk.positive))
        inp = dict(penalty=blk.describe(), weight_group=wg, block_feature_weights=list(map(float, wf)),
                   x=x.tolist(), step=s, **extra)
        zero = not isinstance(r, str) and not np.any(np.asarray(r))
        rep.count(f"{blk.kind}:{'raise' if isinstance(r, str) else 'zero' if zero else 'shrunk'}",
                  isinstance(r, str) or zero, (blk.key(), wg, tuple(wf), tuple(x), s))
        if not blk.admissible_step(s):
            continue
        if not same(i, m):
            rep.disagree("K:blk_prox", line, i, m, sig, input=inp)
        if isinstance(r, str) or not np.all(np.isfinite(r)):
            rep.violate(f"{site} is not finite / raises on a finite input", dict(sig, kind="nonfinite"),
                        input=inp, impl_output=i, lines=[line])
            continue
        got = block_obj(blk, wg, wf, x, s, r)
        cands = block_cands(ctx.rng, blk, wg, wf, x, s, r, m)
        best = min(cands, key=lambda u: block_obj(blk, wg, wf, x, s, u))
        bo = block_obj(blk, wg, wf, x, s, best)
        if not got <= bo + 1e-9 * (1 + abs(bo)):
            rep.violate(f"{site} does not return a global minimiser of the prox objective",
                        dict(sig, kind="not-minimiser"), input=inp, impl_output=i,
                        oracle=dict(name="candidate search on the documented prox objective", impl_obj=got,
                                    better_obj=bo, better_u=np.asarray(best).tolist()), lines=[line], model_output=m)
    if cases:
        rep.sample(dict(line=lines[-1], impl=canon(cases[-1][6]), model=decode(outs[-1])))


def slope_cases(ctx, rep):
    """SLOPE prox_vec against the model's stack PAVA and a perturbation oracle"""
    from ..impl import compiled
    from ..proto import vec
    import skglm.penalties as P
    rng = ctx.rng
    lines, rs, meta = [], [], []
    for _ in range(ctx.n(150, 3000)):
        p = rng.randrange(1, 8)
        al = sorted([gen.pick(rng, [0.0, 0.25, 0.5, 1.0, 1.0, 2.0]) for _ in range(p)], reverse=True)
        if rng.random() < 0.2:
            al = [al[0]] * p
        x = np.array([gen.pick(rng, gen.grid8(24)) if rng.random() < 0.8 else rng.gauss(0, 2) for _ in range(p)])
        s = gen.pick(rng, [0.25, 0.5, 1.0, 2.0])
        obj = compiled(P.SLOPE(np.array(al, float)))
        r = call(obj.prox_vec, x.copy(), float(s))
        ax = np.abs(x)
        order = np.argsort(ax)[::-1]
        lines.append(f"prox_SLOPE {vec(ax[order])} {vec(np.array(al) * s)}")
        rs.append(r)
        meta.append((x, al, s, order))
    outs = lean.drive(lines)
    for line, out, r, (x, al, s, order) in zip(lines, outs, rs, meta):
        m = decode(out)
        inp = dict(alphas=al, x=x.tolist(), step=s)
        sig = dict(site="SLOPE.prox_vec", positive=False)
        rep.count("slope", isinstance(r, str) or not np.any(r), ("slope", tuple(x), tuple(al), s))
        if isinstance(r, str) or not np.all(np.isfinite(r)):
            rep.violate("SLOPE.prox_vec is not finite / raises", dict(sig, kind="nonfinite"), input=inp,
                        impl_output=canon(r))
            continue
        i = canon(np.abs(r)[order])
        if not same(i, m):
            rep.disagree("K:prox_SLOPE", line, i, m, sig, input=inp)

        def F(u):
            return 0.5 * float(np.sum((u - x) ** 2)) + s * float(np.sum(np.sort(np.abs(u))[::-1] * np.array(al)))
        got = F(np.asarray(r))
        cands = [np.zeros_like(x), x.copy()]
        for d in (1e-3, 1e-2, 0.1, 0.5):
            for _ in range(10):
                cands.append(np.asarray(r) + d * np.array([ctx.rng.gauss(0, 1) for _ in x]))
            for c in (1 - d, 1 + d):
                cands.append(c * np.asarray(r))
        bo = min(F(u) for u in cands)
        if not got <= bo + 1e-9 * (1 + abs(bo)):
            rep.violate("SLOPE.prox_vec does not return a global minimiser (the objective is convex: a better "
                        "nearby point refutes optimality)", dict(sig, kind="not-minimiser"), input=inp,
                        impl_output=canon(r), oracle=dict(impl_obj=got, better_obj=bo))


def replay(ctx, payload):
    print(payload)
    return 0
