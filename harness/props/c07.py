"""C07 - proximal operators return a global minimiser of the prox objective.

Correspondence (level K): every prox kernel of the real compiled penalties is called on the
threshold grid / random reals and compared with the Lean model (driver op `prox1`, `BST`, ...).
Oracle: brute-force minimisation of u -> 0.5 (u-x)^2 + s*pen(u) with the *documented* penalty
formula (harness.impl.Pen.ref_pen1), independent of skglm's own value()."""
import math

import numpy as np

from .. import gen, lean
from ..impl import Pen, compiled_pen, call
from ..proto import fb, b, decode, same, canon

LEAN_MODULES = ["Skglm.Properties.C07"]


def pens(ctx):
    """penalty configurations: dyadic hyper-parameters so thresholds are hit exactly"""
    out = []
    A = [0.25, 0.5, 1.0, 2.0]
    for a in A:
        for p in (False, True):
            out.append(Pen("l1", a, positive=p))
            out.append(Pen("wl1", a, positive=p))
            for r in (0.0, 0.25, 0.5, 1.0):
                out.append(Pen("l1l2", a, l1_ratio=r, positive=p))
            for g in (1.5, 2.0, 3.0, 8.0):
                out.append(Pen("mcp", a, gamma=g, positive=p))
                out.append(Pen("wmcp", a, gamma=g, positive=p))
        for g in (2.5, 3.0, 3.7, 8.0):
            out.append(Pen("scad", a, gamma=g))
        out.append(Pen("box", a))
        out.append(Pen("l05", a))
        out.append(Pen("l23", a))
        for e in (0.25, 0.5, 1.0, 4.0):
            out.append(Pen("logsum", a, eps=e))
    out.append(Pen("pos"))
    return out


def prox_obj(pen, wt, x, s, u):
    v = pen.ref_pen1(u, wt)
    if math.isinf(v):
        return math.inf
    return 0.5 * (u - x) ** 2 + s * v


def brute_min(pen, wt, x, s, extra):
    """smallest prox objective over a dense grid plus structural candidates"""
    lim = abs(x) + 1.0
    cands = list(np.linspace(-lim, lim, 2001)) + [0.0, x] + list(extra)
    a = pen.alpha or 0.0
    for t in (a, a * (pen.gamma or 1.0), a * s * wt):
        cands += [t, -t]
    # refine around the best grid point
    best = min(cands, key=lambda u: prox_obj(pen, wt, x, s, u))
    h = 2 * lim / 2000
    cands2 = list(np.linspace(best - h, best + h, 401))
    best2 = min(cands2, key=lambda u: prox_obj(pen, wt, x, s, u))
    return min(prox_obj(pen, wt, x, s, best), prox_obj(pen, wt, x, s, best2)), best2


def scalar_cases(ctx):
    rng = ctx.rng
    grid = gen.grid8(32)
    steps = [0.125, 0.25, 0.5, 1.0, 2.0]
    wts = [0.0, 0.5, 1.0, 2.0]
    n_per = ctx.n(40, 600)
    for pen in pens(ctx):
        for _ in range(n_per):
            wt = gen.pick(rng, wts) if pen.kind in Pen.WEIGHTED else 1.0
            c = rng.random()
            if c < 0.6:
                x, s = gen.pick(rng, grid), gen.pick(rng, steps)
            elif c < 0.8:
                s = gen.pick(rng, steps)
                # exactly on / next to a threshold of the kernel
                a = pen.alpha or 1.0
                t = gen.pick(rng, [a * s * wt, a * (pen.gamma or 1.0), a, a * s, 0.0])
                x = rng.choice([-1, 1]) * gen.near(rng, t)
            else:
                x, s = gen.real(rng, 10 ** rng.uniform(-2, 2)), gen.pos_real(rng, -2, 1)
            yield pen, wt, x, s


def run(ctx, rep):
    rep.rule = ("scalar prox kernels of all 11 separable penalties x dyadic hyper-parameters; x on the k/8 "
                "grid, on/next to each threshold (nextafter) and random reals; block proxes on structured "
                "vectors; a case is non-trivial when the result is non-zero and differs from x; distinct by "
                "(penalty, weight, x, step)")
    cases = list(scalar_cases(ctx))
    lines, impls = [], []
    for pen, wt, x, s in cases:
        lines.append(f"prox1 {pen.tokens()} {fb(wt)} {fb(x)} {fb(s)}")
        weights = [wt, 1.0] if pen.kind in Pen.WEIGHTED else None
        obj = compiled_pen(pen, weights)
        impls.append(call(obj.prox_1d, float(x), float(s), 0))
    outs = lean.drive(lines)
    for (pen, wt, x, s), line, out, r in zip(cases, lines, outs, impls):
        m = decode(out)
        i = canon(r)
        site = f"{pen.cls_name()}.prox_1d"
        sig = dict(site=site, positive=bool(pen.positive))
        trivial = isinstance(r, str) or r == 0.0 or r == x
        rep.count(f"{pen.kind}:{'zero' if r == 0.0 else 'ident' if r == x else 'shrunk'}", trivial,
                  (pen.key(), wt, x, s))
        inp = dict(penalty=pen.describe(), weight=wt, x=x, step=s)
        outside = not pen.admissible_step(s, wt)
        if outside and i == ["err:ZeroDivisionError"]:
            # step exactly on the edge of the admissible range (1 - s/gamma = 0, gamma - 1 - s = 0):
            # numba raises where IEEE arithmetic gives inf; nothing is claimed there
            continue
        if not same(i, m):
            rep.disagree("K:prox1", line, i, m, sig, input=inp)
        # oracle on the real code: finite, and a global minimiser in the admissible range
        if not pen.admissible_step(s, wt):
            continue
        if isinstance(r, str) or not math.isfinite(r):
            rep.violate(f"{site} is not finite / raises on a finite input", dict(sig, kind="nonfinite"),
                        input=inp, impl_output=str(r), lines=[line])
            continue
        if pen.kind in ("l05", "l23") and abs(x) > 1e6:
            continue
        best, arg = brute_min(pen, wt, x, s, [r] + [t for t in m if isinstance(t, float)])
        got = prox_obj(pen, wt, x, s, r)
        if not got <= best + 1e-9 * (1 + abs(best)):
            rep.violate(f"{site} does not return a global minimiser of the prox objective",
                        dict(sig, kind="not-minimiser"), input=inp, impl_output=r,
                        oracle=dict(name="brute-force prox objective", impl_obj=got, better_obj=best,
                                    better_u=arg), lines=[line], model_output=m)
    rep.sample(dict(line=lines[0], impl=canon(impls[0]), model=decode(outs[0])))
    rep.sample(dict(case=dict(penalty=cases[-1][0].describe(), wt=cases[-1][1], x=cases[-1][2],
                              step=cases[-1][3]), impl=canon(impls[-1])))


def replay(ctx, payload):
    print(payload)
    return 0
