"""C06 - datafits are faithful: documented loss, exact derivatives, dense = sparse.

Correspondence (K): every accessor of the real compiled datafits (dense and CSC) against the Lean
model (`DF.value/rawGrad/gradScalar/interceptStep`, `gradScalarSparse`).
Oracle: documented formula (python transcription of the docstring), central finite differences,
dense-vs-sparse agreement."""
import math

import numpy as np

from .. import lean
from ..impl import Dfit, compiled_df, call, gen_matrix, to_csc, csc_tokens, classify_exc
from ..proto import fb, vec, mat, decode, same, canon

LEAN_MODULES = ["Skglm.Properties.C06", "Skglm.Properties.Cox", "Skglm.Properties.LBFGS"]

ISCALE = dict(logistic=4.0)   # 1/L_0 of doc/tutorials/intercept.md


def datafits():
    return [Dfit("quadratic"), Dfit("wquadratic"), Dfit("logistic"), Dfit("huber", 0.5),
            Dfit("huber", 1.0), Dfit("huber", 4.0), Dfit("poisson"), Dfit("gamma"), Dfit("svc")]


def problem(rng, df):
    n, p = rng.randrange(1, 9), rng.randrange(1, 7)
    X = gen_matrix(rng, n, p)
    y = df.gen_y(rng, n, structured=rng.random() < 0.7)
    sw = np.ones(n)
    if df.kind == "wquadratic":
        sw = np.array([rng.choice([0.0, 0.5, 1.0, 1.0, 2.0, 3.0]) for _ in range(n)])
        if sw.sum() == 0:
            sw[rng.randrange(n)] = 1.0
    scale = 0.3 if df.kind in ("poisson", "gamma") else 1.0
    w = np.array([rng.choice([0.0, 0.0, 0.5, -0.5, 1.0, -1.0, 0.25]) * scale for _ in range(p)])
    if rng.random() < 0.3:
        w = np.array([rng.gauss(0, 1) * scale for _ in range(p)])
    b = rng.choice([0.0, 0.0, 0.5, -1.0]) * scale if df.kind != "svc" else 0.0
    u = X @ w + b
    if df.kind == "huber" and rng.random() < 0.3 and n > 0:
        # put a residual exactly on the kink
        i = rng.randrange(n)
        y[i] = u[i] + rng.choice([-1, 1]) * df.delta
    return X, y, sw, w, b, u


def fd(f, x, i, h):
    e = np.zeros_like(x)
    e[i] = h
    return (f(x + e) - f(x - e)) / (2 * h)


def near(a, b, rtol=2e-5, atol=2e-6):
    a, b = np.asarray(a, float), np.asarray(b, float)
    return a.shape == b.shape and bool(np.all(np.abs(a - b) <= atol + rtol * np.maximum(np.abs(a), np.abs(b))))


def run(ctx, rep):
    rng = ctx.rng
    rep.rule = ("all single-task datafits x structured problems (n<=8, p<=6, dyadic / sparse / gaussian / "
                "degenerate designs, residuals on Huber kinks, zero sample weights); each accessor is one "
                "evaluation; non-trivial = the accessor returns a non-zero value; distinct by input bits")
    lines, expect, meta = [], [], []
    n_prob = ctx.n(25, 400)
    for df in datafits():
        for _ in range(n_prob):
            X, y, sw, w, b, u = problem(rng, df)
            n, p = X.shape
            Xs = to_csc(X, rng, explicit_zeros=rng.random() < 0.5)
            obj = compiled_df(df, sw)
            inp = dict(datafit=df.describe(), X=X.tolist(), y=y.tolist(), sw=sw.tolist(), w=w.tolist(),
                       b=b, csc=dict(data=Xs.data.tolist(), indices=Xs.indices.tolist(),
                                     indptr=Xs.indptr.tolist()))
            cls = df.cls_name()
            base = f"{df.tokens()} {n} {vec(sw)[len(str(n))+1:]} {vec(y)[len(str(n))+1:]} {vec(u)[len(str(n))+1:]}"
            dd = f"{df.tokens()} {n} {p} {mat(X)} {vec(sw)[len(str(n))+1:]} {vec(y)[len(str(n))+1:]} {vec(u)[len(str(n))+1:]}"
            ds = f"{df.tokens()} {n} {p} {csc_tokens(Xs)} {vec(sw)[len(str(n))+1:]} {vec(y)[len(str(n))+1:]} {vec(u)[len(str(n))+1:]}"

            def add(op, line, res, site, dense_ref=None):
                lines.append(f"{op} {line}")
                expect.append(res)
                meta.append((site, inp, dense_ref))

            def ref(uu, ww=w):
                return df.ref_value(sw, y, uu, ww)

            # ---- dense accessors
            if hasattr(obj, "initialize"):
                r = call(obj.initialize, X, y)
                if isinstance(r, str):
                    rep.disagree("K:initialize", cls, [r], ["ok"], dict(site=f"{cls}.initialize"), input=inp)
                    continue
            val = call(obj.value, y, w, u)
            add("df_value", f"{base} {vec(w)}", val, f"{cls}.value")
            if not isinstance(val, str) and not near(val, ref(u), 1e-9, 1e-12):
                rep.violate(f"{cls}.value differs from the documented formula", dict(site=f"{cls}.value"),
                            input=inp, impl_output=float(val), oracle=dict(name="docstring formula", value=ref(u)))
            g = [call(obj.gradient_scalar, X, y, w, u, j) for j in range(p)]
            bad = [t for t in g if isinstance(t, str)]
            gd = bad[0] if bad else np.array(g)
            add("df_grad", dd, gd, f"{cls}.gradient_scalar")
            smooth = df.kind != "huber" or bool(np.all(np.abs(np.abs(y - u) - df.delta) > 1e-3))
            if not bad and smooth:
                if df.kind == "svc":
                    gfd = np.array([fd(lambda ww: df.ref_value(sw, y, X @ ww, ww), w, j, 1e-6) for j in range(p)])
                else:
                    gfd = np.array([fd(lambda ww: ref(X @ ww + b), w, j, 1e-6) for j in range(p)])
                if not near(gd, gfd):
                    rep.violate(f"{cls}.gradient_scalar is not the derivative of the documented loss",
                                dict(site=f"{cls}.gradient_scalar"), input=inp, impl_output=gd.tolist(),
                                oracle=dict(name="central finite differences", value=gfd.tolist()))
            if hasattr(obj, "gradient"):
                gg = call(obj.gradient, X, y, u)
                add("df_grad", dd, gg, f"{cls}.gradient")
            rg = None
            if hasattr(obj, "raw_grad"):
                rg = call(obj.raw_grad, y, u)
                add("df_rawgrad", base, rg, f"{cls}.raw_grad")
                if not isinstance(rg, str) and smooth and df.kind != "svc":
                    rfd = np.array([fd(lambda uu: ref(uu), u, i, 1e-6) for i in range(n)])
                    if not near(rg, rfd):
                        rep.violate(f"{cls}.raw_grad is not the derivative w.r.t. the linear predictor",
                                    dict(site=f"{cls}.raw_grad"), input=inp, impl_output=np.asarray(rg).tolist(),
                                    oracle=dict(name="central finite differences", value=rfd.tolist()))
            if hasattr(obj, "intercept_update_step"):
                st = call(obj.intercept_update_step, y, u)
                add("df_istep", base, st, f"{cls}.intercept_update_step")
                if not isinstance(st, str) and smooth:
                    dfb = fd(lambda bb: ref(X @ w + bb[0]), np.array([b]), 0, 1e-6)
                    want = ISCALE.get(df.kind, 1.0) * dfb
                    if not near(st, want):
                        rep.violate(f"{cls}.intercept_update_step is not (1/L_0) x the intercept derivative",
                                    dict(site=f"{cls}.intercept_update_step"), input=inp, impl_output=float(st),
                                    oracle=dict(name="finite difference in the intercept x 1/L_0", value=want))
            # ---- sparse accessors: must equal the dense ones
            sp = (Xs.data, Xs.indptr, Xs.indices)
            if hasattr(obj, "initialize_sparse"):
                r = call(obj.initialize_sparse, *sp, y)
                if isinstance(r, str):
                    rep.violate(f"{cls}.initialize_sparse fails on valid input: {r}",
                                dict(site=f"{cls}.initialize_sparse"), input=inp, impl_output=r)
                    continue
            if hasattr(obj, "gradient_scalar_sparse"):
                gs = [call(obj.gradient_scalar_sparse, *sp, y, u, j) for j in range(p)]
                bads = [t for t in gs if isinstance(t, str)]
                gsd = bads[0] if bads else np.array(gs)
                add("df_grad_sp", ds, gsd, f"{cls}.gradient_scalar_sparse", gd)
            if hasattr(obj, "full_grad_sparse"):
                fg = call(obj.full_grad_sparse, *sp, y, u)
                add("df_grad_sp", ds, fg, f"{cls}.full_grad_sparse", gd)
            if hasattr(obj, "gradient_sparse"):
                fg = call(obj.gradient_sparse, *sp, y, u)
                add("df_grad_sp", ds, fg, f"{cls}.gradient_sparse", gd)
    outs = lean.drive(lines)
    for line, out, res, (site, inp, dense_ref) in zip(lines, outs, expect, meta):
        m = decode(out)
        i = canon(res)
        nontriv = not isinstance(res, str) and bool(np.any(np.asarray(res) != 0))
        rep.count(site, not nontriv, hash(line))
        if not same(i, m, 1e-8, 1e-10):
            rep.disagree("K:datafit", line[:400], i[:12], m[:12], dict(site=site), input=inp)
        if dense_ref is not None and not isinstance(dense_ref, str):
            if isinstance(res, str) or not near(res, dense_ref, 1e-9, 1e-11):
                rep.violate(f"{site} differs from the dense accessor on the same matrix", dict(site=site),
                            input=inp, impl_output=i[:12], oracle=dict(name="dense accessor", value=canon(dense_ref)[:12]))
    rep.sample(dict(line=lines[0][:300], impl=canon(expect[0])[:8], model=decode(outs[0])[:8]))
    rep.sample(dict(site=meta[-1][0], input={k: meta[-1][1][k] for k in ("datafit", "X", "y", "w")}))
    from . import c06_ext
    c06_ext.run_all(ctx, rep)
    from . import moves_common
    moves_common.run_cox_sweeps(ctx, rep)


def replay(ctx, payload):
    print(payload)
    return 0
