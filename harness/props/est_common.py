"""Level E: the ready-made estimators.  Everything here drives the real estimators end to end and checks the
result against the objective written in each estimator's documentation (transcribed below, independently of
skglm's datafit / penalty classes)."""
import copy
import math
import os
import warnings

import numpy as np

from .. import ref
from ..blocks import Blk
from ..core import Report
from ..impl import Pen, Dfit, classify_exc, gen_matrix
from .c06_ext import cox_ref, fd_vec

warnings.filterwarnings("ignore")
_shimmed = False


def shim():
    """sklearn >= 1.6 removed BaseEstimator._validate_data, which skglm's regression estimators call: install,
    in this process only, the one-line forwarding shim (environment incompatibility, not skglm logic)"""
    global _shimmed
    if _shimmed:
        return
    import sklearn.utils.validation as V
    from sklearn.base import BaseEstimator
    if not hasattr(BaseEstimator, "_validate_data"):
        BaseEstimator._validate_data = lambda self, *a, **k: V.validate_data(self, *a, **k)
    _shimmed = True


class EstCase:
    def __init__(self, name, kwargs, X, y, groups=None):
        self.name, self.kwargs, self.X, self.y, self.groups = name, dict(kwargs), X, y, groups

    def describe(self):
        kw = {k: (np.asarray(v).tolist() if isinstance(v, np.ndarray) else v) for k, v in self.kwargs.items()}
        return dict(estimator=self.name, kwargs=kw, X=self.X.tolist(), y=np.asarray(self.y).tolist())

    def signature(self, **kw):
        if self.name == "GLE":
            return dict(estimator="GLE", datafit=self.kwargs["datafit"], solver=self.kwargs["solver"],
                        fit_intercept=bool(self.kwargs.get("fit_intercept", False)), positive=False, **kw)
        return dict(estimator=self.name, fit_intercept=bool(self.kwargs.get("fit_intercept", False)),
                    positive=bool(self.kwargs.get("positive", False)), **kw)

    def build(self, **over):
        shim()
        import skglm
        from skglm.experimental.sqrt_lasso import SqrtLasso
        if self.name == "GLE":
            # GeneralizedLinearEstimator(datafit, penalty, solver) assembled from plain arguments
            import skglm.datafits as D
            import skglm.penalties as P
            import skglm.solvers as S
            kw = dict(self.kwargs, **over)
            dname = kw["datafit"]
            datafit = D.Huber(1.35) if dname == "Huber" else getattr(D, dname)()
            pk = kw["penalty"]
            penalty = (P.L1(kw["alpha"]) if pk == "L1" else P.L1_plus_L2(kw["alpha"], 0.5) if pk == "L1_plus_L2"
                       else P.WeightedL1(kw["alpha"], np.asarray(kw["weights"], float)))
            skw = dict(tol=kw["tol"], fit_intercept=kw["fit_intercept"], max_iter=kw.get("max_iter", 100))
            if kw["solver"] == "AndersonCD":
                skw["max_epochs"] = 50000
            solver = getattr(S, kw["solver"])(**skw)
            return skglm.GeneralizedLinearEstimator(datafit, penalty, solver)
        cls = SqrtLasso if self.name == "SqrtLasso" else getattr(skglm, self.name)
        return cls(**dict(self.kwargs, **over))


# ------------------------------------------------------------------ documented objectives

def doc_violation(case, coef, intercept, rng):
    """first-order optimality violation of (coef, intercept) for the objective in the estimator's docstring"""
    from .c08 import block_dist
    name, kw = case.name, case.kwargs
    X = case.X
    y = np.asarray(getattr(case, "y_numeric", case.y), float)
    n, p = X.shape
    fi = bool(kw.get("fit_intercept", False))
    a = kw.get("alpha", 1.0)
    pos = bool(kw.get("positive", False))
    coef = np.asarray(coef, float)
    if name in ("Lasso", "WeightedLasso", "ElasticNet", "MCPRegression", "SparseLogisticRegression"):
        wts = np.ones(p)
        if name == "Lasso":
            df, pen = Dfit("quadratic"), Pen("l1", a, positive=pos)
        elif name == "WeightedLasso":
            w_ = kw.get("weights")
            if w_ is None:
                df, pen = Dfit("quadratic"), Pen("l1", a, positive=pos)
            else:
                df, pen, wts = Dfit("quadratic"), Pen("wl1", a, positive=pos), np.asarray(w_, float)
        elif name == "ElasticNet":
            df, pen = Dfit("quadratic"), Pen("l1l2", a, l1_ratio=kw.get("l1_ratio", 0.5), positive=pos)
        elif name == "MCPRegression":
            w_ = kw.get("weights")
            if w_ is None:
                df, pen = Dfit("quadratic"), Pen("mcp", a, gamma=kw.get("gamma", 3), positive=pos)
            else:
                df, pen, wts = Dfit("quadratic"), Pen("wmcp", a, gamma=kw.get("gamma", 3), positive=pos), np.asarray(w_, float)
        else:
            df, pen = Dfit("logistic"), Pen("l1", a)
            coef = coef.ravel()
            intercept = float(np.ravel(intercept)[0]) if fi else 0.0
        v, d = ref.cert_subdiff(df, pen, wts, X, np.ones(n), y, coef.ravel(), float(intercept) if fi else 0.0, fi)
        return v, d
    if name == "GroupLasso":
        from ..utils_groups import groups_of
        groups = groups_of(kw["groups"], p)
        wgs = np.ones(len(groups)) if kw.get("weights") is None else np.asarray(kw["weights"], float)
        blk = Blk("wgl2", a, positive=pos)
        b = float(intercept) if fi else 0.0
        g = X.T @ (X @ coef + b - y) / n
        d = [block_dist(rng, blk, wgs[k], None, coef[idx], -g[idx])[0] for k, idx in enumerate(groups)]
        v = max(d) if d else 0.0
        if fi:
            v = max(v, abs(float(np.mean(X @ coef + b - y))))
        return v, d
    if name == "MultiTaskLasso":
        W = coef.T                                  # coef_ has shape (n_tasks, n_features)
        b = np.asarray(intercept, float) if fi else np.zeros(W.shape[1])
        G = X.T @ (X @ W + b - y) / n
        blk = Blk("l21", a)
        d = [block_dist(rng, blk, 1.0, None, W[j], -G[j])[0] for j in range(p)]
        v = max(d) if d else 0.0
        if fi:
            v = max(v, float(np.max(np.abs(np.mean(X @ W + b - y, axis=0)))))
        return v, d
    if name == "SqrtLasso":
        r = y - X @ coef
        nr = float(np.linalg.norm(r))
        if nr < 1e-12:
            return 0.0, []
        g = -X.T @ r / nr
        d = [ref.dist_subdiff(Pen("l1", a), 1.0, float(c), -float(gj)) for c, gj in zip(coef, g)]
        return (max(d) if d else 0.0), d
    if name == "CoxEstimator":
        tm, s = y[:, 0], y[:, 1]
        efron = kw.get("method", "efron") == "efron"
        g = fd_vec(lambda ww: cox_ref(tm, s, X @ ww, efron), coef)
        r = kw.get("l1_ratio", 0.7)
        if r == 0:
            d = list(np.abs(g + a * coef))
        else:
            pen = Pen("l1", a) if r == 1 else Pen("l1l2", a, l1_ratio=r)
            d = [ref.dist_subdiff(pen, 1.0, float(c), -float(gj)) for c, gj in zip(coef, g)]
        return (max(d) if d else 0.0), [float(t) for t in d]
    raise KeyError(name)


def svc_checks(case, est, rep):
    """LinearSVC: dual feasibility, dual stationarity for the documented dual, and coef_ = sum_i y_i w_i X[i]"""
    X, y = case.X, np.asarray(case.y)
    C = case.kwargs.get("C", 1.0)
    if len(est.classes_) != 2:
        return
    ypm = np.where(y == est.classes_[1], 1.0, -1.0)
    dual = np.asarray(est.dual_coef_)[0]
    sig = case.signature(site="LinearSVC.fit")
    if np.any(dual < -1e-12) or np.any(dual > C + 1e-12):
        rep.violate("LinearSVC dual coefficients leave [0, C]", dict(sig, kind="dual-infeasible"), case=case.describe(),
                    impl_output=dual.tolist())
    prim = (ypm * dual) @ X
    if not np.allclose(prim, np.asarray(est.coef_)[0], atol=1e-9, rtol=1e-9):
        rep.violate("LinearSVC.coef_ is not the stated primal image sum_i y_i w_i X[i, :] of its dual solution",
                    dict(sig, kind="primal-image"), case=case.describe(),
                    impl_output=dict(coef=np.asarray(est.coef_).tolist(), image=prim.tolist()))
    # dual stationarity: gradient of 1/2 ||(yX)^T w||^2 - sum w  is  (yX)(yX)^T w - 1
    yX = X * ypm[:, None]
    g = yX @ (yX.T @ dual) - 1.0
    d = [ref.dist_subdiff(Pen("box", C), 1.0, float(min(max(w, 0.0), C)), -float(gj)) for w, gj in zip(dual, g)]
    v = max(d) if d else 0.0
    tol = case.kwargs.get("tol", 1e-4)
    if getattr(est, "stop_crit_", 0.0) <= tol and v > 10 * tol + 1e-6:
        rep.violate("LinearSVC dual solution is not stationary for the documented dual problem",
                    dict(sig, kind="doc-objective"), case=case.describe(), impl_output=dual.tolist(),
                    oracle=dict(violation=v, tol=tol))


# ------------------------------------------------------------------ generators

def gen_data(rng, name):
    n, p = rng.randrange(6, 16), rng.randrange(2, 9)
    X = gen_matrix(rng, n, p, rng.choice(["gauss", "gauss", "dyadic"]))
    wt = np.array([rng.choice([0.0, 0.0, 1.0, -2.0, 0.5]) for _ in range(p)])
    if name in ("SparseLogisticRegression", "LinearSVC"):
        lab = rng.choice([("a", "b"), (-1, 1), (0, 1), (3, 7), ("neg", "pos")])
        s = X @ wt + np.array([rng.gauss(0, 1) for _ in range(n)])
        yy = np.where(s > np.median(s), 1, 0)
        y = np.array([lab[k] for k in yy])
    elif name == "MultiTaskLasso":
        T = rng.randrange(2, 4)
        W = np.array([[rng.choice([0.0, 1.0, -1.0]) for _ in range(T)] for _ in range(p)])
        y = X @ W + 0.3 * np.array([[rng.gauss(0, 1) for _ in range(T)] for _ in range(n)]) + rng.choice([0.0, 2.0])
    elif name == "CoxEstimator":
        X = X * 0.5
        tm = np.array([float(rng.choice([1, 2, 2, 3, 3, 4, 5, 6, 7, 8])) for _ in range(n)])
        s = np.array([float(rng.random() < 0.75) for _ in range(n)])
        if not np.any(s):
            s[0] = 1.0
        y = np.column_stack([tm, s])
    elif name.startswith("GLE:"):
        dname = name.split(":")[1]
        X = X * 0.5
        s = X @ wt
        if dname == "Logistic":
            y = np.where(s + np.array([rng.gauss(0, 1) for _ in range(n)]) > 0, 1.0, -1.0)
            y[0], y[1] = 1.0, -1.0
        elif dname == "Poisson":
            y = np.array([float(rng.randrange(0, 6)) for _ in range(n)])
        elif dname == "Gamma":
            y = np.exp(0.3 * s) * np.array([rng.uniform(0.5, 1.5) for _ in range(n)])
        else:
            y = s + 0.3 * np.array([rng.gauss(0, 1) for _ in range(n)])
    else:
        y = X @ wt + 0.3 * np.array([rng.gauss(0, 1) for _ in range(n)]) + rng.choice([0.0, 0.0, 3.0])
    return X, y


def gen_est(rng, name=None):
    name = name or rng.choice(["Lasso", "WeightedLasso", "ElasticNet", "MCPRegression", "GroupLasso",
                               "MultiTaskLasso", "SparseLogisticRegression", "LinearSVC", "CoxEstimator", "SqrtLasso"])
    if name == "GLE":
        dname = rng.choice(["Quadratic", "Huber", "Logistic", "Poisson", "Gamma"])
        X, y = gen_data(rng, "GLE:" + dname)
        n, p = X.shape
        solver = "AndersonCD" if dname in ("Quadratic", "Huber") else rng.choice(["ProxNewton", "ProxNewton", "AndersonCD"]) \
            if dname == "Logistic" else "ProxNewton"
        pk = rng.choice(["L1", "L1_plus_L2", "WeightedL1"])
        kw = dict(datafit=dname, penalty=pk, alpha=rng.choice([0.01, 0.05, 0.1]), solver=solver, tol=rng.choice([1e-6, 1e-8]),
                  fit_intercept=rng.random() < 0.5, max_iter=100)
        if pk == "WeightedL1":
            kw["weights"] = np.array([rng.choice([0.5, 1.0, 2.0]) for _ in range(p)])
        return EstCase("GLE", kw, X, y)
    X, y = gen_data(rng, name)
    n, p = X.shape
    fi = rng.random() < 0.5
    pos = rng.random() < 0.3
    a = rng.choice([0.01, 0.05, 0.1, 0.3])
    tol = rng.choice([1e-6, 1e-8])
    kw = dict(alpha=a, tol=tol)
    if name == "Lasso":
        kw.update(positive=pos, fit_intercept=fi, max_iter=100)
    elif name == "WeightedLasso":
        w = None if rng.random() < 0.2 else np.array([rng.choice([0.0, 0.5, 1.0, 2.0]) for _ in range(p)])
        kw.update(weights=w, positive=pos, fit_intercept=fi, max_iter=100)
    elif name == "ElasticNet":
        kw.update(l1_ratio=rng.choice([0.1, 0.5, 0.9, 1.0]), positive=pos, fit_intercept=fi, max_iter=100)
    elif name == "MCPRegression":
        L = (X ** 2).sum(axis=0) / n
        X = np.asfortranarray(X / np.sqrt(np.where(L > 0, L, 1.0)))
        w = None if rng.random() < 0.5 else np.array([rng.choice([0.5, 1.0, 2.0]) for _ in range(p)])
        kw.update(gamma=rng.choice([3.0, 10.0]), weights=w, positive=pos, fit_intercept=fi, max_iter=100)
    elif name == "GroupLasso":
        k = rng.choice([d for d in (1, 2, 3, 4) if p % d == 0])
        mode = rng.choice(["int", "sizes", "lists"])
        if mode == "int":
            groups = k
        elif mode == "sizes":
            groups, left = [], p
            while left:
                t = min(left, rng.choice([1, 2, 3]))
                groups.append(t)
                left -= t
        else:
            idx = list(range(p))
            rng.shuffle(idx)
            groups, i = [], 0
            while i < p:
                t = min(p - i, rng.choice([1, 2, 3]))
                groups.append(idx[i:i + t])
                i += t
        from ..utils_groups import groups_of
        ng = len(groups_of(groups, p))
        w = None if rng.random() < 0.4 else np.array([rng.choice([0.5, 1.0, 2.0]) for _ in range(ng)])
        kw.update(groups=groups, weights=w, positive=pos, fit_intercept=fi, max_iter=500, max_epochs=500)
    elif name == "MultiTaskLasso":
        kw.update(fit_intercept=fi, max_iter=200)
    elif name == "SparseLogisticRegression":
        kw.update(fit_intercept=fi, max_iter=100)
    elif name == "LinearSVC":
        kw = dict(C=rng.choice([0.1, 1.0, 10.0]), tol=tol, max_iter=200, max_epochs=1000)
    elif name == "CoxEstimator":
        kw = dict(alpha=a, l1_ratio=rng.choice([0.0, 0.5, 0.7, 1.0]), method=rng.choice(["efron", "breslow"]),
                  tol=tol, max_iter=100)
    elif name == "SqrtLasso":
        kw = dict(alpha=rng.choice([0.05, 0.1, 0.3]), tol=tol, max_iter=100)
    return EstCase(name, kw, X, y)


def fit_case(case, X=None, y=None, **over):
    est = case.build(**over)
    try:
        with warnings.catch_warnings(record=True) as wl:
            warnings.simplefilter("always")
            est.fit(case.X if X is None else X, case.y if y is None else y)
        est._verif_warnings = [str(w.message) for w in wl]
        return est, None
    except Exception as e:   # noqa: BLE001
        return est, classify_exc(e) + ":" + str(e)[:200]


# ------------------------------------------------------------------ C11

def check_doc_objective(case, est, rep, rng, tolfac=50.0):
    tol = case.kwargs.get("tol", 1e-4)
    sig = case.signature(site=f"{case.name}.fit")
    coef, inter = est.coef_, est.intercept_
    if not np.all(np.isfinite(np.asarray(coef, float))):
        rep.violate(f"{case.name}.coef_ is not finite", dict(sig, kind="nonfinite"), case=case.describe(),
                    impl_output=np.asarray(coef).tolist())
        return
    if case.name == "LinearSVC":
        svc_checks(case, est, rep)
        return
    stop = getattr(est, "stop_crit_", getattr(est, "stopping_crit", None))
    if stop is not None and not stop <= tol:
        return                      # not converged within the budget: nothing is claimed
    if case.name == "SqrtLasso" and any("Small residuals" in m for m in getattr(est, "_verif_warnings", [])):
        return                      # documented limitation, announced by a ConvergenceWarning
    if case.name == "SparseLogisticRegression":
        if len(est.classes_) != 2:
            return
        case = copy.copy(case)
        case.y_numeric = np.where(np.asarray(case.y) == est.classes_[1], 1.0, -1.0)
    v, d = doc_violation(case, coef, inter, rng)
    scale = 1 + float(np.max(np.abs(case.X)))
    if not v <= tolfac * tol * scale + 1e-5:
        rep.violate(f"{case.name}: the fitted coefficients are not stationary for the objective written in the "
                    "documentation with these constructor arguments", dict(sig, kind="doc-objective"),
                    case=case.describe(), impl_output=dict(coef=np.asarray(coef).tolist(), intercept=np.asarray(inter).tolist()),
                    oracle=dict(name="optimality violation for the documented objective", violation=v, tol=tol))
    if bool(case.kwargs.get("positive", False)) and np.any(np.asarray(coef) < 0):
        rep.violate(f"{case.name}(positive=True) returned a negative coefficient", dict(sig, kind="infeasible"),
                    case=case.describe(), impl_output=np.asarray(coef).tolist())


def run_doc_objectives(ctx, rep):
    rng = ctx.rng
    for _ in range(ctx.n(110, 1500)):
        case = gen_est(rng)
        est, err = fit_case(case)
        rep.count(f"est:{case.name}", err is not None, ("est", case.name, len(rep.nontrivial)))
        if err:
            rep.violate(f"{case.name}.fit fails on legitimate arguments: {err}",
                        dict(case.signature(site=f"{case.name}.fit"), kind="raises:" + err.split(":")[1]),
                        case=case.describe(), impl_output=err)
            continue
        check_doc_objective(case, est, rep, rng)
        if len(rep.samples) < 3:
            rep.sample(dict(estimator=case.name, kwargs={k: (np.asarray(v).tolist() if isinstance(v, np.ndarray) else v)
                                                          for k, v in case.kwargs.items()},
                            shape=list(case.X.shape), n_iter=getattr(est, "n_iter_", None)))


# ------------------------------------------------------------------ C10 containers

def run_containers(ctx, rep):
    from scipy import sparse
    rng = ctx.rng
    for _ in range(ctx.n(40, 400)):
        name = rng.choice(["Lasso", "ElasticNet", "WeightedLasso", "SparseLogisticRegression", "LinearSVC",
                           "GroupLasso", "MultiTaskLasso", "MCPRegression", "GLE", "GLE", "GLE"])
        case = gen_est(rng, name)
        base, err = fit_case(case)
        if err:
            continue
        if name == "GLE":
            name = "GLE:" + case.kwargs["datafit"] + ":" + case.kwargs["solver"]
        tol = case.kwargs.get("tol", 1e-6)
        ref_coef = np.asarray(base.coef_, float)
        variants = dict(C_order=np.ascontiguousarray(case.X), csc=sparse.csc_matrix(case.X),
                        csr=sparse.csr_matrix(case.X), lists=case.X.tolist(),
                        float32=case.X.astype(np.float32))
        base32 = None
        for vn, Xv in variants.items():
            over = {}
            if vn == "float32":
                # single precision cannot reach tolerances below ~1e-5: compare at a tolerance both can meet
                over = dict(tol=1e-4)
                base32, eb = fit_case(case, **over)
                if eb:
                    continue
            est, e2 = fit_case(case, X=Xv, **over)
            rep.count(f"container:{name}:{vn}", False, ("cont", name, vn, len(rep.nontrivial)))
            sig = case.signature(site=f"{name}.fit", container=vn)
            if e2:
                cls = e2.split(":")[1]
                if cls in ("ValueError", "AttributeError", "TypeError") and ("sparse" in e2.lower() or "support" in e2.lower()):
                    continue
                rep.violate(f"{name}.fit fails on X given as {vn}: {e2[:120]}", dict(sig, kind="container-failure"),
                            case=case.describe(), impl_output=e2)
                continue
            c = np.asarray(est.coef_, float)
            refc = ref_coef if vn != "float32" else np.asarray(base32.coef_, float)
            lim = (2e-2 if vn == "float32" else 1e3 * tol) * (1 + float(np.max(np.abs(refc))))
            if vn == "float32" and case.name in ("MCPRegression",):
                continue            # non-convex: single-precision trajectories may end in another stationary point
            if c.shape != refc.shape or not np.all(np.abs(c - refc) <= lim):
                rep.violate(f"{name}: X given as {vn} leads to a different solution than the F-ordered ndarray",
                            dict(sig, kind="container-mismatch"), case=case.describe(),
                            impl_output=dict(coef=c.tolist(), reference=refc.tolist()))


# ------------------------------------------------------------------ C12 classifiers

def run_classifiers(ctx, rep):
    shim()
    import skglm
    rng = ctx.rng
    for _ in range(ctx.n(40, 400)):
        name = rng.choice(["SparseLogisticRegression", "LinearSVC"])
        n, p = rng.randrange(8, 20), rng.randrange(2, 6)
        X = gen_matrix(rng, n, p, "gauss")
        k = rng.choice([2, 2, 3, 4])
        labsets = [list("abcd"), [10, -3, 7, 2], [0, 1, 2, 3], [-1, 1, 5, 9], ["x", "yy", "z", "w"]]
        labs = rng.choice(labsets)[:k]
        if k == 2 and rng.random() < 0.5:
            labs = rng.choice([[-1, 1], [0, 1]])
        scores = X @ np.array([[rng.gauss(0, 1) for _ in range(k)] for _ in range(p)])
        yi = np.argmax(scores + 0.3 * np.array([[rng.gauss(0, 1) for _ in range(k)] for _ in range(n)]), axis=1)
        for c in range(k):
            yi[c % n] = c                       # every class is present
        y = np.array([labs[c] for c in yi])
        fi = rng.random() < 0.5 and name == "SparseLogisticRegression"
        kw = dict(alpha=rng.choice([0.01, 0.05]), fit_intercept=fi, tol=1e-8, max_iter=100) \
            if name == "SparseLogisticRegression" else dict(C=rng.choice([0.5, 1.0]), tol=1e-8, max_iter=200)
        case = EstCase(name, kw, X, y)
        est, err = fit_case(case)
        sig = case.signature(site=f"{name}", n_classes=k)
        rep.count(f"clf:{name}:{k}", err is not None, ("clf", name, k, len(rep.nontrivial)))
        if err:
            rep.violate(f"{name}.fit fails on a legitimate label set: {err}", dict(sig, kind="raises"),
                        case=case.describe(), impl_output=err)
            continue
        dfv = est.decision_function(X)
        pred = est.predict(X)
        cls = est.classes_
        if sorted(map(str, cls)) != sorted(map(str, set(labs[:k]))):
            rep.violate(f"{name}.classes_ is not the set of labels", dict(sig, kind="classes"), case=case.describe(),
                        impl_output=list(map(str, cls)))
            continue
        want = cls[(dfv > 0).astype(int)] if k == 2 else cls[np.argmax(dfv, axis=1)]
        if not np.array_equal(np.asarray(pred).astype(str), np.asarray(want).astype(str)):
            rep.violate(f"{name}.predict is not classes_ selected by the decision function",
                        dict(sig, kind="predict"), case=case.describe(), impl_output=np.asarray(pred).astype(str).tolist())
        if name == "SparseLogisticRegression":
            pr = est.predict_proba(X)
            if not np.allclose(pr.sum(axis=1), 1.0, atol=1e-9) or np.any(pr < 0):
                rep.violate("predict_proba rows do not sum to one", dict(sig, kind="proba-sum"), case=case.describe(),
                            impl_output=pr.tolist())
            col = 1 if k == 2 else 0
            dv = dfv if k == 2 else dfv[:, 0]
            o = np.argsort(dv)
            if k == 2 and np.any(np.diff(pr[o, col]) < -1e-12):
                rep.violate("predict_proba is not monotone in the decision function", dict(sig, kind="proba-monotone"),
                            case=case.describe(), impl_output=pr.tolist())
        # renaming the labels (order preserving) changes nothing but the labels
        ren = {lab: f"L{i:02d}_{lab}" for i, lab in enumerate(sorted(set(y.tolist()), key=lambda t: list(cls).index(t)))}
        y2 = np.array([ren[t] for t in y.tolist()])
        est2, err2 = fit_case(case, y=y2)
        if err2 is None:
            p2 = est2.predict(X)
            back = {v: k_ for k_, v in ren.items()}
            if not np.array_equal(np.array([str(back[t]) for t in p2.tolist()]), np.asarray(pred).astype(str)):
                rep.violate(f"{name}: renaming the class labels changes the predictions", dict(sig, kind="relabel"),
                            case=case.describe(), impl_output=p2.tolist())
            if not np.allclose(np.asarray(est2.coef_), np.asarray(est.coef_), atol=1e-7):
                rep.violate(f"{name}: renaming the class labels changes the fitted coefficients",
                            dict(sig, kind="relabel-coef"), case=case.describe(),
                            impl_output=np.asarray(est2.coef_).tolist())
        # refitting ONE estimator object on renamed labels (warm start on and off): classes_, predictions and
        # probabilities describe the last fit, not an earlier one (seeded s12: classes_ kept across warm refits)
        for ws in (True, False):
            est3, err3 = fit_case(case, warm_start=ws)
            if err3 is not None:
                continue
            try:
                with warnings.catch_warnings():
                    warnings.simplefilter("ignore")
                    est3.fit(X, y2)
            except Exception as e:   # noqa: BLE001
                rep.violate(f"{name}(warm_start={ws}): a fitted classifier cannot be fitted again on renamed labels: "
                            f"{classify_exc(e)}", dict(sig, kind="refit-raises", warm_start=ws), case=case.describe(),
                            impl_output=str(e)[:200])
                continue
            rep.count(f"clf-refit:{name}:ws={ws}", False, ("clf-refit", name, ws, k))
            cls3 = np.asarray(est3.classes_)
            if sorted(map(str, cls3)) != sorted(set(y2.tolist())):
                rep.violate(f"{name}(warm_start={ws}): after a refit on renamed labels classes_ is not the label set of "
                            "the last fit", dict(sig, kind="refit-classes", warm_start=ws), case=case.describe(),
                            impl_output=dict(classes=list(map(str, cls3)), labels=sorted(set(y2.tolist()))))
                continue
            d3 = est3.decision_function(X)
            want3 = cls3[(d3 > 0).astype(int)] if k == 2 else cls3[np.argmax(d3, axis=1)]
            p3 = np.asarray(est3.predict(X)).astype(str)
            if not np.array_equal(p3, np.asarray(want3).astype(str)) or not set(p3.tolist()) <= set(y2.tolist()):
                rep.violate(f"{name}(warm_start={ws}): after a refit, predict is not classes_ selected by the decision "
                            "function", dict(sig, kind="refit-predict", warm_start=ws), case=case.describe(),
                            impl_output=p3.tolist())
        # one-vs-rest: row k (and its intercept) is the binary model of class k
        if k > 2:
            for ci, c in enumerate(cls):
                yb = np.where(y == c, 1, 0)
                estb, errb = fit_case(case, y=yb)
                if errb:
                    continue
                row = np.asarray(est.coef_)[ci]
                bb = np.asarray(est.intercept_).ravel()
                bi = float(bb[ci]) if bb.size == k else (float(bb[0]) if bb.size == 1 else float("nan"))
                db = estb.decision_function(X)
                if not np.allclose(row, np.asarray(estb.coef_)[0], atol=1e-6) or \
                        not np.allclose(X @ row + bi, db, atol=1e-5) or not np.allclose(dfv[:, ci], db, atol=1e-5):
                    rep.violate(f"{name}: with {k} classes, row {ci} of the fitted model (intercept included) is not the "
                                "binary one-vs-rest model of that class", dict(sig, kind="ovr-row"),
                                case=case.describe(), impl_output=dict(row=row.tolist(), intercept=np.asarray(est.intercept_).tolist(),
                                                                       binary_coef=np.asarray(estb.coef_).tolist(),
                                                                       binary_intercept=np.asarray(estb.intercept_).tolist()))
                    break


# ------------------------------------------------------------------ C18 purity / histories

def snapshot(*arrs):
    return [None if a is None else (np.array(a, copy=True) if isinstance(a, np.ndarray) else copy.deepcopy(a)) for a in arrs]


def _fits_in_fresh_process(case):
    """fit the case in a fresh interpreter (empty compile cache); True if it succeeds"""
    import pickle
    import subprocess
    import sys
    import tempfile
    with tempfile.NamedTemporaryFile(suffix=".pkl", delete=False) as fh:
        pickle.dump(dict(name=case.name, kwargs=case.kwargs, X=case.X, y=case.y, groups=case.groups), fh)
        path = fh.name
    code = ("import pickle, sys, warnings; warnings.filterwarnings('ignore'); sys.path.insert(0, %r); "
            "from harness.props import est_common as E; d = pickle.load(open(%r, 'rb')); "
            "E.shim(); c = E.EstCase(d['name'], d['kwargs'], d['X'], d['y'], d.get('groups')); est, e = E.fit_case(c); "
            "print('FRESH-OK' if e is None else 'FRESH-ERR ' + e)") % (os.path.dirname(os.path.dirname(os.path.dirname(os.path.abspath(__file__)))), path)
    try:
        out = subprocess.run([sys.executable, "-c", code], capture_output=True, text=True, timeout=900,
                             env=dict(os.environ)).stdout
    finally:
        os.unlink(path)
    return "FRESH-OK" in out


def run_cache(ctx, rep):
    """K-level: sequences of jit_cached_compile requests vs the cache state machine of the Lean model; and the
    precision of the class each request gets"""
    import numba
    import skglm.datafits as D
    import skglm.penalties as P
    from skglm.utils.jit_compilation import jit_cached_compile, spec_to_float32
    from .. import lean
    rng = ctx.rng
    protos = [D.Quadratic(), D.Huber(1.0), D.Logistic(), D.Poisson(), P.L1(0.1), P.L1_plus_L2(0.1, 0.5), P.MCPenalty(0.1, 3.0),
              P.WeightedL1(0.1, np.ones(3)), P.SCAD(0.1, 3.7), P.IndicatorBox(1.0)]
    lines, metas = [], []
    for _ in range(ctx.n(6, 40)):
        def f32_ok(inst):
            # spec_to_float32 refuses (ValueError "Unknown spec type") specs with fields that are neither float64 nor
            # arrays, e.g. the `positive` flag of penalties: estimators only ever request float32 *datafits*
            sp = inst.get_spec() or ()
            return all(t == numba.float64 or isinstance(t, numba.core.types.npytypes.Array) for _, t in sp)
        reqs = [(k_, f_ and f32_ok(protos[k_])) for k_, f_ in
                ((rng.randrange(len(protos)), rng.random() < 0.5) for _ in range(rng.randrange(3, 12)))]
        seen, ids, bad = {}, [], []
        for k, f32 in reqs:
            inst = protos[k]
            spec = inst.get_spec()
            try:
                cls = jit_cached_compile(inst.__class__, spec, f32)
            except Exception as e:   # noqa: BLE001
                bad.append(f"{type(inst).__name__} f32={f32}: {classify_exc(e)}")
                ids.append("none")
                continue
            ids.append(seen.setdefault(id(cls), len(seen)))
            # the class a request gets has the requested precision on every float field
            want = dict((spec_to_float32(spec) if f32 else spec) or ())
            got = dict(cls.class_type.struct)
            if {n: str(t) for n, t in want.items()} != {n: str(t) for n, t in got.items()}:
                rep.violate("jit_cached_compile returns a class compiled for another precision / spec than requested",
                            dict(site="jit_cached_compile", kind="wrong-class"),
                            input=dict(requests=[(type(protos[a]).__name__, b) for a, b in reqs], at=len(ids) - 1),
                            impl_output={n: str(t) for n, t in got.items()}, oracle={n: str(t) for n, t in want.items()})
        line = "cache_hist " + " ".join([str(len(reqs))] + [f"{k} 0 {'1' if f else '0'}" for k, f in reqs])
        lines.append(line)
        metas.append((reqs, ids, bad))
    outs = lean.drive(lines)
    for line, out, (reqs, ids, bad) in zip(lines, outs, metas):
        rep.count("cache:history", False, ("cache", line))
        m = out.split()
        i = [f"i{x}" if x != "none" else "none" for x in ids]
        # identities are compared up to renaming in order of first appearance (both sides number that way)
        if i != m:
            rep.disagree("K:cache", line, i, m, dict(site="jit_cached_compile"),
                         input=dict(requests=[(type(protos[a]).__name__ if False else a, b) for a, b in reqs]))
        for b_ in bad:
            rep.violate("jit_cached_compile raises on a legitimate request: " + b_, dict(site="jit_cached_compile", kind="raises"),
                        input=dict(requests=reqs))


def run_purity(ctx, rep):
    rng = ctx.rng
    for _ in range(ctx.n(30, 300)):
        # a history of 2-5 fits of different estimators sharing datafit / penalty classes
        hist = [gen_est(rng, rng.choice(["Lasso", "ElasticNet", "WeightedLasso", "MCPRegression",
                                         "SparseLogisticRegression", "LinearSVC", "GroupLasso", "MultiTaskLasso"]))
                for _ in range(rng.randrange(2, 6))]
        target = hist[-1]
        fresh, err = fit_case(target)
        if err:
            continue
        results = []
        for hi, c in enumerate(hist):
            # some members of the history are fitted on single-precision data (the compiled classes are cached per
            # class, spec and precision): the target is always double precision
            f32 = hi < len(hist) - 1 and c.name in ("Lasso", "WeightedLasso") and rng.random() < 0.5
            if f32:
                c = copy.copy(c)
                c.X = np.asfortranarray(c.X.astype(np.float32))
                c.kwargs = dict(c.kwargs, tol=1e-4)     # single precision cannot reach 1e-8
                c.y = np.asarray(c.y).astype(np.float32) if c.name != "SparseLogisticRegression" else c.y
            X0, y0 = c.X.copy(), np.array(c.y, copy=True)
            w0 = snapshot(c.kwargs.get("weights"))[0]
            est, e = fit_case(c)
            rep.count(f"history:{c.name}{':float32' if f32 else ''}", False, ("hist", c.name, len(rep.nontrivial)))
            sig = c.signature(site=f"{c.name}.fit")
            if e:
                # a valid fit that fails here: does the same fit succeed in a fresh interpreter?
                ok_fresh = _fits_in_fresh_process(c)
                if ok_fresh:
                    rep.violate(f"{c.name}.fit fails after the fits performed before it in the process ({e[:120]}) "
                                "and succeeds in a fresh interpreter", dict(sig, kind="history-failure"),
                                case=c.describe(), impl_output=e, history=[h.name for h in hist[:hi]], float32=f32)
                continue
            if not np.array_equal(X0, c.X) or not np.array_equal(y0, np.asarray(c.y)):
                rep.violate(f"{c.name}.fit modified its input X or y", dict(sig, kind="input-modified"), case=c.describe())
            if w0 is not None and not np.array_equal(w0, c.kwargs["weights"]):
                rep.violate(f"{c.name}.fit modified the user-supplied weights", dict(sig, kind="weights-modified"),
                            case=c.describe())
            results.append(est)
            # refit of the same object gives the same result
            try:
                c1 = np.array(est.coef_, copy=True)
                est.fit(c.X, c.y)
                if not np.allclose(c1, est.coef_, atol=1e-9):
                    rep.violate(f"{c.name}: fitting the same estimator twice gives a different result",
                                dict(sig, kind="refit-differs"), case=c.describe(),
                                impl_output=dict(first=c1.tolist(), second=np.asarray(est.coef_).tolist()))
            except Exception as ex:   # noqa: BLE001
                rep.violate(f"{c.name}: a fitted estimator cannot be fitted again ({type(ex).__name__})",
                            dict(sig, kind="refit-raises"), case=c.describe(), impl_output=str(ex)[:200])
        last = results[-1] if results else None
        if last is not None and not np.allclose(np.asarray(last.coef_), np.asarray(fresh.coef_), atol=1e-9):
            rep.violate(f"{target.name}: the result of a fit depends on the fits performed before it in the process",
                        dict(target.signature(site=f"{target.name}.fit"), kind="history-dependence"),
                        case=target.describe(), impl_output=dict(after_history=np.asarray(last.coef_).tolist(),
                                                                 fresh=np.asarray(fresh.coef_).tolist()),
                        history=[h.name for h in hist])


# ------------------------------------------------------------------ C05 warm-start refits

def run_warm_refits(ctx, rep):
    rng = ctx.rng
    for _ in range(ctx.n(40, 400)):
        name = rng.choice(["Lasso", "ElasticNet", "WeightedLasso", "SparseLogisticRegression", "MCPRegression"])
        case = gen_est(rng, name)
        est = case.build(warm_start=True)
        seq = []
        try:
            est.fit(case.X, case.y)
            for step in range(rng.randrange(1, 4)):
                ch = {}
                if "alpha" in case.kwargs and rng.random() < 0.7:
                    ch["alpha"] = rng.choice([0.01, 0.05, 0.2, 1.0])
                if "fit_intercept" in case.kwargs and rng.random() < 0.5:
                    ch["fit_intercept"] = not est.fit_intercept
                if name == "ElasticNet" and rng.random() < 0.3:
                    ch["l1_ratio"] = rng.choice([0.2, 0.8, 1.0])
                est.set_params(**ch)
                seq.append(ch)
                est.fit(case.X, case.y)
        except Exception as e:   # noqa: BLE001
            rep.violate(f"{name}: a warm-start refit after changing hyper-parameters fails: {classify_exc(e)}",
                        dict(case.signature(site=f"{name}.fit"), kind="warm-refit-raises"), case=case.describe(),
                        impl_output=str(e)[:200], history=seq)
            continue
        rep.count(f"warm-refit:{name}", False, ("warm", name, len(rep.nontrivial)))
        final = copy.copy(case)
        final.kwargs = {k: getattr(est, k) for k in case.kwargs}
        nv = len(rep.violations)
        check_doc_objective(final, est, rep, rng)
        for v in rep.violations[nv:]:
            v["history"] = seq
            v["signature"]["kind"] = "warm-refit:" + v["signature"]["kind"]
            v["what"] = "after a warm-start refit with changed hyper-parameters: " + v["what"]


# ------------------------------------------------------------------ C17 n_iter_

def run_n_iter(ctx, rep):
    """n_iter_ is the number of outer iterations performed = length of the history the solver returned"""
    shim()
    from skglm.solvers.base import BaseSolver
    rng = ctx.rng
    captured = []
    orig = BaseSolver.solve

    def spy(self, *a, **k):
        out = orig(self, *a, **k)
        captured.append(len(out[1]))
        return out
    BaseSolver.solve = spy
    try:
        for _ in range(ctx.n(40, 400)):
            case = gen_est(rng, rng.choice(["Lasso", "ElasticNet", "WeightedLasso", "MCPRegression", "GroupLasso",
                                            "MultiTaskLasso", "SparseLogisticRegression", "LinearSVC"]))
            case.kwargs["max_iter"] = rng.choice([1, 2, 3, 50])
            captured.clear()
            est, err = fit_case(case)
            if err or not captured:
                continue
            rep.count(f"n_iter:{case.name}", False, ("nit", case.name, len(rep.nontrivial)))
            if getattr(est, "n_iter_", None) != captured[-1]:
                rep.violate(f"{case.name}.n_iter_ is not the number of outer iterations the solver performed",
                            dict(case.signature(site=f"{case.name}.fit"), kind="n_iter"), case=case.describe(),
                            impl_output=dict(n_iter_=getattr(est, "n_iter_", None), history_length=captured[-1]))
    finally:
        BaseSolver.solve = orig


def run_reweighted(ctx, rep):
    """C18: IterativeReweightedL1 can be fitted again, gives the same result, leaves its arguments alone"""
    shim()
    from skglm.experimental.reweighted import IterativeReweightedL1
    from skglm.penalties import L0_5
    rng = ctx.rng
    for _ in range(ctx.n(4, 30)):
        n, p = rng.randrange(8, 16), rng.randrange(3, 8)
        X = gen_matrix(rng, n, p, "gauss")
        y = X @ np.array([rng.choice([0.0, 1.0, -2.0]) for _ in range(p)]) + 0.1 * np.array([rng.gauss(0, 1) for _ in range(n)])
        from skglm.solvers import AndersonCD
        est = IterativeReweightedL1(penalty=L0_5(rng.choice([0.01, 0.05])), solver=AndersonCD(tol=1e-8, fit_intercept=False))
        sig = dict(estimator="IterativeReweightedL1", site="IterativeReweightedL1.fit")
        rep.count("reweighted", False, ("rw", len(rep.nontrivial)))
        try:
            est.fit(X, y)
            c1 = np.array(est.coef_, copy=True)
            est.fit(X, y)
        except Exception as e:    # noqa: BLE001
            rep.violate(f"IterativeReweightedL1: a fitted estimator cannot be fitted again ({type(e).__name__}: {str(e)[:80]})",
                        dict(sig, kind="refit-raises"), input=dict(X=X.tolist(), y=y.tolist()), impl_output=str(e)[:200])
            continue
        if not np.allclose(c1, est.coef_, atol=1e-9):
            rep.violate("IterativeReweightedL1: fitting twice gives different results", dict(sig, kind="refit-differs"),
                        input=dict(X=X.tolist(), y=y.tolist()), impl_output=dict(first=c1.tolist(), second=np.asarray(est.coef_).tolist()))
        # the majorised non-convex objective never increases along the reweighting iterations
        lh = np.asarray(est.loss_history_, float)
        if np.any(np.diff(lh) > 1e-9 * (1 + np.abs(lh[:-1]))):
            rep.violate("IterativeReweightedL1: the non-convex objective increases along the reweighting iterations",
                        dict(sig, kind="reweight-ascent"), input=dict(X=X.tolist(), y=y.tolist()), impl_output=lh.tolist())


# ------------------------------------------------------------------ model correspondence (Level E)

def est_tokens(case):
    from ..proto import fb, b
    kw = case.kwargs
    n = case.name
    if n == "Lasso":
        return f"Lasso {fb(kw['alpha'])} {b(kw.get('positive', False))} {b(kw.get('fit_intercept', True))}"
    if n == "WeightedLasso":
        return (f"WeightedLasso {fb(kw['alpha'])} {b(kw.get('weights') is not None)} {b(kw.get('positive', False))} "
                f"{b(kw.get('fit_intercept', True))}")
    if n == "ElasticNet":
        return (f"ElasticNet {fb(kw['alpha'])} {fb(kw.get('l1_ratio', 0.5))} {b(kw.get('positive', False))} "
                f"{b(kw.get('fit_intercept', True))}")
    if n == "MCPRegression":
        return (f"MCPRegression {fb(kw['alpha'])} {fb(kw.get('gamma', 3))} {b(kw.get('weights') is not None)} "
                f"{b(kw.get('positive', False))} {b(kw.get('fit_intercept', True))}")
    if n == "SparseLogisticRegression":
        return f"SparseLogisticRegression {fb(kw['alpha'])} {b(kw.get('fit_intercept', True))}"
    if n == "LinearSVC":
        return f"LinearSVC {fb(kw.get('C', 1.0))}"
    return None


def run_plumbing(ctx, rep):
    """what each estimator hands to BaseSolver.solve (hook event) vs the Lean model `Est.datafit/penalty/fitInt`;
    classifier conventions vs `predictBinary / probaBinary`; LinearSVC primal image vs `svcPrimal`"""
    shim()
    from skglm import _verif
    from .. import lean
    from ..proto import decode, close, fb, mat, vec
    rng = ctx.rng
    lines, expect, meta = [], [], []
    for _ in range(ctx.n(60, 600)):
        name = rng.choice(["Lasso", "WeightedLasso", "ElasticNet", "MCPRegression", "SparseLogisticRegression", "LinearSVC"])
        case = gen_est(rng, name)
        case.kwargs["max_iter"] = 3          # the plumbing does not depend on convergence
        _verif.start()
        est, err = fit_case(case)
        tr = _verif.stop() or []
        ev = [e for k, e in tr if k == "solve"]
        rep.count(f"plumb:{name}", err is not None, ("pl", name, len(rep.nontrivial)))
        if err or not ev:
            continue
        e = ev[-1]
        pen, df, sol = e["penalty"], e["datafit"], e["solver"]
        second = pen.get("l1_ratio", pen.get("gamma", float("nan")))
        got = [df["class"], pen["class"], float(pen.get("alpha", float("nan"))), float(second),
               "T" if pen.get("positive", False) else "F", "T" if sol.get("fit_intercept", False) else "F",
               "T" if "weights" in pen else "F"]
        lines.append("plumb " + est_tokens(case))
        expect.append(got)
        meta.append(case)
        if "weights" in pen and case.kwargs.get("weights") is not None and \
                not np.array_equal(np.asarray(pen["weights"], float), np.asarray(case.kwargs["weights"], float)):
            rep.violate(f"{name}: the penalty handed to the solver does not carry the user's weights",
                        dict(case.signature(site=f"{name}.fit"), kind="weights-plumbing"), case=case.describe(),
                        impl_output=np.asarray(pen["weights"]).tolist())
        if name == "SparseLogisticRegression" and len(est.classes_) == 2:
            d = est.decision_function(case.X)
            pr = est.predict_proba(case.X)
            pd = est.predict(case.X)
            for i in range(min(4, len(d))):
                lines.append(f"clf {fb(d[i])}")
                expect.append(["T" if pd[i] == est.classes_[1] else "F", float(pr[i, 0]), float(pr[i, 1])])
                meta.append(case)
        if name == "LinearSVC" and len(est.classes_) == 2:
            ypm = np.where(np.asarray(case.y) == est.classes_[1], 1.0, -1.0)
            n, p = case.X.shape
            lines.append(f"svc_primal {n} {p} {mat(case.X)} {vec(ypm)[len(str(n))+1:]} {vec(est.dual_coef_[0])[len(str(n))+1:]}")
            expect.append([float(t) for t in np.asarray(est.coef_)[0]])
            meta.append(case)
    outs = lean.drive(lines)
    for line, out, got, case in zip(lines, outs, expect, meta):
        m = decode(out)
        m = m[:len(got)]
        ok = len(m) == len(got) and all((a == b_) if isinstance(a, str) or isinstance(b_, str) else
                                        ((a != a and b_ != b_) or close(a, b_, 1e-9, 1e-12)) for a, b_ in zip(got, m))
        if not ok:
            rep.disagree("E:" + line.split()[0], line[:200], got[:10], m[:10],
                         dict(case.signature(site=f"{case.name}.fit")), case=case.describe())
    if lines:
        rep.sample(dict(line=lines[0], impl=expect[0], model=decode(outs[0])))


# ------------------------------------------------------------------ C18: solver objects are not a channel between solves
def run_solver_state(ctx, rep):
    """a solver object reused for several solves (what GeneralizedLinearEstimator and IterativeReweightedL1 do): its
    hyper-parameters are the same before and after each solve, and the second solve returns what a fresh solver returns"""
    import copy as _copy
    from .. import bbox
    from ..impl import seed_numba
    rng = ctx.rng

    def snap(obj):
        return {k: (v.copy() if isinstance(v, np.ndarray) else _copy.deepcopy(v)) for k, v in vars(obj).items()}

    def same_state(a, b_):
        return a.keys() == b_.keys() and all(
            (np.array_equal(a[k], b_[k]) if isinstance(a[k], np.ndarray) else a[k] == b_[k]) for k in a)
    for _ in range(ctx.n(24, 240)):
        solver_name = rng.choice(["AndersonCD", "AndersonCD", "ProxNewton", "GroupBCD", "MultiTaskBCD", "GramCD", "FISTA"])
        c1 = bbox.gen_bb(rng, solver_name) if solver_name != "AndersonCD" else None
        if c1 is None:
            from .. import solvers as S_
            a1, a2 = S_.gen_case(rng), S_.gen_case(rng)
            from skglm.solvers import AndersonCD
            from ..impl import compiled_df, compiled_pen, Pen as _Pen

            def objs(cs):
                return (compiled_df(cs.df, cs.sw), compiled_pen(cs.pen, cs.wts if cs.pen.kind in _Pen.WEIGHTED else None),
                        np.asfortranarray(cs.X), cs.y.copy())
            knobs = dict(a2.knobs)
            shared = AndersonCD(**knobs)
            fresh = AndersonCD(**knobs)
            cases = [objs(a1), objs(a2)]
            desc = dict(solver="AndersonCD", knobs=knobs, first=a1.describe(), second=a2.describe())
        else:
            c2 = bbox.gen_bb(rng, solver_name)
            if c2.family != c1.family:
                continue
            shared, d1, p1 = c1.build()
            _, d2, p2 = c2.build()
            shared = type(shared)(**c2.knobs)
            fresh = type(shared)(**c2.knobs)
            cases = [(d1, p1, np.asfortranarray(c1.X), np.asfortranarray(c1.y.copy()) if c1.family == "mtl" else c1.y.copy()),
                     (d2, p2, np.asfortranarray(c2.X), np.asfortranarray(c2.y.copy()) if c2.family == "mtl" else c2.y.copy())]
            desc = dict(solver=solver_name, knobs=c2.knobs, first=c1.describe(), second=c2.describe())
        sig = dict(site=f"{solver_name}.solve", solver=solver_name)
        rep.count(f"solver-state:{solver_name}", False, ("sstate", len(rep.nontrivial)))
        before = snap(shared)
        outs = []
        try:
            for d_, p_, X_, y_ in cases:
                if hasattr(d_, "initialize") and d_ is not None:
                    d_.initialize(X_, y_)
                seed_numba()
                outs.append(shared.solve(X_, y_, d_, p_))
                after = snap(shared)
                if not same_state(before, after):
                    rep.violate(f"{solver_name}.solve changes the solver's own hyper-parameters",
                                dict(sig, kind="solver-state-modified"), case=desc,
                                impl_output=dict(before={k: str(v) for k, v in before.items()},
                                                 after={k: str(v) for k, v in after.items()}))
                    break
            d_, p_, X_, y_ = cases[1]
            if hasattr(d_, "initialize") and d_ is not None:
                d_.initialize(X_, y_)
            seed_numba()
            ref_out = fresh.solve(X_, y_, d_, p_)
        except Exception:    # noqa: BLE001  (invalid compositions are C13's business)
            continue
        if len(outs) == 2:
            w2, wf = np.asarray(outs[1][0], float), np.asarray(ref_out[0], float)
            if w2.shape != wf.shape or not np.allclose(w2, wf, rtol=1e-9, atol=1e-11, equal_nan=True):
                rep.violate(f"{solver_name}: the result of a solve depends on the solves performed before with the same solver "
                            "object", dict(sig, kind="solver-history-dependence"), case=desc,
                            impl_output=dict(after_history=w2.tolist(), fresh=wf.tolist()))


# ------------------------------------------------------------------ C11: grp_converter vs the Lean model
def run_grp_converter(ctx, rep):
    """`skglm.utils.data.grp_converter(groups, n_features)` in its three accepted forms (int, list of sizes, list of
    index lists — in any order) vs `grpConverter` (Model/Estimators2.lean); and the contract GroupLasso relies on: the
    g-th slice of grp_indices is the g-th group as the user gave it"""
    from skglm.utils.data import grp_converter
    from .. import lean
    rng = ctx.rng
    lines, metas = [], []
    for _ in range(ctx.n(60, 600)):
        p = rng.randrange(1, 10)
        form = rng.choice(["size", "sizes", "lists", "lists"])
        if form == "size":
            k = rng.choice([d for d in range(1, p + 1)] + [p + 1])
            groups, toks = k, f"size {k}"
            want = [list(range(i, i + k)) for i in range(0, p, k)] if p % k == 0 else None
        elif form == "sizes":
            sizes, left = [], p
            while left:
                t = min(left, rng.choice([1, 2, 3]))
                sizes.append(t)
                left -= t
            groups, toks = sizes, "sizes " + " ".join([str(len(sizes))] + [str(t) for t in sizes])
            want, i = [], 0
            for t in sizes:
                want.append(list(range(i, i + t)))
                i += t
        else:
            idx = list(range(p))
            rng.shuffle(idx)
            want, i = [], 0
            while i < p:
                t = min(p - i, rng.choice([1, 2, 3]))
                want.append(idx[i:i + t])
                i += t
            rng.shuffle(want)
            groups = [list(g) for g in want]
            toks = "lists " + " ".join([str(len(want))] + [" ".join([str(len(g))] + [str(j) for j in g]) for g in want])
        try:
            gi, gp = grp_converter(groups, p)
            impl = ["ok", str(len(gi))] + [str(int(j)) for j in gi] + [str(len(gp))] + [str(int(j)) for j in gp]
            got = [[int(j) for j in gi[gp[g]:gp[g + 1]]] for g in range(len(gp) - 1)]
        except Exception as e:   # noqa: BLE001
            impl, got = ["err:" + type(e).__name__], None
        lines.append(f"grp_converter {p} {toks}")
        metas.append((impl, got, want, dict(groups=groups, n_features=p)))
    outs = lean.drive(lines)
    for line, out, (impl, got, want, inp) in zip(lines, outs, metas):
        rep.count("grp_converter:" + line.split()[2], False, ("grpconv", line))
        if out.split() != impl:
            rep.disagree("K:grp_converter", line, impl, out.split(), dict(site="grp_converter"), input=inp)
        if want is not None and got != want:
            rep.violate("grp_converter does not return the groups as given (g-th slice of grp_indices = g-th group)",
                        dict(site="grp_converter", kind="layout"), input=inp, impl_output=got, oracle=dict(groups=want))
        if want is None and got is not None:
            rep.violate("grp_converter accepts a group size that does not divide the number of features",
                        dict(site="grp_converter", kind="accepts-invalid"), input=inp, impl_output=got)
