"""C16 - critical regularisation strength: null solution exactly from alpha_max.

Correspondence (K): alpha_max of the compiled penalties vs the Lean model (`alphaMax1`).
Oracle (S): at alpha = alpha_max (1 + eps) every solver returns exactly zero penalised coefficients together
with the optimal unpenalised part (intercept, zero-weight features); at alpha_max (1 - eps) some penalised
coefficient is non-zero."""
import copy
import math

import numpy as np

from .. import lean, ref, bbox, solvers
from ..impl import Pen, Dfit, compiled_pen, compiled, call, gen_matrix
from ..proto import fb, vec, decode, same, canon
from ..blocks import Blk, group_layout

LEAN_MODULES = ["Skglm.Properties.C16", "Skglm.Properties.C16Run", "Skglm.Properties.C11b"]


def null_model(df, X, sw, y, fit_intercept, free=None):
    """loss-minimising intercept (and unpenalised coefficients `free`) with all penalised coefficients at 0,
    by Newton / closed form on the documented loss"""
    n, p = X.shape
    cols = [] if free is None else list(free)
    Z = np.column_stack([X[:, cols]] + ([np.ones(n)] if fit_intercept else [])) if (cols or fit_intercept) else None
    theta = np.zeros(0 if Z is None else Z.shape[1])
    if Z is None:
        return np.zeros(p), 0.0
    for _ in range(200):
        u = Z @ theta
        g = Z.T @ ref.dloss(df, sw, y, u)
        if df.kind in ("quadratic", "wquadratic", "huber"):
            H = Z.T @ (Z * (sw / (np.sum(sw) if df.kind == "wquadratic" else n))[:, None])
        else:
            h = np.exp(-y * u) / (1 + np.exp(-y * u)) ** 2 / n
            H = Z.T @ (Z * h[:, None])
        step = np.linalg.lstsq(H + 1e-12 * np.eye(len(theta)), g, rcond=None)[0]
        theta = theta - step
        if np.max(np.abs(g)) < 1e-13:
            break
    w = np.zeros(p)
    w[cols] = theta[:len(cols)]
    b = float(theta[-1]) if fit_intercept else 0.0
    return w, b


def run(ctx, rep):
    run_sqrt_path(ctx, rep)
    rng = ctx.rng
    rep.rule = ("alpha_max kernels on random gradients and weights (zero weights included); AndersonCD / ProxNewton / "
                "GroupBCD / MultiTaskBCD fits at alpha_max (1 +- 5e-2) on centred and non-centred targets, with weights, "
                "groups, tasks, intercept on/off; non-trivial = a solve")
    # ---- K: alpha_max kernels vs model
    lines, impls, meta = [], [], []
    for _ in range(ctx.n(200, 3000)):
        kind = rng.choice(["l1", "l1l2", "wl1", "mcp", "wmcp"])
        p = rng.randrange(1, 7)
        a = rng.choice([0.1, 1.0])
        pen = Pen(kind, a, gamma=3.0 if "mcp" in kind else None, l1_ratio=rng.choice([0.1, 0.5, 1.0]) if kind == "l1l2" else None)
        wts = [rng.choice([0.0, 0.5, 1.0, 2.0]) if kind in Pen.WEIGHTED else 1.0 for _ in range(p)]
        if kind in Pen.WEIGHTED and not any(wts):
            wts[0] = 1.0
        g = np.array([rng.choice([-2.0, -0.5, 0.0, 0.25, 1.0, 3.0]) if rng.random() < 0.6 else rng.gauss(0, 1) for _ in range(p)])
        obj = compiled_pen(pen, wts if kind in Pen.WEIGHTED else None)
        r = call(obj.alpha_max, g)
        lines.append(f"alphamax {pen.tokens()} {vec(wts)} {vec(g)[len(str(p))+1:]}")
        impls.append(r)
        meta.append((pen, wts, g))
    outs = lean.drive(lines)
    for line, out, r, (pen, wts, g) in zip(lines, outs, impls, meta):
        m, i = decode(out), canon(r)
        rep.count(f"alpha_max:{pen.kind}", False, hash(line))
        inp = dict(penalty=pen.describe(), weights=wts, gradient0=g.tolist())
        if not same(i, m, 1e-9, 1e-12):
            rep.disagree("K:alpha_max", line, i, m, dict(site=f"{pen.cls_name()}.alpha_max"), input=inp)
        # oracle: alpha_max is the smallest alpha making the null point stationary (documented penalty)
        if isinstance(r, str) or not math.isfinite(r):
            rep.violate(f"{pen.cls_name()}.alpha_max is not finite / raises", dict(site=f"{pen.cls_name()}.alpha_max", kind="raises"),
                        input=inp, impl_output=str(r))
            continue
        for fac, want_zero in ((1.0 + 1e-9, True), (1.0 - 1e-3, False)):
            p2 = copy.copy(pen)
            p2.alpha = r * fac
            d = [ref.dist_subdiff(p2, wt, 0.0, -gj) for wt, gj in zip(wts, g) if not (pen.kind in Pen.WEIGHTED and wt == 0)]
            v = max(d) if d else 0.0
            if r > 0 and ((v <= 1e-9 * (1 + r)) != want_zero):
                rep.violate(f"{pen.cls_name()}.alpha_max is not the critical strength of the documented penalty "
                            f"(at {fac} x alpha_max the null point is {'not ' if want_zero else ''}stationary)",
                            dict(site=f"{pen.cls_name()}.alpha_max", kind="not-critical"), input=inp, impl_output=float(r),
                            oracle=dict(violation_at_zero=v, factor=fac))
                break
    # ---- K: the group-lasso helper, on arbitrary (non-contiguous, permuted) group layouts
    from skglm.utils.data import _alpha_max_group_lasso, grp_converter
    for _ in range(ctx.n(60, 600)):
        n, p = rng.randrange(4, 12), rng.randrange(2, 9)
        X = gen_matrix(rng, n, p, "gauss")
        y = np.array([rng.gauss(0, 1) for _ in range(n)])
        groups, gp, gi = group_layout(rng, p)
        wg = np.array([rng.choice([0.5, 1.0, 2.0]) for _ in groups])
        r = call(_alpha_max_group_lasso, X, y, gi, gp, wg)
        want = max(np.linalg.norm(X[:, g].T @ y) / (n * wg[k]) for k, g in enumerate(groups))
        rep.count("alpha_max:group-helper", False, ("gh", hash(X.tobytes()), str(groups)))
        if isinstance(r, str) or abs(r - want) > 1e-9 * (1 + want):
            rep.violate("_alpha_max_group_lasso is not max_g ||X_g^T y|| / (n weights_g) for the groups as given",
                        dict(site="_alpha_max_group_lasso", kind="not-critical"),
                        input=dict(X=X.tolist(), y=y.tolist(), groups=groups, weights=wg.tolist()), impl_output=str(r),
                        oracle=dict(value=float(want)))
        gi2, gp2 = call(grp_converter, [list(map(int, g)) for g in groups], p)
        if not (np.array_equal(gi2, gi) and np.array_equal(gp2, gp)):
            rep.violate("grp_converter does not stack the given index lists", dict(site="grp_converter", kind="layout"),
                        input=dict(groups=groups), impl_output=[np.asarray(gi2).tolist(), np.asarray(gp2).tolist()])
    # ---- S: fits around alpha_max
    for _ in range(ctx.n(60, 600)):
        solver = rng.choice(["AndersonCD", "AndersonCD", "ProxNewton", "GroupBCD", "MultiTaskBCD"])
        n, p = rng.randrange(6, 14), rng.randrange(2, 8)
        X = gen_matrix(rng, n, p, "gauss")
        fi = rng.random() < 0.6
        shift = rng.choice([0.0, 3.0, -5.0])
        if solver in ("AndersonCD", "ProxNewton"):
            dk = rng.choice(["quadratic", "logistic"]) if solver == "ProxNewton" else rng.choice(["quadratic", "huber", "logistic"])
            df = Dfit("huber", 1.35) if dk == "huber" else Dfit(dk)
            y = df.gen_y(rng, n, structured=False)
            if dk != "logistic":
                y = y + shift
            kind = rng.choice(["l1", "wl1", "wl1", "wl1", "l1l2", "mcp", "wmcp"])
            pen = Pen(kind, 1.0, gamma=3.0 if "mcp" in kind else None, l1_ratio=rng.choice([0.3, 0.7, 1.0]) if kind == "l1l2" else None)
            wts = np.ones(p)
            free = []
            if kind in Pen.WEIGHTED:
                wts = np.array([rng.choice([0.5, 1.0, 2.0]) for _ in range(p)])
                if kind == "wl1" and p >= 3 and rng.random() < 0.6:
                    # unpenalised (zero-weight) features: excluded from the maximum, fitted at and above alpha_max
                    free = sorted(rng.sample(range(p), rng.randrange(1, min(3, p - 1) + 1)))
                    wts[free] = 0.0
            if "mcp" in kind:
                X = solvers.normalise_cols(X, df, np.ones(n))
            w0, b0 = null_model(df, X, np.ones(n), y, fi, free=free)
            g0 = ref.grad_w(df, X, np.ones(n), y, w0, b0)
            obj = compiled_pen(pen, wts if kind in Pen.WEIGHTED else None)
            amax = call(obj.alpha_max, g0)
            if isinstance(amax, str) or not amax > 1e-8:
                continue
            for fac in (1.05, 0.9):
                pen2 = copy.copy(pen)
                pen2.alpha = amax * fac
                knobs = dict(tol=1e-9, fit_intercept=fi, max_iter=100)
                p0 = rng.choice([1, 2, 10]) if not free else rng.choice([1, len(free), len(free), 10])
                if solver == "AndersonCD":
                    knobs.update(max_epochs=5000, p0=p0, ws_strategy="subdiff")
                else:
                    knobs.update(max_pn_iter=200, p0=p0)
                case = bbox.BBCase(solver, "sep", df, pen2, X, y, knobs, wts=wts)
                if "mcp" in kind and fac > 1:
                    # non-convex penalty: the null model is a *local* solution from alpha_max on; a cold start whose first
                    # epoch runs before the intercept is optimal may legitimately settle in another stationary point,
                    # so the run starts at the null model and has to stay there
                    case.w_init = np.append(w0, b0) if fi else w0.copy()
                res = bbox.run_case(case)
                check_null(rep, case, res, fac, b0, fi, free=free, w_null=w0)
        elif solver == "GroupBCD":
            groups, gp, gi = group_layout(rng, p)
            y = np.array([rng.gauss(0, 1) for _ in range(n)]) + shift
            wgs = np.array([rng.choice([0.5, 1.0, 2.0]) for _ in groups])
            df = Dfit("quadratic")
            w0, b0 = null_model(df, X, np.ones(n), y, fi)
            g0 = X.T @ (b0 - y) / n
            amax = max(np.linalg.norm(g0[g]) / wgs[k] for k, g in enumerate(groups))
            if not fi:      # the library's helper (no intercept) must give the same critical value
                a_lib = call(_alpha_max_group_lasso, X, y, gi, gp, wgs)
                if isinstance(a_lib, str) or abs(a_lib - amax) > 1e-9 * (1 + amax):
                    rep.violate("_alpha_max_group_lasso differs from the critical strength of the group problem",
                                dict(site="_alpha_max_group_lasso", kind="not-critical"),
                                input=dict(X=X.tolist(), y=y.tolist(), groups=groups, weights=wgs.tolist()),
                                impl_output=str(a_lib), oracle=dict(value=float(amax)))
            for fac in (1.05, 0.9):
                case = bbox.BBCase(solver, "group", df, Blk("wgl2", amax * fac), X, y,
                                   dict(tol=1e-9, fit_intercept=fi, max_iter=200, max_epochs=2000), groups=groups, wgs=wgs)
                res = bbox.run_case(case)
                check_null(rep, case, res, fac, b0, fi)
        else:
            T = rng.randrange(1, 4)
            Y = np.array([[rng.gauss(0, 1) for _ in range(T)] for _ in range(n)]) + shift
            b0 = Y.mean(axis=0) if fi else np.zeros(T)
            G0 = X.T @ (b0 - Y) / n
            amax = float(np.max(np.linalg.norm(G0, axis=1)))
            for fac in (1.05, 0.9):
                case = bbox.BBCase(solver, "mtl", Dfit("quadratic"), Blk("l21", amax * fac), X, Y,
                                   dict(tol=1e-9, fit_intercept=fi, max_iter=200, max_epochs=5000))
                res = bbox.run_case(case)
                check_null(rep, case, res, fac, b0, fi)


def run_sqrt_path(ctx, rep):
    """SqrtLasso.path(alphas=None) builds its own grid from a critical value: the first point of the grid must be the
    critical strength of the estimator's documented objective ||y - Xw||_2 + alpha ||w||_1, i.e. ||X^T y||_inf / ||y||
    (null solution there, non-null just below)"""
    from skglm.experimental.sqrt_lasso import SqrtLasso
    rng = ctx.rng
    for _ in range(ctx.n(8, 60)):
        n, p = rng.randrange(8, 30), rng.randrange(2, 8)
        X = np.asfortranarray(gen_matrix(rng, n, p, "gauss"))
        y = X @ np.array([rng.choice([0.0, 1.0, -2.0]) for _ in range(p)]) + np.array([rng.gauss(0, 1) for _ in range(n)])
        crit = float(np.max(np.abs(X.T @ y)) / np.linalg.norm(y))
        rep.count("sqrt-lasso:path-grid", False, ("sqrtpath", hash(X.tobytes())))
        try:
            out = SqrtLasso(tol=1e-9).path(X, y, alphas=None, eps=0.5, n_alphas=3)
        except Exception as e:    # noqa: BLE001
            rep.violate(f"SqrtLasso.path(alphas=None) raises {type(e).__name__}: {str(e)[:100]}",
                        dict(site="SqrtLasso.path", kind="raises"), input=dict(X=X.tolist(), y=y.tolist()))
            continue
        alphas, coefs = np.asarray(out[0], float), np.asarray(out[1], float)
        first = coefs[0] if coefs.shape[0] == len(alphas) else coefs[:, 0]
        if abs(alphas[0] - crit) > 1e-9 * (1 + crit) or np.any(first != 0):
            rep.violate("SqrtLasso.path(alphas=None) does not start its grid at the critical strength of the documented "
                        "objective (the first point of the path is not the null model)",
                        dict(site="SqrtLasso.path", kind="not-critical"), input=dict(X=X.tolist(), y=y.tolist()),
                        impl_output=dict(first_alpha=float(alphas[0]), first_coef=first.tolist()),
                        oracle=dict(critical=crit))


def check_null(rep, case, res, fac, b0, fi, free=(), w_null=None):
    rep.count(f"fit:{case.solver}:{'above' if fac > 1 else 'below'}", False, ("null", id(case)))
    sig = dict(case.signature(site=f"{case.solver}.solve"), kind="above-alpha-max" if fac > 1 else "below-alpha-max")
    if res["err"] is not None:
        rep.violate(f"{case.solver} fails at alpha = {fac} x alpha_max: {res['err'][:100]}", dict(sig, kind="raises"),
                    case=case.describe(), impl_output=res["err"])
        return
    w, obj, stop = res["out"]
    ww, bb = case.split(w)
    pen_idx = [j for j in range(len(ww))] if ww.ndim > 1 else [j for j in range(len(ww)) if j not in set(free)]
    if not stop <= case.knobs["tol"]:
        # a convex problem with a generous budget that stays unsolved *and* keeps every penalised coefficient at
        # zero below the critical strength never leaves the null model
        generous = case.knobs.get("max_iter", 0) >= 100 and case.pen.kind in ("l1", "wl1", "l1l2")
        if fac < 1 and generous and free and not np.any(ww[pen_idx] != 0):
            rep.violate(f"{case.solver}: all penalised coefficients are still zero at alpha = {fac} x alpha_max after a generous "
                        f"budget (stopping value {float(np.max(stop)):.2e})", dict(sig, kind="below-alpha-max-stuck"),
                        case=case.describe(), impl_output=np.asarray(w).tolist())
        return
    if free:
        if fac > 1:
            if np.any(ww[pen_idx] != 0):
                rep.violate(f"{case.solver}: non-zero penalised coefficients at alpha = {fac} x alpha_max", sig,
                            case=case.describe(), impl_output=np.asarray(w).tolist())
            elif not np.allclose(ww[list(free)], w_null[list(free)], atol=1e-5 * (1 + float(np.max(np.abs(w_null))))) or (
                    fi and not np.allclose(bb, b0, atol=1e-5 * (1 + abs(float(b0))))):
                rep.violate(f"{case.solver}: at alpha >= alpha_max the unpenalised part is not the loss-minimising one",
                            dict(sig, kind="null-unpenalised"), case=case.describe(),
                            impl_output=dict(w=np.asarray(w).tolist()), oracle=dict(w=w_null.tolist(), intercept=float(b0)))
        elif not np.any(ww[pen_idx] != 0):
            rep.violate(f"{case.solver}: all penalised coefficients are zero at alpha = {fac} x alpha_max (below the critical "
                        "value)", sig, case=case.describe(), impl_output=np.asarray(w).tolist())
        return
    if fac > 1:
        if np.any(ww != 0):
            rep.violate(f"{case.solver}: non-zero coefficients at alpha = {fac} x alpha_max", sig, case=case.describe(),
                        impl_output=np.asarray(w).tolist())
        elif fi and not np.allclose(bb, b0, atol=1e-5 * (1 + float(np.max(np.abs(b0))))):
            rep.violate(f"{case.solver}: at alpha >= alpha_max the returned intercept is not the loss-minimising constant",
                        dict(sig, kind="null-intercept"), case=case.describe(),
                        impl_output=dict(intercept=np.asarray(bb).tolist(), optimal=np.asarray(b0).tolist()))
    else:
        if not np.any(ww != 0):
            rep.violate(f"{case.solver}: all coefficients are zero at alpha = {fac} x alpha_max (below the critical value)",
                        sig, case=case.describe(), impl_output=np.asarray(w).tolist())


def replay(ctx, payload):
    print(payload)
    return 0
