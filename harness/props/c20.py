"""C20 - compiled kernels stay inside their arrays.

Lean: call-site table regenerated from the source (no `penalty.value` on a vector that still contains the
intercept, no `w[:-1]`), index lemmas for group and CSC indirection.  Harness: accepted compositions are run
twice in fresh subprocesses, NUMBA_BOUNDSCHECK=1 vs unset, on data whose last feature / group / sample carry
signal; the checked run must complete and return the same numbers."""
import random

import numpy as np

from .. import gen_tables, matrix

LEAN_MODULES = ["Skglm.Properties.C20"]


def prepare(ctx, rep):
    info = gen_tables.main()
    rep.extra["tables"] = {k: v for k, v in info.items() if k != "slices"}
    rep.extra["penalty_call_sites"] = info["slices"]


def run(ctx, rep):
    rep.rule = ("accepted cells of the composition matrix (seeded sample in quick, all in thorough), group layouts "
                "non-contiguous and permuted, last feature / sample carrying signal; each cell run under "
                "NUMBA_BOUNDSCHECK=1 and unchecked; non-trivial = solved in both runs")
    cells = matrix.all_cells()
    val = matrix.model_validate(cells)
    acc = [dict(c, tail=True) for c, v in zip(cells, val) if v]
    rng = random.Random(f"C20-{ctx.seed}")
    sample = acc if ctx.thorough else rng.sample(acc, min(len(acc), 60))
    plain = matrix.run_parallel(sample, {}, chunk=4, workers=8)
    checked = matrix.run_parallel(sample, {"NUMBA_BOUNDSCHECK": "1"}, chunk=4, workers=8)
    byk = {matrix.key(r["cell"]): r for r in plain}
    for r in checked:
        cell = r["cell"]
        q = byk.get(matrix.key(cell))
        sig = dict(site=f"{cell['solver']}.solve", solver=cell["solver"], datafit=cell["datafit"], penalty=cell["penalty"],
                   sparse=cell["sparse"], fit_intercept=cell["intercept"], subdiff=cell["subdiff"])
        rep.count(f"{cell['solver']}:{r['outcome']}", r["outcome"] != "solved", matrix.key(cell))
        if r["outcome"] in ("error", "crash") and (r.get("cls") == "IndexError" or "bounds" in (r.get("msg") or "")
                                                  or r["outcome"] == "crash"):
            rep.violate(f"{cell['solver']} x {cell['datafit']} x {cell['penalty']}: index error under NUMBA_BOUNDSCHECK=1 "
                        f"({(r.get('msg') or '')[:100]})", dict(sig, kind="boundscheck-error"), cell=cell, impl_output=r)
            continue
        if q is None or q["outcome"] != r["outcome"]:
            rep.violate(f"{cell['solver']} x {cell['datafit']} x {cell['penalty']}: the bounds-checked run ends differently "
                        f"({r['outcome']}) from the unchecked run ({q['outcome'] if q else None})",
                        dict(sig, kind="outcome-differs"), cell=cell, impl_output=dict(checked=r, unchecked=q))
            continue
        if r["outcome"] == "solved":
            a, b = np.array(r["w"]), np.array(q["w"])
            if a.shape != b.shape or not np.allclose(a, b, atol=1e-8, rtol=1e-8):
                rep.violate(f"{cell['solver']} x {cell['datafit']} x {cell['penalty']}: the result depends on memory outside "
                            "the arrays (bounds-checked and unchecked runs differ)", dict(sig, kind="result-differs"),
                            cell=cell, impl_output=dict(checked=r["w"], unchecked=q["w"]))
    run_kernels(ctx, rep)
    rep.extra["matrix"] = dict(model_accepted=len(acc), pairs_run=len(sample), exhaustive=bool(ctx.thorough))
    for r in checked[:2]:
        rep.sample(dict(cell=r["cell"], outcome=r["outcome"]))


def run_kernels(ctx, rep):
    """every penalty / datafit / helper kernel on a working set at the end of the index range, bounds-checked vs not"""
    import json
    import os
    import subprocess
    import sys
    from concurrent.futures import ThreadPoolExecutor

    def go(env_extra):
        env = dict(os.environ)
        env.update(env_extra)
        env["PYTHONPATH"] = os.environ.get("SKGLM_REPO", "/repo") + ":" + matrix.ROOT + ":" + env.get("PYTHONPATH", "")
        pr = subprocess.run([sys.executable, "-m", "harness.kernel_bounds_worker"], capture_output=True, text=True, env=env,
                            cwd=matrix.ROOT, timeout=1800)
        calls = [json.loads(l[5:]) for l in pr.stdout.splitlines() if l.startswith("CALL ")]
        return calls, pr.stdout.rstrip().endswith("END"), pr.returncode, pr.stderr[-300:]
    with ThreadPoolExecutor(max_workers=2) as ex:
        (chk, chk_end, chk_rc, chk_err), (pln, pln_end, pln_rc, pln_err) = ex.map(go, [{"NUMBA_BOUNDSCHECK": "1"}, {}])
    byname = {c["call"]: c for c in pln}
    if not chk_end or not pln_end:
        last = (chk if not chk_end else pln)[-1]["call"] if (chk if not chk_end else pln) else "start"
        rep.violate(f"the interpreter terminated while calling compiled kernels (after {last})",
                    dict(site="kernels", kind="crash"), impl_output=dict(rc_checked=chk_rc, rc_plain=pln_rc,
                                                                         err=(chk_err if not chk_end else pln_err)))
    for c in chk:
        q = byname.get(c["call"])
        rep.count("kernel:" + c["call"].split(".")[0], not c["ok"], ("kernel", c["call"]))
        sig = dict(site=c["call"].split("[")[0], kind="kernel-boundscheck")
        if not c["ok"] and (q is None or q["ok"] or c.get("cls") == "IndexError"):
            rep.violate(f"{c['call']}: fails under NUMBA_BOUNDSCHECK=1 ({c.get('cls')}: {c.get('msg', '')[:100]})", sig,
                        kernel=c["call"], impl_output=dict(checked=c, unchecked=q))
        elif c["ok"] and q is not None and q["ok"] and c["val"] != q["val"]:
            a, b = c["val"], q["val"]
            same = len(a) == len(b) and all((x is None and y is None) or (x is not None and y is not None and
                                                                       abs(x - y) <= 1e-8 * (1 + abs(x))) for x, y in zip(a, b))
            if not same:
                rep.violate(f"{c['call']}: the bounds-checked and the unchecked call return different values (the result "
                            "depends on memory outside the arrays)", dict(sig, kind="kernel-result-differs"),
                            kernel=c["call"], impl_output=dict(checked=a, unchecked=b))
    rep.extra["kernel_calls"] = len(chk)


def replay(ctx, payload):
    print(matrix.run_batch([payload["cell"]], {"NUMBA_BOUNDSCHECK": "1"}))
    return 0
