"""C10 - results do not depend on how X is stored.

Lean: the CSC kernels equal the dense kernels on the represented matrix (C06 accessors, CD epoch), hence
sparse and dense runs have identical trajectories in exact arithmetic.  Harness: the same problems as dense
and CSC through every solver that accepts both; estimators with CSR / list / float32 / C-ordered input."""
from .solver_common import run_formats

LEAN_MODULES = ["Skglm.Properties.C10", "Skglm.Properties.LBFGS"]


def run(ctx, rep):
    rep.rule = ("pairs (dense, CSC) of the same generated problem through AndersonCD, ProxNewton, GramCD, GroupBCD, "
                "MultiTaskBCD, FISTA with identical knobs; estimator inputs as ndarray C/F, CSR, CSC, list, float32; "
                "each pair is one evaluation; non-trivial = the solver ran")
    run_formats(ctx, rep)
    from . import est_common
    est_common.run_containers(ctx, rep)
    from . import moves_common
    moves_common.run_lbfgs(ctx, rep)
    moves_common.run_bcd_moves(ctx, rep, ctx.n(25, 300))      # CSC block epoch vs the dense model
    moves_common.run_mt_moves(ctx, rep, ctx.n(20, 300))
    moves_common.run_pn_direction(ctx, rep, ctx.n(20, 300))


def replay(ctx, payload):
    print(payload)
    return 0
