"""C13 - every composition is either refused with an explanation or solved.

Lean: the validation logic is modelled over tables regenerated from the source on every run; `decide`
proves that every accepted cell provides all methods its compiled kernels call.  Harness: every cell the
model refuses is run on the real code (must be refused with an explanatory AttributeError / ValueError);
accepted cells are run under JIT in worker subprocesses (sample in the quick tier, all in thorough)."""
import random

from .. import gen_tables, matrix

LEAN_MODULES = ["Skglm.Properties.C13"]
OK_ACCEPTED = ("solved", "refused", "out-of-scope")


def prepare(ctx, rep):
    info = gen_tables.main()
    rep.extra["tables"] = {k: v for k, v in info.items() if k != "slices"}


def classify(rep, cell, r, accepted_by_model, prop="C13"):
    sig = dict(site=f"{cell['solver']}.solve", solver=cell["solver"], datafit=cell["datafit"], penalty=cell["penalty"],
               sparse=cell["sparse"], fit_intercept=cell["intercept"], subdiff=cell["subdiff"],
               kind=f"{r['outcome']}:{r.get('cls')}")
    bad = r["outcome"] in ("error", "nonfinite", "crash", "timeout", "build-error")
    if bad:
        rep.violate(f"composition {cell['solver']} x {cell['datafit']} x {cell['penalty']} "
                    f"({'CSC' if cell['sparse'] else 'dense'}, intercept={cell['intercept']}, "
                    f"{'subdiff' if cell['subdiff'] else 'fixpoint'}) is neither refused with an explanation nor solved: "
                    f"{r['outcome']} {r.get('cls') or ''} {(r.get('msg') or '')[:100]}", sig, cell=cell, impl_output=r)
    elif not accepted_by_model and r["outcome"] not in ("refused", "out-of-scope"):
        rep.disagree("E:validate", f"validate {cell}", r["outcome"], "refused", sig, cell=cell)


def run(ctx, rep):
    rep.rule = ("the full matrix solver(9) x datafit(13 + None) x penalty(19) x {dense, CSC} x {intercept} x {strategy}: "
                "every cell refused by the modelled validation is run on the real code; accepted cells are run under JIT "
                "(seeded sample in quick, all in thorough) on a small well-posed problem of the right shape family; "
                "non-trivial = the cell was solved")
    cells = matrix.all_cells()
    val = matrix.model_validate(cells)
    ref = [c for c, v in zip(cells, val) if not v]
    acc = [c for c, v in zip(cells, val) if v]
    res = matrix.run_parallel(ref, {}, chunk=400)
    for r in res:
        rep.count(f"refused:{r['cell']['solver']}", True)
        classify(rep, r["cell"], r, False)
    rng = random.Random(f"C13-{ctx.seed}")
    sample = acc if ctx.thorough else rng.sample(acc, min(len(acc), 96))
    res2 = matrix.run_parallel(sample, {}, chunk=3 if not ctx.thorough else 8, workers=15)
    for r in res2:
        rep.count(f"accepted:{r['cell']['solver']}:{r['outcome']}", r["outcome"] != "solved", matrix.key(r["cell"]))
        classify(rep, r["cell"], r, True)
    rep.extra["matrix"] = dict(cells=len(cells), model_accepted=len(acc), refused_run=len(res), accepted_run=len(res2),
                               exhaustive_refused=True, exhaustive_accepted=bool(ctx.thorough))
    for r in res2[:2]:
        rep.sample(dict(cell=r["cell"], outcome=r["outcome"], n_iter=r.get("n_iter")))
    rep.sample(dict(cell=res[0]["cell"], outcome=res[0]["outcome"], msg=res[0].get("msg")))


def replay(ctx, payload):
    print(matrix.run_batch([payload["cell"]], {}))
    return 0
