"""Shared driver for the solver-level properties on AndersonCD (level S correspondence + oracles)."""
import os
import random
import time
from concurrent.futures import ProcessPoolExecutor

from .. import lean, solvers
from ..core import Report

ORACLES = dict(
    cert=solvers.oracle_cert,
    buffer=solvers.oracle_buffer,
    feasible=solvers.oracle_finite_feasible,
    history=solvers.oracle_history,
    descent=solvers.oracle_descent,
)


def _worker(args):
    """generate and run a batch of cases in one process (numba compilation is per process)"""
    prop, seed, idx, n_cases, gen_opts, oracles, trace = args
    rng = random.Random(f"{prop}-{seed}-{idx}")
    rep = Report(prop)
    t0 = time.time()
    kinds = gen_opts.pop("combo", None)
    for c in range(n_cases):
        opts = dict(gen_opts)
        if kinds:
            opts["df_kinds"], opts["pen_kinds"] = [kinds[0]], [kinds[1]]
        case = solvers.gen_case(rng, **opts)
        res = solvers.run_acd(case)
        key = (f"{case.df.kind}/{case.pen.kind}/{'sp' if case.sparse else 'de'}/"
               f"{'int' if case.fit_intercept else 'noint'}/{case.knobs['ws_strategy']}/"
               f"{'warm' if case.w_init is not None else 'cold'}")
        nontriv = res["out"] is not None and len(res["out"][1]) > 0
        rep.count(key, not nontriv, (idx, c))
        if res["err"] is not None:
            rep.violate(f"AndersonCD.solve failed on a legitimate input: {res['err']}",
                        dict(case.signature(site="AndersonCD.solve"), kind="raises:" + res["err"].split(":")[1]),
                        case=case.describe(), impl_output=res["err"])
            continue
        if trace:
            solvers.check_trace_acd(case, res, rep, lean.drive)
        for o in oracles:
            ORACLES[o](case, res, rep)
        if len(rep.samples) < 2 and nontriv:
            w, obj, stop = res["out"]
            rep.sample(dict(case=dict(datafit=case.df.describe(), penalty=case.pen.describe(), knobs=case.knobs,
                                      shape=list(case.X.shape), sparse=case.sparse,
                                      warm=case.w_init is not None),
                            events=len(res["trace"]), n_iter=len(obj), stop_crit=float(stop)))
        if time.time() - t0 > gen_opts.get("budget_s", 1e9):
            break
    return rep


COMBOS = [("quadratic", "l1"), ("quadratic", "l1l2"), ("quadratic", "wl1"), ("quadratic", "mcp"),
          ("logistic", "l1"), ("huber", "l1"), ("wquadratic", "l1"), ("svc", "box"),
          ("quadratic", "pos"), ("quadratic", "scad"), ("quadratic", "wmcp"), ("logistic", "l1l2"),
          ("quadratic", "box"), ("quadratic", "l05"), ("quadratic", "logsum"), ("huber", "mcp")]


def run_parallel(ctx, rep, oracles, gen_opts=None, trace=True, n_quick=18, n_thorough=250, combos=None):
    gen_opts = dict(gen_opts or {})
    combos = combos or COMBOS
    n_cases = ctx.n(n_quick, n_thorough)
    tasks = []
    for i, cb in enumerate(combos):
        tasks.append((ctx.prop, ctx.seed, i, n_cases, dict(gen_opts, combo=cb), list(oracles), trace))
    workers = min(len(tasks), max(1, (os.cpu_count() or 2) - 1))
    with ProcessPoolExecutor(max_workers=workers) as ex:
        for r in ex.map(_worker, tasks):
            merge(rep, r)


def merge(rep, r):
    rep.evaluations += r.evaluations
    rep.nontrivial |= r.nontrivial
    for k, v in r.hist.items():
        rep.hist[k] = rep.hist.get(k, 0) + v
    for s in r.samples:
        rep.sample(s)
    rep.disagreements += r.disagreements
    rep.violations += r.violations
    rep.traces += r.traces
    rep.notes += r.notes
