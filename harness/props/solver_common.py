"""Shared driver for the solver-level properties on AndersonCD (level S correspondence + oracles)."""
import os
import random
import time
from concurrent.futures import ProcessPoolExecutor

from .. import lean, solvers
from ..core import Report

ORACLES = dict(
    cert=solvers.oracle_cert,
    buffer=solvers.oracle_buffer,
    feasible=solvers.oracle_finite_feasible,
    history=solvers.oracle_history,
    descent=solvers.oracle_descent,
)


def budget_monotone(case, res, rep, rng):
    """C03: deterministic prefixes of one trajectory: the true objective is non-increasing in max_iter
    and in max_epochs (budgets aligned with the 6-call extrapolation period included)"""
    import copy
    import numpy as np
    if res["out"] is None:
        return
    base = dict(case.knobs)

    def run(**kw):
        c2 = copy.copy(case)
        c2.knobs = dict(base, **kw)
        r = solvers.run_acd(c2)
        if r["out"] is None:
            return None, c2
        return solvers.true_obj(c2, r["out"][0]), c2
    p = case.X.shape[1]
    w0 = np.zeros(p + case.fit_intercept) if case.w_init is None else np.asarray(case.w_init, float)
    prev = solvers.true_obj(case, w0)
    seqs = [[("max_iter", k) for k in (0, 1, 2, 3, 4, 6)],
            [("max_epochs", e) for e in (1, 2, 5, 6, 7, 8, 12, 13, 14, 20)]]
    for seq in seqs:
        last, lastk = prev, "start"
        for name, k in seq:
            kw = {name: k}
            if name == "max_epochs":
                kw["max_iter"] = 1
            f, c2 = run(**kw)
            rep.count("budget:" + name, False, ("bm", id(case), name, k))
            if f is None:
                break
            if not f <= last + 1e-9 * (1 + abs(last)):
                rep.violate(f"the true objective increases when the budget {name} grows from {lastk} to {k}",
                            dict(case.signature(site="AndersonCD.solve"), kind="budget-ascent"),
                            case=c2.describe(), oracle=dict(previous=last, now=f, budget=[name, lastk, k]))
                break
            last, lastk = f, k


def path_points(case, res, rep, rng):
    """C05: AndersonCD.path over an alpha grid in arbitrary order, optionally from a user w_init: every
    point whose stop_crit <= tol meets the certificate of *its own* problem"""
    import copy
    import numpy as np
    from skglm.solvers import AndersonCD
    from .. import ref
    from ..impl import compiled_df, compiled_pen, Pen, classify_exc, to_csc
    if case.pen.kind in ("box", "pos") or case.df.kind == "svc":
        return
    n, p = case.X.shape
    fi = case.fit_intercept
    alphas = [rng.choice([0.001, 0.01, 0.05, 0.1, 0.3, 1.0, 3.0]) for _ in range(rng.randrange(2, 6))]
    knobs = dict(case.knobs, max_iter=rng.choice([5, 20, 50]), max_epochs=rng.choice([7, 50, 1000]),
                 tol=rng.choice([1e-3, 1e-6, 1e-9]))
    solver = AndersonCD(**knobs)
    datafit = compiled_df(case.df, case.sw)
    from ..impl import compiled
    # path() mutates penalty.alpha: never hand it an object from the harness cache
    penalty = compiled(case.pen.build(case.wts if case.pen.kind in Pen.WEIGHTED else None))
    w_init = None
    mode = rng.choice(["none", "none", "support", "intercept-only"])
    if mode == "support":
        w_init = np.array([rng.choice([0.0, 0.5, -1.0, 2.0]) for _ in range(p + fi)])
        if case.pen.kind in Pen.HAS_POS and case.pen.positive:
            w_init[:p] = np.abs(w_init[:p])
    elif mode == "intercept-only" and fi:
        w_init = np.zeros(p + 1)
        w_init[-1] = rng.choice([1.0, -2.0, 5.0])
    Xin = to_csc(case.X) if case.sparse else np.asfortranarray(case.X)
    try:
        out = solver.path(Xin, case.y.copy(), datafit, penalty, alphas=np.array(alphas), w_init=w_init)
    except Exception as e:  # noqa: BLE001
        rep.violate(f"AndersonCD.path failed on a legitimate grid: {classify_exc(e)}",
                    dict(case.signature(site="AndersonCD.path"), kind="raises"), case=case.describe(),
                    impl_output=str(e)[:200], path=dict(alphas=alphas, w_init=None if w_init is None else w_init.tolist()))
        return
    _, coefs, stops = out[:3]
    for t, a in enumerate(alphas):
        rep.count("path-point", False, ("pp", id(case), t))
        if not stops[t] <= knobs["tol"]:
            continue
        w = coefs[:, t]
        pen_t = copy.copy(case.pen)
        pen_t.alpha = a
        ww, bb = np.asarray(w[:p], float), (float(w[p]) if fi else 0.0)
        if knobs.get("ws_strategy", "subdiff") != "subdiff":
            continue
        v, d = ref.cert_subdiff(case.df, pen_t, case.wts, case.X, case.sw, case.y, ww, bb, fi)
        slack = 1e-7 * (1 + float(np.max(np.abs(case.X))) * (1 + float(np.max(np.abs(ww)))))
        if not v <= knobs["tol"] * (1 + 1e-6) + slack:
            rep.violate("a path point reports stop_crit <= tol but does not meet the certificate of its own problem",
                        dict(case.signature(site="AndersonCD.path"), kind="path-certificate", w_init=mode),
                        case=case.describe(), path=dict(alphas=alphas, t=t, knobs=knobs,
                                                        w_init=None if w_init is None else w_init.tolist()),
                        impl_output=dict(w=np.asarray(w).tolist(), stop_crit=float(stops[t])),
                        oracle=dict(violation=v, tol=knobs["tol"]))
            break


EXTRA = dict(budget=budget_monotone, path=path_points)


def _worker(args):
    """generate and run a batch of cases in one process (numba compilation is per process)"""
    prop, seed, idx, n_cases, gen_opts, oracles, trace = args
    rng = random.Random(f"{prop}-{seed}-{idx}")
    rep = Report(prop)
    t0 = time.time()
    kinds = gen_opts.pop("combo", None)
    for c in range(n_cases):
        opts = dict(gen_opts)
        if kinds:
            opts["df_kinds"], opts["pen_kinds"] = [kinds[0]], [kinds[1]]
        case = solvers.gen_case(rng, **opts)
        res = solvers.run_acd(case)
        key = (f"{case.df.kind}/{case.pen.kind}/{'sp' if case.sparse else 'de'}/"
               f"{'int' if case.fit_intercept else 'noint'}/{case.knobs['ws_strategy']}/"
               f"{'warm' if case.w_init is not None else 'cold'}")
        nontriv = res["out"] is not None and len(res["out"][1]) > 0
        rep.count(key, not nontriv, (idx, c))
        if res["err"] is not None:
            rep.violate(f"AndersonCD.solve failed on a legitimate input: {res['err']}",
                        dict(case.signature(site="AndersonCD.solve"), kind="raises:" + res["err"].split(":")[1]),
                        case=case.describe(), impl_output=res["err"])
            continue
        if trace:
            solvers.check_trace_acd(case, res, rep, lean.drive)
        for o in oracles:
            if o in ORACLES:
                ORACLES[o](case, res, rep)
            else:
                EXTRA[o](case, res, rep, rng)
        if len(rep.samples) < 2 and nontriv:
            w, obj, stop = res["out"]
            rep.sample(dict(case=dict(datafit=case.df.describe(), penalty=case.pen.describe(), knobs=case.knobs,
                                      shape=list(case.X.shape), sparse=case.sparse,
                                      warm=case.w_init is not None),
                            events=len(res["trace"]), n_iter=len(obj), stop_crit=float(stop)))
        if time.time() - t0 > gen_opts.get("budget_s", 1e9):
            break
    return rep


COMBOS = [("quadratic", "l1"), ("quadratic", "l1l2"), ("quadratic", "wl1"), ("quadratic", "mcp"),
          ("logistic", "l1"), ("huber", "l1"), ("wquadratic", "l1"), ("svc", "box"),
          ("quadratic", "pos"), ("quadratic", "scad"), ("quadratic", "wmcp"), ("logistic", "l1l2"),
          ("quadratic", "box"), ("quadratic", "l05"), ("quadratic", "logsum"), ("huber", "mcp")]


def run_parallel(ctx, rep, oracles, gen_opts=None, trace=True, n_quick=18, n_thorough=250, combos=None):
    gen_opts = dict(gen_opts or {})
    combos = combos or COMBOS
    n_cases = ctx.n(n_quick, n_thorough)
    tasks = []
    for i, cb in enumerate(combos):
        tasks.append((ctx.prop, ctx.seed, i, n_cases, dict(gen_opts, combo=cb), list(oracles), trace))
    workers = min(len(tasks), max(1, (os.cpu_count() or 2) - 1))
    with ProcessPoolExecutor(max_workers=workers) as ex:
        for r in ex.map(_worker, tasks):
            merge(rep, r)


def merge(rep, r):
    rep.evaluations += r.evaluations
    rep.nontrivial |= r.nontrivial
    for k, v in r.hist.items():
        rep.hist[k] = rep.hist.get(k, 0) + v
    for s in r.samples:
        rep.sample(s)
    rep.disagreements += r.disagreements
    rep.violations += r.violations
    rep.traces += r.traces
    rep.notes += r.notes
