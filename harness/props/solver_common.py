"""Shared driver for the solver-level properties on AndersonCD (level S correspondence + oracles)."""
import os
import random
import time
from concurrent.futures import ProcessPoolExecutor

from .. import lean, solvers
from ..core import Report

ORACLES = dict(
    cert=solvers.oracle_cert,
    buffer=solvers.oracle_buffer,
    feasible=solvers.oracle_finite_feasible,
    history=solvers.oracle_history,
    stop_value=solvers.oracle_stop_value,
    descent=solvers.oracle_descent,
)


def budget_monotone(case, res, rep, rng):
    """C03: deterministic prefixes of one trajectory: the true objective is non-increasing in max_iter
    and in max_epochs (budgets aligned with the 6-call extrapolation period included)"""
    import copy
    import numpy as np
    if res["out"] is None:
        return
    base = dict(case.knobs)

    def run(**kw):
        c2 = copy.copy(case)
        c2.knobs = dict(base, **kw)
        r = solvers.run_acd(c2)
        if r["out"] is None:
            return None, c2
        return solvers.true_obj(c2, r["out"][0]), c2
    p = case.X.shape[1]
    w0 = np.zeros(p + case.fit_intercept) if case.w_init is None else np.asarray(case.w_init, float)
    prev = solvers.true_obj(case, w0)
    seqs = [[("max_iter", k) for k in (0, 1, 2, 3, 4, 6)],
            [("max_epochs", e) for e in (1, 2, 5, 6, 7, 8, 12, 13, 14, 20)]]
    for seq in seqs:
        last, lastk = prev, "start"
        for name, k in seq:
            kw = {name: k}
            if name == "max_epochs":
                kw["max_iter"] = 1
            f, c2 = run(**kw)
            rep.count("budget:" + name, False, ("bm", id(case), name, k))
            if f is None:
                break
            if not f <= last + 1e-9 * (1 + abs(last)):
                rep.violate(f"the true objective increases when the budget {name} grows from {lastk} to {k}",
                            dict(case.signature(site="AndersonCD.solve"), kind="budget-ascent"),
                            case=c2.describe(), oracle=dict(previous=last, now=f, budget=[name, lastk, k]))
                break
            last, lastk = f, k


def path_points(case, res, rep, rng):
    """C05: AndersonCD.path over an alpha grid in arbitrary order, optionally from a user w_init: every
    point whose stop_crit <= tol meets the certificate of *its own* problem"""
    import copy
    import numpy as np
    from skglm.solvers import AndersonCD
    from .. import ref
    from ..impl import compiled_df, compiled_pen, Pen, classify_exc, to_csc, case_csc
    if case.pen.kind in ("box", "pos") or case.df.kind == "svc":
        return
    n, p = case.X.shape
    fi = case.fit_intercept
    alphas = [rng.choice([0.001, 0.01, 0.05, 0.1, 0.3, 1.0, 3.0]) for _ in range(rng.randrange(2, 6))]
    knobs = dict(case.knobs, max_iter=rng.choice([5, 20, 50]), max_epochs=rng.choice([7, 50, 1000]),
                 tol=rng.choice([1e-3, 1e-6, 1e-9]))
    solver = AndersonCD(**knobs)
    datafit = compiled_df(case.df, case.sw)
    from ..impl import compiled
    # path() mutates penalty.alpha: never hand it an object from the harness cache
    penalty = compiled(case.pen.build(case.wts if case.pen.kind in Pen.WEIGHTED else None))
    w_init = None
    mode = rng.choice(["none", "none", "support", "intercept-only"])
    if mode == "support":
        w_init = np.array([rng.choice([0.0, 0.5, -1.0, 2.0]) for _ in range(p + fi)])
        if case.pen.kind in Pen.HAS_POS and case.pen.positive:
            w_init[:p] = np.abs(w_init[:p])
    elif mode == "intercept-only" and fi:
        w_init = np.zeros(p + 1)
        w_init[-1] = rng.choice([1.0, -2.0, 5.0])
    Xin = case_csc(case) if case.sparse else np.asfortranarray(case.X)
    try:
        out = solver.path(Xin, case.y.copy(), datafit, penalty, alphas=np.array(alphas), w_init=w_init)
    except Exception as e:  # noqa: BLE001
        rep.violate(f"AndersonCD.path failed on a legitimate grid: {classify_exc(e)}",
                    dict(case.signature(site="AndersonCD.path"), kind="raises"), case=case.describe(),
                    impl_output=str(e)[:200], path=dict(alphas=alphas, w_init=None if w_init is None else w_init.tolist()))
        return
    _, coefs, stops = out[:3]
    for t, a in enumerate(alphas):
        rep.count("path-point", False, ("pp", id(case), t))
        if not stops[t] <= knobs["tol"]:
            continue
        w = coefs[:, t]
        pen_t = copy.copy(case.pen)
        pen_t.alpha = a
        ww, bb = np.asarray(w[:p], float), (float(w[p]) if fi else 0.0)
        if knobs.get("ws_strategy", "subdiff") != "subdiff":
            continue
        v, d = ref.cert_subdiff(case.df, pen_t, case.wts, case.X, case.sw, case.y, ww, bb, fi)
        slack = 1e-7 * (1 + float(np.max(np.abs(case.X))) * (1 + float(np.max(np.abs(ww)))))
        if not v <= knobs["tol"] * (1 + 1e-6) + slack:
            rep.violate("a path point reports stop_crit <= tol but does not meet the certificate of its own problem",
                        dict(case.signature(site="AndersonCD.path"), kind="path-certificate", w_init=mode),
                        case=case.describe(), path=dict(alphas=alphas, t=t, knobs=knobs,
                                                        w_init=None if w_init is None else w_init.tolist()),
                        impl_output=dict(w=np.asarray(w).tolist(), stop_crit=float(stops[t])),
                        oracle=dict(violation=v, tol=knobs["tol"]))
            break


def search_failing(case, rep, oracles, rng):
    """variations of a run on which model and implementation disagreed: longer budgets, looser and tighter
    tolerances, caller-owned buffers; all oracles of the solver-level properties are applied"""
    import copy
    import numpy as np
    from ..impl import Dfit
    tried = 0
    bases = [case]
    if case.df.kind in ("quadratic", "huber", "wquadratic"):
        # the same design with a loss whose intercept step is not an exact minimiser
        c_log = copy.copy(case)
        c_log.df = Dfit("logistic")
        med = float(np.median(case.y))
        c_log.y = np.where(case.y > med, 1.0, -1.0)
        c_log.sw = np.ones(len(case.y))
        bases.append(c_log)
    # strong regularisation (null solution: every outer iteration is a single intercept step), full working set
    for b_ in list(bases):
        if getattr(b_.pen, "alpha", None) and b_.pen.kind not in ("box",):
            c_big = copy.copy(b_)
            c_big.pen = copy.copy(b_.pen)
            c_big.pen.alpha = 20.0 * b_.pen.alpha
            bases.append(c_big)
    p_feat = case.X.shape[1]
    for base, max_iter in [(b_, m) for b_ in bases for m in (case.knobs.get("max_iter", 5), 1, 2, 3, 20, 100)]:
        for tol in (case.knobs.get("tol", 1e-4), 1e-1, 1e-2, 1e-3, 1e-6):
            c2 = copy.copy(base)
            c2.knobs = dict(case.knobs, max_iter=max_iter, tol=tol)
            if max_iter in (1, 2, 3):
                c2.knobs["p0"] = max(10, p_feat)
            c2.explicit_buffers = True
            r2 = solvers.run_acd(c2)
            tried += 1
            if r2["out"] is None:
                continue
            nv = len(rep.violations)
            for o in ("cert", "stop_value", "buffer", "feasible", "history", "descent"):
                if o in oracles or o in ("cert", "stop_value", "buffer", "feasible"):
                    ORACLES[o](c2, r2, rep)
            if len(rep.violations) > nv:
                rep.extra["search_hits"] = rep.extra.get("search_hits", 0) + 1
                return
    rep.extra["search_runs"] = rep.extra.get("search_runs", 0) + tried


EXTRA = dict(budget=budget_monotone, path=path_points)


def _worker(args):
    """generate and run a batch of cases in one process (numba compilation is per process)"""
    prop, seed, idx, n_cases, gen_opts, oracles, trace = args
    rng = random.Random(f"{prop}-{seed}-{idx}")
    rep = Report(prop)
    t0 = time.time()
    kinds = gen_opts.pop("combo", None)
    searched = 0
    for c in range(n_cases):
        opts = dict(gen_opts)
        if kinds:
            opts["df_kinds"], opts["pen_kinds"] = [kinds[0]], [kinds[1]]
        case = solvers.gen_case(rng, **opts)
        res = solvers.run_acd(case)
        key = (f"{case.df.kind}/{case.pen.kind}/{'sp' if case.sparse else 'de'}/"
               f"{'int' if case.fit_intercept else 'noint'}/{case.knobs['ws_strategy']}/"
               f"{'warm' if case.w_init is not None else 'cold'}")
        nontriv = res["out"] is not None and len(res["out"][1]) > 0
        rep.count(key, not nontriv, (idx, c))
        if res["err"] is not None:
            rep.violate(f"AndersonCD.solve failed on a legitimate input: {res['err']}",
                        dict(case.signature(site="AndersonCD.solve"), kind="raises:" + res["err"].split(":")[1]),
                        case=case.describe(), impl_output=res["err"])
            continue
        if trace and case.X.shape[1] <= 16:
            nd = len(rep.disagreements)
            solvers.check_trace_acd(case, res, rep, lean.drive)
            if len(rep.disagreements) > nd and searched < 6:
                # the model and the implementation disagree on this run: search around it for a concrete
                # input on which the property itself fails on the real code
                searched += 1
                search_failing(case, rep, oracles, rng)
        for o in oracles:
            if o in ORACLES:
                ORACLES[o](case, res, rep)
            else:
                EXTRA[o](case, res, rep, rng)
        if len(rep.samples) < 2 and nontriv:
            w, obj, stop = res["out"]
            rep.sample(dict(case=dict(datafit=case.df.describe(), penalty=case.pen.describe(), knobs=case.knobs,
                                      shape=list(case.X.shape), sparse=case.sparse,
                                      warm=case.w_init is not None),
                            events=len(res["trace"]), n_iter=len(obj), stop_crit=float(stop)))
        if time.time() - t0 > gen_opts.get("budget_s", 1e9):
            break
    return rep


COMBOS = [("quadratic", "l1"), ("quadratic", "l1l2"), ("quadratic", "wl1"), ("quadratic", "mcp"),
          ("logistic", "l1"), ("huber", "l1"), ("wquadratic", "l1"), ("svc", "box"),
          ("quadratic", "pos"), ("quadratic", "scad"), ("quadratic", "wmcp"), ("logistic", "l1l2"),
          ("quadratic", "box"), ("quadratic", "l05"), ("quadratic", "logsum"), ("huber", "mcp")]


def run_parallel(ctx, rep, oracles, gen_opts=None, trace=True, n_quick=18, n_thorough=250, combos=None):
    gen_opts = dict(gen_opts or {})
    combos = combos or COMBOS
    n_cases = ctx.n(n_quick, n_thorough)
    tasks = []
    for i, cb in enumerate(combos):
        tasks.append((ctx.prop, ctx.seed, i, n_cases, dict(gen_opts, combo=cb), list(oracles), trace))
    workers = min(len(tasks), max(1, (os.cpu_count() or 2) - 1))
    with ProcessPoolExecutor(max_workers=workers) as ex:
        for r in ex.map(_worker, tasks):
            merge(rep, r)


def merge(rep, r):
    rep.evaluations += r.evaluations
    rep.nontrivial |= r.nontrivial
    for k, v in r.hist.items():
        rep.hist[k] = rep.hist.get(k, 0) + v
    for s in r.samples:
        rep.sample(s)
    rep.disagreements += r.disagreements
    rep.violations += r.violations
    rep.traces += r.traces
    rep.notes += r.notes
    for k, v in r.extra.items():
        rep.extra[k] = rep.extra.get(k, 0) + v if isinstance(v, (int, float)) else v


# ------------------------------------------------------------------ black-box slice: all other solvers

BB_SOLVERS = ["ProxNewton", "GramCD", "GroupBCD", "GroupProxNewton", "MultiTaskBCD", "FISTA", "LBFGS"]


def _bb_worker(args):
    from .. import bbox
    prop, seed, solver, chunk, n_cases, oracles, degenerate, ladder = args
    rng = random.Random(f"{prop}-{seed}-bb-{solver}-{chunk}")
    rep = Report(prop)
    for c in range(n_cases):
        case = bbox.gen_bb(rng, solver, degenerate=degenerate)
        res = bbox.run_case(case)
        nontriv = res["out"] is not None and len(res["out"][1]) > 0
        key = f"bb:{solver}/{case.df.kind}/{case.pen.kind}/{'sp' if case.sparse else 'de'}"
        rep.count(key, not nontriv, (solver, chunk, c))
        if res["err"] is not None:
            cls = res["err"].split(":")[1]
            # an explanatory refusal of an unsupported combination is legitimate (C13 decides which are)
            if cls in ("AttributeError", "ValueError") and ("not compatible" in res["err"] or "must" in res["err"]
                                                          or "not yet supported" in res["err"]
                                                          or "should only take positive" in res["err"]):
                continue
            rep.violate(f"{solver}.solve failed on a legitimate input: {res['err'][:160]}",
                        dict(case.signature(site=f"{solver}.solve"), kind="raises:" + cls),
                        case=case.describe(), impl_output=res["err"])
            continue
        for o in oracles:
            bbox.ORACLES[o](case, res, rep, rng)
        if ladder and res["out"] is not None and solver not in ("FISTA", "LBFGS"):
            bb_ladder(bbox, case, rep, rng)
        if degenerate and solver not in ("LBFGS",) and any(not case.X[:, j].any() for j in range(case.X.shape[1])):
            # the same degenerate problem in the other storage layouts: dense, CSC with structurally empty null
            # columns, CSC with the null columns stored as explicit zeros (what `X[:, j] = 0` leaves behind)
            import copy
            for layout in ("dense", "csc-empty", "csc-explicit", "dense-fixpoint-generous"):
                c2 = copy.copy(case)
                c2.knobs = dict(case.knobs)
                if "p0" in c2.knobs:
                    c2.knobs["p0"] = 10            # the null column sits in the first working set
                c2.sparse = layout not in ("dense", "dense-fixpoint-generous")
                if layout == "dense-fixpoint-generous":
                    # the other working-set strategy with a budget that lets a convex problem converge: the null
                    # block must neither block convergence nor fake it
                    if "ws_strategy" not in c2.knobs or case.pen.kind == "wl1gl2":
                        continue
                    c2.knobs.update(ws_strategy="fixpoint", max_iter=100, tol=1e-8)
                    for k_ in ("max_epochs", "max_pn_iter"):
                        if k_ in c2.knobs:
                            c2.knobs[k_] = 1000
                c2.explicit_zeros = -1 - rng.randrange(1 << 20) if layout == "csc-explicit" else None
                if c2.sparse and (solver == "ProxNewton" and case.df.kind == "wquadratic"):
                    continue
                r2 = bbox.run_case(c2)
                rep.count(f"bb-layout:{solver}/{layout}", False, (solver, chunk, c, layout))
                if r2["err"] is not None:
                    cls = r2["err"].split(":")[1]
                    if cls in ("AttributeError", "ValueError") and any(t in r2["err"] for t in (
                            "not compatible", "must", "not yet supported", "should only take positive", "sparse")):
                        continue
                    rep.violate(f"{solver}.solve failed on a design with a null column stored as {layout}: {r2['err'][:160]}",
                                dict(c2.signature(site=f"{solver}.solve"), kind="raises:" + cls, layout=layout),
                                case=c2.describe(), impl_output=r2["err"])
                    continue
                for o in oracles:
                    bbox.ORACLES[o](c2, r2, rep, rng)
        if len(rep.samples) < 1 and nontriv:
            rep.sample(dict(solver=solver, datafit=case.df.describe(), penalty=case.pen.describe(), knobs=case.knobs,
                            shape=list(case.X.shape), n_iter=len(res["out"][1]), stop_crit=float(res["out"][2])))
    return rep


def bb_ladder(bbox, case, rep, rng):
    """C03 on the other descent solvers: true objective non-increasing along budget ladders"""
    import copy
    import numpy as np
    if case.solver == "ProxNewton" and case.pen.kind in ("mcp", "wmcp", "scad", "l05", "l23", "logsum"):
        return      # Hessian-based steps 1/L_j are not confined to the penalty's well-posed range
    if case.label == "pn-saturated":
        return      # saturated sigmoid: descent is decided by rounding (not modelled)
    inner = {"ProxNewton": "max_pn_iter", "GroupProxNewton": "max_pn_iter", "GroupBCD": "max_epochs",
             "MultiTaskBCD": "max_epochs"}.get(case.solver)
    w0 = None
    ladders = [[("max_iter", k) for k in (0, 1, 2, 3, 5)]]
    if case.solver == "GramCD":
        # GramCD extrapolates in its outer loop: budgets ending before, at and after the 7th, 14th, 21st iteration
        ladders = [[("max_iter", k) for k in (0, 1, 2, 5, 6, 7, 8, 13, 14, 15, 20, 21, 22)]]
    if inner:
        ladders.append([(inner, e) for e in ((1, 2, 3, 5, 8) if "pn" in inner else (1, 5, 6, 7, 8, 13, 14))])
    for seq in ladders:
        last, lastk = None, "start"
        for name, k in seq:
            c2 = copy.copy(case)
            c2.knobs = dict(case.knobs, **{name: k})
            if name != "max_iter":
                c2.knobs["max_iter"] = 1
            r = bbox.run_case(c2)
            rep.count(f"bb-ladder:{case.solver}:{name}", False, ("bbl", id(case), name, k))
            if r["out"] is None:
                break
            w = r["out"][0]
            if last is None:
                wz = np.zeros_like(np.asarray(w, float)) if case.w_init is None else np.asarray(case.w_init, float)
                last = case.objective(wz)
            f = case.objective(w)
            # sparse group constants come from a power iteration stopped at 1e-6 (C09 allows that accuracy)
            rt = 1e-5 if (case.solver == "GroupBCD" and case.sparse) else 1e-9
            if not f <= last + rt * (1 + abs(last)):
                rep.violate(f"the true objective increases when the budget {name} grows from {lastk} to {k}",
                            dict(case.signature(site=f"{case.solver}.solve"), kind="budget-ascent"),
                            case=c2.describe(), oracle=dict(previous=last, now=f, budget=[name, lastk, k]))
                return
            last, lastk = f, k


def run_bbox(ctx, rep, oracles, solvers_=None, n_quick=30, n_thorough=300, degenerate=False, ladder=False,
             chunks=2):
    solvers_ = solvers_ or BB_SOLVERS
    n = ctx.n(n_quick, n_thorough)
    tasks = [(ctx.prop, ctx.seed, s, ch, max(1, n // chunks), list(oracles), degenerate, ladder)
             for s in solvers_ for ch in range(chunks)]
    workers = min(len(tasks), max(1, (os.cpu_count() or 2) - 1))
    with ProcessPoolExecutor(max_workers=workers) as ex:
        for r in ex.map(_bb_worker, tasks):
            merge(rep, r)


# ------------------------------------------------------------------ C10: storage formats

def _fmt_worker(args):
    """same problem as dense F-ordered, dense C-ordered and CSC (canonical, and with explicit zeros / int64
    indices): identical budgets must give the same point (the CSC kernels are the dense kernels on the
    represented matrix), and converged runs the same solution"""
    import copy
    import numpy as np
    from .. import bbox
    prop, seed, solver, chunk, n_cases = args
    rng = random.Random(f"{prop}-{seed}-fmt-{solver}-{chunk}")
    rep = Report(prop)
    for c in range(n_cases):
        if solver == "AndersonCD":
            case = solvers.gen_case(rng)
            runner = solvers.run_acd
            objective = lambda cs, w: solvers.true_obj(cs, w)      # noqa: E731
        else:
            case = bbox.gen_bb(rng, solver)
            runner = bbox.run_case
            objective = lambda cs, w: cs.objective(w)              # noqa: E731
            if solver in ("ProxNewton", "GramCD") and case.pen.kind in ("l1", "l1l2") and rng.random() < 0.5:
                # per-feature parameters: an index slip in one storage format's kernel shows only with these
                from ..impl import Pen
                case.pen = Pen("wl1", case.pen.alpha, positive=False)
                case.wts = np.array([rng.choice([0.25, 0.5, 1.0, 2.0, 4.0]) for _ in range(case.X.shape[1])])
        outs = {}
        for fmt in ("dense", "csc"):
            c2 = copy.copy(case)
            c2.sparse = fmt == "csc"
            r = runner(c2)
            outs[fmt] = r
        rep.count(f"fmt:{solver}/{case.df.kind}/{case.pen.kind}", False, ("fmt", solver, chunk, c))
        d, s_ = outs["dense"], outs["csc"]
        sig = dict(case.signature(site=f"{solver}.solve"), sparse="both")
        if (d["err"] is None) != (s_["err"] is None):
            which, e = ("csc", s_["err"]) if s_["err"] else ("dense", d["err"])
            cls = e.split(":")[1]
            explained = cls in ("AttributeError", "ValueError") and ("sparse" in e.lower() or "must implement" in e
                                                                    or "not compatible" in e)
            if not explained:
                rep.violate(f"{solver} solves the problem in one storage format and fails in the other ({which}: {e[:120]})",
                            dict(sig, kind="format-failure"), case=case.describe(), impl_output=e)
            continue
        if d["err"] is not None:
            continue
        # generous budget: the same convex problem must be *solved* in both formats (same optimum, both converged)
        convex_pen = case.pen.kind not in ("mcp", "wmcp", "scad", "l05", "l23", "logsum", "bmcp", "bscad", "l205")
        if convex_pen and solver != "FISTA":
            big = {}
            for fmt in ("dense", "csc"):
                c3 = copy.copy(case)
                c3.sparse = fmt == "csc"
                c3.knobs = dict(case.knobs)
                for k_, v_ in (("max_iter", 20000 if solver == "GramCD" else 100), ("max_epochs", 5000),
                               ("max_pn_iter", 500), ("tol", 1e-8)):
                    if k_ in c3.knobs:
                        c3.knobs[k_] = v_
                c3.w_init = None if case.w_init is None else np.array(case.w_init, copy=True)
                big[fmt] = runner(c3)
            bd, bs = big["dense"], big["csc"]
            rep.count(f"fmt-converged:{solver}/{case.df.kind}/{case.pen.kind}", False, ("fmtc", solver, chunk, c))
            if bd["err"] is None and bs["err"] is None:
                sd_, ss_ = float(np.max(bd["out"][2])), float(np.max(bs["out"][2]))
                fd_, fs_ = objective(case, np.asarray(bd["out"][0], float)), objective(case, np.asarray(bs["out"][0], float))
                one_sided = (sd_ <= 1e-8 and ss_ > 1e-5) or (ss_ <= 1e-8 and sd_ > 1e-5)
                differ = sd_ <= 1e-8 and ss_ <= 1e-8 and np.isfinite(fd_) and abs(fd_ - fs_) > 1e-6 * (1 + abs(fd_))
                if one_sided or differ:
                    rep.violate(f"{solver}: with a generous budget the problem is solved in one storage format and not "
                                f"(or differently) in the other", dict(sig, kind="format-converged-mismatch"),
                                case=case.describe(),
                                impl_output=dict(dense=np.asarray(bd["out"][0]).tolist(), csc=np.asarray(bs["out"][0]).tolist(),
                                                 stop_dense=sd_, stop_csc=ss_), oracle=dict(obj_dense=fd_, obj_csc=fs_))
        wd, ws_ = np.asarray(d["out"][0], float), np.asarray(s_["out"][0], float)
        approx_const = solver in ("FISTA", "GroupBCD")       # sparse constants come from a power iteration
        tol = case.knobs.get("tol", 1e-4)
        nonconvex = case.pen.kind in ("mcp", "wmcp", "scad", "l05", "l23", "logsum", "bmcp", "bscad", "l205")
        kn = case.knobs
        short = kn.get("max_iter", 1) <= 2 and kn.get("max_epochs", kn.get("max_pn_iter", 1)) <= 6
        if nonconvex and not short:
            continue        # long non-convex runs amplify rounding differences (thresholds, extrapolation)
        if not approx_const:
            scale = 1 + float(np.max(np.abs(wd))) if wd.size else 1.0
            if not np.all(np.abs(wd - ws_) <= 1e-6 * scale):
                if not short and not (d["out"][2] <= tol and s_["out"][2] <= tol):
                    continue    # long unconverged runs: rounding may separate the trajectories
                # identical trajectories are a theorem in exact arithmetic; a tie broken differently by rounding
                # can separate them, so fall back on comparing objectives of converged runs
                fd_, fs_ = objective(case, wd), objective(case, ws_)
                conv = d["out"][2] <= tol and s_["out"][2] <= tol
                if solver == "ProxNewton" and not conv:
                    # the backtracking test of a prox-Newton step on a quadratic model is exactly 0 in exact
                    # arithmetic: rounding decides between step 1 and 1/2, in either storage format
                    continue
                if not conv or abs(fd_ - fs_) > 10 * tol * (1 + abs(fd_)) + 1e-9:
                    rep.violate(f"{solver}: dense and CSC input give different results for the same budget",
                                dict(sig, kind="format-mismatch"), case=case.describe(),
                                impl_output=dict(dense=wd.tolist(), csc=ws_.tolist()),
                                oracle=dict(obj_dense=fd_, obj_csc=fs_))
        else:
            if d["out"][2] <= tol and s_["out"][2] <= tol and tol <= 1e-6 and solver == "GroupBCD":
                fd_, fs_ = objective(case, wd), objective(case, ws_)
                if abs(fd_ - fs_) > 1e-4 * (1 + abs(fd_)):
                    rep.violate(f"{solver}: converged dense and CSC runs reach different objective values",
                                dict(sig, kind="format-mismatch"), case=case.describe(),
                                impl_output=dict(dense=wd.tolist(), csc=ws_.tolist()),
                                oracle=dict(obj_dense=fd_, obj_csc=fs_))
    return rep


def run_formats(ctx, rep, n_quick=24, n_thorough=250):
    solvers_ = ["AndersonCD", "ProxNewton", "GramCD", "GroupBCD", "MultiTaskBCD", "FISTA"]
    n = ctx.n(n_quick, n_thorough)
    tasks = [(ctx.prop, ctx.seed, s, ch, max(1, n // 2)) for s in solvers_ for ch in range(2)]
    workers = min(len(tasks), max(1, (os.cpu_count() or 2) - 1))
    with ProcessPoolExecutor(max_workers=workers) as ex:
        for r in ex.map(_fmt_worker, tasks):
            merge(rep, r)
