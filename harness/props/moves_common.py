"""Kernel/step-level correspondence for the solver moves modelled beside AndersonCD:

* `run_bcd_moves`      `_bcd_epoch` / `_bcd_epoch_sparse` of GroupBCD, `penalty.value`, the objective
                        vs `GrpProb.bcdEpoch`, `penValue`, `objective` (Model/BCD.lean)
* `run_pn_linesearch`  `_backtrack_line_search` (dense and CSC) of ProxNewton vs `CDProb.backtrack`
                        (Model/ProxNewton.lean)
* `run_cox_sweeps`     `Cox._B_dot_vec`, `_B_T_dot_vec`, `_A_dot_vec`, `_AT_dot_vec`, `value`, `raw_grad`
                        vs Model/Cox.lean, on the structures the real `initialize` builds

Each compares the compiled implementation with the Lean model on the same inputs and, where the property
has a model-independent statement (descent of the exact objective, buffer = Xw), recomputes it in numpy.
"""
import math

import numpy as np

from .. import lean, gen
from ..blocks import Blk, group_layout, compiled_blk
from ..impl import Pen, Dfit, compiled, compiled_pen, compiled_df, gen_matrix, to_csc, call, csc_tokens
from ..proto import fb, vec, ivec, mat, b, decode, same, canon


def _v(xs):
    return " ".join(fb(x) for x in xs)


def _groups_tokens(groups):
    return " ".join([str(len(groups))] + [ivec(g) for g in groups])


# ------------------------------------------------------------------ GroupBCD moves
def _grp_objective(df_kind, X, y, w, b0, blk, groups, wgs, wfs):
    """documented objective from X, y, w alone (independent of buffers)"""
    u = X @ w + b0
    n = len(y)
    if df_kind == "quadratic":
        f = float(np.sum((y - u) ** 2) / (2 * n))
    else:
        f = float(np.sum(np.log1p(np.exp(-y * u))) / n)
    pen = sum(blk.ref_pen(w[g], wgs[k], None if wfs is None else wfs[g]) for k, g in enumerate(groups))
    return f + pen


def run_bcd_moves(ctx, rep, n_cases=None, prop_kind="all"):
    from skglm.datafits import QuadraticGroup, LogisticGroup
    from skglm.solvers.group_bcd import _bcd_epoch, _bcd_epoch_sparse
    rng = ctx.rng
    n_cases = n_cases or ctx.n(40, 400)
    lines, metas = [], []
    for _ in range(n_cases):
        n, p = rng.randrange(3, 9), rng.randrange(2, 8)
        X = gen_matrix(rng, n, p, gen.pick(rng, ["gauss", "gauss", "degenerate", "sparse"]))
        groups, gp, gi = group_layout(rng, p)
        G = len(groups)
        logistic = rng.random() < 0.4
        dfk = "logistic" if logistic else "quadratic"
        y = (np.array([rng.choice([-1.0, 1.0]) for _ in range(n)]) if logistic
             else np.array([rng.gauss(0, 1) for _ in range(n)]))
        kind = gen.pick(rng, ["wgl2", "wgl2", "wgl2+", "wl1gl2"])
        alpha = gen.pick(rng, [0.01, 0.05, 0.2, 0.5])
        blk = Blk("wgl2" if kind.startswith("wgl2") else "wl1gl2", alpha, positive=kind == "wgl2+")
        wgs = np.array([gen.pick(rng, [0.0, 0.5, 1.0, 2.0]) if rng.random() < 0.5 else 1.0 for _ in range(G)])
        wfs = np.array([gen.pick(rng, [0.0, 0.5, 1.0, 2.0]) for _ in range(p)])
        pen = compiled_blk(blk, wgs, wfs if blk.kind == "wl1gl2" else None, gp, gi)
        dcls = LogisticGroup if logistic else QuadraticGroup
        dfit = compiled(dcls(gp, gi))
        lips = call(dfit.get_lipschitz, X, y)
        if isinstance(lips, str):
            rep.violate(f"{dcls.__name__}.get_lipschitz raises {lips}", dict(site="get_lipschitz", kind="raises"),
                        input=dict(X=X.tolist(), groups=groups), impl_output=lips)
            continue
        lips = np.asarray(lips, float)
        # start point: zero, random (feasible for the positive variant), or partially zero groups
        w0 = np.array([rng.gauss(0, 1) if rng.random() < 0.6 else 0.0 for _ in range(p)])
        if blk.positive:
            w0 = np.abs(w0)
        b0 = rng.gauss(0, 0.5) if rng.random() < 0.4 else 0.0
        Xw0 = X @ w0 + b0
        # working set: any list of group indices (order arbitrary, a group may be skipped)
        ws = [g for g in range(G) if rng.random() < 0.8] or [0]
        rng.shuffle(ws)
        ws = np.array(ws, dtype=np.int64)
        prob = (f"{dfk} {n} {p} {mat(X)} {_v(np.ones(n))} {_v(y)} {blk.tokens()} {_groups_tokens(groups)} "
                f"{vec(wgs)} {_v(wfs if blk.kind == 'wl1gl2' else np.ones(p))} {vec(lips)} 0")
        st = f"{_v(w0)} {fb(b0)} {_v(Xw0)}"
        inp = dict(datafit=dfk, X=X.tolist(), y=y.tolist(), penalty=blk.describe(), groups=groups,
                   weights_groups=wgs.tolist(), weights_features=wfs.tolist(), w=w0.tolist(), intercept=b0,
                   ws=ws.tolist(), lipschitz=lips.tolist())
        # dense epoch
        w1 = np.append(w0.copy(), b0)
        Xw1 = Xw0.copy()
        r = call(_bcd_epoch, X, y, w1, Xw1, lips, dfit, pen, ws)
        lines.append(f"bcd_epoch {prob} {st} {ivec(ws)}")
        metas.append(("epoch", None if not isinstance(r, str) else r, w1, Xw1, inp, blk, X, y, groups, wgs, wfs, dfk, w0, b0))
        # penalty value and objective at the start point
        pv = call(pen.value, w0)
        lines.append(f"bcd_pen {prob} {st}")
        metas.append(("pen", pv, None, None, inp, blk, X, y, groups, wgs, wfs, dfk, w0, b0))
        if logistic:      # LogisticGroup has no CSC accessors (GroupBCD refuses the combination: C13)
            continue
        # CSC epoch (same matrix with explicit zeros sometimes) against the same dense model
        Xs = to_csc(X, rng, explicit_zeros=rng.random() < 0.3)
        w2 = np.append(w0.copy(), b0)
        Xw2 = Xw0.copy()
        r2 = call(_bcd_epoch_sparse, Xs.data, Xs.indptr, Xs.indices, y, w2, Xw2, lips, dfit, pen, ws)
        lines.append(f"bcd_epoch {prob} {st} {ivec(ws)}")
        metas.append(("epoch-csc", None if not isinstance(r2, str) else r2, w2, Xw2, inp, blk, X, y, groups, wgs, wfs, dfk, w0, b0))
    outs = lean.drive(lines)
    for line, out, (kind, r, w1, Xw1, inp, blk, X, y, groups, wgs, wfs, dfk, w0, b0) in zip(lines, outs, metas):
        m = decode(out)
        p = X.shape[1]
        if kind == "pen":
            i = canon(r)
            rep.count(f"bcd:pen:{blk.kind}", False, ("bpen", hash(line)))
            if not same(i, m, 1e-9, 1e-12):
                rep.disagree("K:bcd-pen", line, i, m, dict(site="group penalty.value"), input=inp)
            want = sum(blk.ref_pen(w0[g], wgs[k], wfs[g]) for k, g in enumerate(groups))
            if not isinstance(r, str) and not ((math.isinf(want) and math.isinf(r)) or abs(r - want) <= 1e-9 * (1 + abs(want))):
                rep.violate("group penalty value differs from the documented sum over the groups as given",
                            dict(site=blk.cls_name() + ".value", kind="value"), input=inp, impl_output=r,
                            oracle=dict(value=want), lines=[line])
            continue
        if r is not None:
            rep.violate(f"_bcd_epoch ({kind}) raises {r}", dict(site="_bcd_epoch", kind="raises"), input=inp,
                        impl_output=r, lines=[line])
            continue
        i = [float(t) for t in w1[:p]] + [float(w1[p])] + [float(t) for t in Xw1]
        moved = bool(np.any(w1[:p] != w0))
        rep.count(f"bcd:{kind}:{dfk}:{blk.kind}{'+' if blk.positive else ''}:{'moved' if moved else 'still'}",
                  not moved, ("bcd", kind, hash(line)))
        if not same(i, m, 1e-8, 1e-10):
            rep.disagree("K:bcd-" + kind, line, i, m, dict(site="_bcd_epoch" + ("_sparse" if kind == "epoch-csc" else "")),
                         input=inp)
        # oracles (from X, y and the returned values alone)
        buf = X @ w1[:p] + w1[p]
        if not np.allclose(buf, Xw1, rtol=1e-9, atol=1e-9):
            rep.violate("after a block epoch the model-fit buffer is not X w + intercept",
                        dict(site="_bcd_epoch", kind="buffer"), input=inp, impl_output=dict(w=w1.tolist(), Xw=Xw1.tolist()),
                        oracle=dict(Xw=buf.tolist()), lines=[line])
        f0 = _grp_objective(dfk, X, y, w0, b0, blk, groups, wgs, wfs)
        f1 = _grp_objective(dfk, X, y, w1[:p], w1[p], blk, groups, wgs, wfs)
        if math.isfinite(f0) and not (f1 <= f0 + 1e-9 * (1 + abs(f0))):
            rep.violate("a block epoch with the datafit's own group constants increases the documented objective",
                        dict(site="_bcd_epoch", kind="ascent"), input=inp,
                        impl_output=dict(w=w1.tolist()), oracle=dict(before=f0, after=f1), lines=[line])
        if blk.positive and np.all(w0 >= 0) and np.any(w1[:p] < 0):
            rep.violate("a block epoch leaves the non-negative orthant", dict(site="_bcd_epoch", kind="infeasible"),
                        input=inp, impl_output=dict(w=w1.tolist()), lines=[line])


# ------------------------------------------------------------------ prox-Newton line search
PN_DFS = ("logistic", "poisson", "gamma", "quadratic")


def _pn_problem(rng):
    n, p = rng.randrange(3, 9), rng.randrange(1, 6)
    X = np.asfortranarray(gen_matrix(rng, n, p, "gauss")) * 0.5
    dfk = gen.pick(rng, ["logistic", "logistic", "poisson", "gamma"])
    if dfk == "logistic":
        y = np.array([rng.choice([-1.0, 1.0]) for _ in range(n)])
    elif dfk == "poisson":
        y = np.array([float(rng.randrange(0, 5)) for _ in range(n)])
    else:
        y = np.array([rng.uniform(0.3, 3.0) for _ in range(n)])
    return n, p, X, dfk, y


def run_pn_linesearch(ctx, rep, n_cases=None):
    from skglm.solvers.prox_newton import _backtrack_line_search, _backtrack_line_search_s, MAX_BACKTRACK_ITER
    rng = ctx.rng
    n_cases = n_cases or ctx.n(60, 600)
    lines, metas = [], []
    meta_df, meta_pen = {}, {}
    for _ in range(n_cases):
        n, p, X, dfk, y = _pn_problem(rng)
        df = Dfit(dfk)
        pk = gen.pick(rng, ["l1", "l1", "l1l2", "wl1", "mcp", "scad", "l05", "logsum", "box", "l1+"])
        alpha = gen.pick(rng, [0.01, 0.05, 0.2, 0.5])
        if pk == "l1+":
            pen = Pen("l1", alpha, positive=True)
        elif pk == "l1l2":
            pen = Pen("l1l2", alpha, l1_ratio=0.5)
        elif pk == "mcp":
            pen = Pen("mcp", alpha, gamma=3.0)
        elif pk == "scad":
            pen = Pen("scad", alpha, gamma=3.7)
        elif pk == "logsum":
            pen = Pen("logsum", alpha, eps=1.0)
        elif pk == "box":
            pen = Pen("box", 1.0)
        else:
            pen = Pen(pk, alpha)
        wts = [gen.pick(rng, [0.0, 0.5, 1.0, 2.0]) if pen.kind in Pen.WEIGHTED else 1.0 for _ in range(p)]
        pobj = compiled_pen(pen, wts if pen.kind in Pen.WEIGHTED else None)
        dobj = compiled_df(df)
        fi = rng.random() < 0.5
        w0 = np.array([rng.gauss(0, 0.7) if rng.random() < 0.6 else 0.0 for _ in range(p)])
        if pen.kind == "box":
            w0 = np.clip(np.abs(w0), 0, 1.0)
        if pen.positive:
            w0 = np.abs(w0)
        b0 = rng.gauss(0, 0.3) if fi else 0.0
        Xw0 = X @ w0 + b0
        ws = np.array(sorted(rng.sample(range(p), rng.randrange(1, p + 1))), dtype=np.int64)
        # direction: a scaled prox step, a huge overshoot, or one that leaves the feasible set
        scale = gen.pick(rng, [0.3, 1.0, 1.0, 5.0, 40.0])
        dws = np.array([rng.gauss(0, 1) * scale for _ in ws])
        if rng.random() < 0.3:      # exact descent-like direction: minus gradient
            g = X[:, ws].T @ np.asarray(dobj.raw_grad(y, Xw0))
            dws = -scale * g
        ascent = rng.random() < 0.15
        if ascent:                  # an ascent direction: every test of the search fails (the `for ... else` exit)
            g = X[:, ws].T @ np.asarray(dobj.raw_grad(y, Xw0))
            dws = scale * (g + 0.1 * np.sign(g))
        db = rng.gauss(0, 1) * scale if fi else 0.0
        if ascent and fi:
            db = scale * float(np.sum(np.asarray(dobj.raw_grad(y, Xw0))))
        dfull = np.zeros(p)
        dfull[ws] = dws
        Xd = X @ dfull + db
        delta = np.append(dws, db) if fi else dws.copy()
        prob = (f"{df.tokens()} {n} {p} {mat(X)} {_v(np.ones(n))} {_v(y)} {pen.tokens()} {_v(wts)} {b(fi)}")
        st = f"{_v(w0)} {fb(b0)} {_v(Xw0)}"
        line = f"pn_backtrack {prob} {st} {_v(dfull)} {fb(db)} {_v(Xd)} {MAX_BACKTRACK_ITER}"
        inp = dict(datafit=df.describe(), X=X.tolist(), y=y.tolist(), penalty=pen.describe(), weights=wts,
                   fit_intercept=fi, w=w0.tolist(), intercept=b0, ws=ws.tolist(), delta_w_ws=delta.tolist())
        meta_df[id(inp)], meta_pen[id(inp)] = df, pen
        for sparse in (False, True):
            w1 = np.append(w0.copy(), b0) if fi else np.append(w0.copy(), 0.0)
            Xw1 = Xw0.copy()
            if sparse:
                Xs = to_csc(X, rng)
                r = call(_backtrack_line_search_s, Xs.data, Xs.indptr, Xs.indices, y, w1, Xw1, fi, dobj, pobj,
                         delta.copy(), Xd.copy(), ws)
            else:
                r = call(_backtrack_line_search, X, y, w1, Xw1, fi, dobj, pobj, delta.copy(), Xd.copy(), ws)
            lines.append(line)
            metas.append((sparse, r, w1, Xw1, inp, w0, b0, X, ws))
    outs = lean.drive(lines)
    for line, out, (sparse, r, w1, Xw1, inp, w0, b0, X, ws) in zip(lines, outs, metas):
        m = decode(out)
        p = X.shape[1]
        site = "_backtrack_line_search" + ("_s" if sparse else "")
        if isinstance(r, str):
            rep.violate(f"{site} raises {r}", dict(site=site, kind="raises"), input=inp, impl_output=r, lines=[line])
            continue
        i_state = [float(t) for t in w1[:p]] + [float(w1[p])] + [float(t) for t in Xw1]
        m_state, m_test, m_acc = m[:len(i_state)], m[len(i_state)], m[len(i_state) + 1]
        # the step finally taken, recovered from the returned point
        dn = np.asarray(inp["delta_w_ws"])[:len(ws)]
        k = int(np.argmax(np.abs(dn))) if len(dn) else 0
        t = (w1[ws[k]] - w0[ws[k]]) / dn[k] if len(dn) and dn[k] != 0 else float("nan")
        stayed = bool(np.all(w1[:p] == w0) or np.allclose(w1[:p], w0, rtol=0, atol=1e-12 * (1 + float(np.max(np.abs(w0))))))
        rep.count(f"pn:ls:{inp['datafit']['kind']}:{inp['penalty']['kind']}:{'csc' if sparse else 'dense'}:"
                  f"{'full' if m_acc == 'T' else 'failed' if stayed else 'backtracked'}", False, ("pn", sparse, hash(line)))
        # near-ties of the acceptance test can resolve differently in floating point: compare only clear cases
        clear = isinstance(m_test, str) or math.isinf(m_test) or abs(m_test) > 1e-9
        if clear and not same(i_state, m_state, 1e-8, 1e-10):
            # a tie deeper in the halving sequence? accept if the impl's state is *some* halving of the model
            rep.disagree("K:pn-linesearch", line, i_state, m_state, dict(site=site), input=dict(inp, step=t))
        # C03 at the level of one line search (theorem `backtrack_descends_or_fails`): a step accepted before the
        # budget of halvings ran out strictly decreases the documented objective (convex datafits, any penalty)
        df, pen = meta_df[id(inp)], meta_pen[id(inp)]
        if True:      # theorem `backtrack_never_ascends`: accepted step -> strict descent; no step accepted -> start point
            y = np.asarray(inp["y"])
            wts = inp["weights"]

            def F(w, b0):
                u = X @ w + b0
                return df.ref_value(np.ones(len(y)), y, u, w) + sum(pen.ref_pen1(x, tt) for x, tt in zip(w, wts))
            w1e = w1[:p].copy()
            if pen.kind == "box":       # undoing a trial step by subtraction may leave a bound by one rounding error
                w1e = np.where(np.abs(w1e - pen.alpha) <= 1e-12, pen.alpha, np.where(np.abs(w1e) <= 1e-12, 0.0, w1e))
            f0, f1 = F(w0, b0), F(w1e, w1[p])
            if math.isfinite(f0) and not (f1 <= f0 + 1e-9 * (1 + abs(f0))):
                rep.violate("the prox-Newton line search returns a point with a larger documented objective than its start",
                            dict(site=site, kind="ascent"), input=dict(inp, step=t),
                            impl_output=dict(w=w1.tolist()), oracle=dict(before=f0, after=f1), lines=[line])
        buf = X @ w1[:p] + w1[p]
        if not np.allclose(buf, Xw1, rtol=1e-8, atol=1e-8):
            rep.violate("after the line search the model-fit buffer is not X w + intercept",
                        dict(site=site, kind="buffer"), input=inp, impl_output=dict(w=w1.tolist(), Xw=Xw1.tolist()),
                        oracle=dict(Xw=buf.tolist()), lines=[line])


# ------------------------------------------------------------------ Cox sweeps
def _cox_dense(tm, s, use_efron, H):
    """dense B and A matrices from the definition; within a tied group the Efron fractions 0, 1/m, ... are
    attributed in the order of the group (any order gives the same likelihood)"""
    n = len(tm)
    B = (tm[None, :] >= tm[:, None]).astype(float)          # B_ij = 1 if tm_j >= tm_i
    A = np.zeros((n, n))
    if use_efron:
        for idx in H:
            m = len(idx)
            for k, i in enumerate(idx):
                A[i, idx] = k / m
    return B, A


_COX = {}


def run_cox_sweeps(ctx, rep, n_cases=None):
    from skglm.datafits import Cox
    rng = ctx.rng
    n_cases = n_cases or ctx.n(60, 500)
    lines, metas = [], []
    for _ in range(n_cases):
        n = rng.randrange(2, 10)
        ties = rng.random() < 0.7
        tm = np.array([float(rng.randrange(1, max(2, n // 2 + 1))) if ties else rng.uniform(0.1, 5) for _ in range(n)])
        scale = rng.choice(["unit", "unit", "unit", "timestamps", "close"])
        if scale == "timestamps":          # distinct times that are close in relative terms stay distinct
            tm = 1.7e9 + np.round(tm * 8)
        elif scale == "close":
            tm = 1.0 + np.round(tm * 8) * 1e-6
        s = np.array([1.0 if rng.random() < 0.7 else 0.0 for _ in range(n)])
        y = np.column_stack([tm, s])
        ef = rng.random() < 0.6
        p = rng.randrange(1, 4)
        X = np.asfortranarray(gen_matrix(rng, n, p, "gauss")) * 0.5
        if ef not in _COX:
            _COX[ef] = compiled(Cox(ef))
        cox = _COX[ef]
        r = call(cox.initialize, X, y)
        if isinstance(r, str):
            rep.violate(f"Cox.initialize raises {r}", dict(site="Cox.initialize", kind="raises"),
                        input=dict(y=y.tolist(), use_efron=ef), impl_output=r)
            continue
        # the structures the real initialize built
        Tp, Ti = np.asarray(cox.T_indptr), np.asarray(cox.T_indices)
        T = [Ti[Tp[k]:Tp[k + 1]].tolist() for k in range(len(Tp) - 1)]
        if ef:
            Hp, Hi = np.asarray(cox.H_indptr), np.asarray(cox.H_indices)
            H = [Hi[Hp[k]:Hp[k + 1]].tolist() for k in range(len(Hp) - 1)]
        else:
            H = []
        # contract of the structures (hypotheses of the Lean theorems): T partitions the samples by equal time in
        # ascending order; H = tied uncensored groups
        flat = sorted(j for g in T for j in g)
        okT = flat == list(range(n)) and all(len(set(tm[g])) == 1 for g in T) and \
            all(tm[T[k][0]] < tm[T[k + 1][0]] for k in range(len(T) - 1))
        okH = all(len(set(tm[g])) == 1 and all(s[j] == 1 for j in g) for g in H if g)
        want_H = sorted(sorted(np.where((tm == t) & (s == 1))[0].tolist()) for t in np.unique(tm[s == 1]))
        if ef:
            okH = okH and sorted(sorted(g) for g in H if g) == want_H
        inp = dict(tm=tm.tolist(), s=s.tolist(), use_efron=ef)
        if not (okT and okH):
            rep.violate("Cox.initialize builds time groups that are not the groups of equal times in ascending order "
                        "(or tied uncensored groups that are not those of the data)",
                        dict(site="Cox.initialize", kind="structure"), input=inp, impl_output=dict(T=T, H=H))
            continue
        v = np.array([rng.gauss(0, 1) for _ in range(n)])
        u = np.array([rng.gauss(0, 0.7) for _ in range(n)])
        gt = f"{n} {_groups_tokens(T)} {_groups_tokens(H)}"
        B, A = _cox_dense(tm, s, ef, H)
        outs_i = [call(cox._B_dot_vec, v.copy()), call(cox._B_T_dot_vec, v.copy())]
        if ef:
            outs_i += [call(cox._A_dot_vec, v.copy()), call(cox._AT_dot_vec, v.copy())]
        else:
            outs_i += [np.zeros(n), np.zeros(n)]
        lines.append(f"cox_sweeps {gt} {_v(v)}")
        metas.append(("sweeps", outs_i, inp, [B @ v, B.T @ v, A @ v, A.T @ v], v))
        val = call(cox.value, y, np.zeros(p), u.copy())
        lines.append(f"cox_value {gt} {b(ef)} {_v(s)} {_v(u)}")
        e = np.exp(u)
        want_val = float((-s @ u + s @ np.log(B @ e - A @ e)) / n)
        metas.append(("value", val, inp, want_val, u))
        rg = call(cox.raw_grad, y, u.copy())
        lines.append(f"cox_rawgrad {gt} {b(ef)} {_v(s)} {_v(u)}")
        inner = B @ e - A @ e
        want_g = (-s + e * (B.T @ (s / inner)) - e * (A.T @ (s / inner))) / n
        metas.append(("rawgrad", rg, inp, want_g, u))
    outs = lean.drive(lines)
    for line, out, (kind, r, inp, want, x) in zip(lines, outs, metas):
        m = decode(out)
        if kind == "sweeps":
            bad = [t for t in r if isinstance(t, str)]
            if bad:
                rep.violate(f"Cox sweep raises {bad[0]}", dict(site="Cox._B_dot_vec", kind="raises"), input=inp,
                            impl_output=bad[0], lines=[line])
                continue
            i = [float(t) for a in r for t in np.asarray(a)]
            rep.count(f"cox:sweeps:{'efron' if inp['use_efron'] else 'breslow'}:{'ties' if len(set(inp['tm'])) < len(inp['tm']) else 'distinct'}",
                      False, ("cox", hash(line)))
            if not same(i, m, 1e-9, 1e-12):
                rep.disagree("K:cox-sweeps", line, i, m, dict(site="Cox sweeps"), input=dict(inp, vec=x.tolist()))
            w = [float(t) for a in want for t in a]
            if not same(i, w, 1e-9, 1e-10):
                rep.violate("a Cox sweep is not the product with the dense matrix of its definition",
                            dict(site="Cox sweeps", kind="not-matrix-product"), input=dict(inp, vec=x.tolist()),
                            impl_output=i, oracle=dict(dense=w), lines=[line])
            continue
        if isinstance(r, str):
            rep.violate(f"Cox.{kind} raises {r}", dict(site="Cox." + kind, kind="raises"), input=inp, impl_output=r,
                        lines=[line])
            continue
        i = canon(r)
        rep.count(f"cox:{kind}:{'efron' if inp['use_efron'] else 'breslow'}", False, ("cox", kind, hash(line)))
        if not same(i, m, 1e-9, 1e-11):
            rep.disagree("K:cox-" + kind, line, i, m, dict(site="Cox." + kind), input=dict(inp, Xw=x.tolist()))
        w = canon(want)
        if all(math.isfinite(t) for t in w) and not same(i, w, 1e-8, 1e-10):
            rep.violate(f"Cox.{kind} differs from the documented partial likelihood evaluated with dense matrices",
                        dict(site="Cox." + kind, kind="not-documented"), input=dict(inp, Xw=x.tolist()),
                        impl_output=i, oracle=dict(dense=w), lines=[line])


# ------------------------------------------------------------------ MultiTaskBCD moves
def _mt_objective(X, Y, W, b0, blk):
    n = X.shape[0]
    R = Y - X @ W - b0
    return float(np.sum(R * R)) / (2 * n) + sum(blk.ref_pen(W[j]) for j in range(W.shape[0]))


def run_mt_moves(ctx, rep, n_cases=None):
    from skglm.datafits import QuadraticMultiTask
    from skglm.solvers.multitask_bcd import _bcd_epoch, _bcd_epoch_sparse
    rng = ctx.rng
    n_cases = n_cases or ctx.n(40, 400)
    lines, metas = [], []
    dfit = compiled(QuadraticMultiTask())
    for _ in range(n_cases):
        n, p, T = rng.randrange(3, 9), rng.randrange(1, 7), rng.randrange(1, 4)
        X = gen_matrix(rng, n, p, gen.pick(rng, ["gauss", "gauss", "degenerate", "sparse"]))
        Y = np.asfortranarray(np.array([[rng.gauss(0, 1) for _ in range(T)] for _ in range(n)]))
        kind = gen.pick(rng, ["l21", "l21", "bmcp", "bscad", "l205"])
        alpha = gen.pick(rng, [0.01, 0.05, 0.2, 0.5])
        blk = Blk(kind, alpha, gamma=(3.0 if kind == "bmcp" else 3.7) if kind in ("bmcp", "bscad") else None)
        pen = compiled_blk(blk)
        r = call(dfit.initialize, X, Y)
        lips = call(dfit.get_lipschitz, X, Y)
        if isinstance(lips, str) or isinstance(r, str):
            rep.violate(f"QuadraticMultiTask.get_lipschitz raises {lips}", dict(site="QuadraticMultiTask", kind="raises"),
                        input=dict(X=X.tolist()), impl_output=str(lips))
            continue
        lips = np.asarray(lips, float)
        W0 = np.array([[rng.gauss(0, 1) if rng.random() < 0.5 else 0.0 for _ in range(T)] for _ in range(p)])
        if rng.random() < 0.3:
            W0[rng.randrange(p)] = 0.0
        b0 = np.array([rng.gauss(0, 0.5) for _ in range(T)]) if rng.random() < 0.4 else np.zeros(T)
        XW0 = np.asfortranarray(X @ W0 + b0)
        ws = [j for j in range(p) if rng.random() < 0.8] or [0]
        rng.shuffle(ws)
        ws = np.array(ws, dtype=np.int64)
        prob = f"{n} {p} {T} {mat(X)} {mat(Y)} {blk.tokens()} {_v(lips)} 1"
        st = f"{mat(W0)} {_v(b0)} {mat(XW0)}"
        inp = dict(X=X.tolist(), Y=Y.tolist(), penalty=blk.describe(), W=W0.tolist(), intercept=b0.tolist(),
                   ws=ws.tolist(), lipschitz=lips.tolist())
        lines.append(f"mt_lips {n} {p} {mat(X)}")
        metas.append(("lips", lips, None, None, inp, blk, X, Y, W0, b0))
        for sparse in (False, True):
            W1 = np.vstack([W0.copy(), b0[None, :]])
            XW1 = XW0.copy(order="F")
            if sparse:
                Xs = to_csc(X, rng, explicit_zeros=rng.random() < 0.3)
                r = call(_bcd_epoch_sparse, Xs.data, Xs.indptr, Xs.indices, Y, W1, XW1, lips, dfit, pen, ws)
            else:
                r = call(_bcd_epoch, X, Y, W1, XW1, lips, dfit, pen, ws)
            lines.append(f"mt_epoch {prob} {st} {ivec(ws)}")
            metas.append(("epoch-csc" if sparse else "epoch", r if isinstance(r, str) else None, W1, XW1, inp, blk, X, Y, W0, b0))
        pv = call(pen.value, W0)
        dv = call(dfit.value, Y, W0, XW0)
        lines.append(f"mt_obj {prob} {st}")
        metas.append(("obj", pv if isinstance(pv, str) else (dv if isinstance(dv, str) else float(pv) + float(dv)),
                      None, None, inp, blk, X, Y, W0, b0))
    outs = lean.drive(lines)
    for line, out, (kind, r, W1, XW1, inp, blk, X, Y, W0, b0) in zip(lines, outs, metas):
        m = decode(out)
        n, p = X.shape
        if kind == "lips":
            i = canon(r)
            rep.count("mt:lips", False, ("mtl", hash(line)))
            if not same(i, m, 1e-9, 1e-12):
                rep.disagree("K:mt-lips", line[:300], i, m, dict(site="QuadraticMultiTask.get_lipschitz"), input=inp)
            continue
        if kind == "obj":
            i = canon(r)
            rep.count(f"mt:obj:{blk.kind}", False, ("mto", hash(line)))
            if not same(i, m, 1e-9, 1e-12):
                rep.disagree("K:mt-obj", line[:300], i, m, dict(site="QuadraticMultiTask.value + penalty.value"), input=inp)
            want = _mt_objective(X, Y, W0, b0, blk)
            if not isinstance(r, str) and abs(r - want) > 1e-9 * (1 + abs(want)):
                rep.violate("multitask datafit value + row penalty value differs from the documented objective",
                            dict(site="QuadraticMultiTask.value", kind="value"), input=inp, impl_output=r,
                            oracle=dict(value=want), lines=[line[:300]])
            continue
        if r is not None:
            rep.violate(f"multitask _bcd_epoch ({kind}) raises {r}", dict(site="multitask._bcd_epoch", kind="raises"),
                        input=inp, impl_output=r, lines=[line[:300]])
            continue
        i = [float(t) for t in W1[:p].ravel()] + [float(t) for t in W1[p]] + [float(t) for t in np.asarray(XW1).ravel()]
        moved = bool(np.any(W1[:p] != W0))
        rep.count(f"mt:{kind}:{blk.kind}:{'moved' if moved else 'still'}", not moved, ("mt", kind, hash(line)))
        if not same(i, m, 1e-8, 1e-10):
            rep.disagree("K:mt-" + kind, line[:300], i, m, dict(site="multitask._bcd_epoch" + ("_sparse" if kind == "epoch-csc" else "")),
                         input=inp)
        buf = X @ W1[:p] + W1[p]
        if not np.allclose(buf, XW1, rtol=1e-9, atol=1e-9):
            rep.violate("after a multitask block epoch the model-fit buffer is not X W + intercept",
                        dict(site="multitask._bcd_epoch", kind="buffer"), input=inp,
                        impl_output=dict(W=W1.tolist(), XW=np.asarray(XW1).tolist()), oracle=dict(XW=buf.tolist()))
        ok_range = blk.kind in ("l21",) or (blk.kind == "bmcp" and all(L == 0 or 1 / L < blk.gamma for L in inp["lipschitz"]))
        if ok_range:
            f0, f1 = _mt_objective(X, Y, W0, b0, blk), _mt_objective(X, Y, W1[:p], W1[p], blk)
            if not (f1 <= f0 + 1e-9 * (1 + abs(f0))):
                rep.violate("a multitask block epoch with the datafit's own constants increases the documented objective",
                            dict(site="multitask._bcd_epoch", kind="ascent"), input=inp, impl_output=dict(W=W1.tolist()),
                            oracle=dict(before=f0, after=f1))
        zero_cols = [j for j in range(p) if not np.any(X[:, j])]
        if any(np.any(W1[j] != W0[j]) for j in zero_cols):
            rep.violate("a multitask block epoch moves the coefficients of an all-zero column",
                        dict(site="multitask._bcd_epoch", kind="null-column"), input=inp, impl_output=dict(W=W1.tolist()))


# ------------------------------------------------------------------ GramCD moves
GRAM_PENS = ("l1", "l1+", "l1l2", "wl1", "mcp", "scad", "box", "pos", "l05")


def run_gram_moves(ctx, rep, n_cases=None):
    from skglm.solvers.gram_cd import _gram_cd_epoch
    rng = ctx.rng
    n_cases = n_cases or ctx.n(50, 500)
    lines, metas = [], []
    for _ in range(n_cases):
        n, p = rng.randrange(3, 9), rng.randrange(1, 7)
        X = gen_matrix(rng, n, p, gen.pick(rng, ["gauss", "gauss", "degenerate", "sparse", "dyadic"]))
        y = np.array([rng.gauss(0, 1) for _ in range(n)])
        pk = gen.pick(rng, list(GRAM_PENS))
        alpha = gen.pick(rng, [0.01, 0.05, 0.2, 0.5])
        pen = {"l1+": Pen("l1", alpha, positive=True), "l1l2": Pen("l1l2", alpha, l1_ratio=0.5),
               "mcp": Pen("mcp", alpha, gamma=3.0), "scad": Pen("scad", alpha, gamma=3.7), "box": Pen("box", 1.0),
               "pos": Pen("pos")}.get(pk) or Pen(pk, alpha)
        wts = [gen.pick(rng, [0.0, 0.5, 1.0, 2.0]) if pen.kind in Pen.WEIGHTED else 1.0 for _ in range(p)]
        pobj = compiled_pen(pen, wts if pen.kind in Pen.WEIGHTED else None)
        # what _solve computes before the loop
        G = X.T @ X / n
        q = X.T @ y / n
        c = np.linalg.norm(y) ** 2 / (2 * n)
        inp = dict(X=X.tolist(), y=y.tolist(), penalty=pen.describe(), weights=wts)
        lines.append(f"gram_ofdata {n} {p} {mat(X)} {_v(y)}")
        metas.append(("ofdata", list(G.ravel()) + list(q) + [c], None, None, inp, pen, None))
        w0 = np.array([rng.gauss(0, 1) if rng.random() < 0.5 else 0.0 for _ in range(p)])
        if pen.positive or pen.kind in ("pos", "box"):
            w0 = np.abs(w0)
        if pen.kind == "box":
            w0 = np.clip(w0, 0, 1.0)
        g0 = G @ w0 - q
        prob = f"{p} {mat(G)} {_v(q)} {fb(c)} {pen.tokens()} {_v(wts)}"
        st = f"{_v(w0)} {_v(g0)}"
        inp2 = dict(inp, w=w0.tolist(), grad=g0.tolist())
        for greedy in (False, True):
            w1, g1 = w0.copy(), g0.copy()
            r = call(_gram_cd_epoch, G, w1, g1, pobj, greedy)
            if greedy:
                lines.append(f"gram_epoch_greedy {prob} {st}")
            else:
                lines.append(f"gram_epoch {prob} {st} {ivec(range(p))}")
            metas.append(("greedy" if greedy else "cyclic", r, w1, g1, inp2, pen, (G, q, c, w0, X, y, wts)))
    outs = lean.drive(lines)
    for line, out, (kind, r, w1, g1, inp, pen, extra) in zip(lines, outs, metas):
        m = decode(out)
        if kind == "ofdata":
            rep.count("gram:ofdata", False, ("go", hash(line)))
            if not same([float(t) for t in r], m, 1e-9, 1e-12):
                rep.disagree("K:gram-ofdata", line[:300], r[:12], m[:12], dict(site="GramCD._solve (Gram construction)"), input=inp)
            continue
        G, q, c, w0, X, y, wts = extra
        if isinstance(r, str):
            rep.violate(f"_gram_cd_epoch raises {r}", dict(site="_gram_cd_epoch", kind="raises"), input=inp, impl_output=r,
                        lines=[line[:300]])
            continue
        i = [float(t) for t in w1] + [float(t) for t in g1]
        moved = bool(np.any(w1 != w0))
        # greedy ties between equal scores may be broken either way in floating point: compare when clear
        rep.count(f"gram:{kind}:{pen.kind}{'+' if pen.positive else ''}:{'moved' if moved else 'still'}", not moved,
                  ("gram", kind, hash(line)))
        agree = same(i, m, 1e-8, 1e-10)
        if not agree and kind == "greedy":
            scores = np.asarray(r, float)
            # a near-tie in the arg-max (two scores within 1e-9) makes the selected sequence data, not model
            s0 = np.sort(np.asarray(call(compiled_pen(pen, wts if pen.kind in Pen.WEIGHTED else None).subdiff_distance,
                                         w0, G @ w0 - q, np.arange(len(w0))), float))[::-1]
            if len(s0) > 1 and abs(s0[0] - s0[1]) <= 1e-9 * (1 + abs(s0[0])):
                agree = True
        if not agree:
            rep.disagree("K:gram-" + kind, line[:300], i, m, dict(site="_gram_cd_epoch", greedy=kind == "greedy"), input=inp)
        # oracles from G, q, X, y alone
        if not np.allclose(g1, G @ w1 - q, rtol=1e-9, atol=1e-9):
            rep.violate("after a Gram epoch the gradient buffer is not G w - X^T y / n", dict(site="_gram_cd_epoch", kind="buffer"),
                        input=inp, impl_output=dict(w=w1.tolist(), grad=g1.tolist()), oracle=dict(grad=(G @ w1 - q).tolist()))

        def F(w):
            return float(np.sum((y - X @ w) ** 2) / (2 * len(y))) + sum(pen.ref_pen1(x, t) for x, t in zip(w, wts))
        in_range = pen.kind not in ("mcp", "scad", "l05") or all(
            G[j, j] == 0 or pen.admissible_step(1 / G[j, j], wts[j]) for j in range(len(w0)))
        if in_range and pen.kind != "l05":
            f0, f1 = F(w0), F(w1)
            if math.isfinite(f0) and not (f1 <= f0 + 1e-9 * (1 + abs(f0))):
                rep.violate("a Gram epoch increases the documented Lasso-type objective", dict(site="_gram_cd_epoch", kind="ascent"),
                            input=inp, impl_output=dict(w=w1.tolist()), oracle=dict(before=f0, after=f1))
        if (pen.positive or pen.kind in ("pos", "box")) and (np.any(w1 < 0) or (pen.kind == "box" and np.any(w1 > 1.0))):
            rep.violate("a Gram epoch leaves the feasible set", dict(site="_gram_cd_epoch", kind="infeasible"), input=inp,
                        impl_output=dict(w=w1.tolist()))
        zero_cols = [j for j in range(len(w0)) if not np.any(X[:, j])]
        if any(w1[j] != w0[j] for j in zero_cols):
            rep.violate("a Gram epoch moves the coefficient of an all-zero column", dict(site="_gram_cd_epoch", kind="null-column"),
                        input=inp, impl_output=dict(w=w1.tolist()))


# ------------------------------------------------------------------ prox-Newton direction (inner CD on the quadratic model)
def run_pn_direction(ctx, rep, n_cases=None):
    from skglm.solvers.prox_newton import _descent_direction, _descent_direction_s, _construct_grad, MAX_CD_ITER
    rng = ctx.rng
    n_cases = n_cases or ctx.n(40, 400)
    lines, metas = [], []
    for _ in range(n_cases):
        n, p, X, dfk, y = _pn_problem(rng)
        if rng.random() < 0.3 and p >= 2:
            X = X.copy(order="F")
            X[:, rng.randrange(p)] = 0.0          # null column: skipped
        df = Dfit(dfk)
        pk = gen.pick(rng, ["l1", "l1", "l1l2", "wl1", "mcp", "box", "l1+"])
        alpha = gen.pick(rng, [0.01, 0.05, 0.2])
        pen = {"l1+": Pen("l1", alpha, positive=True), "l1l2": Pen("l1l2", alpha, l1_ratio=0.5),
               "mcp": Pen("mcp", alpha, gamma=3.0), "box": Pen("box", 1.0)}.get(pk) or Pen(pk, alpha)
        wts = [gen.pick(rng, [0.0, 0.5, 1.0, 2.0]) if pen.kind in Pen.WEIGHTED else 1.0 for _ in range(p)]
        pobj = compiled_pen(pen, wts if pen.kind in Pen.WEIGHTED else None)
        dobj = compiled_df(df)
        fi = rng.random() < 0.5
        w0 = np.array([rng.gauss(0, 0.5) if rng.random() < 0.5 else 0.0 for _ in range(p)])
        if pen.kind == "box":
            w0 = np.clip(np.abs(w0), 0, 1.0)
        if pen.positive:
            w0 = np.abs(w0)
        b0 = rng.gauss(0, 0.3) if fi else 0.0
        Xw0 = X @ w0 + b0
        ws = np.array(rng.sample(range(p), rng.randrange(1, p + 1)), dtype=np.int64)
        wfull = np.append(w0, b0)
        prob = f"{df.tokens()} {n} {p} {mat(X)} {_v(np.ones(n))} {_v(y)} {pen.tokens()} {_v(wts)} {b(fi)}"
        st = f"{_v(w0)} {fb(b0)} {_v(Xw0)}"
        line = f"pn_direction {prob} {st} {ivec(ws)} {MAX_CD_ITER}"
        inp = dict(datafit=df.describe(), X=X.tolist(), y=y.tolist(), penalty=pen.describe(), weights=wts,
                   fit_intercept=fi, w=w0.tolist(), intercept=b0, ws=ws.tolist())
        for sparse in (False, True):
            grad_ws = call(_construct_grad, X, y, wfull[:p], Xw0, dobj, ws)
            if sparse:
                Xs = to_csc(X, rng, explicit_zeros=rng.random() < 0.3)
                r = call(_descent_direction_s, Xs.data, Xs.indptr, Xs.indices, y, wfull.copy(), Xw0.copy(), fi, grad_ws,
                         dobj, pobj, ws, 0.0, "subdiff")
            else:
                r = call(_descent_direction, X, y, wfull.copy(), Xw0.copy(), fi, grad_ws, dobj, pobj, ws, 0.0, "subdiff")
            lines.append(line)
            metas.append((sparse, r, inp, X, ws, fi, p, n))
    outs = lean.drive(lines)
    for line, out, (sparse, r, inp, X, ws, fi, p, n) in zip(lines, outs, metas):
        m = decode(out)
        site = "_descent_direction" + ("_s" if sparse else "")
        if isinstance(r, str):
            rep.violate(f"{site} raises {r}", dict(site=site, kind="raises"), input=inp, impl_output=r, lines=[line[:300]])
            continue
        delta, Xd, lips_ws = (np.asarray(t, float) for t in r)
        dw = np.zeros(p)
        dw[ws] = delta[:len(ws)]
        db = float(delta[-1]) if fi else 0.0
        m_dw, m_db, m_Xd, m_L = m[:p], m[p], m[p + 1:p + 1 + n], m[p + 1 + n:]
        moved = bool(np.any(dw != 0) or db != 0)
        rep.count(f"pn:dir:{inp['datafit']['kind']}:{inp['penalty']['kind']}:{'csc' if sparse else 'dense'}:"
                  f"{'moved' if moved else 'still'}", not moved, ("pndir", sparse, hash(line)))
        i = list(dw) + [db] + list(Xd)
        if not same([float(t) for t in i], m_dw + [m_db] + m_Xd, 1e-7, 1e-9):
            rep.disagree("K:pn-direction", line[:300], [float(t) for t in i], m_dw + [m_db] + m_Xd, dict(site=site), input=inp)
        if not same([float(t) for t in lips_ws], [m_L[j] for j in ws], 1e-8, 1e-11):
            rep.disagree("K:pn-direction-lipschitz", line[:300], [float(t) for t in lips_ws], [m_L[j] for j in ws],
                         dict(site=site), input=inp)
        # the hypothesis of the line-search theorems, recomputed: X_delta_w = X dw + db
        want = X @ dw + db
        if not np.allclose(want, Xd, rtol=1e-8, atol=1e-9):
            rep.violate("the direction returned by the inner solver is inconsistent: X_delta_w is not X delta_w + delta_intercept",
                        dict(site=site, kind="buffer"), input=inp, impl_output=dict(delta=delta.tolist(), X_delta_w=Xd.tolist()),
                        oracle=dict(X_delta_w=want.tolist()), lines=[line[:300]])
        zero_cols = [j for j in ws if not np.any(X[:, j])]
        if any(dw[j] != 0 for j in zero_cols):
            rep.violate("the inner solver moves the coefficient of an all-zero column", dict(site=site, kind="null-column"),
                        input=inp, impl_output=dict(delta=delta.tolist()), lines=[line[:300]])


# ------------------------------------------------------------------ GroupProxNewton line search
def run_gpn_linesearch(ctx, rep, n_cases=None):
    """`_backtrack_line_search` of group_prox_newton.py vs `gpnBacktrack` (Model/GroupProxNewton.lean).  The model is
    faithful to the code's unhandled exit (the last trial point is kept when every test fails), for which Lean proves
    that the objective can increase (`gpn_failed_search_can_ascend`): ascents found here are reported with the
    signature of the recorded finding KF-GPN-LINESEARCH."""
    from skglm.datafits import LogisticGroup
    from skglm.solvers.group_prox_newton import _backtrack_line_search, MAX_BACKTRACK_ITER
    rng = ctx.rng
    n_cases = n_cases or ctx.n(40, 400)
    lines, metas = [], []
    for _ in range(n_cases):
        n, p = rng.randrange(3, 9), rng.randrange(2, 7)
        X = np.asfortranarray(gen_matrix(rng, n, p, "gauss")) * 0.5
        y = np.array([rng.choice([-1.0, 1.0]) for _ in range(n)])
        groups, gp, gi = group_layout(rng, p)
        G = len(groups)
        kind = gen.pick(rng, ["wgl2", "wgl2", "wgl2+", "wl1gl2"])
        alpha = gen.pick(rng, [0.01, 0.05, 0.2])
        blk = Blk("wgl2" if kind.startswith("wgl2") else "wl1gl2", alpha, positive=kind == "wgl2+")
        wgs = np.array([gen.pick(rng, [0.5, 1.0, 2.0]) for _ in range(G)])
        wfs = np.array([gen.pick(rng, [0.0, 0.5, 1.0, 2.0]) for _ in range(p)])
        pen = compiled_blk(blk, wgs, wfs if blk.kind == "wl1gl2" else None, gp, gi)
        dfit = compiled(LogisticGroup(gp, gi))
        fi = rng.random() < 0.5
        w0 = np.array([rng.gauss(0, 0.7) if rng.random() < 0.6 else 0.0 for _ in range(p)])
        if blk.positive:
            w0 = np.abs(w0)
        b0 = rng.gauss(0, 0.3) if fi else 0.0
        Xw0 = X @ w0 + b0
        ws = [g for g in range(G) if rng.random() < 0.7] or [0]
        rng.shuffle(ws)
        ws = np.array(ws, dtype=np.int64)
        stack = [j for g in ws for j in groups[g]]
        mode = gen.pick(rng, ["random", "random", "descent", "ascent", "overshoot"])
        scale = {"overshoot": 40.0}.get(mode, gen.pick(rng, [0.3, 1.0, 5.0]))
        g_all = X.T @ (-y / (1 + np.exp(y * Xw0))) / n
        if mode == "descent":
            dws = -scale * g_all[stack]
        elif mode == "ascent":
            dws = scale * (g_all[stack] + 0.1 * np.sign(g_all[stack]))
        else:
            dws = np.array([rng.gauss(0, 1) * scale for _ in stack])
        db = (rng.gauss(0, 1) * scale if mode != "ascent" else scale * float(np.sum(-y / (1 + np.exp(y * Xw0))) / n)) if fi else 0.0
        dfull = np.zeros(p)
        for pos, j in enumerate(stack):
            dfull[j] += dws[pos]
        Xd = X @ dfull + db
        delta = np.append(dws, db) if fi else dws.copy()
        prob = (f"logistic {n} {p} {mat(X)} {_v(np.ones(n))} {_v(y)} {blk.tokens()} {_groups_tokens(groups)} "
                f"{vec(wgs)} {_v(wfs if blk.kind == 'wl1gl2' else np.ones(p))} {vec(np.ones(G))} {b(fi)}")
        st = f"{_v(w0)} {fb(b0)} {_v(Xw0)}"
        line = f"gpn_backtrack {prob} {st} {ivec(ws)} {vec(dws)} {fb(db)} {_v(Xd)} {MAX_BACKTRACK_ITER}"
        inp = dict(X=X.tolist(), y=y.tolist(), penalty=blk.describe(), groups=groups, weights_groups=wgs.tolist(),
                   weights_features=wfs.tolist(), fit_intercept=fi, w=w0.tolist(), intercept=b0, ws=ws.tolist(),
                   delta_w_ws=delta.tolist(), direction=mode)
        w1 = np.append(w0.copy(), b0)
        Xw1 = Xw0.copy()
        r = call(_backtrack_line_search, X, y, w1, Xw1, fi, dfit, pen, delta.copy(), Xd.copy(), ws)
        lines.append(line)
        metas.append((r, w1, Xw1, inp, w0, b0, X, y, blk, groups, wgs, wfs))
    outs = lean.drive(lines)
    for line, out, (r, w1, Xw1, inp, w0, b0, X, y, blk, groups, wgs, wfs) in zip(lines, outs, metas):
        m = decode(out)
        p = X.shape[1]
        site = "group_prox_newton._backtrack_line_search"
        if isinstance(r, str):
            rep.violate(f"{site} raises {r}", dict(site=site, kind="raises"), input=inp, impl_output=r, lines=[line[:300]])
            continue
        i_state = [float(t) for t in w1[:p]] + [float(w1[p])] + [float(t) for t in Xw1]
        m_state, m_test, m_acc = m[:len(i_state)], m[len(i_state)], m[len(i_state) + 1]
        rep.count(f"gpn:ls:{blk.kind}:{inp['direction']}:{'full' if m_acc == 'T' else 'backtracked-or-failed'}", False,
                  ("gpn", hash(line)))
        clear = isinstance(m_test, str) or math.isinf(m_test) or abs(m_test) > 1e-9
        if clear and not same(i_state, m_state, 1e-8, 1e-10):
            rep.disagree("K:gpn-linesearch", line[:300], i_state, m_state, dict(site=site), input=inp)
        buf = X @ w1[:p] + w1[p]
        if not np.allclose(buf, Xw1, rtol=1e-8, atol=1e-8):
            rep.violate("after the group line search the model-fit buffer is not X w + intercept", dict(site=site, kind="buffer"),
                        input=inp, impl_output=dict(w=w1.tolist(), Xw=Xw1.tolist()), oracle=dict(Xw=buf.tolist()))
        f0 = _grp_objective("logistic", X, y, w0, b0, blk, groups, wgs, wfs)
        f1 = _grp_objective("logistic", X, y, w1[:p], w1[p], blk, groups, wgs, wfs)
        if math.isfinite(f0) and not (f1 <= f0 + 1e-9 * (1 + abs(f0))):
            # proved possible for this code (Lean: gpn_failed_search_can_ascend); recorded finding KF-GPN-LINESEARCH
            rep.violate("the group prox-Newton line search returns a point with a larger documented objective than its start "
                        "(no step accepted in 20 halvings: the last trial point is kept)",
                        dict(site=site, solver="GroupProxNewton", kind="ascent"), input=inp,
                        impl_output=dict(w=w1.tolist()), oracle=dict(before=f0, after=f1))


# ------------------------------------------------------------------ FISTA (whole runs, black box)
def run_fista(ctx, rep, n_cases=None):
    """`FISTA._solve` for k iterations from a given start vs `FistaProb.solve` (Model/FISTA.lean) with the same global
    constant: returned coefficients, stopping value and objective history."""
    from skglm.solvers import FISTA
    rng = ctx.rng
    n_cases = n_cases or ctx.n(40, 400)
    lines, metas = [], []
    for _ in range(n_cases):
        n, p = rng.randrange(3, 9), rng.randrange(1, 6)
        X = np.asfortranarray(gen_matrix(rng, n, p, gen.pick(rng, ["gauss", "gauss", "degenerate"])))
        dfk = gen.pick(rng, ["quadratic", "quadratic", "logistic", "huber"])
        df = Dfit("huber", 1.35) if dfk == "huber" else Dfit(dfk)
        y = np.array([rng.choice([-1.0, 1.0]) for _ in range(n)]) if dfk == "logistic" else \
            np.array([rng.gauss(0, 1) for _ in range(n)])
        pk = gen.pick(rng, ["l1", "l1", "l1+", "l1l2", "wl1", "mcp", "box", "pos"])
        alpha = gen.pick(rng, [0.01, 0.05, 0.2, 0.5])
        pen = {"l1+": Pen("l1", alpha, positive=True), "l1l2": Pen("l1l2", alpha, l1_ratio=0.5),
               "mcp": Pen("mcp", alpha, gamma=30.0), "box": Pen("box", 1.0), "pos": Pen("pos")}.get(pk) or Pen(pk, alpha)
        wts = [gen.pick(rng, [0.0, 0.5, 1.0, 2.0]) if pen.kind in Pen.WEIGHTED else 1.0 for _ in range(p)]
        pobj = compiled_pen(pen, wts if pen.kind in Pen.WEIGHTED else None)
        dobj = compiled_df(df)
        dobj.initialize(X, y)
        L = call(dobj.get_global_lipschitz, X, y)
        if isinstance(L, str) or not L > 0:
            continue
        k = gen.pick(rng, [0, 1, 2, 3, 5, 8])
        tol = gen.pick(rng, [0.0, 1e-12, 1e-3, 1e-1])
        warm = rng.random() < 0.5
        w0 = np.array([rng.gauss(0, 1) if rng.random() < 0.6 else 0.0 for _ in range(p)])
        if pen.positive or pen.kind in ("pos", "box"):
            w0 = np.abs(w0)
        if pen.kind == "box":
            w0 = np.clip(w0, 0, 1.0)
        r = call(lambda: FISTA(max_iter=k, tol=tol).solve(X, y, dobj, pobj, w0.copy() if warm else None,
                                                          (X @ w0) if warm else None))
        prob = f"{df.tokens()} {n} {p} {mat(X)} {_v(np.ones(n))} {_v(y)} {pen.tokens()} {_v(wts)} 0"
        lines.append(f"fista_solve {prob} {fb(L)} {fb(tol)} {k} {b(warm)} {_v(w0)}")
        metas.append((r, dict(datafit=df.describe(), X=X.tolist(), y=y.tolist(), penalty=pen.describe(), weights=wts, max_iter=k,
                              tol=tol, w_init=w0.tolist() if warm else None, L=float(L)), X, y, df, pen, wts, p))
    outs = lean.drive(lines)
    import warnings as _w
    for line, out, (r, inp, X, y, df, pen, wts, p) in zip(lines, outs, metas):
        m = decode(out)
        if isinstance(r, str):
            rep.violate(f"FISTA.solve raises {r}", dict(site="FISTA.solve", kind="raises"), input=inp, impl_output=r)
            continue
        w, objs, stop = r
        i = [float(t) for t in w] + [float(stop)] + [float(t) for t in objs]
        rep.count(f"fista:{inp['datafit']['kind']}:{inp['penalty']['kind']}:k={inp['max_iter']}:{len(objs)}it",
                  len(objs) == 0, ("fista", hash(line)))
        # a stopping test that is a near-tie (stop within 1e-9 of tol) may resolve either way
        if len(i) != len(m):
            near = any(abs(float(s_) - inp["tol"]) <= 1e-9 * (1 + inp["tol"]) for s_ in [stop] if np.isfinite(stop))
            if not near:
                rep.disagree("K:fista-length", line[:300], i, m, dict(site="FISTA._solve"), input=inp)
            continue
        if not same(i, m, 1e-7, 1e-9):
            rep.disagree("K:fista", line[:300], i, m, dict(site="FISTA._solve"), input=inp)
        # C17 for FISTA: when the run stops on its tolerance the returned value is the violation of the returned point
        if len(objs) and np.isfinite(stop):
            f_true = df.ref_value(np.ones(len(y)), y, X @ w, w) + sum(pen.ref_pen1(x, t) for x, t in zip(w, wts))
            if math.isfinite(f_true) and abs(objs[-1] - f_true) > 1e-9 * (1 + abs(f_true)):
                rep.violate("FISTA: the last history entry is not the objective of the returned coefficients",
                            dict(site="FISTA.solve", kind="history-last"), input=inp,
                            impl_output=dict(history=[float(t) for t in objs], w=[float(t) for t in w]), oracle=dict(objective=f_true))


# ------------------------------------------------------------------ L-BFGS wrapper (black box: scipy is not modelled)
def run_lbfgs(ctx, rep, n_cases=None):
    """`LBFGS.solve` returns (w, history, stop): the model evaluates the objective and the sup-norm of its own `jac` at the
    returned w; they must equal the last history entry and the returned stop value (dense and CSC), and the jac must be
    the finite-difference gradient of the documented objective."""
    from skglm.solvers import LBFGS
    from skglm.penalties import L2
    rng = ctx.rng
    n_cases = n_cases or ctx.n(30, 300)
    lines, metas = [], []
    for _ in range(n_cases):
        n, p = rng.randrange(3, 9), rng.randrange(1, 6)
        X = np.asfortranarray(gen_matrix(rng, n, p, gen.pick(rng, ["gauss", "gauss", "sparse", "degenerate"]))) * 0.7
        dfk = gen.pick(rng, ["logistic", "logistic", "quadratic", "poisson"])
        df = Dfit(dfk)
        y = (np.array([rng.choice([-1.0, 1.0]) for _ in range(n)]) if dfk == "logistic" else
             np.array([float(rng.randrange(0, 5)) for _ in range(n)]) if dfk == "poisson" else
             np.array([rng.gauss(0, 1) for _ in range(n)]))
        alpha = gen.pick(rng, [0.01, 0.1, 1.0])
        tol = gen.pick(rng, [1e-2, 1e-5, 1e-8])
        k = gen.pick(rng, [1, 3, 50])
        Xs = to_csc(X, rng, explicit_zeros=rng.random() < 0.3)
        for sparse in ((False, True) if dfk == "logistic" else (False,)):
            dobj = compiled_df(df)
            pobj = compiled(L2(alpha))
            if sparse:
                dobj.initialize_sparse(Xs.data, Xs.indptr, Xs.indices, y)
            else:
                dobj.initialize(X, y)
            r = call(lambda: LBFGS(max_iter=k, tol=tol).solve(Xs if sparse else X, y, dobj, pobj))
            if isinstance(r, str):
                rep.violate(f"LBFGS.solve raises {r}", dict(site="LBFGS.solve", kind="raises"),
                            input=dict(X=X.tolist(), y=y.tolist(), datafit=dfk, alpha=alpha, sparse=sparse), impl_output=r)
                continue
            w, objs, stop = r
            w = np.asarray(w, float)
            lines.append(f"lbfgs_at {df.tokens()} {n} {p} {mat(X)} {csc_tokens(Xs)} {_v(np.ones(n))} {_v(y)} {fb(alpha)} {_v(w)}")
            metas.append((sparse, w, objs, stop, X, y, df, alpha, dict(X=X.tolist(), y=y.tolist(), datafit=dfk, alpha=alpha,
                                                                       sparse=sparse, tol=tol, max_iter=k)))
    outs = lean.drive(lines)
    for line, out, (sparse, w, objs, stop, X, y, df, alpha, inp) in zip(lines, outs, metas):
        m = decode(out)
        p = X.shape[1]
        obj_d, stop_d, obj_s, stop_s = m[:4]
        jac_d, jac_s = m[4:4 + p], m[4 + p:4 + 2 * p]
        rep.count(f"lbfgs:{inp['datafit']}:{'csc' if sparse else 'dense'}:{len(objs)}it", False, ("lbfgs", sparse, hash(line)))
        mo, ms = (obj_s, stop_s) if sparse else (obj_d, stop_d)
        if not same([float(stop)], [ms], 1e-7, 1e-10):
            rep.disagree("K:lbfgs-stop", line[:200], [float(stop)], [ms], dict(site="LBFGS._solve"), input=dict(inp, w=w.tolist()))
        if len(objs) and not same([float(objs[-1])], [mo], 1e-8, 1e-10):
            rep.disagree("K:lbfgs-history", line[:200], [float(objs[-1])], [mo], dict(site="LBFGS._solve"),
                         input=dict(inp, w=w.tolist()))
        if not same(jac_d, jac_s, 1e-8, 1e-10):
            rep.disagree("K:lbfgs-jac-sparse", line[:200], jac_d, jac_s, dict(site="LBFGS._solve"), input=dict(inp, w=w.tolist()))

        def F(v):
            return df.ref_value(np.ones(len(y)), y, X @ v, v) + 0.5 * alpha * float(v @ v)
        g = np.array([(F(w + 1e-6 * e) - F(w - 1e-6 * e)) / 2e-6 for e in np.eye(p)])
        true_stop = float(np.max(np.abs(g))) if p else 0.0
        if abs(true_stop - float(stop)) > 1e-5 * (1 + true_stop):
            rep.violate("LBFGS: the returned stopping value is not the sup-norm of the gradient of the documented objective "
                        "at the returned coefficients", dict(site="LBFGS.solve", kind="stop-value"), input=dict(inp, w=w.tolist()),
                        impl_output=dict(stop_crit=float(stop)), oracle=dict(finite_difference_gradient=g.tolist()))
        if float(stop) <= inp["tol"] and true_stop > inp["tol"] * (1 + 1e-4) + 1e-6:
            rep.violate("LBFGS: stop_crit <= tol was returned but the gradient of the documented objective is larger",
                        dict(site="LBFGS.solve", kind="certificate"), input=dict(inp, w=w.tolist()),
                        impl_output=dict(stop_crit=float(stop)), oracle=dict(violation=true_stop))


# ------------------------------------------------------------------ C15 at kernel level: epochs commute with feature relabelling
def run_kernel_symmetries(ctx, rep, n_cases=None):
    """one coordinate epoch (AndersonCD `_cd_epoch`) and one inner solve of prox-Newton (`_descent_direction`, dense and
    CSC) on a problem and on the same problem with its features relabelled (columns, coefficients, per-feature weights
    and the working set mapped together): the results must be the relabelled results (Lean: `cdEpoch_perm`)."""
    from skglm.solvers.anderson_cd import _cd_epoch
    from skglm.solvers.prox_newton import _descent_direction, _descent_direction_s, _construct_grad
    rng = ctx.rng
    n_cases = n_cases or ctx.n(40, 400)
    for _ in range(n_cases):
        n, p = rng.randrange(4, 9), rng.randrange(2, 7)
        X = np.asfortranarray(gen_matrix(rng, n, p, "gauss")) * 0.6
        dfk = gen.pick(rng, ["logistic", "quadratic"])
        df = Dfit(dfk)
        y = np.array([rng.choice([-1.0, 1.0]) for _ in range(n)]) if dfk == "logistic" else np.array([rng.gauss(0, 1) for _ in range(n)])
        pk = gen.pick(rng, ["wl1", "wl1", "wmcp", "l1"])
        alpha = gen.pick(rng, [0.02, 0.1])
        pen = Pen("wmcp", alpha, gamma=30.0) if pk == "wmcp" else Pen(pk, alpha)
        wts = np.array([gen.pick(rng, [0.25, 0.5, 1.0, 2.0, 4.0]) for _ in range(p)])
        perm = np.array(rng.sample(range(p), p))
        inv = np.argsort(perm)
        X2 = np.asfortranarray(X[:, perm])
        wts2 = wts[perm]
        pobj = compiled_pen(pen, list(wts) if pen.kind in Pen.WEIGHTED else None)
        pobj2 = compiled_pen(pen, list(wts2) if pen.kind in Pen.WEIGHTED else None)
        dobj = compiled(df.build())
        dobj.initialize(X, y)
        dobj2 = compiled(df.build())            # datafits cache X^T y at initialisation: one object per design
        dobj2.initialize(X2, y)
        fi = rng.random() < 0.5
        w0 = np.array([rng.gauss(0, 0.5) if rng.random() < 0.5 else 0.0 for _ in range(p)])
        b0 = rng.gauss(0, 0.3) if fi else 0.0
        Xw0 = X @ w0 + b0
        ws = np.array(rng.sample(range(p), rng.randrange(1, p + 1)), dtype=np.int64)
        ws2 = np.array([inv[j] for j in ws], dtype=np.int64)         # the same features, in the same order
        inp = dict(datafit=dfk, X=X.tolist(), y=y.tolist(), penalty=pen.describe(), weights=wts.tolist(), w=w0.tolist(),
                   intercept=b0, ws=ws.tolist(), perm=perm.tolist(), fit_intercept=fi)
        # --- AndersonCD epoch
        lips = np.asarray(dobj.get_lipschitz(X, y), float)
        wa, Xwa = w0.copy(), Xw0.copy()
        r1 = call(_cd_epoch, X, y, wa, Xwa, lips, dobj, pobj, ws)
        wb, Xwb = w0[perm].copy(), Xw0.copy()
        r2 = call(_cd_epoch, X2, y, wb, Xwb, lips[perm], dobj2, pobj2, ws2)
        rep.count(f"sym:cd_epoch:{dfk}:{pen.kind}", False, ("symcd", hash(X.tobytes()), tuple(perm)))
        if isinstance(r1, str) or isinstance(r2, str) or not np.allclose(wa[perm], wb, rtol=1e-9, atol=1e-11) \
                or not np.allclose(Xwa, Xwb, rtol=1e-9, atol=1e-11):
            rep.violate("a coordinate epoch on the relabelled problem is not the relabelled epoch",
                        dict(site="_cd_epoch", kind="symmetry", transform="permute-features"), input=inp,
                        impl_output=dict(original=wa.tolist(), relabelled_back=(wb[inv].tolist() if not isinstance(r2, str) else r2)))
        # --- prox-Newton inner solver, dense and CSC
        wf = np.append(w0, b0)
        wf2 = np.append(w0[perm], b0)
        for sparse in (False, True):
            g1 = call(_construct_grad, X, y, wf[:p], Xw0, dobj, ws)
            g2 = call(_construct_grad, X2, y, wf2[:p], Xw0, dobj2, ws2)
            if sparse:
                A, B = to_csc(X), to_csc(X2)
                d1 = call(_descent_direction_s, A.data, A.indptr, A.indices, y, wf.copy(), Xw0.copy(), fi, g1, dobj, pobj, ws, 0.0, "subdiff")
                d2 = call(_descent_direction_s, B.data, B.indptr, B.indices, y, wf2.copy(), Xw0.copy(), fi, g2, dobj2, pobj2, ws2, 0.0, "subdiff")
            else:
                d1 = call(_descent_direction, X, y, wf.copy(), Xw0.copy(), fi, g1, dobj, pobj, ws, 0.0, "subdiff")
                d2 = call(_descent_direction, X2, y, wf2.copy(), Xw0.copy(), fi, g2, dobj2, pobj2, ws2, 0.0, "subdiff")
            site = "_descent_direction" + ("_s" if sparse else "")
            rep.count(f"sym:{site}:{dfk}:{pen.kind}", False, ("sympn", sparse, hash(X.tobytes()), tuple(perm)))
            bad = isinstance(d1, str) or isinstance(d2, str)
            if not bad:
                bad = not (np.allclose(d1[0], d2[0], rtol=1e-8, atol=1e-10) and np.allclose(d1[1], d2[1], rtol=1e-8, atol=1e-10))
            if bad:
                rep.violate("the inner prox-Newton solve on the relabelled problem is not the relabelled solve",
                            dict(site=site, kind="symmetry", transform="permute-features"), input=inp,
                            impl_output=dict(original=(d1 if isinstance(d1, str) else np.asarray(d1[0]).tolist()),
                                             relabelled=(d2 if isinstance(d2, str) else np.asarray(d2[0]).tolist())))


# ------------------------------------------------------------------ PDCD_WS inner solver
def run_pdcd(ctx, rep, n_cases=None):
    """`PDCD_WS._solve_subproblem` (epochs of primal-dual coordinate updates on a working set) vs
    `PDProb.solveSubproblem` (Model/PDCD.lean), with the steps computed as `_solve` computes them; plus the buffer
    invariant Xw = X w recomputed from X and w."""
    from skglm.experimental.pdcd_ws import PDCD_WS
    from skglm.experimental.sqrt_lasso import SqrtQuadratic
    from skglm.experimental.quantile_regression import Pinball
    rng = ctx.rng
    n_cases = n_cases or ctx.n(40, 400)
    lines, metas = [], []
    for _ in range(n_cases):
        n, p = rng.randrange(2, 8), rng.randrange(1, 6)
        X = np.asfortranarray(gen_matrix(rng, n, p, gen.pick(rng, ["gauss", "gauss", "degenerate", "sparse"])))
        y = np.array([rng.gauss(0, 1) + 1.0 for _ in range(n)])
        if rng.random() < 0.5:
            dtok, dobj = "sqrt", compiled(SqrtQuadratic())
        else:
            q = gen.pick(rng, [0.3, 0.5, 0.7])
            dtok, dobj = f"pinball {fb(q)}", compiled(Pinball(q))
        pk = gen.pick(rng, ["l1", "l1", "l1+", "wl1", "box", "pos"])
        alpha = gen.pick(rng, [0.05, 0.2, 1.0])
        pen = {"l1+": Pen("l1", alpha, positive=True), "box": Pen("box", 1.0), "pos": Pen("pos")}.get(pk) or Pen(pk, alpha)
        wts = [gen.pick(rng, [0.0, 0.5, 1.0, 2.0]) if pen.kind in Pen.WEIGHTED else 1.0 for _ in range(p)]
        pobj = compiled_pen(pen, wts if pen.kind in Pen.WEIGHTED else None)
        nc = np.linalg.norm(X, axis=0)
        tau = 1.0 / np.where(nc == 0, 1.0, nc)
        sn = float(np.linalg.norm(X, ord=2))
        if sn == 0:
            continue
        sigma = 1.0 / sn
        w0 = np.array([rng.gauss(0, 1) if rng.random() < 0.5 else 0.0 for _ in range(p)])
        if pen.positive or pen.kind in ("pos", "box"):
            w0 = np.abs(w0)
        if pen.kind == "box":
            w0 = np.clip(w0, 0, 1.0)
        Xw0 = X @ w0
        z0 = np.array([rng.gauss(0, 0.3) for _ in range(n)]) if rng.random() < 0.5 else np.zeros(n)
        zb0 = z0.copy() if rng.random() < 0.7 else np.array([rng.gauss(0, 0.3) for _ in range(n)])
        ws = np.array(rng.sample(range(p), rng.randrange(1, p + 1)), dtype=np.int64)
        max_ep = gen.pick(rng, [1, 2, 5, 11, 12])
        tol_in = gen.pick(rng, [0.0, 1e-3, 0.3])
        w1, Xw1, z1, zb1 = w0.copy(), Xw0.copy(), z0.copy(), zb0.copy()
        r = call(PDCD_WS._solve_subproblem, y, X, w1, Xw1, z1, zb1, dobj, pobj, tau, sigma, ws, max_ep, tol_in)
        lines.append(f"pdcd_sub {dtok} {n} {p} {mat(X)} {_v(y)} {pen.tokens()} {_v(wts)} {_v(tau)} {fb(sigma)} "
                     f"{_v(w0)} {_v(Xw0)} {_v(z0)} {_v(zb0)} {ivec(ws)} {max_ep} {fb(tol_in)}")
        metas.append((r, w1, Xw1, z1, zb1, X, w0, pen, dict(datafit=dtok.split()[0], X=X.tolist(), y=y.tolist(), penalty=pen.describe(),
                                                          weights=wts, w=w0.tolist(), z=z0.tolist(), z_bar=zb0.tolist(),
                                                          ws=ws.tolist(), max_epochs=max_ep, tol_in=tol_in)))
    outs = lean.drive(lines)
    for line, out, (r, w1, Xw1, z1, zb1, X, w0, pen, inp) in zip(lines, outs, metas):
        m = decode(out)
        if isinstance(r, str):
            rep.violate(f"PDCD_WS._solve_subproblem raises {r}", dict(site="PDCD_WS._solve_subproblem", kind="raises"), input=inp,
                        impl_output=r)
            continue
        i = [float(t) for t in w1] + [float(t) for t in Xw1] + [float(t) for t in z1] + [float(t) for t in zb1]
        moved = bool(np.any(w1 != w0))
        rep.count(f"pdcd:{inp['datafit']}:{pen.kind}{'+' if pen.positive else ''}:{'moved' if moved else 'still'}", not moved,
                  ("pdcd", hash(line)))
        # an early exit decided by a near-tie of the inner criterion may go either way: compare when the state agrees or
        # the tolerance is not within rounding of the criterion
        if not same(i, m[:len(i)], 1e-7, 1e-9):
            rep.disagree("K:pdcd-subproblem", line[:300], i, m[:len(i)], dict(site="PDCD_WS._solve_subproblem"), input=inp)
        if not np.allclose(X @ w1, Xw1, rtol=1e-9, atol=1e-9):
            rep.violate("PDCD_WS: after the epochs the buffer Xw is not X w", dict(site="PDCD_WS._solve_subproblem", kind="buffer"),
                        input=inp, impl_output=dict(w=w1.tolist(), Xw=Xw1.tolist()), oracle=dict(Xw=(X @ w1).tolist()))
        if (pen.positive or pen.kind in ("pos", "box")) and (np.any(w1 < 0) or (pen.kind == "box" and np.any(w1 > 1.0))):
            rep.violate("PDCD_WS: the primal iterate leaves the feasible set", dict(site="PDCD_WS._solve_subproblem", kind="infeasible"),
                        input=inp, impl_output=dict(w=w1.tolist()))
        if not np.all(np.isfinite(i)):
            rep.violate("PDCD_WS: non-finite state after the epochs", dict(site="PDCD_WS._solve_subproblem", kind="nonfinite"),
                        input=inp, impl_output=dict(w=w1.tolist()))


def run_pdcd_solve(ctx, rep, n_cases=None):
    """whole `PDCD_WS.solve` runs, cold and from user-supplied starts (also non-zero on all-zero columns), on designs with
    and without null columns: a reported convergence from a warm start must reach the objective of the converged cold
    start (convex problems), and the returned numbers are finite"""
    from skglm.experimental.pdcd_ws import PDCD_WS
    from skglm.experimental.sqrt_lasso import SqrtQuadratic
    from skglm.experimental.quantile_regression import Pinball
    rng = ctx.rng
    n_cases = n_cases or ctx.n(16, 160)
    for _ in range(n_cases):
        n, p = rng.randrange(6, 14), rng.randrange(2, 7)
        X = np.asfortranarray(gen_matrix(rng, n, p, gen.pick(rng, ["gauss", "degenerate", "degenerate"])))
        y = X @ np.array([rng.choice([0.0, 1.0, -2.0]) for _ in range(p)]) + np.array([rng.gauss(0, 1) for _ in range(n)])
        if rng.random() < 0.5:
            dname, mk = "SqrtQuadratic", (lambda: compiled(SqrtQuadratic()))
            loss = lambda w: float(np.linalg.norm(y - X @ w))                      # noqa: E731
        else:
            q = gen.pick(rng, [0.3, 0.5, 0.7])
            dname, mk = "Pinball", (lambda q=q: compiled(Pinball(q)))
            loss = lambda w, q=q: float(np.sum(np.where(y - X @ w >= 0, q, q - 1) * (y - X @ w)))   # noqa: E731
        alpha = gen.pick(rng, [0.1, 0.5, 1.0])
        pobj = compiled_pen(Pen("l1", alpha))

        def F(w):
            return loss(w) + alpha * float(np.sum(np.abs(w)))
        w0 = np.array([rng.choice([0.0, 0.0, 1.0, -2.0, 3.0]) for _ in range(p)])
        outs = {}
        for start in ("cold", "warm"):
            wi = None if start == "cold" else w0.copy()
            Xwi = None if start == "cold" else X @ w0
            r = call(lambda: PDCD_WS(tol=1e-7, max_iter=200, max_epochs=5000).solve(X, y, mk(), pobj, wi, Xwi))
            outs[start] = r
        inp = dict(datafit=dname, X=X.tolist(), y=y.tolist(), alpha=alpha, w_init=w0.tolist())
        rep.count(f"pdcd-solve:{dname}:p={p}", False, ("pdcdsolve", hash(X.tobytes()), dname))
        bad = [k for k, r in outs.items() if isinstance(r, str)]
        if bad:
            rep.violate(f"PDCD_WS.solve raises from a {bad[0]} start: {outs[bad[0]]}", dict(site="PDCD_WS.solve", kind="raises"),
                        input=inp, impl_output=outs[bad[0]])
            continue
        (wc, _, sc), (ww, _, sw_) = outs["cold"], outs["warm"]
        if not (np.all(np.isfinite(wc)) and np.all(np.isfinite(ww))):
            rep.violate("PDCD_WS.solve returns non-finite coefficients", dict(site="PDCD_WS.solve", kind="nonfinite"), input=inp,
                        impl_output=dict(cold=np.asarray(wc).tolist(), warm=np.asarray(ww).tolist()))
            continue
        if sc <= 1e-7 and sw_ <= 1e-7 and F(ww) > F(wc) + 1e-5 * (1 + abs(F(wc))):
            rep.violate("PDCD_WS started from user-supplied coefficients reports convergence at a point whose objective is "
                        "above the converged cold start's", dict(site="PDCD_WS.solve", solver="PDCD_WS", kind="warm-start-not-optimal"),
                        input=inp, impl_output=dict(warm=np.asarray(ww).tolist(), stop_crit=float(sw_)),
                        oracle=dict(objective_warm=F(ww), objective_cold=F(wc)))
