"""C01 - reported convergence is a valid first-order optimality certificate.

Level S correspondence: every transition of real AndersonCD runs (hook events) against the Lean
moves; oracle: the optimality violation recomputed from X, y and the returned (w, b) alone."""
from .solver_common import run_parallel, run_bbox

LEAN_MODULES = ["Skglm.Properties.C01", "Skglm.Properties.BCD", "Skglm.Properties.ProxNewton", "Skglm.Properties.ProxNewtonDir", "Skglm.Properties.MultiTask", "Skglm.Properties.GramCD", "Skglm.Properties.LBFGS", "Skglm.Properties.PDCD", "Skglm.Properties.Anderson"]


def run(ctx, rep):
    rep.rule = ("AndersonCD on 16 datafit x penalty compositions, n<=12, p<=10, dense and CSC, intercept on/off, "
                "both working-set strategies, p0 in {1,2,10}, budgets max_iter in {0..50} x max_epochs in {1..14,30,200} "
                "(ending before / at / after the 6-call extrapolation period), tol in {1e-1..1e-10}, cold and warm "
                "starts; every hook event is one checked transition; a run is non-trivial when at least one outer "
                "iteration was performed; distinct by generated case")
    run_parallel(ctx, rep, oracles=["cert", "buffer", "feasible"])
    run_bbox(ctx, rep, oracles=["cert", "feasible"])
    from . import moves_common
    moves_common.run_bcd_moves(ctx, rep, ctx.n(25, 300))
    moves_common.run_pn_linesearch(ctx, rep, ctx.n(25, 300))
    moves_common.run_pn_direction(ctx, rep, ctx.n(20, 300))
    moves_common.run_mt_moves(ctx, rep, ctx.n(20, 300))
    moves_common.run_gram_moves(ctx, rep, ctx.n(30, 300))
    moves_common.run_lbfgs(ctx, rep)
    moves_common.run_pdcd(ctx, rep, ctx.n(25, 300))


def replay(ctx, payload):
    print(payload)
    return 0
