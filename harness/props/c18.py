"""C18 - fitting is pure: inputs untouched, no state leaks between fits."""
from . import est_common

LEAN_MODULES = ["Skglm.Properties.C18"]


def run(ctx, rep):
    rep.rule = ("histories of 2-5 fits of different estimators sharing datafit / penalty classes in one process; "
                "byte-equality of X, y, weights before/after; refit of the same object; last fit compared with a fresh "
                "object; IterativeReweightedL1 fitted twice")
    est_common.run_cache(ctx, rep)
    est_common.run_purity(ctx, rep)
    est_common.run_reweighted(ctx, rep)
    est_common.run_solver_state(ctx, rep)


def replay(ctx, payload):
    print(payload)
    return 0
