"""C11 - each ready-made estimator minimises exactly its documented objective."""
from . import est_common

LEAN_MODULES = ["Skglm.Properties.C11", "Skglm.Properties.C11b"]


def run(ctx, rep):
    rep.rule = ("all ten estimators over their constructor-argument grids (alpha, l1_ratio, C, gamma, weights incl. zero "
                "weights, groups as int / sizes / index lists, positive, fit_intercept, method) on small data; the fitted "
                "coef_/intercept_ must be stationary for the objective transcribed from the docstring; LinearSVC: dual "
                "feasibility, dual stationarity and the primal image; one fit = one evaluation")
    est_common.run_doc_objectives(ctx, rep)
    est_common.run_plumbing(ctx, rep)
    est_common.run_grp_converter(ctx, rep)


def replay(ctx, payload):
    print(payload)
    return 0
