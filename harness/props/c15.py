"""C15 - solutions transform correctly under symmetries of the problem.

Lean: objective / step equivariance under feature and sample permutations, duplication, scaling of (y, alpha)
and feature rescaling (`Skglm/Properties/C15.lean`).  Harness: converged solutions of transformed vs original
problems through AndersonCD, GroupBCD, MultiTaskBCD and ProxNewton."""
import copy

import numpy as np

from .. import bbox, solvers
from ..impl import Pen, Dfit, gen_matrix
from ..blocks import Blk, group_layout

LEAN_MODULES = ["Skglm.Properties.C15"]


def solve(case):
    r = bbox.run_case(case)
    if r["err"] is not None:
        return None, r["err"]
    w, obj, stop = r["out"]
    if not stop <= case.knobs["tol"]:
        return None, f"not-converged:{float(np.max(stop))!r}"
    return np.asarray(w, float), None


def check(rep, name, case, w_ref, case2, back, tol=2e-5):
    """solve the transformed case, map its solution back, compare with the original solution"""
    w2, e2 = solve(case2)
    rep.count(f"{name}:{case.solver}", w2 is None, (name, id(case)))
    if w2 is None:
        if e2.startswith("not-converged"):
            # the original problem was solved to 1e-10 with the same (generous) budget: a symmetric copy of it that
            # stays far from convergence is not "the same problem" for the solver
            stop2 = float(e2.split(":", 1)[1])
            if not stop2 <= 1e-5:
                rep.violate(f"{case.solver} solves a problem but not its transform ({name}) with the same budget "
                            f"(stopping value {stop2:.2e} against tol {case.knobs['tol']:.0e})",
                            dict(case.signature(site=f"{case.solver}.solve"), kind="symmetry-unsolved", transform=name),
                            case=case2.describe(), oracle=dict(original=w_ref.tolist()))
        else:
            rep.violate(f"{case.solver} fails on the transformed problem ({name}): {e2[:100]}",
                        dict(case.signature(site=f"{case.solver}.solve"), kind="raises", transform=name), case=case2.describe())
        return
    wb = back(w2)
    scale = 1 + float(np.max(np.abs(w_ref))) if w_ref.size else 1.0
    if wb.shape != w_ref.shape or not np.all(np.abs(wb - w_ref) <= tol * scale):
        f1, f2 = case.objective(w_ref), case.objective(wb)
        if abs(f1 - f2) > 1e-7 * (1 + abs(f1)):         # non-unique minimisers may differ; objectives may not
            rep.violate(f"{case.solver}: the solution of the transformed problem ({name}) is not the transform of the solution",
                        dict(case.signature(site=f"{case.solver}.solve"), kind="symmetry", transform=name),
                        case=case.describe(), impl_output=dict(original=w_ref.tolist(), mapped_back=wb.tolist()),
                        oracle=dict(obj_original=f1, obj_mapped_back=f2))


def run(ctx, rep):
    rng = ctx.rng
    rep.rule = ("converged (tol 1e-10) convex problems through AndersonCD / ProxNewton (separable), GroupBCD (groups as "
                "arbitrary index lists) and MultiTaskBCD; transformations: feature permutation (with weights / group "
                "membership), group permutation, task permutation, sample permutation, stacking k times, scaling (y, alpha) "
                "by c, rescaling a feature with its weight; one transformed solve = one case")
    for _ in range(ctx.n(48, 500)):
        fam = rng.choice(["sep", "sep", "group", "group", "group", "mtl"])
        n, p = rng.randrange(8, 16), rng.randrange(2, 8)
        X = gen_matrix(rng, n, p, "gauss")
        fi = rng.random() < 0.5
        tol = 1e-10
        if fam == "sep":
            solver = rng.choice(["AndersonCD", "AndersonCD", "ProxNewton"])
            dk = rng.choice(["quadratic", "logistic"]) if solver == "ProxNewton" else rng.choice(["quadratic", "huber", "logistic"])
            df = Dfit("huber", 1.35) if dk == "huber" else Dfit(dk)
            y = df.gen_y(rng, n, structured=False)
            kind = rng.choice(["l1", "wl1", "l1l2"])
            pen = Pen(kind, rng.choice([0.02, 0.1]), l1_ratio=0.6 if kind == "l1l2" else None, positive=rng.random() < 0.3)
            wts = np.array([rng.choice([0.5, 1.0, 2.0]) for _ in range(p)]) if kind == "wl1" else np.ones(p)
            knobs = dict(tol=tol, fit_intercept=fi, max_iter=200)
            knobs.update(dict(max_epochs=20000, p0=2) if solver == "AndersonCD" else dict(max_pn_iter=500))
            case = bbox.BBCase(solver, "sep", df, pen, X, y, knobs, wts=wts)
        elif fam == "group":
            solver = "GroupBCD"
            groups, gp, gi = group_layout(rng, p)
            y = np.array([rng.gauss(0, 1) for _ in range(n)])
            if rng.random() < 0.4:       # all-zero / duplicated columns inside groups, in any storage position
                X = gen_matrix(rng, n, p, rng.choice(["degenerate", "sparse"]))
            gk = rng.choice(["wgl2", "wgl2", "wl1gl2"])
            gpen = Blk(gk, rng.choice([0.02, 0.1]), positive=gk == "wgl2" and rng.random() < 0.4)
            case = bbox.BBCase(solver, "group", Dfit("quadratic"), gpen,
                               X, y, dict(tol=tol, fit_intercept=fi, max_iter=500, max_epochs=5000), groups=groups,
                               wgs=np.array([rng.choice([0.5, 1.0, 2.0]) for _ in groups]),
                               wfs=np.array([rng.choice([0.0, 0.5, 1.0, 2.0]) for _ in range(p)]) if gk == "wl1gl2" else None)
        else:
            solver = "MultiTaskBCD"
            T = rng.randrange(2, 4)
            Y = np.array([[rng.gauss(0, 1) for _ in range(T)] for _ in range(n)])
            case = bbox.BBCase(solver, "mtl", Dfit("quadratic"), Blk("l21", rng.choice([0.02, 0.1])), X, Y,
                               dict(tol=tol, fit_intercept=fi, max_iter=300, max_epochs=20000))
        w_ref, e = solve(case)
        if w_ref is None:
            if fam == "group" and e.startswith("not-converged") and float(e.split(":", 1)[1]) > 1e-5:
                # the problem as given is not solved within the budget: then no storage-level rearrangement of it
                # may be solved either (same problem, same budget)
                alts = []
                c9 = copy.copy(case)
                c9.groups = [list(reversed(g)) for g in case.groups]
                alts.append(("reorder-within-groups", c9))
                gpm = list(range(len(case.groups)))
                rng.shuffle(gpm)
                c5 = copy.copy(case)
                c5.groups = [case.groups[g] for g in gpm]
                c5.wgs = case.wgs[gpm]
                alts.append(("permute-groups", c5))
                for name, alt in alts:
                    w_alt, e_alt = solve(alt)
                    rep.count(f"{name}:unsolved-original", False, (name, id(case)))
                    if w_alt is not None:
                        rep.violate(f"GroupBCD does not solve a problem within a generous budget (stopping value "
                                    f"{float(e.split(':', 1)[1]):.2e}) but solves its rearrangement ({name}) to 1e-10",
                                    dict(case.signature(site="GroupBCD.solve"), kind="symmetry-unsolved", transform=name),
                                    case=case.describe(), oracle=dict(rearranged_groups=alt.groups, solution=w_alt.tolist()))
            continue
        nint = 1 if fi else 0
        # ---- feature permutation (weights / group membership follow)
        perm = list(range(p))
        rng.shuffle(perm)
        perm = np.array(perm)
        c2 = copy.copy(case)
        c2.X = np.asfortranarray(case.X[:, perm])
        if fam == "sep":
            c2.wts = case.wts[perm]
        if fam == "group":
            inv = np.argsort(perm)
            c2.groups = [[int(inv[j]) for j in g] for g in case.groups]
            if case.wfs is not None:
                c2.wfs = np.asarray(case.wfs)[perm]

        def back_feat(w2, perm=perm):
            out = np.array(w2, copy=True)
            out[perm] = w2[:p]
            if nint:
                out = np.concatenate([out[:p], w2[p:]]) if w2.ndim == 1 else np.vstack([out[:p], w2[p:]])
            return out
        check(rep, "permute-features", case, w_ref, c2, back_feat)
        # ---- sample permutation
        sp = np.array(rng.sample(range(n), n))
        c3 = copy.copy(case)
        c3.X = np.asfortranarray(case.X[sp])
        c3.y = case.y[sp]
        check(rep, "permute-samples", case, w_ref, c3, lambda w2: w2)
        # ---- stacking k times
        k = rng.choice([2, 3])
        c4 = copy.copy(case)
        c4.X = np.asfortranarray(np.vstack([case.X] * k))
        c4.y = np.concatenate([case.y] * k) if case.y.ndim == 1 else np.vstack([case.y] * k)
        c4.sw = np.ones(n * k)
        check(rep, f"stack-{k}", case, w_ref, c4, lambda w2: w2)
        if fam == "group":
            gpm = list(range(len(case.groups)))
            rng.shuffle(gpm)
            c5 = copy.copy(case)
            c5.groups = [case.groups[g] for g in gpm]
            c5.wgs = case.wgs[gpm]
            check(rep, "permute-groups", case, w_ref, c5, lambda w2: w2)
            # the order in which a group lists its features is storage, not problem data
            c9 = copy.copy(case)
            c9.groups = [list(reversed(g)) if rng.random() < 0.7 else rng.sample(g, len(g)) for g in case.groups]
            check(rep, "reorder-within-groups", case, w_ref, c9, lambda w2: w2)
        if fam == "mtl":
            tp = np.array(rng.sample(range(case.y.shape[1]), case.y.shape[1]))
            c6 = copy.copy(case)
            c6.y = case.y[:, tp]
            check(rep, "permute-tasks", case, w_ref, c6, lambda w2, tp=tp: w2[:, np.argsort(tp)])
        if fam == "sep" and case.df.kind == "quadratic" and case.pen.kind in ("l1", "wl1"):
            c = rng.choice([0.5, 3.0])
            c7 = copy.copy(case)
            c7.y = c * case.y
            c7.pen = copy.copy(case.pen)
            c7.pen.alpha = c * case.pen.alpha
            check(rep, "scale-y-alpha", case, w_ref, c7, lambda w2, c=c: w2 / c)
        if fam == "sep" and case.pen.kind == "wl1" and case.df.kind == "quadratic":
            j, c = rng.randrange(p), rng.choice([0.5, 4.0])
            c8 = copy.copy(case)
            c8.X = np.asfortranarray(case.X.copy())
            c8.X[:, j] *= c
            c8.wts = case.wts.copy()
            c8.wts[j] *= c

            def back_rs(w2, j=j, c=c):
                out = np.array(w2, copy=True)
                out[j] *= c
                return out
            check(rep, "rescale-feature", case, w_ref, c8, back_rs)
    from . import moves_common
    moves_common.run_kernel_symmetries(ctx, rep)
    rep.sample(dict(transforms=sorted(rep.hist)))


def replay(ctx, payload):
    print(payload)
    return 0
