"""C06 (continued): Cox (Breslow / Efron, ties, censoring), group, multitask and experimental datafits
against documented formulas (doc/tutorials/cox_datafit.rst, class docstrings), finite differences and
dense-vs-CSC agreement.  These accessors are not in the Lean model yet: oracle level only."""
import math

import numpy as np

from .. import gen
from ..impl import compiled, call, gen_matrix, to_csc
from ..blocks import group_layout


def fd_vec(f, x, h=1e-6):
    g = np.zeros_like(x, dtype=float)
    for i in range(x.size):
        e = np.zeros_like(x, dtype=float)
        e.flat[i] = h
        g.flat[i] = (f(x + e) - f(x - e)) / (2 * h)
    return g


def near(a, b, rtol=2e-5, atol=2e-6):
    a, b = np.asarray(a, float), np.asarray(b, float)
    return a.shape == b.shape and bool(np.all(np.abs(a - b) <= atol + rtol * np.maximum(np.abs(a), np.abs(b))))


def cox_ref(tm, s, u, efron):
    """negative partial log-likelihood / n, Breslow or Efron (doc/tutorials/cox_datafit.rst)"""
    n = len(u)
    e = np.exp(u)
    tot = 0.0
    if not efron:
        for i in range(n):
            if s[i]:
                tot += -u[i] + math.log(np.sum(e[tm >= tm[i]]))
        return tot / n
    for t in np.unique(tm[s != 0]):
        H = np.where((tm == t) & (s != 0))[0]
        risk = np.sum(e[tm >= t])
        tie = np.sum(e[H])
        tot += -np.sum(u[H])
        for k in range(len(H)):
            tot += math.log(risk - k / len(H) * tie)
    return tot / n


def run_cox(ctx, rep):
    from skglm.datafits import Cox
    rng = ctx.rng
    for _ in range(ctx.n(40, 600)):
        n, p = rng.randrange(2, 9), rng.randrange(1, 5)
        X = gen_matrix(rng, n, p, rng.choice(["gauss", "dyadic", "sparse"])) * 0.5
        tm = np.array([float(rng.choice([1, 2, 2, 3, 3, 3, 4, 5.5, 7])) for _ in range(n)])   # many ties
        scale = rng.choice(["unit", "unit", "unit", "timestamps", "close"])
        if scale == "timestamps":          # same tie pattern on a time axis where distinct times are relatively close
            tm = 1.7e9 + tm
        elif scale == "close":
            tm = 1.0 + tm * 1e-6
        s = np.array([float(rng.random() < 0.7) for _ in range(n)])
        if rng.random() < 0.15:
            s[:] = 1.0
        efron = rng.random() < 0.5
        y = np.column_stack([tm, s])
        w = np.array([rng.choice([0.0, 0.5, -0.5, 1.0]) for _ in range(p)])
        u = X @ w
        obj = compiled(Cox(use_efron=efron))
        Xs = to_csc(X, rng, explicit_zeros=True)
        inp = dict(datafit=dict(kind="cox", use_efron=efron), X=X.tolist(), tm=tm.tolist(), s=s.tolist(), w=w.tolist())
        sig = dict(site="Cox", use_efron=efron)
        r = call(obj.initialize, X, y)
        if isinstance(r, str):
            rep.violate(f"Cox.initialize fails: {r}", dict(sig, site="Cox.initialize"), input=inp)
            continue
        rep.count(f"cox:{'efron' if efron else 'breslow'}", not np.any(s), ("cox", tuple(tm), tuple(s), tuple(w), efron))
        if not np.any(s):
            continue
        val = call(obj.value, y, w, u)
        want = cox_ref(tm, s, u, efron)
        if isinstance(val, str) or not near(val, want, 1e-9, 1e-12):
            rep.violate("Cox.value differs from the documented negative partial log-likelihood",
                        dict(sig, site="Cox.value"), input=inp, impl_output=str(val), oracle=dict(value=want))
        rg = call(obj.raw_grad, y, u)
        rfd = fd_vec(lambda uu: cox_ref(tm, s, uu, efron), u)
        if isinstance(rg, str) or not near(rg, rfd):
            rep.violate("Cox.raw_grad is not the gradient of the documented loss w.r.t. the linear predictor",
                        dict(sig, site="Cox.raw_grad"), input=inp, impl_output=canon_(rg), oracle=dict(value=rfd.tolist()))
        g = call(obj.gradient, X, y, u)
        gfd = fd_vec(lambda ww: cox_ref(tm, s, X @ ww, efron), w)
        if isinstance(g, str) or not near(g, gfd):
            rep.violate("Cox.gradient is not the gradient of the documented loss", dict(sig, site="Cox.gradient"),
                        input=inp, impl_output=canon_(g), oracle=dict(value=gfd.tolist()))
        r2 = call(obj.initialize_sparse, Xs.data, Xs.indptr, Xs.indices, y)
        gs = call(obj.gradient_sparse, Xs.data, Xs.indptr, Xs.indices, y, u)
        if isinstance(gs, str) or isinstance(g, str) or not near(gs, g, 1e-9, 1e-11):
            rep.violate("Cox.gradient_sparse differs from the dense gradient", dict(sig, site="Cox.gradient_sparse"),
                        input=inp, impl_output=canon_(gs), oracle=dict(dense=canon_(g)))


def canon_(v):
    return v if isinstance(v, str) else np.asarray(v, float).tolist()


def run_group(ctx, rep):
    from skglm.datafits import QuadraticGroup, LogisticGroup
    rng = ctx.rng
    for _ in range(ctx.n(40, 500)):
        n, p = rng.randrange(2, 9), rng.randrange(1, 8)
        X = gen_matrix(rng, n, p)
        groups, gp, gi = group_layout(rng, p)
        logistic = rng.random() < 0.5
        y = np.array([rng.choice([-1.0, 1.0]) for _ in range(n)]) if logistic else np.array(
            [rng.gauss(0, 1) for _ in range(n)])
        w = np.array([rng.choice([0.0, 0.5, -1.0, 0.25]) for _ in range(p)])
        b = rng.choice([0.0, 0.5])
        u = X @ w + b
        cls = LogisticGroup if logistic else QuadraticGroup
        obj = compiled(cls(gp, gi))
        name = cls.__name__
        inp = dict(datafit=name, X=X.tolist(), y=y.tolist(), w=w.tolist(), b=b, groups=groups)

        def ref(uu):
            if logistic:
                return float(np.sum(np.logaddexp(0, -y * uu)) / n)
            return float(np.sum((y - uu) ** 2) / (2 * n))
        if hasattr(obj, "initialize"):
            call(obj.initialize, X, y)
        rep.count(f"group:{name}", False, ("grp", name, tuple(w), tuple(map(tuple, groups)), hash(X.tobytes())))
        val = call(obj.value, y, w, u)
        if isinstance(val, str) or not near(val, ref(u), 1e-9, 1e-12):
            rep.violate(f"{name}.value differs from the documented formula", dict(site=f"{name}.value"), input=inp,
                        impl_output=str(val), oracle=dict(value=ref(u)))
        gfd = fd_vec(lambda ww: ref(X @ ww + b), w)
        Xs = to_csc(X, rng, explicit_zeros=True)
        for g, idx in enumerate(groups):
            gg = call(obj.gradient_g, X, y, w, u, g)
            if isinstance(gg, str) or not near(gg, gfd[idx]):
                rep.violate(f"{name}.gradient_g is not the gradient of the documented loss restricted to the group "
                            "(features of the group, in the group's order)", dict(site=f"{name}.gradient_g"),
                            input=dict(inp, g=g), impl_output=canon_(gg), oracle=dict(value=gfd[idx].tolist()))
            if hasattr(obj, "gradient_g_sparse"):
                gs = call(obj.gradient_g_sparse, Xs.data, Xs.indptr, Xs.indices, y, w, u, g)
                if isinstance(gs, str) or isinstance(gg, str) or not near(gs, gg, 1e-9, 1e-11):
                    rep.violate(f"{name}.gradient_g_sparse differs from the dense accessor",
                                dict(site=f"{name}.gradient_g_sparse"), input=dict(inp, g=g), impl_output=canon_(gs),
                                oracle=dict(dense=canon_(gg)))
        st = call(obj.intercept_update_step, y, u)
        dfb = (ref(u + 1e-6) - ref(u - 1e-6)) / 2e-6
        want = (4.0 if logistic else 1.0) * dfb
        if isinstance(st, str) or not near(st, want):
            rep.violate(f"{name}.intercept_update_step is not (1/L_0) x the intercept derivative",
                        dict(site=f"{name}.intercept_update_step"), input=inp, impl_output=str(st), oracle=dict(value=want))


def run_multitask(ctx, rep):
    from skglm.datafits import QuadraticMultiTask
    rng = ctx.rng
    for _ in range(ctx.n(40, 500)):
        n, p, T = rng.randrange(2, 8), rng.randrange(1, 6), rng.randrange(1, 4)
        X = gen_matrix(rng, n, p)
        Y = np.asfortranarray(np.array([[rng.gauss(0, 1) for _ in range(T)] for _ in range(n)]))
        W = np.array([[rng.choice([0.0, 0.5, -1.0]) for _ in range(T)] for _ in range(p)])
        b = np.array([rng.choice([0.0, 0.5]) for _ in range(T)])
        XW = np.asfortranarray(X @ W + b)
        obj = compiled(QuadraticMultiTask())
        inp = dict(datafit="QuadraticMultiTask", X=X.tolist(), Y=Y.tolist(), W=W.tolist(), b=b.tolist())
        call(obj.initialize, X, Y)

        def ref(WW, bb=b):
            return float(np.sum((Y - X @ WW - bb) ** 2) / (2 * n))
        rep.count("multitask", False, ("mtl", hash(X.tobytes()), hash(W.tobytes())))
        val = call(obj.value, Y, W, XW)
        if isinstance(val, str) or not near(val, ref(W), 1e-9, 1e-12):
            rep.violate("QuadraticMultiTask.value differs from the documented formula",
                        dict(site="QuadraticMultiTask.value"), input=inp, impl_output=str(val), oracle=dict(value=ref(W)))
        G = fd_vec(ref, W)
        Xs = to_csc(X, rng, explicit_zeros=True)
        call(obj.initialize_sparse, Xs.data, Xs.indptr, Xs.indices, Y)
        fg = call(obj.full_grad_sparse, Xs.data, Xs.indptr, Xs.indices, Y, XW)
        if isinstance(fg, str) or not near(fg, G):
            rep.violate("QuadraticMultiTask.full_grad_sparse is not the gradient of the documented loss",
                        dict(site="QuadraticMultiTask.full_grad_sparse"), input=inp, impl_output=canon_(fg),
                        oracle=dict(value=G.tolist()))
        call(obj.initialize, X, Y)
        for j in range(p):
            gj = call(obj.gradient_j, X, Y, W, XW, j)
            if isinstance(gj, str) or not near(gj, G[j]):
                rep.violate("QuadraticMultiTask.gradient_j is not the row-j gradient of the documented loss",
                            dict(site="QuadraticMultiTask.gradient_j"), input=dict(inp, j=j), impl_output=canon_(gj),
                            oracle=dict(value=G[j].tolist()))
            gs = call(obj.gradient_j_sparse, Xs.data, Xs.indptr, Xs.indices, Y, XW, j)
            if isinstance(gs, str) or isinstance(gj, str) or not near(gs, gj, 1e-9, 1e-11):
                rep.violate("QuadraticMultiTask.gradient_j_sparse differs from the dense accessor",
                            dict(site="QuadraticMultiTask.gradient_j_sparse"), input=dict(inp, j=j),
                            impl_output=canon_(gs), oracle=dict(dense=canon_(gj)))
        st = call(obj.intercept_update_step, Y, XW)
        want = fd_vec(lambda bb: ref(W, bb), b)
        if isinstance(st, str) or not near(st, want):
            rep.violate("QuadraticMultiTask.intercept_update_step is not the intercept gradient",
                        dict(site="QuadraticMultiTask.intercept_update_step"), input=inp, impl_output=canon_(st),
                        oracle=dict(value=want.tolist()))


def run_experimental(ctx, rep):
    from skglm.experimental.sqrt_lasso import SqrtQuadratic
    from skglm.experimental.quantile_regression import Pinball
    rng = ctx.rng
    for _ in range(ctx.n(40, 400)):
        n = rng.randrange(1, 9)
        y = np.array([rng.choice([-1.0, 0.0, 0.5, 2.0, 3.0]) for _ in range(n)])
        u = np.array([rng.choice([-1.0, 0.0, 0.5, 1.0, 2.5]) for _ in range(n)])
        w = np.zeros(1)
        sq = compiled(SqrtQuadratic())
        val = call(sq.value, y, w, u)
        want = float(np.sqrt(np.sum((y - u) ** 2)))
        rep.count("sqrt-quadratic", False, ("sq", tuple(y), tuple(u)))
        if isinstance(val, str) or not near(val, want, 1e-9, 1e-12):
            rep.violate("SqrtQuadratic.value differs from ||y - Xw||_2", dict(site="SqrtQuadratic.value"),
                        input=dict(y=y.tolist(), Xw=u.tolist()), impl_output=str(val), oracle=dict(value=want))
        if want >= 1e-2 * np.linalg.norm(y) and want > 1e-3:
            rg = call(sq.raw_grad, y, u)
            rfd = fd_vec(lambda uu: float(np.sqrt(np.sum((y - uu) ** 2))), u)
            if isinstance(rg, str) or not near(rg, rfd):
                rep.violate("SqrtQuadratic.raw_grad is not the gradient of ||y - .||_2",
                            dict(site="SqrtQuadratic.raw_grad"), input=dict(y=y.tolist(), Xw=u.tolist()),
                            impl_output=canon_(rg), oracle=dict(value=rfd.tolist()))
        q = rng.choice([0.1, 0.3, 0.5, 0.7, 0.9])
        pb = compiled(Pinball(q))
        val = call(pb.value, y, w, u)
        r = y - u
        want = float(np.sum(q * np.maximum(r, 0) + (1 - q) * np.maximum(-r, 0)))
        rep.count("pinball", False, ("pb", q, tuple(y), tuple(u)))
        if isinstance(val, str) or not near(val, want, 1e-9, 1e-12):
            rep.violate("Pinball.value differs from the documented formula", dict(site="Pinball.value"),
                        input=dict(q=q, y=y.tolist(), Xw=u.tolist()), impl_output=str(val), oracle=dict(value=want))
        # prox of step * pinball(y - .): minimiser of 0.5 (v - x)^2 + step * pinball_i, checked on a grid
        x = np.array([rng.choice([-2.0, -0.5, 0.0, 0.5, 1.0, 3.0]) for _ in range(n)])
        step = rng.choice([0.25, 0.5, 1.0, 2.0])
        pr = call(pb.prox, x, step, y)
        if isinstance(pr, str):
            rep.violate(f"Pinball.prox raises {pr}", dict(site="Pinball.prox"), input=dict(q=q))
            continue
        for i in range(n):
            def obj1(v):
                ri = y[i] - v
                return 0.5 * (v - x[i]) ** 2 + step * (q * max(ri, 0) + (1 - q) * max(-ri, 0))
            grid = np.linspace(min(x[i], y[i]) - step - 1, max(x[i], y[i]) + step + 1, 2001)
            best = min(obj1(v) for v in list(grid) + [y[i], x[i]])
            if not obj1(pr[i]) <= best + 1e-9 * (1 + abs(best)):
                rep.violate("Pinball.prox does not minimise the prox objective", dict(site="Pinball.prox"),
                            input=dict(q=q, x=float(x[i]), y=float(y[i]), step=step), impl_output=float(pr[i]),
                            oracle=dict(better=best, got=obj1(pr[i])))
                break


def run_all(ctx, rep):
    run_cox(ctx, rep)
    run_group(ctx, rep)
    run_multitask(ctx, rep)
    run_experimental(ctx, rep)
