"""C08 - the optimality measure is sound: zero exactly at stationary points.

Correspondence (K): subdiff_distance / generalized_support / is_penalized / value of the real compiled
separable penalties vs the Lean model (`sd1`, `gsupp1`, `isPen1`, `penvalue`).
Oracle: distance from -grad to the interval of one-sided slopes of the *documented* penalty
(numerically sampled regular sub-differential), inf at infeasible points; prox fixed points have
score zero and (convex penalties) zero score gives a prox fixed point."""
import math

import numpy as np

from .. import gen, lean
from ..impl import Pen, compiled_pen, call
from ..proto import fb, vec, decode, same, canon
from .c07 import pens

LEAN_MODULES = ["Skglm.Properties.C08"]
CONVEX = ("l1", "l1l2", "wl1", "box", "pos")


def slopes(pen, wt, w):
    """(left, right) one-sided slopes of the documented penalty at w; None if w infeasible"""
    f0 = pen.ref_pen1(w, wt)
    if math.isinf(f0):
        return None
    out = []
    for sgn in (-1, 1):
        vals = []
        for h in (1e-6, 1e-9):
            f1 = pen.ref_pen1(w + sgn * h, wt)
            vals.append(math.inf * sgn if math.isinf(f1) else (f1 - f0) / (sgn * h))
        a, b = vals
        if math.isinf(a) or math.isinf(b):
            out.append(-math.inf if sgn < 0 else math.inf)
        elif abs(b) > 10 * max(abs(a), 1e-3):     # slope blows up as h -> 0 : infinite
            out.append(math.copysign(math.inf, b))
        else:
            out.append(b if abs(w) > 1e-3 or pen.kind not in ("l05", "l23") else b)
    return out[0], out[1]


def dist_interval(x, lo, hi):
    if lo > hi + 1e-6:
        return None   # (cannot happen for these penalties)
    return max(0.0, lo - x, x - hi)


def points(rng, pen):
    a = pen.alpha or 1.0
    g = pen.gamma or 1.0
    special = [0.0, a, -a, a * g, -a * g, 0.5 * a, -0.5 * a, 2 * a * g, -2 * a * g]
    c = rng.random()
    if c < 0.5:
        return gen.pick(rng, special)
    if c < 0.8:
        return gen.pick(rng, gen.grid8(24))
    return gen.real(rng, 10 ** rng.uniform(-1, 1))


def run(ctx, rep):
    rng = ctx.rng
    rep.rule = ("score / support / value kernels of the 11 separable penalties; w on every kink and region "
                "boundary (0, +-alpha, +-alpha*gamma), grid and random reals, zero weights, both positivity flags; "
                "non-trivial = finite non-zero score; distinct by (penalty, weight, w, grad)")
    lines, impls, meta = [], [], []
    n_per = ctx.n(30, 500)
    for pen in pens(ctx):
        cls = pen.cls_name()
        for _ in range(n_per):
            p = rng.randrange(1, 5)
            wts = [gen.pick(rng, [0.0, 0.5, 1.0, 2.0]) if pen.kind in Pen.WEIGHTED else 1.0 for _ in range(p)]
            w = np.array([points(rng, pen) for _ in range(p)])
            if pen.kind == "box" and rng.random() < 0.8:
                w = np.clip(w, 0, pen.alpha)
            grad = np.array([gen.pick(rng, gen.grid8(24)) if rng.random() < 0.7 else gen.real(rng, 1.0)
                             for _ in range(p)])
            obj = compiled_pen(pen, wts if pen.kind in Pen.WEIGHTED else None)
            # the working set is an arbitrary non-empty subset in arbitrary order (argpartition does not sort);
            # `grad` handed to the kernel is indexed by position in ws, `w` by feature
            ws = np.array(rng.sample(range(p), rng.randrange(1, p + 1)), dtype=np.int64) if rng.random() < 0.7 \
                else np.arange(p)
            sd_ws = call(obj.subdiff_distance, w, grad[ws].copy(), ws)
            if isinstance(sd_ws, str):
                sd = sd_ws
            else:
                sd = np.full(p, np.nan)
                sd[ws] = sd_ws
            gs = call(obj.generalized_support, w)
            ip = call(obj.is_penalized, p)
            val = call(obj.value, w)
            inp = dict(penalty=pen.describe(), weights=wts, w=w.tolist(), grad=grad.tolist())
            for j in range(p):
                if isinstance(sd, str) or j in ws:
                    lines.append(f"sd1 {pen.tokens()} {fb(wts[j])} {fb(w[j])} {fb(grad[j])}")
                    impls.append(sd if isinstance(sd, str) else float(sd[j]))
                    meta.append(("sd", pen, wts[j], w[j], grad[j], f"{cls}.subdiff_distance", dict(inp, ws=ws.tolist())))
                lines.append(f"gsupp1 {pen.tokens()} {fb(w[j])}")
                impls.append(gs if isinstance(gs, str) else bool(gs[j]))
                meta.append(("gs", pen, wts[j], w[j], grad[j], f"{cls}.generalized_support", inp))
                lines.append(f"ispen1 {pen.tokens()} {fb(wts[j])}")
                impls.append(ip if isinstance(ip, str) else bool(ip[j]))
                meta.append(("ip", pen, wts[j], w[j], grad[j], f"{cls}.is_penalized", inp))
            lines.append(f"penvalue {pen.tokens()} {vec(wts)} {vec(w)[len(str(p))+1:]}")
            impls.append(val)
            meta.append(("val", pen, wts, w, grad, f"{cls}.value", inp))
    outs = lean.drive(lines)
    for line, out, r, (kind, pen, wt, w, g, site, inp) in zip(lines, outs, impls, meta):
        m, i = decode(out), canon(r)
        sig = dict(site=site, positive=bool(pen.positive))
        if kind == "sd":
            triv = isinstance(r, str) or r == 0.0 or math.isinf(r)
            rep.count(f"{pen.kind}:sd:{'inf' if (not isinstance(r, str) and math.isinf(r)) else 'zero' if r == 0.0 else 'pos'}",
                      triv, (pen.key(), wt, w, g))
        else:
            rep.count(f"{pen.kind}:{kind}", True)
        if kind == "val" and pen.kind == "box":
            # IndicatorBox.value: 0 / inf exactly
            pass
        if not same(i, m, 1e-9, 1e-12):
            rep.disagree("K:" + kind, line, i, m, sig, input=inp)
        if isinstance(r, str):
            rep.violate(f"{site} raises {r}", dict(sig, kind="raises"), input=inp, impl_output=r, lines=[line])
            continue
        if kind == "sd":
            feasible_box = pen.kind != "box" or (0 <= w <= pen.alpha)
            if not feasible_box:
                continue
            if pen.kind in ("l05", "l23") and not (pen.alpha > 0):
                continue
            sl = slopes(pen, wt, w)
            if sl is None:
                want = math.inf
            else:
                want = dist_interval(-g, sl[0], sl[1])
            if want is None:
                continue
            ok = (math.isinf(want) and math.isinf(r)) or (not math.isinf(want) and not math.isinf(r)
                                                          and abs(r - want) <= 1e-4 * (1 + abs(want)))
            if not ok:
                rep.violate(f"{site} is not the distance from -grad to the sub-differential of the documented penalty",
                            dict(sig, kind="not-distance"), input=dict(inp, j_w=w, j_grad=g, j_weight=wt),
                            impl_output=r, oracle=dict(name="one-sided slopes of the documented penalty",
                                                       slopes=sl, distance=want), lines=[line], model_output=m)
        if kind == "val":
            want = sum(pen.ref_pen1(x, t) for x, t in zip(w, wt))
            # positivity is a configured constraint, value() of L1-type penalties documents no indicator
            if pen.kind in Pen.HAS_POS and pen.positive and any(x < 0 for x in w):
                pass
            elif not ((math.isinf(want) and math.isinf(r)) or abs(r - want) <= 1e-9 * (1 + abs(want))):
                rep.violate(f"{site} differs from the documented penalty", dict(sig, kind="value"), input=inp,
                            impl_output=r, oracle=dict(name="documented formula", value=want), lines=[line])
            if any(t == 0.0 for t in wt) and pen.kind == "wl1":
                # unpenalised coordinates contribute nothing: changing them does not change value
                w2 = np.array([x if t != 0 else x + 1.5 for x, t in zip(w, wt)])
                obj = compiled_pen(pen, wt)
                r2 = call(obj.value, w2)
                if isinstance(r2, str) or abs(r2 - r) > 1e-12 * (1 + abs(r)):
                    rep.violate(f"{site}: a feature flagged unpenalised contributes to the value",
                                dict(sig, kind="unpenalised"), input=inp, impl_output=[r, r2])
    # ---- score <-> prox fixed points (on the real code)
    n_fp = ctx.n(20, 300)
    for pen in pens(ctx):
        cls = pen.cls_name()
        sig = dict(site=f"{cls}.subdiff_distance", positive=bool(pen.positive))
        for _ in range(n_fp):
            wt = gen.pick(rng, [0.5, 1.0, 2.0]) if pen.kind in Pen.WEIGHTED else 1.0
            s = gen.pick(rng, [0.125, 0.25, 0.5, 1.0])
            if not pen.admissible_step(s, wt) or pen.kind in ("l05", "l23", "logsum", "scad"):
                continue
            obj = compiled_pen(pen, [wt] if pen.kind in Pen.WEIGHTED else None)
            x = gen.pick(rng, gen.grid8(32)) if rng.random() < 0.7 else gen.real(rng, 2.0)
            w = call(obj.prox_1d, float(x), float(s), 0)
            if isinstance(w, str):
                continue
            grad = (w - x) / s                       # then w = prox(w - s*grad, s)
            sc = call(obj.subdiff_distance, np.array([w]), np.array([grad]), np.arange(1))
            rep.count(f"{pen.kind}:fixpoint->score0", w == 0.0, ("fp", pen.key(), wt, x, s))
            if isinstance(sc, str) or not (abs(sc[0]) <= 1e-9 * (1 + abs(grad))):
                rep.violate(f"{cls}: a fixed point of the prox-gradient map has a non-zero score",
                            dict(sig, kind="fixpoint-score"), input=dict(penalty=pen.describe(), weight=wt, x=x, step=s,
                                                                          w=w, grad=grad),
                            impl_output=canon(sc))
            if pen.kind in CONVEX:
                # converse: choose grad with score zero (inside the slope interval), w must be a fixed point
                w0 = gen.pick(rng, [0.0, 0.5, 1.0, pen.alpha or 1.0]) if pen.kind != "box" else gen.pick(
                    rng, [0.0, pen.alpha, pen.alpha / 2])
                if pen.positive and w0 < 0:
                    continue
                sl = slopes(pen, wt, w0)
                if sl is None:
                    continue
                lo, hi = sl
                lo2 = lo if not math.isinf(lo) else (hi if not math.isinf(hi) else 0.0) - 2.0
                hi2 = hi if not math.isinf(hi) else lo2 + 2.0
                gsub = lo2 + (hi2 - lo2) * gen.pick(rng, [0.0, 0.5, 1.0, 0.25])
                grad0 = -gsub
                sc0 = call(obj.subdiff_distance, np.array([w0]), np.array([grad0]), np.arange(1))
                if isinstance(sc0, str) or abs(sc0[0]) > 1e-6:
                    continue
                w1 = call(obj.prox_1d, float(w0 - s * grad0), float(s), 0)
                rep.count(f"{pen.kind}:score0->fixpoint", False, ("sf", pen.key(), wt, w0, grad0, s))
                if isinstance(w1, str) or abs(w1 - w0) > 1e-5 * (1 + abs(w0)):
                    rep.violate(f"{cls}: score zero but not a fixed point of the prox-gradient map (convex penalty)",
                                dict(sig, kind="score-fixpoint"),
                                input=dict(penalty=pen.describe(), weight=wt, w=w0, grad=grad0, step=s),
                                impl_output=canon(w1))
    rep.sample(dict(line=lines[0], impl=canon(impls[0]), model=decode(outs[0])))
    rep.sample(dict(line=lines[-1][:200], impl=canon(impls[-1]), model=decode(outs[-1])))
    run_blocks(ctx, rep)


def block_dist(rng, blk, wg, wf, w, x):
    """distance from x to the regular sub-differential of the documented block penalty at w, computed as
    sup_{|d|<=1} ( x.d - phi'(w; d) )  (the sub-derivative of these penalties is sublinear);
    inf when w is infeasible.  Returns (rigorous lower bound, refined estimate)."""
    f0 = blk.ref_pen(w, wg, wf)
    if math.isinf(f0):
        return math.inf, math.inf
    k = len(w)
    h = 1e-7

    def F(d):
        n = math.sqrt(float(np.sum(d * d)))
        if n > 1:
            d = d / n
        f1 = blk.ref_pen(w + h * d, wg, wf)
        if math.isinf(f1):
            return -math.inf
        return float(x @ d) - (f1 - f0) / h
    cands = [np.zeros(k)]
    for i in range(k):
        for sg in (-1.0, 1.0):
            e = np.zeros(k)
            e[i] = sg
            cands.append(e)
    nx = math.sqrt(float(np.sum(x * x)))
    if nx > 0:
        cands += [x / nx, -x / nx]
    # where the penalty is differentiable the optimal direction is (x - grad phi(w)) normalised; on the
    # boundary of the positive orthant the components that would leave it are clipped
    gnum = np.zeros(k)
    okg = True
    for i in range(k):
        e = np.zeros(k)
        e[i] = 1e-6
        fp, fm = blk.ref_pen(w + e, wg, wf), blk.ref_pen(w - e, wg, wf)
        if math.isinf(fp):
            okg = False
            break
        gnum[i] = (fp - fm) / 2e-6 if not math.isinf(fm) else (fp - f0) / 1e-6
    if okg:
        for clip in (False, True):
            d = x - gnum
            if clip:
                d = np.where((w == 0) & (d < 0), 0.0, d)
            nd = math.sqrt(float(np.sum(d * d)))
            if nd > 0:
                cands.append(d / nd)
    for _ in range(120):
        d = np.array([rng.gauss(0, 1) for _ in range(k)])
        cands.append(d / max(1e-12, math.sqrt(float(np.sum(d * d)))))
    feas = [c for c in cands if F(c) > -math.inf]
    best = max(feas, key=F)
    fb_ = F(best)
    lower = fb_
    # refine: concave maximisation over the unit ball intersected with the feasible directions
    from scipy.optimize import minimize
    pos = blk.kind == "wgl2" and blk.positive
    bounds = [((0.0 if (pos and w[i] == 0) else -1.0), 1.0) for i in range(k)]
    cons = [dict(type="ineq", fun=lambda d: 1.0 - float(np.sum(d * d)))]
    starts = sorted(feas, key=F, reverse=True)[:4]
    for st in starts:
        try:
            res = minimize(lambda d: -F(np.asarray(d)), np.clip(st, [b0 for b0, _ in bounds], 1.0),
                           method="SLSQP", bounds=bounds, constraints=cons,
                           options=dict(maxiter=200, ftol=1e-12))
            if res.success or True:
                d = np.asarray(res.x)
                n = math.sqrt(float(np.sum(d * d)))
                if n > 1:
                    d = d / n
                v = F(d)
                if v > fb_:
                    best, fb_ = d, v
        except Exception:      # noqa: BLE001
            pass
    lower = max(lower, fb_)
    return max(0.0, fb_), max(0.0, fb_)


def run_blocks(ctx, rep):
    from ..blocks import blocks, Blk, group_layout, compiled_blk
    from ..proto import vec
    rng = ctx.rng
    vals = [0.0, 0.0, 0.5, -0.5, 1.0, -1.0, 2.0, 0.25]
    n_per = ctx.n(10, 150)
    lines, impls, meta = [], [], []
    for blk in blocks():
        if blk.kind == "wl1gl2":
            continue
        cls = blk.cls_name()
        for _ in range(n_per):
            if blk.kind in Blk.ROW:
                nf, nt = rng.randrange(1, 5), rng.randrange(1, 4)
                W = np.array([[gen.pick(rng, vals) for _ in range(nt)] for _ in range(nf)])
                for r in range(nf):
                    if rng.random() < 0.3:
                        W[r, :] = 0.0
                    if blk.gamma and rng.random() < 0.2 and np.any(W[r]):
                        W[r] *= blk.alpha * blk.gamma / np.linalg.norm(W[r])     # on the region boundary
                ws = np.array(sorted(rng.sample(range(nf), rng.randrange(1, nf + 1))))
                G = np.array([[gen.pick(rng, gen.grid8(16)) for _ in range(nt)] for _ in ws])
                obj = compiled_blk(blk)
                sc = call(obj.subdiff_distance, W, G, ws)
                inp = dict(penalty=blk.describe(), W=W.tolist(), grad=G.tolist(), ws=ws.tolist())
                for idx, j in enumerate(ws):
                    lines.append(f"blk_sd {blk.tokens()} {fb(1.0)} {vec(W[j])} {vec(G[idx])[len(str(nt))+1:]}")
                    impls.append(sc if isinstance(sc, str) else float(sc[idx]))
                    meta.append((blk, 1.0, None, W[j].copy(), G[idx].copy(), f"{cls}.subdiff_distance", inp))
            else:
                p = rng.randrange(1, 8)
                groups, gp, gi = group_layout(rng, p)
                wgs = np.array([gen.pick(rng, [0.0, 0.5, 1.0, 2.0]) for _ in groups])
                w = np.array([gen.pick(rng, vals) for _ in range(p)])
                if blk.positive and rng.random() < 0.8:
                    w = np.abs(w)
                for g in groups:
                    if rng.random() < 0.3:
                        w[g] = 0.0
                ws = np.array(sorted(rng.sample(range(len(groups)), rng.randrange(1, len(groups) + 1))))
                gws = [np.array([gen.pick(rng, gen.grid8(16)) for _ in groups[g]]) for g in ws]
                obj = compiled_blk(blk, wgs, None, gp, gi)
                sc = call(obj.subdiff_distance, w, np.concatenate(gws), ws)
                inp = dict(penalty=blk.describe(), groups=groups, weights=wgs.tolist(), w=w.tolist(),
                           grad_ws=[t.tolist() for t in gws], ws=ws.tolist())
                for idx, g in enumerate(ws):
                    wgv = w[groups[g]]
                    lines.append(f"blk_sd {blk.tokens()} {fb(wgs[g])} {vec(wgv)} {vec(gws[idx])[len(str(len(wgv)))+1:]}")
                    impls.append(sc if isinstance(sc, str) else float(sc[idx]))
                    meta.append((blk, float(wgs[g]), None, wgv.copy(), gws[idx].copy(), f"{cls}.subdiff_distance", inp))
    outs = lean.drive(lines)
    for line, out, r, (blk, wg, wf, w, g, site, inp) in zip(lines, outs, impls, meta):
        m, i = decode(out), canon(r)
        sig = dict(site=site, positive=bool(blk.positive))
        triv = isinstance(r, str) or r == 0.0 or math.isinf(r)
        rep.count(f"{blk.kind}:sd", triv, (blk.key(), wg, tuple(w), tuple(g)))
        if not same(i, m, 1e-9, 1e-12):
            rep.disagree("K:blk_sd", line, i, m, sig, input=inp)
        if isinstance(r, str):
            rep.violate(f"{site} raises {r}", dict(sig, kind="raises"), input=inp, impl_output=r, lines=[line])
            continue
        if blk.kind == "l205" and not np.any(w):
            continue          # every vector is a regular sub-gradient at the zero row: score 0
        lb, est = block_dist(rng, blk, wg, wf, w, -g)
        ok = (math.isinf(lb) and math.isinf(r)) or (not math.isinf(lb) and not math.isinf(r)
                                                    and r >= lb - 1e-5 * (1 + lb) and r <= est + 1e-2 * (1 + est))
        if not ok:
            rep.violate(f"{site} is not the distance from -grad to the sub-differential of the documented penalty",
                        dict(sig, kind="not-distance"), input=dict(inp, block_w=w.tolist(), block_grad=g.tolist(),
                                                                   block_weight=wg),
                        impl_output=r, oracle=dict(name="sup over directions of x.d - phi'(w;d)", distance=est),
                        lines=[line], model_output=m)


def replay(ctx, payload):
    print(payload)
    return 0
