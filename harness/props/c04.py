"""C04 - constraints hold and output is finite at every stopping point."""
from .solver_common import run_parallel, run_bbox

LEAN_MODULES = ["Skglm.Properties.C04", "Skglm.Properties.C04Run", "Skglm.Properties.BCD", "Skglm.Properties.GramCD", "Skglm.Properties.FISTA", "Skglm.Properties.PDCD"]
COMBOS = [("quadratic", "l1"), ("quadratic", "l1l2"), ("quadratic", "wl1"), ("quadratic", "mcp"),
          ("quadratic", "wmcp"), ("quadratic", "pos"), ("quadratic", "box"), ("svc", "box"),
          ("logistic", "l1"), ("huber", "l1"), ("wquadratic", "wl1"), ("logistic", "pos")]


def run(ctx, rep):
    rep.rule = ("AndersonCD with positive=True penalties / box / positivity constraint, budgets ending before, at and "
                "right after an extrapolation (max_epochs in {1..14}), all tolerances, warm starts; plus the kernel "
                "level (prox feasibility) of C07's correspondence; non-trivial = at least one outer iteration")
    run_parallel(ctx, rep, oracles=["feasible"], gen_opts=dict(force_positive=True), combos=COMBOS,
                 n_quick=25, n_thorough=300)
    run_bbox(ctx, rep, oracles=["feasible"], solvers_=["ProxNewton", "GramCD", "GroupBCD", "GroupProxNewton", "FISTA"])
    from . import moves_common
    moves_common.run_bcd_moves(ctx, rep)
    moves_common.run_gram_moves(ctx, rep)
    moves_common.run_fista(ctx, rep)
    moves_common.run_pdcd(ctx, rep)


def replay(ctx, payload):
    print(payload)
    return 0
