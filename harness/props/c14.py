"""C14 - general components reduce to the simpler ones they generalise (paired configurations on the real code;
the kernel equalities are Lean theorems on the model, tied to the code by the C06/C07/C08 correspondences)."""
import math

import numpy as np

from .. import gen, bbox
from ..impl import Pen, Dfit, compiled, compiled_pen, compiled_df, call, gen_matrix
from ..proto import canon
from ..blocks import Blk
from .c06_ext import cox_ref
from ..impl import to_csc

LEAN_MODULES = ["Skglm.Properties.C14"]


def eq(a, b, tol=1e-10):
    if isinstance(a, str) or isinstance(b, str):
        return a == b
    a, b = np.asarray(a, float), np.asarray(b, float)
    return a.shape == b.shape and bool(np.all((np.abs(a - b) <= tol * (1 + np.abs(b))) | (np.isinf(a) & np.isinf(b) & (a == b))))


def pair(rep, name, general, special, inp, tol=1e-10):
    rep.count(name, False, (name, len(rep.nontrivial)))
    if not eq(general, special, tol):
        rep.violate(f"reduction '{name}' fails: the general component configured as the special case gives a different result",
                    dict(site=name, kind="reduction"), input=inp, impl_output=dict(general=canon(general)[:12], special=canon(special)[:12]))


def run(ctx, rep):
    import skglm.penalties as P
    import skglm.datafits as D
    from skglm.penalties.block_separable import L2_1
    rng = ctx.rng
    rep.rule = ("every listed (general configuration, special case) pair evaluated on the same inputs on the real code: "
                "kernel outputs (value, prox, score, alpha_max, gradients, constants) and converged solutions; "
                "one pair evaluation = one case")
    grid = gen.grid8(24)
    for _ in range(ctx.n(150, 2500)):
        a = rng.choice([0.25, 0.5, 1.0, 2.0])
        pos = rng.random() < 0.4
        p = rng.randrange(1, 6)
        w = np.array([rng.choice(grid) if rng.random() < 0.8 else rng.gauss(0, 1) for _ in range(p)])
        g = np.array([rng.choice(grid) for _ in range(p)])
        ws = np.arange(p)
        x, s = float(rng.choice(grid)), rng.choice([0.25, 0.5, 1.0])
        inp = dict(alpha=a, positive=pos, w=w.tolist(), grad=g.tolist(), x=x, step=s)
        # unit weights
        gen_, spc = compiled(P.WeightedL1(a, np.ones(p), pos)), compiled(P.L1(a, pos))
        pair(rep, "WeightedL1(ones)=L1:prox", gen_.prox_1d(x, s, 0), spc.prox_1d(x, s, 0), inp)
        pair(rep, "WeightedL1(ones)=L1:score", gen_.subdiff_distance(w, g, ws), spc.subdiff_distance(w, g, ws), inp)
        pair(rep, "WeightedL1(ones)=L1:value", gen_.value(w), spc.value(w), inp)
        pair(rep, "WeightedL1(ones)=L1:alpha_max", gen_.alpha_max(g), spc.alpha_max(g), inp)
        gm = rng.choice([1.5, 3.0, 8.0])
        gen_, spc = compiled(P.WeightedMCPenalty(a, gm, np.ones(p), pos)), compiled(P.MCPenalty(a, gm, pos))
        pair(rep, "WeightedMCP(ones)=MCP:prox", gen_.prox_1d(x, s, 0), spc.prox_1d(x, s, 0), inp)
        pair(rep, "WeightedMCP(ones)=MCP:score", gen_.subdiff_distance(w, g, ws), spc.subdiff_distance(w, g, ws), inp)
        pair(rep, "WeightedMCP(ones)=MCP:value", gen_.value(w), spc.value(w), inp)
        gen_, spc = compiled(P.L1_plus_L2(a, 1.0, pos)), compiled(P.L1(a, pos))
        pair(rep, "L1_plus_L2(l1_ratio=1)=L1:prox", gen_.prox_1d(x, s, 0), spc.prox_1d(x, s, 0), inp)
        pair(rep, "L1_plus_L2(l1_ratio=1)=L1:score", gen_.subdiff_distance(w, g, ws), spc.subdiff_distance(w, g, ws), inp)
        pair(rep, "L1_plus_L2(l1_ratio=1)=L1:value", gen_.value(w), spc.value(w), inp)
        pair(rep, "L1_plus_L2(l1_ratio=1)=L1:alpha_max", gen_.alpha_max(g), spc.alpha_max(g), inp)
        # singleton groups = weighted L1
        wts = np.array([rng.choice([0.5, 1.0, 2.0]) for _ in range(p)])
        gp, gi = np.arange(p + 1, dtype=np.int32), np.arange(p, dtype=np.int32)
        gen_, spc = compiled(P.WeightedGroupL2(a, wts, gp, gi, pos)), compiled(P.WeightedL1(a, wts, pos))
        pair(rep, "WeightedGroupL2(singletons)=WeightedL1:prox", gen_.prox_1group(np.array([x]), s, 0)[0], spc.prox_1d(x, s, 0), inp)
        pair(rep, "WeightedGroupL2(singletons)=WeightedL1:score", gen_.subdiff_distance(w, g, ws), spc.subdiff_distance(w, g, ws), inp)
        pair(rep, "WeightedGroupL2(singletons)=WeightedL1:value", gen_.value(w), spc.value(w), inp)
        # one task
        gen_, spc = compiled(L2_1(a)), compiled(P.L1(a))
        pair(rep, "L2_1(one task)=L1:prox", gen_.prox_1feat(np.array([x]), s, 0)[0], spc.prox_1d(x, s, 0), inp)
        pair(rep, "L2_1(one task)=L1:value", gen_.value(w.reshape(-1, 1)), spc.value(w), inp)
        pair(rep, "L2_1(one task)=L1:score", gen_.subdiff_distance(w.reshape(-1, 1), g.reshape(-1, 1), ws),
             spc.subdiff_distance(w, g, ws), inp)
        # constant SLOPE sequence
        gen_ = compiled(P.SLOPE(np.full(p, a)))
        pair(rep, "SLOPE(constant)=L1:value", gen_.value(w), spc.value(w), inp)
        pair(rep, "SLOPE(constant)=L1:prox", gen_.prox_vec(w.copy(), s), np.array([spc.prox_1d(float(t), s, 0) for t in w]), inp)
        # very large gamma
        big = compiled(P.MCPenalty(a, 1e9))
        pair(rep, "MCP(gamma->inf)=L1:prox", big.prox_1d(x, s, 0), spc.prox_1d(x, s, 0), inp, tol=1e-7)
    for _ in range(ctx.n(40, 500)):
        n, p = rng.randrange(2, 9), rng.randrange(1, 6)
        X = gen_matrix(rng, n, p)
        y = np.array([rng.gauss(0, 1) for _ in range(n)])
        w = np.array([rng.choice([0.0, 0.5, -1.0]) for _ in range(p)])
        u = X @ w
        inp = dict(X=X.tolist(), y=y.tolist(), w=w.tolist())
        q = compiled(D.Quadratic())
        q.initialize(X, y)
        hub = compiled(D.Huber(1e6))
        pair(rep, "Huber(delta->inf)=Quadratic:value", hub.value(y, w, u), q.value(y, w, u), inp)
        pair(rep, "Huber(delta->inf)=Quadratic:gradient", [hub.gradient_scalar(X, y, w, u, j) for j in range(p)],
             [q.gradient_scalar(X, y, w, u, j) for j in range(p)], inp)
        pair(rep, "Huber(delta->inf)=Quadratic:intercept", hub.intercept_update_step(y, u), q.intercept_update_step(y, u), inp)
        wq = compiled(D.WeightedQuadratic(np.ones(n)))
        wq.initialize(X, y)
        pair(rep, "WeightedQuadratic(ones)=Quadratic:value", wq.value(y, w, u), q.value(y, w, u), inp)
        pair(rep, "WeightedQuadratic(ones)=Quadratic:gradient", [wq.gradient_scalar(X, y, w, u, j) for j in range(p)],
             [q.gradient_scalar(X, y, w, u, j) for j in range(p)], inp)
        pair(rep, "WeightedQuadratic(ones)=Quadratic:lipschitz", wq.get_lipschitz(X, y), q.get_lipschitz(X, y), inp)
        pair(rep, "WeightedQuadratic(ones)=Quadratic:global", wq.get_global_lipschitz(X, y), q.get_global_lipschitz(X, y), inp, tol=1e-9)
        # integer sample weights = replicated rows
        k = np.array([rng.choice([1, 1, 2, 3]) for _ in range(n)])
        Xr, yr = np.asfortranarray(np.repeat(X, k, axis=0)), np.repeat(y, k)
        wk = compiled(D.WeightedQuadratic(k.astype(float)))
        wk.initialize(X, y)
        qr = compiled(D.Quadratic())
        qr.initialize(Xr, yr)
        ur = Xr @ w
        pair(rep, "WeightedQuadratic(int)=replicated rows:value", wk.value(y, w, u), qr.value(yr, w, ur), inp)
        pair(rep, "WeightedQuadratic(int)=replicated rows:gradient", [wk.gradient_scalar(X, y, w, u, j) for j in range(p)],
             [qr.gradient_scalar(Xr, yr, w, ur, j) for j in range(p)], inp)
        pair(rep, "WeightedQuadratic(int)=replicated rows:lipschitz", wk.get_lipschitz(X, y), qr.get_lipschitz(Xr, yr), inp)
        # the same reductions through the CSC accessors (X stored sparse, the reference stays the dense replicated design)
        Xs_ = to_csc(X, rng, explicit_zeros=rng.random() < 0.3)
        wks = compiled(D.WeightedQuadratic(k.astype(float)))
        wks.initialize_sparse(Xs_.data, Xs_.indptr, Xs_.indices, y)
        pair(rep, "WeightedQuadratic(int)=replicated rows:gradient_scalar_sparse",
             [wks.gradient_scalar_sparse(Xs_.data, Xs_.indptr, Xs_.indices, y, u, j) for j in range(p)],
             [qr.gradient_scalar(Xr, yr, w, ur, j) for j in range(p)], inp)
        pair(rep, "WeightedQuadratic(int)=replicated rows:full_grad_sparse",
             wks.full_grad_sparse(Xs_.data, Xs_.indptr, Xs_.indices, y, u),
             [qr.gradient_scalar(Xr, yr, w, ur, j) for j in range(p)], inp)
        pair(rep, "WeightedQuadratic(int)=replicated rows:lipschitz_sparse",
             wks.get_lipschitz_sparse(Xs_.data, Xs_.indptr, Xs_.indices, y), qr.get_lipschitz(Xr, yr), inp)
        pair(rep, "WeightedQuadratic(int)=replicated rows:global", wk.get_global_lipschitz(X, y), qr.get_global_lipschitz(Xr, yr), inp, tol=1e-9)
        # the CSC global constant is a power iteration (unseeded start): equal to the replicated-rows constant up to
        # its accuracy and never above it (seeded s14: CSC data scaled by the weights instead of their square roots)
        gs = float(wks.get_global_lipschitz_sparse(Xs_.data, Xs_.indptr, Xs_.indices, y))
        gr = float(qr.get_global_lipschitz(Xr, yr))
        rep.count("WeightedQuadratic(int)=replicated rows:global_sparse", False, ("global_sparse", len(rep.nontrivial)))
        if not (0.9 * gr - 1e-12 <= gs <= gr * (1 + 1e-6) + 1e-12):
            rep.violate("reduction 'WeightedQuadratic(int)=replicated rows:global_sparse' fails: the CSC global Lipschitz constant "
                        "with integer sample weights is not that of the replicated-rows design (power-method accuracy allowed)",
                        dict(site="WeightedQuadratic(int)=replicated rows:global_sparse", kind="reduction"), input=inp,
                        impl_output=dict(general=gs, special=gr))
        # Efron = Breslow without ties
        tm = np.array(rng.sample(range(1, 40), n), dtype=float)
        scale = rng.choice(["unit", "unit", "timestamps", "close", "days"])
        if scale == "timestamps":          # distinct occurrence times that are close in relative terms
            tm = 1.7e9 + tm
        elif scale == "close":
            tm = 1.0 + tm * 1e-6
        elif scale == "days":
            tm = 7.3e5 + tm
        s_ = np.array([float(rng.random() < 0.7) for _ in range(n)])
        s_[0] = 1.0
        yc = np.column_stack([tm, s_])
        ce, cb = compiled(D.Cox(True)), compiled(D.Cox(False))
        ce.initialize(X, yc)
        cb.initialize(X, yc)
        us = 0.3 * u
        inp = dict(inp, tm=tm.tolist(), s=s_.tolist())
        pair(rep, "Cox(Efron, no ties)=Breslow:value", ce.value(yc, w, us), cb.value(yc, w, us), inp)
        pair(rep, "Cox(Efron, no ties)=Breslow:raw_grad", ce.raw_grad(yc, us), cb.raw_grad(yc, us), inp)
        pair(rep, "Cox(Efron, no ties)=Breslow:raw_hessian", ce.raw_hessian(yc, us), cb.raw_hessian(yc, us), inp)
    # converged solutions: Gram solver vs coordinate descent; estimator vs GeneralizedLinearEstimator
    from . import est_common
    est_common.shim()
    import skglm
    from skglm.solvers import AndersonCD, GramCD
    for _ in range(ctx.n(10, 120)):
        n, p = rng.randrange(8, 16), rng.randrange(2, 7)
        X = gen_matrix(rng, n, p, "gauss")
        y = X @ np.array([rng.choice([0.0, 1.0, -2.0]) for _ in range(p)]) + 0.2 * np.array([rng.gauss(0, 1) for _ in range(n)])
        a = rng.choice([0.02, 0.1, 0.3])
        pen = rng.choice([P.L1(a), P.L1_plus_L2(a, 0.5), P.L1(a, True)])
        w1 = AndersonCD(tol=1e-10, fit_intercept=False, max_iter=200).solve(X, y, compiled(D.Quadratic()), compiled(pen))[0]
        w2 = GramCD(tol=1e-10, max_iter=5000, greedy_cd=rng.random() < 0.5).solve(X, y, None, compiled(pen))[0]
        pair(rep, "GramCD=AndersonCD:solution", w2, w1, dict(X=X.tolist(), y=y.tolist(), alpha=a, penalty=type(pen).__name__), tol=1e-6)
        fi = rng.random() < 0.5
        e1 = skglm.Lasso(alpha=a, fit_intercept=fi, tol=1e-10).fit(X, y)
        e2 = skglm.GeneralizedLinearEstimator(D.Quadratic(), P.L1(a), AndersonCD(tol=1e-10, fit_intercept=fi)).fit(X, y)
        pair(rep, "Lasso=GeneralizedLinearEstimator:coef", e1.coef_, e2.coef_, dict(X=X.tolist(), y=y.tolist(), alpha=a), tol=1e-7)
        e1 = skglm.ElasticNet(alpha=a, l1_ratio=0.4, fit_intercept=fi, tol=1e-10).fit(X, y)
        e2 = skglm.GeneralizedLinearEstimator(D.Quadratic(), P.L1_plus_L2(a, 0.4), AndersonCD(tol=1e-10, fit_intercept=fi)).fit(X, y)
        pair(rep, "ElasticNet=GeneralizedLinearEstimator:coef", e1.coef_, e2.coef_, dict(X=X.tolist(), y=y.tolist(), alpha=a), tol=1e-7)
    rep.sample(dict(pairs=sorted(rep.hist)[:12]))


def replay(ctx, payload):
    print(payload)
    return 0
