"""C02 - converged convex fits reach the reference optimum (drop-in equivalence).

Lean: a point certified within eps has an objective within eps * (||w - z||_1 + |b - c|) of ANY other point
(`Skglm/Properties/C02.lean`), so a converged skglm result is within a tolerance-proportional margin of
whatever a reference returns; this is composed with C01.  Harness (failing-input search and validation):
skglm solvers against sklearn / scipy references and against each other on the same convex problem."""
import numpy as np

from .. import bbox
from ..impl import Pen, Dfit, gen_matrix, compiled
from ..blocks import Blk
from . import est_common

LEAN_MODULES = ["Skglm.Properties.C02", "Skglm.Properties.FISTA", "Skglm.Properties.GramCD", "Skglm.Properties.PDCD"]


def obj_gap(rep, name, f_skglm, f_ref, tol_margin, sig, inp, extra=None):
    rep.count(name, False, (name, len(rep.nontrivial)))
    if not f_skglm <= f_ref + tol_margin:
        rep.violate(f"{name}: the converged skglm objective exceeds the reference optimum by more than the "
                    "tolerance-proportional margin", dict(sig, kind="above-reference"), input=inp,
                    oracle=dict(skglm=f_skglm, reference=f_ref, margin=tol_margin), impl_output=extra)


def run(ctx, rep):
    est_common.shim()
    import sklearn.linear_model as SL
    import sklearn.svm as SVM
    from scipy.optimize import linprog
    import skglm
    import skglm.datafits as D
    import skglm.penalties as P
    from skglm.solvers import AndersonCD, GramCD, FISTA, ProxNewton, GroupBCD
    from skglm.experimental.pdcd_ws import PDCD_WS
    from skglm.experimental.quantile_regression import Pinball
    from skglm.experimental.sqrt_lasso import SqrtLasso, SqrtQuadratic
    rng = ctx.rng
    rep.rule = ("convex families on random data over log-uniform alpha, n<p and n>p, correlated designs: skglm estimators "
                "vs sklearn Lasso / ElasticNet / LogisticRegression(l1) / LinearSVC(hinge) / MultiTaskLasso, scipy linprog "
                "(quantile), Chambolle-Pock (sqrt-Lasso); AndersonCD vs GramCD vs FISTA vs ProxNewton on one problem; "
                "one comparison = one case")
    for _ in range(ctx.n(30, 400)):
        n, p = rng.choice([(20, 6), (12, 20), (30, 10)])
        X = gen_matrix(rng, n, p, "gauss")
        if rng.random() < 0.4:
            X[:, 1:] += 0.8 * X[:, :-1]
            X = np.asfortranarray(X)
        wt = np.array([rng.choice([0.0, 0.0, 1.0, -2.0]) for _ in range(p)])
        y = X @ wt + 0.5 * np.array([rng.gauss(0, 1) for _ in range(n)]) + rng.choice([0.0, 2.0])
        amax = float(np.max(np.abs(X.T @ (y - y.mean()))) / n)
        a = amax * 10 ** rng.uniform(-2.5, -0.3)
        fi = rng.random() < 0.5
        pos = rng.random() < 0.3
        inp = dict(X=X.tolist(), y=y.tolist(), alpha=a, fit_intercept=fi, positive=pos)

        def lasso_obj(w, b, a=a, r=1.0):
            return float(np.sum((y - X @ w - b) ** 2) / (2 * n) + a * r * np.sum(np.abs(w)) + a * (1 - r) / 2 * np.sum(w ** 2))
        # Lasso vs sklearn
        e = skglm.Lasso(alpha=a, fit_intercept=fi, positive=pos, tol=1e-10, max_iter=500).fit(X, y)
        r_ = SL.Lasso(alpha=a, fit_intercept=fi, positive=pos, tol=1e-14, max_iter=100000).fit(X, y)
        f1, f2 = lasso_obj(e.coef_, e.intercept_), lasso_obj(r_.coef_, r_.intercept_)
        obj_gap(rep, "Lasso vs sklearn.Lasso", f1, f2, 1e-7 * (1 + abs(f2)), dict(site="Lasso.fit", estimator="Lasso"), inp)
        # a converged estimator is one that *reports* convergence, however it got there: the same model reached by
        # warm-started refits along a short sequence of strengths must sit at the same reference optimum
        ew = skglm.Lasso(alpha=a * rng.choice([3.0, 0.3]), fit_intercept=fi, positive=pos, tol=1e-10, max_iter=500,
                         warm_start=True).fit(X, y)
        for a_k in (a * rng.choice([2.0, 0.5]), a):
            ew.set_params(alpha=a_k)
            ew.fit(X, y)
        f1w = lasso_obj(ew.coef_, ew.intercept_)
        obj_gap(rep, "Lasso (warm-started refits) vs sklearn.Lasso", f1w, f2, 1e-7 * (1 + abs(f2)),
                dict(site="Lasso.fit", estimator="Lasso", warm_start=True), inp)
        l1r = rng.choice([0.2, 0.5, 0.9])
        e = skglm.ElasticNet(alpha=a, l1_ratio=l1r, fit_intercept=fi, positive=pos, tol=1e-10, max_iter=500).fit(X, y)
        r_ = SL.ElasticNet(alpha=a, l1_ratio=l1r, fit_intercept=fi, positive=pos, tol=1e-14, max_iter=100000).fit(X, y)
        f1, f2 = lasso_obj(e.coef_, e.intercept_, a, l1r), lasso_obj(r_.coef_, r_.intercept_, a, l1r)
        obj_gap(rep, "ElasticNet vs sklearn.ElasticNet", f1, f2, 1e-7 * (1 + abs(f2)),
                dict(site="ElasticNet.fit", estimator="ElasticNet"), dict(inp, l1_ratio=l1r))
        if np.allclose(e.coef_, r_.coef_, atol=1e-4) is False and l1r < 1:
            rep.violate("ElasticNet: strictly convex problem but coefficients differ from the reference",
                        dict(site="ElasticNet.fit", estimator="ElasticNet", kind="coef-differs"), input=dict(inp, l1_ratio=l1r),
                        impl_output=dict(skglm=e.coef_.tolist(), sklearn=r_.coef_.tolist()))
        # all skglm solvers on the same Lasso problem (no intercept)
        sols = {}
        pen = P.L1(a, pos)
        sols["AndersonCD"] = AndersonCD(tol=1e-10, fit_intercept=False, max_iter=300).solve(X, y, compiled(D.Quadratic()), compiled(pen))[0]
        sols["GramCD"] = GramCD(tol=1e-10, max_iter=20000, greedy_cd=False).solve(X, y, None, compiled(pen))[0]
        # every knob setting of a solver must reach the same optimum: acceleration on, greedy rule, warm start
        sols["GramCD(use_acc)"] = GramCD(tol=1e-10, max_iter=20000, greedy_cd=False, use_acc=True).solve(
            X, y, None, compiled(pen))[0]
        sols["GramCD(greedy)"] = GramCD(tol=1e-10, max_iter=20000, greedy_cd=True).solve(X, y, None, compiled(pen))[0]
        w_warm = np.abs(wt.copy()) if pos else wt.copy()
        sols["GramCD(use_acc, warm)"] = GramCD(tol=1e-10, max_iter=20000, greedy_cd=False, use_acc=True).solve(
            X, y, None, compiled(pen), w_warm)[0]
        sols["AndersonCD(fixpoint)"] = AndersonCD(tol=1e-10, fit_intercept=False, max_iter=300, ws_strategy="fixpoint").solve(
            X, y, compiled(D.Quadratic()), compiled(pen))[0]
        dq = compiled(D.Quadratic())
        dq.initialize(X, y)
        sols["FISTA"] = FISTA(tol=1e-10, max_iter=50000).solve(X, y, dq, compiled(pen))[0]
        dq2 = compiled(D.Quadratic())
        dq2.initialize(X, y)
        sols["ProxNewton"] = ProxNewton(tol=1e-10, fit_intercept=False, max_iter=100).solve(X, y, dq2, compiled(pen))[0]
        fbest = min(lasso_obj(w_, 0.0) for w_ in sols.values())
        for k, w_ in sols.items():
            obj_gap(rep, f"solver agreement:{k}", lasso_obj(w_, 0.0), fbest, 1e-7 * (1 + abs(fbest)),
                    dict(site=f"{k}.solve", solver=k), inp, extra=np.asarray(w_).tolist())
        # L1 logistic regression
        yb = np.where(y > np.median(y), 1, -1)
        C = 1.0 / (n * a * 2)
        e = skglm.SparseLogisticRegression(alpha=a * 2, fit_intercept=fi, tol=1e-10, max_iter=200).fit(X, yb)
        r_ = SL.LogisticRegression(penalty="l1", C=C, solver="liblinear", fit_intercept=False, tol=1e-12, max_iter=100000).fit(X, yb) \
            if not fi else None

        def log_obj(w, b):
            return float(np.mean(np.log1p(np.exp(-yb * (X @ w + b)))) + 2 * a * np.sum(np.abs(w)))
        if r_ is not None:
            f1, f2 = log_obj(e.coef_.ravel(), 0.0), log_obj(r_.coef_.ravel(), 0.0)
            obj_gap(rep, "SparseLogisticRegression vs sklearn liblinear", f1, f2, 1e-6 * (1 + abs(f2)),
                    dict(site="SparseLogisticRegression.fit", estimator="SparseLogisticRegression"), inp)
        # hinge-loss SVC
        Cs = rng.choice([0.1, 1.0])
        e = skglm.LinearSVC(C=Cs, tol=1e-10, max_iter=500, max_epochs=100000).fit(X, yb)
        r_ = SVM.LinearSVC(C=Cs, loss="hinge", fit_intercept=False, tol=1e-12, max_iter=1000000, dual=True).fit(X, yb)

        def svc_obj(w):
            return float(Cs * np.sum(np.maximum(0, 1 - yb * (X @ w))) + 0.5 * np.sum(w ** 2))
        f1, f2 = svc_obj(e.coef_.ravel()), svc_obj(r_.coef_.ravel())
        obj_gap(rep, "LinearSVC vs sklearn LinearSVC(hinge)", f1, f2, 1e-4 * (1 + abs(f2)),
                dict(site="LinearSVC.fit", estimator="LinearSVC"), dict(inp, C=Cs))
        # multi-task Lasso
        Y = np.column_stack([y, -0.5 * y + np.array([rng.gauss(0, 1) for _ in range(n)])])
        e = skglm.MultiTaskLasso(alpha=a, fit_intercept=fi, tol=1e-10, max_iter=500).fit(X, Y)
        r_ = SL.MultiTaskLasso(alpha=a, fit_intercept=fi, tol=1e-14, max_iter=100000).fit(X, Y)

        def mtl_obj(W, b):
            return float(np.sum((Y - X @ W.T - b) ** 2) / (2 * n) + a * np.sum(np.linalg.norm(W, axis=0)))
        f1, f2 = mtl_obj(e.coef_, e.intercept_), mtl_obj(r_.coef_, r_.intercept_)
        obj_gap(rep, "MultiTaskLasso vs sklearn.MultiTaskLasso", f1, f2, 1e-7 * (1 + abs(f2)),
                dict(site="MultiTaskLasso.fit", estimator="MultiTaskLasso"), inp)
        # group Lasso: GroupBCD vs a long proximal-gradient reference
        gs = rng.choice([d for d in (1, 2, 3) if p % d == 0])
        e = skglm.GroupLasso(groups=gs, alpha=a, fit_intercept=False, tol=1e-10, max_iter=2000, max_epochs=2000).fit(X, y)
        L = np.linalg.norm(X, 2) ** 2 / n
        w_ = np.zeros(p)
        for _it in range(20000):
            g_ = X.T @ (X @ w_ - y) / n
            z = w_ - g_ / L
            for gi in range(0, p, gs):
                nz = np.linalg.norm(z[gi:gi + gs])
                z[gi:gi + gs] = 0 if nz <= a / L else (1 - a / (L * nz)) * z[gi:gi + gs]
            if np.max(np.abs(z - w_)) < 1e-13:
                w_ = z
                break
            w_ = z

        def gl_obj(w):
            return float(np.sum((y - X @ w) ** 2) / (2 * n) + a * sum(np.linalg.norm(w[i:i + gs]) for i in range(0, p, gs)))
        obj_gap(rep, "GroupLasso vs proximal-gradient reference", gl_obj(e.coef_), gl_obj(w_), 1e-7 * (1 + abs(gl_obj(w_))),
                dict(site="GroupLasso.fit", estimator="GroupLasso"), dict(inp, group_size=gs))
    # quantile regression (PDCD_WS + Pinball) vs LP; sqrt-Lasso vs Chambolle-Pock
    for _ in range(ctx.n(6, 60)):
        n, p = 30, 5
        X = gen_matrix(rng, n, p, "gauss")
        y = X @ np.array([1.0, 0, -2.0, 0, 0.5]) + np.array([rng.gauss(0, 1) for _ in range(n)])
        q = rng.choice([0.3, 0.5, 0.7])
        a = rng.choice([0.5, 2.0])
        w_, _, stop = PDCD_WS(tol=1e-9, max_iter=500, max_epochs=20000).solve(X, y, compiled(Pinball(q)), compiled(P.L1(a)))
        # LP: min q*1'u + (1-q)*1'v + a*1'(wp+wm)  s.t. X(wp-wm) + u - v = y, all >= 0
        c = np.r_[a * np.ones(2 * p), q * np.ones(n), (1 - q) * np.ones(n)]
        A = np.hstack([X, -X, np.eye(n), -np.eye(n)])
        lp = linprog(c, A_eq=A, b_eq=y, bounds=(0, None), method="highs")

        def pin_obj(w):
            r = y - X @ w
            return float(np.sum(q * np.maximum(r, 0) + (1 - q) * np.maximum(-r, 0)) + a * np.sum(np.abs(w)))
        obj_gap(rep, "PDCD_WS(Pinball) vs scipy linprog", pin_obj(w_), float(lp.fun), 1e-5 * (1 + abs(lp.fun)),
                dict(site="PDCD_WS.solve", solver="PDCD_WS"), dict(X=X.tolist(), y=y.tolist(), q=q, alpha=a))
        as_ = rng.choice([0.1, 0.3]) * float(np.max(np.abs(X.T @ y)) / np.linalg.norm(y))
        e = SqrtLasso(alpha=as_, tol=1e-10, max_iter=200).fit(X, y)
        w2, _, _ = PDCD_WS(tol=1e-10, max_iter=500, max_epochs=20000).solve(X, y, compiled(SqrtQuadratic()), compiled(P.L1(as_)))

        def sq_obj(w):
            return float(np.linalg.norm(y - X @ w) + as_ * np.sum(np.abs(w)))
        fb = min(sq_obj(e.coef_), sq_obj(w2))
        obj_gap(rep, "SqrtLasso(ProxNewton) vs PDCD_WS", sq_obj(e.coef_), fb, 1e-6 * (1 + abs(fb)),
                dict(site="SqrtLasso.fit", estimator="SqrtLasso"), dict(X=X.tolist(), y=y.tolist(), alpha=as_))
        obj_gap(rep, "PDCD_WS(SqrtQuadratic) vs SqrtLasso", sq_obj(w2), fb, 1e-6 * (1 + abs(fb)),
                dict(site="PDCD_WS.solve", solver="PDCD_WS"), dict(X=X.tolist(), y=y.tolist(), alpha=as_))
    # a single feature: the closed-form optimum of the square-root Lasso against the primal-dual solver
    for _ in range(ctx.n(4, 30)):
        n = rng.choice([1, 2, 3, 6])
        X = np.asfortranarray(np.array([[rng.choice([1.0, -1.0, 2.0, 0.5])] for _ in range(n)]))
        y = np.array([rng.gauss(0, 1) + 2.0 for _ in range(n)])
        as_ = rng.choice([0.1, 0.5])

        def sq1(w):
            return float(np.linalg.norm(y - X[:, 0] * w) + as_ * abs(w))
        grid = np.linspace(-10, 10, 200001)
        best = min(sq1(t) for t in grid[::50])
        t0 = min(grid[::50], key=sq1)
        best = min(sq1(t) for t in np.linspace(t0 - 0.01, t0 + 0.01, 20001))
        w1, _, stop1 = PDCD_WS(tol=1e-9, max_iter=1000, max_epochs=20000).solve(X, y, compiled(SqrtQuadratic()), compiled(P.L1(as_)))
        rep.count("PDCD_WS(SqrtQuadratic), one feature vs closed form", False, ("pdcd1", n, len(rep.nontrivial)))
        if not sq1(float(w1[0])) <= best + 1e-5 * (1 + abs(best)):
            rep.violate("PDCD_WS with a single feature: a generous budget does not reach the optimum of the square-root Lasso",
                        dict(site="PDCD_WS.solve", solver="PDCD_WS", kind="single-feature-cycle"),
                        input=dict(X=X.tolist(), y=y.tolist(), alpha=as_), impl_output=dict(w=float(w1[0]), stop_crit=float(stop1)),
                        oracle=dict(optimum=best, reached=sq1(float(w1[0]))))
    rep.sample(dict(comparisons=sorted(rep.hist)))


def replay(ctx, payload):
    print(payload)
    return 0
