"""C05 - warm starts and regularisation paths solve the problem they are asked; buffer = Xw + b."""
from .solver_common import run_parallel, run_bbox

LEAN_MODULES = ["Skglm.Properties.C05", "Skglm.Properties.BCD", "Skglm.Properties.MultiTask", "Skglm.Properties.GramCD"]


def run(ctx, rep):
    rep.rule = ("AndersonCD from user-supplied (w_init, Xw_init) with supports larger and smaller than the working set "
                "(incl. unpenalised features at zero + full penalised support), in-place buffers compared with X w + b; "
                "AndersonCD.path over 2-5 alphas in arbitrary order from none / arbitrary / intercept-only w_init, each "
                "converged point held to the certificate of its own alpha; every transition of the traced runs is checked "
                "against the model; non-trivial = at least one outer iteration")
    run_parallel(ctx, rep, oracles=["buffer", "cert", "path"], gen_opts=dict(warm=True), n_quick=14, n_thorough=200)
    run_bbox(ctx, rep, oracles=["buffer", "cert"], solvers_=["ProxNewton", "GroupBCD", "GroupProxNewton", "MultiTaskBCD"])
    from . import est_common
    est_common.run_warm_refits(ctx, rep)
    from . import moves_common
    moves_common.run_bcd_moves(ctx, rep, ctx.n(25, 300))
    moves_common.run_mt_moves(ctx, rep, ctx.n(20, 300))
    moves_common.run_gram_moves(ctx, rep, ctx.n(30, 300))
    from . import mt_path
    mt_path.run_mt_path(ctx, rep)
    mt_path.run_mt_warm(ctx, rep)
    from . import moves_common as _mc
    _mc.run_pdcd_solve(ctx, rep)


def replay(ctx, payload):
    print(payload)
    return 0
