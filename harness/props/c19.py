"""C19 - degenerate data is handled: null columns get zero, nothing blows up."""
import numpy as np

from . import solver_common
from .solver_common import run_parallel, run_bbox
from .. import solvers, bbox
from ..impl import Pen

LEAN_MODULES = ["Skglm.Properties.C19", "Skglm.Properties.ProxNewtonDir", "Skglm.Properties.FISTA", "Skglm.Properties.PDCD", "Skglm.Properties.MultiTask", "Skglm.Properties.GramCD"]
SPARSITY = ("l1", "wl1", "l1l2", "mcp", "wmcp", "scad", "logsum")


def zero_cols_acd(case, res, rep):
    out = res["out"]
    if out is None:
        return
    w, obj, stop = out
    tol = case.knobs.get("tol", 1e-4)
    if not stop <= tol or case.pen.kind not in SPARSITY:
        return
    p = case.X.shape[1]
    w0 = None if case.w_init is None else np.asarray(case.w_init, float)
    for j in range(p):
        lvl = (case.pen.alpha or 0) * (case.wts[j] if case.pen.kind in Pen.WEIGHTED else 1.0) * (
            case.pen.l1_ratio if case.pen.kind == "l1l2" else 1.0)
        if w0 is not None and w0[j] != 0:
            continue        # started away from zero on a null column: C01 / C05 territory (see KF-NULLCOL-WARM)
        if not np.any(case.X[:, j]) and lvl > 10 * tol and w[j] != 0:
            rep.violate("an all-zero column received a non-zero penalised coefficient at convergence",
                        dict(case.signature(site="AndersonCD.solve"), kind="null-column-nonzero"), case=case.describe(),
                        impl_output=dict(w=np.asarray(w).tolist(), j=j))
            return


def zero_cols_bb(case, res, rep, rng):
    out = res["out"]
    if out is None or case.family != "sep" or case.solver in ("LBFGS",):
        return
    w, obj, stop = out
    tol = case.knobs.get("tol", 1e-4)
    conv = stop <= tol if case.solver != "FISTA" else stop < tol
    if not conv or case.pen.kind not in SPARSITY:
        return
    ww, _ = case.split(w)
    w0 = None if case.w_init is None else np.asarray(case.w_init, float)
    for j in range(case.X.shape[1]):
        lvl = (case.pen.alpha or 0) * (case.wts[j] if case.pen.kind in Pen.WEIGHTED else 1.0) * (
            case.pen.l1_ratio if case.pen.kind == "l1l2" else 1.0)
        if w0 is not None and w0[j] != 0:
            continue        # started away from zero on a null column: C01 / C05 territory (see KF-NULLCOL-WARM)
        if not np.any(case.X[:, j]) and lvl > 10 * tol and ww[j] != 0:
            rep.violate("an all-zero column received a non-zero penalised coefficient at convergence",
                        dict(case.signature(site=f"{case.solver}.solve"), kind="null-column-nonzero"),
                        case=case.describe(), impl_output=dict(w=np.asarray(w).tolist(), j=j))
            return


solver_common.ORACLES["zero_cols"] = zero_cols_acd
bbox.ORACLES["zero_cols"] = zero_cols_bb


def run(ctx, rep):
    rep.rule = ("all solvers on degenerate designs: all-zero columns and groups, duplicated and constant columns, "
                "p > n, single feature / group, constant or zero targets, scales 1e-3..1e3; oracles: finite output, "
                "certificate when converged, exact zero on null columns, no arithmetic exception; every AndersonCD "
                "transition is replayed on the model")
    run_parallel(ctx, rep, oracles=["feasible", "cert", "zero_cols"], gen_opts=dict(degenerate=True))
    run_bbox(ctx, rep, oracles=["feasible", "cert", "zero_cols"], degenerate=True)
    from . import moves_common
    moves_common.run_pn_direction(ctx, rep, ctx.n(20, 300))
    moves_common.run_fista(ctx, rep, ctx.n(30, 300))
    moves_common.run_pdcd(ctx, rep, ctx.n(25, 300))
    moves_common.run_pdcd_solve(ctx, rep)
    moves_common.run_mt_moves(ctx, rep, ctx.n(20, 300))
    moves_common.run_gram_moves(ctx, rep, ctx.n(30, 300))


def replay(ctx, payload):
    print(payload)
    return 0
