"""C09 - step-size constants are valid curvature bounds.

Correspondence (K): get_lipschitz / get_lipschitz_sparse / raw_hessian of the compiled single-task datafits
vs the Lean model (`DF.lipschitz`, `lipschitzSparse`, `rawHess`).
Oracles: second differences of the documented loss along coordinates and blocks, dense SVD for the global and
group constants (sparse: never above, and within the power-method accuracy), Hessian dominance for the
accessors documented as bounds (Cox, square-root loss)."""
import math

import numpy as np

from .. import lean
from ..impl import Dfit, compiled_df, compiled, call, gen_matrix, to_csc, csc_tokens, seed_numba
from ..proto import vec, mat, decode, same, canon
from .c06 import datafits, problem
from .c06_ext import cox_ref, fd_vec
from ..blocks import group_layout

LEAN_MODULES = ["Skglm.Properties.C09"]
CURV = dict(quadratic=1.0, wquadratic=1.0, huber=1.0, logistic=0.25, svc=1.0)


def near(a, b, rtol=1e-8, atol=1e-10):
    a, b = np.asarray(a, float), np.asarray(b, float)
    return a.shape == b.shape and bool(np.all(np.abs(a - b) <= atol + rtol * np.maximum(np.abs(a), np.abs(b))))


def run(ctx, rep):
    rng = ctx.rng
    rep.rule = ("Lipschitz / Hessian accessors of all datafits on structured designs (zero, duplicated, constant columns, "
                "rank deficiency, scalings 1e-3..1e3, zero sample weights); one accessor call = one evaluation; "
                "non-trivial = a non-zero constant; distinct by input bits")
    lines, expect, meta = [], [], []
    for df in datafits():
        cls = df.cls_name()
        for _ in range(ctx.n(25, 300)):
            X, y, sw, w, b, u = problem(rng, df)
            if rng.random() < 0.3:
                X = np.asfortranarray(X * 10 ** rng.uniform(-3, 3))
                u = X @ w + b
            n, p = X.shape
            Xs = to_csc(X, rng, explicit_zeros=rng.random() < 0.5)
            obj = compiled_df(df, sw)
            inp = dict(datafit=df.describe(), X=X.tolist(), y=y.tolist(), sw=sw.tolist(), w=w.tolist(), b=b)
            nn = len(str(n)) + 1
            if hasattr(obj, "get_lipschitz"):
                L = call(obj.get_lipschitz, X, y)
                lines.append(f"df_lips {df.tokens()} {n} {p} {mat(X)} {vec(sw)[nn:]}")
                expect.append(L)
                meta.append((f"{cls}.get_lipschitz", inp))
                Ls = call(obj.get_lipschitz_sparse, Xs.data, Xs.indptr, Xs.indices, y)
                lines.append(f"df_lips_sp {df.tokens()} {n} {p} {csc_tokens(Xs)} {vec(sw)[nn:]}")
                expect.append(Ls)
                meta.append((f"{cls}.get_lipschitz_sparse", inp))
                if isinstance(L, str) or isinstance(Ls, str) or not near(L, Ls):
                    rep.violate(f"{cls}: sparse and dense coordinate constants differ", dict(site=f"{cls}.get_lipschitz_sparse"),
                                input=inp, impl_output=canon(Ls), oracle=dict(dense=canon(L)))
                # curvature along coordinate j: second difference of the documented loss <= L_j
                if not isinstance(L, str) and df.kind != "svc":
                    for j in range(p):
                        t = 0.37 / (1 + float(np.max(np.abs(X[:, j]))))
                        f = lambda tt: df.ref_value(sw, y, u + tt * X[:, j], w)   # noqa: E731
                        curv = (f(t) - 2 * f(0.0) + f(-t)) / (t * t)
                        tolc = 1e-6 * (1 + abs(L[j])) + 1e-7 * (abs(f(0.0)) + 1) / (t * t)
                        if curv > L[j] + tolc:
                            rep.violate(f"{cls}.get_lipschitz[j] is below the curvature of the loss along coordinate j",
                                        dict(site=f"{cls}.get_lipschitz"), input=dict(inp, j=j), impl_output=float(L[j]),
                                        oracle=dict(name="second difference of the documented loss", curvature=curv))
                        if df.kind in ("quadratic", "wquadratic") and abs(curv - L[j]) > tolc:
                            rep.violate(f"{cls}.get_lipschitz[j] is not the exact curvature of the quadratic loss",
                                        dict(site=f"{cls}.get_lipschitz"), input=dict(inp, j=j), impl_output=float(L[j]),
                                        oracle=dict(curvature=curv))
            if hasattr(obj, "raw_hessian") and df.kind not in ("huber",):
                H = call(obj.raw_hessian, y, u)
                lines.append(f"df_rawhess {df.tokens()} {n} {vec(sw)[nn:]} {vec(y)[nn:]} {vec(u)[nn:]}")
                expect.append(H)
                meta.append((f"{cls}.raw_hessian", inp))
                if not isinstance(H, str) and df.kind != "svc" and float(np.max(np.abs(u))) < 20 \
                        and float(np.max(np.abs(y))) < 20:
                    h2 = np.array([(df.ref_value(sw, y, u + 1e-4 * np.eye(n)[i], w) - 2 * df.ref_value(sw, y, u, w)
                                    + df.ref_value(sw, y, u - 1e-4 * np.eye(n)[i], w)) / 1e-8 for i in range(n)])
                    if not near(H, h2, 1e-4, 1e-6 * (1 + float(np.max(np.abs(H))))):
                        rep.violate(f"{cls}.raw_hessian is not the second derivative w.r.t. the linear predictor",
                                    dict(site=f"{cls}.raw_hessian"), input=inp, impl_output=canon(H),
                                    oracle=dict(name="second differences", value=h2.tolist()))
            # global constants: dense exact (SVD), sparse never above and within power-method accuracy
            if hasattr(obj, "get_global_lipschitz") and df.kind in CURV:
                c = CURV[df.kind]
                if df.kind == "wquadratic":
                    true = np.linalg.norm(np.sqrt(sw)[:, None] * X, 2) ** 2 / np.sum(sw)
                elif df.kind == "svc":
                    true = np.linalg.norm(X, 2) ** 2
                else:
                    true = c * np.linalg.norm(X, 2) ** 2 / n
                G = call(obj.get_global_lipschitz, X, y)
                rep.count(f"{cls}.get_global_lipschitz", isinstance(G, str) or G == 0, ("gl", hash(X.tobytes()), df.key()))
                if isinstance(G, str) or not near(G, true, 1e-8, 1e-12):
                    rep.violate(f"{cls}.get_global_lipschitz is not the global curvature constant of the loss",
                                dict(site=f"{cls}.get_global_lipschitz"), input=inp, impl_output=str(G),
                                oracle=dict(name="spectral norm by SVD", value=float(true)))
                seed_numba()
                if Xs.nnz == 0:
                    continue      # an empty CSC structure carries no row count for QuadraticSVC (max(indices) + 1)
                Gs = call(obj.get_global_lipschitz_sparse, Xs.data, Xs.indptr, Xs.indices, y)
                if isinstance(Gs, str) or Gs > true * (1 + 1e-9) + 1e-12:
                    rep.violate(f"{cls}.get_global_lipschitz_sparse is above the true constant",
                                dict(site=f"{cls}.get_global_lipschitz_sparse"), input=inp, impl_output=str(Gs),
                                oracle=dict(value=float(true)))
    outs = lean.drive(lines)
    for line, out, res, (site, inp) in zip(lines, outs, expect, meta):
        m, i = decode(out), canon(res)
        nontriv = not isinstance(res, str) and bool(np.any(np.asarray(res) != 0))
        rep.count(site, not nontriv, hash(line))
        if not same(i, m, 1e-8, 1e-12):
            rep.disagree("K:lipschitz", line[:300], i[:12], m[:12], dict(site=site), input=inp)
    if lines:
        rep.sample(dict(line=lines[0][:300], impl=canon(expect[0])[:8], model=decode(outs[0])[:8]))
    run_sparse_slices(ctx, rep)
    run_group_constants(ctx, rep)
    run_dominance(ctx, rep)


def run_sparse_slices(ctx, rep):
    """the CSC column slice behind every sparse group constant: the slice must represent X[:, cols] for any list of
    columns — empty columns first, last and in the middle, repeated and permuted columns"""
    from scipy import sparse
    from skglm.utils.sparse_ops import sparse_columns_slice
    rng = ctx.rng
    for _ in range(ctx.n(80, 800)):
        n, p = rng.randrange(1, 8), rng.randrange(1, 9)
        X = gen_matrix(rng, n, p, rng.choice(["sparse", "sparse", "dyadic", "degenerate"]))
        for j in range(p):
            if rng.random() < 0.3:
                X[:, j] = 0.0
        Xs = to_csc(X, rng, explicit_zeros=rng.random() < 0.3)
        cols = np.array(rng.sample(range(p), rng.randrange(1, p + 1)), dtype=np.int32)
        r = call(sparse_columns_slice, cols, Xs.data, Xs.indptr, Xs.indices)
        rep.count("sparse_columns_slice", False, ("slice", hash(X.tobytes()), tuple(cols)))
        inp = dict(X=X.tolist(), cols=cols.tolist())
        ok = not isinstance(r, str)
        if ok:
            d, ip, ix = (np.asarray(t) for t in r)
            # validate the structure before any library touches it (scipy trusts indptr)
            wellformed = (len(ip) == len(cols) + 1 and ip[0] == 0 and np.all(np.diff(ip) >= 0) and ip[-1] == len(d) == len(ix)
                          and (len(ix) == 0 or (ix.min() >= 0 and ix.max() < n)))
            if wellformed:
                sub = np.zeros((n, len(cols)))
                for k in range(len(cols)):
                    for t in range(ip[k], ip[k + 1]):
                        sub[ix[t], k] += d[t]
                ok = np.array_equal(sub, X[:, cols])
            else:
                ok = False
        if not ok:
            rep.violate("sparse_columns_slice does not return the CSC structure of X[:, cols]",
                        dict(site="sparse_columns_slice", kind="slice"), input=inp,
                        impl_output=r if isinstance(r, str) else [np.asarray(t).tolist() for t in r],
                        oracle=dict(dense=X[:, cols].tolist()))


def run_group_constants(ctx, rep):
    from skglm.datafits import QuadraticGroup, LogisticGroup, QuadraticMultiTask
    rng = ctx.rng
    for _ in range(ctx.n(40, 400)):
        n, p = rng.randrange(2, 9), rng.randrange(1, 8)
        X = gen_matrix(rng, n, p)
        for j in range(p):                      # all-zero columns anywhere inside the groups
            if rng.random() < 0.2:
                X[:, j] = 0.0
        y = np.array([rng.choice([-1.0, 1.0]) for _ in range(n)])
        groups, gp, gi = group_layout(rng, p)
        for cls, c in ((QuadraticGroup, 1.0), (LogisticGroup, 0.25)):
            obj = compiled(cls(gp, gi))
            L = call(obj.get_lipschitz, X, y)
            true = np.array([c * np.linalg.norm(X[:, g], 2) ** 2 / n for g in groups])
            inp = dict(datafit=cls.__name__, X=X.tolist(), groups=groups)
            rep.count(f"{cls.__name__}.get_lipschitz", False, ("grpL", cls.__name__, hash(X.tobytes()), str(groups)))
            if isinstance(L, str) or not near(L, true, 1e-8, 1e-12):
                rep.violate(f"{cls.__name__}.get_lipschitz is not the group-wise curvature constant ||X_g||_2^2 c / n",
                            dict(site=f"{cls.__name__}.get_lipschitz"), input=inp, impl_output=canon(L),
                            oracle=dict(name="block spectral norms by SVD", value=true.tolist()))
            if cls is QuadraticGroup:
                Xs = to_csc(X)
                seed_numba()
                Ls = call(obj.get_lipschitz_sparse, Xs.data, Xs.indptr, Xs.indices, y)
                if not isinstance(Ls, str) and np.any(np.asarray(Ls) < 0.9 * true - 1e-12):
                    rep.violate("QuadraticGroup.get_lipschitz_sparse is far below the true block constant "
                                "(beyond the accuracy of the power iteration)",
                                dict(site="QuadraticGroup.get_lipschitz_sparse", kind="below"), input=inp,
                                impl_output=canon(Ls), oracle=dict(value=true.tolist()))
                if isinstance(Ls, str) or np.any(np.asarray(Ls) > true * (1 + 1e-9) + 1e-12):
                    rep.violate("QuadraticGroup.get_lipschitz_sparse is above the true block constant",
                                dict(site="QuadraticGroup.get_lipschitz_sparse"), input=inp, impl_output=canon(Ls),
                                oracle=dict(value=true.tolist()))
        Y = np.asfortranarray(np.array([[rng.gauss(0, 1)] * 2 for _ in range(n)]))
        mt = compiled(QuadraticMultiTask())
        L = call(mt.get_lipschitz, X, Y)
        Xs = to_csc(X)
        Ls = call(mt.get_lipschitz_sparse, Xs.data, Xs.indptr, Xs.indices, Y)
        true = (X ** 2).sum(axis=0) / n
        if isinstance(L, str) or isinstance(Ls, str) or not near(L, true) or not near(Ls, true):
            rep.violate("QuadraticMultiTask.get_lipschitz(_sparse) is not ||X_j||^2 / n",
                        dict(site="QuadraticMultiTask.get_lipschitz"), input=dict(X=X.tolist()), impl_output=[canon(L), canon(Ls)],
                        oracle=dict(value=true.tolist()))


def run_dominance(ctx, rep):
    """accessors documented as diagonal upper bounds: v' H v <= sum_i h_i v_i^2"""
    from skglm.datafits import Cox
    from skglm.experimental.sqrt_lasso import SqrtQuadratic
    rng = ctx.rng
    for _ in range(ctx.n(30, 300)):
        n = rng.randrange(2, 8)
        tm = np.array([float(rng.choice([1, 2, 2, 3, 3, 4, 5])) for _ in range(n)])
        s = np.array([float(rng.random() < 0.7) for _ in range(n)])
        if not np.any(s):
            s[0] = 1.0
        efron = rng.random() < 0.5
        y = np.column_stack([tm, s])
        u = np.array([rng.choice([0.0, 0.5, -0.5, 1.0]) for _ in range(n)])
        obj = compiled(Cox(use_efron=efron))
        call(obj.initialize, np.zeros((n, 1)), y)
        h = call(obj.raw_hessian, y, u)
        rep.count("Cox.raw_hessian", False, ("coxh", tuple(tm), tuple(s), tuple(u), efron))
        if isinstance(h, str):
            rep.violate(f"Cox.raw_hessian raises {h}", dict(site="Cox.raw_hessian"), input=dict(tm=tm.tolist(), s=s.tolist()))
            continue
        f = lambda uu: cox_ref(tm, s, uu, efron)   # noqa: E731
        for _ in range(4):
            v = np.array([rng.gauss(0, 1) for _ in range(n)])
            t = 1e-3
            quad = (f(u + t * v) - 2 * f(u) + f(u - t * v)) / (t * t)
            if quad > float(np.sum(h * v * v)) + 1e-5 * (1 + abs(quad)):
                rep.violate("Cox.raw_hessian does not dominate the Hessian of the documented loss",
                            dict(site="Cox.raw_hessian", use_efron=efron),
                            input=dict(tm=tm.tolist(), s=s.tolist(), u=u.tolist(), v=v.tolist()),
                            impl_output=np.asarray(h).tolist(), oracle=dict(vHv=quad, bound=float(np.sum(h * v * v))))
                break
        yy = np.array([rng.gauss(0, 2) for _ in range(n)])
        uu = np.array([rng.gauss(0, 1) for _ in range(n)])
        sq = compiled(SqrtQuadratic())
        hh = call(sq.raw_hessian, yy, uu)
        g = lambda z: float(np.sqrt(np.sum((yy - z) ** 2)))   # noqa: E731
        v = np.array([rng.gauss(0, 1) for _ in range(n)])
        quad = (g(uu + 1e-3 * v) - 2 * g(uu) + g(uu - 1e-3 * v)) / 1e-6
        rep.count("SqrtQuadratic.raw_hessian", False, ("sqh", tuple(yy), tuple(uu)))
        if isinstance(hh, str) or quad > float(np.sum(hh * v * v)) + 1e-5 * (1 + abs(quad)):
            rep.violate("SqrtQuadratic.raw_hessian does not dominate the Hessian", dict(site="SqrtQuadratic.raw_hessian"),
                        input=dict(y=yy.tolist(), Xw=uu.tolist()), impl_output=canon(hh), oracle=dict(vHv=quad))


def replay(ctx, payload):
    print(payload)
    return 0
