"""Access to the real skglm code (imported from /repo's working tree) and python-side
descriptions of penalties / datafits that can be rendered both as real compiled objects and as
model driver tokens."""
import math
import warnings

import numpy as np

from .proto import fb, b

warnings.filterwarnings("ignore")


def classify_exc(e):
    n = type(e).__name__
    if n in ("ValueError", "AttributeError", "ZeroDivisionError", "IndexError", "TypeError",
             "UnboundLocalError", "KeyError"):
        return "err:" + n
    if "Typing" in n or "Lowering" in n or "Numba" in n or "Unsupported" in n:
        return "err:numba:" + n
    return "err:other:" + n


def call(f, *a, **k):
    """run implementation code, mapping exceptions to tokens"""
    try:
        return f(*a, **k)
    except Exception as e:  # noqa: BLE001
        return classify_exc(e)


_cc = None


def compiled(obj):
    global _cc
    if _cc is None:
        from skglm.utils.jit_compilation import compiled_clone
        _cc = compiled_clone
    return _cc(obj)


class Pen:
    """a separable penalty configuration: kind + hyper-parameters"""
    KINDS = ("l1", "l1l2", "wl1", "mcp", "wmcp", "scad", "box", "l05", "l23", "logsum", "pos")
    WEIGHTED = ("wl1", "wmcp")
    HAS_POS = ("l1", "l1l2", "wl1", "mcp", "wmcp")

    def __init__(self, kind, alpha=None, gamma=None, l1_ratio=None, eps=None, positive=False):
        self.kind, self.alpha, self.gamma = kind, alpha, gamma
        self.l1_ratio, self.eps, self.positive = l1_ratio, eps, positive

    def tokens(self):
        k = self.kind
        if k in ("l1", "wl1"):
            return f"{k} {fb(self.alpha)} {b(self.positive)}"
        if k == "l1l2":
            return f"{k} {fb(self.alpha)} {fb(self.l1_ratio)} {b(self.positive)}"
        if k in ("mcp", "wmcp"):
            return f"{k} {fb(self.alpha)} {fb(self.gamma)} {b(self.positive)}"
        if k == "scad":
            return f"{k} {fb(self.alpha)} {fb(self.gamma)}"
        if k in ("box", "l05", "l23"):
            return f"{k} {fb(self.alpha)}"
        if k == "logsum":
            return f"{k} {fb(self.alpha)} {fb(self.eps)}"
        return "pos"

    def key(self):
        return (self.kind, self.alpha, self.gamma, self.l1_ratio, self.eps, self.positive)

    def describe(self):
        d = dict(kind=self.kind)
        for k in ("alpha", "gamma", "l1_ratio", "eps"):
            if getattr(self, k) is not None:
                d[k] = getattr(self, k)
        if self.kind in self.HAS_POS:
            d["positive"] = self.positive
        return d

    def cls_name(self):
        return dict(l1="L1", l1l2="L1_plus_L2", wl1="WeightedL1", mcp="MCPenalty",
                    wmcp="WeightedMCPenalty", scad="SCAD", box="IndicatorBox", l05="L0_5",
                    l23="L2_3", logsum="LogSumPenalty", pos="PositiveConstraint")[self.kind]

    def build(self, weights=None):
        """the real (uncompiled) penalty object"""
        import skglm.penalties as P
        k = self.kind
        if k == "l1":
            return P.L1(self.alpha, positive=self.positive)
        if k == "l1l2":
            return P.L1_plus_L2(self.alpha, self.l1_ratio, positive=self.positive)
        if k == "wl1":
            return P.WeightedL1(self.alpha, np.asarray(weights, dtype=float), positive=self.positive)
        if k == "mcp":
            return P.MCPenalty(self.alpha, self.gamma, positive=self.positive)
        if k == "wmcp":
            return P.WeightedMCPenalty(self.alpha, self.gamma, np.asarray(weights, dtype=float),
                                       positive=self.positive)
        if k == "scad":
            return P.SCAD(self.alpha, self.gamma)
        if k == "box":
            return P.IndicatorBox(self.alpha)
        if k == "l05":
            return P.L0_5(self.alpha)
        if k == "l23":
            return P.L2_3(self.alpha)
        if k == "logsum":
            return P.LogSumPenalty(self.alpha, self.eps)
        return P.PositiveConstraint()

    # ---- independent reference (documented formula), used by the semantic oracles only ----
    def ref_pen1(self, u, wt=1.0):
        """documented penalty value of one coordinate (inf when a constraint is violated)"""
        k, a = self.kind, self.alpha
        if self.kind in self.HAS_POS and self.positive and u < 0:
            return math.inf
        au = abs(u)
        if k == "l1":
            return a * au
        if k == "l1l2":
            return a * (self.l1_ratio * au + (1 - self.l1_ratio) * u * u / 2)
        if k == "wl1":
            return a * wt * au
        if k in ("mcp", "wmcp"):
            g = self.gamma
            v = a * au - u * u / (2 * g) if au <= a * g else g * a * a / 2
            return (wt if k == "wmcp" else 1.0) * v
        if k == "scad":
            g = self.gamma
            if au <= a:
                return a * au
            if au <= a * g:
                return (2 * g * a * au - u * u - a * a) / (2 * (g - 1))
            return a * a * (g + 1) / 2
        if k == "box":
            return 0.0 if 0 <= u <= a else math.inf
        if k == "l05":
            return a * math.sqrt(au)
        if k == "l23":
            return a * au ** (2 / 3)
        if k == "logsum":
            return a * math.log1p(au / self.eps)
        if k == "pos":
            return 0.0 if u >= 0 else math.inf
        raise KeyError(k)

    def admissible_step(self, s, wt=1.0):
        """the step range in which the prox objective is well posed (C07 'admissible range')"""
        if self.kind == "mcp":
            return s < self.gamma
        if self.kind == "wmcp":
            return s * wt < self.gamma
        if self.kind == "scad":
            return s < self.gamma - 1
        return True


_pen_cache = {}


def compiled_pen(pen, weights=None):
    key = (pen.key(), None if weights is None else tuple(float(x) for x in weights))
    if key not in _pen_cache:
        if len(_pen_cache) > 4000:
            _pen_cache.clear()
        _pen_cache[key] = compiled(pen.build(weights))
    return _pen_cache[key]


class Dfit:
    """a single-task datafit configuration"""
    KINDS = ("quadratic", "wquadratic", "logistic", "huber", "poisson", "gamma", "svc")

    def __init__(self, kind, delta=None):
        self.kind, self.delta = kind, delta

    def tokens(self):
        return f"huber {fb(self.delta)}" if self.kind == "huber" else self.kind

    def key(self):
        return (self.kind, self.delta)

    def describe(self):
        return dict(kind=self.kind, **({"delta": self.delta} if self.kind == "huber" else {}))

    def cls_name(self):
        return dict(quadratic="Quadratic", wquadratic="WeightedQuadratic", logistic="Logistic",
                    huber="Huber", poisson="Poisson", gamma="Gamma", svc="QuadraticSVC")[self.kind]

    def build(self, sw=None):
        import skglm.datafits as D
        k = self.kind
        if k == "quadratic":
            return D.Quadratic()
        if k == "wquadratic":
            return D.WeightedQuadratic(np.asarray(sw, dtype=float))
        if k == "logistic":
            return D.Logistic()
        if k == "huber":
            return D.Huber(self.delta)
        if k == "poisson":
            return D.Poisson()
        if k == "gamma":
            return D.Gamma()
        return D.QuadraticSVC()

    # ---- documented formulas (class docstrings), for the oracles only ----
    def ref_value(self, sw, y, u, w):
        k = self.kind
        n = len(u)
        if k == "quadratic":
            return float(np.sum((y - u) ** 2) / (2 * n))
        if k == "wquadratic":
            return float(np.sum(sw * (y - u) ** 2) / (2 * np.sum(sw)))
        if k == "logistic":
            return float(np.sum(np.logaddexp(0, -y * u)) / n)
        if k == "huber":
            r = np.abs(y - u)
            d = self.delta
            return float(np.sum(np.where(r <= d, 0.5 * r ** 2, d * r - 0.5 * d ** 2)) / n)
        if k == "poisson":
            return float(np.sum(np.exp(u) - y * u) / n)
        if k == "gamma":
            return float(np.sum(u + y * np.exp(-u) - 1 - np.log(y)) / n)
        return float(0.5 * np.sum(u ** 2) - np.sum(w))

    def gen_y(self, rng, n, structured=True):
        k = self.kind
        if k == "logistic":
            return np.array([rng.choice([-1.0, 1.0]) for _ in range(n)])
        if k == "poisson":
            return np.array([float(rng.choice([0, 0, 1, 2, 3, 5])) for _ in range(n)])
        if k == "gamma":
            return np.array([rng.choice([0.25, 0.5, 1.0, 2.0, 3.5]) for _ in range(n)])
        if structured:
            return np.array([rng.choice([-2.0, -1.0, -0.5, 0.0, 0.5, 1.0, 2.0, 3.0]) for _ in range(n)])
        return np.array([rng.gauss(0, 1) * 10 ** rng.uniform(-1, 1) for _ in range(n)])


def compiled_df(df, sw=None):
    return compiled(df.build(sw))


def gen_matrix(rng, n, p, mode=None):
    """structured design: small dyadic entries, zero / duplicated / constant columns, sparsity"""
    mode = mode or rng.choice(["dyadic", "dyadic", "sparse", "gauss", "degenerate"])
    vals = [0.0, 0.0, 1.0, -1.0, 0.5, -0.5, 2.0, -2.0, 0.25, 1.5]
    if mode == "gauss":
        X = np.array([[rng.gauss(0, 1) for _ in range(p)] for _ in range(n)])
    elif mode == "sparse":
        X = np.array([[rng.choice(vals) if rng.random() < 0.35 else 0.0 for _ in range(p)]
                      for _ in range(n)])
    else:
        X = np.array([[rng.choice(vals) for _ in range(p)] for _ in range(n)])
    if mode == "degenerate" and p >= 2:
        j = rng.randrange(p)
        X[:, j] = 0.0
        k = rng.randrange(p)
        X[:, k] = X[:, (k + 1) % p] if rng.random() < 0.5 else 1.0
    return np.asfortranarray(X.reshape(n, p))


def to_csc(X, rng=None, explicit_zeros=False, full_null=False):
    """scipy CSC of X; optionally with some explicitly stored zeros"""
    from scipy import sparse
    Xs = sparse.csc_matrix(X)
    if explicit_zeros and rng is not None:
        n, p = X.shape
        data, indices, indptr = [], [], [0]
        # all-zero columns: stored entirely as explicit zeros half of the time (what `X[:, j] = 0` leaves behind)
        full = {j for j in range(p) if not np.any(X[:, j]) and (full_null or rng.random() < 0.5)}
        for j in range(p):
            for i in range(n):
                if X[i, j] != 0 or rng.random() < (0.15 if j not in full else 1.0):
                    data.append(X[i, j])
                    indices.append(i)
            indptr.append(len(data))
        Xs = sparse.csc_matrix((np.array(data, dtype=float), np.array(indices, dtype=np.int32),
                                np.array(indptr, dtype=np.int32)), shape=(n, p))
    return Xs


def case_csc(case):
    """the CSC matrix handed to the solver for a case: canonical, or (case.explicit_zeros = seed) with explicitly
    stored zeros, deterministic in the seed so that model and implementation see the same structure"""
    import random as _random
    ez = getattr(case, "explicit_zeros", None)
    if ez is None:
        return to_csc(case.X)
    return to_csc(case.X, _random.Random(ez), explicit_zeros=True, full_null=ez < 0)   # negative seed: every null column fully stored


def csc_tokens(Xs):
    """`pCSC` encoding: per column `k (row value)*k`"""
    out = []
    for j in range(Xs.shape[1]):
        lo, hi = Xs.indptr[j], Xs.indptr[j + 1]
        out.append(str(hi - lo))
        for t in range(lo, hi):
            out.append(str(int(Xs.indices[t])))
            out.append(fb(Xs.data[t]))
    return " ".join(out)


_seed_fn = None


def seed_numba(k=12345):
    """numba keeps its own RNG state (used by the power iteration of sparse_ops.spectral_norm):
    re-seed it so that repeated runs of one case are deterministic prefixes of one another"""
    global _seed_fn
    if _seed_fn is None:
        from numba import njit

        @njit
        def _s(v):
            np.random.seed(v)
        _seed_fn = _s
    _seed_fn(k)
