import Skglm.Scalar
import Skglm.Model.Prox
import Skglm.Model.Penalties
