import Skglm.Driver.Ops
import Skglm.Driver.OpsDatafit
import Skglm.Driver.OpsCD
import Skglm.Driver.OpsValidate
import Skglm.Driver.OpsEst
import Skglm.Driver.OpsSolvers
open Skglm Skglm.Proto

def answer (line : String) : String :=
  let toks := (line.splitOn " ").filter (· ≠ "")
  match toks with
  | [] => "err:empty"
  | op :: args =>
    match (Skglm.Ops.penOps op <|> Skglm.Ops.dfOps op <|> Skglm.Ops.blkOps op <|> Skglm.Ops.cdOps op <|> Skglm.Ops.valOps op <|> Skglm.Ops.estOps op <|> Skglm.Ops.solverOps op <|> Skglm.Ops.solverOps2 op) with
    | none => s!"err:unknown-op:{op}"
    | some p =>
      match p.run args with
      | .ok (r, []) => r
      | .ok (_, _ :: _) => "err:trailing"
      | .error e => s!"err:{e}"

partial def loop (h : IO.FS.Stream) (out : IO.FS.Stream) : IO Unit := do
  let line ← h.getLine
  if line.isEmpty then return ()
  out.putStrLn (answer (line.trimAscii.toString))
  loop h out

def main : IO Unit := do
  let i ← IO.getStdin
  let o ← IO.getStdout
  loop i o
