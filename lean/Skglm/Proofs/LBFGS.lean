import Skglm.Model.LBFGS
import Skglm.Proofs.FISTA
import Skglm.Properties.C02
/-
  Lemmas behind `Skglm/Properties/LBFGS.lean`: the L-BFGS wrapper (`skglm/solvers/lbfgs.py`) and the
  `L2` penalty.  Specification-side definitions first, then the bridging lemmas.
-/
namespace Skglm.Lbfgs
open Skglm Skglm.Spec Skglm.Proofs
variable {n p : Nat}

/-! ### specification side -/

/-- `X w` -/
noncomputable def lin (P : LbfgsProb ℝ n p) (w : Fin p → ℝ) : Fin n → ℝ :=
  fun i => ∑ k, P.X i k * w k

/-- the documented objective `datafit(y, Xw) + alpha/2 ‖w‖²`, from `X, y, w` alone -/
noncomputable def trueObjective (P : LbfgsProb ℝ n p) (w : Fin p → ℝ) : ℝ :=
  P.df.value P.sw P.y (lin P w) w + P.alpha / 2 * ∑ j, w j ^ 2

/-- the gradient of the documented objective, from `X, y, w` alone:
    `Xᵀ raw_grad(y, Xw) (+ lin) + alpha w` -/
noncomputable def trueGrad (P : LbfgsProb ℝ n p) (w : Fin p → ℝ) : Fin p → ℝ :=
  fun j => P.df.gradScalar P.X P.sw P.y (lin P w) j + P.alpha * w j

/-- data for which the datafit is convex: non-negative sample weights and normaliser, Huber
    threshold positive, Gamma targets non-negative (nothing for Quadratic, Logistic, Poisson
    beyond the first two, which hold for `sw = 1`) -/
def ConvexData (P : LbfgsProb ℝ n p) : Prop :=
  (∀ i, 0 ≤ P.sw i) ∧ 0 ≤ P.df.normaliser P.sw ∧
  (∀ delta, P.df = .huber delta → 0 < delta) ∧ (P.df = .gamma → ∀ i, 0 ≤ P.y i)

/-- the problem AndersonCD would be given for the same objective: `L2(alpha)` is
    `L1_plus_L2(alpha, l1_ratio=0)` as a function, no intercept -/
def toCD (P : LbfgsProb ℝ n p) : CDProb ℝ n p :=
  { X := P.X, y := P.y, sw := P.sw, df := P.df, pen := .l1l2 P.alpha 0 false,
    wts := fun _ => 1, fitInt := false }

/-! ### bridging -/

theorem Xv_eq (P : LbfgsProb ℝ n p) (w : Fin p → ℝ) : P.Xv w = lin P w := by
  funext i
  simp only [LbfgsProb.Xv, mat_eq, dot_eq, lin]

theorem l2Value_eq (a : ℝ) (w : Fin p → ℝ) : l2Value a w = a / 2 * ∑ j, w j ^ 2 := by
  simp only [l2Value, vsum_eq, nat_eq, Nat.cast_ofNat]
  rw [show (∑ j, w j * w j) = ∑ j, w j ^ 2 from Finset.sum_congr rfl (fun j _ => (sq (w j)).symm)]
  ring

theorem objective_eq (P : LbfgsProb ℝ n p) (w : Fin p → ℝ) :
    P.lbfgsObjective w = trueObjective P w := by
  unfold LbfgsProb.lbfgsObjective trueObjective
  rw [Xv_eq, l2Value_eq]

theorem jac_eq (P : LbfgsProb ℝ n p) (w : Fin p → ℝ) : P.lbfgsJac w = trueGrad P w := by
  funext j
  simp only [LbfgsProb.lbfgsJac, mat_eq, Fista.DF.gradient_eq, Xv_eq, l2Grad, trueGrad]

/-! ### the sparse accessors -/

theorem foldl_axpy_dense (M : CSC ℝ n p) (w : Fin p → ℝ) (i : Fin n) :
    ∀ (m : Nat) (hm : m ≤ p) (u : Fin n → ℝ),
      Fin.foldl m (fun u (j : Fin m) => M.colAxpy (Fin.castLE hm j) (w (Fin.castLE hm j)) u) u i
        = u i + ∑ j : Fin m, M.toDense i (Fin.castLE hm j) * w (Fin.castLE hm j) := by
  intro m
  induction m with
  | zero => intro hm u; simp [Fin.foldl_zero]
  | succ m ih =>
    intro hm u
    rw [Fin.foldl_succ_last, Fin.sum_univ_castSucc, colAxpy_eq_dense]
    have := ih (Nat.le_of_succ_le hm) u
    simp only [Fin.castLE_castSucc] at this ⊢
    rw [this]
    simp only [Fin.castLE]
    ring

/-- the CSC product `X @ w` is the dense product with the represented matrix -/
theorem matVec_eq (M : CSC ℝ n p) (w : Fin p → ℝ) (i : Fin n) :
    M.matVec w i = ∑ j, M.toDense i j * w j := by
  have h := foldl_axpy_dense M w i p (le_refl p) (fun _ => 0)
  simp only [Fin.castLE_refl, zero_add] at h
  simp only [CSC.matVec, mat_eq]
  exact h

theorem gradientSparse_eq (d : DF ℝ) (M : CSC ℝ n p) (sw y u : Fin n → ℝ) (j : Fin p) :
    d.gradientSparse M sw y u j = d.gradScalar M.toDense sw y u j := by
  cases d <;>
    simp only [DF.gradientSparse, mat_eq, gradScalarSparse_eq_dense]
  simp only [DF.gradScalar, colDot_eq_dense, vsum_eq, DF.lin, add_zero]

/-! ### the sup-norm -/

theorem supNorm_foldl_le_iff (g : Fin p → ℝ) (t : ℝ) :
    ∀ (m : Nat) (hm : m ≤ p) (a : ℝ),
      Fin.foldl m (fun acc (j : Fin m) => smax acc (sabs (g (Fin.castLE hm j)))) a ≤ t
        ↔ a ≤ t ∧ ∀ j : Fin m, |g (Fin.castLE hm j)| ≤ t := by
  intro m
  induction m with
  | zero => intro hm a; simp [Fin.foldl_zero]
  | succ m ih =>
    intro hm a
    rw [Fin.foldl_succ_last, smax_eq, sabs_eq, max_le_iff]
    have := ih (Nat.le_of_succ_le hm) a
    simp only [Fin.castLE_castSucc] at this ⊢
    rw [this, Fin.forall_fin_succ']
    tauto

theorem supNorm_le_iff (g : Fin p → ℝ) (t : ℝ) : supNorm g ≤ t ↔ 0 ≤ t ∧ ∀ j, |g j| ≤ t := by
  have h := supNorm_foldl_le_iff g t p (le_refl p) 0
  simp only [Fin.castLE_refl] at h
  exact h

theorem abs_le_supNorm (g : Fin p → ℝ) (j : Fin p) : |g j| ≤ supNorm g :=
  ((supNorm_le_iff g _).1 (le_refl _)).2 j

theorem supNorm_nonneg (g : Fin p → ℝ) : 0 ≤ supNorm g :=
  ((supNorm_le_iff g _).1 (le_refl _)).1

theorem supNorm_eq_zero_iff (g : Fin p → ℝ) : supNorm g = 0 ↔ ∀ j, g j = 0 := by
  constructor
  · intro h j
    have := abs_le_supNorm g j
    rw [h] at this
    exact abs_eq_zero.1 (le_antisymm this (abs_nonneg _))
  · intro h
    refine le_antisymm ((supNorm_le_iff g 0).2 ⟨le_refl _, fun j => by rw [h j]; simp⟩)
      (supNorm_nonneg g)

/-! ### derivatives -/

/-- partial derivative of `alpha/2 ‖w‖²` -/
theorem l2_hasDerivAt (a : ℝ) (w : Fin p → ℝ) (j : Fin p) :
    HasDerivAt (fun t => a / 2 * ∑ k, (Function.update w j t k) ^ 2) (a * w j) (w j) := by
  have hk : ∀ k, HasDerivAt (fun t => (Function.update w j t k) ^ 2)
      (2 * w k * (if k = j then 1 else 0)) (w j) := by
    intro k
    have h := (update_hasDerivAt w j k (w j)).fun_pow 2
    refine h.congr_deriv ?_
    rw [Function.update_eq_self]
    norm_num
  have hs := (HasDerivAt.fun_sum (u := Finset.univ) (fun k _ => hk k)).const_mul (a / 2)
  refine hs.congr_deriv ?_
  simp only [mul_ite, mul_one, mul_zero, Finset.sum_ite_eq', Finset.mem_univ, if_true]
  ring

/-- partial derivative of the documented objective -/
theorem trueObjective_hasDerivAt (P : LbfgsProb ℝ n p) (w : Fin p → ℝ) (j : Fin p)
    (hdelta : ∀ delta, P.df = .huber delta → 0 < delta) :
    HasDerivAt (fun t => trueObjective P (Function.update w j t)) (trueGrad P w j) (w j) := by
  have h1 := gradScalar_hasDerivAt P.df P.X P.sw P.y w 0 j hdelta
  simp only [add_zero] at h1
  exact h1.add (l2_hasDerivAt P.alpha w j)

/-- directional derivative of the documented objective: along every line `t ↦ w + t d` the slope at
    `t = 0` is `⟨trueGrad w, d⟩` -/
theorem trueObjective_hasDerivAt_dir (P : LbfgsProb ℝ n p) (w d : Fin p → ℝ)
    (hdelta : ∀ delta, P.df = .huber delta → 0 < delta) :
    HasDerivAt (fun t => trueObjective P (fun k => w k + t * d k)) (∑ j, trueGrad P w j * d j) 0 := by
  have hk : ∀ k, HasDerivAt (fun t : ℝ => w k + t * d k) (d k) 0 := by
    intro k
    have := ((hasDerivAt_id' (0:ℝ)).mul_const (d k)).const_add (w k)
    simpa using this
  have hU : ∀ i, HasDerivAt (fun t => lin P (fun k => w k + t * d k) i) (∑ k, P.X i k * d k) 0 := by
    intro i
    exact HasDerivAt.fun_sum (fun k _ => (hk k).const_mul (P.X i k))
  have hW : HasDerivAt (fun t => ∑ j, (w j + t * d j)) (∑ j, d j) 0 :=
    HasDerivAt.fun_sum (fun k _ => hk k)
  have h1 := value_hasDerivAt P.df P.sw P.y (fun t => lin P (fun k => w k + t * d k))
    (fun i => ∑ k, P.X i k * d k) (fun t k => w k + t * d k) (∑ j, d j) 0 hU hW hdelta
  have h2 : HasDerivAt (fun t => P.alpha / 2 * ∑ k, (w k + t * d k) ^ 2)
      (∑ k, P.alpha * w k * d k) 0 := by
    have := (HasDerivAt.fun_sum (u := Finset.univ) (fun k _ => (hk k).fun_pow 2)).const_mul (P.alpha / 2)
    refine this.congr_deriv ?_
    rw [Finset.mul_sum]
    refine Finset.sum_congr rfl (fun k _ => ?_)
    norm_num
    ring
  refine (h1.add h2).congr_deriv ?_
  have e0 : (fun k => w k + 0 * d k) = w := by funext k; simp
  simp only [e0, trueGrad, add_mul, Finset.sum_add_distrib, DF.gradScalar, DF.rawGrad, vsum_eq,
    Finset.sum_mul, ← Finset.mul_sum]
  congr 1
  congr 1
  rw [Finset.sum_div, Finset.sum_comm]
  refine Finset.sum_congr rfl (fun i _ => ?_)
  rw [Finset.mul_sum, Finset.mul_sum, Finset.sum_div]
  refine Finset.sum_congr rfl (fun j _ => ?_)
  ring

/-! ### convexity -/

/-- the gradient inequality, with the quadratic term of the penalty kept (an equality for the penalty
    part; `alpha` of any sign) -/
theorem tangent_ineq (P : LbfgsProb ℝ n p) (hP : ConvexData P) (w w' : Fin p → ℝ) :
    trueObjective P w + ∑ j, trueGrad P w j * (w' j - w j) + P.alpha / 2 * ∑ j, (w' j - w j) ^ 2
      ≤ trueObjective P w' := by
  obtain ⟨hsw, hN, hdelta, hgamma⟩ := hP
  have hconv := C02.value_convex_ineq P.df P.sw P.y (lin P w) (lin P w') w w' hsw hN hdelta hgamma
  have e1 : ∑ i, P.df.rawGrad P.sw P.y (lin P w) i * (lin P w' i - lin P w i)
        + P.df.lin * ((∑ j, w' j) - ∑ j, w j)
      = ∑ j, P.df.gradScalar P.X P.sw P.y (lin P w) j * (w' j - w j) := by
    simp only [DF.gradScalar, vsum_eq, lin, add_mul, Finset.sum_add_distrib, Finset.sum_mul,
      ← Finset.sum_sub_distrib, ← Finset.mul_sum]
    congr 1
    rw [Finset.sum_comm]
    refine Finset.sum_congr rfl (fun i _ => ?_)
    rw [Finset.mul_sum]
    refine Finset.sum_congr rfl (fun j _ => ?_)
    ring
  have e2 : P.alpha / 2 * ∑ j, w' j ^ 2
      = P.alpha / 2 * ∑ j, w j ^ 2 + ∑ j, P.alpha * w j * (w' j - w j)
        + P.alpha / 2 * ∑ j, (w' j - w j) ^ 2 := by
    simp only [Finset.mul_sum, ← Finset.sum_add_distrib]
    refine Finset.sum_congr rfl (fun j _ => ?_)
    ring
  have e3 : ∑ j, trueGrad P w j * (w' j - w j)
      = ∑ j, P.df.gradScalar P.X P.sw P.y (lin P w) j * (w' j - w j)
        + ∑ j, P.alpha * w j * (w' j - w j) := by
    simp only [trueGrad, add_mul, Finset.sum_add_distrib]
  unfold trueObjective
  rw [e3, e2]
  linarith

end Skglm.Lbfgs
