import Skglm.Spec.Solver
import Skglm.Proofs.Datafits
/-
  Helper lemmas (part A) behind `Skglm/Proofs/CD.lean`: buffer consistency of the moves,
  locality of an epoch, CSC epoch = dense epoch, the stopping criterion as a certificate.
-/
namespace Skglm.Proofs.CDA
open Skglm Skglm.Spec
variable {n p : Nat}

/-! ### consistency -/

theorem sum_update_one (X w : Fin p → ℝ) (j : Fin p) (new : ℝ) :
    ∑ k, X k * (if k = j then new else w k) = (∑ k, X k * w k) + (new - w j) * X j := by
  have e : ∀ k, X k * (if k = j then new else w k)
      = X k * w k + (if k = j then (new - w k) * X k else 0) := by
    intro k; split_ifs <;> ring
  simp only [e, Finset.sum_add_distrib, Finset.sum_ite_eq', Finset.mem_univ, if_true]

theorem cdStep_consistent (P : CDProb ℝ n p) (s : CDState ℝ n p) (j : Fin p)
    (h : Consistent P s) : Consistent P (P.cdStep s j) := by
  have key : ∀ new : ℝ, Consistent P
      { w := mat (fun k => if k = j then new else s.w k), b := s.b,
        Xw := mat (fun i => s.Xw i + (new - s.w j) * P.X i j) } := by
    intro new i
    simp only [mat_eq]
    rw [sum_update_one, h i]; ring
  unfold CDProb.cdStep
  dsimp only
  split_ifs
  · exact h
  · exact key _

theorem cdEpoch_consistent (P : CDProb ℝ n p) (s : CDState ℝ n p) (ws : List (Fin p))
    (h : Consistent P s) : Consistent P (P.cdEpoch s ws) := by
  unfold CDProb.cdEpoch
  induction ws generalizing s with
  | nil => exact h
  | cons j ws ih => exact ih _ (cdStep_consistent P s j h)

theorem interceptMove_consistent (P : CDProb ℝ n p) (s : CDState ℝ n p) (h : Consistent P s) :
    Consistent P (P.interceptMove s) := by
  intro i
  simp only [CDProb.interceptMove, mat_eq]
  rw [h i]; ring

theorem extrapPoint_consistent {K : Nat} (P : CDProb ℝ n p) (inWs : Fin p → Bool)
    (cur : CDState ℝ n p) (buf : Fin K → CDState ℝ n p) (c : Fin K → ℝ) (hc : ∑ k, c k = 1)
    (hbuf : ∀ k, Consistent P (buf k))
    (hout : ∀ k j, inWs j = false → (buf k).w j = cur.w j) :
    Consistent P (CDProb.extrapPoint inWs cur buf c) := by
  intro i
  simp only [CDProb.extrapPoint, mat_eq, vsum_eq]
  have hw : ∀ j, (if inWs j = true then ∑ k, c k * (buf k).w j else cur.w j)
      = ∑ k, c k * (buf k).w j := by
    intro j
    cases hj : inWs j with
    | true => simp
    | false =>
      have : ∀ k, c k * (buf k).w j = c k * cur.w j := fun k => by rw [hout k j hj]
      simp only [this, ← Finset.sum_mul, hc, one_mul]
      simp
  simp only [hw]
  have e1 : ∀ k, c k * (buf k).Xw i
      = (∑ j, P.X i j * (c k * (buf k).w j)) + c k * (buf k).b := by
    intro k
    rw [hbuf k i, mul_add, Finset.mul_sum]
    congr 1
    exact Finset.sum_congr rfl (fun j _ => by ring)
  simp only [e1, Finset.sum_add_distrib]
  congr 1
  rw [Finset.sum_comm]
  exact Finset.sum_congr rfl (fun j _ => by rw [Finset.mul_sum])

theorem acceptMove_consistent (P : CDProb ℝ n p) (s acc : CDState ℝ n p) (hs : Consistent P s)
    (ha : Consistent P acc) : Consistent P (P.acceptMove s acc) := by
  unfold CDProb.acceptMove
  split_ifs
  · exact ha
  · exact hs

/-! ### locality -/

theorem cdStep_outside (P : CDProb ℝ n p) (s : CDState ℝ n p) (j k : Fin p) (hk : k ≠ j) :
    (P.cdStep s j).w k = s.w k ∧ (P.cdStep s j).b = s.b := by
  unfold CDProb.cdStep
  dsimp only
  split_ifs
  · exact ⟨rfl, rfl⟩
  · simp only [mat_eq, if_neg hk, and_self]

theorem cdEpoch_outside (P : CDProb ℝ n p) (s : CDState ℝ n p) (ws : List (Fin p)) (j : Fin p)
    (hj : j ∉ ws) : (P.cdEpoch s ws).w j = s.w j ∧ (P.cdEpoch s ws).b = s.b := by
  unfold CDProb.cdEpoch
  induction ws generalizing s with
  | nil => exact ⟨rfl, rfl⟩
  | cons j' ws ih =>
    simp only [List.mem_cons, not_or] at hj
    have h1 := cdStep_outside P s j' j hj.1
    have h2 := ih (P.cdStep s j') hj.2
    simp only [List.foldl_cons]
    exact ⟨h2.1.trans h1.1, h2.2.trans h1.2⟩

/-! ### CSC = dense -/

theorem eqb_sub_zero (a b : ℝ) : eqb (a - b) 0 = eqb a b := by
  rw [Bool.eq_iff_iff, eqb_iff, eqb_iff, sub_eq_zero]

theorem cdStepSparse_eq_dense (P : CDProb ℝ n p) (M : CSC ℝ n p) (s : CDState ℝ n p) (j : Fin p)
    (hX : P.X = M.toDense) (hnodup : ∀ j, ((M j).map Prod.fst).Nodup) :
    P.cdStepSparse M s j = P.cdStep s j := by
  have hL : P.df.lipschitzSparse M P.sw j = P.df.lipschitz P.X P.sw j := by
    rw [hX]; exact lipschitzSparse_eq_dense _ _ _ _ (hnodup j)
  have hG : P.df.gradScalarSparse M P.sw P.y s.Xw j = P.df.gradScalar P.X P.sw P.y s.Xw j := by
    rw [hX]; exact gradScalarSparse_eq_dense _ _ _ _ _ _
  have hA : ∀ d : ℝ, M.colAxpy j d s.Xw = fun i => s.Xw i + d * P.X i j := by
    intro d; funext i; rw [hX]; exact colAxpy_eq_dense _ _ _ _ _
  simp only [CDProb.cdStepSparse, CDProb.cdStep, hL, hG, hA, eqb_sub_zero]

theorem cdEpochSparse_eq_dense (P : CDProb ℝ n p) (M : CSC ℝ n p) (s : CDState ℝ n p)
    (ws : List (Fin p)) (hX : P.X = M.toDense) (hnodup : ∀ j, ((M j).map Prod.fst).Nodup) :
    P.cdEpochSparse M s ws = P.cdEpoch s ws := by
  have : P.cdStepSparse M = P.cdStep :=
    funext fun s => funext fun j => cdStepSparse_eq_dense P M s j hX hnodup
  unfold CDProb.cdEpochSparse CDProb.cdEpoch
  rw [this]

/-! ### stopping criterion -/

theorem extMax_fin {x y : Ext ℝ} {c : ℝ} (h : Ext.max x y = .fin c) :
    ∃ a b, x = .fin a ∧ y = .fin b ∧ c = max a b := by
  cases x with
  | inf => simp [Ext.max] at h
  | fin a =>
    cases y with
    | inf => simp [Ext.max] at h
    | fin b =>
      simp only [Ext.max, Ext.fin.injEq, smax_eq] at h
      exact ⟨a, b, rfl, rfl, h.symm⟩

theorem foldl_max_fin : ∀ (m : Nat) (f : Fin m → Ext ℝ) (a c : ℝ),
    Fin.foldl m (fun acc j => Ext.max acc (f j)) (.fin a) = .fin c →
    a ≤ c ∧ ∀ j, ∃ d, f j = .fin d ∧ d ≤ c := by
  intro m
  induction m with
  | zero =>
    intro f a c h
    simp only [Fin.foldl_zero, Ext.fin.injEq] at h
    exact ⟨h.le, fun j => j.elim0⟩
  | succ m ih =>
    intro f a c h
    rw [Fin.foldl_succ_last] at h
    obtain ⟨c', d, h1, h2, h3⟩ := extMax_fin h
    obtain ⟨ha, hall⟩ := ih (fun j => f j.castSucc) a c' h1
    have hc' : c' ≤ c := by rw [h3]; exact le_max_left _ _
    have hd : d ≤ c := by rw [h3]; exact le_max_right _ _
    refine ⟨ha.trans hc', fun j => ?_⟩
    refine Fin.lastCases ?_ (fun j' => ?_) j
    · exact ⟨d, h2, hd⟩
    · obtain ⟨d', e, hd'⟩ := hall j'
      exact ⟨d', e, hd'.trans hc'⟩

theorem stopCrit_certificate (P : CDProb ℝ n p) (s : CDState ℝ n p) (c tol : ℝ)
    (h : Consistent P s)
    (hpen : ∀ j, IsDistToSubdiff (pen P.pen (P.wts j)) (s.w j)
        (P.df.gradScalar P.X P.sw P.y s.Xw j)
        (P.pen.sd1 (P.wts j) (s.w j) (P.df.gradScalar P.X P.sw P.y s.Xw j)))
    (hscale : 1 ≤ P.df.interceptScale)
    (hstop : P.stopCrit false s = .fin c) (hc : c ≤ tol) :
    Certificate P s.w s.b tol := by
  have hXw : s.Xw = linPred P s.w s.b := funext h
  unfold CDProb.stopCrit at hstop
  dsimp only at hstop
  obtain ⟨cm, io, h1, h2, h3⟩ := extMax_fin hstop
  obtain ⟨_, hall⟩ := foldl_max_fin p _ 0 cm h1
  have hcm : cm ≤ c := by rw [h3]; exact le_max_left _ _
  have hio : io ≤ c := by rw [h3]; exact le_max_right _ _
  constructor
  · intro j
    obtain ⟨d, hd, hdc⟩ := hall j
    simp only [CDProb.score, CDProb.grad, mat_eq, Bool.false_eq_true, if_false] at hd
    have hp := hpen j
    rw [hd] at hp
    obtain ⟨⟨g, hg, hgd⟩, _⟩ := hp
    refine ⟨g, hg, ?_⟩
    rw [← hXw, hgd]
    linarith
  · intro hfit
    simp only [Ext.fin.injEq] at h2
    rw [← h2] at hio
    simp only [CDProb.interceptOpt, hfit, if_true, sabs_eq, DF.interceptStep, vsum_eq] at hio
    rw [abs_mul] at hio
    rw [← hXw]
    have h0 : 0 ≤ |∑ i, P.df.rawGrad P.sw P.y s.Xw i| := abs_nonneg _
    have h1' : 1 ≤ |P.df.interceptScale| := hscale.trans (le_abs_self _)
    nlinarith

end Skglm.Proofs.CDA
