import Skglm.Model.FISTA
import Skglm.Proofs.Run
import Skglm.Properties.C19
/-
  Lemmas behind `Skglm/Properties/FISTA.lean`: the accelerated proximal-gradient solver
  (`skglm/solvers/fista.py`).  Specification-side definitions first, then one section per property.
-/
namespace Skglm.Fista
open Skglm Skglm.Spec Skglm.Proofs
variable {n p : Nat}

/-! ### specification side -/

/-- every coefficient satisfies the configured constraint (documented penalty finite) -/
def Feasible (P : FistaProb ℝ n p) (w : Fin p → ℝ) : Prop :=
  ∀ j, (pen P.pen (P.wts j) (w j)).isSome

/-- the prox kernel of feature `j` returns a global minimiser at step `st` (what C07 proves) -/
def ProxOptimal (P : FistaProb ℝ n p) (j : Fin p) (st : ℝ) : Prop :=
  ∀ x v, ProxLe P.pen (P.wts j) x st (P.pen.prox1 (P.wts j) x st) v

/-- `X v` -/
noncomputable def lin (P : FistaProb ℝ n p) (v : Fin p → ℝ) : Fin n → ℝ :=
  fun i => ∑ k, P.X i k * v k

/-- the smooth part `f(v) = datafit.value(y, v, X v)` -/
noncomputable def smooth (P : FistaProb ℝ n p) (v : Fin p → ℝ) : ℝ :=
  P.df.value P.sw P.y (lin P v) v

/-- the true partial derivatives of the smooth part at `v`, from `X, y, v` alone -/
noncomputable def trueGrad (P : FistaProb ℝ n p) (v : Fin p → ℝ) : Fin p → ℝ :=
  fun j => P.df.gradScalar P.X P.sw P.y (lin P v) j

/-- data for which the per-sample curvature bound `c` of the datafit holds -/
def WellPosed (P : FistaProb ℝ n p) : Prop :=
  (∀ i, 0 ≤ P.sw i) ∧ 0 < P.df.normaliser P.sw ∧
  (P.df = .logistic → ∀ i, P.y i = 1 ∨ P.y i = -1) ∧
  (∀ delta, P.df = .huber delta → 0 < delta)

/-- `L` is at least the global Lipschitz constant of the gradient of the smooth part:
    `c · ‖√sw · X d‖² / N ≤ L ‖d‖²` for every direction `d`, `c` the per-sample curvature bound
    (`1` Quadratic / WeightedQuadratic / Huber / QuadraticSVC, `1/4` Logistic) and `N` the normaliser.
    This is what `get_global_lipschitz` returns *exactly* for dense input
    (`norm(X, ord=2) ** 2 / n`, `norm(sqrt(sw) X, 2) ** 2 / sw.sum()`, `norm(X, 2) ** 2 / (4 n)`,
    `norm(yXT, 2) ** 2`). -/
def GlobalLipschitz (P : FistaProb ℝ n p) : Prop :=
  ∃ c, P.df.curvBound = some c ∧
    ∀ d : Fin p → ℝ, c * (∑ i, P.sw i * (∑ j, P.X i j * d j) ^ 2) / P.df.normaliser P.sw
      ≤ P.L * ∑ j, d j ^ 2

/-- the quadratic model of the smooth part around `z`:
    `f(z) + ⟨∇f(z), v - z⟩ + L/2 ‖v - z‖²` -/
noncomputable def qmodel (P : FistaProb ℝ n p) (z v : Fin p → ℝ) : ℝ :=
  smooth P z + (∑ j, trueGrad P z j * (v j - z j)) + P.L / 2 * ∑ j, (v j - z j) ^ 2

/-- `Q_L(v; z) = f(z) + ⟨∇f(z), v - z⟩ + L/2 ‖v - z‖² + penalty.value(v)` -/
noncomputable def Q (P : FistaProb ℝ n p) (z v : Fin p → ℝ) : Ext ℝ :=
  Ext.add (.fin (qmodel P z v)) (P.pen.value P.wts v)

/-! ### bridging -/

theorem Xv_eq (P : FistaProb ℝ n p) (v : Fin p → ℝ) : P.Xv v = lin P v := by
  funext i
  simp only [FistaProb.Xv, mat_eq, dot_eq, lin]

theorem DF.gradient_eq (d : DF ℝ) (X : Fin n → Fin p → ℝ) (sw y u : Fin n → ℝ) (j : Fin p) :
    d.gradient X sw y u j = d.gradScalar X sw y u j := by
  cases d <;>
    simp only [DF.gradient, mat_eq, DF.gradScalar, DF.rawGrad, DF.dloss1, DF.lin, vsum_eq, add_zero]
  all_goals
    rw [Finset.sum_div]
    exact Finset.sum_congr rfl (fun i _ => by ring)

theorem grad_eq (P : FistaProb ℝ n p) (z : Fin p → ℝ) : P.grad z = trueGrad P z := by
  funext j
  unfold FistaProb.grad trueGrad
  rw [DF.gradient_eq, Xv_eq]

theorem objective_eq (P : FistaProb ℝ n p) (w : Fin p → ℝ) :
    P.fistaObjective w = Ext.add (.fin (smooth P w)) (P.pen.value P.wts w) := by
  unfold FistaProb.fistaObjective smooth
  rw [Xv_eq]

theorem step_w (P : FistaProb ℝ n p) (s : FistaState ℝ p) (j : Fin p) :
    (P.fistaStep s).w j
      = P.pen.prox1 (P.wts j) (s.z j - 1 / P.L * trueGrad P s.z j) (1 / P.L) := by
  simp only [FistaProb.fistaStep, mat_eq, grad_eq]

theorem step_z (P : FistaProb ℝ n p) (s : FistaState ℝ p) (j : Fin p) :
    (P.fistaStep s).z j
      = (P.fistaStep s).w j
        + (s.t - 1) / FistaProb.tNext s.t * ((P.fistaStep s).w j - s.w j) := by
  simp only [FistaProb.fistaStep, mat_eq]

theorem step_t (P : FistaProb ℝ n p) (s : FistaState ℝ p) :
    (P.fistaStep s).t = FistaProb.tNext s.t := rfl

theorem tNext_eq (t : ℝ) : FistaProb.tNext t = (1 + Real.sqrt (1 + 4 * t ^ 2)) / 2 := by
  simp only [FistaProb.tNext, scalar_sqrt_eq, nat_eq, Nat.cast_ofNat]
  rw [sq]

theorem tNext_pos (t : ℝ) : 1 ≤ FistaProb.tNext t := by
  rw [tNext_eq]
  have h : 1 ≤ Real.sqrt (1 + 4 * t ^ 2) :=
    Real.one_le_sqrt.2 (by nlinarith [sq_nonneg t])
  linarith

theorem iter_succ' (P : FistaProb ℝ n p) (k : Nat) (s : FistaState ℝ p) :
    P.fistaIter (k + 1) s = P.fistaStep (P.fistaIter k s) := by
  induction k generalizing s with
  | zero => rfl
  | succ k ih =>
    show P.fistaIter (k + 1) (P.fistaStep s) = _
    rw [ih]
    rfl

/-! ### the run is a number of plain passes -/

/-- the `stop_crit` held after `k` passes from `s` (`crit` before any pass) -/
noncomputable def critAfter (P : FistaProb ℝ n p) (fx : Bool) (s : FistaState ℝ p) (crit : Ext ℝ) : Nat → Ext ℝ
  | 0 => crit
  | k + 1 => P.fistaStop fx (P.fistaIter k s)

/-- the values appended to `p_objs_out` by `k` passes from `s` -/
noncomputable def objsAfter (P : FistaProb ℝ n p) (s : FistaState ℝ p) (k : Nat) : List (Ext ℝ) :=
  (List.range k).map (fun i => P.fistaObjective (P.fistaIter (i + 1) s).w)

theorem objsAfter_succ (P : FistaProb ℝ n p) (s : FistaState ℝ p) (k : Nat) :
    objsAfter P s (k + 1) = P.fistaObjective (P.fistaStep s).w :: objsAfter P (P.fistaStep s) k := by
  unfold objsAfter
  rw [List.range_succ_eq_map, List.map_cons, List.map_map]
  rfl

/-- `_solve` performs `k` passes for some `1 ≤ k ≤ max_iter` (`k = 0` iff `max_iter = 0`), returns the
    `w` of the state after them, the criterion computed by the last pass and the objective of every
    iterate `w_1 … w_k`; it stops early only on `stop_crit < tol` -/
theorem run_spec (P : FistaProb ℝ n p) (fx : Bool) (tol : ℝ) :
    ∀ (fuel : Nat) (s : FistaState ℝ p) (crit : Ext ℝ) (objs : List (Ext ℝ)),
      ∃ k, k ≤ fuel ∧ (0 < fuel → 0 < k) ∧
        P.fistaRun fx tol fuel s crit objs
          = (P.fistaIter k s, critAfter P fx s crit k, objs ++ objsAfter P s k) ∧
        (k < fuel → Ext.lt (critAfter P fx s crit k) (.fin tol) = true) := by
  intro fuel
  induction fuel with
  | zero =>
    intro s crit objs
    exact ⟨0, le_refl _, fun h => absurd h (lt_irrefl _), by simp [FistaProb.fistaRun, FistaProb.fistaIter,
      critAfter, objsAfter], fun h => absurd h (lt_irrefl _)⟩
  | succ fuel ih =>
    intro s crit objs
    unfold FistaProb.fistaRun
    dsimp only
    split_ifs with hstop
    · refine ⟨1, Nat.succ_le_succ (Nat.zero_le _), fun _ => Nat.one_pos, ?_, fun _ => hstop⟩
      simp [FistaProb.fistaIter, critAfter, objsAfter]
    · obtain ⟨k, hk, hpos, hrun, hlt⟩ := ih (P.fistaStep s) (P.fistaStop fx s)
        (objs ++ [P.fistaObjective (P.fistaStep s).w])
      refine ⟨k + 1, Nat.succ_le_succ hk, fun _ => Nat.succ_pos _, ?_, fun h => ?_⟩
      · rw [hrun, objsAfter_succ]
        have hc : critAfter P fx (P.fistaStep s) (P.fistaStop fx s) k = critAfter P fx s crit (k + 1) := by
          cases k with
          | zero => rfl
          | succ k => rfl
        rw [hc]
        simp [FistaProb.fistaIter]
      · have hc : critAfter P fx (P.fistaStep s) (P.fistaStop fx s) k = critAfter P fx s crit (k + 1) := by
          cases k with
          | zero => rfl
          | succ k => rfl
        rw [← hc]
        exact hlt (Nat.lt_of_succ_lt_succ h)

/-! ### (a) feasibility -/

theorem fistaStep_feasible (P : FistaProb ℝ n p) (s : FistaState ℝ p)
    (hadm : ∀ j, Admissible P.pen (P.wts j) (1 / P.L)) : Feasible P (P.fistaStep s).w := by
  intro j
  rw [step_w]
  exact CDB.pen_isSome_prox _ _ _ _ (hadm j)

theorem fistaIter_feasible (P : FistaProb ℝ n p) (k : Nat) (s : FistaState ℝ p)
    (hadm : ∀ j, Admissible P.pen (P.wts j) (1 / P.L)) (h : 0 < k ∨ Feasible P s.w) :
    Feasible P (P.fistaIter k s).w := by
  cases k with
  | zero => exact h.resolve_left (lt_irrefl _)
  | succ k => rw [iter_succ']; exact fistaStep_feasible P _ hadm

/-! ### (b) null columns -/

theorem trueGrad_zero_column (P : FistaProb ℝ n p) (z : Fin p → ℝ) (j : Fin p)
    (hcol : ∀ i, P.X i j = 0) : trueGrad P z j = P.df.lin :=
  (C19.zero_column_gradient P.toCD (lin P z) j hcol).1

theorem fistaStep_zero_column (P : FistaProb ℝ n p) (s : FistaState ℝ p) (j : Fin p)
    (hcol : ∀ i, P.X i j = 0) (hlin : P.df.lin = 0)
    (hprox0 : P.pen.prox1 (P.wts j) 0 (1 / P.L) = 0) (hw : s.w j = 0) (hz : s.z j = 0) :
    (P.fistaStep s).w j = 0 ∧ (P.fistaStep s).z j = 0 := by
  have h1 : (P.fistaStep s).w j = 0 := by
    rw [step_w, trueGrad_zero_column P _ j hcol, hlin, hz, mul_zero, sub_zero, hprox0]
  refine ⟨h1, ?_⟩
  rw [step_z, h1, hw]
  ring

theorem fistaIter_zero_column (P : FistaProb ℝ n p) (k : Nat) (s : FistaState ℝ p) (j : Fin p)
    (hcol : ∀ i, P.X i j = 0) (hlin : P.df.lin = 0)
    (hprox0 : P.pen.prox1 (P.wts j) 0 (1 / P.L) = 0) (hw : s.w j = 0) (hz : s.z j = 0) :
    (P.fistaIter k s).w j = 0 ∧ (P.fistaIter k s).z j = 0 := by
  induction k with
  | zero => exact ⟨hw, hz⟩
  | succ k ih =>
    rw [iter_succ']
    exact fistaStep_zero_column P _ j hcol hlin hprox0 ih.1 ih.2

/-! ### (c) the majorant -/

/-- descent lemma for the whole vector: with `L` at least the global Lipschitz constant the
    quadratic model around any `z` majorises the smooth part everywhere -/
theorem smooth_le_qmodel (P : FistaProb ℝ n p) (hP : WellPosed P) (hL : GlobalLipschitz P)
    (z v : Fin p → ℝ) : smooth P v ≤ qmodel P z v := by
  obtain ⟨hsw, hN, hy, hdelta⟩ := hP
  obtain ⟨c, hc, hLip⟩ := hL
  have hlin : ∀ i, lin P v i = lin P z i + ∑ j, P.X i j * (v j - z j) := by
    intro i
    simp only [lin, ← Finset.sum_add_distrib]
    exact Finset.sum_congr rfl (fun k _ => by ring)
  have hi : ∀ i, P.sw i * P.df.loss1 (P.y i) (lin P v i) ≤
      P.sw i * P.df.loss1 (P.y i) (lin P z i)
        + P.sw i * (P.df.dloss1 (P.y i) (lin P z i) * ∑ j, P.X i j * (v j - z j))
        + P.sw i * (c / 2 * (∑ j, P.X i j * (v j - z j)) ^ 2) := by
    intro i
    rw [hlin i]
    have := mul_le_mul_of_nonneg_left
      (loss1_smooth P.df c (P.y i) (lin P z i) (∑ j, P.X i j * (v j - z j)) hc
        (fun hl => hy hl i) hdelta) (hsw i)
    linarith
  have hsum := Finset.sum_le_sum (fun i (_ : i ∈ Finset.univ) => hi i)
  simp only [Finset.sum_add_distrib] at hsum
  have hdiv := div_le_div_of_nonneg_right hsum hN.le
  rw [add_div, add_div] at hdiv
  -- the linear term is `⟨∇f(z) - lin·1, v - z⟩`
  have e1 : (∑ i, P.sw i * (P.df.dloss1 (P.y i) (lin P z i) * ∑ j, P.X i j * (v j - z j)))
        / P.df.normaliser P.sw
      = ∑ j, (trueGrad P z j - P.df.lin) * (v j - z j) := by
    have a1 : ∀ j, (trueGrad P z j - P.df.lin) * (v j - z j)
        = ∑ i, P.sw i * P.df.dloss1 (P.y i) (lin P z i) / P.df.normaliser P.sw
            * (P.X i j * (v j - z j)) := by
      intro j
      simp only [trueGrad, DF.gradScalar, DF.rawGrad, vsum_eq, add_sub_cancel_right, Finset.sum_mul]
      exact Finset.sum_congr rfl (fun i _ => by ring)
    simp only [a1]
    rw [Finset.sum_comm, Finset.sum_div]
    refine Finset.sum_congr rfl (fun i _ => ?_)
    rw [← Finset.mul_sum]
    ring
  -- the quadratic term is bounded through `L`
  have e2 : (∑ i, P.sw i * (c / 2 * (∑ j, P.X i j * (v j - z j)) ^ 2)) / P.df.normaliser P.sw
      = (c * (∑ i, P.sw i * (∑ j, P.X i j * (v j - z j)) ^ 2) / P.df.normaliser P.sw) / 2 := by
    rw [Finset.mul_sum, Finset.sum_div, Finset.sum_div, Finset.sum_div]
    exact Finset.sum_congr rfl (fun i _ => by ring)
  have hq := hLip (fun j => v j - z j)
  have hsumv : ∑ j, v j = (∑ j, z j) + ∑ j, (v j - z j) := by
    rw [← Finset.sum_add_distrib]
    exact Finset.sum_congr rfl (fun j _ => by ring)
  have hsplit : ∑ j, trueGrad P z j * (v j - z j)
      = (∑ j, (trueGrad P z j - P.df.lin) * (v j - z j)) + P.df.lin * ∑ j, (v j - z j) := by
    rw [Finset.mul_sum, ← Finset.sum_add_distrib]
    exact Finset.sum_congr rfl (fun j _ => by ring)
  rw [e1, e2] at hdiv
  unfold qmodel smooth
  rw [value_eq, value_eq, hsumv, hsplit]
  linarith

theorem objective_le_Q (P : FistaProb ℝ n p) (hP : WellPosed P) (hL : GlobalLipschitz P)
    (z v : Fin p → ℝ) : Ext.le (P.fistaObjective v) (Q P z v) = true := by
  rw [objective_eq]
  exact CDB.add_le_add_fin _ (smooth_le_qmodel P hP hL z v)

theorem Q_self (P : FistaProb ℝ n p) (z : Fin p → ℝ) : Q P z z = P.fistaObjective z := by
  rw [objective_eq]
  unfold Q qmodel
  simp

/-- the new iterate minimises the model `Q_L(·; z)`: the model is separable and each coordinate of
    `w_new` is a global minimiser of its summand (prox optimality, no convexity needed) -/
theorem Q_step_le (P : FistaProb ℝ n p) (s : FistaState ℝ p) (hLpos : 0 < P.L)
    (hprox : ∀ j, ProxOptimal P j (1 / P.L))
    (hg : ∀ a g pos, P.pen = .mcp a g pos ∨ P.pen = .wmcp a g pos → 0 < g) (v : Fin p → ℝ) :
    Ext.le (Q P s.z (P.fistaStep s).w) (Q P s.z v) = true := by
  by_cases hinf : ∃ k, P.pen.pen1 (P.wts k) (v k) = .inf
  · have : Q P s.z v = .inf := by
      unfold Q SepPen.value
      rw [CDB.esum_inf _ hinf]; rfl
    rw [this]; exact CDB.le_inf _
  push Not at hinf
  set A : Fin p → ℝ := fun k => CDB.val (P.pen.pen1 (P.wts k) (v k)) with hA
  have hAk : ∀ k, P.pen.pen1 (P.wts k) (v k) = .fin (A k) := fun k => CDB.eq_fin_val (hinf k)
  have hLq : P.L * (1 / P.L) = 1 := by field_simp
  have key : ∀ j, ∃ pu, P.pen.pen1 (P.wts j) ((P.fistaStep s).w j) = .fin pu ∧
      trueGrad P s.z j * ((P.fistaStep s).w j - s.z j)
        + P.L / 2 * ((P.fistaStep s).w j - s.z j) ^ 2 + pu
      ≤ trueGrad P s.z j * (v j - s.z j) + P.L / 2 * (v j - s.z j) ^ 2 + A j := by
    intro j
    rw [step_w]
    have hpr := hprox j (s.z j - 1 / P.L * trueGrad P s.z j) (v j)
    generalize P.pen.prox1 (P.wts j) (s.z j - 1 / P.L * trueGrad P s.z j) (1 / P.L) = u at hpr ⊢
    have hv : pen P.pen (P.wts j) (v j) = some (A j) := by
      rw [← CDB.pen1_eq_spec _ _ _ hg, hAk j]; rfl
    unfold ProxLe at hpr
    rw [hv] at hpr
    cases hpn : pen P.pen (P.wts j) u with
    | none => rw [hpn] at hpr; exact hpr.elim
    | some pu =>
      rw [hpn] at hpr
      simp only at hpr
      refine ⟨pu, ?_, ?_⟩
      · apply CDB.eq_fin_of_toOption
        rw [CDB.pen1_eq_spec _ _ _ hg, hpn]
      · generalize 1 / P.L = q at hpr hLq
        generalize trueGrad P s.z j = g at hpr ⊢
        have h1 := mul_le_mul_of_nonneg_left hpr hLpos.le
        have e1 : P.L * ((u - (s.z j - q * g)) ^ 2 / 2 + q * pu)
            = P.L / 2 * (u - s.z j) ^ 2 + g * (u - s.z j) * (P.L * q)
              + (P.L * q) * (g ^ 2 * q) / 2 + (P.L * q) * pu := by ring
        have e2 : P.L * ((v j - (s.z j - q * g)) ^ 2 / 2 + q * A j)
            = P.L / 2 * (v j - s.z j) ^ 2 + g * (v j - s.z j) * (P.L * q)
              + (P.L * q) * (g ^ 2 * q) / 2 + (P.L * q) * A j := by ring
        rw [e1, e2, hLq] at h1
        linarith
  choose B hB1 hB2 using key
  have hv_new : P.pen.value P.wts (P.fistaStep s).w = .fin (∑ k, B k) := by
    unfold SepPen.value
    exact CDB.esum_fin _ B hB1
  have hv_v : P.pen.value P.wts v = .fin (∑ k, A k) := by
    unfold SepPen.value
    exact CDB.esum_fin _ A hAk
  unfold Q qmodel
  rw [hv_new, hv_v]
  apply CDB.fin_le_fin
  have hsum := Finset.sum_le_sum (fun j (_ : j ∈ Finset.univ) => hB2 j)
  simp only [Finset.sum_add_distrib, ← Finset.mul_sum] at hsum
  linarith

/-! ### (d) the reported criterion -/

theorem critOf_scores (P : FistaProb ℝ n p) (fx : Bool) (w g : Fin p → ℝ) (c : ℝ)
    (h : P.critOf fx w g = .fin c) :
    0 ≤ c ∧ ∀ j, ∃ d, P.scores fx w g j = .fin d ∧ d ≤ c := by
  unfold FistaProb.critOf at h
  exact CDA.foldl_max_fin p _ 0 c h

theorem lin_eq_linPred (P : FistaProb ℝ n p) (w : Fin p → ℝ) : lin P w = linPred P.toCD w 0 := by
  funext i
  simp [lin, linPred, FistaProb.toCD]

end Skglm.Fista
