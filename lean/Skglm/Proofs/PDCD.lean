import Skglm.Model.PDCD
import Skglm.Proofs.Run
import Skglm.Proofs.BlockProxAux
import Skglm.Properties.C02
import Skglm.Properties.C19
/-
  Lemmas behind `Skglm/Properties/PDCD.lean`: the primal-dual coordinate-descent solver
  `skglm/experimental/pdcd_ws.py` with the datafits `SqrtQuadratic` and `Pinball`.
  Specification-side definitions first (in terms of `X, y, w, z` only), then bridging lemmas
  (the model's step in closed form over ℝ), then one section per property.
-/
namespace Skglm.PDCD
open Skglm Skglm.Spec Skglm.Proofs
variable {n p : Nat}

/-! ### specification side -/

/-- the model-fit buffer equals `X w` -/
def Consistent (P : PDProb ℝ n p) (s : PDState ℝ n p) : Prop :=
  ∀ i, s.Xw i = ∑ j, P.X i j * s.w j

/-- `X w` -/
noncomputable def lin (P : PDProb ℝ n p) (w : Fin p → ℝ) : Fin n → ℝ :=
  fun i => ∑ j, P.X i j * w j

/-- `Xᵀ z`, entry `j` -/
noncomputable def XTz (P : PDProb ℝ n p) (z : Fin n → ℝ) (j : Fin p) : ℝ := ∑ i, P.X i j * z i

/-- every coefficient satisfies the configured constraint (documented penalty finite) -/
def Feasible (P : PDProb ℝ n p) (w : Fin p → ℝ) : Prop :=
  ∀ j, (pen P.pen (P.wts j) (w j)).isSome

/-- the prox kernel of feature `j` returns a global minimiser at step `st` (what C07 proves) -/
def ProxOptimal (P : PDProb ℝ n p) (j : Fin p) (st : ℝ) : Prop :=
  ∀ x v, ProxLe P.pen (P.wts j) x st (P.pen.prox1 (P.wts j) x st) v

/-- `ζ ∈ ∂f(u)` for the datafit `f = d.value y`: the global sub-gradient inequality -/
def SubgradAt (d : PDDatafit ℝ) (y u ζ : Fin n → ℝ) : Prop :=
  ∀ u' : Fin n → ℝ, d.value y u + ∑ i, ζ i * (u' i - u i) ≤ d.value y u'

/-- `g ∈ ∂ pen(w)` for the documented penalty of one coordinate: `w` is in the domain and the
    global sub-gradient inequality holds on the domain -/
def PenSubgrad (pn : SepPen ℝ) (wt w g : ℝ) : Prop :=
  ∃ pw, pen pn wt w = some pw ∧ ∀ v pv, pen pn wt v = some pv → pw + g * (v - w) ≤ pv

/-- the primal-dual optimality conditions of `min_w f(Xw) + Σ_j g_j(w_j)`:
    `-(Xᵀz)_j ∈ ∂g_j(w_j)` for every feature and `z ∈ ∂f(Xw)` -/
def Saddle (P : PDProb ℝ n p) (w : Fin p → ℝ) (z : Fin n → ℝ) : Prop :=
  (∀ j, PenSubgrad P.pen (P.wts j) (w j) (-(XTz P z j))) ∧ SubgradAt P.df P.y (lin P w) z

/-- the documented objective `f(Xw) + Σ_j g_j(w_j)` of a feasible point, from `X, y, w` alone -/
noncomputable def trueObj (P : PDProb ℝ n p) (w : Fin p → ℝ) : ℝ :=
  P.df.value P.y (lin P w) + ∑ j, (pen P.pen (P.wts j) (w j)).getD 0

/-! ### bridging: the step in closed form -/

/-- the value written to `w[j]` -/
noncomputable def newVal (P : PDProb ℝ n p) (s : PDState ℝ n p) (j : Fin p) : ℝ :=
  P.pen.prox1 (P.wts j) (s.w j - P.tau j * ∑ i, P.X i j * (2 * s.zbar i - s.z i)) (P.tau j)

/-- `Xw` after the primal update -/
noncomputable def XwNext (P : PDProb ℝ n p) (s : PDState ℝ n p) (j : Fin p) : Fin n → ℝ :=
  fun i => s.Xw i + (newVal P s j - s.w j) * P.X i j

/-- `z_bar` after the dual update -/
noncomputable def zbarNext (P : PDProb ℝ n p) (s : PDState ℝ n p) (j : Fin p) : Fin n → ℝ :=
  P.df.proxConj (fun i => s.z i + P.sigma * XwNext P s j i) P.sigma P.y

theorem nz_false_iff (x : ℝ) : nz x = false ↔ x = 0 := by
  rw [← not_iff_not, Bool.not_eq_false, nz_iff]

theorem step_eq (P : PDProb ℝ n p) (s : PDState ℝ n p) (j : Fin p) :
    P.pdcdStep s j =
      { w := fun k => if k = j then newVal P s j else s.w k
        Xw := XwNext P s j
        z := fun i => s.z i + (zbarNext P s j i - s.z i) / (p : ℝ)
        zbar := zbarNext P s j } := by
  have hX : ∀ i, (if nz (newVal P s j - s.w j) = true
      then s.Xw i + (newVal P s j - s.w j) * P.X i j else s.Xw i) = XwNext P s j i := by
    intro i
    unfold XwNext
    split_ifs with h
    · rfl
    · rw [Bool.not_eq_true, nz_false_iff] at h
      rw [h]; ring
  unfold PDProb.pdcdStep
  simp only [mat_eq, dot_eq, nat_eq, Nat.cast_ofNat]
  have hn : P.pen.prox1 (P.wts j) (s.w j - P.tau j * ∑ i, P.X i j * (2 * s.zbar i - s.z i))
      (P.tau j) = newVal P s j := rfl
  simp only [hn, hX]
  rfl

@[simp] theorem step_w (P : PDProb ℝ n p) (s : PDState ℝ n p) (j k : Fin p) :
    (P.pdcdStep s j).w k = if k = j then newVal P s j else s.w k := by rw [step_eq]

@[simp] theorem step_Xw (P : PDProb ℝ n p) (s : PDState ℝ n p) (j : Fin p) :
    (P.pdcdStep s j).Xw = XwNext P s j := by rw [step_eq]

@[simp] theorem step_zbar (P : PDProb ℝ n p) (s : PDState ℝ n p) (j : Fin p) :
    (P.pdcdStep s j).zbar = zbarNext P s j := by rw [step_eq]

@[simp] theorem step_z (P : PDProb ℝ n p) (s : PDState ℝ n p) (j : Fin p) (i : Fin n) :
    (P.pdcdStep s j).z i = s.z i + (zbarNext P s j i - s.z i) / (p : ℝ) := by rw [step_eq]

theorem state_ext (a b : PDState ℝ n p) (hw : a.w = b.w) (hX : a.Xw = b.Xw) (hz : a.z = b.z)
    (hzb : a.zbar = b.zbar) : a = b := by
  cases a; cases b; simp_all

/-! ### (a) buffer consistency -/

theorem pdcdStep_consistent (P : PDProb ℝ n p) (s : PDState ℝ n p) (j : Fin p)
    (h : Consistent P s) : Consistent P (P.pdcdStep s j) := by
  intro i
  simp only [step_w, step_Xw, XwNext]
  rw [CDA.sum_update_one, h i]

theorem epoch_consistent' (P : PDProb ℝ n p) (s : PDState ℝ n p) (ws : List (Fin p))
    (h : Consistent P s) : Consistent P (P.epoch s ws) := by
  unfold PDProb.epoch
  induction ws generalizing s with
  | nil => exact h
  | cons j ws ih => exact ih _ (pdcdStep_consistent P s j h)

/-! ### (b) null columns, step sizes -/

theorem normCol_eq (X : Fin n → Fin p → ℝ) (j : Fin p) :
    PDProb.normCol X j = Real.sqrt (∑ i, X i j * X i j) := by
  unfold PDProb.normCol; rw [norm2_eq]

theorem normCol_nonneg (X : Fin n → Fin p → ℝ) (j : Fin p) : 0 ≤ PDProb.normCol X j := by
  rw [normCol_eq]; exact Real.sqrt_nonneg _

theorem normCol_eq_zero_iff (X : Fin n → Fin p → ℝ) (j : Fin p) :
    PDProb.normCol X j = 0 ↔ ∀ i, X i j = 0 := by
  rw [normCol_eq, Real.sqrt_eq_zero (Finset.sum_nonneg (fun i _ => mul_self_nonneg _))]
  constructor
  · intro h i
    have := (Finset.sum_eq_zero_iff_of_nonneg (fun i _ => mul_self_nonneg (X i j))).1 h i
      (Finset.mem_univ _)
    exact mul_self_eq_zero.1 this
  · intro h
    exact Finset.sum_eq_zero (fun i _ => by rw [h i]; ring)

theorem ofData_tau (X : Fin n → Fin p → ℝ) (y : Fin n → ℝ) (df : PDDatafit ℝ) (pn : SepPen ℝ)
    (wts : Fin p → ℝ) (sn : ℝ) (j : Fin p) :
    (PDProb.ofData X y df pn wts sn).tau j
      = if PDProb.normCol X j = 0 then 1 else 1 / PDProb.normCol X j := by
  simp only [PDProb.ofData, mat_eq]
  by_cases h : PDProb.normCol X j = 0
  · rw [if_pos h, if_pos ((eqb_iff _ _).2 h)]; norm_num
  · rw [if_neg h, if_neg (by rw [Bool.not_eq_true]; exact (eqb_false_iff _ _).2 h)]

theorem ofData_tau_pos (X : Fin n → Fin p → ℝ) (y : Fin n → ℝ) (df : PDDatafit ℝ) (pn : SepPen ℝ)
    (wts : Fin p → ℝ) (sn : ℝ) (j : Fin p) : 0 < (PDProb.ofData X y df pn wts sn).tau j := by
  rw [ofData_tau]
  split_ifs with h
  · exact one_pos
  · exact one_div_pos.2 (lt_of_le_of_ne (normCol_nonneg X j) (Ne.symm h))

theorem ofDataOld_tau (X : Fin n → Fin p → ℝ) (y : Fin n → ℝ) (df : PDDatafit ℝ) (pn : SepPen ℝ)
    (wts : Fin p → ℝ) (sn : ℝ) (j : Fin p) :
    (PDProb.ofDataOld X y df pn wts sn).tau j = 1 / PDProb.normCol X j := by
  simp only [PDProb.ofDataOld, mat_eq]

/-- on an all-zero column the pseudo-gradient vanishes: the step is `prox(w_j, τ_j)` and the
    buffer does not move -/
theorem newVal_zero_column (P : PDProb ℝ n p) (s : PDState ℝ n p) (j : Fin p)
    (hcol : ∀ i, P.X i j = 0) :
    newVal P s j = P.pen.prox1 (P.wts j) (s.w j) (P.tau j) ∧ XwNext P s j = s.Xw := by
  constructor
  · unfold newVal
    simp only [hcol, zero_mul, Finset.sum_const_zero, mul_zero, sub_zero]
  · funext i
    simp only [XwNext, hcol, mul_zero, add_zero]

/-! ### (c) feasibility -/

theorem pdcdStep_feasible (P : PDProb ℝ n p) (s : PDState ℝ n p) (j : Fin p)
    (hf : Feasible P s.w) (hadm : Admissible P.pen (P.wts j) (P.tau j)) :
    Feasible P (P.pdcdStep s j).w := by
  intro k
  rw [step_w]
  by_cases hk : k = j
  · subst hk
    rw [if_pos rfl]
    exact CDB.pen_isSome_prox _ _ _ _ hadm
  · rw [if_neg hk]; exact hf k


/-! ### the two datafits over ℝ -/

theorem pinballLoss1_eq (q r : ℝ) :
    PDDatafit.pinballLoss1 q r = if 0 ≤ r then q * r else -(1 - q) * r := by
  unfold PDDatafit.pinballLoss1
  split_ifs <;> ring

theorem value_sqrtQuad (y u : Fin n → ℝ) :
    (PDDatafit.sqrtQuad : PDDatafit ℝ).value y u = norm2 (fun i => y i - u i) := rfl

theorem value_pinball (q : ℝ) (y u : Fin n → ℝ) :
    (PDDatafit.pinball q).value y u = ∑ i, PDDatafit.pinballLoss1 q (y i - u i) := by
  simp only [PDDatafit.value, vsum_eq]

theorem projL2ball_eq (a : Fin n → ℝ) :
    projL2ball a = if norm2 a ≤ 1 then a else fun i => a i / norm2 a := by
  simp only [projL2ball, mat_eq]

theorem proxConj_sqrtQuad (v : Fin n → ℝ) (σ : ℝ) (y : Fin n → ℝ) :
    (PDDatafit.sqrtQuad : PDDatafit ℝ).proxConj v σ y = projL2ball (fun i => v i - σ * y i) := by
  simp only [PDDatafit.proxConj, mat_eq]

theorem proxConj_pinball (q : ℝ) (v : Fin n → ℝ) (σ : ℝ) (y : Fin n → ℝ) (i : Fin n) :
    (PDDatafit.pinball q).proxConj v σ y i
      = v i - σ * (y i - STv1 (y i - 1 / σ * v i - (q - 1 / 2) * (1 / σ)) (1 / σ / 2)) := by
  simp only [PDDatafit.proxConj, PDDatafit.pinballProx, mat_eq, frac_eq, nat_eq, Nat.cast_one,
    Nat.cast_ofNat]

theorem norm2_neg (v : Fin n → ℝ) : norm2 (fun i => -v i) = norm2 v := by
  rw [norm2_eq, norm2_eq]
  congr 1
  exact Finset.sum_congr rfl (fun i _ => by ring)

/-- `‖ζ‖ ≤ 1` and `‖r‖ = ⟨-ζ, r⟩` give the sub-gradient inequality of `‖·‖` composed with
    `r = y - u` -/
theorem sqrt_subgrad_of (ζ r : Fin n → ℝ) (h1 : norm2 ζ ≤ 1)
    (h2 : norm2 r = ∑ i, (-ζ i) * r i) (r' : Fin n → ℝ) :
    norm2 r + ∑ i, (-ζ i) * (r' i - r i) ≤ norm2 r' := by
  have hcs := inner_le (fun i => -ζ i) r'
  rw [norm2_neg] at hcs
  have e : ∑ i, (-ζ i) * (r' i - r i) = ∑ i, (-ζ i) * r' i - ∑ i, (-ζ i) * r i := by
    rw [← Finset.sum_sub_distrib]; exact Finset.sum_congr rfl (fun i _ => by ring)
  rw [e, ← h2]
  nlinarith [mul_nonneg (sub_nonneg.2 h1) (norm2_nonneg r')]

/-- the point at which `prox_conjugate(v, σ, y)` is a sub-gradient (Moreau): `(v - ζ) / σ` -/
noncomputable def dualPoint (d : PDDatafit ℝ) (v : Fin n → ℝ) (σ : ℝ) (y : Fin n → ℝ) : Fin n → ℝ :=
  fun i => (v i - d.proxConj v σ y i) / σ

theorem proxConj_subgrad_sqrtQuad (v : Fin n → ℝ) (σ : ℝ) (hσ : 0 < σ) (y : Fin n → ℝ) :
    SubgradAt (.sqrtQuad) y (dualPoint .sqrtQuad v σ y) ((PDDatafit.sqrtQuad).proxConj v σ y) := by
  set ζ := (PDDatafit.sqrtQuad : PDDatafit ℝ).proxConj v σ y with hζ
  set a : Fin n → ℝ := fun i => v i - σ * y i with ha
  have hζa : ζ = projL2ball a := by rw [hζ, proxConj_sqrtQuad]
  -- residual at the dual point
  have hr : ∀ i, y i - dualPoint .sqrtQuad v σ y i = (ζ i - a i) / σ := by
    intro i
    simp only [dualPoint, ← hζ, ha]
    field_simp
    ring
  have key : norm2 ζ ≤ 1 ∧ norm2 (fun i => (ζ i - a i) / σ) = ∑ i, (-ζ i) * ((ζ i - a i) / σ) := by
    rw [hζa, projL2ball_eq]
    by_cases hN : norm2 a ≤ 1
    · rw [if_pos hN]
      refine ⟨hN, ?_⟩
      simp only [sub_self, zero_div, mul_zero, Finset.sum_const_zero]
      exact norm2_zero
    · rw [if_neg hN]
      have hN1 : 1 < norm2 a := not_le.1 hN
      have hN0 : 0 < norm2 a := by linarith
      set N := norm2 a with hNdef
      have hnz : norm2 (fun i => a i / N) = 1 := by
        have : (fun i => a i / N) = fun i => (1 / N) * a i := by funext i; ring
        rw [this, norm2_smul _ (one_div_nonneg.2 hN0.le), ← hNdef]
        field_simp
      refine ⟨hnz.le, ?_⟩
      have hκ : 0 ≤ (N - 1) / (N * σ) := div_nonneg (by linarith) (mul_nonneg hN0.le hσ.le)
      have e1p : ∀ i, (a i / N - a i) / σ = ((N - 1) / (N * σ)) * (-a i) := by
        intro i; field_simp; ring
      simp only [e1p]
      rw [norm2_smul _ hκ, norm2_neg, ← hNdef]
      have e2 : ∀ i, -(a i / N) * ((N - 1) / (N * σ) * -a i)
          = (N - 1) / (N * σ) / N * (a i * a i) := fun i => by field_simp
      simp only [e2, ← Finset.mul_sum, ← norm2_sq, ← hNdef]
      field_simp
  intro u'
  rw [value_sqrtQuad, value_sqrtQuad]
  have h := sqrt_subgrad_of ζ (fun i => (ζ i - a i) / σ) key.1 key.2 (fun i => y i - u' i)
  have e0 : (fun i => y i - dualPoint .sqrtQuad v σ y i) = fun i => (ζ i - a i) / σ := funext hr
  rw [e0]
  have e3 : ∑ i, ζ i * (u' i - dualPoint .sqrtQuad v σ y i)
      = ∑ i, (-ζ i) * ((y i - u' i) - (ζ i - a i) / σ) := by
    refine Finset.sum_congr rfl (fun i _ => ?_)
    rw [← hr i]; ring
  rw [e3]
  exact h

/-- the sub-differential of the pinball loss of one sample, in the residual `r = y - u`:
    `∂_u = -q` for `r > 0`, `1 - q` for `r < 0`, `[-q, 1 - q]` at `r = 0` -/
def PinballSub (q r ζ : ℝ) : Prop :=
  (0 < r → ζ = -q) ∧ (r < 0 → ζ = 1 - q) ∧ (r = 0 → -q ≤ ζ ∧ ζ ≤ 1 - q)

theorem pinball_subgrad1 (q r ζ : ℝ) (h : PinballSub q r ζ)
    (r' : ℝ) :
    PDDatafit.pinballLoss1 q r + (-ζ) * (r' - r) ≤ PDDatafit.pinballLoss1 q r' := by
  obtain ⟨h1, h2, h3⟩ := h
  rw [pinballLoss1_eq, pinballLoss1_eq]
  rcases lt_trichotomy r 0 with hr | hr | hr
  · rw [h2 hr, if_neg (not_le.2 hr)]
    split_ifs with h'
    · nlinarith
    · nlinarith
  · subst hr
    obtain ⟨ha, hb⟩ := h3 rfl
    rw [if_pos (le_refl _)]
    split_ifs with h'
    · nlinarith [mul_nonneg (by linarith : 0 ≤ q + ζ) h']
    · nlinarith [mul_nonneg (by linarith : 0 ≤ 1 - q - ζ) (by linarith : 0 ≤ -r')]
  · rw [h1 hr, if_pos hr.le]
    split_ifs with h'
    · nlinarith
    · nlinarith

theorem proxConj_pinball_sub (q : ℝ) (v : Fin n → ℝ) (σ : ℝ) (hσ : 0 < σ) (y : Fin n → ℝ)
    (i : Fin n) :
    PinballSub q (y i - dualPoint (.pinball q) v σ y i) ((PDDatafit.pinball q).proxConj v σ y i) := by
  have ht : 0 ≤ 1 / σ / 2 := by positivity
  set x := y i - 1 / σ * v i - (q - 1 / 2) * (1 / σ) with hx
  have hσx : σ * x = σ * y i - v i - (q - 1 / 2) := by rw [hx]; field_simp
  have hσt : σ * (1 / σ / 2) = 1 / 2 := by field_simp
  have hr : y i - dualPoint (.pinball q) v σ y i = STv1 x (1 / σ / 2) := by
    simp only [dualPoint, proxConj_pinball, ← hx]
    field_simp
    ring
  rw [hr, proxConj_pinball, ← hx]
  rcases STv1_cases x (1 / σ / 2) ht with ⟨h, e⟩ | ⟨h, e⟩ | ⟨h1, h2, e⟩ <;> rw [e]
  · have hpos : 0 < x - 1 / σ / 2 := by linarith
    refine ⟨fun _ => ?_, fun hn => absurd hn (not_lt.2 hpos.le), fun h0 => absurd h0 hpos.ne'⟩
    have : σ * (y i - (x - 1 / σ / 2)) = σ * y i - σ * x + σ * (1 / σ / 2) := by ring
    rw [this, hσx, hσt]; ring
  · have hneg : x + 1 / σ / 2 < 0 := by linarith
    refine ⟨fun hp => absurd hp (not_lt.2 hneg.le), fun _ => ?_, fun h0 => absurd h0 hneg.ne⟩
    have : σ * (y i - (x + 1 / σ / 2)) = σ * y i - σ * x - σ * (1 / σ / 2) := by ring
    rw [this, hσx, hσt]; ring
  · refine ⟨fun hp => absurd hp (lt_irrefl _), fun hn => absurd hn (lt_irrefl _), fun _ => ?_⟩
    have hb1 := mul_le_mul_of_nonneg_left h1 hσ.le
    have hb2 := mul_le_mul_of_nonneg_left h2 hσ.le
    rw [hσx] at hb1 hb2
    have : σ * -(1 / σ / 2) = -(1 / 2) := by rw [mul_neg, hσt]
    rw [this] at hb1
    rw [hσt] at hb2
    constructor <;> linarith

theorem proxConj_subgrad_pinball (q : ℝ) (v : Fin n → ℝ) (σ : ℝ) (hσ : 0 < σ) (y : Fin n → ℝ) :
    SubgradAt (.pinball q) y (dualPoint (.pinball q) v σ y) ((PDDatafit.pinball q).proxConj v σ y) := by
  intro u'
  rw [value_pinball, value_pinball, ← Finset.sum_add_distrib]
  refine Finset.sum_le_sum (fun i _ => ?_)
  have h := pinball_subgrad1 q _ _ (proxConj_pinball_sub q v σ hσ y i) (y i - u' i)
  linarith


/-- **Moreau, for the code's formulas**: `ζ = prox_conjugate(v, σ, y)` is a sub-gradient of the
    datafit at the point `(v - ζ) / σ`, for both datafits, every `v`, `y` and every `σ > 0`
    (Pinball: every `quantile_level`, the loss is convex whatever its value) -/
theorem proxConj_subgrad (d : PDDatafit ℝ) (v : Fin n → ℝ) (σ : ℝ) (hσ : 0 < σ) (y : Fin n → ℝ) :
    SubgradAt d y (dualPoint d v σ y) (d.proxConj v σ y) := by
  cases d with
  | sqrtQuad => exact proxConj_subgrad_sqrtQuad v σ hσ y
  | pinball q => exact proxConj_subgrad_pinball q v σ hσ y


/-! ### the primal side: the prox point carries a sub-gradient -/

/-- optimality of the prox point `u = prox(x, τ)`: `(x - u)/τ` is a *proximal* sub-gradient of
    the documented penalty at `u` (no convexity needed) -/
theorem prox_proxSubgrad (pn : SepPen ℝ) (wt x τ : ℝ) (hτ : 0 < τ)
    (hopt : ∀ v, ProxLe pn wt x τ (pn.prox1 wt x τ) v) :
    ∃ pu, pen pn wt (pn.prox1 wt x τ) = some pu ∧
      ∀ v pv, pen pn wt v = some pv →
        pu + (x - pn.prox1 wt x τ) / τ * (v - pn.prox1 wt x τ)
          - 1 / (2 * τ) * (v - pn.prox1 wt x τ) ^ 2 ≤ pv := by
  set u := pn.prox1 wt x τ with hu
  cases hpu : pen pn wt u with
  | none =>
    have := hopt u
    simp only [ProxLe, hpu] at this
  | some pu =>
    refine ⟨pu, rfl, fun v pv hv => ?_⟩
    have h := hopt v
    simp only [ProxLe, hpu, hv] at h
    have key : τ * (pu + (x - u) / τ * (v - u) - 1 / (2 * τ) * (v - u) ^ 2)
        = τ * pu + (x - u) * (v - u) - (v - u) ^ 2 / 2 := by
      field_simp
    refine le_of_mul_le_mul_left ?_ hτ
    rw [key]
    nlinarith

/-- for a convex function a proximal sub-gradient (quadratic slack) is a sub-gradient -/
theorem proxSubgrad_global {φ : ℝ → Option ℝ} (hφ : C02.ConvexExt φ) {u g K pu : ℝ} (hK : 0 ≤ K)
    (hu : φ u = some pu)
    (h : ∀ v pv, φ v = some pv → pu + g * (v - u) - K * (v - u) ^ 2 ≤ pv) :
    ∀ v pv, φ v = some pv → pu + g * (v - u) ≤ pv := by
  intro v pv hv
  apply le_of_forall_pos_le_add
  intro ε hε
  have hD : 0 ≤ K * (v - u) ^ 2 := mul_nonneg hK (sq_nonneg _)
  obtain ⟨t, ht⟩ : ∃ t, t = min 1 (ε / (K * (v - u) ^ 2 + 1)) := ⟨_, rfl⟩
  have ht0 : 0 < t := by rw [ht]; exact lt_min one_pos (by positivity)
  have ht1 : t ≤ 1 := by rw [ht]; exact min_le_left _ _
  have ht2 : t * (K * (v - u) ^ 2) ≤ ε := by
    have h1 : t ≤ ε / (K * (v - u) ^ 2 + 1) := by rw [ht]; exact min_le_right _ _
    have h2 : t * (K * (v - u) ^ 2 + 1) ≤ ε := by rwa [le_div_iff₀ (by positivity)] at h1
    nlinarith
  obtain ⟨m, hm, hmle⟩ := hφ u v pu pv hu hv t ht0 ht1
  have h1 := h (u + t * (v - u)) m hm
  rw [add_sub_cancel_left] at h1
  have h2 : t * (pu + g * (v - u)) ≤ t * (pv + ε) := by
    have h3 : t * (t * (K * (v - u) ^ 2)) ≤ t * ε := mul_le_mul_of_nonneg_left ht2 ht0.le
    nlinarith
  exact le_of_mul_le_mul_left h2 ht0

/-- convex penalty, optimal prox: `(x - u)/τ ∈ ∂pen(u)` at `u = prox(x, τ)` -/
theorem prox_penSubgrad (pn : SepPen ℝ) (wt x τ : ℝ) (hτ : 0 < τ) (hconv : C02.ConvexPen pn wt)
    (hopt : ∀ v, ProxLe pn wt x τ (pn.prox1 wt x τ) v) :
    PenSubgrad pn wt (pn.prox1 wt x τ) ((x - pn.prox1 wt x τ) / τ) := by
  obtain ⟨pu, hpu, h⟩ := prox_proxSubgrad pn wt x τ hτ hopt
  exact ⟨pu, hpu, proxSubgrad_global (C02.pen_convexExt pn wt hconv) (by positivity) hpu h⟩

/-- conversely the prox is single-valued: a point `w` with `g ∈ ∂pen(w)` is the prox of
    `w + τ g` -/
theorem prox_of_penSubgrad (pn : SepPen ℝ) (wt w g τ : ℝ) (hτ : 0 < τ)
    (hsub : PenSubgrad pn wt w g)
    (hopt : ∀ v, ProxLe pn wt (w + τ * g) τ (pn.prox1 wt (w + τ * g) τ) v) :
    pn.prox1 wt (w + τ * g) τ = w := by
  obtain ⟨pw, hpw, hsg⟩ := hsub
  set u := pn.prox1 wt (w + τ * g) τ with hu
  cases hpu : pen pn wt u with
  | none =>
    have := hopt u
    simp only [ProxLe, hpu] at this
  | some pu =>
    have h := hopt w
    simp only [ProxLe, hpu, hpw] at h
    have h2 := hsg u pu hpu
    have h3 : (u - w) ^ 2 ≤ 0 := by nlinarith
    have h4 : u - w = 0 := by nlinarith [sq_nonneg (u - w)]
    linarith

/-! ### scores -/

theorem le_foldl_smax (l : List ℝ) (a : ℝ) : a ≤ l.foldl smax a := by
  induction l generalizing a with
  | nil => exact le_refl _
  | cons x l ih =>
    rw [List.foldl_cons]
    exact le_trans (by rw [smax_eq]; exact le_max_left _ _) (ih _)

theorem foldl_smax_le_iff (l : List ℝ) (a c : ℝ) :
    l.foldl smax a ≤ c ↔ a ≤ c ∧ ∀ x ∈ l, x ≤ c := by
  induction l generalizing a with
  | nil => simp
  | cons x l ih =>
    rw [List.foldl_cons, ih, smax_eq, max_le_iff]
    simp only [List.mem_cons, forall_eq_or_imp]
    tauto

theorem pyMax_le_iff (l : List ℝ) (hl : ∀ x ∈ l, 0 ≤ x) (c : ℝ) :
    pyMax l ≤ c ↔ 0 ≤ c ∧ ∀ x ∈ l, x ≤ c := by
  cases l with
  | nil => simp [pyMax]
  | cons x l =>
    simp only [pyMax, foldl_smax_le_iff, List.mem_cons, forall_eq_or_imp]
    constructor
    · rintro ⟨h1, h2⟩
      exact ⟨(hl x (List.mem_cons_self)).trans h1, h1, h2⟩
    · rintro ⟨_, h1, h2⟩
      exact ⟨h1, h2⟩

theorem pyMax_nonneg (l : List ℝ) (hl : ∀ x ∈ l, 0 ≤ x) : 0 ≤ pyMax l := by
  cases l with
  | nil => simp [pyMax]
  | cons x l => exact (hl x List.mem_cons_self).trans (le_foldl_smax l x)

/-- the prox point whose distance to `w_j` is the primal score -/
noncomputable def proxPoint (P : PDProb ℝ n p) (w : Fin p → ℝ) (z : Fin n → ℝ) (j : Fin p) : ℝ :=
  P.pen.prox1 (P.wts j) (w j - P.tau j * XTz P z j) (P.tau j)

theorem scorePrimal_eq (P : PDProb ℝ n p) (w : Fin p → ℝ) (z : Fin n → ℝ) (j : Fin p) :
    P.scorePrimal w z j = |w j - proxPoint P w z j| := by
  unfold PDProb.scorePrimal proxPoint XTz
  rw [sabs_eq, dot_eq]
  have : ∑ i, P.tau j * P.X i j * z i = P.tau j * ∑ i, P.X i j * z i := by
    rw [Finset.mul_sum]; exact Finset.sum_congr rfl (fun i _ => by ring)
  rw [this]

theorem nextZ_eq (P : PDProb ℝ n p) (s : PDState ℝ n p) :
    P.nextZ s = P.df.proxConj (fun i => s.z i + P.sigma * s.Xw i) P.sigma P.y := by
  simp only [PDProb.nextZ, mat_eq]

theorem critOn_le_iff (P : PDProb ℝ n p) (s : PDState ℝ n p) (ws : List (Fin p)) (c : ℝ) :
    P.critOn s ws ≤ c ↔ 0 ≤ c ∧ (∀ j ∈ ws, |s.w j - proxPoint P s.w s.z j| ≤ c) ∧
      ∀ i, |s.z i - P.nextZ s i| ≤ c := by
  unfold PDProb.critOn PDProb.scoreDual
  rw [smax_eq, max_le_iff, pyMax_le_iff _ ?_ c, pyMax_le_iff _ ?_ c]
  · simp only [List.mem_map, forall_exists_index, and_imp, forall_apply_eq_imp_iff₂,
      scorePrimal_eq, mat_eq, sabs_eq, List.mem_finRange, true_and]
    constructor
    · rintro ⟨⟨h0, h1⟩, _, h2⟩
      exact ⟨h0, h1, fun i => h2 _ i rfl⟩
    · rintro ⟨h0, h1, h2⟩
      exact ⟨⟨h0, h1⟩, h0, fun x i hx => hx ▸ h2 i⟩
  · intro x hx
    simp only [List.mem_map] at hx
    obtain ⟨i, _, rfl⟩ := hx
    rw [sabs_eq]; exact abs_nonneg _
  · intro x hx
    simp only [List.mem_map] at hx
    obtain ⟨j, _, rfl⟩ := hx
    rw [scorePrimal_eq]; exact abs_nonneg _

theorem stopCrit_le_iff (P : PDProb ℝ n p) (s : PDState ℝ n p) (c : ℝ) :
    P.stopCrit s ≤ c ↔ 0 ≤ c ∧ (∀ j, |s.w j - proxPoint P s.w s.z j| ≤ c) ∧
      ∀ i, |s.z i - P.nextZ s i| ≤ c := by
  unfold PDProb.stopCrit
  rw [critOn_le_iff]
  simp [PDProb.allFeatures]

theorem critOn_nonneg (P : PDProb ℝ n p) (s : PDState ℝ n p) (ws : List (Fin p)) :
    0 ≤ P.critOn s ws := ((critOn_le_iff P s ws _).1 (le_refl _)).1


/-! ### (d) fixed points, the stopping criterion, saddle points -/

/-- with `z_bar = z` the value written to `w[j]` is the prox point of the primal score -/
theorem newVal_eq_proxPoint (P : PDProb ℝ n p) (s : PDState ℝ n p) (j : Fin p)
    (hzb : s.zbar = s.z) : newVal P s j = proxPoint P s.w s.z j := by
  unfold newVal proxPoint XTz
  rw [hzb]
  have : ∀ i, P.X i j * (2 * s.z i - s.z i) = P.X i j * s.z i := fun i => by ring
  simp only [this]

theorem XwNext_of_fixed (P : PDProb ℝ n p) (s : PDState ℝ n p) (j : Fin p)
    (h : newVal P s j = s.w j) : XwNext P s j = s.Xw := by
  funext i
  simp only [XwNext, h, sub_self, zero_mul, add_zero]

theorem zbarNext_of_fixed (P : PDProb ℝ n p) (s : PDState ℝ n p) (j : Fin p)
    (h : newVal P s j = s.w j) : zbarNext P s j = P.nextZ s := by
  rw [nextZ_eq]
  unfold zbarNext
  rw [XwNext_of_fixed P s j h]

/-- every coordinate step leaves `(w, z)` unchanged ⇒ all the scores vanish -/
theorem stopCrit_zero_of_fixed (P : PDProb ℝ n p) (s : PDState ℝ n p) (hp : 0 < p)
    (hzb : s.zbar = s.z)
    (hfix : ∀ j, (P.pdcdStep s j).w = s.w ∧ (P.pdcdStep s j).z = s.z) : P.stopCrit s ≤ 0 := by
  have hnew : ∀ j, newVal P s j = s.w j := by
    intro j
    have := congrFun (hfix j).1 j
    rwa [step_w, if_pos rfl] at this
  rw [stopCrit_le_iff]
  refine ⟨le_refl _, fun j => ?_, fun i => ?_⟩
  · rw [← newVal_eq_proxPoint P s j hzb, hnew j, sub_self, abs_zero]
  · have h := congrFun (hfix ⟨0, hp⟩).2 i
    rw [step_z, zbarNext_of_fixed P s _ (hnew _)] at h
    have hp' : (p : ℝ) ≠ 0 := Nat.cast_ne_zero.2 hp.ne'
    have h2 : (P.nextZ s i - s.z i) / (p : ℝ) = 0 := by linarith
    rcases div_eq_zero_iff.1 h2 with h3 | h3
    · have : s.z i - P.nextZ s i = 0 := by linarith
      rw [this, abs_zero]
    · exact absurd h3 hp'

/-- all the scores vanish (and `z_bar = z`) ⇒ every coordinate step is the identity -/
theorem fixed_of_stopCrit_zero (P : PDProb ℝ n p) (s : PDState ℝ n p) (hzb : s.zbar = s.z)
    (hstop : P.stopCrit s ≤ 0) (j : Fin p) : P.pdcdStep s j = s := by
  obtain ⟨_, hpr, hdu⟩ := (stopCrit_le_iff P s 0).1 hstop
  have hnew : newVal P s j = s.w j := by
    rw [newVal_eq_proxPoint P s j hzb]
    have := abs_nonpos_iff.1 (hpr j)
    linarith
  have hz : P.nextZ s = s.z := by
    funext i
    have := abs_nonpos_iff.1 (hdu i)
    linarith
  refine state_ext _ _ ?_ ?_ ?_ ?_
  · funext k
    rw [step_w]
    split_ifs with hk
    · rw [hk, hnew]
    · rfl
  · rw [step_Xw, XwNext_of_fixed P s j hnew]
  · funext i
    rw [step_z, zbarNext_of_fixed P s j hnew, hz, sub_self, zero_div, add_zero]
  · rw [step_zbar, zbarNext_of_fixed P s j hnew, hz, hzb]

/-- what `stop_crit ≤ c` certifies (the buffer `Xw` is the one the solver holds) -/
theorem stopCrit_certifies (P : PDProb ℝ n p) (s : PDState ℝ n p) (c : ℝ) (hσ : 0 < P.sigma)
    (hτ : ∀ j, 0 < P.tau j) (hprox : ∀ j, ProxOptimal P j (P.tau j))
    (hconv : ∀ j, C02.ConvexPen P.pen (P.wts j)) (hstop : P.stopCrit s ≤ c) :
    (∀ j, ∃ u e, |s.w j - u| ≤ c ∧ |e| ≤ c / P.tau j ∧
        PenSubgrad P.pen (P.wts j) u (-(XTz P s.z j) + e)) ∧
    ∃ ζ d : Fin n → ℝ, (∀ i, |s.z i - ζ i| ≤ c) ∧ (∀ i, |d i| ≤ c / P.sigma) ∧
      SubgradAt P.df P.y (fun i => s.Xw i + d i) ζ := by
  obtain ⟨_, hpr, hdu⟩ := (stopCrit_le_iff P s c).1 hstop
  constructor
  · intro j
    refine ⟨proxPoint P s.w s.z j, (s.w j - proxPoint P s.w s.z j) / P.tau j, hpr j, ?_, ?_⟩
    · rw [abs_div, abs_of_pos (hτ j)]
      exact div_le_div_of_nonneg_right (hpr j) (hτ j).le
    · have h := prox_penSubgrad P.pen (P.wts j) (s.w j - P.tau j * XTz P s.z j) (P.tau j) (hτ j)
        (hconv j) (hprox j _)
      have e : (s.w j - P.tau j * XTz P s.z j - proxPoint P s.w s.z j) / P.tau j
          = -(XTz P s.z j) + (s.w j - proxPoint P s.w s.z j) / P.tau j := by
        have := (hτ j).ne'
        field_simp
        ring
      unfold proxPoint at e ⊢
      rw [e] at h
      exact h
  · refine ⟨P.nextZ s, fun i => (s.z i - P.nextZ s i) / P.sigma, hdu, fun i => ?_, ?_⟩
    · rw [abs_div, abs_of_pos hσ]
      exact div_le_div_of_nonneg_right (hdu i) hσ.le
    · have h := proxConj_subgrad P.df (fun i => s.z i + P.sigma * s.Xw i) P.sigma hσ P.y
      rw [← nextZ_eq] at h
      have e : dualPoint P.df (fun i => s.z i + P.sigma * s.Xw i) P.sigma P.y
          = fun i => s.Xw i + (s.z i - P.nextZ s i) / P.sigma := by
        funext i
        simp only [dualPoint, ← nextZ_eq]
        have := hσ.ne'
        field_simp
        ring
      rw [e] at h
      exact h

/-- `stop_crit = 0` in a consistent state: `(w, z)` is a saddle point -/
theorem saddle_of_stopCrit_zero (P : PDProb ℝ n p) (s : PDState ℝ n p) (hc : Consistent P s)
    (hσ : 0 < P.sigma) (hτ : ∀ j, 0 < P.tau j) (hprox : ∀ j, ProxOptimal P j (P.tau j))
    (hconv : ∀ j, C02.ConvexPen P.pen (P.wts j)) (hstop : P.stopCrit s ≤ 0) :
    Saddle P s.w s.z := by
  obtain ⟨hpr, ζ, d, hζ, hd, hsub⟩ := stopCrit_certifies P s 0 hσ hτ hprox hconv hstop
  constructor
  · intro j
    obtain ⟨u, e, hu, he, hsg⟩ := hpr j
    have hu' : u = s.w j := by have := abs_nonpos_iff.1 hu; linarith
    have he' : e = 0 := by rw [zero_div] at he; exact abs_nonpos_iff.1 he
    rw [hu', he', add_zero] at hsg
    exact hsg
  · have hζ' : ζ = s.z := by
      funext i; have := abs_nonpos_iff.1 (hζ i); linarith
    have hd' : (fun i => s.Xw i + d i) = lin P s.w := by
      funext i
      have h0 : d i = 0 := by have := hd i; rw [zero_div] at this; exact abs_nonpos_iff.1 this
      rw [h0, add_zero, hc i]; rfl
    rw [hd', hζ'] at hsub
    exact hsub

/-- a saddle point gives a global minimiser of the documented objective -/
theorem saddle_minimiser (P : PDProb ℝ n p) (w : Fin p → ℝ) (z : Fin n → ℝ) (hs : Saddle P w z)
    (v : Fin p → ℝ) (hv : Feasible P v) : trueObj P w ≤ trueObj P v := by
  obtain ⟨hpen, hdf⟩ := hs
  have h1 := hdf (lin P v)
  have h2 : ∑ j, ((pen P.pen (P.wts j) (w j)).getD 0 + -(XTz P z j) * (v j - w j))
      ≤ ∑ j, (pen P.pen (P.wts j) (v j)).getD 0 := by
    refine Finset.sum_le_sum (fun j _ => ?_)
    obtain ⟨pw, hpw, hsg⟩ := hpen j
    obtain ⟨pv, hpv⟩ := Option.isSome_iff_exists.1 (hv j)
    rw [hpw, hpv]
    exact hsg (v j) pv hpv
  have h3 : ∑ i, z i * (lin P v i - lin P w i) = ∑ j, XTz P z j * (v j - w j) := by
    unfold lin XTz
    have : ∀ i, z i * (∑ j, P.X i j * v j - ∑ j, P.X i j * w j)
        = ∑ j, P.X i j * z i * (v j - w j) := by
      intro i
      rw [← Finset.sum_sub_distrib, Finset.mul_sum]
      exact Finset.sum_congr rfl (fun j _ => by ring)
    simp only [this]
    rw [Finset.sum_comm]
    refine Finset.sum_congr rfl (fun j _ => ?_)
    rw [Finset.sum_mul]
  rw [Finset.sum_add_distrib] at h2
  have h4 : ∑ j, -(XTz P z j) * (v j - w j) = -∑ j, XTz P z j * (v j - w j) := by
    rw [← Finset.sum_neg_distrib]; exact Finset.sum_congr rfl (fun j _ => by ring)
  unfold trueObj
  linarith

/-- in a consistent feasible state the value the solver appends to `p_objs` is the documented
    objective -/
theorem objective_eq_trueObj (P : PDProb ℝ n p) (s : PDState ℝ n p) (h : Consistent P s)
    (hf : Feasible P s.w)
    (hg : ∀ a g pos, P.pen = .mcp a g pos ∨ P.pen = .wmcp a g pos → 0 < g) :
    P.objective s = .fin (trueObj P s.w) := by
  have hXw : s.Xw = lin P s.w := funext h
  have hno : ∀ j, P.pen.pen1 (P.wts j) (s.w j) ≠ .inf := by
    intro j
    rw [← CDB.toOption_isSome, CDB.pen1_eq_spec _ _ _ hg]
    exact hf j
  unfold PDProb.objective SepPen.value trueObj
  rw [CDB.esum_of_no_inf _ hno, hXw]
  show Ext.fin _ = Ext.fin _
  congr 2
  refine Finset.sum_congr rfl (fun j _ => ?_)
  rw [← CDB.pen1_eq_spec _ _ _ hg, CDB.toOption_getD]


/-! ### runs -/

/-- states reachable from `s₀` by coordinate passes of `_solve_subproblem`, on any features in
    any order (any working sets, any number of epochs, any number of outer iterations) -/
inductive PDReach (P : PDProb ℝ n p) (s₀ : PDState ℝ n p) : PDState ℝ n p → Prop
  | start : PDReach P s₀ s₀
  | step {s} (j : Fin p) : PDReach P s₀ s → PDReach P s₀ (P.pdcdStep s j)

theorem reach_epoch' (P : PDProb ℝ n p) (s₀ s : PDState ℝ n p) (ws : List (Fin p))
    (h : PDReach P s₀ s) : PDReach P s₀ (P.epoch s ws) := by
  unfold PDProb.epoch
  induction ws generalizing s with
  | nil => exact h
  | cons j ws ih => exact ih _ (.step j h)

theorem reach_subLoop (P : PDProb ℝ n p) (s₀ : PDState ℝ n p) (ws : List (Fin p)) (tolIn : ℝ) :
    ∀ (fuel ep : Nat) (s : PDState ℝ n p), PDReach P s₀ s →
      PDReach P s₀ (P.subLoop ws tolIn fuel ep s) := by
  intro fuel
  induction fuel with
  | zero => intro ep s h; exact h
  | succ fuel ih =>
    intro ep s h
    unfold PDProb.subLoop
    dsimp only
    split_ifs
    · exact reach_epoch' P s₀ s ws h
    · exact ih _ _ (reach_epoch' P s₀ s ws h)

theorem reach_solveLoop (P : PDProb ℝ n p) (sel : (Fin p → ℝ) → Nat → List (Fin p))
    (p0 maxEpochs : Nat) (tol : ℝ) (s₀ : PDState ℝ n p) :
    ∀ (fuel : Nat) (s : PDState ℝ n p) (crit : ℝ) (objs : List (Ext ℝ)), PDReach P s₀ s →
      PDReach P s₀ (P.solveLoop sel p0 maxEpochs tol fuel s crit objs).1 := by
  intro fuel
  induction fuel with
  | zero => intro s crit objs h; exact h
  | succ fuel ih =>
    intro s crit objs h
    unfold PDProb.solveLoop
    dsimp only
    split_ifs
    · exact h
    · exact ih _ _ _ (reach_subLoop P s₀ _ _ _ _ _ h)

/-- the `stop_crit` returned by a run that entered the loop and met the tolerance is the
    criterion **of the returned state** -/
theorem solveLoop_crit (P : PDProb ℝ n p) (sel : (Fin p → ℝ) → Nat → List (Fin p))
    (p0 maxEpochs : Nat) (tol : ℝ) :
    ∀ (fuel : Nat) (s : PDState ℝ n p) (crit : ℝ) (objs : List (Ext ℝ)), 0 < fuel →
      (P.solveLoop sel p0 maxEpochs tol fuel s crit objs).2.2 ≤ tol →
      (P.solveLoop sel p0 maxEpochs tol fuel s crit objs).2.2
        = P.stopCrit (P.solveLoop sel p0 maxEpochs tol fuel s crit objs).1 := by
  intro fuel
  induction fuel with
  | zero => intro s crit objs h; exact absurd h (lt_irrefl _)
  | succ fuel ih =>
    intro s crit objs _ hle
    have hcrit : smax (pyMax ((PDProb.allFeatures p).map (mat (P.scorePrimal s.w s.z))))
        (P.scoreDual s) = P.stopCrit s := by
      simp only [PDProb.stopCrit, PDProb.critOn, mat_eq]
    unfold PDProb.solveLoop at hle ⊢
    dsimp only at hle ⊢
    rw [hcrit] at hle ⊢
    by_cases hc : P.stopCrit s ≤ tol
    · rw [if_pos hc]
    · rw [if_neg hc] at hle ⊢
      cases fuel with
      | zero =>
        unfold PDProb.solveLoop at hle
        exact absurd hle hc
      | succ fuel => exact ih _ _ _ (Nat.succ_pos _) hle

/-- the `stop_crit` returned by a run that entered the loop is the criterion of *some* state of
    the run (the returned one, or the one before the last subproblem) -/
theorem solveLoop_crit_reach (P : PDProb ℝ n p) (sel : (Fin p → ℝ) → Nat → List (Fin p))
    (p0 maxEpochs : Nat) (tol : ℝ) (s₀ : PDState ℝ n p) :
    ∀ (fuel : Nat) (s : PDState ℝ n p) (crit : ℝ) (objs : List (Ext ℝ)), 0 < fuel →
      PDReach P s₀ s →
      ∃ s', PDReach P s₀ s' ∧
        (P.solveLoop sel p0 maxEpochs tol fuel s crit objs).2.2 = P.stopCrit s' := by
  intro fuel
  induction fuel with
  | zero => intro s crit objs h; exact absurd h (lt_irrefl _)
  | succ fuel ih =>
    intro s crit objs _ hr
    have hcrit : smax (pyMax ((PDProb.allFeatures p).map (mat (P.scorePrimal s.w s.z))))
        (P.scoreDual s) = P.stopCrit s := by
      simp only [PDProb.stopCrit, PDProb.critOn, mat_eq]
    unfold PDProb.solveLoop
    dsimp only
    rw [hcrit]
    by_cases hc : P.stopCrit s ≤ tol
    · rw [if_pos hc]; exact ⟨s, hr, rfl⟩
    · rw [if_neg hc]
      cases fuel with
      | zero => exact ⟨s, hr, rfl⟩
      | succ fuel => exact ih _ _ _ (Nat.succ_pos _) (reach_subLoop P s₀ _ _ _ _ _ hr)

/-- `max_iter = 0`: the start is returned with `stop_crit = 0.` and an empty history -/
theorem solve_zero_iter (P : PDProb ℝ n p) (sel : (Fin p → ℝ) → Nat → List (Fin p))
    (p0 maxEpochs : Nat) (tol : ℝ) (w0 : Option (Fin p → ℝ)) (Xw0 dual0 : Option (Fin n → ℝ)) :
    P.solve sel p0 maxEpochs 0 tol w0 Xw0 dual0 = (PDProb.init w0 Xw0 dual0, [], 0) := rfl

/-! ### starts -/

theorem init_cold_consistent (P : PDProb ℝ n p) (dual0 : Option (Fin n → ℝ)) :
    Consistent P (PDProb.init none none dual0) := by
  intro i
  simp [PDProb.init]

theorem init_warm_consistent_iff (P : PDProb ℝ n p) (w0 : Fin p → ℝ) (Xw0 : Fin n → ℝ)
    (dual0 : Option (Fin n → ℝ)) :
    Consistent P (PDProb.init (some w0) (some Xw0) dual0) ↔ ∀ i, Xw0 i = ∑ j, P.X i j * w0 j := by
  simp [Consistent, PDProb.init]

theorem init_zbar (w0 : Option (Fin p → ℝ)) (Xw0 dual0 : Option (Fin n → ℝ)) :
    (PDProb.init w0 Xw0 dual0 : PDState ℝ n p).zbar = (PDProb.init w0 Xw0 dual0 : PDState ℝ n p).z :=
  rfl


/-! ### a whole pass that returns to its start -/

/-- every primal update of the pass over `ws` started in `s` writes back the value it read -/
def AllNoop (P : PDProb ℝ n p) : PDState ℝ n p → List (Fin p) → Prop
  | _, [] => True
  | s, j :: rest => newVal P s j = s.w j ∧ AllNoop P (P.pdcdStep s j) rest

theorem step_w_of_noop (P : PDProb ℝ n p) (s : PDState ℝ n p) (j : Fin p)
    (h : newVal P s j = s.w j) : (P.pdcdStep s j).w = s.w := by
  funext k
  rw [step_w]
  split_ifs with hk
  · rw [hk, h]
  · rfl

theorem epoch_cons (P : PDProb ℝ n p) (s : PDState ℝ n p) (j : Fin p) (ws : List (Fin p)) :
    P.epoch s (j :: ws) = P.epoch (P.pdcdStep s j) ws := rfl

theorem epoch_append (P : PDProb ℝ n p) (s : PDState ℝ n p) (a b : List (Fin p)) :
    P.epoch s (a ++ b) = P.epoch (P.epoch s a) b := by
  unfold PDProb.epoch; rw [List.foldl_append]

theorem epoch_w_outside (P : PDProb ℝ n p) (s : PDState ℝ n p) (ws : List (Fin p)) (k : Fin p)
    (hk : k ∉ ws) : (P.epoch s ws).w k = s.w k := by
  induction ws generalizing s with
  | nil => rfl
  | cons j ws ih =>
    rw [epoch_cons, ih _ (fun h => hk (List.mem_cons_of_mem _ h)), step_w,
      if_neg (fun h : k = j => hk (h ▸ List.mem_cons_self))]

theorem allNoop_of_w_fixed (P : PDProb ℝ n p) (s : PDState ℝ n p) (ws : List (Fin p))
    (hnd : ws.Nodup) (h : ∀ k ∈ ws, (P.epoch s ws).w k = s.w k) : AllNoop P s ws := by
  induction ws generalizing s with
  | nil => trivial
  | cons j ws ih =>
    obtain ⟨hj, hnd'⟩ := List.nodup_cons.1 hnd
    have hnew : newVal P s j = s.w j := by
      have := h j List.mem_cons_self
      rwa [epoch_cons, epoch_w_outside _ _ _ _ hj, step_w, if_pos rfl] at this
    refine ⟨hnew, ih _ hnd' (fun k hk => ?_)⟩
    rw [step_w_of_noop P s j hnew]
    exact h k (List.mem_cons_of_mem _ hk)

theorem allNoop_epoch (P : PDProb ℝ n p) (s : PDState ℝ n p) (ws : List (Fin p))
    (h : AllNoop P s ws) : (P.epoch s ws).w = s.w ∧ (P.epoch s ws).Xw = s.Xw := by
  induction ws generalizing s with
  | nil => exact ⟨rfl, rfl⟩
  | cons j ws ih =>
    obtain ⟨h1, h2⟩ := h
    obtain ⟨e1, e2⟩ := ih _ h2
    rw [epoch_cons, e1, e2, step_w_of_noop P s j h1, step_Xw, XwNext_of_fixed P s j h1]
    exact ⟨rfl, rfl⟩

theorem allNoop_append (P : PDProb ℝ n p) (s : PDState ℝ n p) (a b : List (Fin p)) :
    AllNoop P s (a ++ b) ↔ AllNoop P s a ∧ AllNoop P (P.epoch s a) b := by
  induction a generalizing s with
  | nil => simp [AllNoop, PDProb.epoch]
  | cons j a ih =>
    simp only [List.cons_append, AllNoop, epoch_cons, ih, and_assoc]

/-- once `next_z = z` and `z_bar = z`, a no-op primal update makes the whole step the identity -/
theorem step_eq_self (P : PDProb ℝ n p) (s : PDState ℝ n p) (j : Fin p) (hzb : s.zbar = s.z)
    (hz : P.nextZ s = s.z) (hnew : newVal P s j = s.w j) : P.pdcdStep s j = s := by
  refine state_ext _ _ (step_w_of_noop P s j hnew) ?_ ?_ ?_
  · rw [step_Xw, XwNext_of_fixed P s j hnew]
  · funext i
    rw [step_z, zbarNext_of_fixed P s j hnew, hz, sub_self, zero_div, add_zero]
  · rw [step_zbar, zbarNext_of_fixed P s j hnew, hz, hzb]

theorem allNoop_all (P : PDProb ℝ n p) (s : PDState ℝ n p) (ws : List (Fin p))
    (hzb : s.zbar = s.z) (hz : P.nextZ s = s.z) (h : AllNoop P s ws) :
    ∀ j ∈ ws, newVal P s j = s.w j := by
  induction ws with
  | nil => intro j hj; cases hj
  | cons k ws ih =>
    obtain ⟨h1, h2⟩ := h
    rw [step_eq_self P s k hzb hz h1] at h2
    intro j hj
    rcases List.mem_cons.1 hj with rfl | hj
    · exact h1
    · exact ih h2 j hj

/-- **pass level**: a pass over all the features (each once, any order) started with `z_bar = z`
    that returns to its start — same `w`, same `z`, same `z_bar` — consists of identity steps:
    every score of the stopping criterion vanishes -/
theorem stopCrit_zero_of_pass_fixed (P : PDProb ℝ n p) (s : PDState ℝ n p) (ws : List (Fin p))
    (hnd : ws.Nodup) (hall : ∀ j, j ∈ ws) (hp : 0 < p) (hzb : s.zbar = s.z)
    (hw : (P.epoch s ws).w = s.w) (hz : (P.epoch s ws).z = s.z)
    (hzb' : (P.epoch s ws).zbar = s.zbar) : P.stopCrit s ≤ 0 := by
  have hno : AllNoop P s ws := allNoop_of_w_fixed P s ws hnd (fun k _ => congrFun hw k)
  have hlen : ws.length = p := by
    have := List.Nodup.length_le_card hnd
    have h2 : (List.finRange p).length ≤ ws.length :=
      List.Subperm.length_le ((List.nodup_finRange p).subperm (fun j _ => hall j))
    simp only [List.length_finRange, Fintype.card_fin] at this h2
    omega
  -- split off the last step
  rcases List.eq_nil_or_concat ws with hnil | ⟨a, j, hws⟩
  · rw [hnil] at hlen; simp at hlen; omega
  rw [List.concat_eq_append] at hws
  subst hws
  obtain ⟨hnoa, hnoj⟩ := (allNoop_append P s a [j]).1 hno
  obtain ⟨hnewj, _⟩ := hnoj
  obtain ⟨_, htX⟩ := allNoop_epoch P s a hnoa
  set t := P.epoch s a with ht
  have hfin : P.epoch s (a ++ [j]) = P.pdcdStep t j := by rw [epoch_append]; rfl
  rw [hfin] at hz hzb'
  -- `z_bar` after the last step is `next_z` of `t`
  have hzbar : P.nextZ t = s.z := by
    rw [← zbarNext_of_fixed P t j hnewj, ← step_zbar, hzb', hzb]
  -- the last `z` update
  have htz : t.z = s.z := by
    by_cases hp1 : p = 1
    · have : a = [] := by
        rw [List.length_append, List.length_singleton] at hlen
        exact List.eq_nil_of_length_eq_zero (by omega)
      rw [ht, this]; rfl
    · funext i
      have h := congrFun hz i
      rw [step_z, zbarNext_of_fixed P t j hnewj, hzbar] at h
      have hp2 : (2 : ℝ) ≤ p := by exact_mod_cast (by omega : 2 ≤ p)
      have hp0 : (p : ℝ) ≠ 0 := by positivity
      have h' : (s.z i - t.z i) * ((p : ℝ) - 1) = 0 := by
        field_simp at h
        linarith
      rcases mul_eq_zero.1 h' with h0 | h0
      · linarith
      · linarith
  have hnz : P.nextZ s = s.z := by
    rw [← hzbar, nextZ_eq, nextZ_eq, htz, htX]
  have hnew := allNoop_all P s (a ++ [j]) hzb hnz hno
  rw [stopCrit_le_iff]
  refine ⟨le_refl _, fun k => ?_, fun i => ?_⟩
  · rw [← newVal_eq_proxPoint P s k hzb, hnew k (hall k), sub_self, abs_zero]
  · rw [hnz, sub_self, abs_zero]

end Skglm.PDCD
