import Skglm.Model.Prox
import Skglm.Real
/-
  C14: a constant SLOPE sequence is the L1 penalty. `prox_SLOPE` (stack-based pool-adjacent-violators,
  `utils/prox_funcs.py`) on a non-increasing `z` with all `alphas` equal to `a` returns the
  soft-thresholded (positive part) vector `max(z_i - a, 0)`: blocks are merged only on ties, and the
  mean of equal values is that value.
-/
namespace Skglm.Proofs
open Skglm

/-- the entries a block contributes to the output -/
noncomputable def slopeBlkOut (b : SlopeBlk ℝ) : List ℝ :=
  List.replicate (b.i1 - b.i0 + 1) (if b.w < 0 then 0 else b.w)

/-- output of a stack (head = top) -/
noncomputable def slopeOut (st : List (SlopeBlk ℝ)) : List ℝ := st.reverse.flatMap slopeBlkOut

theorem slopeOut_cons (b : SlopeBlk ℝ) (st : List (SlopeBlk ℝ)) :
    slopeOut (b :: st) = slopeOut st ++ slopeBlkOut b := by
  simp [slopeOut, List.flatMap_append]

/-- contiguous stack whose top block ends at `i - 1`, with consistent sums -/
def SlopeChain : List (SlopeBlk ℝ) → Nat → Prop
  | [], _ => True
  | b :: rest, i => b.i1 + 1 = i ∧ b.i0 ≤ b.i1 ∧
      b.s = ((b.i1 - b.i0 + 1 : ℕ) : ℝ) * b.w ∧ SlopeChain rest b.i0

theorem slopeMerge_inv (i : Nat) : ∀ (fuel : Nat) (top : SlopeBlk ℝ) (stack : List (SlopeBlk ℝ)),
    SlopeChain (top :: stack) (i + 1) → (∀ b ∈ stack, top.w ≤ b.w) →
    SlopeChain (slopeMerge fuel top stack i) (i + 1) ∧
    (∀ b ∈ slopeMerge fuel top stack i, top.w ≤ b.w) ∧
    slopeOut (slopeMerge fuel top stack i) = slopeOut (top :: stack) := by
  intro fuel
  induction fuel with
  | zero =>
    intro top stack hc hw
    refine ⟨by simpa [slopeMerge] using hc, ?_, by simp [slopeMerge]⟩
    intro b hb
    simp only [slopeMerge, List.mem_cons] at hb
    rcases hb with rfl | hb
    · exact le_rfl
    · exact hw b hb
  | succ fuel ih =>
    intro top stack hc hw
    cases stack with
    | nil =>
      refine ⟨by simpa [slopeMerge] using hc, ?_, by simp [slopeMerge]⟩
      intro b hb
      simp only [slopeMerge, List.mem_singleton] at hb
      subst hb; exact le_rfl
    | cons b rest =>
      by_cases hle : b.w ≤ top.w
      · have hbw : b.w = top.w := le_antisymm hle (hw b (by simp))
        obtain ⟨ht1, ht0, hts, hb1, hb0, hbs, hrest⟩ := hc
        have hti1 : top.i1 = i := by omega
        have hcnt : i - b.i0 + 1 = (b.i1 - b.i0 + 1) + (top.i1 - top.i0 + 1) := by omega
        have hnbw : (b.s + top.s) / nat (i - b.i0 + 1) = top.w := by
          rw [nat_eq, hcnt, hbs, hts, hbw]
          have : ((b.i1 - b.i0 + 1 + (top.i1 - top.i0 + 1) : ℕ) : ℝ) ≠ 0 := by
            have : 0 < b.i1 - b.i0 + 1 + (top.i1 - top.i0 + 1) := by omega
            exact_mod_cast this.ne'
          rw [div_eq_iff this]; push_cast; ring
        have hstep : slopeMerge (fuel + 1) top (b :: rest) i =
            slopeMerge fuel
              (⟨b.i0, i, b.s + top.s, (b.s + top.s) / nat (i - b.i0 + 1)⟩ : SlopeBlk ℝ) rest i := by
          simp [slopeMerge, hle]
        rw [hstep]
        have hc' : SlopeChain ((⟨b.i0, i, b.s + top.s, (b.s + top.s) / nat (i - b.i0 + 1)⟩ : SlopeBlk ℝ)
              :: rest) (i + 1) := by
          refine ⟨rfl, by show b.i0 ≤ i; omega, ?_, hrest⟩
          show b.s + top.s = ((i - b.i0 + 1 : ℕ) : ℝ) * ((b.s + top.s) / nat (i - b.i0 + 1))
          rw [hnbw, hcnt, hbs, hts, hbw]; push_cast; ring
        have hw' : ∀ b' ∈ rest, (b.s + top.s) / nat (i - b.i0 + 1) ≤ b'.w := by
          intro b' hb'
          rw [hnbw]; exact hw b' (by simp [hb'])
        obtain ⟨h1, h2, h3⟩ := ih _ rest hc' hw'
        refine ⟨h1, ?_, ?_⟩
        · intro b' hb'
          have := h2 b' hb'
          simpa only [hnbw] using this
        · rw [h3, slopeOut_cons, slopeOut_cons, slopeOut_cons, List.append_assoc]
          congr 1
          show List.replicate (i - b.i0 + 1)
              (if (b.s + top.s) / nat (i - b.i0 + 1) < 0 then 0
                else (b.s + top.s) / nat (i - b.i0 + 1)) = _
          rw [hnbw, hcnt, List.replicate_add]
          simp only [slopeBlkOut, hbw]
      · have hstep : slopeMerge (fuel + 1) top (b :: rest) i = top :: b :: rest := by
          simp [slopeMerge, hle]
        rw [hstep]
        refine ⟨hc, ?_, rfl⟩
        intro b' hb'
        rcases List.mem_cons.mp hb' with rfl | hb'
        · exact le_rfl
        · exact hw b' hb'

theorem slope_go_const (n : Nat) (a : ℝ) : ∀ (l : List (ℝ × ℝ)) (i : Nat) (st : List (SlopeBlk ℝ)),
    SlopeChain st i → (∀ p ∈ l, p.2 = a) → l.Pairwise (fun p q => q.1 ≤ p.1) →
    (∀ p ∈ l, ∀ b ∈ st, p.1 - a ≤ b.w) →
    slopeOut (prox_SLOPE.go n i l st) =
      slopeOut st ++ l.map (fun p => if p.1 - a < 0 then 0 else p.1 - a) := by
  intro l
  induction l with
  | nil => intro i st _ _ _ _; simp [prox_SLOPE.go]
  | cons p tl ih =>
    intro i st hc ha hs hw
    obtain ⟨zi, ai⟩ := p
    have hai : ai = a := ha (zi, ai) (by simp)
    subst hai
    have hgo : prox_SLOPE.go n i ((zi, ai) :: tl) st =
        prox_SLOPE.go n (i + 1) tl
          (slopeMerge (n + 1) { i0 := i, i1 := i, s := zi - ai, w := zi - ai } st i) := by
      simp [prox_SLOPE.go]
    rw [hgo]
    have hc0 : SlopeChain (({ i0 := i, i1 := i, s := zi - ai, w := zi - ai } : SlopeBlk ℝ) :: st)
        (i + 1) := by
      refine ⟨rfl, le_rfl, ?_, hc⟩
      simp
    have hw0 : ∀ b ∈ st, (({ i0 := i, i1 := i, s := zi - ai, w := zi - ai } : SlopeBlk ℝ)).w ≤ b.w :=
      fun b hb => hw (zi, ai) (by simp) b hb
    obtain ⟨h1, h2, h3⟩ := slopeMerge_inv i (n + 1) _ st hc0 hw0
    rw [List.pairwise_cons] at hs
    rw [ih (i + 1) _ h1 (fun p hp => ha p (by simp [hp])) hs.2 ?_, h3, slopeOut_cons]
    · simp [slopeBlkOut]
    · intro p hp b hb
      have := h2 b hb
      have h4 := hs.1 p hp
      simp only at this h4
      linarith

theorem zip_replicate_const (a : ℝ) : ∀ (z : List ℝ),
    List.zip z (List.replicate z.length a) = z.map (fun x => (x, a)) := by
  intro z
  induction z with
  | nil => simp
  | cons x tl ih => simp [List.replicate_succ, ih]

theorem slope_constant_eq_l1 (z : List ℝ) (a : ℝ) (hz : z.Pairwise (fun x y => y ≤ x)) :
    prox_SLOPE z (List.replicate z.length a) = z.map (fun zi => if zi - a < 0 then 0 else zi - a) := by
  have h := slope_go_const z.length a (z.map (fun x => (x, a))) 0 [] trivial
    (by intro p hp; simp only [List.mem_map] at hp; obtain ⟨x, _, rfl⟩ := hp; rfl)
    (by rw [List.pairwise_map]; exact hz)
    (by intro p _ b hb; simp at hb)
  show slopeOut (prox_SLOPE.go z.length 0 (List.zip z (List.replicate z.length a)) []) = _
  rw [zip_replicate_const, h]
  simp [slopeOut, List.map_map, Function.comp_def]

end Skglm.Proofs
