import Skglm.Spec.Penalties
import Mathlib.Analysis.Calculus.Deriv.Add
import Mathlib.Analysis.Calculus.Deriv.Mul
import Mathlib.Analysis.Calculus.Deriv.Pow
import Mathlib.Analysis.SpecialFunctions.Pow.Deriv
import Mathlib.Analysis.SpecialFunctions.Log.Deriv
import Mathlib.Analysis.SpecialFunctions.Sqrt
/-
  General lemmas about regular (Fréchet) sub-gradients of extended-valued functions of one real
  variable, used by `Skglm.Proofs.Subdiff`.

  A direction is a sign `s = 1` (right) or `s = -1` (left); points near `w` on that side are
  `w + s * t` with `t > 0` small.
-/
namespace Skglm.Proofs.SD
open Skglm Skglm.Spec

/-- the sub-gradient inequality on one side of `w` -/
def SideOK (φ : ℝ → Option ℝ) (w fw g s : ℝ) : Prop :=
  ∀ ε > 0, ∃ δ > 0, ∀ t, 0 < t → t < δ →
    match φ (w + s * t) with
    | some fv => fw + g * (s * t) - ε * t ≤ fv
    | none => True

/-- `φ` is finite on the side `s` of `w` with one-sided derivative `d` (value `fw` at `w`) -/
def SideSlope (φ : ℝ → Option ℝ) (w fw d s : ℝ) : Prop :=
  ∀ ε > 0, ∃ δ > 0, ∀ t, 0 < t → t < δ →
    ∃ fv, φ (w + s * t) = some fv ∧ |fv - fw - d * (s * t)| ≤ ε * t

/-- `φ = +∞` on the side `s` of `w` -/
def SideNone (φ : ℝ → Option ℝ) (w s : ℝ) : Prop :=
  ∃ δ > 0, ∀ t, 0 < t → t < δ → φ (w + s * t) = none

/-- `φ` grows faster than any linear function on the side `s` of `w` -/
def SideSteep (φ : ℝ → Option ℝ) (w fw s : ℝ) : Prop :=
  ∀ M : ℝ, ∃ δ > 0, ∀ t, 0 < t → t < δ → ∃ fv, φ (w + s * t) = some fv ∧ fw + M * t ≤ fv

theorem isRegSubgrad_iff (φ : ℝ → Option ℝ) (w g : ℝ) :
    IsRegSubgrad φ w g ↔ ∃ fw, φ w = some fw ∧ SideOK φ w fw g (-1) ∧ SideOK φ w fw g 1 := by
  constructor
  · rintro ⟨fw, hfw, H⟩
    refine ⟨fw, hfw, ?_, ?_⟩
    · intro ε hε
      obtain ⟨δ, hδ, H'⟩ := H ε hε
      refine ⟨δ, hδ, fun t ht htδ => ?_⟩
      have e1 : w + -1 * t - w = -1 * t := by ring
      have e2 : |(-1 : ℝ) * t| = t := by rw [neg_one_mul, abs_neg, abs_of_pos ht]
      have := H' (w + -1 * t) (by rw [e1, e2]; exact htδ)
      rw [e1, e2] at this
      exact this
    · intro ε hε
      obtain ⟨δ, hδ, H'⟩ := H ε hε
      refine ⟨δ, hδ, fun t ht htδ => ?_⟩
      have e1 : w + 1 * t - w = 1 * t := by ring
      have e2 : |(1 : ℝ) * t| = t := by rw [one_mul, abs_of_pos ht]
      have := H' (w + 1 * t) (by rw [e1, e2]; exact htδ)
      rw [e1, e2] at this
      exact this
  · rintro ⟨fw, hfw, HL, HR⟩
    refine ⟨fw, hfw, fun ε hε => ?_⟩
    obtain ⟨δL, hδL, HL'⟩ := HL ε hε
    obtain ⟨δR, hδR, HR'⟩ := HR ε hε
    refine ⟨min δL δR, lt_min hδL hδR, fun v hv => ?_⟩
    rcases lt_trichotomy v w with h | h | h
    · have hvw : |v - w| = w - v := by rw [abs_of_neg (by linarith)]; ring
      have := HL' (w - v) (by linarith) (by
        rw [hvw] at hv; exact lt_of_lt_of_le hv (min_le_left _ _))
      have e1 : w + -1 * (w - v) = v := by ring
      rw [e1] at this
      rw [hvw]
      have e2 : g * (-1 * (w - v)) = g * (v - w) := by ring
      rw [e2] at this
      exact this
    · subst h
      rw [hfw]
      simp
    · have hvw : |v - w| = v - w := abs_of_pos (by linarith)
      have := HR' (v - w) (by linarith) (by
        rw [hvw] at hv; exact lt_of_lt_of_le hv (min_le_right _ _))
      have e1 : w + 1 * (v - w) = v := by ring
      rw [e1] at this
      rw [hvw]
      have e2 : g * (1 * (v - w)) = g * (v - w) := by ring
      rw [e2] at this
      exact this

theorem sideOK_iff_of_slope {φ : ℝ → Option ℝ} {w fw d s : ℝ} (g : ℝ)
    (hs : SideSlope φ w fw d s) : SideOK φ w fw g s ↔ g * s ≤ d * s := by
  constructor
  · intro hok
    by_contra hlt
    push Not at hlt
    have hpos : 0 < (g * s - d * s) / 3 := by linarith
    obtain ⟨δ1, hδ1, H1⟩ := hok _ hpos
    obtain ⟨δ2, hδ2, H2⟩ := hs _ hpos
    have ht : 0 < min δ1 δ2 / 2 := by have := lt_min hδ1 hδ2; linarith
    have ht1 : min δ1 δ2 / 2 < δ1 := by have := min_le_left δ1 δ2; linarith
    have ht2 : min δ1 δ2 / 2 < δ2 := by have := min_le_right δ1 δ2; linarith
    obtain ⟨fv, hfv, hb⟩ := H2 _ ht ht2
    have h1 := H1 _ ht ht1
    rw [hfv] at h1
    simp only at h1
    have hb' := (abs_le.1 hb).2
    nlinarith
  · intro hle ε hε
    obtain ⟨δ, hδ, H⟩ := hs ε hε
    refine ⟨δ, hδ, fun t ht htδ => ?_⟩
    obtain ⟨fv, hfv, hb⟩ := H t ht htδ
    rw [hfv]
    simp only
    have hb' := (abs_le.1 hb).1
    nlinarith

theorem sideOK_of_none {φ : ℝ → Option ℝ} {w s : ℝ} (fw g : ℝ)
    (hs : SideNone φ w s) : SideOK φ w fw g s := by
  intro ε _
  obtain ⟨δ, hδ, H⟩ := hs
  refine ⟨δ, hδ, fun t ht htδ => ?_⟩
  rw [H t ht htδ]
  trivial

theorem sideOK_of_steep {φ : ℝ → Option ℝ} {w fw s : ℝ} (g : ℝ)
    (hs : SideSteep φ w fw s) : SideOK φ w fw g s := by
  intro ε hε
  obtain ⟨δ, hδ, H⟩ := hs (g * s)
  refine ⟨δ, hδ, fun t ht htδ => ?_⟩
  obtain ⟨fv, hfv, hb⟩ := H t ht htδ
  rw [hfv]
  simp only
  nlinarith

/-! ### the shapes of sub-differential that occur -/

theorem subgrad_iff_kink {φ : ℝ → Option ℝ} {w fw l r : ℝ} (g : ℝ) (h0 : φ w = some fw)
    (hL : SideSlope φ w fw l (-1)) (hR : SideSlope φ w fw r 1) :
    IsRegSubgrad φ w g ↔ l ≤ g ∧ g ≤ r := by
  rw [isRegSubgrad_iff]
  constructor
  · rintro ⟨fw', h0', h1, h2⟩
    rw [h0] at h0'
    cases h0'
    rw [sideOK_iff_of_slope g hL] at h1
    rw [sideOK_iff_of_slope g hR] at h2
    constructor <;> linarith
  · rintro ⟨h1, h2⟩
    refine ⟨fw, h0, (sideOK_iff_of_slope g hL).2 (by linarith), (sideOK_iff_of_slope g hR).2 (by linarith)⟩

theorem subgrad_iff_smooth {φ : ℝ → Option ℝ} {w fw d : ℝ} (g : ℝ) (h0 : φ w = some fw)
    (hL : SideSlope φ w fw d (-1)) (hR : SideSlope φ w fw d 1) :
    IsRegSubgrad φ w g ↔ g = d := by
  rw [subgrad_iff_kink g h0 hL hR]
  constructor
  · rintro ⟨h1, h2⟩; exact le_antisymm h2 h1
  · rintro rfl; exact ⟨le_refl _, le_refl _⟩

theorem subgrad_iff_left_none {φ : ℝ → Option ℝ} {w fw r : ℝ} (g : ℝ) (h0 : φ w = some fw)
    (hL : SideNone φ w (-1)) (hR : SideSlope φ w fw r 1) :
    IsRegSubgrad φ w g ↔ g ≤ r := by
  rw [isRegSubgrad_iff]
  constructor
  · rintro ⟨fw', h0', _, h2⟩
    rw [h0] at h0'
    cases h0'
    rw [sideOK_iff_of_slope g hR] at h2
    linarith
  · intro h
    exact ⟨fw, h0, sideOK_of_none fw g hL, (sideOK_iff_of_slope g hR).2 (by linarith)⟩

theorem subgrad_iff_right_none {φ : ℝ → Option ℝ} {w fw l : ℝ} (g : ℝ) (h0 : φ w = some fw)
    (hL : SideSlope φ w fw l (-1)) (hR : SideNone φ w 1) :
    IsRegSubgrad φ w g ↔ l ≤ g := by
  rw [isRegSubgrad_iff]
  constructor
  · rintro ⟨fw', h0', h1, _⟩
    rw [h0] at h0'
    cases h0'
    rw [sideOK_iff_of_slope g hL] at h1
    linarith
  · intro h
    exact ⟨fw, h0, (sideOK_iff_of_slope g hL).2 (by linarith), sideOK_of_none fw g hR⟩

theorem subgrad_of_steep {φ : ℝ → Option ℝ} {w fw : ℝ} (g : ℝ) (h0 : φ w = some fw)
    (hL : SideSteep φ w fw (-1)) (hR : SideSteep φ w fw 1) :
    IsRegSubgrad φ w g := by
  rw [isRegSubgrad_iff]
  exact ⟨fw, h0, sideOK_of_steep g hL, sideOK_of_steep g hR⟩

theorem no_subgrad_of_none {φ : ℝ → Option ℝ} {w : ℝ} (g : ℝ) (h0 : φ w = none) :
    ¬ IsRegSubgrad φ w g := by
  rintro ⟨fw, hfw, _⟩
  rw [h0] at hfw
  cases hfw

/-! ### producing one-sided slopes -/

theorem SideSlope.of_deriv {φ : ℝ → Option ℝ} {f : ℝ → ℝ} {w fw d s : ℝ}
    (hf : HasDerivAt f d w) (hfw : f w = fw) (hs : s = 1 ∨ s = -1)
    (hφ : ∃ δ > 0, ∀ t, 0 < t → t < δ → φ (w + s * t) = some (f (w + s * t))) :
    SideSlope φ w fw d s := by
  intro ε hε
  obtain ⟨δ1, hδ1, H1⟩ := hφ
  rw [hasDerivAt_iff_isLittleO_nhds_zero] at hf
  have h2 := Asymptotics.isLittleO_iff.1 hf hε
  obtain ⟨δ2, hδ2, H2⟩ := Metric.eventually_nhds_iff.1 h2
  refine ⟨min δ1 δ2, lt_min hδ1 hδ2, fun t ht htδ => ?_⟩
  have hst : |s * t| = t := by
    rcases hs with rfl | rfl
    · rw [one_mul, abs_of_pos ht]
    · rw [neg_one_mul, abs_neg, abs_of_pos ht]
  refine ⟨_, H1 t ht (lt_of_lt_of_le htδ (min_le_left _ _)), ?_⟩
  have := @H2 (s * t) (by
    rw [Real.dist_eq, sub_zero, hst]; exact lt_of_lt_of_le htδ (min_le_right _ _))
  rw [Real.norm_eq_abs, Real.norm_eq_abs, hst, smul_eq_mul, hfw] at this
  have e : f (w + s * t) - fw - d * (s * t) = f (w + s * t) - fw - s * t * d := by ring
  rw [e]
  exact this

theorem hasDerivAt_quad (fw d c w : ℝ) :
    HasDerivAt (fun v : ℝ => fw + d * (v - w) + c * (v - w) ^ 2) d w := by
  have h1 : HasDerivAt (fun v : ℝ => v - w) 1 w := (hasDerivAt_id w).sub_const w
  have h2 : HasDerivAt (fun v : ℝ => d * (v - w)) d w := by simpa using h1.const_mul d
  have h3 : HasDerivAt (fun v : ℝ => c * (v - w) ^ 2) 0 w := by
    simpa using (h1.fun_pow 2).const_mul c
  have h4 := (h2.fun_add h3).const_add fw
  simp only [add_zero] at h4
  have e : (fun v : ℝ => fw + d * (v - w) + c * (v - w) ^ 2)
      = (fun x : ℝ => fw + (d * (x - w) + c * (x - w) ^ 2)) := by funext v; ring
  rw [e]
  exact h4

theorem SideSlope.of_quad {φ : ℝ → Option ℝ} {w fw d s : ℝ} (c : ℝ) (hs : s = 1 ∨ s = -1)
    (hφ : ∃ δ > 0, ∀ t, 0 < t → t < δ →
      φ (w + s * t) = some (fw + d * (s * t) + c * t ^ 2)) :
    SideSlope φ w fw d s := by
  refine SideSlope.of_deriv (hasDerivAt_quad fw d c w) (by simp) hs ?_
  obtain ⟨δ, hδ, H⟩ := hφ
  refine ⟨δ, hδ, fun t ht htδ => ?_⟩
  rw [H t ht htδ]
  congr 1
  rcases hs with rfl | rfl <;> ring

/-- two-sided: `φ = some ∘ f` near `w` with `f` differentiable at `w` -/
theorem subgrad_iff_of_deriv {φ : ℝ → Option ℝ} {f : ℝ → ℝ} {w d : ℝ} (g : ℝ)
    (hf : HasDerivAt f d w) (hφ : ∃ δ > 0, ∀ v, |v - w| < δ → φ v = some (f v)) :
    IsRegSubgrad φ w g ↔ g = d := by
  obtain ⟨δ, hδ, H⟩ := hφ
  have h0 : φ w = some (f w) := H w (by simpa using hδ)
  refine subgrad_iff_smooth g h0 ?_ ?_
  · refine SideSlope.of_deriv hf rfl (Or.inr rfl) ⟨δ, hδ, fun t ht htδ => H _ ?_⟩
    have : w + -1 * t - w = -t := by ring
    rw [this, abs_neg, abs_of_pos ht]; exact htδ
  · refine SideSlope.of_deriv hf rfl (Or.inl rfl) ⟨δ, hδ, fun t ht htδ => H _ ?_⟩
    have : w + 1 * t - w = t := by ring
    rw [this, abs_of_pos ht]; exact htδ

/-- two-sided: `φ` is a quadratic polynomial near `w` -/
theorem subgrad_iff_of_quad {φ : ℝ → Option ℝ} {w : ℝ} (fw d c g : ℝ)
    (hφ : ∃ δ > 0, ∀ v, |v - w| < δ → φ v = some (fw + d * (v - w) + c * (v - w) ^ 2)) :
    IsRegSubgrad φ w g ↔ g = d :=
  subgrad_iff_of_deriv g (hasDerivAt_quad fw d c w) hφ

/-! ### quadratic error bounds -/

theorem SideSlope.of_quad_bound {φ : ℝ → Option ℝ} {w fw d s : ℝ} (C : ℝ)
    (hφ : ∃ δ > 0, ∀ t, 0 < t → t < δ →
      ∃ fv, φ (w + s * t) = some fv ∧ |fv - fw - d * (s * t)| ≤ C * t ^ 2) :
    SideSlope φ w fw d s := by
  intro ε hε
  obtain ⟨δ, hδ, H⟩ := hφ
  have hC : 0 < |C| + 1 := by positivity
  refine ⟨min δ (ε / (|C| + 1)), lt_min hδ (div_pos hε hC), fun t ht htδ => ?_⟩
  obtain ⟨fv, hfv, hb⟩ := H t ht (lt_of_lt_of_le htδ (min_le_left _ _))
  refine ⟨fv, hfv, hb.trans ?_⟩
  have h1 : t < ε / (|C| + 1) := lt_of_lt_of_le htδ (min_le_right _ _)
  have h2 : t * (|C| + 1) < ε := (lt_div_iff₀ hC).1 h1
  have h3 : C ≤ |C| := le_abs_self C
  nlinarith [mul_pos ht ht, mul_lt_mul_of_pos_right h2 ht,
    mul_nonneg (sub_nonneg.2 h3) (mul_pos ht ht).le]

theorem subgrad_iff_of_quad_bound {φ : ℝ → Option ℝ} {w : ℝ} (fw d C g : ℝ)
    (hφ : ∃ δ > 0, ∀ v, |v - w| < δ →
      ∃ fv, φ v = some fv ∧ |fv - fw - d * (v - w)| ≤ C * (v - w) ^ 2) :
    IsRegSubgrad φ w g ↔ g = d := by
  obtain ⟨δ, hδ, H⟩ := hφ
  have h0 : φ w = some fw := by
    obtain ⟨fv, hfv, hb⟩ := H w (by simpa using hδ)
    simp only [sub_self, mul_zero, ne_eq, OfNat.ofNat_ne_zero, not_false_eq_true, zero_pow,
      sub_zero, abs_nonpos_iff] at hb
    rw [hfv]; congr 1; linarith
  refine subgrad_iff_smooth g h0 ?_ ?_
  · refine SideSlope.of_quad_bound C ⟨δ, hδ, fun t ht htδ => ?_⟩
    have e : w + -1 * t - w = -1 * t := by ring
    obtain ⟨fv, hfv, hb⟩ := H (w + -1 * t) (by
      rw [e, neg_one_mul, abs_neg, abs_of_pos ht]; exact htδ)
    refine ⟨fv, hfv, ?_⟩
    rw [e] at hb
    have e2 : (-1 * t) ^ 2 = t ^ 2 := by ring
    rw [e2] at hb
    exact hb
  · refine SideSlope.of_quad_bound C ⟨δ, hδ, fun t ht htδ => ?_⟩
    have e : w + 1 * t - w = 1 * t := by ring
    obtain ⟨fv, hfv, hb⟩ := H (w + 1 * t) (by
      rw [e, one_mul, abs_of_pos ht]; exact htδ)
    refine ⟨fv, hfv, ?_⟩
    rw [e] at hb
    have e2 : (1 * t) ^ 2 = t ^ 2 := by ring
    rw [e2] at hb
    exact hb

/-- two-sided: near `w`, `φ` is one of two quadratic polynomials with the same value and slope
    at `w` (C¹ junction of two pieces) -/
theorem subgrad_iff_of_two_quads {φ : ℝ → Option ℝ} {w : ℝ} (fw d c₁ c₂ g : ℝ)
    (hφ : ∃ δ > 0, ∀ v, |v - w| < δ →
      φ v = some (fw + d * (v - w) + c₁ * (v - w) ^ 2) ∨
      φ v = some (fw + d * (v - w) + c₂ * (v - w) ^ 2)) :
    IsRegSubgrad φ w g ↔ g = d := by
  obtain ⟨δ, hδ, H⟩ := hφ
  refine subgrad_iff_of_quad_bound fw d (max |c₁| |c₂|) g ⟨δ, hδ, fun v hv => ?_⟩
  rcases H v hv with h | h
  · refine ⟨_, h, ?_⟩
    have e : fw + d * (v - w) + c₁ * (v - w) ^ 2 - fw - d * (v - w) = c₁ * (v - w) ^ 2 := by ring
    rw [e, abs_mul, abs_of_nonneg (sq_nonneg (v - w))]
    exact mul_le_mul_of_nonneg_right (le_max_left _ _) (sq_nonneg _)
  · refine ⟨_, h, ?_⟩
    have e : fw + d * (v - w) + c₂ * (v - w) ^ 2 - fw - d * (v - w) = c₂ * (v - w) ^ 2 := by ring
    rw [e, abs_mul, abs_of_nonneg (sq_nonneg (v - w))]
    exact mul_le_mul_of_nonneg_right (le_max_right _ _) (sq_nonneg _)

/-! ### absolute value near a non-zero point -/

theorem sgn_mul_self {w : ℝ} (hw : w ≠ 0) : sgn w * sgn w = 1 := by
  rcases lt_or_gt_of_ne hw with h | h
  · rw [sgn_neg h]; ring
  · rw [sgn_pos h]; ring

theorem sgn_mul_eq_abs (w : ℝ) : sgn w * w = |w| := by
  rcases lt_trichotomy w 0 with h | h | h
  · rw [sgn_neg h, abs_of_neg h]; ring
  · subst h; simp
  · rw [sgn_pos h, abs_of_pos h]; ring

theorem abs_near {v w : ℝ} (h : |v - w| < |w|) : |v| = sgn w * v := by
  rcases lt_trichotomy w 0 with hw | hw | hw
  · rw [sgn_neg hw]
    rw [abs_of_neg hw] at h
    have := (abs_lt.1 h).2
    rw [abs_of_neg (by linarith)]; ring
  · subst hw; simp at h; exact absurd h (not_lt.2 (abs_nonneg _))
  · rw [sgn_pos hw]
    rw [abs_of_pos hw] at h
    have := (abs_lt.1 h).1
    rw [abs_of_pos (by linarith)]; ring

theorem abs_near_le (v w : ℝ) : |v| ≤ |w| + |v - w| := by
  have := abs_add_le w (v - w)
  simpa using this

theorem abs_near_ge (v w : ℝ) : |w| - |v - w| ≤ |v| := by
  have := abs_add_le v (w - v)
  rw [abs_sub_comm w v] at this
  have e : v + (w - v) = w := by ring
  rw [e] at this
  linarith

/-! ### functions with an optional positivity constraint -/

/-- `f` with the indicator of `u ≥ 0` added when `pos` -/
noncomputable def withPos (pos : Bool) (f : ℝ → ℝ) : ℝ → Option ℝ :=
  fun u => if pos = true ∧ u < 0 then none else some (f u)

theorem withPos_some {pos : Bool} {f : ℝ → ℝ} {u : ℝ} (h : pos = false ∨ 0 ≤ u) :
    withPos pos f u = some (f u) := by
  unfold withPos
  rw [if_neg]
  rintro ⟨h1, h2⟩
  rcases h with h | h
  · rw [h] at h1; cases h1
  · linarith

theorem withPos_none {f : ℝ → ℝ} {u : ℝ} (h : u < 0) : withPos true f u = none := by
  unfold withPos
  rw [if_pos ⟨rfl, h⟩]

theorem withPos_near {pos : Bool} {f : ℝ → ℝ} {v w : ℝ} (hpw : pos = false ∨ 0 < w)
    (hv : |v - w| < |w|) : withPos pos f v = some (f v) := by
  apply withPos_some
  rcases hpw with h | h
  · exact Or.inl h
  · right
    rw [abs_of_pos h] at hv
    have := (abs_lt.1 hv).1
    linarith

theorem wp_infeasible {f : ℝ → ℝ} {w : ℝ} (hw : w < 0) (g : ℝ) :
    ¬ IsRegSubgrad (withPos true f) w g :=
  no_subgrad_of_none g (withPos_none hw)

/-- at `0` with the constraint: `(-∞, c]` -/
theorem wp_zero_pos {f : ℝ → ℝ} (fw c q g : ℝ)
    (h : ∃ δ > 0, ∀ v, 0 ≤ v → v < δ → f v = fw + c * v + q * v ^ 2) :
    IsRegSubgrad (withPos true f) 0 g ↔ g ≤ c := by
  obtain ⟨δ, hδ, H⟩ := h
  have h0 : withPos true f 0 = some fw := by
    rw [withPos_some (Or.inr (le_refl _)), H 0 (le_refl _) hδ]; simp
  refine subgrad_iff_left_none g h0 ⟨1, one_pos, fun t ht _ => ?_⟩ ?_
  · exact withPos_none (by linarith)
  · refine SideSlope.of_quad q (Or.inl rfl) ⟨δ, hδ, fun t ht htδ => ?_⟩
    have e : (0 : ℝ) + 1 * t = t := by ring
    rw [e, withPos_some (Or.inr ht.le), H t ht.le htδ]
    congr 1; ring

/-- at `0` without constraint, `f = fw + c|v| + q v²` near `0`: `[-c, c]` -/
theorem wp_zero {f : ℝ → ℝ} (fw c q g : ℝ)
    (h : ∃ δ > 0, ∀ v, |v| < δ → f v = fw + c * |v| + q * v ^ 2) :
    IsRegSubgrad (withPos false f) 0 g ↔ -c ≤ g ∧ g ≤ c := by
  obtain ⟨δ, hδ, H⟩ := h
  have h0 : withPos false f 0 = some fw := by
    rw [withPos_some (Or.inl rfl), H 0 (by simpa using hδ)]; simp
  refine subgrad_iff_kink g h0 ?_ ?_
  · refine SideSlope.of_quad q (Or.inr rfl) ⟨δ, hδ, fun t ht htδ => ?_⟩
    have e : (0 : ℝ) + -1 * t = -t := by ring
    rw [e, withPos_some (Or.inl rfl), H (-t) (by rw [abs_neg, abs_of_pos ht]; exact htδ),
      abs_neg, abs_of_pos ht]
    congr 1; ring
  · refine SideSlope.of_quad q (Or.inl rfl) ⟨δ, hδ, fun t ht htδ => ?_⟩
    have e : (0 : ℝ) + 1 * t = t := by ring
    rw [e, withPos_some (Or.inl rfl), H t (by rw [abs_of_pos ht]; exact htδ), abs_of_pos ht]
    congr 1; ring

/-- away from `0` (and feasible): one quadratic piece -/
theorem wp_away_quad {pos : Bool} {f : ℝ → ℝ} {w : ℝ} (hpw : pos = false ∨ 0 < w) (hw0 : w ≠ 0)
    (fw d c g : ℝ)
    (h : ∃ δ > 0, ∀ v, |v - w| < δ → |v - w| < |w| →
      f v = fw + d * (v - w) + c * (v - w) ^ 2) :
    IsRegSubgrad (withPos pos f) w g ↔ g = d := by
  obtain ⟨δ, hδ, H⟩ := h
  have hw : 0 < |w| := abs_pos.2 hw0
  refine subgrad_iff_of_quad fw d c g ⟨min δ |w|, lt_min hδ hw, fun v hv => ?_⟩
  have h1 := lt_of_lt_of_le hv (min_le_left _ _)
  have h2 := lt_of_lt_of_le hv (min_le_right _ _)
  rw [withPos_near hpw h2, H v h1 h2]

/-- away from `0` (and feasible): C¹ junction of two quadratic pieces -/
theorem wp_away_two_quads {pos : Bool} {f : ℝ → ℝ} {w : ℝ} (hpw : pos = false ∨ 0 < w)
    (hw0 : w ≠ 0) (fw d c₁ c₂ g : ℝ)
    (h : ∃ δ > 0, ∀ v, |v - w| < δ → |v - w| < |w| →
      f v = fw + d * (v - w) + c₁ * (v - w) ^ 2 ∨ f v = fw + d * (v - w) + c₂ * (v - w) ^ 2) :
    IsRegSubgrad (withPos pos f) w g ↔ g = d := by
  obtain ⟨δ, hδ, H⟩ := h
  have hw : 0 < |w| := abs_pos.2 hw0
  refine subgrad_iff_of_two_quads fw d c₁ c₂ g ⟨min δ |w|, lt_min hδ hw, fun v hv => ?_⟩
  have h1 := lt_of_lt_of_le hv (min_le_left _ _)
  have h2 := lt_of_lt_of_le hv (min_le_right _ _)
  rw [withPos_near hpw h2]
  rcases H v h1 h2 with e | e
  · left; rw [e]
  · right; rw [e]

/-- away from `0` (and feasible): `f` agrees near `w` with a function differentiable at `w` -/
theorem wp_away_deriv {pos : Bool} {f f₁ : ℝ → ℝ} {w d : ℝ} (hpw : pos = false ∨ 0 < w)
    (hw0 : w ≠ 0) (g : ℝ) (hd : HasDerivAt f₁ d w)
    (h : ∀ v, |v - w| < |w| → f v = f₁ v) :
    IsRegSubgrad (withPos pos f) w g ↔ g = d := by
  have hw : 0 < |w| := abs_pos.2 hw0
  refine subgrad_iff_of_deriv g hd ⟨|w|, hw, fun v hv => ?_⟩
  rw [withPos_near hpw hv, h v hv]

end Skglm.Proofs.SD
