import Skglm.Spec.Penalties
import Mathlib.Analysis.Calculus.Deriv.Add
import Mathlib.Analysis.Calculus.Deriv.Mul
import Mathlib.Analysis.Calculus.Deriv.Pow
import Mathlib.Analysis.SpecialFunctions.Pow.Deriv
import Mathlib.Analysis.SpecialFunctions.Log.Deriv
import Mathlib.Analysis.SpecialFunctions.Sqrt
/-
  General lemmas about regular (Fréchet) sub-gradients of extended-valued functions of one real
  variable, used by `Skglm.Proofs.Subdiff`.

  A direction is a sign `s = 1` (right) or `s = -1` (left); points near `w` on that side are
  `w + s * t` with `t > 0` small.
-/
namespace Skglm.Proofs
open Skglm Skglm.Spec

/-- the sub-gradient inequality on one side of `w` -/
def SideOK (φ : ℝ → Option ℝ) (w fw g s : ℝ) : Prop :=
  ∀ ε > 0, ∃ δ > 0, ∀ t, 0 < t → t < δ →
    match φ (w + s * t) with
    | some fv => fw + g * (s * t) - ε * t ≤ fv
    | none => True

/-- `φ` is finite on the side `s` of `w` with one-sided derivative `d` (value `fw` at `w`) -/
def SideSlope (φ : ℝ → Option ℝ) (w fw d s : ℝ) : Prop :=
  ∀ ε > 0, ∃ δ > 0, ∀ t, 0 < t → t < δ →
    ∃ fv, φ (w + s * t) = some fv ∧ |fv - fw - d * (s * t)| ≤ ε * t

/-- `φ = +∞` on the side `s` of `w` -/
def SideNone (φ : ℝ → Option ℝ) (w s : ℝ) : Prop :=
  ∃ δ > 0, ∀ t, 0 < t → t < δ → φ (w + s * t) = none

/-- `φ` grows faster than any linear function on the side `s` of `w` -/
def SideSteep (φ : ℝ → Option ℝ) (w fw s : ℝ) : Prop :=
  ∀ M : ℝ, ∃ δ > 0, ∀ t, 0 < t → t < δ → ∃ fv, φ (w + s * t) = some fv ∧ fw + M * t ≤ fv

theorem isRegSubgrad_iff (φ : ℝ → Option ℝ) (w g : ℝ) :
    IsRegSubgrad φ w g ↔ ∃ fw, φ w = some fw ∧ SideOK φ w fw g (-1) ∧ SideOK φ w fw g 1 := by
  constructor
  · rintro ⟨fw, hfw, H⟩
    refine ⟨fw, hfw, ?_, ?_⟩
    · intro ε hε
      obtain ⟨δ, hδ, H'⟩ := H ε hε
      refine ⟨δ, hδ, fun t ht htδ => ?_⟩
      have e1 : w + -1 * t - w = -1 * t := by ring
      have e2 : |(-1 : ℝ) * t| = t := by rw [neg_one_mul, abs_neg, abs_of_pos ht]
      have := H' (w + -1 * t) (by rw [e1, e2]; exact htδ)
      rw [e1, e2] at this
      exact this
    · intro ε hε
      obtain ⟨δ, hδ, H'⟩ := H ε hε
      refine ⟨δ, hδ, fun t ht htδ => ?_⟩
      have e1 : w + 1 * t - w = 1 * t := by ring
      have e2 : |(1 : ℝ) * t| = t := by rw [one_mul, abs_of_pos ht]
      have := H' (w + 1 * t) (by rw [e1, e2]; exact htδ)
      rw [e1, e2] at this
      exact this
  · rintro ⟨fw, hfw, HL, HR⟩
    refine ⟨fw, hfw, fun ε hε => ?_⟩
    obtain ⟨δL, hδL, HL'⟩ := HL ε hε
    obtain ⟨δR, hδR, HR'⟩ := HR ε hε
    refine ⟨min δL δR, lt_min hδL hδR, fun v hv => ?_⟩
    rcases lt_trichotomy v w with h | h | h
    · have hvw : |v - w| = w - v := by rw [abs_of_neg (by linarith)]; ring
      have := HL' (w - v) (by linarith) (by
        rw [hvw] at hv; exact lt_of_lt_of_le hv (min_le_left _ _))
      have e1 : w + -1 * (w - v) = v := by ring
      rw [e1] at this
      rw [hvw]
      have e2 : g * (-1 * (w - v)) = g * (v - w) := by ring
      rw [e2] at this
      exact this
    · subst h
      rw [hfw]
      simp
    · have hvw : |v - w| = v - w := abs_of_pos (by linarith)
      have := HR' (v - w) (by linarith) (by
        rw [hvw] at hv; exact lt_of_lt_of_le hv (min_le_right _ _))
      have e1 : w + 1 * (v - w) = v := by ring
      rw [e1] at this
      rw [hvw]
      have e2 : g * (1 * (v - w)) = g * (v - w) := by ring
      rw [e2] at this
      exact this

theorem sideOK_iff_of_slope {φ : ℝ → Option ℝ} {w fw d s : ℝ} (g : ℝ)
    (hs : SideSlope φ w fw d s) : SideOK φ w fw g s ↔ g * s ≤ d * s := by
  constructor
  · intro hok
    by_contra hlt
    push Not at hlt
    have hpos : 0 < (g * s - d * s) / 3 := by linarith
    obtain ⟨δ1, hδ1, H1⟩ := hok _ hpos
    obtain ⟨δ2, hδ2, H2⟩ := hs _ hpos
    have ht : 0 < min δ1 δ2 / 2 := by have := lt_min hδ1 hδ2; linarith
    have ht1 : min δ1 δ2 / 2 < δ1 := by have := min_le_left δ1 δ2; linarith
    have ht2 : min δ1 δ2 / 2 < δ2 := by have := min_le_right δ1 δ2; linarith
    obtain ⟨fv, hfv, hb⟩ := H2 _ ht ht2
    have h1 := H1 _ ht ht1
    rw [hfv] at h1
    simp only at h1
    have hb' := (abs_le.1 hb).2
    nlinarith
  · intro hle ε hε
    obtain ⟨δ, hδ, H⟩ := hs ε hε
    refine ⟨δ, hδ, fun t ht htδ => ?_⟩
    obtain ⟨fv, hfv, hb⟩ := H t ht htδ
    rw [hfv]
    simp only
    have hb' := (abs_le.1 hb).1
    nlinarith

theorem sideOK_of_none {φ : ℝ → Option ℝ} {w s : ℝ} (fw g : ℝ)
    (hs : SideNone φ w s) : SideOK φ w fw g s := by
  intro ε _
  obtain ⟨δ, hδ, H⟩ := hs
  refine ⟨δ, hδ, fun t ht htδ => ?_⟩
  rw [H t ht htδ]
  trivial

theorem sideOK_of_steep {φ : ℝ → Option ℝ} {w fw s : ℝ} (g : ℝ)
    (hs : SideSteep φ w fw s) : SideOK φ w fw g s := by
  intro ε hε
  obtain ⟨δ, hδ, H⟩ := hs (g * s)
  refine ⟨δ, hδ, fun t ht htδ => ?_⟩
  obtain ⟨fv, hfv, hb⟩ := H t ht htδ
  rw [hfv]
  simp only
  nlinarith

/-! ### the shapes of sub-differential that occur -/

theorem subgrad_iff_kink {φ : ℝ → Option ℝ} {w fw l r : ℝ} (g : ℝ) (h0 : φ w = some fw)
    (hL : SideSlope φ w fw l (-1)) (hR : SideSlope φ w fw r 1) :
    IsRegSubgrad φ w g ↔ l ≤ g ∧ g ≤ r := by
  rw [isRegSubgrad_iff]
  constructor
  · rintro ⟨fw', h0', h1, h2⟩
    rw [h0] at h0'
    cases h0'
    rw [sideOK_iff_of_slope g hL] at h1
    rw [sideOK_iff_of_slope g hR] at h2
    constructor <;> linarith
  · rintro ⟨h1, h2⟩
    refine ⟨fw, h0, (sideOK_iff_of_slope g hL).2 (by linarith), (sideOK_iff_of_slope g hR).2 (by linarith)⟩

theorem subgrad_iff_smooth {φ : ℝ → Option ℝ} {w fw d : ℝ} (g : ℝ) (h0 : φ w = some fw)
    (hL : SideSlope φ w fw d (-1)) (hR : SideSlope φ w fw d 1) :
    IsRegSubgrad φ w g ↔ g = d := by
  rw [subgrad_iff_kink g h0 hL hR]
  constructor
  · rintro ⟨h1, h2⟩; exact le_antisymm h2 h1
  · rintro rfl; exact ⟨le_refl _, le_refl _⟩

theorem subgrad_iff_left_none {φ : ℝ → Option ℝ} {w fw r : ℝ} (g : ℝ) (h0 : φ w = some fw)
    (hL : SideNone φ w (-1)) (hR : SideSlope φ w fw r 1) :
    IsRegSubgrad φ w g ↔ g ≤ r := by
  rw [isRegSubgrad_iff]
  constructor
  · rintro ⟨fw', h0', _, h2⟩
    rw [h0] at h0'
    cases h0'
    rw [sideOK_iff_of_slope g hR] at h2
    linarith
  · intro h
    exact ⟨fw, h0, sideOK_of_none fw g hL, (sideOK_iff_of_slope g hR).2 (by linarith)⟩

theorem subgrad_iff_right_none {φ : ℝ → Option ℝ} {w fw l : ℝ} (g : ℝ) (h0 : φ w = some fw)
    (hL : SideSlope φ w fw l (-1)) (hR : SideNone φ w 1) :
    IsRegSubgrad φ w g ↔ l ≤ g := by
  rw [isRegSubgrad_iff]
  constructor
  · rintro ⟨fw', h0', h1, _⟩
    rw [h0] at h0'
    cases h0'
    rw [sideOK_iff_of_slope g hL] at h1
    linarith
  · intro h
    exact ⟨fw, h0, (sideOK_iff_of_slope g hL).2 (by linarith), sideOK_of_none fw g hR⟩

theorem subgrad_of_steep {φ : ℝ → Option ℝ} {w fw : ℝ} (g : ℝ) (h0 : φ w = some fw)
    (hL : SideSteep φ w fw (-1)) (hR : SideSteep φ w fw 1) :
    IsRegSubgrad φ w g := by
  rw [isRegSubgrad_iff]
  exact ⟨fw, h0, sideOK_of_steep g hL, sideOK_of_steep g hR⟩

theorem no_subgrad_of_none {φ : ℝ → Option ℝ} {w : ℝ} (g : ℝ) (h0 : φ w = none) :
    ¬ IsRegSubgrad φ w g := by
  rintro ⟨fw, hfw, _⟩
  rw [h0] at hfw
  cases hfw

/-! ### producing one-sided slopes -/

theorem SideSlope.of_deriv {φ : ℝ → Option ℝ} {f : ℝ → ℝ} {w fw d s : ℝ}
    (hf : HasDerivAt f d w) (hfw : f w = fw) (hs : s = 1 ∨ s = -1)
    (hφ : ∃ δ > 0, ∀ t, 0 < t → t < δ → φ (w + s * t) = some (f (w + s * t))) :
    SideSlope φ w fw d s := by
  intro ε hε
  obtain ⟨δ1, hδ1, H1⟩ := hφ
  rw [hasDerivAt_iff_isLittleO_nhds_zero] at hf
  have h2 := Asymptotics.isLittleO_iff.1 hf hε
  obtain ⟨δ2, hδ2, H2⟩ := Metric.eventually_nhds_iff.1 h2
  refine ⟨min δ1 δ2, lt_min hδ1 hδ2, fun t ht htδ => ?_⟩
  have hst : |s * t| = t := by
    rcases hs with rfl | rfl
    · rw [one_mul, abs_of_pos ht]
    · rw [neg_one_mul, abs_neg, abs_of_pos ht]
  refine ⟨_, H1 t ht (lt_of_lt_of_le htδ (min_le_left _ _)), ?_⟩
  have := @H2 (s * t) (by
    rw [Real.dist_eq, sub_zero, hst]; exact lt_of_lt_of_le htδ (min_le_right _ _))
  rw [Real.norm_eq_abs, Real.norm_eq_abs, hst, smul_eq_mul, hfw] at this
  have e : f (w + s * t) - fw - d * (s * t) = f (w + s * t) - fw - s * t * d := by ring
  rw [e]
  exact this

theorem hasDerivAt_quad (fw d c w : ℝ) :
    HasDerivAt (fun v : ℝ => fw + d * (v - w) + c * (v - w) ^ 2) d w := by
  have h1 : HasDerivAt (fun v : ℝ => v - w) 1 w := (hasDerivAt_id w).sub_const w
  have h2 : HasDerivAt (fun v : ℝ => d * (v - w)) d w := by simpa using h1.const_mul d
  have h3 : HasDerivAt (fun v : ℝ => c * (v - w) ^ 2) 0 w := by
    simpa using (h1.fun_pow 2).const_mul c
  have h4 := (h2.fun_add h3).const_add fw
  simp only [add_zero] at h4
  have e : (fun v : ℝ => fw + d * (v - w) + c * (v - w) ^ 2)
      = (fun x : ℝ => fw + (d * (x - w) + c * (x - w) ^ 2)) := by funext v; ring
  rw [e]
  exact h4

theorem SideSlope.of_quad {φ : ℝ → Option ℝ} {w fw d s : ℝ} (c : ℝ) (hs : s = 1 ∨ s = -1)
    (hφ : ∃ δ > 0, ∀ t, 0 < t → t < δ →
      φ (w + s * t) = some (fw + d * (s * t) + c * t ^ 2)) :
    SideSlope φ w fw d s := by
  refine SideSlope.of_deriv (hasDerivAt_quad fw d c w) (by simp) hs ?_
  obtain ⟨δ, hδ, H⟩ := hφ
  refine ⟨δ, hδ, fun t ht htδ => ?_⟩
  rw [H t ht htδ]
  congr 1
  rcases hs with rfl | rfl <;> ring

/-- two-sided: `φ = some ∘ f` near `w` with `f` differentiable at `w` -/
theorem subgrad_iff_of_deriv {φ : ℝ → Option ℝ} {f : ℝ → ℝ} {w d : ℝ} (g : ℝ)
    (hf : HasDerivAt f d w) (hφ : ∃ δ > 0, ∀ v, |v - w| < δ → φ v = some (f v)) :
    IsRegSubgrad φ w g ↔ g = d := by
  obtain ⟨δ, hδ, H⟩ := hφ
  have h0 : φ w = some (f w) := H w (by simpa using hδ)
  refine subgrad_iff_smooth g h0 ?_ ?_
  · refine SideSlope.of_deriv hf rfl (Or.inr rfl) ⟨δ, hδ, fun t ht htδ => H _ ?_⟩
    have : w + -1 * t - w = -t := by ring
    rw [this, abs_neg, abs_of_pos ht]; exact htδ
  · refine SideSlope.of_deriv hf rfl (Or.inl rfl) ⟨δ, hδ, fun t ht htδ => H _ ?_⟩
    have : w + 1 * t - w = t := by ring
    rw [this, abs_of_pos ht]; exact htδ

/-- two-sided: `φ` is a quadratic polynomial near `w` -/
theorem subgrad_iff_of_quad {φ : ℝ → Option ℝ} {w : ℝ} (fw d c g : ℝ)
    (hφ : ∃ δ > 0, ∀ v, |v - w| < δ → φ v = some (fw + d * (v - w) + c * (v - w) ^ 2)) :
    IsRegSubgrad φ w g ↔ g = d :=
  subgrad_iff_of_deriv g (hasDerivAt_quad fw d c w) hφ

end Skglm.Proofs
