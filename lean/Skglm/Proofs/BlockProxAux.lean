import Skglm.Spec.Penalties
import Skglm.Model.BlockPenalties
/-
  Vector lemmas behind `Skglm/Proofs/BlockProx.lean`: the Euclidean norm of the model on
  `Fin k → ℝ`, Cauchy–Schwarz, the variational inequalities of block / entrywise
  soft-thresholding.
-/
namespace Skglm.Proofs
open Skglm
variable {k : Nat}

theorem norm2_nonneg (v : Fin k → ℝ) : 0 ≤ norm2 v := by
  rw [norm2_eq]; exact Real.sqrt_nonneg _

theorem sumsq_nonneg (v : Fin k → ℝ) : 0 ≤ ∑ i, v i * v i :=
  Finset.sum_nonneg (fun _ _ => mul_self_nonneg _)

theorem norm2_sq (v : Fin k → ℝ) : norm2 v * norm2 v = ∑ i, v i * v i := by
  rw [norm2_eq]; exact Real.mul_self_sqrt (sumsq_nonneg v)

theorem norm2_eq_of_sq (v : Fin k → ℝ) (c : ℝ) (hc : 0 ≤ c) (h : ∑ i, v i * v i = c * c) :
    norm2 v = c := by
  rw [norm2_eq, h, Real.sqrt_mul_self hc]

theorem norm2_zero : norm2 (fun _ : Fin k => (0 : ℝ)) = 0 :=
  norm2_eq_of_sq _ 0 (le_refl _) (by simp)

theorem norm2_smul (c : ℝ) (hc : 0 ≤ c) (z : Fin k → ℝ) :
    norm2 (fun i => c * z i) = c * norm2 z := by
  apply norm2_eq_of_sq _ _ (mul_nonneg hc (norm2_nonneg z))
  have : ∀ i, c * z i * (c * z i) = c * c * (z i * z i) := fun i => by ring
  simp only [this, ← Finset.mul_sum, ← norm2_sq]
  ring

/-- Cauchy–Schwarz -/
theorem inner_le (x v : Fin k → ℝ) : ∑ i, x i * v i ≤ norm2 x * norm2 v := by
  have := Real.sum_mul_le_sqrt_mul_sqrt Finset.univ x v
  simpa only [norm2_eq, sq] using this

/-! ### block soft-thresholding -/

theorem BST0_of_le {z : Fin k → ℝ} {τ : ℝ} (h : norm2 z ≤ τ) : BST0 z τ = fun _ => (0 : ℝ) := by
  simp only [BST0, if_pos h]

theorem BST0_of_gt {z : Fin k → ℝ} {τ : ℝ} (h : τ < norm2 z) :
    BST0 z τ = fun i => (1 - τ / norm2 z) * z i := by
  simp only [BST0, if_neg (not_le.mpr h)]

/-- `BST0 z τ` is a non-negative multiple of `z` -/
theorem BST0_eq_smul (z : Fin k → ℝ) (τ : ℝ) (hτ : 0 ≤ τ) :
    ∃ κ : ℝ, 0 ≤ κ ∧ ∀ i, BST0 z τ i = κ * z i := by
  rcases le_or_gt (norm2 z) τ with h | h
  · exact ⟨0, le_refl _, fun i => by rw [BST0_of_le h]; ring⟩
  · refine ⟨1 - τ / norm2 z, ?_, fun i => by rw [BST0_of_gt h]⟩
    have hn : 0 < norm2 z := lt_of_le_of_lt hτ h
    rw [sub_nonneg, div_le_one hn]; exact h.le

/-- variational inequality characterising `BST0 z τ` as the prox of `τ‖·‖` at `z` -/
theorem BST0_vi (z v : Fin k → ℝ) (τ : ℝ) (hτ : 0 ≤ τ) :
    ∑ i, (z i - BST0 z τ i) * (v i - BST0 z τ i) ≤ τ * norm2 v - τ * norm2 (BST0 z τ) := by
  rcases le_or_gt (norm2 z) τ with h | h
  · rw [BST0_of_le h]
    simp only [sub_zero]
    rw [norm2_zero]
    have h1 := inner_le z v
    nlinarith [mul_nonneg (sub_nonneg.2 h) (norm2_nonneg v)]
  · rw [BST0_of_gt h]
    have hn : 0 < norm2 z := lt_of_le_of_lt hτ h
    obtain ⟨κ, hκ⟩ : ∃ κ, κ = τ / norm2 z := ⟨_, rfl⟩
    rw [← hκ]
    have hκn : κ * norm2 z = τ := by rw [hκ]; field_simp
    have hκ0 : 0 ≤ κ := by rw [hκ]; exact div_nonneg hτ hn.le
    have hκ1 : 0 ≤ 1 - κ := by rw [hκ, sub_nonneg, div_le_one hn]; exact h.le
    rw [norm2_smul _ hκ1]
    have e : ∀ i, (z i - (1 - κ) * z i) * (v i - (1 - κ) * z i)
        = κ * (z i * v i) - κ * (1 - κ) * (z i * z i) := fun i => by ring
    simp only [e, Finset.sum_sub_distrib, ← Finset.mul_sum, ← norm2_sq]
    have h1 := mul_le_mul_of_nonneg_left (inner_le z v) hκ0
    have e1 : κ * (1 - κ) * (norm2 z * norm2 z) = τ * ((1 - κ) * norm2 z) := by
      rw [← hκn]; ring
    have e2 : κ * (norm2 z * norm2 v) = τ * norm2 v := by rw [← hκn]; ring
    linarith

theorem BST0_nonneg (z : Fin k → ℝ) (τ : ℝ) (hτ : 0 ≤ τ) (hz : ∀ i, 0 ≤ z i) (i : Fin k) :
    0 ≤ BST0 z τ i := by
  obtain ⟨κ, hκ, hr⟩ := BST0_eq_smul z τ hτ
  rw [hr]; exact mul_nonneg hκ (hz i)

theorem BST_pos_eq (x : Fin k → ℝ) (u : ℝ) :
    BST x u true = BST0 (fun i => if 0 < x i then x i else 0) u := by
  funext i
  simp only [BST, if_true]
  by_cases h : 0 < x i
  · rw [if_pos h]
  · rw [if_neg h]
    rcases le_or_gt (norm2 (fun i => if 0 < x i then x i else 0)) u with h' | h'
    · rw [BST0_of_le h']
    · rw [BST0_of_gt h']; simp only [if_neg h, mul_zero]

/-! ### entrywise soft-thresholding `STv1` -/

theorem STv1_cases (x l : ℝ) (hl : 0 ≤ l) :
    (l < x ∧ STv1 x l = x - l) ∨ (x < -l ∧ STv1 x l = x + l) ∨
      (-l ≤ x ∧ x ≤ l ∧ STv1 x l = 0) := by
  unfold STv1
  rw [sabs_eq, smax_eq]
  rcases lt_trichotomy x 0 with hx | hx | hx
  · rw [sgn_neg hx, abs_of_neg hx]
    by_cases h : x < -l
    · right; left
      refine ⟨h, ?_⟩
      rw [max_eq_right (by linarith)]; ring
    · right; right
      refine ⟨not_lt.mp h, by linarith, ?_⟩
      rw [max_eq_left (by linarith)]; ring
  · subst hx
    right; right
    refine ⟨by linarith, hl, ?_⟩
    rw [sgn_zero]; ring
  · rw [sgn_pos hx, abs_of_pos hx]
    by_cases h : l < x
    · left
      refine ⟨h, ?_⟩
      rw [max_eq_right (by linarith)]; ring
    · right; right
      refine ⟨by linarith, not_lt.mp h, ?_⟩
      rw [max_eq_left (by linarith)]; ring

/-- variational inequality of `STv1`, along any non-negative multiple of the thresholded value -/
theorem STv1_vi (x l κ w : ℝ) (hl : 0 ≤ l) (hκ : 0 ≤ κ) :
    (x - STv1 x l) * (w - κ * STv1 x l) ≤ l * |w| - l * |κ * STv1 x l| := by
  rcases STv1_cases x l hl with ⟨h, e⟩ | ⟨h, e⟩ | ⟨h1, h2, e⟩ <;> rw [e]
  · have hz : 0 ≤ κ * (x - l) := mul_nonneg hκ (by linarith)
    rw [abs_of_nonneg hz]
    nlinarith [mul_le_mul_of_nonneg_left (le_abs_self w) hl]
  · have hz : κ * (x + l) ≤ 0 := mul_nonpos_of_nonneg_of_nonpos hκ (by linarith)
    rw [abs_of_nonpos hz]
    nlinarith [mul_le_mul_of_nonneg_left (neg_abs_le w) hl]
  · rw [mul_zero, abs_zero, sub_zero, sub_zero, mul_zero, sub_zero]
    rcases abs_cases w with ⟨hw, hw0⟩ | ⟨hw, hw0⟩ <;> rw [hw] <;> nlinarith

end Skglm.Proofs
