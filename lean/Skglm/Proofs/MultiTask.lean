import Skglm.Model.MultiTask
import Skglm.Proofs.BlockProx
import Skglm.Proofs.BCD
import Skglm.Proofs.CDAuxA
/-
  Lemmas about the multitask block coordinate-descent moves of `Skglm/Model/MultiTask.lean`
  (MultiTaskBCD on QuadraticMultiTask): buffer consistency, locality, the zero-column skip, block
  descent, and their lift to every reachable state.
-/
namespace Skglm.Proofs.MT
open Skglm Skglm.Spec Skglm.Proofs
variable {n p T : Nat}

/-- `mat` is the identity, at every element type (rows of a matrix included) -/
@[simp] theorem matG_eq {β : Type} {m : Nat} (f : Fin m → β) : mat f = f := by
  funext i; simp [mat]

/-- the model-fit buffer equals `X W + 1 bᵀ` -/
def MTConsistent (P : MTProb ℝ n p T) (s : MTState ℝ n p T) : Prop :=
  ∀ i k, s.XW i k = (∑ j, P.X i j * s.W j k) + s.b k

/-! ### the primitives over the reals -/

theorem foldl_and_eq_true : ∀ (m : Nat) (f : Fin m → Bool) (b : Bool),
    Fin.foldl m (fun acc k => acc && f k) b = true ↔ b = true ∧ ∀ k, f k = true := by
  intro m
  induction m with
  | zero => intro f b; simp [Fin.foldl_zero]
  | succ m ih =>
    intro f b
    rw [Fin.foldl_succ_last, Bool.and_eq_true, ih]
    constructor
    · rintro ⟨⟨hb, h⟩, hl⟩
      exact ⟨hb, fun k => Fin.lastCases hl h k⟩
    · rintro ⟨hb, h⟩
      exact ⟨⟨hb, fun k => h _⟩, h _⟩

theorem allEq_iff (x y : Fin T → ℝ) : MTProb.allEq x y = true ↔ ∀ k, x k = y k := by
  unfold MTProb.allEq
  rw [foldl_and_eq_true]
  simp only [eqb_iff, true_and]

theorem lipschitz_eq (X : Fin n → Fin p → ℝ) (j : Fin p) :
    mtLipschitz X j = (∑ i, X i j ^ 2) / (n : ℝ) := by
  unfold mtLipschitz
  simp only [nat_eq]
  rw [norm2_sq]
  congr 1
  exact Finset.sum_congr rfl (fun i _ => by ring)

theorem gradientJ_eq (P : MTProb ℝ n p T) (XW : Fin n → Fin T → ℝ) (j : Fin p) (k : Fin T) :
    P.gradientJ XW j k = (∑ i, P.X i j * (XW i k - P.Y i k)) / (n : ℝ) := by
  unfold MTProb.gradientJ
  simp only [dot_eq, nat_eq]
  rw [← Finset.sum_sub_distrib]
  congr 1
  exact Finset.sum_congr rfl (fun i _ => by ring)

theorem datafitValue_eq (P : MTProb ℝ n p T) (XW : Fin n → Fin T → ℝ) :
    P.datafitValue XW = (∑ i, ∑ k, (P.Y i k - XW i k) ^ 2) / (2 * (n : ℝ)) := by
  unfold MTProb.datafitValue
  simp only [vsum_eq, nat_eq, Nat.cast_ofNat]
  congr 1
  exact Finset.sum_congr rfl (fun i _ => Finset.sum_congr rfl (fun k _ => by ring))

/-! ### closed form of a step -/

/-- the new row computed by a step on feature `j` -/
noncomputable def rowNew (P : MTProb ℝ n p T) (s : MTState ℝ n p T) (j : Fin p) : Fin T → ℝ :=
  P.rowProx (fun k => s.W j k - P.gradientJ s.XW j k / P.lips j) (1 / P.lips j)

theorem mtStep_eq (P : MTProb ℝ n p T) (s : MTState ℝ n p T) (j : Fin p) (hL : P.lips j ≠ 0) :
    P.mtStep s j =
      { W := fun j' => if j' = j then rowNew P s j else s.W j', b := s.b,
        XW := fun i k => s.XW i k + (rowNew P s j k - s.W j k) * P.X i j } := by
  unfold MTProb.mtStep
  simp only
  rw [if_neg (by rw [eqb_iff]; exact hL)]
  simp only [matG_eq]
  split_ifs with h
  · rw [allEq_iff] at h
    simp only [MTState.mk.injEq, true_and]
    refine ⟨rfl, ?_⟩
    funext i k
    have := h k
    unfold rowNew
    rw [this]; ring
  · simp only [MTState.mk.injEq, true_and]
    refine ⟨rfl, ?_⟩
    funext i k
    unfold rowNew
    split_ifs with h2
    · rfl
    · have h3 : P.rowProx (fun k => s.W j k - P.gradientJ s.XW j k / P.lips j) (1 / P.lips j) k
          - s.W j k = 0 := by
        by_contra hne
        exact h2 ((nz_iff _).2 hne)
      rw [h3]; ring

theorem mtStep_eq_self (P : MTProb ℝ n p T) (s : MTState ℝ n p T) (j : Fin p) (hL : P.lips j = 0) :
    P.mtStep s j = s := by
  unfold MTProb.mtStep
  simp only
  rw [if_pos (by rw [eqb_iff]; exact hL)]

/-! ### a. buffer consistency -/

theorem mtStep_consistent (P : MTProb ℝ n p T) (s : MTState ℝ n p T) (j : Fin p)
    (h : MTConsistent P s) : MTConsistent P (P.mtStep s j) := by
  by_cases hL : P.lips j = 0
  · rw [mtStep_eq_self P s j hL]; exact h
  rw [mtStep_eq P s j hL]
  intro i k
  simp only
  have e : ∀ j', P.X i j' * (if j' = j then rowNew P s j else s.W j') k
      = P.X i j' * (if j' = j then rowNew P s j k else s.W j' k) := by
    intro j'; split_ifs <;> rfl
  simp only [e]
  rw [CDA.sum_update_one (fun j' => P.X i j') (fun j' => s.W j' k) j (rowNew P s j k), h i k]
  ring

theorem mtEpoch_consistent (P : MTProb ℝ n p T) (s : MTState ℝ n p T) (ws : List (Fin p))
    (h : MTConsistent P s) : MTConsistent P (P.mtEpoch s ws) := by
  unfold MTProb.mtEpoch
  induction ws generalizing s with
  | nil => exact h
  | cons j ws ih => exact ih _ (mtStep_consistent P s j h)

theorem interceptMove_consistent (P : MTProb ℝ n p T) (s : MTState ℝ n p T)
    (h : MTConsistent P s) : MTConsistent P (P.interceptMove s) := by
  intro i k
  simp only [MTProb.interceptMove, matG_eq]
  rw [h i k]; ring

theorem foldl_add_eq {β : Type} (f : β → ℝ) : ∀ (l : List β) (a : ℝ),
    l.foldl (fun acc j => acc + f j) a = a + (l.map f).sum := by
  intro l
  induction l with
  | nil => intro a; simp
  | cons x l ih => intro a; rw [List.foldl_cons, ih, List.map_cons, List.sum_cons]; ring

/-- `X[:, ws] @ V[ws]` for distinct indices is the full product when `V` vanishes outside `ws` -/
theorem foldl_ws_eq (ws : List (Fin p)) (hnd : ws.Nodup) (f : Fin p → ℝ)
    (hf : ∀ j, j ∉ ws → f j = 0) :
    ws.foldl (fun acc j => acc + f j) 0 = ∑ j, f j := by
  rw [foldl_add_eq, zero_add, ← List.sum_toFinset f hnd]
  apply Finset.sum_subset (Finset.subset_univ _)
  intro j _ hj
  exact hf j (by simpa using hj)

/-- the extrapolated point is consistent *by construction* (its model fit is recomputed from the
    working-set columns and rows outside the working set are zero): no condition on the
    coefficients or on the buffered iterates, only distinct working-set indices -/
theorem extrapPoint_consistent {K : Nat} (P : MTProb ℝ n p T) (ws : List (Fin p))
    (buf : Fin K → MTState ℝ n p T) (c : Fin K → ℝ) (hnd : ws.Nodup) :
    MTConsistent P (P.extrapPoint ws buf c) := by
  intro i k
  simp only [MTProb.extrapPoint, matG_eq]
  rw [foldl_ws_eq ws hnd]
  · congr 1
    split_ifs <;> rfl
  · intro j hj
    rw [if_neg hj, mul_zero]

/-- rows outside the working set of the extrapolated point are zero -/
theorem extrapPoint_outside {K : Nat} (P : MTProb ℝ n p T) (ws : List (Fin p))
    (buf : Fin K → MTState ℝ n p T) (c : Fin K → ℝ) (j : Fin p) (hj : j ∉ ws) (k : Fin T) :
    (P.extrapPoint ws buf c).W j k = 0 := by
  simp only [MTProb.extrapPoint, matG_eq, if_neg hj]

/-- for consistent iterates supported on the working set, the recomputed model fit of the
    extrapolated point is the combination of the buffered model fits -/
theorem extrapPoint_XW_eq {K : Nat} (P : MTProb ℝ n p T) (ws : List (Fin p))
    (buf : Fin K → MTState ℝ n p T) (c : Fin K → ℝ) (hnd : ws.Nodup)
    (hbuf : ∀ t, MTConsistent P (buf t)) (hsupp : ∀ t j, j ∉ ws → ∀ k, (buf t).W j k = 0)
    (hb : P.fitInt = false → ∀ t k, (buf t).b k = 0) (i : Fin n) (k : Fin T) :
    (P.extrapPoint ws buf c).XW i k = ∑ t, c t * (buf t).XW i k := by
  rw [extrapPoint_consistent P ws buf c hnd i k]
  have hW : ∀ j, (P.extrapPoint ws buf c).W j k = ∑ t, c t * (buf t).W j k := by
    intro j
    simp only [MTProb.extrapPoint, matG_eq, vsum_eq]
    split_ifs with hj
    · rfl
    · symm
      exact Finset.sum_eq_zero (fun t _ => by rw [hsupp t j hj k, mul_zero])
  have hbk : (P.extrapPoint ws buf c).b k = ∑ t, c t * (buf t).b k := by
    simp only [MTProb.extrapPoint, matG_eq, vsum_eq]
    split_ifs with hf
    · rfl
    · symm
      exact Finset.sum_eq_zero (fun t _ => by rw [hb (by simpa using hf) t k, mul_zero])
  simp only [hW, hbk, fun t => hbuf t i k, mul_add, Finset.sum_add_distrib, Finset.mul_sum]
  rw [Finset.sum_comm]
  congr 1
  refine Finset.sum_congr rfl (fun t _ => Finset.sum_congr rfl (fun j _ => ?_))
  ring

theorem acceptMove_consistent (P : MTProb ℝ n p T) (s acc : MTState ℝ n p T)
    (hs : MTConsistent P s) (ha : MTConsistent P acc) : MTConsistent P (P.acceptMove s acc) := by
  unfold MTProb.acceptMove
  split_ifs
  · exact ha
  · exact hs

/-! ### locality and the zero-column skip -/

theorem mtStep_outside (P : MTProb ℝ n p T) (s : MTState ℝ n p T) (j j' : Fin p) (hj : j' ≠ j) :
    (P.mtStep s j).W j' = s.W j' ∧ (P.mtStep s j).b = s.b := by
  by_cases hL : P.lips j = 0
  · rw [mtStep_eq_self P s j hL]; exact ⟨rfl, rfl⟩
  rw [mtStep_eq P s j hL]
  simp only [if_neg hj, and_self]

theorem mtStep_outside' (P : MTProb ℝ n p T) (s : MTState ℝ n p T) (j : Fin p) :
    (P.mtStep s j).b = s.b := by
  by_cases hL : P.lips j = 0
  · rw [mtStep_eq_self P s j hL]
  · rw [mtStep_eq P s j hL]

theorem mtEpoch_outside (P : MTProb ℝ n p T) (s : MTState ℝ n p T) (ws : List (Fin p)) (j' : Fin p)
    (hj : j' ∉ ws) : (P.mtEpoch s ws).W j' = s.W j' ∧ (P.mtEpoch s ws).b = s.b := by
  unfold MTProb.mtEpoch
  induction ws generalizing s with
  | nil => exact ⟨rfl, rfl⟩
  | cons j ws ih =>
    rw [List.foldl_cons]
    have h1 := ih (P.mtStep s j) (fun h => hj (List.mem_cons_of_mem _ h))
    have h2 := mtStep_outside P s j j' (fun e => hj (e ▸ List.mem_cons_self))
    exact ⟨h1.1.trans h2.1, h1.2.trans h2.2⟩

theorem lipschitz_zero_col (X : Fin n → Fin p → ℝ) (j : Fin p) (h : ∀ i, X i j = 0) :
    mtLipschitz X j = 0 := by
  rw [lipschitz_eq]
  simp [h]

theorem gradientJ_zero_col (P : MTProb ℝ n p T) (XW : Fin n → Fin T → ℝ) (j : Fin p)
    (h : ∀ i, P.X i j = 0) (k : Fin T) : P.gradientJ XW j k = 0 := by
  rw [gradientJ_eq]
  simp [h]

/-! ### b. descent -/

/-- the (finite) value of the row penalty on one row -/
noncomputable def rowVal (pen : BlkPen ℝ) (w : Fin T → ℝ) : ℝ :=
  CDB.val (pen.penBlk 1 (fun _ => 1) w)

/-- the row penalties whose prox is proved to be a global minimiser, with their hyper-parameter
    range at step size `st`: `L2_1` (`alpha ≥ 0`) and `BlockMCPenalty` (`alpha ≥ 0`, `gamma > st`) -/
def RowPenOK (pen : BlkPen ℝ) (st : ℝ) : Prop :=
  (∃ a, pen = .l21 a ∧ 0 ≤ a) ∨ (∃ a g, pen = .bmcp a g ∧ 0 ≤ a ∧ 0 < g ∧ st < g)

theorem pen_MCP_eq_spec (w a g : ℝ) (hg0 : 0 < g) : pen_MCP w a g = mcp a g w := by
  simp only [pen_MCP, mcp, sabs_eq, nat_eq, Nat.cast_ofNat]
  by_cases h1 : |w| < g * a
  · rw [if_pos h1, if_pos (by rw [mul_comm]; exact h1.le)]
    ring
  · rw [if_neg h1]
    by_cases h2 : |w| ≤ a * g
    · rw [if_pos h2]
      have h3 : |w| = a * g := le_antisymm h2 (by rw [mul_comm]; exact not_lt.1 h1)
      have h4 : w ^ 2 = (a * g) ^ 2 := by rw [← h3, sq_abs]
      rw [h3, h4]
      field_simp
      ring
    · rw [if_neg h2]
      ring

theorem rowPen_fin (pen : BlkPen ℝ) (st : ℝ) (h : RowPenOK pen st) (w : Fin T → ℝ) :
    pen.penBlk 1 (fun _ => 1) w = .fin (rowVal pen w) := by
  rcases h with ⟨a, rfl, _⟩ | ⟨a, g, rfl, _⟩ <;> rfl

/-- prox optimality of the row kernel, at value level -/
theorem rowPen_prox (pen : BlkPen ℝ) (st : ℝ) (x v : Fin T → ℝ) (hst : 0 < st)
    (h : RowPenOK pen st) :
    halfSq x (pen.proxBlk 1 (fun _ => 1) x st) + st * rowVal pen (pen.proxBlk 1 (fun _ => 1) x st)
      ≤ halfSq x v + st * rowVal pen v := by
  rcases h with ⟨a, rfl, ha⟩ | ⟨a, g, rfl, ha, hg, hsg⟩
  · exact prox_l21 a st (fun _ => 1) x v ha hst
  · have e : ∀ w : Fin T → ℝ, rowVal (BlkPen.bmcp a g) w = mcp a g (norm2 w) :=
      fun w => pen_MCP_eq_spec (norm2 w) a g hg
    rw [e, e]
    exact prox_bmcp a g st (fun _ => 1) x v ha hg hst hsg

/-- QuadraticMultiTask is exactly quadratic along a row of `W`, with curvature `‖X_j‖² / n` -/
theorem datafit_expand (P : MTProb ℝ n p T) (XW : Fin n → Fin T → ℝ) (j : Fin p) (d : Fin T → ℝ)
    (hn : (n : ℝ) ≠ 0) :
    P.datafitValue (fun i k => XW i k + d k * P.X i j)
      = P.datafitValue XW + ∑ k, P.gradientJ XW j k * d k
        + ((∑ i, P.X i j ^ 2) / (n : ℝ)) / 2 * ∑ k, d k ^ 2 := by
  rw [datafitValue_eq, datafitValue_eq]
  simp only [gradientJ_eq]
  have e1 : ∑ i, ∑ k, (P.Y i k - (XW i k + d k * P.X i j)) ^ 2
      = (∑ i, ∑ k, (P.Y i k - XW i k) ^ 2) + 2 * (∑ i, ∑ k, P.X i j * (XW i k - P.Y i k) * d k)
        + ∑ i, ∑ k, P.X i j ^ 2 * d k ^ 2 := by
    simp only [Finset.mul_sum, ← Finset.sum_add_distrib]
    exact Finset.sum_congr rfl (fun i _ => Finset.sum_congr rfl (fun k _ => by ring))
  have e2 : ∑ k, (∑ i, P.X i j * (XW i k - P.Y i k)) / (n : ℝ) * d k
      = (∑ i, ∑ k, P.X i j * (XW i k - P.Y i k) * d k) / (n : ℝ) := by
    rw [Finset.sum_comm, Finset.sum_div]
    refine Finset.sum_congr rfl (fun k _ => ?_)
    rw [Finset.sum_div, Finset.sum_mul, Finset.sum_div]
    exact Finset.sum_congr rfl (fun i _ => by ring)
  have e3 : ∑ i, ∑ k, P.X i j ^ 2 * d k ^ 2 = (∑ i, P.X i j ^ 2) * ∑ k, d k ^ 2 := by
    rw [Finset.sum_mul_sum]
  rw [e1, e2, e3]
  field_simp

theorem lips_pos_of_ne (P : MTProb ℝ n p T) (j : Fin p) (hlip : P.lips j = mtLipschitz P.X j)
    (hL0 : P.lips j ≠ 0) : 0 < P.lips j ∧ (n : ℝ) ≠ 0 := by
  rw [hlip, lipschitz_eq] at hL0 ⊢
  have hn : (n : ℝ) ≠ 0 := by
    intro e; rw [e, div_zero] at hL0; exact hL0 rfl
  have hn' : (0 : ℝ) < n := lt_of_le_of_ne (Nat.cast_nonneg n) (Ne.symm hn)
  have hs : 0 ≤ ∑ i, P.X i j ^ 2 := Finset.sum_nonneg (fun i _ => sq_nonneg _)
  exact ⟨lt_of_le_of_ne (div_nonneg hs hn'.le) (Ne.symm hL0), hn⟩

theorem objective_fin (P : MTProb ℝ n p T) (st : ℝ) (hpen : RowPenOK P.pen st)
    (s : MTState ℝ n p T) :
    P.objective s = .fin (P.datafitValue s.XW + ∑ j, rowVal P.pen (s.W j)) := by
  unfold MTProb.objective MTProb.penValue
  rw [CDB.esum_fin _ _ (fun j => rowPen_fin P.pen st hpen (s.W j))]
  rfl

/-- a block step with the constant `‖X_j‖² / n` does not increase the objective -/
theorem mtStep_descent (P : MTProb ℝ n p T) (s : MTState ℝ n p T) (j : Fin p)
    (hlip : P.lips j = mtLipschitz P.X j) (hpen : P.lips j ≠ 0 → RowPenOK P.pen (1 / P.lips j)) :
    Ext.le (P.objective (P.mtStep s j)) (P.objective s) = true := by
  by_cases hL0 : P.lips j = 0
  · rw [mtStep_eq_self P s j hL0]; exact CDB.le_refl' _
  obtain ⟨hL, hn⟩ := lips_pos_of_ne P j hlip hL0
  have hpen' := hpen hL0
  have hst : 0 < 1 / P.lips j := by positivity
  rw [mtStep_eq P s j hL0, objective_fin P _ hpen', objective_fin P _ hpen']
  apply CDB.fin_le_fin
  simp only
  set new := rowNew P s j with hnew
  have hprox := rowPen_prox P.pen (1 / P.lips j)
    (fun k => s.W j k - P.gradientJ s.XW j k / P.lips j) (s.W j) hst hpen'
  have hkey := BCD.prox_step_algebra (P.lips j) (rowVal P.pen new) (rowVal P.pen (s.W j)) (s.W j)
    (fun k => P.gradientJ s.XW j k) new hL hprox
  have hdat := datafit_expand P s.XW j (fun k => new k - s.W j k) hn
  have hLe : (∑ i, P.X i j ^ 2) / (n : ℝ) = P.lips j := by rw [hlip, lipschitz_eq]
  rw [hLe] at hdat
  rw [hdat]
  have hsum : ∑ j', rowVal P.pen (if j' = j then new else s.W j')
      = (∑ j', rowVal P.pen (s.W j')) - rowVal P.pen (s.W j) + rowVal P.pen new := by
    rw [← CDB.sum_ite_replace]
    exact Finset.sum_congr rfl (fun j' _ => by split_ifs <;> rfl)
  rw [hsum]
  linarith

/-- centring a column of residuals does not increase its sum of squares -/
theorem sum_sq_centre (r : Fin n → ℝ) :
    ∑ i, (r i - (∑ i, r i) / (n : ℝ)) ^ 2 ≤ ∑ i, r i ^ 2 := by
  by_cases hn : (n : ℝ) = 0
  · have : n = 0 := by exact_mod_cast hn
    subst this
    simp
  set S := ∑ i, r i with hS
  have e : ∑ i, (r i - S / (n : ℝ)) ^ 2 = (∑ i, r i ^ 2) - S ^ 2 / (n : ℝ) := by
    have e1 : ∀ i, (r i - S / (n : ℝ)) ^ 2 = r i ^ 2 - 2 * (S / (n : ℝ)) * r i + (S / (n : ℝ)) ^ 2 :=
      fun i => by ring
    simp only [e1, Finset.sum_add_distrib, Finset.sum_sub_distrib, ← Finset.mul_sum, ← hS,
      Finset.sum_const, Finset.card_univ, Fintype.card_fin, nsmul_eq_mul]
    field_simp
    ring
  rw [e]
  have hn' : (0 : ℝ) < n := lt_of_le_of_ne (Nat.cast_nonneg n) (Ne.symm hn)
  have : 0 ≤ S ^ 2 / (n : ℝ) := div_nonneg (sq_nonneg _) hn'.le
  linarith

theorem interceptMove_datafit (P : MTProb ℝ n p T) (s : MTState ℝ n p T) :
    P.datafitValue (P.interceptMove s).XW ≤ P.datafitValue s.XW := by
  rw [datafitValue_eq, datafitValue_eq]
  apply div_le_div_of_nonneg_right _ (by positivity)
  rw [Finset.sum_comm, Finset.sum_comm (f := fun i k => (P.Y i k - s.XW i k) ^ 2)]
  refine Finset.sum_le_sum (fun k _ => ?_)
  have := sum_sq_centre (fun i => P.Y i k - s.XW i k)
  refine le_trans (le_of_eq ?_) this
  refine Finset.sum_congr rfl (fun i _ => ?_)
  simp only [MTProb.interceptMove, MTProb.interceptStep, matG_eq, vsum_eq, nat_eq]
  have e : ∑ i, (s.XW i k - P.Y i k) = -∑ i, (P.Y i k - s.XW i k) := by
    rw [← Finset.sum_neg_distrib]
    exact Finset.sum_congr rfl (fun i _ => by ring)
  rw [e]
  ring

/-- the intercept update minimises the datafit over the intercept row exactly; the penalty does
    not see the intercept -/
theorem interceptMove_descent (P : MTProb ℝ n p T) (s : MTState ℝ n p T) :
    Ext.le (P.objective (P.interceptMove s)) (P.objective s) = true := by
  unfold MTProb.objective
  exact CDB.add_le_add_fin _ (interceptMove_datafit P s)

theorem acceptMove_descent (P : MTProb ℝ n p T) (s acc : MTState ℝ n p T) :
    Ext.le (P.objective (P.acceptMove s acc)) (P.objective s) = true := by
  unfold MTProb.acceptMove
  split_ifs with h
  · exact CDB.ext_le_of_lt h
  · exact CDB.le_refl' _

/-! ### every reachable state -/

/-- states reachable from `s₀` by the moves of `MultiTaskBCD._solve`: block steps on any feature
    (hence epochs over any working set), intercept updates (when `fit_intercept`), guarded
    acceptance of the extrapolated point built from *any* buffered iterates, any coefficients and
    any working set of distinct indices (`np.argpartition` returns distinct indices) -/
inductive MTReach (P : MTProb ℝ n p T) (s₀ : MTState ℝ n p T) : MTState ℝ n p T → Prop
  | start : MTReach P s₀ s₀
  | step {s} (j : Fin p) : MTReach P s₀ s → MTReach P s₀ (P.mtStep s j)
  | intercept {s} : MTReach P s₀ s → P.fitInt = true → MTReach P s₀ (P.interceptMove s)
  | accept {s} {K : Nat} (ws : List (Fin p)) (buf : Fin K → MTState ℝ n p T) (c : Fin K → ℝ) :
      MTReach P s₀ s → ws.Nodup → MTReach P s₀ (P.acceptMove s (P.extrapPoint ws buf c))

theorem mtreach_epoch (P : MTProb ℝ n p T) (s₀ s : MTState ℝ n p T) (ws : List (Fin p))
    (h : MTReach P s₀ s) : MTReach P s₀ (P.mtEpoch s ws) := by
  unfold MTProb.mtEpoch
  induction ws generalizing s with
  | nil => exact h
  | cons j ws ih => exact ih _ (MTReach.step j h)

theorem mtreach_consistent (P : MTProb ℝ n p T) (s₀ s : MTState ℝ n p T)
    (h₀ : MTConsistent P s₀) (h : MTReach P s₀ s) : MTConsistent P s := by
  induction h with
  | start => exact h₀
  | step j _ ih => exact mtStep_consistent P _ j ih
  | intercept _ _ ih => exact interceptMove_consistent P _ ih
  | accept ws buf c _ hnd ih =>
    exact acceptMove_consistent P _ _ ih (extrapPoint_consistent P ws buf c hnd)

theorem mtreach_descent (P : MTProb ℝ n p T) (s₀ s : MTState ℝ n p T)
    (hlip : ∀ j, P.lips j = mtLipschitz P.X j)
    (hpen : ∀ j, P.lips j ≠ 0 → RowPenOK P.pen (1 / P.lips j))
    (h : MTReach P s₀ s) : Ext.le (P.objective s) (P.objective s₀) = true := by
  induction h with
  | start => exact CDB.le_refl' _
  | step j _ ih => exact BCD.ext_le_trans _ _ _ (mtStep_descent P _ j (hlip j) (hpen j)) ih
  | intercept _ _ ih => exact BCD.ext_le_trans _ _ _ (interceptMove_descent P _) ih
  | accept ws buf c _ _ ih => exact BCD.ext_le_trans _ _ _ (acceptMove_descent P _ _) ih

/-- without `fit_intercept` the intercept row of the model stays zero -/
theorem mtreach_no_intercept (P : MTProb ℝ n p T) (s₀ s : MTState ℝ n p T)
    (hfit : P.fitInt = false) (h₀ : ∀ k, s₀.b k = 0) (h : MTReach P s₀ s) : ∀ k, s.b k = 0 := by
  induction h with
  | start => exact h₀
  | step j _ ih => rw [(mtStep_outside' P _ j)]; exact ih
  | intercept _ hf _ => rw [hfit] at hf; cases hf
  | accept ws buf c _ _ ih =>
    unfold MTProb.acceptMove
    split_ifs
    · intro k
      simp only [MTProb.extrapPoint, matG_eq, hfit, Bool.false_eq_true, if_false]
    · exact ih

end Skglm.Proofs.MT
