import Skglm.Model.GramCD
import Skglm.Proofs.Run
/-
  Lemmas behind `Skglm/Properties/GramCD.lean`: the Gram-matrix coordinate-descent solver
  (`skglm/solvers/gram_cd.py`).  Specification-side definitions first (what "the gradient buffer is
  right", "feasible", "the quadratic" mean in terms of `G, q, c, w` only), then one section per
  property.
-/
namespace Skglm.Gram
open Skglm Skglm.Spec Skglm.Proofs
variable {n p : Nat}

/-! ### specification side -/

/-- the Gram matrix is symmetric -/
def Symm (P : GramProb ℝ p) : Prop := ∀ j k, P.G j k = P.G k j

/-- the gradient buffer is `G w - q` -/
def GradConsistent (P : GramProb ℝ p) (s : GramState ℝ p) : Prop :=
  ∀ j, s.grad j = (∑ k, P.G j k * s.w k) - P.q j

/-- every coefficient satisfies the configured constraint (documented penalty finite) -/
def Feasible (P : GramProb ℝ p) (w : Fin p → ℝ) : Prop :=
  ∀ j, (pen P.pen (P.wts j) (w j)).isSome

/-- the prox kernel of feature `j` returns a global minimiser at step `st` (what C07 proves) -/
def ProxOptimal (P : GramProb ℝ p) (j : Fin p) (st : ℝ) : Prop :=
  ∀ x v, ProxLe P.pen (P.wts j) x st (P.pen.prox1 (P.wts j) x st) v

/-- `½ wᵀ G w - qᵀ w + c` -/
noncomputable def quad (P : GramProb ℝ p) (w : Fin p → ℝ) : ℝ :=
  1 / 2 * (∑ j, w j * ∑ k, P.G j k * w k) - (∑ j, P.q j * w j) + P.c

/-- the AndersonCD problem GramCD is documented to solve: Quadratic datafit, no sample weights,
    no intercept -/
noncomputable def toCD (X : Fin n → Fin p → ℝ) (y : Fin n → ℝ) (pn : SepPen ℝ) (wts : Fin p → ℝ) :
    CDProb ℝ n p :=
  { X := X, y := y, sw := fun _ => 1, df := .quadratic, pen := pn, wts := wts, fitInt := false }

/-- the AndersonCD state with the same coefficients and the exact model fit -/
noncomputable def toCDState (X : Fin n → Fin p → ℝ) (w : Fin p → ℝ) : CDState ℝ n p :=
  { w := w, b := 0, Xw := fun i => ∑ j, X i j * w j }

/-! ### bridging -/

@[simp] theorem matM_eq (f : Fin p → Fin p → ℝ) : matM f = f := by
  funext j k
  simp [matM]

theorem Gw_eq (P : GramProb ℝ p) (w : Fin p → ℝ) (j : Fin p) :
    P.Gw w j = ∑ k, P.G j k * w k := by
  simp only [GramProb.Gw, mat_eq, dot_eq]

theorem quadNoConst_eq (P : GramProb ℝ p) (w : Fin p → ℝ) :
    P.quadNoConst w = quad P w - P.c := by
  unfold GramProb.quadNoConst quad
  simp only [mat_eq, dot_eq, frac_eq, Nat.cast_one, Nat.cast_ofNat]
  have : ∀ j, 1 / 2 * w j * P.Gw w j = 1 / 2 * (w j * ∑ k, P.G j k * w k) := by
    intro j; rw [Gw_eq]; ring
  simp only [this, ← Finset.mul_sum]
  ring

theorem objective_eq (P : GramProb ℝ p) (w : Fin p → ℝ) :
    P.objective w = Ext.add (.fin (quad P w)) (P.pen.value P.wts w) := by
  unfold GramProb.objective
  rw [quadNoConst_eq]
  congr 2
  ring

theorem objNoConst_eq (P : GramProb ℝ p) (w : Fin p → ℝ) :
    P.objNoConst w = Ext.add (.fin (quad P w - P.c)) (P.pen.value P.wts w) := by
  unfold GramProb.objNoConst
  rw [quadNoConst_eq]

/-! ### the step in closed form -/

theorem gramStep_zero (P : GramProb ℝ p) (s : GramState ℝ p) (j : Fin p) (h : P.G j j = 0) :
    P.gramStep s j = s := by
  unfold GramProb.gramStep
  dsimp only
  rw [if_pos ((eqb_iff _ _).2 h)]

/-- the value written into `w[j]` -/
noncomputable def newVal (P : GramProb ℝ p) (s : GramState ℝ p) (j : Fin p) : ℝ :=
  P.pen.prox1 (P.wts j) (s.w j - 1 / P.G j j * s.grad j) (1 / P.G j j)

theorem gramStep_w (P : GramProb ℝ p) (s : GramState ℝ p) (j : Fin p) (h : P.G j j ≠ 0) :
    (P.gramStep s j).w = fun k => if k = j then newVal P s j else s.w k := by
  unfold GramProb.gramStep newVal
  dsimp only
  rw [if_neg (by rw [Bool.not_eq_true, eqb_false_iff]; exact h)]
  split_ifs <;> simp only [mat_eq]

theorem gramStep_grad (P : GramProb ℝ p) (s : GramState ℝ p) (j : Fin p) (h : P.G j j ≠ 0) :
    (P.gramStep s j).grad = fun k => s.grad k + (newVal P s j - s.w j) * P.G k j := by
  unfold GramProb.gramStep newVal
  dsimp only
  rw [if_neg (by rw [Bool.not_eq_true, eqb_false_iff]; exact h)]
  split_ifs with h1
  · rw [eqb_iff] at h1
    funext k
    simp only [h1, sub_self, zero_mul, add_zero]
  · simp only [mat_eq]

/-! ### (a) gradient consistency -/

theorem init_consistent (P : GramProb ℝ p) : GradConsistent P P.init := by
  intro j
  simp [GramProb.init]

theorem initWarm_consistent (P : GramProb ℝ p) (w0 : Fin p → ℝ) :
    GradConsistent P (P.initWarm w0) := by
  intro j
  simp only [GramProb.initWarm, mat_eq, Gw_eq]

theorem gramStep_consistent (P : GramProb ℝ p) (s : GramState ℝ p) (j : Fin p)
    (h : GradConsistent P s) : GradConsistent P (P.gramStep s j) := by
  by_cases h0 : P.G j j = 0
  · rw [gramStep_zero P s j h0]; exact h
  · intro k
    rw [gramStep_w P s j h0, gramStep_grad P s j h0]
    simp only
    rw [CDA.sum_update_one, h k]
    ring

theorem gramEpoch_consistent (P : GramProb ℝ p) (s : GramState ℝ p) (js : List (Fin p))
    (h : GradConsistent P s) : GradConsistent P (P.gramEpoch s js) := by
  unfold GramProb.gramEpoch
  induction js generalizing s with
  | nil => exact h
  | cons j js ih => exact ih _ (gramStep_consistent P s j h)

/-- the extrapolated pair `(Σ c_k w_k, Σ c_k grad_k)` is consistent when the buffered pairs are and
    the coefficients sum to one (`grad` is *affine* in `w`: without `Σ c = 1` this is false, see
    `extrap_consistent_needs_sum_one`) -/
theorem extrapPoint_consistent {K : Nat} (P : GramProb ℝ p) (buf : Fin K → GramState ℝ p)
    (c : Fin K → ℝ) (hc : ∑ k, c k = 1) (hbuf : ∀ k, GradConsistent P (buf k)) :
    GradConsistent P (GramProb.extrapPoint buf c) := by
  intro j
  simp only [GramProb.extrapPoint, mat_eq, vsum_eq]
  have e1 : ∀ k, c k * (buf k).grad j
      = (∑ l, P.G j l * (c k * (buf k).w l)) - c k * P.q j := by
    intro k
    rw [hbuf k j, mul_sub, Finset.mul_sum]
    congr 1
    exact Finset.sum_congr rfl (fun l _ => by ring)
  simp only [e1, Finset.sum_sub_distrib, ← Finset.sum_mul, hc, one_mul]
  congr 1
  rw [Finset.sum_comm]
  exact Finset.sum_congr rfl (fun l _ => by rw [Finset.mul_sum])

theorem acceptMove_consistent (P : GramProb ℝ p) (s acc : GramState ℝ p) (hs : GradConsistent P s)
    (ha : GradConsistent P acc) : GradConsistent P (P.acceptMove s acc) := by
  unfold GramProb.acceptMove
  split_ifs
  · exact ha
  · exact hs

/-! ### (b) the quadratic of `ofData` -/

section ofData
variable (X : Fin n → Fin p → ℝ) (y : Fin n → ℝ) (pn : SepPen ℝ) (wts : Fin p → ℝ)

theorem ofData_G (j k : Fin p) :
    (GramProb.ofData X y pn wts).G j k = (∑ i, X i j * X i k) / n := by
  simp only [GramProb.ofData, matM_eq, vsum_eq, nat_eq]

theorem ofData_q (j : Fin p) :
    (GramProb.ofData X y pn wts).q j = (∑ i, X i j * y i) / n := by
  simp only [GramProb.ofData, mat_eq, vsum_eq, nat_eq]

theorem ofData_c : (GramProb.ofData X y pn wts).c = (∑ i, y i * y i) / (2 * n) := by
  simp only [GramProb.ofData, norm2_eq, nat_eq, Nat.cast_ofNat]
  rw [Real.mul_self_sqrt (Finset.sum_nonneg (fun i _ => mul_self_nonneg (y i)))]

@[simp] theorem ofData_pen : (GramProb.ofData X y pn wts).pen = pn := rfl
@[simp] theorem ofData_wts : (GramProb.ofData X y pn wts).wts = wts := rfl

theorem ofData_symm : Symm (GramProb.ofData X y pn wts) := by
  intro j k
  rw [ofData_G, ofData_G]
  congr 1
  exact Finset.sum_congr rfl (fun i _ => mul_comm _ _)

theorem ofData_diag_nonneg (j : Fin p) : 0 ≤ (GramProb.ofData X y pn wts).G j j := by
  rw [ofData_G]
  exact div_nonneg (Finset.sum_nonneg (fun i _ => mul_self_nonneg _)) (Nat.cast_nonneg n)

/-- `(G w)_j = (1/n) Σ_i X_ij (Xw)_i` -/
theorem ofData_Gw (w : Fin p → ℝ) (j : Fin p) :
    ∑ k, (GramProb.ofData X y pn wts).G j k * w k
      = (∑ i, X i j * ∑ k, X i k * w k) / n := by
  have e1 : ∀ k, (GramProb.ofData X y pn wts).G j k * w k = (∑ i, X i j * X i k * w k) / n := by
    intro k
    rw [ofData_G, div_mul_eq_mul_div, Finset.sum_mul]
  have e2 : ∀ i, X i j * ∑ k, X i k * w k = ∑ k, X i j * X i k * w k := by
    intro i
    rw [Finset.mul_sum]
    exact Finset.sum_congr rfl (fun k _ => by ring)
  simp only [e1, e2, ← Finset.sum_div]
  rw [Finset.sum_comm]

/-- `G w - q` is the gradient of the Quadratic datafit at `Xw` -/
theorem ofData_grad (w : Fin p → ℝ) (j : Fin p) :
    (∑ k, (GramProb.ofData X y pn wts).G j k * w k) - (GramProb.ofData X y pn wts).q j
      = DF.gradScalar (DF.quadratic : DF ℝ) X (fun _ => 1) y (fun i => ∑ k, X i k * w k) j := by
  rw [ofData_Gw, ofData_q]
  simp only [DF.gradScalar, DF.rawGrad, DF.dloss1, DF.normaliser, DF.lin, vsum_eq, nat_eq, one_mul,
    add_zero]
  rw [← sub_div, ← Finset.sum_sub_distrib, Finset.sum_div]
  exact Finset.sum_congr rfl (fun i _ => by ring)

/-- `½ wᵀGw - qᵀw + c = ‖y - Xw‖² / (2n)` -/
theorem quad_ofData (w : Fin p → ℝ) :
    quad (GramProb.ofData X y pn wts) w = (∑ i, (y i - ∑ j, X i j * w j) ^ 2) / (2 * n) := by
  unfold quad
  simp only [ofData_Gw, ofData_q, ofData_c]
  have h1 : ∑ j, w j * ((∑ i, X i j * ∑ k, X i k * w k) / (n : ℝ))
      = (∑ i, (∑ j, X i j * w j) ^ 2) / n := by
    have e1 : ∀ j, w j * ((∑ i, X i j * ∑ k, X i k * w k) / (n : ℝ))
        = (∑ i, (X i j * w j) * ∑ k, X i k * w k) / n := by
      intro j
      rw [mul_div_assoc', Finset.mul_sum]
      congr 1
      exact Finset.sum_congr rfl (fun i _ => by ring)
    have e2 : ∀ i, (∑ j, X i j * w j) ^ 2 = ∑ j, (X i j * w j) * ∑ k, X i k * w k := by
      intro i
      rw [sq, Finset.sum_mul]
    simp only [e1, e2, ← Finset.sum_div]
    rw [Finset.sum_comm]
  have h2 : ∑ j, (∑ i, X i j * y i) / (n : ℝ) * w j
      = (∑ i, y i * ∑ j, X i j * w j) / n := by
    have e1 : ∀ j, (∑ i, X i j * y i) / (n : ℝ) * w j = (∑ i, y i * (X i j * w j)) / n := by
      intro j
      rw [div_mul_eq_mul_div, Finset.sum_mul]
      congr 1
      exact Finset.sum_congr rfl (fun i _ => by ring)
    have e2 : ∀ i, y i * ∑ j, X i j * w j = ∑ j, y i * (X i j * w j) := by
      intro i
      rw [Finset.mul_sum]
    simp only [e1, e2, ← Finset.sum_div]
    rw [Finset.sum_comm]
  rw [h1, h2]
  have h3 : ∑ i, (y i - ∑ j, X i j * w j) ^ 2
      = (∑ i, y i * y i) - 2 * (∑ i, y i * ∑ j, X i j * w j) + ∑ i, (∑ j, X i j * w j) ^ 2 := by
    rw [Finset.mul_sum, ← Finset.sum_sub_distrib, ← Finset.sum_add_distrib]
    exact Finset.sum_congr rfl (fun i _ => by ring)
  rw [h3]
  ring

/-- for `ofData`, a null Gram diagonal entry means a null column (when `n > 0`) -/
theorem ofData_diag_zero_iff (hn : 0 < n) (j : Fin p) :
    (GramProb.ofData X y pn wts).G j j = 0 ↔ ∀ i, X i j = 0 := by
  rw [ofData_G]
  have hn' : (n : ℝ) ≠ 0 := Nat.cast_ne_zero.2 hn.ne'
  rw [div_eq_zero_iff, or_iff_left hn',
    Finset.sum_eq_zero_iff_of_nonneg (fun i _ => mul_self_nonneg _)]
  simp

theorem ofData_zero_column (j : Fin p) (h : ∀ i, X i j = 0) :
    (GramProb.ofData X y pn wts).G j j = 0 ∧ (GramProb.ofData X y pn wts).q j = 0 ∧
    (∀ k, (GramProb.ofData X y pn wts).G j k = 0) ∧ (∀ k, (GramProb.ofData X y pn wts).G k j = 0) := by
  refine ⟨?_, ?_, fun k => ?_, fun k => ?_⟩ <;>
    simp [ofData_G, ofData_q, h]

end ofData

/-! ### `Ext` helpers -/

theorem ext_shift {a b c : ℝ} {e1 e2 : Ext ℝ}
    (h : Ext.lt (Ext.add (.fin (a - c)) e1) (Ext.add (.fin (b - c)) e2) = true) :
    Ext.le (Ext.add (.fin a) e1) (Ext.add (.fin b) e2) = true := by
  cases e1 <;> cases e2 <;> simp only [Ext.add, Ext.lt, Ext.le, decide_eq_true_eq] at h ⊢
  · linarith
  · cases h

/-! ### (d) feasibility -/

theorem feasible_iff (P : GramProb ℝ p) (w : Fin p → ℝ)
    (hg : ∀ a g pos, P.pen = .mcp a g pos ∨ P.pen = .wmcp a g pos → 0 < g) :
    Feasible P w ↔ ∀ j, P.pen.pen1 (P.wts j) (w j) ≠ .inf := by
  unfold Feasible
  refine forall_congr' (fun j => ?_)
  rw [← CDB.pen1_eq_spec _ _ _ hg, CDB.toOption_isSome]

theorem value_inf_of_infeasible (P : GramProb ℝ p) (w : Fin p → ℝ) (hf : ¬ Feasible P w)
    (hg : ∀ a g pos, P.pen = .mcp a g pos ∨ P.pen = .wmcp a g pos → 0 < g) :
    P.pen.value P.wts w = .inf := by
  rw [feasible_iff P w hg] at hf
  push Not at hf
  unfold SepPen.value
  exact CDB.esum_inf _ hf

theorem objective_inf_of_infeasible (P : GramProb ℝ p) (w : Fin p → ℝ) (hf : ¬ Feasible P w)
    (hg : ∀ a g pos, P.pen = .mcp a g pos ∨ P.pen = .wmcp a g pos → 0 < g) :
    P.objective w = .inf ∧ P.objNoConst w = .inf := by
  unfold GramProb.objective GramProb.objNoConst
  rw [value_inf_of_infeasible P w hf hg]
  exact ⟨rfl, rfl⟩

theorem gramStep_feasible (P : GramProb ℝ p) (s : GramState ℝ p) (j : Fin p) (hf : Feasible P s.w)
    (hadm : P.G j j ≠ 0 → Admissible P.pen (P.wts j) (1 / P.G j j)) :
    Feasible P (P.gramStep s j).w := by
  by_cases h0 : P.G j j = 0
  · rw [gramStep_zero P s j h0]; exact hf
  · rw [gramStep_w P s j h0]
    intro k
    simp only
    by_cases hk : k = j
    · subst hk
      rw [if_pos rfl]
      exact CDB.pen_isSome_prox _ _ _ _ (hadm h0)
    · rw [if_neg hk]; exact hf k

theorem acceptMove_feasible (P : GramProb ℝ p) (s acc : GramState ℝ p) (hf : Feasible P s.w)
    (hg : ∀ a g pos, P.pen = .mcp a g pos ∨ P.pen = .wmcp a g pos → 0 < g) :
    Feasible P (P.acceptMove s acc).w := by
  unfold GramProb.acceptMove
  split_ifs with h
  · by_contra hnf
    exact CDB.ne_inf_of_lt h (objective_inf_of_infeasible P acc.w hnf hg).2
  · exact hf

/-! ### (c) descent -/

/-- exact second-order expansion of the quadratic along coordinate `j` (needs `G` symmetric) -/
theorem quad_update (P : GramProb ℝ p) (hS : Symm P) (w : Fin p → ℝ) (j : Fin p) (new : ℝ) :
    quad P (fun k => if k = j then new else w k)
      = quad P w + (new - w j) * ((∑ k, P.G j k * w k) - P.q j)
        + P.G j j / 2 * (new - w j) ^ 2 := by
  unfold quad
  have hin : ∀ k, ∑ l, P.G k l * (if l = j then new else w l)
      = (∑ l, P.G k l * w l) + (new - w j) * P.G k j := fun k => CDA.sum_update_one _ _ _ _
  simp only [hin]
  have hq : ∑ k, P.q k * (if k = j then new else w k)
      = (∑ k, P.q k * w k) + (new - w j) * P.q j := CDA.sum_update_one _ _ _ _
  have h1 : ∑ k, (if k = j then new else w k) * ((∑ l, P.G k l * w l) + (new - w j) * P.G k j)
      = (∑ k, (∑ l, P.G k l * w l) * (if k = j then new else w k))
        + (new - w j) * ∑ k, P.G k j * (if k = j then new else w k) := by
    rw [Finset.mul_sum, ← Finset.sum_add_distrib]
    exact Finset.sum_congr rfl (fun k _ => by ring)
  have h2 : ∑ k, (∑ l, P.G k l * w l) * (if k = j then new else w k)
      = (∑ k, (∑ l, P.G k l * w l) * w k) + (new - w j) * ∑ l, P.G j l * w l :=
    CDA.sum_update_one _ _ _ _
  have h3 : ∑ k, P.G k j * (if k = j then new else w k)
      = (∑ k, P.G k j * w k) + (new - w j) * P.G j j := CDA.sum_update_one _ _ _ _
  have h4 : ∑ k, P.G k j * w k = ∑ k, P.G j k * w k :=
    Finset.sum_congr rfl (fun k _ => by rw [hS k j])
  have h5 : ∑ k, w k * ∑ l, P.G k l * w l = ∑ k, (∑ l, P.G k l * w l) * w k :=
    Finset.sum_congr rfl (fun k _ => mul_comm _ _)
  rw [h1, h2, h3, h4, hq, h5]
  ring

theorem gramStep_descent (P : GramProb ℝ p) (s : GramState ℝ p) (j : Fin p) (hS : Symm P)
    (hc : GradConsistent P s) (hL : 0 ≤ P.G j j)
    (hprox : P.G j j ≠ 0 → ProxOptimal P j (1 / P.G j j))
    (hg : ∀ a g pos, P.pen = .mcp a g pos ∨ P.pen = .wmcp a g pos → 0 < g) :
    Ext.le (P.objective (P.gramStep s j).w) (P.objective s.w) = true := by
  by_cases h0 : P.G j j = 0
  · rw [gramStep_zero P s j h0]; exact CDB.le_refl' _
  have hLpos : 0 < P.G j j := lt_of_le_of_ne hL (Ne.symm h0)
  by_cases hinf : ∃ k, P.pen.pen1 (P.wts k) (s.w k) = .inf
  · have : P.objective s.w = .inf := by
      unfold GramProb.objective SepPen.value
      rw [CDB.esum_inf _ hinf]; rfl
    rw [this]; exact CDB.le_inf _
  push Not at hinf
  rw [gramStep_w P s j h0, objective_eq, objective_eq]
  have hprox' := hprox h0
  unfold newVal
  generalize hLd : P.G j j = L at hLpos hprox'
  have hgj := hc j
  generalize s.grad j = g at hgj
  generalize hnew : P.pen.prox1 (P.wts j) (s.w j - 1 / L * g) (1 / L) = new
  set A : Fin p → ℝ := fun k => CDB.val (P.pen.pen1 (P.wts k) (s.w k)) with hA
  have hAk : ∀ k, P.pen.pen1 (P.wts k) (s.w k) = .fin (A k) := fun k => CDB.eq_fin_val (hinf k)
  have hold : pen P.pen (P.wts j) (s.w j) = some (A j) := by
    rw [← CDB.pen1_eq_spec _ _ _ hg, hAk j]; rfl
  have hpr := hprox' (s.w j - 1 / L * g) (s.w j)
  rw [hnew] at hpr
  unfold ProxLe at hpr
  rw [hold] at hpr
  cases hpn : pen P.pen (P.wts j) new with
  | none => rw [hpn] at hpr; exact hpr.elim
  | some pu =>
    rw [hpn] at hpr
    simp only at hpr
    have hnewfin : P.pen.pen1 (P.wts j) new = .fin pu := by
      apply CDB.eq_fin_of_toOption
      rw [CDB.pen1_eq_spec _ _ _ hg, hpn]
    have hLq : L * (1 / L) = 1 := by field_simp
    generalize 1 / L = q at hpr hLq
    have hkey : L / 2 * (new - s.w j) ^ 2 + (new - s.w j) * g + pu ≤ A j := by
      have h1 := mul_le_mul_of_nonneg_left hpr hLpos.le
      have e1 : L * ((new - (s.w j - q * g)) ^ 2 / 2 + q * pu)
          = L / 2 * (new - s.w j) ^ 2 + (new - s.w j) * g * (L * q) + (L * q) * (g ^ 2 * q) / 2
            + (L * q) * pu := by ring
      have e2 : L * ((s.w j - (s.w j - q * g)) ^ 2 / 2 + q * A j)
          = (L * q) * (g ^ 2 * q) / 2 + (L * q) * A j := by ring
      rw [e1, e2, hLq] at h1
      linarith
    have hv_s : P.pen.value P.wts s.w = .fin (∑ k, A k) := by
      unfold SepPen.value
      exact CDB.esum_fin _ A hAk
    have hv_new : P.pen.value P.wts (fun k => if k = j then new else s.w k)
        = .fin (∑ k, (if k = j then pu else A k)) := by
      unfold SepPen.value
      refine CDB.esum_fin _ (fun k => if k = j then pu else A k) (fun k => ?_)
      by_cases hk : k = j
      · subst hk; simp only [if_true]; exact hnewfin
      · simp only [if_neg hk]; exact hAk k
    rw [hv_s, hv_new, quad_update P hS, CDB.sum_ite_replace, ← hgj, hLd]
    apply CDB.fin_le_fin
    linarith

theorem acceptMove_descent (P : GramProb ℝ p) (s acc : GramState ℝ p) :
    Ext.le (P.objective (P.acceptMove s acc).w) (P.objective s.w) = true := by
  unfold GramProb.acceptMove
  split_ifs with h
  · rw [objNoConst_eq, objNoConst_eq] at h
    rw [objective_eq, objective_eq]
    exact ext_shift h
  · exact CDB.le_refl' _

/-! ### (f) stopping criterion -/

theorem stopCrit_scores (P : GramProb ℝ p) (s : GramState ℝ p) (c : ℝ)
    (hstop : P.stopCrit s = .fin c) :
    0 ≤ c ∧ ∀ j, ∃ d, P.pen.sd1 (P.wts j) (s.w j) (s.grad j) = .fin d ∧ d ≤ c := by
  unfold GramProb.stopCrit at hstop
  exact CDA.foldl_max_fin p _ 0 c hstop

end Skglm.Gram
