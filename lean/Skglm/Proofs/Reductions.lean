import Skglm.Spec.Penalties
import Skglm.Spec.Losses
import Skglm.Model.BlockPenalties
/-
  Helper lemmas for the reduction / feasibility / alpha_max properties (C14, C04, C16):
  one-element vectors, Boolean folds, block soft-thresholding of a 1-vector.
-/
namespace Skglm.Proofs.Red
open Skglm

theorem norm2_fin1 (f : Fin 1 → ℝ) : norm2 f = |f 0| := by
  rw [norm2_eq, Fin.sum_univ_one, Real.sqrt_mul_self_eq_abs]

theorem vsum_const_one (n : Nat) : vsum (fun _ : Fin n => (1:ℝ)) = (n : ℝ) := by
  rw [vsum_eq]; simp

theorem foldl_or_eq_true {k : Nat} (f : Fin k → Bool) (b : Bool) :
    Fin.foldl k (fun acc i => acc || f i) b = true ↔ b = true ∨ ∃ i, f i = true := by
  induction k with
  | zero => simp [Fin.foldl_zero]
  | succ k ih =>
    rw [Fin.foldl_succ_last, Bool.or_eq_true, ih]
    constructor
    · rintro ((h | ⟨i, hi⟩) | h)
      · exact Or.inl h
      · exact Or.inr ⟨_, hi⟩
      · exact Or.inr ⟨_, h⟩
    · rintro (h | ⟨i, hi⟩)
      · exact Or.inl (Or.inl h)
      · refine Fin.lastCases ?_ (fun j => ?_) i hi
        · intro h; exact Or.inr h
        · intro h; exact Or.inl (Or.inr ⟨j, h⟩)

theorem BST0_fin1 (x u : ℝ) (hu : 0 ≤ u) : BST0 (fun _ : Fin 1 => x) u 0 = ST x u false := by
  unfold BST0 ST
  simp only [norm2_fin1]
  by_cases h : |x| ≤ u
  · have h' := abs_le.1 h
    rw [if_pos h, if_neg (by linarith), if_neg (by rintro ⟨h1, _⟩; linarith)]
  · rw [if_neg h]
    push Not at h
    rcases lt_or_ge x 0 with hx | hx
    · rw [abs_of_neg hx] at h ⊢
      rw [if_neg (by linarith), if_pos ⟨by linarith, trivial⟩]
      have : x ≠ 0 := by linarith
      field_simp
      ring
    · rw [abs_of_nonneg hx] at h ⊢
      rw [if_pos h]
      have : x ≠ 0 := by linarith
      field_simp

theorem BST_fin1 (x u : ℝ) (pos : Bool) (hu : 0 ≤ u) :
    BST (fun _ : Fin 1 => x) u pos 0 = ST x u pos := by
  cases pos
  · simp only [BST, Bool.false_eq_true, if_false]
    exact BST0_fin1 x u hu
  · simp only [BST, if_true]
    by_cases hx : 0 < x
    · rw [if_pos hx]
      have e : (fun _ : Fin 1 => if 0 < x then x else (0:ℝ)) = fun _ => x := by
        funext _; rw [if_pos hx]
      rw [e, BST0_fin1 x u hu]
      unfold ST
      by_cases h : u < x
      · rw [if_pos h, if_pos h]
      · rw [if_neg h, if_neg h, if_neg (by rintro ⟨h1, _⟩; linarith), if_neg (by rintro ⟨_, h2⟩; cases h2)]
    · rw [if_neg hx]
      unfold ST
      rw [if_neg (by linarith), if_neg (by rintro ⟨_, h2⟩; cases h2)]

/-! ### small facts used by C14 / C16 / C04 -/

theorem foldl_fin1 (w : ℝ) :
    (Fin.foldl 1 (fun acc (_ : Fin 1) => acc || decide (w < 0)) false = true) ↔ w < 0 := by
  rw [foldl_or_eq_true (fun _ : Fin 1 => decide (w < 0)) false]
  simp

theorem div_abs_eq_sgn (w : ℝ) (hw : w ≠ 0) : w / |w| = sgn w := by
  rcases lt_or_gt_of_ne hw with h | h
  · rw [abs_of_neg h, sgn_neg h]; field_simp
  · rw [abs_of_pos h, sgn_pos h]; field_simp

theorem sdZero_eq_zero_iff (g lvl : ℝ) : SepPen.sdZero g lvl = 0 ↔ |g| ≤ lvl := by
  unfold SepPen.sdZero
  rw [smax_eq, sabs_eq]
  constructor
  · intro h
    have := le_max_right 0 (|g| - lvl)
    rw [h] at this
    linarith
  · intro h
    exact max_eq_left (by linarith)

theorem fin_eq_iff (x y : ℝ) : (Ext.fin x = Ext.fin y) ↔ x = y :=
  ⟨fun h => by injection h, fun h => by rw [h]⟩

theorem prox_MCP_pos_nonneg (x s a g wt : ℝ) (hg : 0 < g) (hws : wt * s < g) :
    0 ≤ prox_MCP x s a g true wt := by
  unfold prox_MCP
  simp only [sabs_eq]
  split_ifs with h1 h2
  · exact le_refl _
  · push Not at h1
    have := h1.2 trivial
    linarith
  · push Not at h1
    have hx : 0 < x := h1.2 trivial
    have h3 := h1.1
    rw [abs_of_pos hx] at h3 ⊢
    rw [sgn_pos hx]
    have hden : 0 < 1 - wt * s / g := by
      have : wt * s / g < 1 := (div_lt_one hg).2 hws
      linarith
    apply div_nonneg _ hden.le
    linarith

end Skglm.Proofs.Red
