import Skglm.Spec.Penalties
import Skglm.Model.BlockPenalties
import Skglm.Proofs.ProxAux
import Skglm.Proofs.BlockProx
/-
  Lemmas behind the SCAD part of C07: `prox_SCAD` (best of three candidates, compared on the true
  objective) returns a global minimiser of `v ↦ ½(v - x)² + s·scad(v)` for every step `s > 0`, every
  `a ≥ 0` and every `γ ≥ 1`; and the radial block version.

  Notation: `y = |x|`, `F t = ½(t - y)² + s·scad t` (`scadF`), candidates
  `x₁ = max 0 (y - a s)`, `x₂ = |((γ-1) y - s γ a) / (γ - 1 - s)|`, `x₃ = y`.

  * `s < γ - 1` (`F` convex on `[0,∞)`): `x₁` is optimal for `y ≤ a(1+s)`, `x₂` for
    `a(1+s) ≤ y ≤ aγ`, `x₃` for `aγ ≤ y`.
  * `γ - 1 ≤ s` (`F` concave on `[a, aγ]`): on `[0,a]` one of `x₁`, `x₃` is at least as good as any
    `u`, the same on `[aγ,∞)`, and on `[a, aγ]` an end point is at least as good as `u`.
  Since the code compares the candidates on the *true* objective, the best of the three is a global
  minimiser in both regimes.
-/
namespace Skglm.Proofs
open Skglm Skglm.Spec

/-! ### the documented SCAD, piece by piece -/

theorem pen_SCAD_eq (w a g : ℝ) : pen_SCAD w a g = scad a g w := by
  simp only [pen_SCAD, scad, sabs_eq, nat_eq, Nat.cast_ofNat]
  split_ifs <;> ring

theorem pen_scad (a g wt u : ℝ) : pen (.scad a g) wt u = some (scad a g u) := by
  simp [pen, SepPen.positive]

theorem scad_abs (a g t : ℝ) : scad a g |t| = scad a g t := by
  unfold scad; rw [abs_abs, sq_abs]

theorem scad_lo {a g u : ℝ} (h0 : 0 ≤ u) (h : u ≤ a) : scad a g u = a * u := by
  unfold scad; rw [abs_of_nonneg h0, if_pos h]

/-- closed middle piece (the two formulas agree at `u = a`) -/
theorem scad_mid {a g u : ℝ} (hg : 1 < g) (h0 : 0 ≤ u) (h1 : a ≤ u) (h2 : u ≤ a * g) :
    scad a g u = (2 * a * g * u - u ^ 2 - a ^ 2) / (2 * (g - 1)) := by
  unfold scad
  rw [abs_of_nonneg h0]
  have hk : (g - 1) ≠ 0 := sub_ne_zero.2 hg.ne'
  split_ifs with c1
  · have : u = a := le_antisymm c1 h1
    subst this; field_simp; ring
  · rfl

/-- closed flat piece (the formulas agree at `u = aγ`) -/
theorem scad_hi {a g u : ℝ} (ha : 0 ≤ a) (hg : 1 ≤ g) (h : a * g ≤ u) :
    scad a g u = a ^ 2 * (g + 1) / 2 := by
  have hag : a ≤ a * g := by nlinarith
  have h0 : 0 ≤ u := by linarith
  unfold scad
  rw [abs_of_nonneg h0]
  split_ifs with c1 c2
  · have e1 : u = a := le_antisymm c1 (by linarith)
    have e2 : a * g = a := le_antisymm (by linarith) hag
    subst e1
    have : u * (g - 1) = 0 := by linarith
    rcases mul_eq_zero.mp this with h' | h'
    · subst h'; ring
    · have : g = 1 := by linarith
      subst this; ring
  · have e : u = a * g := le_antisymm c2 h
    have hg1 : 1 < g := by
      rcases eq_or_lt_of_le hg with h' | h'
      · exfalso; subst h'; apply c1; linarith
      · exact h'
    have hk : (g - 1) ≠ 0 := sub_ne_zero.2 hg1.ne'
    subst e; field_simp; ring
  · rfl

theorem scad_nonneg (a g t : ℝ) (ha : 0 ≤ a) (hg : 1 ≤ g) : 0 ≤ scad a g t := by
  unfold scad
  split_ifs with c1 c2
  · exact mul_nonneg ha (abs_nonneg t)
  · have c1' : a < |t| := not_le.mp c1
    have hm := abs_nonneg t
    apply div_nonneg _ (by linarith)
    rw [← sq_abs t]
    nlinarith [mul_nonneg hm (sub_nonneg.2 c2), mul_nonneg ha (sub_nonneg.2 c1'.le),
      mul_nonneg (mul_nonneg ha (sub_nonneg.2 hg)) hm]
  · exact div_nonneg (mul_nonneg (sq_nonneg a) (by linarith)) (by norm_num)

/-! ### the prox objective `F` on `[0, ∞)` -/

/-- `½(t - y)² + s·scad t` -/
noncomputable def scadF (a g s y t : ℝ) : ℝ := (t - y) ^ 2 / 2 + s * scad a g t

theorem scadF_lo {a g s y u : ℝ} (h0 : 0 ≤ u) (h : u ≤ a) :
    scadF a g s y u = (u - y) ^ 2 / 2 + s * (a * u) := by
  unfold scadF; rw [scad_lo h0 h]

theorem scadF_hi {a g s y u : ℝ} (ha : 0 ≤ a) (hg : 1 ≤ g) (h : a * g ≤ u) :
    scadF a g s y u = (u - y) ^ 2 / 2 + s * (a ^ 2 * (g + 1) / 2) := by
  unfold scadF; rw [scad_hi ha hg h]

/-- middle piece, with `s = ρ (γ - 1)` to get rid of the division -/
theorem scadF_mid {a g s y u ρ : ℝ} (hg : 1 < g) (hρ : s = ρ * (g - 1)) (h0 : 0 ≤ u) (h1 : a ≤ u)
    (h2 : u ≤ a * g) :
    scadF a g s y u = (u - y) ^ 2 / 2 + ρ * (2 * a * g * u - u ^ 2 - a ^ 2) / 2 := by
  unfold scadF; rw [scad_mid hg h0 h1 h2, hρ]
  have hk : (g - 1) ≠ 0 := sub_ne_zero.2 hg.ne'
  field_simp

/-- the middle parabola is a global lower bound of `F` on `[0, ∞)` -/
theorem scadF_ge_mid {a g s y u ρ : ℝ} (ha : 0 ≤ a) (hg : 1 < g) (hρ : s = ρ * (g - 1)) (hρ0 : 0 ≤ ρ)
    (h0 : 0 ≤ u) :
    (u - y) ^ 2 / 2 + ρ * (2 * a * g * u - u ^ 2 - a ^ 2) / 2 ≤ scadF a g s y u := by
  rcases le_total u a with h1 | h1
  · rw [scadF_lo h0 h1, hρ]
    nlinarith [mul_nonneg hρ0 (sq_nonneg (u - a))]
  · rcases le_total u (a * g) with h2 | h2
    · rw [scadF_mid hg hρ h0 h1 h2]
    · rw [scadF_hi ha hg.le h2, hρ]
      nlinarith [mul_nonneg hρ0 (sq_nonneg (u - a * g))]

/-! ### optimality of the candidates, region by region -/

/-- `x₁` beats every `u ∈ [0, a]` whenever it lies in `[0, a]` -/
theorem scad_x1_lo {a g s y u : ℝ} (ha : 0 ≤ a) (hy1 : y ≤ a * (1 + s))
    (h0 : 0 ≤ u) (h : u ≤ a) :
    scadF a g s y (max 0 (y - a * s)) ≤ scadF a g s y u := by
  rw [scadF_lo (le_max_left _ _) (max_le ha (by linarith)), scadF_lo h0 h]
  rcases le_total (y - a * s) 0 with c | c
  · rw [max_eq_left c]
    nlinarith [sq_nonneg u, mul_nonneg h0 (by linarith : (0:ℝ) ≤ a * s - y)]
  · rw [max_eq_right c]
    nlinarith [sq_nonneg (u - y + a * s)]

/-- `x₃ = y` beats every `u ≥ aγ` whenever `y ≥ aγ` -/
theorem scad_x3_hi {a g s y u : ℝ} (ha : 0 ≤ a) (hg : 1 ≤ g) (hy : a * g ≤ y) (h : a * g ≤ u) :
    scadF a g s y y ≤ scadF a g s y u := by
  rw [scadF_hi ha hg hy, scadF_hi ha hg h]
  nlinarith [sq_nonneg (u - y)]

/-- convex regime, `y ≤ a(1+s)`: `F` is non-decreasing to the right of `a` -/
theorem scadA_a_le {a g s y u ρ : ℝ} (ha : 0 ≤ a) (hg : 1 < g) (hρ : s = ρ * (g - 1))
    (hρ0 : 0 ≤ ρ) (hρ1 : ρ ≤ 1) (hy1 : y ≤ a * (1 + s)) (h1 : a ≤ u) :
    scadF a g s y a ≤ scadF a g s y u := by
  have h0 : 0 ≤ u := by linarith
  have hag : a ≤ a * g := by nlinarith
  refine le_trans ?_ (scadF_ge_mid ha hg hρ hρ0 h0)
  rw [scadF_mid hg hρ ha (le_refl _) hag]
  have hb : 0 ≤ (1 - ρ) * (u + a) - 2 * y + 2 * ρ * a * g := by
    rw [hρ] at hy1
    nlinarith [mul_nonneg (sub_nonneg.2 hρ1) (sub_nonneg.2 h1)]
  nlinarith [mul_nonneg (sub_nonneg.2 h1) hb]

/-- convex regime, `aγ ≤ y`: `F` is non-increasing to the left of `aγ` -/
theorem scadA_le_ag {a g s y u ρ : ℝ} (ha : 0 ≤ a) (hg : 1 < g) (hρ : s = ρ * (g - 1))
    (hρ0 : 0 ≤ ρ) (hρ1 : ρ ≤ 1) (hy : a * g ≤ y) (h0 : 0 ≤ u) (h2 : u ≤ a * g) :
    scadF a g s y (a * g) ≤ scadF a g s y u := by
  have hag : a ≤ a * g := by nlinarith
  refine le_trans ?_ (scadF_ge_mid ha hg hρ hρ0 h0)
  rw [scadF_mid hg hρ (by linarith) hag (le_refl _)]
  have hb : (1 - ρ) * (u + a * g) - 2 * y + 2 * ρ * a * g ≤ 0 := by
    nlinarith [mul_nonneg (sub_nonneg.2 hρ1) (sub_nonneg.2 h2)]
  nlinarith [mul_nonneg (sub_nonneg.2 h2) (neg_nonneg.2 hb)]

/-- convex regime, `a(1+s) ≤ y ≤ aγ`: the stationary point of the middle parabola is optimal -/
theorem scadA_x2 {a g s y u ρ c : ℝ} (ha : 0 ≤ a) (hg : 1 < g) (hρ : s = ρ * (g - 1))
    (hρ0 : 0 ≤ ρ) (hρ1 : ρ < 1) (hc : y = (1 - ρ) * c + ρ * (a * g)) (hc1 : a ≤ c)
    (hc2 : c ≤ a * g) (h0 : 0 ≤ u) :
    scadF a g s y c ≤ scadF a g s y u := by
  refine le_trans ?_ (scadF_ge_mid ha hg hρ hρ0 h0)
  rw [scadF_mid hg hρ (by linarith) hc1 hc2]
  subst hc
  nlinarith [mul_nonneg (sub_nonneg.2 hρ1.le) (sq_nonneg (u - c))]

/-- concave regime: beyond `a(1+s)` the flat candidate beats every `u ∈ [0, a]` -/
theorem scadB_x3_lo {a g s y u : ℝ} (hs : 0 < s) (ha : 0 ≤ a) (hg : 1 ≤ g) (hsg : g - 1 ≤ s)
    (hy1 : a * (1 + s) < y) (h0 : 0 ≤ u) (h : u ≤ a) :
    scadF a g s y y ≤ scadF a g s y u := by
  have hag : a * g ≤ a * (1 + s) := mul_le_mul_of_nonneg_left (by linarith) ha
  rw [scadF_hi ha hg (by linarith), scadF_lo h0 h]
  have e1 : 0 ≤ (a - u) * (y - a - a * s) := mul_nonneg (sub_nonneg.2 h) (by linarith)
  have e1' : 0 ≤ (a - u) * (a - u) := mul_self_nonneg _
  have e2 : 0 ≤ (y - a - a * s) * (y - a + a * s) :=
    mul_nonneg (by linarith) (by nlinarith [mul_nonneg ha hs.le])
  have e3 : 0 ≤ a ^ 2 * s * (s - (g - 1)) :=
    mul_nonneg (mul_nonneg (sq_nonneg a) hs.le) (sub_nonneg.2 hsg)
  nlinarith [e1, e1', e2, e3]

/-- concave regime: below `aγ` the first candidate beats every `u ≥ aγ` -/
theorem scadB_x1_hi {a g s y u : ℝ} (hs : 0 < s) (ha : 0 ≤ a) (hg : 1 ≤ g) (hsg : g - 1 ≤ s)
    (hy : y ≤ a * g) (h : a * g ≤ u) :
    scadF a g s y (max 0 (y - a * s)) ≤ scadF a g s y u := by
  have hag : a * g ≤ a * (1 + s) := mul_le_mul_of_nonneg_left (by linarith) ha
  rw [scadF_lo (le_max_left _ _) (max_le ha (by linarith)), scadF_hi ha hg h]
  have e0 : (a * g - y) ^ 2 ≤ (u - y) ^ 2 := by nlinarith
  have e3 : 0 ≤ a ^ 2 * s * (s - (g - 1)) :=
    mul_nonneg (mul_nonneg (sq_nonneg a) hs.le) (sub_nonneg.2 hsg)
  rcases le_total (y - a * s) 0 with c | c
  · rw [max_eq_left c]
    have e4 : 0 ≤ a * (a * g - y) := mul_nonneg ha (sub_nonneg.2 hy)
    have e5 : 0 ≤ a * (a * s - y) := mul_nonneg ha (by linarith)
    have e6 : 0 ≤ a * a * s := mul_nonneg (mul_nonneg ha ha) hs.le
    nlinarith [e0, e4, e5, e6, mul_nonneg e4 (sub_nonneg.2 hg), mul_nonneg e5 (sub_nonneg.2 hg)]
  · rw [max_eq_right c]
    have e7 : 0 ≤ (a * g - y) * (a * s) := mul_nonneg (sub_nonneg.2 hy) (mul_nonneg ha hs.le)
    nlinarith [e0, e3, e7, sq_nonneg (a * g - y)]

/-- concave regime: on `[a, aγ]` an end point is at least as good -/
theorem scadB_mid {a g s y u ρ : ℝ} (ha : 0 ≤ a) (hg : 1 < g) (hρ : s = ρ * (g - 1)) (hρ1 : 1 ≤ ρ)
    (h1 : a ≤ u) (h2 : u ≤ a * g) :
    scadF a g s y a ≤ scadF a g s y u ∨ scadF a g s y (a * g) ≤ scadF a g s y u := by
  have hag : a ≤ a * g := by nlinarith
  have h0 : 0 ≤ u := by linarith
  rw [scadF_mid hg hρ h0 h1 h2, scadF_mid hg hρ ha (le_refl _) hag,
    scadF_mid hg hρ (by linarith) hag (le_refl _)]
  rcases le_total 0 ((1 - ρ) * (u + a) - 2 * y + 2 * ρ * a * g) with hb | hb
  · left
    nlinarith [mul_nonneg (sub_nonneg.2 h1) hb]
  · right
    have hb' : (1 - ρ) * (u + a * g) - 2 * y + 2 * ρ * a * g ≤ 0 := by
      nlinarith [mul_nonneg (sub_nonneg.2 hρ1) (sub_nonneg.2 hag)]
    nlinarith [mul_nonneg (sub_nonneg.2 h2) (neg_nonneg.2 hb')]

/-! ### one of the three candidates beats any `u ≥ 0` -/

/-- concave regime (`γ - 1 ≤ s`, `γ = 1` included) -/
theorem scadB_min3 {a g s y u : ℝ} (hs : 0 < s) (ha : 0 ≤ a) (hg : 1 ≤ g) (hsg : g - 1 ≤ s)
    (h0 : 0 ≤ u) :
    scadF a g s y (max 0 (y - a * s)) ≤ scadF a g s y u ∨ scadF a g s y y ≤ scadF a g s y u := by
  have hag' : a * g ≤ a * (1 + s) := mul_le_mul_of_nonneg_left (by linarith) ha
  have hag : a ≤ a * g := by nlinarith
  have lo : ∀ w, 0 ≤ w → w ≤ a →
      scadF a g s y (max 0 (y - a * s)) ≤ scadF a g s y w ∨ scadF a g s y y ≤ scadF a g s y w := by
    intro w hw0 hw
    rcases le_or_gt y (a * (1 + s)) with c | c
    · exact Or.inl (scad_x1_lo ha c hw0 hw)
    · exact Or.inr (scadB_x3_lo hs ha hg hsg c hw0 hw)
  have hi : ∀ w, a * g ≤ w →
      scadF a g s y (max 0 (y - a * s)) ≤ scadF a g s y w ∨ scadF a g s y y ≤ scadF a g s y w := by
    intro w hw
    rcases le_total y (a * g) with c | c
    · exact Or.inl (scadB_x1_hi hs ha hg hsg c hw)
    · exact Or.inr (scad_x3_hi ha hg c hw)
  rcases le_total u a with h1 | h1
  · exact lo u h0 h1
  rcases le_total (a * g) u with h2 | h2
  · exact hi u h2
  by_cases hg1 : 1 < g
  · obtain ⟨ρ, hρd⟩ : ∃ ρ, ρ = s / (g - 1) := ⟨_, rfl⟩
    have hk : 0 < g - 1 := by linarith
    have hρ : s = ρ * (g - 1) := by rw [hρd]; field_simp
    have hρ1 : 1 ≤ ρ := by rw [hρd, le_div_iff₀ hk]; linarith
    rcases scadB_mid (y := y) ha hg1 hρ hρ1 h1 h2 with hm | hm
    · rcases lo a ha (le_refl _) with c | c
      · exact Or.inl (le_trans c hm)
      · exact Or.inr (le_trans c hm)
    · rcases hi (a * g) (le_refl _) with c | c
      · exact Or.inl (le_trans c hm)
      · exact Or.inr (le_trans c hm)
  · have e : g = 1 := le_antisymm (not_lt.mp hg1) hg
    subst e
    exact lo u h0 (by linarith)

/-- convex regime (`s < γ - 1`); `c₂` is the stationary point of the middle parabola -/
theorem scadA_min3 {a g s y u : ℝ} (hs : 0 < s) (ha : 0 ≤ a) (hsg : s < g - 1) (h0 : 0 ≤ u) :
    scadF a g s y (max 0 (y - a * s)) ≤ scadF a g s y u ∨
      scadF a g s y |((g - 1) * y - s * (g * a)) / (g - 1 - s)| ≤ scadF a g s y u ∨
      scadF a g s y y ≤ scadF a g s y u := by
  have hg : 1 < g := by linarith
  have hk : 0 < g - 1 := by linarith
  have hag : a ≤ a * g := by nlinarith
  obtain ⟨ρ, hρd⟩ : ∃ ρ, ρ = s / (g - 1) := ⟨_, rfl⟩
  have hρ : s = ρ * (g - 1) := by rw [hρd]; field_simp
  have hρ0 : 0 < ρ := by rw [hρd]; exact div_pos hs hk
  have hρ1 : ρ < 1 := by rw [hρd, div_lt_one hk]; exact hsg
  rcases le_total y (a * (1 + s)) with c1 | c1
  · -- `x₁ ∈ [0, a]` is optimal
    left
    rcases le_total u a with h1 | h1
    · exact scad_x1_lo ha c1 h0 h1
    · exact le_trans (scad_x1_lo ha c1 ha (le_refl _))
        (scadA_a_le ha hg hρ hρ0.le hρ1.le c1 h1)
  rcases le_total y (a * g) with c2 | c2
  · -- the stationary point of the middle piece lies in `[a, aγ]` and is optimal
    right; left
    obtain ⟨c, hcd⟩ : ∃ c, c = ((g - 1) * y - s * (g * a)) / (g - 1 - s) := ⟨_, rfl⟩
    have hd : 0 < g - 1 - s := by linarith
    have hd' : g - 1 - s = (1 - ρ) * (g - 1) := by rw [hρ]; ring
    have hcy : y = (1 - ρ) * c + ρ * (a * g) := by
      have h := (eq_div_iff hd.ne').1 hcd
      apply mul_right_cancel₀ hk.ne'
      linear_combination (-1) * h + (g * a - c) * hρ
    have hc1 : a ≤ c := by
      rw [hcd, le_div_iff₀ hd]; nlinarith
    have hc2 : c ≤ a * g := by
      rw [hcd, div_le_iff₀ hd]; nlinarith
    rw [← hcd, abs_of_nonneg (by linarith)]
    exact scadA_x2 ha hg hρ hρ0.le hρ1 hcy hc1 hc2 h0
  · -- `x₃ = y ≥ aγ` is optimal
    right; right
    rcases le_total (a * g) u with h2 | h2
    · exact scad_x3_hi ha hg.le c2 h2
    · exact le_trans (scad_x3_hi ha hg.le c2 (le_refl _))
        (scadA_le_ag ha hg hρ hρ0.le hρ1.le c2 h0 h2)

/-- for every `s > 0`, `a ≥ 0`, `γ ≥ 1`: one of the three candidates of `prox_SCAD` is at least as
    good as any `u ≥ 0` -/
theorem scad_min3 {a g s y u : ℝ} (hs : 0 < s) (ha : 0 ≤ a) (hg : 1 ≤ g) (h0 : 0 ≤ u) :
    scadF a g s y (max 0 (y - a * s)) ≤ scadF a g s y u ∨
      scadF a g s y |((g - 1) * y - s * (g * a)) / (g - 1 - s)| ≤ scadF a g s y u ∨
      scadF a g s y y ≤ scadF a g s y u := by
  rcases lt_or_ge s (g - 1) with c | c
  · exact scadA_min3 hs ha c h0
  · rcases scadB_min3 hs ha hg c h0 with h | h
    · exact Or.inl h
    · exact Or.inr (Or.inr h)

/-! ### the model's selection -/

/-- the objective the code evaluates on each candidate -/
noncomputable def scadObj (s a g av t : ℝ) : ℝ :=
  (frac 1 2 / s) * ((t - av) * (t - av)) + pen_SCAD t a g

theorem scadObj_eq (s a g av t : ℝ) (hs : 0 < s) : scadObj s a g av t = scadF a g s av t / s := by
  unfold scadObj scadF
  rw [pen_SCAD_eq, frac_eq]
  have : s ≠ 0 := hs.ne'
  field_simp
  push_cast
  ring

theorem scadObj_le_iff {s a g av t t' : ℝ} (hs : 0 < s) :
    scadObj s a g av t ≤ scadObj s a g av t' ↔ scadF a g s av t ≤ scadF a g s av t' := by
  rw [scadObj_eq _ _ _ _ _ hs, scadObj_eq _ _ _ _ _ hs, div_le_div_iff_of_pos_right hs]

/-- `np.argmin` over three values, first minimum wins -/
theorem argmin3 (f : ℝ → ℝ) (x1 x2 x3 : ℝ) [Decidable (f x2 < f x1)] [Decidable (f x3 < f x2)]
    [Decidable (f x3 < f x1)] :
    let b := if f x2 < f x1 then (if f x3 < f x2 then x3 else x2)
      else (if f x3 < f x1 then x3 else x1)
    (b = x1 ∨ b = x2 ∨ b = x3) ∧ f b ≤ f x1 ∧ f b ≤ f x2 ∧ f b ≤ f x3 := by
  intro b
  simp only [b]
  split_ifs with c1 c2 c3
  · exact ⟨Or.inr (Or.inr rfl), by linarith, by linarith, le_refl _⟩
  · exact ⟨Or.inr (Or.inl rfl), by linarith, le_refl _, by linarith⟩
  · exact ⟨Or.inr (Or.inr rfl), by linarith, by linarith, le_refl _⟩
  · exact ⟨Or.inl rfl, le_refl _, by linarith, by linarith⟩

/-- shape of the returned value: `sign(x)·b` with `b ≥ 0` at least as good as any `u ≥ 0` -/
theorem prox_SCAD_best (x s a g : ℝ) (hs : 0 < s) (ha : 0 ≤ a) (hg : 1 ≤ g) :
    ∃ b, 0 ≤ b ∧ prox_SCAD x s a g = sgn x * b ∧
      ∀ u, 0 ≤ u → scadF a g s |x| b ≤ scadF a g s |x| u := by
  obtain ⟨x1, hx1⟩ : ∃ x1, x1 = max 0 (|x| - a * s) := ⟨_, rfl⟩
  obtain ⟨x2, hx2⟩ : ∃ x2, x2 = |((g - 1) * |x| - s * (g * a)) / (g - 1 - s)| := ⟨_, rfl⟩
  have hshape : prox_SCAD x s a g = sgn x *
      (if scadObj s a g |x| x2 < scadObj s a g |x| x1 then
        (if scadObj s a g |x| |x| < scadObj s a g |x| x2 then |x| else x2)
       else (if scadObj s a g |x| |x| < scadObj s a g |x| x1 then |x| else x1)) := by
    rw [hx1, hx2, ← sabs_eq x, ← smax_eq, ← sabs_eq (_ / _)]
    rfl
  obtain ⟨hb, h1, h2, h3⟩ := argmin3 (scadObj s a g |x|) x1 x2 |x|
  refine ⟨_, ?_, hshape, ?_⟩
  · rcases hb with e | e | e <;> rw [e]
    · rw [hx1]; exact le_max_left _ _
    · rw [hx2]; exact abs_nonneg _
    · exact abs_nonneg _
  · intro u hu
    rw [scadObj_le_iff hs] at h1 h2 h3
    rcases scad_min3 (y := |x|) hs ha hg hu with c | c | c
    · rw [← hx1] at c; exact le_trans h1 c
    · rw [← hx2] at c; exact le_trans h2 c
    · exact le_trans h3 c

theorem prox_SCAD_nonneg (x s a g : ℝ) (hs : 0 < s) (ha : 0 ≤ a) (hg : 1 ≤ g) (hx : 0 ≤ x) :
    0 ≤ prox_SCAD x s a g ∧ (x = 0 → prox_SCAD x s a g = 0) := by
  obtain ⟨b, hb, hr, _⟩ := prox_SCAD_best x s a g hs ha hg
  rw [hr]
  constructor
  · rcases eq_or_lt_of_le hx with h | h
    · rw [← h, sgn_zero, zero_mul]
    · rw [sgn_pos h, one_mul]; exact hb
  · intro h; rw [h, sgn_zero, zero_mul]

/-- **SCAD**: the value returned by `prox_SCAD` minimises `v ↦ ½(v - x)² + s·scad(v)` over ℝ, for
    every step `s > 0`, every `a ≥ 0`, every `γ ≥ 1`. -/
theorem prox_SCAD_prox (x s a g v : ℝ) (hs : 0 < s) (ha : 0 ≤ a) (hg : 1 ≤ g) :
    (prox_SCAD x s a g - x) ^ 2 / 2 + s * scad a g (prox_SCAD x s a g)
      ≤ (v - x) ^ 2 / 2 + s * scad a g v := by
  obtain ⟨b, hb, hr, hmin⟩ := prox_SCAD_best x s a g hs ha hg
  have hv := hmin |v| (abs_nonneg v)
  unfold scadF at hv
  rw [scad_abs] at hv
  have hsq : (|v| - |x|) ^ 2 ≤ (v - x) ^ 2 := by
    rw [← sq_abs (|v| - |x|), ← sq_abs (v - x)]
    exact pow_le_pow_left₀ (abs_nonneg _) (abs_abs_sub_abs_le_abs_sub v x) 2
  rw [hr]
  rcases lt_trichotomy x 0 with hx | hx | hx
  · rw [sgn_neg hx]
    rw [abs_of_neg hx] at hv hsq
    have e : scad a g (-1 * b) = scad a g b := by
      rw [← scad_abs, neg_one_mul, abs_neg, abs_of_nonneg hb]
    rw [e]
    nlinarith
  · subst hx
    rw [sgn_zero, zero_mul, scad_lo (le_refl _) ha]
    have := scad_nonneg a g v ha hg
    nlinarith [sq_nonneg v, mul_nonneg hs.le this]
  · rw [sgn_pos hx, one_mul]
    rw [abs_of_pos hx] at hv hsq
    linarith

/-- `ProxLe` form, any step -/
theorem prox_scad_of (a g wt x s : ℝ) (hs : 0 < s) (ha : 0 ≤ a) (hg : 1 ≤ g) (v : ℝ) :
    ProxLe (.scad a g) wt x s ((SepPen.scad a g).prox1 wt x s) v := by
  show ProxLe (.scad a g) wt x s (prox_SCAD x s a g) v
  refine proxLe_of (pen_scad a g wt _) ?_
  intro pv hpv
  rw [pen_scad] at hpv
  obtain rfl := Option.some.inj hpv
  exact prox_SCAD_prox x s a g v hs ha hg

theorem prox_scad (a g : ℝ) (wt x s : ℝ) (h : Admissible (.scad a g) wt s) (v : ℝ) :
    ProxLe (.scad a g) wt x s ((SepPen.scad a g).prox1 wt x s) v := by
  obtain ⟨hs, _, ha, hg, _⟩ := h
  exact prox_scad_of a g wt x s hs ha (by linarith) v

/-! ### the block version -/

/-- block SCAD: radial reduction to `prox_SCAD` on the norm, zero block included -/
theorem prox_bscad {k : Nat} (a g s : ℝ) (wf x v : Fin k → ℝ) (ha : 0 ≤ a) (hg : 1 ≤ g) (hs : 0 < s) :
    let r := (BlkPen.bscad a g).proxBlk 1 wf x s
    halfSq x r + s * Spec.scad a g (norm2 r) ≤ halfSq x v + s * Spec.scad a g (norm2 v) := by
  intro r
  have hr : r = BlkPen.radial x (norm2 x) (prox_SCAD (norm2 x) s a g) := rfl
  obtain ⟨hc, hc0⟩ := prox_SCAD_nonneg (norm2 x) s a g hs ha hg (norm2_nonneg x)
  have hx : norm2 x ≠ 0 ∨ prox_SCAD (norm2 x) s a g = 0 := by
    by_cases hn : norm2 x = 0
    · exact Or.inr (hc0 hn)
    · exact Or.inl hn
  rw [hr]
  refine radial_prox (Spec.scad a g) x v s _ hc hx ?_
  intro t _
  exact prox_SCAD_prox (norm2 x) s a g t hs ha hg

/-! ### sharpness in `γ` -/

/-- below `γ = 1` the documented penalty jumps *down* at `|t| = a` and the three candidates miss
    the minimiser: `a = 1, γ = 1/2, x = 1, s = 1/4` returns `3/4` (objective `7/32`), while
    `v = 9/8` has objective `25/128`. -/
theorem prox_scad_range_sharp :
    ∃ a g x s v : ℝ, 0 < s ∧ 0 ≤ a ∧ g < 1 ∧
      ¬ ProxLe (.scad a g) 1 x s ((SepPen.scad a g).prox1 1 x s) v := by
  refine ⟨1, 1 / 2, 1, 1 / 4, 9 / 8, by norm_num, by norm_num, by norm_num, ?_⟩
  have e1 : scad 1 (1 / 2) (3 / 4) = 3 / 4 := by
    rw [scad_lo (by norm_num) (by norm_num)]; norm_num
  have e2 : scad 1 (1 / 2) (5 / 6) = 5 / 6 := by
    rw [scad_lo (by norm_num) (by norm_num)]; norm_num
  have e3 : scad 1 (1 / 2) 1 = 1 := by
    rw [scad_lo (by norm_num) (by norm_num)]; norm_num
  have e4 : scad 1 (1 / 2) (9 / 8) = 3 / 4 := by
    unfold scad
    rw [abs_of_pos (by norm_num), if_neg (by norm_num), if_neg (by norm_num)]; norm_num
  have hu : (SepPen.scad (1:ℝ) (1 / 2)).prox1 1 1 (1 / 4) = 3 / 4 := by
    show prox_SCAD (1:ℝ) (1 / 4) 1 (1 / 2) = 3 / 4
    have hshape : prox_SCAD (1:ℝ) (1 / 4) 1 (1 / 2) = sgn (1:ℝ) *
        (if scadObj (1 / 4) 1 (1 / 2) 1 (5 / 6) < scadObj (1 / 4) 1 (1 / 2) 1 (3 / 4) then
          (if scadObj (1 / 4) 1 (1 / 2) 1 1 < scadObj (1 / 4) 1 (1 / 2) 1 (5 / 6) then 1 else 5 / 6)
         else (if scadObj (1 / 4) 1 (1 / 2) 1 1 < scadObj (1 / 4) 1 (1 / 2) 1 (3 / 4) then 1
          else 3 / 4)) := by
      have a1 : sabs (1:ℝ) = 1 := by rw [sabs_eq]; norm_num
      have a2 : smax (0:ℝ) (1 - 1 * (1 / 4)) = 3 / 4 := by rw [smax_eq]; norm_num
      have a3 : sabs (((1 / 2 - 1) * 1 - 1 / 4 * (1 / 2 * 1)) / (1 / 2 - 1 - 1 / 4) : ℝ) = 5 / 6 := by
        rw [sabs_eq]; norm_num
      unfold prox_SCAD
      simp only [a1, a2, a3]
      rfl
    have o1 : scadObj (1 / 4) 1 (1 / 2) 1 (3 / 4) = 7 / 8 := by
      rw [scadObj_eq _ _ _ _ _ (by norm_num)]; unfold scadF; rw [e1]; norm_num
    have o2 : scadObj (1 / 4) 1 (1 / 2) 1 (5 / 6) = 8 / 9 := by
      rw [scadObj_eq _ _ _ _ _ (by norm_num)]; unfold scadF; rw [e2]; norm_num
    have o3 : scadObj (1 / 4) 1 (1 / 2) 1 1 = 1 := by
      rw [scadObj_eq _ _ _ _ _ (by norm_num)]; unfold scadF; rw [e3]; norm_num
    rw [hshape, o1, o2, o3, sgn_pos one_pos, if_neg (by norm_num), if_neg (by norm_num)]
    norm_num
  rw [hu]
  unfold ProxLe
  rw [pen_scad, pen_scad, e1, e4]
  norm_num

end Skglm.Proofs
