import Skglm.Spec.Penalties
import Skglm.Proofs.ProxAux
/-
  Lemmas behind C07: each closed-form prox of the model is a global minimiser of the prox
  objective over ℝ.
-/
namespace Skglm.Proofs
open Skglm Skglm.Spec

/-- feasibility of the candidate and of the competitor, shared by the positive penalties -/
private theorem pos_side {pos : Bool} {u v : ℝ} {A B : ℝ} (hu : pos = true → 0 ≤ u) :
    (if pos = true ∧ u < 0 then none else some A) = some A ∧
    ∀ pv, (if pos = true ∧ v < 0 then none else some B) = some pv →
      pv = B ∧ (pos = true → 0 ≤ v) := by
  constructor
  · rw [if_neg]; rintro ⟨hp, hlt⟩; exact absurd (hu hp) (not_le.mpr hlt)
  · intro pv h
    split_ifs at h with hc
    refine ⟨(Option.some.inj h).symm, fun hp => ?_⟩
    by_contra hneg
    exact hc ⟨hp, not_le.mp hneg⟩

theorem prox_l1 (a : ℝ) (pos : Bool) (wt x s : ℝ) (h : Admissible (.l1 a pos) wt s) (v : ℝ) :
    ProxLe (.l1 a pos) wt x s ((SepPen.l1 a pos).prox1 wt x s) v := by
  obtain ⟨hs, _, ha⟩ := h
  have ht : 0 ≤ a * s := mul_nonneg ha hs.le
  show ProxLe (.l1 a pos) wt x s (ST x (a * s) pos) v
  have hu : pos = true → 0 ≤ ST x (a * s) pos := fun hp => by rw [hp]; exact ST_pos_nonneg x _
  obtain ⟨h1, h2⟩ := pos_side (v := v) (A := a * |ST x (a * s) pos|) (B := a * |v|) hu
  refine proxLe_of (by rw [pen_l1]; exact h1) ?_
  intro pv hpv
  rw [pen_l1] at hpv
  obtain ⟨rfl, hv⟩ := h2 pv hpv
  have := ST_div_prox x (a * s) 1 v pos ht one_pos hv
  simp only [div_one, sub_self, zero_mul, zero_div, add_zero] at this
  linarith

theorem prox_wl1 (a : ℝ) (pos : Bool) (wt x s : ℝ) (h : Admissible (.wl1 a pos) wt s) (v : ℝ) :
    ProxLe (.wl1 a pos) wt x s ((SepPen.wl1 a pos).prox1 wt x s) v := by
  obtain ⟨hs, hwt, ha⟩ := h
  have ht : 0 ≤ a * s * wt := mul_nonneg (mul_nonneg ha hs.le) hwt
  show ProxLe (.wl1 a pos) wt x s (ST x (a * s * wt) pos) v
  have hu : pos = true → 0 ≤ ST x (a * s * wt) pos :=
    fun hp => by rw [hp]; exact ST_pos_nonneg x _
  obtain ⟨h1, h2⟩ := pos_side (v := v) (A := a * wt * |ST x (a * s * wt) pos|)
    (B := a * wt * |v|) hu
  refine proxLe_of (by rw [pen_wl1]; exact h1) ?_
  intro pv hpv
  rw [pen_wl1] at hpv
  obtain ⟨rfl, hv⟩ := h2 pv hpv
  have := ST_div_prox x (a * s * wt) 1 v pos ht one_pos hv
  simp only [div_one, sub_self, zero_mul, zero_div, add_zero] at this
  linarith

theorem prox_l1l2 (a r : ℝ) (pos : Bool) (wt x s : ℝ) (h : Admissible (.l1l2 a r pos) wt s) (v : ℝ) :
    ProxLe (.l1l2 a r pos) wt x s ((SepPen.l1l2 a r pos).prox1 wt x s) v := by
  obtain ⟨hs, _, ha, hr0, hr1⟩ := h
  have ht : 0 ≤ r * a * s := mul_nonneg (mul_nonneg hr0 ha) hs.le
  have hk : 0 ≤ s * (1 - r) * a := mul_nonneg (mul_nonneg hs.le (by linarith)) ha
  have hD : 0 < 1 + s * (1 - r) * a := by linarith
  show ProxLe (.l1l2 a r pos) wt x s (ST x (r * a * s) pos / (1 + s * (1 - r) * a)) v
  have hu : pos = true → 0 ≤ ST x (r * a * s) pos / (1 + s * (1 - r) * a) :=
    fun hp => by rw [hp]; exact div_nonneg (ST_pos_nonneg x _) hD.le
  obtain ⟨h1, h2⟩ := pos_side (v := v)
    (A := a * (r * |ST x (r * a * s) pos / (1 + s * (1 - r) * a)|
      + (1 - r) * (ST x (r * a * s) pos / (1 + s * (1 - r) * a)) ^ 2 / 2))
    (B := a * (r * |v| + (1 - r) * v ^ 2 / 2)) hu
  refine proxLe_of (by rw [pen_l1l2]; exact h1) ?_
  intro pv hpv
  rw [pen_l1l2] at hpv
  obtain ⟨rfl, hv⟩ := h2 pv hpv
  have := ST_div_prox x (r * a * s) (1 + s * (1 - r) * a) v pos ht hD hv
  linarith

theorem prox_mcp (a g : ℝ) (pos : Bool) (wt x s : ℝ) (h : Admissible (.mcp a g pos) wt s) (v : ℝ) :
    ProxLe (.mcp a g pos) wt x s ((SepPen.mcp a g pos).prox1 wt x s) v := by
  obtain ⟨hs, _, ha, hg, hsg⟩ := h
  show ProxLe (.mcp a g pos) wt x s (prox_MCP x s a g pos 1) v
  have hu : pos = true → 0 ≤ prox_MCP x s a g pos 1 :=
    fun hp => by rw [hp]; exact prox_MCP_pos_nonneg x s a g 1 (by rw [one_mul, sub_pos, div_lt_one hg]; exact hsg)
  obtain ⟨h1, h2⟩ := pos_side (v := v) (A := mcp a g (prox_MCP x s a g pos 1))
    (B := mcp a g v) hu
  refine proxLe_of (by rw [pen_mcp]; exact h1) ?_
  intro pv hpv
  rw [pen_mcp] at hpv
  obtain ⟨rfl, hv⟩ := h2 pv hpv
  have := prox_MCP_prox x s a g 1 v pos (by linarith) ha hg (by linarith) hv
  rw [one_mul] at this
  exact this

theorem prox_wmcp (a g : ℝ) (pos : Bool) (wt x s : ℝ) (h : Admissible (.wmcp a g pos) wt s) (v : ℝ) :
    ProxLe (.wmcp a g pos) wt x s ((SepPen.wmcp a g pos).prox1 wt x s) v := by
  obtain ⟨hs, hwt, ha, hg, hsg⟩ := h
  show ProxLe (.wmcp a g pos) wt x s (prox_MCP x s a g pos wt) v
  have hu : pos = true → 0 ≤ prox_MCP x s a g pos wt :=
    fun hp => by rw [hp]; exact prox_MCP_pos_nonneg x s a g wt (by rw [sub_pos, div_lt_one hg]; exact hsg)
  obtain ⟨h1, h2⟩ := pos_side (v := v) (A := wt * mcp a g (prox_MCP x s a g pos wt))
    (B := wt * mcp a g v) hu
  refine proxLe_of (by rw [pen_wmcp]; exact h1) ?_
  intro pv hpv
  rw [pen_wmcp] at hpv
  obtain ⟨rfl, hv⟩ := h2 pv hpv
  have := prox_MCP_prox x s a g wt v pos (mul_nonneg hwt hs.le) ha hg hsg hv
  nlinarith [this]

theorem prox_box (a : ℝ) (wt x s : ℝ) (h : Admissible (.box a) wt s) (v : ℝ) :
    ProxLe (.box a) wt x s ((SepPen.box a).prox1 wt x s) v := by
  obtain ⟨_, _, ha⟩ := h
  show ProxLe (.box a) wt x s (box_proj x 0 a) v
  obtain ⟨hu0, hua, hmin⟩ := box_proj_prox x a v ha
  refine proxLe_of (pu := 0) (by rw [pen_box, if_pos ⟨hu0, hua⟩]) ?_
  intro pv hpv
  rw [pen_box] at hpv
  split_ifs at hpv with hc
  obtain rfl := Option.some.inj hpv
  have := hmin hc.1 hc.2
  linarith

theorem prox_pos (wt x s : ℝ) (h : Admissible (.pos) wt s) (v : ℝ) :
    ProxLe (.pos) wt x s ((SepPen.pos : SepPen ℝ).prox1 wt x s) v := by
  have _ := h
  show ProxLe (.pos) wt x s (smax 0 x) v
  rw [smax_eq]
  refine proxLe_of (pu := 0) (by rw [pen_pos, if_neg (not_lt.mpr (le_max_left 0 x))]) ?_
  intro pv hpv
  rw [pen_pos] at hpv
  split_ifs at hpv with hc
  obtain rfl := Option.some.inj hpv
  have hv : 0 ≤ v := not_lt.mp hc
  rcases le_total 0 x with hx | hx
  · rw [max_eq_right hx]; nlinarith [sq_nonneg (v - x)]
  · rw [max_eq_left hx]; nlinarith [mul_nonneg hv (neg_nonneg.2 hx), sq_nonneg v]

theorem prox_mcp_range_sharp :
    ∃ a g x s v : ℝ, 0 < s ∧ 0 < g ∧ g ≤ s ∧
      ¬ ProxLe (.mcp a g false) 1 x s ((SepPen.mcp a g false).prox1 1 x s) v := by
  refine ⟨1, 1, 3 / 2, 2, 3 / 2, by norm_num, by norm_num, by norm_num, ?_⟩
  have hu : (SepPen.mcp (1:ℝ) 1 false).prox1 1 (3 / 2) 2 = 0 := by
    show prox_MCP (3 / 2 : ℝ) 2 1 1 false 1 = 0
    unfold prox_MCP
    simp only [sabs_eq]
    rw [if_pos]
    left
    rw [abs_of_pos (by norm_num)]; norm_num
  rw [hu]
  unfold ProxLe
  rw [pen_mcp, pen_mcp]
  have e0 : mcp 1 1 0 = 0 := by rw [mcp_of_le (by norm_num)]; norm_num
  have e1 : mcp 1 1 (3 / 2) = 1 / 2 := by
    rw [mcp_of_gt (by rw [abs_of_pos (by norm_num)]; norm_num)]; norm_num
  simp only [Bool.false_eq_true, false_and, if_false, e0, e1]
  norm_num

end Skglm.Proofs
