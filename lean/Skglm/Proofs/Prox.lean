import Skglm.Spec.Penalties
/-
  Lemmas behind C07: each closed-form prox of the model is a global minimiser of the prox
  objective over ℝ.
-/
namespace Skglm.Proofs
open Skglm Skglm.Spec

theorem prox_l1 (a : ℝ) (pos : Bool) (wt x s : ℝ) (h : Admissible (.l1 a pos) wt s) (v : ℝ) :
    ProxLe (.l1 a pos) wt x s ((SepPen.l1 a pos).prox1 wt x s) v := by
  sorry

theorem prox_wl1 (a : ℝ) (pos : Bool) (wt x s : ℝ) (h : Admissible (.wl1 a pos) wt s) (v : ℝ) :
    ProxLe (.wl1 a pos) wt x s ((SepPen.wl1 a pos).prox1 wt x s) v := by
  sorry

theorem prox_l1l2 (a r : ℝ) (pos : Bool) (wt x s : ℝ) (h : Admissible (.l1l2 a r pos) wt s) (v : ℝ) :
    ProxLe (.l1l2 a r pos) wt x s ((SepPen.l1l2 a r pos).prox1 wt x s) v := by
  sorry

theorem prox_mcp (a g : ℝ) (pos : Bool) (wt x s : ℝ) (h : Admissible (.mcp a g pos) wt s) (v : ℝ) :
    ProxLe (.mcp a g pos) wt x s ((SepPen.mcp a g pos).prox1 wt x s) v := by
  sorry

theorem prox_wmcp (a g : ℝ) (pos : Bool) (wt x s : ℝ) (h : Admissible (.wmcp a g pos) wt s) (v : ℝ) :
    ProxLe (.wmcp a g pos) wt x s ((SepPen.wmcp a g pos).prox1 wt x s) v := by
  sorry

theorem prox_box (a : ℝ) (wt x s : ℝ) (h : Admissible (.box a) wt s) (v : ℝ) :
    ProxLe (.box a) wt x s ((SepPen.box a).prox1 wt x s) v := by
  sorry

theorem prox_pos (wt x s : ℝ) (h : Admissible (.pos) wt s) (v : ℝ) :
    ProxLe (.pos) wt x s ((SepPen.pos : SepPen ℝ).prox1 wt x s) v := by
  sorry

theorem prox_mcp_range_sharp :
    ∃ a g x s v : ℝ, 0 < s ∧ 0 < g ∧ g ≤ s ∧
      ¬ ProxLe (.mcp a g false) 1 x s ((SepPen.mcp a g false).prox1 1 x s) v := by
  sorry

end Skglm.Proofs
