import Skglm.Spec.Solver
import Skglm.Proofs.Datafits
import Skglm.Properties.C04
/-
  Lemmas behind the objective / descent / feasibility theorems of `Skglm.Proofs.CD`
  (`pen1_eq_spec`, `objective_eq_trueObj`, `objective_inf_of_infeasible`, `cdStep_descent`,
  `interceptMove_descent`, `acceptMove_descent`, `cdStep_feasible`, `acceptMove_feasible`).
-/
namespace Skglm.Proofs.CDB
open Skglm Skglm.Spec
variable {n p : Nat}

/-! ### `Ext` arithmetic -/

/-- the finite value (`0` for `inf`) -/
noncomputable def val : Ext ℝ → ℝ
  | .fin a => a
  | .inf => 0

theorem eq_fin_val {e : Ext ℝ} (h : e ≠ .inf) : e = .fin (val e) := by
  cases e with
  | fin a => rfl
  | inf => exact absurd rfl h

theorem add_inf_right (x : Ext ℝ) : Ext.add x .inf = .inf := by cases x <;> rfl
theorem add_inf_left (x : Ext ℝ) : Ext.add .inf x = .inf := by cases x <;> rfl

theorem le_inf (x : Ext ℝ) : Ext.le x .inf = true := by cases x <;> rfl

theorem le_refl' (x : Ext ℝ) : Ext.le x x = true := by
  cases x with
  | fin a => exact decide_eq_true (le_refl a)
  | inf => rfl

theorem ext_le_of_lt {x y : Ext ℝ} (h : Ext.lt x y = true) : Ext.le x y = true := by
  cases x with
  | fin a =>
    cases y with
    | fin b =>
      have h' : a < b := of_decide_eq_true h
      exact decide_eq_true h'.le
    | inf => rfl
  | inf => cases y <;> cases h

theorem ne_inf_of_lt {x y : Ext ℝ} (h : Ext.lt x y = true) : x ≠ .inf := by
  rintro rfl
  cases y <;> cases h

theorem fin_le_fin {a b : ℝ} (h : a ≤ b) : Ext.le (.fin a) (.fin b) = true := decide_eq_true h

theorem add_le_add_fin {a b : ℝ} (e : Ext ℝ) (h : a ≤ b) :
    Ext.le (Ext.add (.fin a) e) (Ext.add (.fin b) e) = true := by
  cases e with
  | fin c => exact fin_le_fin (by linarith)
  | inf => rfl

theorem esum_fin {m : Nat} (f : Fin m → Ext ℝ) (a : Fin m → ℝ) (h : ∀ j, f j = .fin (a j)) :
    esum f = .fin (∑ j, a j) := by
  unfold esum
  induction m with
  | zero => simp [Fin.foldl_zero]
  | succ m ih =>
    rw [Fin.foldl_succ_last, ih (fun j => f j.castSucc) (fun j => a j.castSucc) (fun j => h _), h,
      Fin.sum_univ_castSucc]
    rfl

theorem esum_inf {m : Nat} (f : Fin m → Ext ℝ) (h : ∃ j, f j = .inf) : esum f = .inf := by
  unfold esum
  induction m with
  | zero => obtain ⟨j, _⟩ := h; exact j.elim0
  | succ m ih =>
    rw [Fin.foldl_succ_last]
    obtain ⟨j, hj⟩ := h
    refine Fin.lastCases (fun hj => ?_) (fun k hk => ?_) j hj
    · rw [hj]; exact add_inf_right _
    · rw [ih (fun j => f j.castSucc) ⟨k, hk⟩]; exact add_inf_left _

theorem esum_of_no_inf {m : Nat} (f : Fin m → Ext ℝ) (h : ∀ j, f j ≠ .inf) :
    esum f = .fin (∑ j, val (f j)) :=
  esum_fin f _ (fun j => eq_fin_val (h j))

theorem toOption_isSome (e : Ext ℝ) : (Ext.toOption e).isSome = true ↔ e ≠ .inf := by
  cases e <;> simp [Ext.toOption]

theorem toOption_getD (e : Ext ℝ) : (Ext.toOption e).getD 0 = val e := by
  cases e <;> rfl

theorem eq_fin_of_toOption {e : Ext ℝ} {a : ℝ} (h : Ext.toOption e = some a) : e = .fin a := by
  cases e with
  | fin b => simp only [Ext.toOption, Option.some.injEq] at h; rw [h]
  | inf => cases h

/-! ### objective, feasibility -/

theorem pen1_eq_spec (pn : SepPen ℝ) (wt w : ℝ)
    (hg : ∀ a g pos, pn = .mcp a g pos ∨ pn = .wmcp a g pos → 0 < g) :
    Ext.toOption (pn.pen1 wt w) = pen pn wt w := by
  have hmcp : ∀ a g : ℝ, 0 < g → pen_MCP w a g = mcp a g w := by
    intro a g hg0
    simp only [pen_MCP, mcp, sabs_eq, nat_eq, Nat.cast_ofNat]
    by_cases h1 : |w| < g * a
    · rw [if_pos h1, if_pos (by rw [mul_comm]; exact h1.le)]
      ring
    · rw [if_neg h1]
      by_cases h2 : |w| ≤ a * g
      · rw [if_pos h2]
        have h3 : |w| = a * g := le_antisymm h2 (by rw [mul_comm]; exact not_lt.1 h1)
        have h4 : w ^ 2 = (a * g) ^ 2 := by rw [← h3, sq_abs]
        rw [h3, h4]
        field_simp
        ring
      · rw [if_neg h2]
        ring
  unfold SepPen.pen1 pen
  by_cases hc : pn.positive = true ∧ w < 0
  · rw [if_pos hc, if_pos hc]; rfl
  · rw [if_neg hc, if_neg hc]
    cases pn with
    | l1 a pos => simp only [Ext.toOption, sabs_eq]
    | l1l2 a r pos =>
      simp only [Ext.toOption, sabs_eq, nat_eq, Nat.cast_ofNat]
      congr 1; ring
    | wl1 a pos =>
      simp only [Ext.toOption, sabs_eq]
      congr 1; ring
    | mcp a g pos =>
      simp only [Ext.toOption, hmcp a g (hg a g pos (Or.inl rfl))]
    | wmcp a g pos =>
      simp only [Ext.toOption, hmcp a g (hg a g pos (Or.inr rfl))]
    | scad a g =>
      simp only [Ext.toOption, pen_SCAD, scad, sabs_eq, nat_eq, Nat.cast_ofNat]
      congr 1
      split_ifs <;> ring
    | box a =>
      simp only
      by_cases h1 : a < w
      · rw [if_pos h1, if_neg (by rintro ⟨_, h⟩; linarith)]; rfl
      · rw [if_neg h1]
        by_cases h2 : w < 0
        · rw [if_pos h2, if_neg (by rintro ⟨h, _⟩; linarith)]; rfl
        · rw [if_neg h2, if_pos ⟨not_lt.1 h2, not_lt.1 h1⟩]; rfl
    | l05 a =>
      simp only [Ext.toOption, sabs_eq, scalar_pow_eq, frac_eq, Nat.cast_one, Nat.cast_ofNat,
        Real.sqrt_eq_rpow]
    | l23 a =>
      simp only [Ext.toOption, sabs_eq, scalar_pow_eq, frac_eq, Nat.cast_ofNat]
    | logsum a e =>
      simp only [Ext.toOption, sabs_eq, scalar_log_eq]
    | pos => simp only [Ext.toOption]

theorem feasible_iff (P : CDProb ℝ n p) (w : Fin p → ℝ)
    (hg : ∀ a g pos, P.pen = .mcp a g pos ∨ P.pen = .wmcp a g pos → 0 < g) :
    Feasible P w ↔ ∀ j, P.pen.pen1 (P.wts j) (w j) ≠ .inf := by
  unfold Feasible
  refine forall_congr' (fun j => ?_)
  rw [← pen1_eq_spec _ _ _ hg, toOption_isSome]

theorem objective_eq_trueObj (P : CDProb ℝ n p) (s : CDState ℝ n p) (h : Consistent P s)
    (hf : Feasible P s.w)
    (hg : ∀ a g pos, P.pen = .mcp a g pos ∨ P.pen = .wmcp a g pos → 0 < g) :
    P.objective s = .fin (trueObj P s.w s.b) := by
  have hXw : s.Xw = linPred P s.w s.b := funext h
  unfold CDProb.objective SepPen.value trueObj
  rw [esum_of_no_inf _ ((feasible_iff P s.w hg).1 hf), hXw]
  show Ext.fin _ = Ext.fin _
  congr 2
  refine Finset.sum_congr rfl (fun j _ => ?_)
  rw [← pen1_eq_spec _ _ _ hg, toOption_getD]

theorem objective_inf_of_infeasible (P : CDProb ℝ n p) (s : CDState ℝ n p) (hf : ¬ Feasible P s.w)
    (hg : ∀ a g pos, P.pen = .mcp a g pos ∨ P.pen = .wmcp a g pos → 0 < g) :
    P.objective s = .inf := by
  rw [feasible_iff P s.w hg] at hf
  push Not at hf
  unfold CDProb.objective SepPen.value
  rw [esum_inf _ hf]
  rfl

theorem acceptMove_descent (P : CDProb ℝ n p) (s acc : CDState ℝ n p) :
    Ext.le (P.objective (P.acceptMove s acc)) (P.objective s) = true := by
  unfold CDProb.acceptMove
  split_ifs with h
  · exact ext_le_of_lt h
  · exact le_refl' _

theorem acceptMove_feasible (P : CDProb ℝ n p) (s acc : CDState ℝ n p) (hf : Feasible P s.w)
    (hg : ∀ a g pos, P.pen = .mcp a g pos ∨ P.pen = .wmcp a g pos → 0 < g) :
    Feasible P (P.acceptMove s acc).w := by
  unfold CDProb.acceptMove
  split_ifs with h
  · by_contra hnf
    exact ne_inf_of_lt h (objective_inf_of_infeasible P acc hnf hg)
  · exact hf

theorem pen_isSome_of (pn : SepPen ℝ) (wt u : ℝ) (h1 : ¬(pn.positive = true ∧ u < 0))
    (h2 : ∀ a, pn = .box a → 0 ≤ u ∧ u ≤ a) : (pen pn wt u).isSome = true := by
  unfold pen
  rw [if_neg h1]
  cases pn <;> try rfl
  simp only
  rw [if_pos (h2 _ rfl)]
  rfl

theorem pen_isSome_prox (pn : SepPen ℝ) (wt x st : ℝ) (hadm : Admissible pn wt st) :
    (pen pn wt (pn.prox1 wt x st)).isSome = true := by
  refine pen_isSome_of pn wt _ ?_ ?_
  · rintro ⟨hp, hlt⟩
    exact absurd (C04.prox1_nonneg pn wt x st hp hadm) (not_le.2 hlt)
  · rintro a rfl
    exact C04.prox_box_feasible a wt x st hadm.2.2

theorem cdStep_feasible (P : CDProb ℝ n p) (s : CDState ℝ n p) (j : Fin p) (hf : Feasible P s.w)
    (hadm : Admissible P.pen (P.wts j) (CDProb.stepsize (P.df.lipschitz P.X P.sw j))) :
    Feasible P (P.cdStep s j).w := by
  simp only [CDProb.cdStep]
  split_ifs with h
  · exact hf
  · intro k
    simp only [mat_eq]
    by_cases hk : k = j
    · subst hk
      rw [if_pos rfl]
      exact pen_isSome_prox _ _ _ _ hadm
    · rw [if_neg hk]
      exact hf k

/-! ### descent -/

theorem sum_ite_replace (A : Fin p → ℝ) (j : Fin p) (x : ℝ) :
    ∑ k, (if k = j then x else A k) = (∑ k, A k) - A j + x := by
  have e : ∀ k, (if k = j then x else A k) = A k + (if k = j then x - A j else 0) := by
    intro k
    by_cases hk : k = j
    · subst hk; simp
    · simp [hk]
  simp only [e, Finset.sum_add_distrib, Finset.sum_ite_eq', Finset.mem_univ, if_true]
  ring

theorem cdStep_descent (P : CDProb ℝ n p) (s : CDState ℝ n p) (j : Fin p) (hP : WellPosed P)
    (hL : 0 < P.df.lipschitz P.X P.sw j)
    (hprox : ProxOptimal P j (1 / P.df.lipschitz P.X P.sw j))
    (hg : ∀ a g pos, P.pen = .mcp a g pos ∨ P.pen = .wmcp a g pos → 0 < g) :
    Ext.le (P.objective (P.cdStep s j)) (P.objective s) = true := by
  obtain ⟨hsw, hN, hy, hdelta, c, hc⟩ := hP
  by_cases hinf : ∃ k, P.pen.pen1 (P.wts k) (s.w k) = .inf
  · have : P.objective s = .inf := by
      unfold CDProb.objective SepPen.value
      rw [esum_inf _ hinf]; rfl
    rw [this]; exact le_inf _
  push Not at hinf
  have hst : CDProb.stepsize (P.df.lipschitz P.X P.sw j) = 1 / P.df.lipschitz P.X P.sw j := by
    unfold CDProb.stepsize
    rw [if_pos ((nz_iff _).2 hL.ne')]
  simp only [CDProb.cdStep, hst]
  generalize hLd : P.df.lipschitz P.X P.sw j = L at hL hprox
  generalize hgd : P.df.gradScalar P.X P.sw P.y s.Xw j = g
  generalize hnew : P.pen.prox1 (P.wts j) (s.w j - g * (1 / L)) (1 / L) = new
  split_ifs with heq
  · exact le_refl' _
  -- the penalty terms
  set A : Fin p → ℝ := fun k => val (P.pen.pen1 (P.wts k) (s.w k)) with hA
  have hAk : ∀ k, P.pen.pen1 (P.wts k) (s.w k) = .fin (A k) := fun k => eq_fin_val (hinf k)
  have hold : pen P.pen (P.wts j) (s.w j) = some (A j) := by
    rw [← pen1_eq_spec _ _ _ hg, hAk j]; rfl
  have hpr := hprox (s.w j - g * (1 / L)) (s.w j)
  rw [hnew] at hpr
  unfold ProxLe at hpr
  rw [hold] at hpr
  cases hpn : pen P.pen (P.wts j) new with
  | none => rw [hpn] at hpr; exact hpr.elim
  | some pu =>
    rw [hpn] at hpr
    simp only at hpr
    have hnewfin : P.pen.pen1 (P.wts j) new = .fin pu := by
      apply eq_fin_of_toOption
      rw [pen1_eq_spec _ _ _ hg, hpn]
    -- prox inequality, multiplied by `L`
    have hLq : L * (1 / L) = 1 := by field_simp
    generalize 1 / L = q at hpr hLq
    have hkey : L / 2 * (new - s.w j) ^ 2 + (new - s.w j) * g + pu ≤ A j := by
      have h1 := mul_le_mul_of_nonneg_left hpr hL.le
      have e1 : L * ((new - (s.w j - g * q)) ^ 2 / 2 + q * pu)
          = L / 2 * (new - s.w j) ^ 2 + (new - s.w j) * g * (L * q) + (L * q) * (g ^ 2 * q) / 2
            + (L * q) * pu := by ring
      have e2 : L * ((s.w j - (s.w j - g * q)) ^ 2 / 2 + q * A j)
          = (L * q) * (g ^ 2 * q) / 2 + (L * q) * A j := by ring
      rw [e1, e2, hLq] at h1
      linarith
    -- the datafit part
    have hdat := coord_descent_lemma P.df c P.X P.sw P.y s.Xw s.w j (new - s.w j) hc hsw hN hy hdelta
    rw [hLd, hgd] at hdat
    have hw' : (fun k => if k = j then new else s.w k) = Function.update s.w j (s.w j + (new - s.w j)) := by
      funext k
      by_cases hk : k = j
      · subst hk; simp
      · simp [hk]
    -- assemble
    have hobj_s : P.objective s = .fin (P.df.value P.sw P.y s.Xw s.w + ∑ k, A k) := by
      unfold CDProb.objective SepPen.value
      rw [esum_fin _ A hAk]; rfl
    have hobj_new : P.objective
        { w := mat (fun k => if k = j then new else s.w k), b := s.b,
          Xw := mat (fun i => s.Xw i + (new - s.w j) * P.X i j) }
        = .fin (P.df.value P.sw P.y (fun i => s.Xw i + (new - s.w j) * P.X i j)
            (Function.update s.w j (s.w j + (new - s.w j))) + ∑ k, (if k = j then pu else A k)) := by
      unfold CDProb.objective SepPen.value
      simp only [mat_eq]
      rw [esum_fin _ (fun k => if k = j then pu else A k) (fun k => by
        by_cases hk : k = j
        · subst hk; simp only [if_true]; exact hnewfin
        · simp only [if_neg hk]; exact hAk k), hw']
      rfl
    rw [hobj_s, hobj_new, sum_ite_replace]
    apply fin_le_fin
    linarith

/-- `curvBound · interceptScale = 1` for every datafit with an intercept step (SVC excluded) -/
theorem curv_mul_scale (d : DF ℝ) (c : ℝ) (hc : d.curvBound = some c) (hsvc : d ≠ .svc) :
    c * d.interceptScale = 1 ∧ 0 ≤ c := by
  have _ := hsvc
  cases d <;> simp only [DF.curvBound, Option.some.injEq, reduceCtorEq] at hc <;>
    (subst hc; simp [DF.interceptScale])

/-- the sample weights sum to the normaliser -/
theorem sum_sw_eq_normaliser (d : DF ℝ) (sw : Fin n → ℝ) (hsvc : d ≠ .svc)
    (hsw1 : d ≠ .wquadratic → ∀ i, sw i = 1) : ∑ i, sw i = d.normaliser sw := by
  cases d
  case wquadratic => simp only [DF.normaliser, vsum_eq]
  case svc => exact absurd rfl hsvc
  all_goals
    rw [Finset.sum_congr rfl (fun i _ => hsw1 (by simp) i)]
    simp [DF.normaliser]

theorem interceptMove_descent (P : CDProb ℝ n p) (s : CDState ℝ n p) (hP : WellPosed P)
    (hsvc : P.df ≠ .svc) (hsw1 : P.df ≠ .wquadratic → ∀ i, P.sw i = 1) :
    Ext.le (P.objective (P.interceptMove s)) (P.objective s) = true := by
  obtain ⟨hsw, hN, hy, hdelta, c, hc⟩ := hP
  obtain ⟨hcs, hc0⟩ := curv_mul_scale P.df c hc hsvc
  have hS := sum_sw_eq_normaliser P.df P.sw hsvc hsw1
  unfold CDProb.objective CDProb.interceptMove
  simp only [mat_eq]
  apply add_le_add_fin
  rw [value_eq, value_eq]
  have hstep : P.df.interceptStep P.sw P.y s.Xw
      = P.df.interceptScale * ((∑ i, P.sw i * P.df.dloss1 (P.y i) (s.Xw i)) / P.df.normaliser P.sw) := by
    simp only [DF.interceptStep, DF.rawGrad, vsum_eq, Finset.sum_div]
  generalize hN' : P.df.normaliser P.sw = N at hN hS hstep
  generalize hsc : P.df.interceptScale = sc at hcs hstep
  set G := (∑ i, P.sw i * P.df.dloss1 (P.y i) (s.Xw i)) / N with hG
  have hh : s.b - P.df.interceptStep P.sw P.y s.Xw - s.b = -(sc * G) := by rw [hstep]; ring
  rw [hh]
  have hsum : ∑ i, P.sw i * P.df.loss1 (P.y i) (s.Xw i + -(sc * G))
      ≤ ∑ i, P.sw i * (P.df.loss1 (P.y i) (s.Xw i) + P.df.dloss1 (P.y i) (s.Xw i) * (-(sc * G))
          + c / 2 * (-(sc * G)) ^ 2) :=
    Finset.sum_le_sum (fun i _ => mul_le_mul_of_nonneg_left
      (loss1_smooth P.df c (P.y i) (s.Xw i) (-(sc * G)) hc (fun h => hy h i) hdelta) (hsw i))
  have hexp : ∑ i, P.sw i * (P.df.loss1 (P.y i) (s.Xw i) + P.df.dloss1 (P.y i) (s.Xw i) * (-(sc * G))
          + c / 2 * (-(sc * G)) ^ 2)
      = (∑ i, P.sw i * P.df.loss1 (P.y i) (s.Xw i))
        + (-(sc * G)) * (∑ i, P.sw i * P.df.dloss1 (P.y i) (s.Xw i))
        + c / 2 * (-(sc * G)) ^ 2 * ∑ i, P.sw i := by
    simp only [mul_add, Finset.sum_add_distrib, Finset.mul_sum]
    congr 1
    · congr 1
      refine Finset.sum_congr rfl (fun i _ => ?_)
      ring
    · refine Finset.sum_congr rfl (fun i _ => ?_)
      ring
  rw [hexp, hS] at hsum
  have hGN : ∑ i, P.sw i * P.df.dloss1 (P.y i) (s.Xw i) = G * N := by
    rw [hG]; field_simp
  rw [hGN] at hsum
  have hdiv : (∑ i, P.sw i * P.df.loss1 (P.y i) (s.Xw i + -(sc * G))) / N
      ≤ (∑ i, P.sw i * P.df.loss1 (P.y i) (s.Xw i)) / N + (-(sc * G)) * G + c / 2 * (-(sc * G)) ^ 2 := by
    rw [div_le_iff₀ hN]
    have : ((∑ i, P.sw i * P.df.loss1 (P.y i) (s.Xw i)) / N + (-(sc * G)) * G + c / 2 * (-(sc * G)) ^ 2) * N
        = (∑ i, P.sw i * P.df.loss1 (P.y i) (s.Xw i)) + -(sc * G) * (G * N) + c / 2 * (-(sc * G)) ^ 2 * N := by
      field_simp
    rw [this]
    exact hsum
  have hsc0 : 0 ≤ sc := by rw [← hsc]; exact (interceptScale_pos P.df).le
  have hneg : (-(sc * G)) * G + c / 2 * (-(sc * G)) ^ 2 ≤ 0 := by
    have e : (-(sc * G)) * G + c / 2 * (-(sc * G)) ^ 2 = -(sc * G ^ 2) + (c * sc) * (sc * G ^ 2) / 2 := by
      ring
    rw [e, hcs]
    have : 0 ≤ sc * G ^ 2 := mul_nonneg hsc0 (sq_nonneg _)
    linarith
  linarith

end Skglm.Proofs.CDB
