import Skglm.Model.Prox
import Skglm.Real
/-
  `prox_05` (the L0.5 prox, `utils/prox_funcs.py`): facts that hold for every real input.
  Above its threshold the returned value is `x` times a factor in `[1/3, 1]` (so it has the sign of
  `x`, is never larger than `x` in magnitude and is non-zero), below it the value is exactly zero;
  and the returned non-zero value is a stationary point of `z ↦ ½(z-x)² + u·√|z|`.
-/
namespace Skglm.Proofs
open Skglm

/-- the multiplicative factor of `prox_05` on the branch at or above the threshold -/
noncomputable def factor05 (x u : ℝ) : ℝ :=
  (2 : ℝ) / 3 * (1 + Real.cos ((2 : ℝ) / 3 * Real.arccos (-((3 : ℝ) ^ ((3 : ℝ) / 2) / 4) * u * |x| ^ (-((3 : ℝ) / 2)))))

theorem prox_05_below (x u : ℝ) (h : |x| < (3 : ℝ) / 2 * u ^ ((2 : ℝ) / 3)) : prox_05 x u = 0 := by
  unfold prox_05
  simp only [frac_eq, nat_eq, sabs_eq, scalar_pow_eq, scalar_cos_eq, scalar_acos_eq]
  push_cast
  rw [if_pos h]

theorem prox_05_above (x u : ℝ) (h : ¬ |x| < (3 : ℝ) / 2 * u ^ ((2 : ℝ) / 3)) :
    prox_05 x u = x * factor05 x u := by
  unfold prox_05 factor05
  simp only [frac_eq, nat_eq, sabs_eq, scalar_pow_eq, scalar_cos_eq, scalar_acos_eq]
  push_cast
  rw [if_neg h]
  ring

theorem factor05_bounds (x u : ℝ) (hu : 0 ≤ u) : (1 : ℝ) / 3 ≤ factor05 x u ∧ factor05 x u ≤ 1 := by
  unfold factor05
  set a := -((3 : ℝ) ^ ((3 : ℝ) / 2) / 4) * u * |x| ^ (-((3 : ℝ) / 2)) with ha
  have ha0 : a ≤ 0 := by
    have h1 : 0 ≤ (3 : ℝ) ^ ((3 : ℝ) / 2) := Real.rpow_nonneg (by norm_num) _
    have h2 : 0 ≤ |x| ^ (-((3 : ℝ) / 2)) := Real.rpow_nonneg (abs_nonneg x) _
    have h3 : 0 ≤ (3 : ℝ) ^ ((3 : ℝ) / 2) / 4 * u * |x| ^ (-((3 : ℝ) / 2)) := by positivity
    rw [ha]; nlinarith
  have h1 : Real.pi / 2 ≤ Real.arccos a := by
    have := Real.arcsin_nonpos.mpr ha0
    rw [Real.arccos_eq_pi_div_two_sub_arcsin]; linarith
  have h2 : Real.arccos a ≤ Real.pi := Real.arccos_le_pi a
  have hpi := Real.pi_pos
  have hc1 : Real.cos ((2 : ℝ) / 3 * Real.arccos a) ≤ 1 / 2 := by
    rw [← Real.cos_pi_div_three]
    apply Real.cos_le_cos_of_nonneg_of_le_pi <;> linarith
  have hc2 : -(1 / 2) ≤ Real.cos ((2 : ℝ) / 3 * Real.arccos a) := by
    have : Real.cos (2 * Real.pi / 3) = -(1 / 2) := by
      have : 2 * Real.pi / 3 = Real.pi - Real.pi / 3 := by ring
      rw [this, Real.cos_pi_sub, Real.cos_pi_div_three]
    rw [← this]
    apply Real.cos_le_cos_of_nonneg_of_le_pi <;> linarith
  constructor <;> linarith

/-- shrinkage, for every real `x` and every `u ≥ 0`, zero input included -/
theorem prox_05_shrinks (x u : ℝ) (hu : 0 ≤ u) :
    |prox_05 x u| ≤ |x| ∧ 0 ≤ prox_05 x u * x := by
  by_cases h : |x| < (3 : ℝ) / 2 * u ^ ((2 : ℝ) / 3)
  · rw [prox_05_below x u h]; simp
  · rw [prox_05_above x u h]
    obtain ⟨h1, h2⟩ := factor05_bounds x u hu
    have hf : 0 ≤ factor05 x u := by linarith
    constructor
    · rw [abs_mul, abs_of_nonneg hf]
      nlinarith [abs_nonneg x]
    · nlinarith [mul_self_nonneg x]

theorem prox_05_zero (u : ℝ) (hu : 0 ≤ u) : prox_05 (0 : ℝ) u = 0 := by
  have _ := hu
  by_cases h : |(0:ℝ)| < (3 : ℝ) / 2 * u ^ ((2 : ℝ) / 3)
  · exact prox_05_below 0 u h
  · rw [prox_05_above 0 u h]; simp

/-- above the threshold the value is non-zero (the support is decided by the threshold alone) -/
theorem prox_05_ne_zero (x u : ℝ) (hu : 0 < u) (h : ¬ |x| < (3 : ℝ) / 2 * u ^ ((2 : ℝ) / 3)) :
    prox_05 x u ≠ 0 := by
  rw [prox_05_above x u h]
  obtain ⟨h1, _⟩ := factor05_bounds x u hu.le
  have hp : 0 < u ^ ((2 : ℝ) / 3) := Real.rpow_pos_of_pos hu _
  have hx : 0 < |x| := by
    have := not_lt.mp h
    linarith
  have hx0 : x ≠ 0 := abs_pos.mp hx
  have hf : factor05 x u ≠ 0 := by linarith
  exact mul_ne_zero hx0 (by intro h0; rw [h0] at h1; linarith)

theorem rpow_three_halves (y : ℝ) (hy : 0 < y) : y ^ ((3 : ℝ) / 2) = y * Real.sqrt y := by
  rw [Real.sqrt_eq_rpow, show (3 : ℝ) / 2 = 1 + 1 / 2 by norm_num, Real.rpow_add hy, Real.rpow_one]

/-- STRETCH: first-order stationarity of the returned non-zero value for `x > 0`:
    with `z = prox_05 x u`, `z - x + u / (2 √z) = 0`. (Uses `cos 3θ = 4cos³θ - 3cosθ`.) -/
theorem prox_05_stationary (x u : ℝ) (hx : 0 < x) (hu : 0 < u)
    (h : ¬ |x| < (3 : ℝ) / 2 * u ^ ((2 : ℝ) / 3)) :
    prox_05 x u - x + u / (2 * Real.sqrt (prox_05 x u)) = 0 := by
  rw [prox_05_above x u h]
  unfold factor05
  rw [abs_of_pos hx] at h ⊢
  have h := not_lt.mp h
  rw [Real.rpow_neg hx.le, rpow_three_halves x hx, rpow_three_halves 3 (by norm_num)]
  set s := Real.sqrt x with hs
  set r := Real.sqrt 3 with hr
  have hs0 : 0 < s := Real.sqrt_pos.mpr hx
  have hr0 : 0 < r := Real.sqrt_pos.mpr (by norm_num)
  have hss : s * s = x := Real.mul_self_sqrt hx.le
  have hrr : r * r = 3 := Real.mul_self_sqrt (by norm_num)
  -- the threshold gives 27 u² ≤ 16 x³
  set q := u ^ ((2 : ℝ) / 3) with hq
  have hq0 : 0 ≤ q := Real.rpow_nonneg hu.le _
  have hq3 : q ^ 3 = u ^ 2 := by
    rw [hq, ← Real.rpow_natCast, ← Real.rpow_mul hu.le, ← Real.rpow_natCast]
    norm_num
  have hux : 27 * u ^ 2 ≤ 16 * x ^ 3 := by
    have : ((3 : ℝ) / 2 * q) ^ 3 ≤ x ^ 3 := pow_le_pow_left₀ (by positivity) h 3
    rw [mul_pow, hq3] at this
    nlinarith
  have h3 : 3 * r * u ≤ 4 * (x * s) := by
    by_contra hc
    have hc := not_le.mp hc
    have hpos : 0 < 4 * (x * s) := by positivity
    have : (4 * (x * s)) * (4 * (x * s)) < (3 * r * u) * (3 * r * u) := by nlinarith
    have e1 : (4 * (x * s)) * (4 * (x * s)) = 16 * x ^ 3 := by
      calc (4 * (x * s)) * (4 * (x * s)) = 16 * x ^ 2 * (s * s) := by ring
        _ = 16 * x ^ 3 := by rw [hss]; ring
    have e2 : (3 * r * u) * (3 * r * u) = 27 * u ^ 2 := by
      calc (3 * r * u) * (3 * r * u) = 9 * (r * r) * u ^ 2 := by ring
        _ = 27 * u ^ 2 := by rw [hrr]; ring
    rw [e1, e2] at this
    linarith
  set a := -(3 * r / 4) * u * (x * s)⁻¹ with ha
  have hxs : 0 < x * s := by positivity
  have ha_eq : a * (4 * (x * s)) = -(3 * r * u) := by
    rw [ha]; field_simp
  have ha0 : a ≤ 0 := by
    have : 0 ≤ 3 * r / 4 * u * (x * s)⁻¹ := by positivity
    rw [ha]; nlinarith
  have ha1 : -1 ≤ a := by
    by_contra hc
    have hc := not_le.mp hc
    nlinarith
  set φ := Real.arccos a with hφ
  have hcosφ : Real.cos φ = a := Real.cos_arccos ha1 (by linarith)
  have hφ1 : Real.pi / 2 ≤ φ := by
    have := Real.arcsin_nonpos.mpr ha0
    rw [hφ, Real.arccos_eq_pi_div_two_sub_arcsin]; linarith
  have hφ2 : φ ≤ Real.pi := Real.arccos_le_pi a
  have hpi := Real.pi_pos
  set c := Real.cos (φ / 3) with hc
  have hc0 : 0 < c := by
    apply Real.cos_pos_of_mem_Ioo
    constructor <;> linarith
  have h3c : 4 * c ^ 3 - 3 * c = a := by
    rw [← hcosφ, hc, ← Real.cos_three_mul]
    congr 1; ring
  have h2c : Real.cos ((2 : ℝ) / 3 * φ) = 2 * c ^ 2 - 1 := by
    rw [hc, ← Real.cos_two_mul]
    congr 1; ring
  rw [h2c]
  have hz : x * ((2 : ℝ) / 3 * (1 + (2 * c ^ 2 - 1))) = (2 * s * c / r) ^ 2 := by
    rw [div_pow, mul_pow, mul_pow, sq s, sq r, hss, hrr]; ring
  rw [hz, Real.sqrt_sq (by positivity)]
  have key : (4 * c ^ 3 - 3 * c) * (4 * (x * s)) = -(3 * r * u) := by rw [h3c]; exact ha_eq
  field_simp
  linear_combination key + 16 * c ^ 3 * s * hss + (r * u - 4 * s * c * x) * hrr

/-- block L0.5 (`prox_block_2_05`): every coordinate is shrunk, never enlarged or flipped -/
theorem prox_block_2_05_shrinks {n : Nat} (x : Fin n → ℝ) (u : ℝ) (hu : 0 ≤ u) (i : Fin n) :
    |prox_block_2_05 x u i| ≤ |x i| ∧ 0 ≤ prox_block_2_05 x u i * x i := by
  unfold prox_block_2_05
  show |prox_05 (norm2 x) u / norm2 x * x i| ≤ |x i| ∧ 0 ≤ prox_05 (norm2 x) u / norm2 x * x i * x i
  obtain ⟨h1, h2⟩ := prox_05_shrinks (norm2 x) u hu
  set nx := norm2 x with hnx
  set q := prox_05 nx u with hq
  have hr : |q / nx| ≤ 1 := by
    by_cases h0 : nx = 0
    · simp [h0]
    · rw [abs_div]; exact div_le_one_of_le₀ h1 (abs_nonneg _)
  have hs : 0 ≤ q / nx := by
    by_cases h0 : nx = 0
    · simp [h0]
    · have : q / nx = (q * nx) / (nx * nx) := by field_simp
      rw [this]; exact div_nonneg h2 (mul_self_nonneg _)
  constructor
  · rw [abs_mul]; calc |q / nx| * |x i| ≤ 1 * |x i| := by gcongr
      _ = |x i| := one_mul _
  · have : q / nx * x i * x i = (q / nx) * (x i * x i) := by ring
    rw [this]; exact mul_nonneg hs (mul_self_nonneg _)


end Skglm.Proofs
