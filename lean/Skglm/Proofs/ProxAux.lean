import Skglm.Spec.Penalties
/-
  Scalar lemmas behind `Skglm/Proofs/Prox.lean`: soft-thresholding (scaled), MCP, box projection.
-/
namespace Skglm.Proofs
open Skglm Skglm.Spec

/-! ### `ProxLe` plumbing -/

theorem proxLe_of {p : SepPen ℝ} {wt x s u v pu : ℝ} (hu : pen p wt u = some pu)
    (hv : ∀ pv, pen p wt v = some pv → (u - x) ^ 2 / 2 + s * pu ≤ (v - x) ^ 2 / 2 + s * pv) :
    ProxLe p wt x s u v := by
  unfold ProxLe
  rw [hu]
  cases h : pen p wt v with
  | none => trivial
  | some pv => exact hv pv h

theorem pen_l1 (a : ℝ) (pos : Bool) (wt u : ℝ) :
    pen (.l1 a pos) wt u = if pos = true ∧ u < 0 then none else some (a * |u|) := rfl
theorem pen_wl1 (a : ℝ) (pos : Bool) (wt u : ℝ) :
    pen (.wl1 a pos) wt u = if pos = true ∧ u < 0 then none else some (a * wt * |u|) := rfl
theorem pen_l1l2 (a r : ℝ) (pos : Bool) (wt u : ℝ) :
    pen (.l1l2 a r pos) wt u =
      if pos = true ∧ u < 0 then none else some (a * (r * |u| + (1 - r) * u ^ 2 / 2)) := rfl
theorem pen_mcp (a g : ℝ) (pos : Bool) (wt u : ℝ) :
    pen (.mcp a g pos) wt u = if pos = true ∧ u < 0 then none else some (mcp a g u) := rfl
theorem pen_wmcp (a g : ℝ) (pos : Bool) (wt u : ℝ) :
    pen (.wmcp a g pos) wt u = if pos = true ∧ u < 0 then none else some (wt * mcp a g u) := rfl
theorem pen_box (a : ℝ) (wt u : ℝ) :
    pen (.box a) wt u = if 0 ≤ u ∧ u ≤ a then some 0 else none := by
  simp [pen, SepPen.positive]
theorem pen_pos (wt u : ℝ) :
    pen (.pos) wt u = if u < 0 then none else some 0 := by
  simp [pen, SepPen.positive]

/-! ### soft-thresholding -/

theorem ST_pos_nonneg (x t : ℝ) : 0 ≤ ST x t true := by
  unfold ST
  split_ifs with h1 h2
  · linarith
  · simp at h2
  · exact le_refl _

/-- `ST x t pos / D` minimises `½(v-x)² + t|v| + (D-1)v²/2` (over `v ≥ 0` when `pos`). -/
theorem ST_div_prox (x t D v : ℝ) (pos : Bool) (ht : 0 ≤ t) (hD : 0 < D)
    (hv : pos = true → 0 ≤ v) :
    (ST x t pos / D - x) ^ 2 / 2 + t * |ST x t pos / D| + (D - 1) * (ST x t pos / D) ^ 2 / 2
      ≤ (v - x) ^ 2 / 2 + t * |v| + (D - 1) * v ^ 2 / 2 := by
  unfold ST
  split_ifs with h1 h2
  · obtain ⟨u, hu⟩ : ∃ u, u = (x - t) / D := ⟨_, rfl⟩
    rw [← hu]
    have hupos : 0 < u := by rw [hu]; exact div_pos (by linarith) hD
    have hx : x = D * u + t := by rw [hu]; field_simp; ring
    rw [abs_of_pos hupos]
    clear hu h1
    subst hx
    nlinarith [mul_nonneg hD.le (sq_nonneg (v - u)), mul_nonneg ht (sub_nonneg.2 (le_abs_self v))]
  · obtain ⟨u, hu⟩ : ∃ u, u = (x + t) / D := ⟨_, rfl⟩
    rw [← hu]
    have hxt : x + t < 0 := by linarith [h2.1]
    have huneg : u < 0 := by rw [hu]; exact div_neg_of_neg_of_pos hxt hD
    have hx : x = D * u - t := by rw [hu]; field_simp; ring
    rw [abs_of_neg huneg]
    clear hu h1 h2 hxt
    subst hx
    nlinarith [mul_nonneg hD.le (sq_nonneg (v - u)), mul_nonneg ht (by linarith [neg_abs_le v] : (0:ℝ) ≤ |v| + v)]
  · have h0 : ((0 : ℝ) / D) = 0 := zero_div D
    rw [show ((0 : ℝ) / D) = 0 from zero_div D]
    simp only [abs_zero]
    have h1' : x ≤ t := not_lt.mp h1
    cases pos with
    | false =>
      have h2' : -t ≤ x := by
        by_contra hc
        exact h2 ⟨not_le.mp hc, rfl⟩
      rcases abs_cases v with ⟨hav, hv0⟩ | ⟨hav, hv0⟩ <;> rw [hav]
      · nlinarith [mul_nonneg hD.le (sq_nonneg v), mul_nonneg (sub_nonneg.2 h1') hv0]
      · nlinarith [mul_nonneg hD.le (sq_nonneg v), mul_nonneg (by linarith : (0:ℝ) ≤ t + x) (by linarith : (0:ℝ) ≤ -v)]
    | true =>
      have hv0 := hv rfl
      rw [abs_of_nonneg hv0]
      nlinarith [mul_nonneg hD.le (sq_nonneg v), mul_nonneg (sub_nonneg.2 h1') hv0]

theorem abs_ST_le (x t : ℝ) (pos : Bool) (ht : 0 ≤ t) :
    |ST x t pos| ≤ max (|x| - t) 0 := by
  unfold ST
  split_ifs with h1 h2
  · have : 0 ≤ x := by linarith
    rw [abs_of_nonneg (by linarith : (0:ℝ) ≤ x - t), abs_of_nonneg this]
    exact le_max_left _ _
  · have : x < 0 := by linarith [h2.1]
    rw [abs_of_neg (by linarith [h2.1] : x + t < 0), abs_of_neg this]
    apply le_trans _ (le_max_left _ _)
    linarith
  · rw [abs_zero]; exact le_max_right _ _

/-! ### MCP -/

theorem mcp_ge (a g t : ℝ) (hg : 0 < g) : a * |t| - t ^ 2 / (2 * g) ≤ mcp a g t := by
  unfold mcp
  split_ifs with h
  · exact le_refl _
  · have h2 : 0 ≤ (a * g - |t|) ^ 2 / (2 * g) := by positivity
    have e : (a * g - |t|) ^ 2 / (2 * g) = g * a ^ 2 / 2 - a * |t| + t ^ 2 / (2 * g) := by
      rw [← sq_abs t]; field_simp; ring
    linarith

theorem mcp_of_le {a g t : ℝ} (h : |t| ≤ a * g) : mcp a g t = a * |t| - t ^ 2 / (2 * g) := by
  unfold mcp; rw [if_pos h]

theorem mcp_of_gt {a g t : ℝ} (h : a * g < |t|) : mcp a g t = g * a ^ 2 / 2 := by
  unfold mcp; rw [if_neg (not_le.mpr h)]

/-- outside the "flat" case the MCP prox is a scaled soft-thresholding -/
theorem prox_MCP_eq_ST (x s a g wt : ℝ) (pos : Bool) (hσ : 0 ≤ a * (wt * s))
    (h : ¬ (a * g < |x| ∧ ¬ (pos = true ∧ x ≤ 0))) :
    prox_MCP x s a g pos wt = ST x (a * (wt * s)) pos / (1 - wt * s / g) := by
  unfold prox_MCP ST
  simp only [sabs_eq]
  by_cases c1 : |x| ≤ a * (wt * s) ∨ (pos = true ∧ x ≤ 0)
  · rw [if_pos c1]
    have d1 : ¬ a * (wt * s) < x := by
      rcases c1 with c | c
      · have := le_abs_self x; linarith
      · linarith [c.2]
    have d2 : ¬ (x < -(a * (wt * s)) ∧ pos = false) := by
      rintro ⟨hx, hp⟩
      rcases c1 with c | c
      · have := neg_abs_le x; linarith
      · rw [hp] at c; exact absurd c.1 (by simp)
    rw [if_neg d1, if_neg d2, zero_div]
  · rw [if_neg c1]
    have c1a : a * (wt * s) < |x| := by
      by_contra hc; exact c1 (Or.inl (not_lt.mp hc))
    have c1b : ¬ (pos = true ∧ x ≤ 0) := fun hc => c1 (Or.inr hc)
    have c2 : ¬ a * g < |x| := fun hc => h ⟨hc, c1b⟩
    rw [if_neg c2]
    rcases lt_trichotomy x 0 with hx | hx | hx
    · have hp : pos = false := by
        cases pos with
        | false => rfl
        | true => exact absurd ⟨rfl, hx.le⟩ c1b
      rw [abs_of_neg hx] at c1a
      have d1 : ¬ a * (wt * s) < x := by linarith
      have d2 : x < -(a * (wt * s)) ∧ pos = false := ⟨by linarith, hp⟩
      rw [if_neg d1, if_pos d2, sgn_neg hx, abs_of_neg hx]
      congr 1; ring
    · subst hx; rw [abs_zero] at c1a; linarith
    · rw [abs_of_pos hx] at c1a
      rw [if_pos c1a, sgn_pos hx, abs_of_pos hx]
      congr 1; ring

/-- the closed-form MCP prox minimises `½(v-x)² + (wt·s)·mcp(v)` (over `v ≥ 0` when `pos`),
    whenever `wt·s < γ`. -/
theorem prox_MCP_prox (x s a g wt v : ℝ) (pos : Bool) (hσ0 : 0 ≤ wt * s) (ha : 0 ≤ a)
    (hg : 0 < g) (hσg : wt * s < g) (hv : pos = true → 0 ≤ v) :
    (prox_MCP x s a g pos wt - x) ^ 2 / 2 + (wt * s) * mcp a g (prox_MCP x s a g pos wt)
      ≤ (v - x) ^ 2 / 2 + (wt * s) * mcp a g v := by
  have hσ : 0 ≤ a * (wt * s) := mul_nonneg ha hσ0
  have hD : 0 < 1 - wt * s / g := by
    rw [sub_pos, div_lt_one hg]; exact hσg
  by_cases hbig : a * g < |x| ∧ ¬ (pos = true ∧ x ≤ 0)
  · -- flat part: the prox is `x` itself
    have c1 : ¬ (|x| ≤ a * (wt * s) ∨ (pos = true ∧ x ≤ 0)) := by
      rintro (c | c)
      · have : a * (wt * s) ≤ a * g := mul_le_mul_of_nonneg_left hσg.le ha
        linarith [hbig.1]
      · exact hbig.2 c
    have hu : prox_MCP x s a g pos wt = x := by
      unfold prox_MCP
      simp only [sabs_eq]
      rw [if_neg c1, if_pos hbig.1]
    rw [hu, mcp_of_gt hbig.1]
    obtain ⟨ρ, hρ⟩ : ∃ ρ, ρ = wt * s / g := ⟨_, rfl⟩
    have hρ1 : ρ < 1 := by rw [hρ, div_lt_one hg]; exact hσg
    have hρe : wt * s = ρ * g := by rw [hρ]; field_simp
    rw [hρe]
    by_cases hvr : |v| ≤ a * g
    · rw [mcp_of_le hvr]
      have e : ρ * g * (a * |v| - v ^ 2 / (2 * g)) = ρ * g * a * |v| - ρ * v ^ 2 / 2 := by
        field_simp
      rw [e]
      have h1 : |x| - |v| ≤ |x - v| := abs_sub_abs_le_abs_sub x v
      have h2 : a * g - |v| ≤ |v - x| := by rw [abs_sub_comm]; linarith [hbig.1]
      have key : (a * g - |v|) ^ 2 ≤ |v - x| ^ 2 := pow_le_pow_left₀ (by linarith) h2 2
      rw [sq_abs] at key
      have hsq := sq_abs v
      nlinarith [mul_nonneg (by linarith : (0:ℝ) ≤ 1 - ρ) (sq_nonneg (a * g - |v|))]
    · rw [mcp_of_gt (not_le.mp hvr)]
      nlinarith [sq_nonneg (v - x)]
  · -- otherwise: scaled soft-thresholding, which lands in the quadratic part
    rw [prox_MCP_eq_ST x s a g wt pos hσ hbig]
    have hxle : ST x (a * (wt * s)) pos = 0 ∨ |x| ≤ a * g := by
      by_cases hx : |x| ≤ a * g
      · exact Or.inr hx
      · left
        have hp : pos = true ∧ x ≤ 0 := by
          by_contra hc; exact hbig ⟨not_le.mp hx, hc⟩
        unfold ST
        rw [if_neg (by linarith [hp.2]), if_neg (by rw [hp.1]; simp)]
    have hule : |ST x (a * (wt * s)) pos / (1 - wt * s / g)| ≤ a * g := by
      rcases hxle with h0 | hx
      · rw [h0, zero_div, abs_zero]; exact mul_nonneg ha hg.le
      · rw [abs_div, abs_of_pos hD, div_le_iff₀ hD]
        have := abs_ST_le x (a * (wt * s)) pos hσ
        have e : a * g * (1 - wt * s / g) = a * g - a * (wt * s) := by field_simp
        rw [e]
        refine le_trans this (max_le (by linarith) ?_)
        have : a * (wt * s) ≤ a * g := mul_le_mul_of_nonneg_left hσg.le ha
        linarith
    rw [mcp_of_le hule]
    have hmain := ST_div_prox x (a * (wt * s)) (1 - wt * s / g) v pos hσ hD hv
    have hge := mul_le_mul_of_nonneg_left (mcp_ge a g v hg) hσ0
    have e1 : ∀ w : ℝ, wt * s * (a * |w| - w ^ 2 / (2 * g))
        = a * (wt * s) * |w| + (1 - wt * s / g - 1) * w ^ 2 / 2 := by
      intro w; field_simp; ring
    rw [e1] at hge ⊢
    linarith

theorem prox_MCP_pos_nonneg (x s a g wt : ℝ) (hD : 0 < 1 - wt * s / g) :
    0 ≤ prox_MCP x s a g true wt := by
  unfold prox_MCP
  simp only [sabs_eq, true_and]
  by_cases c1 : |x| ≤ a * (wt * s) ∨ x ≤ 0
  · rw [if_pos c1]
  · rw [if_neg c1]
    have hx : 0 < x := by
      by_contra hc; exact c1 (Or.inr (not_lt.mp hc))
    have hx2 : a * (wt * s) < x := by
      by_contra hc; exact c1 (Or.inl (by rw [abs_of_pos hx]; exact not_lt.mp hc))
    split_ifs with c2
    · exact hx.le
    · rw [sgn_pos hx, abs_of_pos hx, one_mul]
      exact div_nonneg (by linarith) hD.le

/-! ### box projection -/

theorem box_proj_prox (x a v : ℝ) (ha : 0 ≤ a) :
    0 ≤ box_proj x 0 a ∧ box_proj x 0 a ≤ a ∧
      (0 ≤ v → v ≤ a → (box_proj x 0 a - x) ^ 2 ≤ (v - x) ^ 2) := by
  unfold box_proj
  split_ifs with h1 h2
  · exact ⟨ha, le_refl _, fun _ hva => by nlinarith⟩
  · exact ⟨le_refl _, ha, fun hv0 _ => by nlinarith⟩
  · exact ⟨not_lt.mp h2, not_lt.mp h1, fun _ _ => by nlinarith [sq_nonneg (v - x)]⟩

end Skglm.Proofs
