import Skglm.Spec.Penalties
/-
  Lemmas behind C08: the modelled `subdiff_distance` entry is the distance from `-grad` to the
  regular (Fréchet) sub-differential of the documented penalty.
-/
namespace Skglm.Spec
open Skglm

/-- `d` is the distance from `-grad` to the regular sub-differential of `φ` at `w`
    (`inf` exactly when that set is empty; the set is closed so the distance is attained). -/
def IsDistToSubdiff (φ : ℝ → Option ℝ) (w grad : ℝ) (d : Ext ℝ) : Prop :=
  match d with
  | .inf => ∀ g, ¬ IsRegSubgrad φ w g
  | .fin d => (∃ g, IsRegSubgrad φ w g ∧ |(-grad) - g| = d) ∧
      ∀ g, IsRegSubgrad φ w g → d ≤ |(-grad) - g|

end Skglm.Spec

namespace Skglm.Proofs
open Skglm Skglm.Spec

theorem sd_l1 (a : ℝ) (pos : Bool) (wt w grad : ℝ) (ha : 0 ≤ a) :
    IsDistToSubdiff (pen (.l1 a pos) wt) w grad ((SepPen.l1 a pos).sd1 wt w grad) := by
  sorry

theorem sd_wl1 (a : ℝ) (pos : Bool) (wt w grad : ℝ) (ha : 0 ≤ a) (hwt : 0 ≤ wt) :
    IsDistToSubdiff (pen (.wl1 a pos) wt) w grad ((SepPen.wl1 a pos).sd1 wt w grad) := by
  sorry

theorem sd_l1l2 (a r : ℝ) (pos : Bool) (wt w grad : ℝ) (ha : 0 ≤ a) (hr0 : 0 ≤ r) (hr1 : r ≤ 1) :
    IsDistToSubdiff (pen (.l1l2 a r pos) wt) w grad ((SepPen.l1l2 a r pos).sd1 wt w grad) := by
  sorry

theorem sd_mcp (a g : ℝ) (pos : Bool) (wt w grad : ℝ) (ha : 0 ≤ a) (hg : 0 < g) :
    IsDistToSubdiff (pen (.mcp a g pos) wt) w grad ((SepPen.mcp a g pos).sd1 wt w grad) := by
  sorry

theorem sd_wmcp (a g : ℝ) (pos : Bool) (wt w grad : ℝ) (ha : 0 ≤ a) (hg : 0 < g) (hwt : 0 ≤ wt) :
    IsDistToSubdiff (pen (.wmcp a g pos) wt) w grad ((SepPen.wmcp a g pos).sd1 wt w grad) := by
  sorry

theorem sd_scad (a g : ℝ) (wt w grad : ℝ) (ha : 0 ≤ a) (hg : 1 < g) :
    IsDistToSubdiff (pen (.scad a g) wt) w grad ((SepPen.scad a g).sd1 wt w grad) := by
  sorry

/-- box indicator, at feasible points `0 ≤ w ≤ a` (the statement of C08 is about feasible points) -/
theorem sd_box (a : ℝ) (wt w grad : ℝ) (ha : 0 < a) (hw0 : 0 ≤ w) (hwa : w ≤ a) :
    IsDistToSubdiff (pen (.box a) wt) w grad ((SepPen.box a).sd1 wt w grad) := by
  sorry

theorem sd_pos (wt w grad : ℝ) :
    IsDistToSubdiff (pen (.pos) wt) w grad ((SepPen.pos : SepPen ℝ).sd1 wt w grad) := by
  sorry

theorem sd_logsum (a e : ℝ) (wt w grad : ℝ) (ha : 0 ≤ a) (he : 0 < e) :
    IsDistToSubdiff (pen (.logsum a e) wt) w grad ((SepPen.logsum a e).sd1 wt w grad) := by
  sorry

theorem sd_l05 (a : ℝ) (wt w grad : ℝ) (ha : 0 < a) :
    IsDistToSubdiff (pen (.l05 a) wt) w grad ((SepPen.l05 a).sd1 wt w grad) := by
  sorry

theorem sd_l23 (a : ℝ) (wt w grad : ℝ) (ha : 0 < a) :
    IsDistToSubdiff (pen (.l23 a) wt) w grad ((SepPen.l23 a).sd1 wt w grad) := by
  sorry

/-- generic: the score is zero exactly at first-order stationary points -/
theorem score_zero_iff (φ : ℝ → Option ℝ) (w grad : ℝ) (d : Ext ℝ) (h : IsDistToSubdiff φ w grad d) :
    d = .fin 0 ↔ IsRegSubgrad φ w (-grad) := by
  sorry

/-- Fermat's rule for a prox step: a global minimiser `w` of `½(·-x)² + s·φ` has
    `(x - w)/s` as a regular sub-gradient of `φ` at `w`. -/
theorem prox_min_subgrad (φ : ℝ → Option ℝ) (x s w : ℝ) (hs : 0 < s)
    (hmin : ∃ fw, φ w = some fw ∧ ∀ v, match φ v with
        | some fv => (w - x) ^ 2 / 2 + s * fw ≤ (v - x) ^ 2 / 2 + s * fv
        | none => True) :
    IsRegSubgrad φ w ((x - w) / s) := by
  sorry

end Skglm.Proofs
