import Skglm.Spec.Penalties
import Skglm.Proofs.SubdiffAux
/-
  Lemmas behind C08: the modelled `subdiff_distance` entry is the distance from `-grad` to the
  regular (Fréchet) sub-differential of the documented penalty.
-/
namespace Skglm.Spec
open Skglm

/-- `d` is the distance from `-grad` to the regular sub-differential of `φ` at `w`
    (`inf` exactly when that set is empty; the set is closed so the distance is attained). -/
def IsDistToSubdiff (φ : ℝ → Option ℝ) (w grad : ℝ) (d : Ext ℝ) : Prop :=
  match d with
  | .inf => ∀ g, ¬ IsRegSubgrad φ w g
  | .fin d => (∃ g, IsRegSubgrad φ w g ∧ |(-grad) - g| = d) ∧
      ∀ g, IsRegSubgrad φ w g → d ≤ |(-grad) - g|

end Skglm.Spec

namespace Skglm.Proofs.SD
open Skglm Skglm.Spec

/-! ### distance to an interval, a half-line, a point -/

theorem dist_none {φ : ℝ → Option ℝ} {w grad : ℝ} (h : ∀ g, ¬ IsRegSubgrad φ w g) :
    IsDistToSubdiff φ w grad .inf := h

theorem dist_Icc {φ : ℝ → Option ℝ} {w grad lvl : ℝ} (hl : 0 ≤ lvl)
    (h : ∀ g, IsRegSubgrad φ w g ↔ -lvl ≤ g ∧ g ≤ lvl) :
    IsDistToSubdiff φ w grad (.fin (max 0 (|grad| - lvl))) := by
  refine ⟨?_, fun g hg => ?_⟩
  · rcases le_or_gt |grad| lvl with h1 | h1
    · refine ⟨-grad, (h _).2 ?_, ?_⟩
      · have := abs_le.1 h1; constructor <;> linarith
      · rw [sub_self, abs_zero, max_eq_left (by linarith)]
    · rcases le_or_gt 0 grad with h2 | h2
      · rw [abs_of_nonneg h2] at h1 ⊢
        refine ⟨-lvl, (h _).2 ⟨le_refl _, by linarith⟩, ?_⟩
        rw [max_eq_right (by linarith), abs_of_nonpos (by linarith)]; ring
      · rw [abs_of_neg h2] at h1 ⊢
        refine ⟨lvl, (h _).2 ⟨by linarith, le_refl _⟩, ?_⟩
        rw [max_eq_right (by linarith), abs_of_nonneg (by linarith)]
  · obtain ⟨h1, h2⟩ := (h g).1 hg
    apply max_le (abs_nonneg _)
    rcases abs_cases grad with ⟨e, _⟩ | ⟨e, _⟩ <;>
      rcases abs_cases (-grad - g) with ⟨e', _⟩ | ⟨e', _⟩ <;> linarith

theorem dist_Iic {φ : ℝ → Option ℝ} {w grad r : ℝ}
    (h : ∀ g, IsRegSubgrad φ w g ↔ g ≤ r) :
    IsDistToSubdiff φ w grad (.fin (max 0 (-grad - r))) := by
  refine ⟨?_, fun g hg => ?_⟩
  · rcases le_or_gt (-grad) r with h1 | h1
    · refine ⟨-grad, (h _).2 h1, ?_⟩
      rw [sub_self, abs_zero, max_eq_left (by linarith)]
    · refine ⟨r, (h _).2 (le_refl _), ?_⟩
      rw [max_eq_right (by linarith), abs_of_nonneg (by linarith)]
  · have h1 := (h g).1 hg
    apply max_le (abs_nonneg _)
    rcases abs_cases (-grad - g) with ⟨e', _⟩ | ⟨e', _⟩ <;> linarith

theorem dist_Ici {φ : ℝ → Option ℝ} {w grad l : ℝ}
    (h : ∀ g, IsRegSubgrad φ w g ↔ l ≤ g) :
    IsDistToSubdiff φ w grad (.fin (max 0 (grad + l))) := by
  refine ⟨?_, fun g hg => ?_⟩
  · rcases le_or_gt l (-grad) with h1 | h1
    · refine ⟨-grad, (h _).2 h1, ?_⟩
      rw [sub_self, abs_zero, max_eq_left (by linarith)]
    · refine ⟨l, (h _).2 (le_refl _), ?_⟩
      rw [max_eq_right (by linarith), abs_of_nonpos (by linarith)]; ring
  · have h1 := (h g).1 hg
    apply max_le (abs_nonneg _)
    rcases abs_cases (-grad - g) with ⟨e', _⟩ | ⟨e', _⟩ <;> linarith

theorem dist_eq {φ : ℝ → Option ℝ} {w grad d : ℝ}
    (h : ∀ g, IsRegSubgrad φ w g ↔ g = d) :
    IsDistToSubdiff φ w grad (.fin |grad + d|) := by
  have e : |grad + d| = |-grad - d| := by rw [← abs_neg]; congr 1; ring
  refine ⟨⟨d, (h d).2 rfl, e.symm⟩, fun g hg => ?_⟩
  rw [(h g).1 hg, e]

theorem dist_all {φ : ℝ → Option ℝ} {w grad : ℝ}
    (h : ∀ g, IsRegSubgrad φ w g) :
    IsDistToSubdiff φ w grad (.fin 0) :=
  ⟨⟨-grad, h _, by simp⟩, fun g _ => abs_nonneg _⟩

/-! ### the documented penalties as `withPos` -/

theorem pen_l1 (a : ℝ) (pos : Bool) (wt : ℝ) :
    pen (.l1 a pos) wt = withPos pos (fun u => a * |u|) := rfl
theorem pen_wl1 (a : ℝ) (pos : Bool) (wt : ℝ) :
    pen (.wl1 a pos) wt = withPos pos (fun u => a * wt * |u|) := rfl
theorem pen_l1l2 (a r : ℝ) (pos : Bool) (wt : ℝ) :
    pen (.l1l2 a r pos) wt = withPos pos (fun u => a * (r * |u| + (1 - r) * u ^ 2 / 2)) := rfl
theorem pen_mcp (a g : ℝ) (pos : Bool) (wt : ℝ) :
    pen (.mcp a g pos) wt = withPos pos (fun u => mcp a g u) := rfl
theorem pen_wmcp (a g : ℝ) (pos : Bool) (wt : ℝ) :
    pen (.wmcp a g pos) wt = withPos pos (fun u => wt * mcp a g u) := rfl
theorem pen_scad (a g : ℝ) (wt : ℝ) :
    pen (.scad a g) wt = withPos false (fun u => scad a g u) := rfl
theorem pen_l05 (a : ℝ) (wt : ℝ) :
    pen (.l05 a) wt = withPos false (fun u => a * Real.sqrt |u|) := rfl
theorem pen_l23 (a : ℝ) (wt : ℝ) :
    pen (.l23 a) wt = withPos false (fun u => a * |u| ^ ((2:ℝ) / 3)) := rfl
theorem pen_logsum (a e : ℝ) (wt : ℝ) :
    pen (.logsum a e) wt = withPos false (fun u => a * Real.log (1 + |u| / e)) := rfl
theorem pen_pos (wt : ℝ) :
    pen (.pos) wt = withPos true (fun _ => 0) := rfl

theorem pen_box (a wt u : ℝ) :
    pen (.box a) wt u = if 0 ≤ u ∧ u ≤ a then some 0 else none := by
  unfold pen
  simp [SepPen.positive]

/-- scores of the family `c·|u| + q·u²` (ℓ1, weighted ℓ1, elastic net), in the layout of
    `L1.subdiff_distance` -/
theorem sd_absquad (c q : ℝ) (pos : Bool) (w grad : ℝ) (hc : 0 ≤ c) :
    IsDistToSubdiff (withPos pos (fun u => c * |u| + q * u ^ 2)) w grad
      (if pos then
        if w < 0 then .inf
        else if w = 0 then .fin (max 0 (-grad - c))
        else .fin |grad + (c + 2 * q * w)|
      else
        if w = 0 then .fin (max 0 (|grad| - c))
        else .fin |grad + (c * sgn w + 2 * q * w)|) := by
  cases pos
  · simp only [Bool.false_eq_true, if_false]
    by_cases hw : w = 0
    · subst hw
      rw [if_pos rfl]
      refine dist_Icc hc (fun g => wp_zero 0 c q g ⟨1, one_pos, fun v _ => by ring⟩)
    · rw [if_neg hw]
      refine dist_eq (fun g => wp_away_quad (Or.inl rfl) hw
        (c * |w| + q * w ^ 2) (c * sgn w + 2 * q * w) q g ⟨1, one_pos, fun v _ hv => ?_⟩)
      rw [abs_near hv, ← sgn_mul_eq_abs w]
      ring
  · simp only [if_true]
    by_cases hneg : w < 0
    · rw [if_pos hneg]
      exact dist_none (fun g => wp_infeasible hneg g)
    rw [if_neg hneg]
    by_cases hw : w = 0
    · subst hw
      rw [if_pos rfl]
      refine dist_Iic (fun g => wp_zero_pos 0 c q g ⟨1, one_pos, fun v hv _ => ?_⟩)
      rw [abs_of_nonneg hv]; ring
    · rw [if_neg hw]
      have hpos : 0 < w := lt_of_le_of_ne (not_lt.1 hneg) (Ne.symm hw)
      refine dist_eq (fun g => wp_away_quad (Or.inr hpos) hw
        (c * |w| + q * w ^ 2) (c + 2 * q * w) q g ⟨1, one_pos, fun v _ hv => ?_⟩)
      rw [abs_near hv, sgn_pos hpos, abs_of_pos hpos]
      ring

theorem mcp_zero_param (g v : ℝ) : mcp 0 g v = 0 := by
  unfold mcp
  split_ifs with h
  · have : v = 0 := abs_nonpos_iff.1 (by simpa using h)
    subst this; simp
  · ring

theorem sd_mcpk (a g k : ℝ) (pos : Bool) (w grad : ℝ) (ha : 0 ≤ a) (hg : 0 < g) (hk : 0 ≤ k) :
    IsDistToSubdiff (withPos pos (fun u => k * mcp a g u)) w grad
      (if pos = true ∧ w < 0 then .inf
       else if pos = true ∧ w = 0 then .fin (max 0 (-grad - a * k))
       else if w = 0 then .fin (max 0 (|grad| - a * k))
       else if |w| < a * g then .fin |grad + k * (a * sgn w - w / g)|
       else .fin |grad + 0|) := by
  by_cases hinf : pos = true ∧ w < 0
  · rw [if_pos hinf]
    obtain ⟨rfl, hw⟩ := hinf
    exact dist_none (fun g' => wp_infeasible hw g')
  rw [if_neg hinf]
  by_cases hw0 : w = 0
  · subst hw0
    have hgerm : ∃ q : ℝ, ∃ δ > 0, ∀ v : ℝ, |v| < δ →
        k * mcp a g v = 0 + a * k * |v| + q * v ^ 2 := by
      rcases eq_or_lt_of_le ha with h | h
      · subst h
        exact ⟨0, 1, one_pos, fun v _ => by rw [mcp_zero_param]; ring⟩
      · refine ⟨-k / (2 * g), a * g, mul_pos h hg, fun v hv => ?_⟩
        unfold mcp
        rw [if_pos hv.le]
        ring
    obtain ⟨q, δ, hδ, H⟩ := hgerm
    cases pos
    · rw [if_neg (by simp), if_pos rfl]
      exact dist_Icc (mul_nonneg ha hk) (fun g' => wp_zero 0 (a * k) q g' ⟨δ, hδ, H⟩)
    · rw [if_pos ⟨rfl, rfl⟩]
      refine dist_Iic (fun g' => wp_zero_pos 0 (a * k) q g' ⟨δ, hδ, fun v hv0 hv => ?_⟩)
      have := H v (by rw [abs_of_nonneg hv0]; exact hv)
      rw [abs_of_nonneg hv0] at this
      exact this
  · have hpw : pos = false ∨ 0 < w := by
      cases pos
      · exact Or.inl rfl
      · right
        rcases lt_or_gt_of_ne hw0 with h | h
        · exact absurd ⟨rfl, h⟩ hinf
        · exact h
    rw [if_neg (fun h => hw0 h.2), if_neg hw0]
    by_cases hin : |w| < a * g
    · rw [if_pos hin]
      refine dist_eq (fun g' => wp_away_quad hpw hw0 (k * (a * |w| - w ^ 2 / (2 * g)))
        (k * (a * sgn w - w / g)) (-k / (2 * g)) g'
        ⟨a * g - |w|, by linarith, fun v hv1 hv2 => ?_⟩)
      have hv : |v| ≤ a * g := by have := abs_near_le v w; linarith
      unfold mcp
      rw [if_pos hv, abs_near hv2, ← sgn_mul_eq_abs w]
      field_simp
      ring
    · rw [if_neg hin]
      have hout : a * g ≤ |w| := not_lt.1 hin
      rcases eq_or_lt_of_le hout with heq | hlt
      · refine dist_eq (fun g' => wp_away_two_quads hpw hw0 (k * (g * a ^ 2 / 2)) 0
          (-k / (2 * g)) 0 g' ⟨1, one_pos, fun v _ hv2 => ?_⟩)
        have hσ := sgn_mul_self hw0
        have hw' : w = sgn w * (a * g) := by
          rw [heq, ← sabs_eq, sgn_mul_sabs]
        have habs := abs_near hv2
        generalize sgn w = σ at hσ hw' habs
        unfold mcp
        by_cases hv : |v| ≤ a * g
        · left
          rw [if_pos hv, habs, hw']
          field_simp
          linear_combination (k * a ^ 2 * g ^ 2) * hσ
        · right
          rw [if_neg hv]
          ring
      · refine dist_eq (fun g' => wp_away_quad hpw hw0 (k * (g * a ^ 2 / 2)) 0 0 g'
          ⟨|w| - a * g, by linarith, fun v hv1 _ => ?_⟩)
        have hv : ¬ |v| ≤ a * g := by have := abs_near_ge v w; linarith
        unfold mcp
        rw [if_neg hv]
        ring

theorem scad_zero_param (g v : ℝ) : scad 0 g v = 0 := by
  unfold scad
  split_ifs with h h2
  · ring
  · have : v = 0 := abs_nonpos_iff.1 (by simpa using h2)
    subst this; simp
  · ring

theorem sgn_cases {w : ℝ} (hw : w ≠ 0) : sgn w = 1 ∨ sgn w = -1 := by
  rcases lt_or_gt_of_ne hw with h | h
  · exact Or.inr (sgn_neg h)
  · exact Or.inl (sgn_pos h)

theorem sd_scad_core (a g : ℝ) (w grad : ℝ) (ha : 0 ≤ a) (hg : 1 < g) :
    IsDistToSubdiff (withPos false (fun u => scad a g u)) w grad
      (if w = 0 then .fin (max 0 (|grad| - a))
       else if |w| ≤ a then .fin |grad + a * sgn w|
       else if |w| ≤ a * g then .fin |grad + (sgn w * a * g - w) / (g - 1)|
       else .fin |grad + 0|) := by
  have hg1 : 0 < g - 1 := by linarith
  have hg1' : g - 1 ≠ 0 := hg1.ne'
  have hag : a ≤ a * g := by nlinarith
  by_cases hw0 : w = 0
  · subst hw0
    rw [if_pos rfl]
    have hgerm : ∃ δ > 0, ∀ v : ℝ, |v| < δ → scad a g v = 0 + a * |v| + 0 * v ^ 2 := by
      rcases eq_or_lt_of_le ha with h | h
      · subst h
        exact ⟨1, one_pos, fun v _ => by rw [scad_zero_param]; ring⟩
      · refine ⟨a, h, fun v hv => ?_⟩
        unfold scad
        rw [if_pos hv.le]
        ring
    exact dist_Icc ha (fun g' => wp_zero 0 a 0 g' hgerm)
  rw [if_neg hw0]
  have hpw : (false = false) ∨ 0 < w := Or.inl rfl
  have hσ := sgn_cases hw0
  have hwσ : w = sgn w * |w| := by rw [← sabs_eq, sgn_mul_sabs]
  by_cases h1 : |w| ≤ a
  · rw [if_pos h1]
    rcases eq_or_lt_of_le h1 with heq | hlt
    · -- |w| = a : junction of the linear and the quadratic piece
      have hapos : 0 < a := by rw [← heq]; exact abs_pos.2 hw0
      refine dist_eq (fun g' => wp_away_two_quads hpw hw0 (a * a) (a * sgn w) 0
        (-1 / (2 * (g - 1))) g' ⟨a * (g - 1), mul_pos hapos hg1, fun v hv1 hv2 => ?_⟩)
      have habs := abs_near hv2
      have hvle : |v| ≤ a * g := by have := abs_near_le v w; nlinarith
      rw [heq] at hwσ
      generalize sgn w = σ at hσ hwσ habs
      unfold scad
      by_cases hv : |v| ≤ a
      · left
        rw [if_pos hv, habs, hwσ]
        rcases hσ with rfl | rfl <;> ring
      · right
        rw [if_neg hv, if_pos hvle, habs, hwσ]
        rcases hσ with rfl | rfl <;> (field_simp; ring)
    · refine dist_eq (fun g' => wp_away_quad hpw hw0 (a * |w|) (a * sgn w) 0 g'
        ⟨a - |w|, by linarith, fun v hv1 hv2 => ?_⟩)
      have hv : |v| ≤ a := by have := abs_near_le v w; linarith
      unfold scad
      rw [if_pos hv, abs_near hv2, ← sgn_mul_eq_abs w]
      ring
  rw [if_neg h1]
  have h1' : a < |w| := not_le.1 h1
  by_cases h2 : |w| ≤ a * g
  · rw [if_pos h2]
    rcases eq_or_lt_of_le h2 with heq | hlt
    · -- |w| = a g : junction of the quadratic and the constant piece
      refine dist_eq (fun g' => wp_away_two_quads hpw hw0 (a ^ 2 * (g + 1) / 2)
        ((sgn w * a * g - w) / (g - 1)) (-1 / (2 * (g - 1))) 0 g'
        ⟨|w| - a, by linarith, fun v hv1 hv2 => ?_⟩)
      have habs := abs_near hv2
      have hvgt : ¬ |v| ≤ a := by have := abs_near_ge v w; linarith
      rw [heq] at hwσ
      generalize sgn w = σ at hσ hwσ habs
      unfold scad
      by_cases hv : |v| ≤ a * g
      · left
        rw [if_neg hvgt, if_pos hv, habs, hwσ]
        rcases hσ with rfl | rfl <;> (field_simp; ring)
      · right
        rw [if_neg hvgt, if_neg hv, hwσ]
        rcases hσ with rfl | rfl <;> (field_simp; ring)
    · refine dist_eq (fun g' => wp_away_quad hpw hw0
        ((2 * a * g * |w| - w ^ 2 - a ^ 2) / (2 * (g - 1)))
        ((sgn w * a * g - w) / (g - 1)) (-1 / (2 * (g - 1))) g'
        ⟨min (|w| - a) (a * g - |w|), lt_min (by linarith) (by linarith), fun v hv1 hv2 => ?_⟩)
      have hv1a := lt_of_lt_of_le hv1 (min_le_left _ _)
      have hv1b := lt_of_lt_of_le hv1 (min_le_right _ _)
      have hvgt : ¬ |v| ≤ a := by have := abs_near_ge v w; linarith
      have hvle : |v| ≤ a * g := by have := abs_near_le v w; linarith
      unfold scad
      rw [if_neg hvgt, if_pos hvle, abs_near hv2, ← sgn_mul_eq_abs w]
      field_simp
      ring
  · rw [if_neg h2]
    have h2' : a * g < |w| := not_le.1 h2
    refine dist_eq (fun g' => wp_away_quad hpw hw0 (a ^ 2 * (g + 1) / 2) 0 0 g'
      ⟨|w| - a * g, by linarith, fun v hv1 _ => ?_⟩)
    have hv : ¬ |v| ≤ a * g := by have := abs_near_ge v w; linarith
    have hv' : ¬ |v| ≤ a := fun h => hv (h.trans hag)
    unfold scad
    rw [if_neg hv', if_neg hv]
    ring

theorem hasDerivAt_logsum (a e σ w : ℝ) (h : 1 + σ * w / e ≠ 0) :
    HasDerivAt (fun v : ℝ => a * Real.log (1 + σ * v / e)) (a * (σ / e / (1 + σ * w / e))) w := by
  have h1 : HasDerivAt (fun v : ℝ => σ * v) σ w := by
    simpa using (hasDerivAt_id w).const_mul σ
  have h2 : HasDerivAt (fun v : ℝ => 1 + σ * v / e) (σ / e) w := (h1.div_const e).const_add 1
  exact (h2.log h).const_mul a

/-- `a·t^p` (`0 < p < 1`, `a > 0`) beats every linear function near `0⁺` -/
theorem steep_rpow (a p : ℝ) (ha : 0 < a) (hp0 : 0 < p) (hp1 : p < 1) (M : ℝ) :
    ∃ δ > 0, ∀ t : ℝ, 0 < t → t < δ → M * t ≤ a * t ^ p := by
  rcases le_or_gt M 0 with hM | hM
  · refine ⟨1, one_pos, fun t ht _ => ?_⟩
    have h1 : 0 < t ^ p := Real.rpow_pos_of_pos ht p
    nlinarith [mul_pos ha h1]
  · have hq : 0 < 1 - p := by linarith
    have ham : 0 < a / M := div_pos ha hM
    refine ⟨(a / M) ^ (1 / (1 - p)), Real.rpow_pos_of_pos ham _, fun t ht htδ => ?_⟩
    have h1 : t ^ (1 - p) < a / M := by
      have := Real.rpow_lt_rpow ht.le htδ hq
      rw [← Real.rpow_mul ham.le, one_div, inv_mul_cancel₀ hq.ne', Real.rpow_one] at this
      exact this
    have h2 : M * t ^ (1 - p) < a := by
      have := (lt_div_iff₀ hM).1 h1
      linarith
    have h3 : t = t ^ (1 - p) * t ^ p := by
      rw [← Real.rpow_add ht]
      have : 1 - p + p = 1 := by ring
      rw [this, Real.rpow_one]
    have h4 : 0 < t ^ p := Real.rpow_pos_of_pos ht p
    calc M * t = M * t ^ (1 - p) * t ^ p := by rw [mul_assoc, ← h3]
      _ ≤ a * t ^ p := mul_le_mul_of_nonneg_right h2.le h4.le

/-- `a·|u|^p` (`0 < p < 1`, `a > 0`): every real is a regular sub-gradient at `0` -/
theorem subgrad_rpow_zero (a p : ℝ) (ha : 0 < a) (hp0 : 0 < p) (hp1 : p < 1) (g : ℝ) :
    IsRegSubgrad (withPos false (fun u => a * |u| ^ p)) 0 g := by
  have h0 : withPos false (fun u => a * |u| ^ p) 0 = some 0 := by
    rw [withPos_some (Or.inl rfl)]
    simp [Real.zero_rpow hp0.ne']
  refine subgrad_of_steep g h0 (fun M => ?_) (fun M => ?_)
  · obtain ⟨δ, hδ, H⟩ := steep_rpow a p ha hp0 hp1 M
    refine ⟨δ, hδ, fun t ht htδ => ⟨_, withPos_some (Or.inl rfl), ?_⟩⟩
    have e : |(0 : ℝ) + -1 * t| = t := by rw [zero_add, neg_one_mul, abs_neg, abs_of_pos ht]
    simp only [e]
    have := H t ht htδ
    linarith
  · obtain ⟨δ, hδ, H⟩ := steep_rpow a p ha hp0 hp1 M
    refine ⟨δ, hδ, fun t ht htδ => ⟨_, withPos_some (Or.inl rfl), ?_⟩⟩
    have e : |(0 : ℝ) + 1 * t| = t := by rw [zero_add, one_mul, abs_of_pos ht]
    simp only [e]
    have := H t ht htδ
    linarith

end Skglm.Proofs.SD

namespace Skglm.Proofs
open Skglm Skglm.Spec Skglm.Proofs.SD

theorem sd_l1 (a : ℝ) (pos : Bool) (wt w grad : ℝ) (ha : 0 ≤ a) :
    IsDistToSubdiff (pen (.l1 a pos) wt) w grad ((SepPen.l1 a pos).sd1 wt w grad) := by
  have h := sd_absquad a 0 pos w grad ha
  have e1 : pen (.l1 a pos) wt = withPos pos (fun u => a * |u| + 0 * u ^ 2) := by
    rw [pen_l1]; congr 1; funext u; ring
  rw [e1]
  convert h using 1
  simp only [SepPen.sd1, SepPen.sdZero, SepPen.sdZeroPos, eqb_iff, sabs_eq, smax_eq]
  split_ifs <;> first | rfl | (congr 2; ring)

theorem sd_wl1 (a : ℝ) (pos : Bool) (wt w grad : ℝ) (ha : 0 ≤ a) (hwt : 0 ≤ wt) :
    IsDistToSubdiff (pen (.wl1 a pos) wt) w grad ((SepPen.wl1 a pos).sd1 wt w grad) := by
  have h := sd_absquad (a * wt) 0 pos w grad (mul_nonneg ha hwt)
  have e1 : pen (.wl1 a pos) wt = withPos pos (fun u => a * wt * |u| + 0 * u ^ 2) := by
    rw [pen_wl1]; congr 1; funext u; ring
  rw [e1]
  convert h using 1
  simp only [SepPen.sd1, SepPen.sdZero, SepPen.sdZeroPos, eqb_iff, sabs_eq, smax_eq]
  split_ifs <;> first | rfl | (congr 2; ring)

theorem sd_l1l2 (a r : ℝ) (pos : Bool) (wt w grad : ℝ) (ha : 0 ≤ a) (hr0 : 0 ≤ r) (hr1 : r ≤ 1) :
    IsDistToSubdiff (pen (.l1l2 a r pos) wt) w grad ((SepPen.l1l2 a r pos).sd1 wt w grad) := by
  have h := sd_absquad (a * r) (a * (1 - r) / 2) pos w grad (mul_nonneg ha hr0)
  have e1 : pen (.l1l2 a r pos) wt
      = withPos pos (fun u => a * r * |u| + a * (1 - r) / 2 * u ^ 2) := by
    rw [pen_l1l2]; congr 1; funext u; ring
  rw [e1]
  convert h using 1
  simp only [SepPen.sd1, SepPen.sdZero, SepPen.sdZeroPos, eqb_iff, sabs_eq, smax_eq]
  split_ifs <;> first | rfl | (congr 2; ring)

theorem sd_mcp (a g : ℝ) (pos : Bool) (wt w grad : ℝ) (ha : 0 ≤ a) (hg : 0 < g) :
    IsDistToSubdiff (pen (.mcp a g pos) wt) w grad ((SepPen.mcp a g pos).sd1 wt w grad) := by
  have h := sd_mcpk a g 1 pos w grad ha hg zero_le_one
  have e1 : pen (.mcp a g pos) wt = withPos pos (fun u => 1 * mcp a g u) := by
    rw [pen_mcp]; congr 1; funext u; ring
  rw [e1]
  convert h using 1
  simp only [SepPen.sd1, SepPen.sdZero, SepPen.sdZeroPos, eqb_iff, sabs_eq, smax_eq]
  split_ifs <;> first | rfl | (congr 2; ring)

theorem sd_wmcp (a g : ℝ) (pos : Bool) (wt w grad : ℝ) (ha : 0 ≤ a) (hg : 0 < g) (hwt : 0 ≤ wt) :
    IsDistToSubdiff (pen (.wmcp a g pos) wt) w grad ((SepPen.wmcp a g pos).sd1 wt w grad) := by
  have h := sd_mcpk a g wt pos w grad ha hg hwt
  rw [pen_wmcp]
  convert h using 1
  simp only [SepPen.sd1, SepPen.sdZero, SepPen.sdZeroPos, eqb_iff, sabs_eq, smax_eq]
  split_ifs <;> first | rfl | (congr 2; ring)

theorem sd_scad (a g : ℝ) (wt w grad : ℝ) (ha : 0 ≤ a) (hg : 1 < g) :
    IsDistToSubdiff (pen (.scad a g) wt) w grad ((SepPen.scad a g).sd1 wt w grad) := by
  have h := sd_scad_core a g w grad ha hg
  rw [pen_scad]
  convert h using 1
  simp only [SepPen.sd1, SepPen.sdZero, eqb_iff, sabs_eq, smax_eq]
  split_ifs <;> first | rfl | (congr 2; ring)

/-- box indicator, at feasible points `0 ≤ w ≤ a` (the statement of C08 is about feasible points) -/
theorem sd_box (a : ℝ) (wt w grad : ℝ) (ha : 0 < a) (hw0 : 0 ≤ w) (hwa : w ≤ a) :
    IsDistToSubdiff (pen (.box a) wt) w grad ((SepPen.box a).sd1 wt w grad) := by
  have hin : ∀ u, 0 ≤ u → u ≤ a → pen (.box a) wt u = some 0 := fun u h1 h2 => by
    rw [pen_box, if_pos ⟨h1, h2⟩]
  have hout : ∀ u, (u < 0 ∨ a < u) → pen (.box a) wt u = none := fun u h => by
    rw [pen_box, if_neg]
    rintro ⟨h1, h2⟩
    rcases h with h | h <;> linarith
  by_cases h0 : w = 0
  · subst h0
    have e : (SepPen.box a).sd1 wt 0 grad = .fin (max 0 (-grad - 0)) := by
      simp only [SepPen.sd1, eqb_iff, smax_eq]
      rw [if_pos trivial, sub_zero]
    rw [e]
    refine dist_Iic (fun g => subgrad_iff_left_none g (hin 0 (le_refl _) ha.le)
      ⟨1, one_pos, fun t ht _ => hout _ (Or.inl (by linarith))⟩
      (SideSlope.of_quad 0 (Or.inl rfl) ⟨a, ha, fun t ht hta => ?_⟩))
    rw [hin _ (by linarith) (by linarith)]
    congr 1; ring
  by_cases h1 : w = a
  · subst h1
    have e : (SepPen.box w).sd1 wt w grad = .fin (max 0 (grad + 0)) := by
      simp only [SepPen.sd1, eqb_iff, smax_eq]
      rw [if_neg h0, if_pos trivial, add_zero]
    rw [e]
    refine dist_Ici (fun g => subgrad_iff_right_none g (hin w hw0 (le_refl _))
      (SideSlope.of_quad 0 (Or.inr rfl) ⟨w, ha, fun t ht hta => ?_⟩)
      ⟨1, one_pos, fun t ht _ => hout _ (Or.inr (by linarith))⟩)
    rw [hin _ (by linarith) (by linarith)]
    congr 1; ring
  · have e : (SepPen.box a).sd1 wt w grad = .fin |grad + 0| := by
      simp only [SepPen.sd1, eqb_iff, sabs_eq]
      rw [if_neg h0, if_neg h1, add_zero]
    rw [e]
    have hw0' : 0 < w := lt_of_le_of_ne hw0 (Ne.symm h0)
    have hwa' : w < a := lt_of_le_of_ne hwa h1
    refine dist_eq (fun g => subgrad_iff_of_quad 0 0 0 g
      ⟨min w (a - w), lt_min hw0' (by linarith), fun v hv => ?_⟩)
    have h2 := abs_lt.1 (lt_of_lt_of_le hv (min_le_left _ _))
    have h3 := abs_lt.1 (lt_of_lt_of_le hv (min_le_right _ _))
    rw [hin v (by linarith) (by linarith)]
    congr 1; ring

theorem sd_pos (wt w grad : ℝ) :
    IsDistToSubdiff (pen (.pos) wt) w grad ((SepPen.pos : SepPen ℝ).sd1 wt w grad) := by
  rw [pen_pos]
  rcases lt_trichotomy w 0 with hw | hw | hw
  · have e : (SepPen.pos : SepPen ℝ).sd1 wt w grad = .inf := by
      simp only [SepPen.sd1, eqb_iff]
      rw [if_neg hw.ne, if_neg (not_lt.2 hw.le)]
    rw [e]
    exact dist_none (fun g => wp_infeasible hw g)
  · subst hw
    have e : (SepPen.pos : SepPen ℝ).sd1 wt 0 grad = .fin (max 0 (-grad - 0)) := by
      simp only [SepPen.sd1, eqb_iff, smax_eq]
      rw [if_pos trivial, sub_zero]
    rw [e]
    exact dist_Iic (fun g => wp_zero_pos 0 0 0 g ⟨1, one_pos, fun v _ _ => by ring⟩)
  · have e : (SepPen.pos : SepPen ℝ).sd1 wt w grad = .fin |grad + 0| := by
      simp only [SepPen.sd1, eqb_iff, sabs_eq]
      rw [if_neg hw.ne', if_pos hw, abs_neg, add_zero]
    rw [e]
    exact dist_eq (fun g => wp_away_quad (Or.inr hw) hw.ne' 0 0 0 g
      ⟨1, one_pos, fun v _ _ => by ring⟩)

theorem sd_logsum (a e : ℝ) (wt w grad : ℝ) (ha : 0 ≤ a) (he : 0 < e) :
    IsDistToSubdiff (pen (.logsum a e) wt) w grad ((SepPen.logsum a e).sd1 wt w grad) := by
  rw [pen_logsum]
  by_cases hw0 : w = 0
  · subst hw0
    have e1 : (SepPen.logsum a e).sd1 wt 0 grad = .fin (max 0 (|grad| - a / e)) := by
      simp only [SepPen.sd1, SepPen.sdZero, eqb_iff, sabs_eq, smax_eq]
      rw [if_pos trivial]
    rw [e1]
    have h0 : withPos false (fun u => a * Real.log (1 + |u| / e)) 0 = some 0 := by
      rw [withPos_some (Or.inl rfl)]; simp
    refine dist_Icc (div_nonneg ha he.le) (fun g' => subgrad_iff_kink g' h0 ?_ ?_)
    · have hd := hasDerivAt_logsum a e (-1) 0 (by simp)
      have hd' : HasDerivAt (fun v : ℝ => a * Real.log (1 + -1 * v / e)) (-(a / e)) 0 :=
        hd.congr_deriv (by simp; ring)
      refine SideSlope.of_deriv hd' (by simp) (Or.inr rfl) ⟨1, one_pos, fun t ht _ => ?_⟩
      rw [withPos_some (Or.inl rfl)]
      congr 4
      rw [zero_add, neg_one_mul, abs_neg, abs_of_pos ht]; ring
    · have hd := hasDerivAt_logsum a e 1 0 (by simp)
      have hd' : HasDerivAt (fun v : ℝ => a * Real.log (1 + 1 * v / e)) (a / e) 0 :=
        hd.congr_deriv (by simp; ring)
      refine SideSlope.of_deriv hd' (by simp) (Or.inl rfl) ⟨1, one_pos, fun t ht _ => ?_⟩
      rw [withPos_some (Or.inl rfl)]
      congr 4
      rw [zero_add, one_mul, abs_of_pos ht]; ring
  · have e1 : (SepPen.logsum a e).sd1 wt w grad = .fin |grad + sgn w * a / (e + |w|)| := by
      simp only [SepPen.sd1, eqb_iff, sabs_eq]
      rw [if_neg hw0]
    rw [e1]
    have hne : 1 + sgn w * w / e ≠ 0 := by
      rw [sgn_mul_eq_abs]
      have : 0 ≤ |w| / e := div_nonneg (abs_nonneg _) he.le
      linarith
    have hd := hasDerivAt_logsum a e (sgn w) w hne
    have hd' : HasDerivAt (fun v : ℝ => a * Real.log (1 + sgn w * v / e))
        (sgn w * a / (e + |w|)) w := by
      refine hd.congr_deriv ?_
      rw [sgn_mul_eq_abs] at hne ⊢
      have : e + |w| ≠ 0 := by have := abs_nonneg w; linarith
      field_simp
    refine dist_eq (fun g' => wp_away_deriv (Or.inl rfl) hw0 g' hd' (fun v hv => ?_))
    rw [abs_near hv]

theorem sd_l05 (a : ℝ) (wt w grad : ℝ) (ha : 0 < a) :
    IsDistToSubdiff (pen (.l05 a) wt) w grad ((SepPen.l05 a).sd1 wt w grad) := by
  rw [pen_l05]
  by_cases hw0 : w = 0
  · subst hw0
    have e1 : (SepPen.l05 a).sd1 wt 0 grad = .fin 0 := by
      simp only [SepPen.sd1, eqb_iff]
      rw [if_pos trivial]
    rw [e1]
    have e2 : (fun u : ℝ => a * Real.sqrt |u|) = (fun u : ℝ => a * |u| ^ ((1:ℝ) / 2)) := by
      funext u; rw [Real.sqrt_eq_rpow]
    rw [e2]
    exact dist_all (fun g' => subgrad_rpow_zero a (1 / 2) ha (by norm_num) (by norm_num) g')
  · have hwpos : 0 < |w| := abs_pos.2 hw0
    have e1 : (SepPen.l05 a).sd1 wt w grad = .fin |grad + sgn w * a / (2 * Real.sqrt |w|)| := by
      simp only [SepPen.sd1, eqb_iff, sabs_eq, nat_eq, scalar_sqrt_eq, Nat.cast_ofNat]
      rw [if_neg hw0, ← abs_neg]
      congr 2; ring
    rw [e1]
    have h1 : HasDerivAt (fun v : ℝ => sgn w * v) (sgn w) w := by
      simpa using (hasDerivAt_id w).const_mul (sgn w)
    have hne : sgn w * w ≠ 0 := by rw [sgn_mul_eq_abs]; exact hwpos.ne'
    have hd := (h1.sqrt hne).const_mul a
    have hd' : HasDerivAt (fun v : ℝ => a * Real.sqrt (sgn w * v))
        (sgn w * a / (2 * Real.sqrt |w|)) w := by
      refine hd.congr_deriv ?_
      rw [sgn_mul_eq_abs]; ring
    refine dist_eq (fun g' => wp_away_deriv (Or.inl rfl) hw0 g' hd' (fun v hv => ?_))
    rw [abs_near hv]

theorem sd_l23 (a : ℝ) (wt w grad : ℝ) (ha : 0 < a) :
    IsDistToSubdiff (pen (.l23 a) wt) w grad ((SepPen.l23 a).sd1 wt w grad) := by
  rw [pen_l23]
  by_cases hw0 : w = 0
  · subst hw0
    have e1 : (SepPen.l23 a).sd1 wt 0 grad = .fin 0 := by
      simp only [SepPen.sd1, eqb_iff]
      rw [if_pos trivial]
    rw [e1]
    exact dist_all (fun g' => subgrad_rpow_zero a (2 / 3) ha (by norm_num) (by norm_num) g')
  · have hwpos : 0 < |w| := abs_pos.2 hw0
    have e1 : (SepPen.l23 a).sd1 wt w grad
        = .fin |grad + sgn w * a * 2 / (3 * |w| ^ ((1:ℝ) / 3))| := by
      simp only [SepPen.sd1, eqb_iff, sabs_eq, nat_eq, frac_eq, scalar_pow_eq, Nat.cast_ofNat,
        Nat.cast_one]
      rw [if_neg hw0, ← abs_neg]
      congr 2; ring
    rw [e1]
    have h1 : HasDerivAt (fun v : ℝ => sgn w * v) (sgn w) w := by
      simpa using (hasDerivAt_id w).const_mul (sgn w)
    have hne : sgn w * w ≠ 0 := by rw [sgn_mul_eq_abs]; exact hwpos.ne'
    have hd := (h1.rpow_const (p := (2:ℝ) / 3) (Or.inl hne)).const_mul a
    have hd' : HasDerivAt (fun v : ℝ => a * (sgn w * v) ^ ((2:ℝ) / 3))
        (sgn w * a * 2 / (3 * |w| ^ ((1:ℝ) / 3))) w := by
      refine hd.congr_deriv ?_
      rw [sgn_mul_eq_abs]
      have e3 : (2:ℝ) / 3 - 1 = -(1 / 3) := by norm_num
      rw [e3, Real.rpow_neg (abs_nonneg w)]
      have : |w| ^ ((1:ℝ) / 3) ≠ 0 := (Real.rpow_pos_of_pos hwpos _).ne'
      field_simp
    refine dist_eq (fun g' => wp_away_deriv (Or.inl rfl) hw0 g' hd' (fun v hv => ?_))
    rw [abs_near hv]

/-- generic: the score is zero exactly at first-order stationary points -/
theorem score_zero_iff (φ : ℝ → Option ℝ) (w grad : ℝ) (d : Ext ℝ) (h : IsDistToSubdiff φ w grad d) :
    d = .fin 0 ↔ IsRegSubgrad φ w (-grad) := by
  cases d with
  | inf =>
    constructor
    · intro h'; cases h'
    · intro h'; exact absurd h' (h _)
  | fin d =>
    obtain ⟨⟨g0, hg0, hd0⟩, hlb⟩ := h
    constructor
    · intro h'
      injection h' with h'
      subst h'
      rw [abs_eq_zero, sub_eq_zero] at hd0
      rw [hd0]; exact hg0
    · intro hs
      have h1 := hlb _ hs
      rw [sub_self, abs_zero] at h1
      have h2 : 0 ≤ d := hd0 ▸ abs_nonneg _
      rw [le_antisymm h1 h2]

/-- Fermat's rule for a prox step: a global minimiser `w` of `½(·-x)² + s·φ` has
    `(x - w)/s` as a regular sub-gradient of `φ` at `w`. -/
theorem prox_min_subgrad (φ : ℝ → Option ℝ) (x s w : ℝ) (hs : 0 < s)
    (hmin : ∃ fw, φ w = some fw ∧ ∀ v, match φ v with
        | some fv => (w - x) ^ 2 / 2 + s * fw ≤ (v - x) ^ 2 / 2 + s * fv
        | none => True) :
    IsRegSubgrad φ w ((x - w) / s) := by
  obtain ⟨fw, hfw, H⟩ := hmin
  refine ⟨fw, hfw, fun ε hε => ⟨2 * s * ε, by positivity, fun v hv => ?_⟩⟩
  have := H v
  cases hφ : φ v with
  | none => trivial
  | some fv =>
    rw [hφ] at this
    simp only at this ⊢
    have ht0 : 0 ≤ |v - w| := abs_nonneg _
    have ht : |v - w| * |v - w| = (v - w) * (v - w) := abs_mul_abs_self _
    have e : s * ((x - w) / s * (v - w)) = (x - w) * (v - w) := by field_simp
    have : s * (fw + (x - w) / s * (v - w) - ε * |v - w|) ≤ s * fv := by
      have h3 := mul_le_mul_of_nonneg_left hv.le ht0
      nlinarith
    exact le_of_mul_le_mul_left this hs

end Skglm.Proofs
