import Skglm.Spec.Losses
import Skglm.Proofs.DatafitsAux
import Mathlib.Analysis.Calculus.Deriv.Basic
import Mathlib.Analysis.Calculus.Deriv.Add
import Mathlib.Analysis.Calculus.Deriv.Mul
import Mathlib.Analysis.SpecialFunctions.ExpDeriv
import Mathlib.Analysis.SpecialFunctions.Log.Deriv
/-
  Lemmas behind C06 / C09 (datafits): value = documented formula, the accessors are the
  derivatives, CSC accessors equal the dense ones, the step-size constants bound the curvature.
-/
namespace Skglm.Proofs
open Skglm Skglm.Spec

variable {n p : Nat}

/-! ### helpers -/

theorem value_eq (d : DF ℝ) (sw y u : Fin n → ℝ) (w : Fin p → ℝ) :
    d.value sw y u w
      = (∑ i, sw i * d.loss1 (y i) (u i)) / d.normaliser sw + d.lin * ∑ j, w j := by
  simp only [DF.value, vsum_eq]

/-- derivative of `value` along a differentiable path of linear predictors and coefficients -/
theorem value_hasDerivAt (d : DF ℝ) (sw y : Fin n → ℝ) (U : ℝ → Fin n → ℝ) (U' : Fin n → ℝ)
    (W : ℝ → Fin p → ℝ) (W' t0 : ℝ) (hU : ∀ i, HasDerivAt (fun t => U t i) (U' i) t0)
    (hW : HasDerivAt (fun t => ∑ j, W t j) W' t0)
    (hdelta : ∀ delta, d = .huber delta → 0 < delta) :
    HasDerivAt (fun t => d.value sw y (U t) (W t))
      ((∑ i, sw i * (d.dloss1 (y i) (U t0 i) * U' i)) / d.normaliser sw + d.lin * W') t0 := by
  simp only [value_eq]
  have hs : HasDerivAt (fun t => ∑ i, sw i * d.loss1 (y i) (U t i))
      (∑ i, sw i * (d.dloss1 (y i) (U t0 i) * U' i)) t0 :=
    HasDerivAt.fun_sum (fun i _ => by
      have h := (dloss1_hasDerivAt_aux d (y i) (U t0 i) hdelta).comp t0 (hU i)
      exact h.const_mul (sw i))
  exact (hs.div_const _).add (hW.const_mul _)

theorem update_hasDerivAt {m : Nat} (w : Fin m → ℝ) (j k : Fin m) (t0 : ℝ) :
    HasDerivAt (fun t => Function.update w j t k) (if k = j then 1 else 0) t0 := by
  by_cases h : k = j
  · subst h
    simp only [Function.update_self, if_true]
    exact hasDerivAt_id' t0
  · simp only [Function.update_of_ne h, if_neg h]
    exact hasDerivAt_const _ _

theorem sum_update_hasDerivAt {m : Nat} (w : Fin m → ℝ) (j : Fin m) (t0 : ℝ) :
    HasDerivAt (fun t => ∑ k, Function.update w j t k) 1 t0 :=
  (HasDerivAt.fun_sum (fun k _ => update_hasDerivAt w j k t0)).congr_deriv (by simp)

theorem interceptScale_pos (d : DF ℝ) : 0 < d.interceptScale := by
  cases d <;> simp [DF.interceptScale]

/-- `value()` is the documented formula (Huber: for `0 ≤ delta`) -/
theorem value_eq_doc (d : DF ℝ) (sw y u : Fin n → ℝ) (w : Fin p → ℝ)
    (hsw : d ≠ .wquadratic → ∀ i, sw i = 1)
    (hdelta : ∀ delta, d = .huber delta → 0 ≤ delta) :
    d.value sw y u w = docValue d sw y u w := by
  cases d with
  | quadratic =>
    have h1 := hsw (by simp)
    simp only [value_eq, docValue, DF.loss1, DF.normaliser, DF.lin, h1, nat_eq, Nat.cast_ofNat]
    rw [zero_mul, add_zero, Finset.mul_sum, Finset.sum_div]
    exact Finset.sum_congr rfl (fun i _ => by ring)
  | wquadratic =>
    simp only [value_eq, docValue, DF.loss1, DF.normaliser, DF.lin, vsum_eq, nat_eq,
      Nat.cast_ofNat]
    rw [zero_mul, add_zero, Finset.mul_sum, Finset.sum_div]
    exact Finset.sum_congr rfl (fun i _ => by ring)
  | logistic =>
    have h1 := hsw (by simp)
    simp only [value_eq, docValue, DF.loss1, DF.normaliser, DF.lin, h1, nat_eq,
      scalar_log_eq, scalar_exp_eq]
    rw [zero_mul, add_zero, Finset.mul_sum, Finset.sum_div]
    exact Finset.sum_congr rfl (fun i _ => by ring)
  | huber δ =>
    have h1 := hsw (by simp)
    simp only [value_eq, docValue, loss1_huber, DF.normaliser, DF.lin, h1, nat_eq]
    rw [zero_mul, add_zero, Finset.mul_sum, Finset.sum_div]
    refine Finset.sum_congr rfl (fun i _ => ?_)
    unfold huberF
    rcases lt_trichotomy (|y i - u i|) δ with h | h | h
    · rw [if_pos h, if_pos h.le, abs_mul_abs_self]; ring
    · rw [if_neg (by rw [h]; exact lt_irrefl _), if_pos h.le, ← sq_abs, h]; ring
    · rw [if_neg (not_lt.mpr h.le), if_neg (not_le.mpr h)]; ring
  | poisson =>
    have h1 := hsw (by simp)
    simp only [value_eq, docValue, DF.loss1, DF.normaliser, DF.lin, h1, nat_eq, scalar_exp_eq]
    rw [zero_mul, add_zero, Finset.mul_sum, Finset.sum_div]
    exact Finset.sum_congr rfl (fun i _ => by ring)
  | gamma =>
    have h1 := hsw (by simp)
    simp only [value_eq, docValue, DF.loss1, DF.normaliser, DF.lin, h1, nat_eq,
      scalar_log_eq, scalar_exp_eq]
    rw [zero_mul, add_zero, Finset.mul_sum, Finset.sum_div]
    exact Finset.sum_congr rfl (fun i _ => by ring)
  | svc =>
    have h1 := hsw (by simp)
    simp only [value_eq, docValue, DF.loss1, DF.normaliser, DF.lin, h1, nat_eq, Nat.cast_ofNat]
    rw [neg_one_mul, div_one, ← sub_eq_add_neg, Finset.mul_sum]
    congr 1
    exact Finset.sum_congr rfl (fun i _ => by ring)

/-- `dloss1` is the derivative of `loss1` in the linear predictor, at every point
    (Huber: `0 < delta`, kinks included: the Huber function is C¹; Gamma: any `y`) -/
theorem dloss1_hasDerivAt (d : DF ℝ) (y u : ℝ) (hdelta : ∀ delta, d = .huber delta → 0 < delta) :
    HasDerivAt (fun t => d.loss1 y t) (d.dloss1 y u) u := by
  exact dloss1_hasDerivAt_aux d y u hdelta

/-- `raw_grad` entry `i` is the partial derivative of `value` in the `i`-th linear predictor -/
theorem rawGrad_hasDerivAt (d : DF ℝ) (sw y u : Fin n → ℝ) (w : Fin p → ℝ) (i : Fin n)
    (hdelta : ∀ delta, d = .huber delta → 0 < delta) :
    HasDerivAt (fun t => d.value sw y (Function.update u i t) w) (d.rawGrad sw y u i) (u i) := by
  have := value_hasDerivAt d sw y (fun t => Function.update u i t)
    (fun k => if k = i then 1 else 0) (fun _ => w) 0 (u i)
    (fun k => update_hasDerivAt u i k (u i)) (hasDerivAt_const _ _) hdelta
  refine this.congr_deriv ?_
  simp only [Function.update_eq_self, DF.rawGrad, mul_zero, add_zero, mul_ite, mul_one,
    Finset.sum_ite_eq', Finset.mem_univ, if_true]

/-- `gradient_scalar(X, y, w, Xw, j)` with `Xw = X w + b` is the partial derivative of
    `w_j ↦ value(X w + b)` -/
theorem gradScalar_hasDerivAt (d : DF ℝ) (X : Fin n → Fin p → ℝ) (sw y : Fin n → ℝ) (w : Fin p → ℝ)
    (b : ℝ) (j : Fin p) (hdelta : ∀ delta, d = .huber delta → 0 < delta) :
    HasDerivAt
      (fun t => d.value sw y (fun i => (∑ k, X i k * (Function.update w j t) k) + b) (Function.update w j t))
      (d.gradScalar X sw y (fun i => (∑ k, X i k * w k) + b) j) (w j) := by
  have hU : ∀ i, HasDerivAt (fun t => (∑ k, X i k * (Function.update w j t) k) + b) (X i j)
      (w j) := by
    intro i
    have h1 : HasDerivAt (fun t => ∑ k, X i k * Function.update w j t k)
        (∑ k, X i k * (if k = j then 1 else 0)) (w j) :=
      HasDerivAt.fun_sum (fun k _ => (update_hasDerivAt w j k (w j)).const_mul (X i k))
    exact (h1.add_const b).congr_deriv (by simp)
  have := value_hasDerivAt d sw y (fun t i => (∑ k, X i k * (Function.update w j t) k) + b)
    (fun i => X i j) (fun t => Function.update w j t) 1 (w j) hU
    (sum_update_hasDerivAt w j (w j)) hdelta
  refine this.congr_deriv ?_
  simp only [Function.update_eq_self, DF.gradScalar, DF.rawGrad, vsum_eq, mul_one]
  rw [Finset.sum_div]
  congr 1
  exact Finset.sum_congr rfl (fun i _ => by ring)

/-- `intercept_update_step` is `1/L_0` (a positive constant) times the derivative in the intercept -/
theorem interceptStep_hasDerivAt (d : DF ℝ) (X : Fin n → Fin p → ℝ) (sw y : Fin n → ℝ) (w : Fin p → ℝ)
    (b : ℝ) (hdelta : ∀ delta, d = .huber delta → 0 < delta) :
    0 < d.interceptScale ∧ ∃ g, HasDerivAt (fun t => d.value sw y (fun i => (∑ k, X i k * w k) + t) w) g b ∧
      d.interceptStep sw y (fun i => (∑ k, X i k * w k) + b) = d.interceptScale * g := by
  refine ⟨interceptScale_pos d, _, value_hasDerivAt d sw y
    (fun t i => (∑ k, X i k * w k) + t) (fun _ => 1) (fun _ => w) 0 b
    (fun i => (hasDerivAt_id' b).const_add _) (hasDerivAt_const _ _) hdelta, ?_⟩
  simp only [DF.interceptStep, DF.rawGrad, vsum_eq, mul_one, mul_zero, add_zero]
  rw [Finset.sum_div]

/-- linear accessors on a CSC matrix equal the dense accessors on the matrix it represents
    (explicit zeros, unsorted rows and duplicate entries allowed) -/
theorem colDot_eq_dense (M : CSC ℝ n p) (j : Fin p) (f : Fin n → ℝ) :
    M.colDot j f = ∑ i, M.toDense i j * f i := by
  refine (foldl_colDot (M j) f 0).trans ?_
  rw [zero_add]
  simp only [toDense_eq]
  exact (sum_dense_mul _ f).symm

theorem gradScalarSparse_eq_dense (d : DF ℝ) (M : CSC ℝ n p) (sw y u : Fin n → ℝ) (j : Fin p) :
    d.gradScalarSparse M sw y u j = d.gradScalar M.toDense sw y u j := by
  simp only [DF.gradScalarSparse, DF.gradScalar, colDot_eq_dense, vsum_eq]

/-- `Xw += d * X[:, j]` on stored entries is the dense column update -/
theorem colAxpy_eq_dense (M : CSC ℝ n p) (j : Fin p) (c : ℝ) (u : Fin n → ℝ) (i : Fin n) :
    M.colAxpy j c u i = u i + c * M.toDense i j := by
  rw [toDense_eq]
  exact foldl_axpy (M j) c u i

/-- the sparse Lipschitz constants equal the dense ones when no row is stored twice in a column -/
theorem lipschitzSparse_eq_dense (d : DF ℝ) (M : CSC ℝ n p) (sw : Fin n → ℝ) (j : Fin p)
    (hnodup : ((M j).map Prod.fst).Nodup) :
    d.lipschitzSparse M sw j = d.lipschitz M.toDense sw j := by
  unfold DF.lipschitzSparse DF.lipschitz
  cases d.curvBound with
  | none => rfl
  | some c =>
    simp only [vsum_eq, toDense_eq]
    rw [foldl_lip (M j) sw 0 hnodup, zero_add]

/-! ### C09: curvature -/

/-- `d2loss1` is the derivative of `dloss1` (all datafits but Huber, whose `d2loss1` is a bound).
    Logistic needs the documented label domain `y ∈ {-1, 1}`: the true second derivative is
    `y² e/(1+e)²` and `raw_hessian` drops the `y²` (see the counterexample below). -/
theorem d2loss1_hasDerivAt (d : DF ℝ) (y u : ℝ) (hd : ∀ delta, d ≠ .huber delta)
    (hy : d = .logistic → y = 1 ∨ y = -1) :
    HasDerivAt (fun t => d.dloss1 y t) (d.d2loss1 y u) u :=
  d2loss1_hasDerivAt_aux d y u hd hy

/-- without the label hypothesis `d2loss1_hasDerivAt` is false: Logistic with `y = 0` -/
theorem d2loss1_hasDerivAt_counterexample :
    ¬ HasDerivAt (fun t => (DF.logistic : DF ℝ).dloss1 0 t) ((DF.logistic : DF ℝ).d2loss1 0 0) 0 := by
  intro h
  have h0 : HasDerivAt (fun t : ℝ => (DF.logistic : DF ℝ).dloss1 0 t) 0 0 := by
    have : (fun t : ℝ => (DF.logistic : DF ℝ).dloss1 0 t) = fun _ => 0 := by
      funext t; simp [DF.dloss1]
    rw [this]; exact hasDerivAt_const _ _
  have := h.unique h0
  simp [DF.d2loss1] at this

/-- the constant behind `get_lipschitz` bounds the second derivative (labels `±1` for Logistic) -/
theorem d2loss1_le_curvBound (d : DF ℝ) (c y u : ℝ) (hc : d.curvBound = some c)
    (hy : d = .logistic → y = 1 ∨ y = -1) : 0 ≤ d.d2loss1 y u ∧ d.d2loss1 y u ≤ c := by
  have _ := hy
  exact d2loss1_le_curvBound_aux d c y u hc

/-- per-sample quadratic upper bound ("`c`-smoothness"): this is what makes `1/L_j` a valid step -/
theorem loss1_smooth (d : DF ℝ) (c y u h : ℝ) (hc : d.curvBound = some c)
    (hy : d = .logistic → y = 1 ∨ y = -1) (hdelta : ∀ delta, d = .huber delta → 0 < delta) :
    d.loss1 y (u + h) ≤ d.loss1 y u + d.dloss1 y u * h + c / 2 * h ^ 2 := by
  by_cases hh : ∃ δ, d = .huber δ
  · obtain ⟨δ, rfl⟩ := hh
    have hc' : c = 1 := by simp [DF.curvBound] at hc; exact hc.symm
    subst hc'
    have := (huber_sandwich δ y u (u + h) (hdelta δ rfl)).2
    rw [add_sub_cancel_left] at this
    linarith
  · have hd : ∀ δ, d ≠ .huber δ := fun δ hδ => hh ⟨δ, hδ⟩
    exact smooth_of_deriv2_le (φ := fun t => d.loss1 y t) (φ' := fun t => d.dloss1 y t)
      (φ'' := fun t => d.d2loss1 y t)
      (fun t => dloss1_hasDerivAt_aux d y t hdelta)
      (fun t => d2loss1_hasDerivAt_aux d y t hd hy)
      (fun t => (d2loss1_le_curvBound_aux d c y t hc).2) u h

/-- the quadratic family meets the bound with equality: the constants are exact -/
theorem loss1_smooth_eq_quadratic (d : DF ℝ) (y u h : ℝ)
    (hd : d = .quadratic ∨ d = .wquadratic ∨ d = .svc) :
    d.loss1 y (u + h) = d.loss1 y u + d.dloss1 y u * h + 1 / 2 * h ^ 2 := by
  rcases hd with rfl | rfl | rfl <;>
    simp only [DF.loss1, DF.dloss1, nat_eq, Nat.cast_ofNat] <;> ring

/-- coordinate-wise descent lemma: `get_lipschitz(X, y)[j]` is a valid curvature bound of the
    loss along coordinate `j`, for every point and every step `t` -/
theorem coord_descent_lemma (d : DF ℝ) (c : ℝ) (X : Fin n → Fin p → ℝ) (sw y u : Fin n → ℝ)
    (w : Fin p → ℝ) (j : Fin p) (t : ℝ) (hc : d.curvBound = some c)
    (hsw : ∀ i, 0 ≤ sw i) (hN : 0 < d.normaliser sw)
    (hy : d = .logistic → ∀ i, y i = 1 ∨ y i = -1) (hdelta : ∀ delta, d = .huber delta → 0 < delta) :
    d.value sw y (fun i => u i + t * X i j) (Function.update w j (w j + t)) ≤
      d.value sw y u w + t * d.gradScalar X sw y u j + d.lipschitz X sw j / 2 * t ^ 2 := by
  have hw : ∑ k, Function.update w j (w j + t) k = (∑ k, w k) + t := by
    have : ∀ k, Function.update w j (w j + t) k = w k + (if k = j then t else 0) := by
      intro k
      by_cases hk : k = j
      · subst hk; simp
      · simp [hk]
    simp only [this, Finset.sum_add_distrib, Finset.sum_ite_eq', Finset.mem_univ, if_true]
  have hi : ∀ i, sw i * d.loss1 (y i) (u i + t * X i j) ≤
      sw i * d.loss1 (y i) (u i) + sw i * (d.dloss1 (y i) (u i) * (t * X i j))
        + sw i * (c / 2 * (t * X i j) ^ 2) := by
    intro i
    have := mul_le_mul_of_nonneg_left
      (loss1_smooth d c (y i) (u i) (t * X i j) hc (fun hl => hy hl i) hdelta) (hsw i)
    linarith
  have hsum := Finset.sum_le_sum (fun i (_ : i ∈ Finset.univ) => hi i)
  simp only [Finset.sum_add_distrib] at hsum
  have hdiv := div_le_div_of_nonneg_right hsum hN.le
  rw [add_div, add_div] at hdiv
  have e1 : (∑ i, sw i * (d.dloss1 (y i) (u i) * (t * X i j))) / d.normaliser sw
      = t * ∑ i, X i j * (sw i * d.dloss1 (y i) (u i) / d.normaliser sw) := by
    rw [Finset.sum_div, Finset.mul_sum]
    exact Finset.sum_congr rfl (fun i _ => by ring)
  have e2 : (∑ i, sw i * (c / 2 * (t * X i j) ^ 2)) / d.normaliser sw
      = (∑ i, sw i * (X i j * X i j)) * c / d.normaliser sw / 2 * t ^ 2 := by
    simp only [Finset.sum_div, Finset.sum_mul]
    exact Finset.sum_congr rfl (fun i _ => by ring)
  rw [e1, e2] at hdiv
  simp only [value_eq, hw, DF.gradScalar, DF.rawGrad, DF.lipschitz, hc, vsum_eq]
  linarith

end Skglm.Proofs
