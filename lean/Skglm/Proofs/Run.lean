import Skglm.Proofs.CD
import Skglm.Properties.C07
import Skglm.Properties.C08
/-
  Runs of the coordinate-descent solver: every state the solver can be in — after any number of
  outer iterations, epochs, coordinate updates, intercept updates and accepted or rejected
  extrapolations, for every working set and every extrapolation coefficients — is `Reach`able from
  the start state.  The invariants are proved by induction over `Reach`, so they hold at every
  stopping point (`max_iter`, `max_epochs` exhausted or tolerance met).
-/
namespace Skglm.Proofs
open Skglm Skglm.Spec
variable {n p : Nat}

/-- states reachable from `s₀` by the moves of `AndersonCD._solve` -/
inductive Reach (P : CDProb ℝ n p) (s₀ : CDState ℝ n p) : CDState ℝ n p → Prop
  | start : Reach P s₀ s₀
  | coord {s} (j : Fin p) : Reach P s₀ s → Reach P s₀ (P.cdStep s j)
  | intercept {s} : Reach P s₀ s → P.fitInt = true → Reach P s₀ (P.interceptMove s)
  /-- guarded acceptance of the point extrapolated from `K` previously visited states that differ
      from the current one only on the working set -/
  | accept {s} {K : Nat} (inWs : Fin p → Bool) (buf : Fin K → CDState ℝ n p) (c : Fin K → ℝ) :
      Reach P s₀ s → (∀ k, Reach P s₀ (buf k)) → (∑ k, c k = 1) →
      (∀ k j, inWs j = false → (buf k).w j = s.w j) →
      Reach P s₀ (P.acceptMove s (CDProb.extrapPoint inWs s buf c))

/-- a whole epoch over any working set stays inside `Reach` -/
theorem reach_epoch (P : CDProb ℝ n p) (s₀ s : CDState ℝ n p) (ws : List (Fin p)) (h : Reach P s₀ s) :
    Reach P s₀ (P.cdEpoch s ws) := by
  sorry

/-- C05 / C01 (I1): the model-fit buffer equals `X w + b` in every reachable state -/
theorem reach_consistent (P : CDProb ℝ n p) (s₀ s : CDState ℝ n p) (h₀ : Consistent P s₀)
    (h : Reach P s₀ s) : Consistent P s := by
  sorry

/-- C04: every reachable state is feasible (penalties with a configured constraint), provided the
    prox steps are taken with admissible hyper-parameters -/
theorem reach_feasible (P : CDProb ℝ n p) (s₀ s : CDState ℝ n p) (h₀ : Feasible P s₀.w)
    (hadm : ∀ j, Admissible P.pen (P.wts j) (CDProb.stepsize (P.df.lipschitz P.X P.sw j)))
    (hg : ∀ a g pos, P.pen = .mcp a g pos ∨ P.pen = .wmcp a g pos → 0 < g)
    (h : Reach P s₀ s) : Feasible P s.w := by
  sorry

/-- C03: the solver's objective never increases along a run: whatever the budget, the point reached
    is no worse than the start, and (taking `s₀` to be any intermediate state) the objective is
    non-increasing in the budget granted -/
theorem reach_descent (P : CDProb ℝ n p) (s₀ s : CDState ℝ n p) (hP : WellPosed P)
    (hsw1 : P.df ≠ .wquadratic → ∀ i, P.sw i = 1) (hsvc : P.fitInt = true → P.df ≠ .svc)
    (hL : ∀ j, 0 < P.df.lipschitz P.X P.sw j)
    (hprox : ∀ j, ProxOptimal P j (1 / P.df.lipschitz P.X P.sw j))
    (hg : ∀ a g pos, P.pen = .mcp a g pos ∨ P.pen = .wmcp a g pos → 0 < g)
    (h : Reach P s₀ s) : Ext.le (P.objective s) (P.objective s₀) = true := by
  sorry

/-- `Ext.le` is transitive (used to chain runs: budget `k` then budget `k' - k`) -/
theorem Ext_le_trans (a b c : Ext ℝ) (h1 : Ext.le a b = true) (h2 : Ext.le b c = true) :
    Ext.le a c = true := by
  sorry

/-- C03 + C05 + C17 combined: in a reachable state from a consistent feasible start, the objective the
    solver computes *is* the documented objective of `(w, b)`, and it is at most the documented
    objective of the start -/
theorem reach_true_descent (P : CDProb ℝ n p) (s₀ s : CDState ℝ n p) (hP : WellPosed P)
    (hsw1 : P.df ≠ .wquadratic → ∀ i, P.sw i = 1) (hsvc : P.fitInt = true → P.df ≠ .svc)
    (hL : ∀ j, 0 < P.df.lipschitz P.X P.sw j)
    (hprox : ∀ j, ProxOptimal P j (1 / P.df.lipschitz P.X P.sw j))
    (hadm : ∀ j, Admissible P.pen (P.wts j) (CDProb.stepsize (P.df.lipschitz P.X P.sw j)))
    (hg : ∀ a g pos, P.pen = .mcp a g pos ∨ P.pen = .wmcp a g pos → 0 < g)
    (hc₀ : Consistent P s₀) (hf₀ : Feasible P s₀.w) (h : Reach P s₀ s) :
    P.objective s = .fin (trueObj P s.w s.b) ∧ trueObj P s.w s.b ≤ trueObj P s₀.w s₀.b := by
  sorry

/-- the C07 theorems discharge `ProxOptimal` for the penalties they cover -/
theorem proxOptimal_of_admissible (P : CDProb ℝ n p) (j : Fin p) (st : ℝ)
    (hpen : (∃ a pos, P.pen = .l1 a pos) ∨ (∃ a pos, P.pen = .wl1 a pos) ∨ (∃ a r pos, P.pen = .l1l2 a r pos) ∨
            (∃ a g pos, P.pen = .mcp a g pos) ∨ (∃ a g pos, P.pen = .wmcp a g pos) ∨
            (∃ a, P.pen = .box a) ∨ P.pen = .pos)
    (hadm : Admissible P.pen (P.wts j) st) : ProxOptimal P j st := by
  sorry

/-- the C08 theorems discharge the score hypothesis of `stopCrit_certificate` -/
theorem score_is_distance (pn : SepPen ℝ) (wt w grad : ℝ) (hadm : ∃ s, Admissible pn wt s)
    (hbox : ∀ a, pn = .box a → 0 < a ∧ 0 ≤ w ∧ w ≤ a)
    (hscad : ∀ a g, pn = .scad a g → 1 < g)
    (hroot : ∀ a, pn = .l05 a ∨ pn = .l23 a → 0 < a) :
    IsDistToSubdiff (pen pn wt) w grad (pn.sd1 wt w grad) := by
  sorry

/-- C01 for AndersonCD (sub-differential strategy): in any reachable state, if the stopping criterion
    is at most `tol` then `(w, b)` satisfies first-order optimality within `tol` for the documented
    problem — for every start point, working-set sequence, budget and extrapolation -/
theorem reach_stop_certificate (P : CDProb ℝ n p) (s₀ s : CDState ℝ n p) (c tol : ℝ)
    (hc₀ : Consistent P s₀) (h : Reach P s₀ s)
    (hadm : ∀ j, ∃ st, Admissible P.pen (P.wts j) st)
    (hbox : ∀ a, P.pen = .box a → 0 < a ∧ ∀ j, 0 ≤ s.w j ∧ s.w j ≤ a)
    (hscad : ∀ a g, P.pen = .scad a g → 1 < g)
    (hroot : ∀ a, P.pen = .l05 a ∨ P.pen = .l23 a → 0 < a)
    (hstop : P.stopCrit false s = .fin c) (hc : c ≤ tol) :
    Certificate P s.w s.b tol := by
  sorry

end Skglm.Proofs
