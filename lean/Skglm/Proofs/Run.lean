import Skglm.Proofs.CD
import Skglm.Properties.C07
import Skglm.Properties.C08
/-
  Runs of the coordinate-descent solver: every state the solver can be in — after any number of
  outer iterations, epochs, coordinate updates, intercept updates and accepted or rejected
  extrapolations, for every working set and every extrapolation coefficients — is `Reach`able from
  the start state.  The invariants are proved by induction over `Reach`, so they hold at every
  stopping point (`max_iter`, `max_epochs` exhausted or tolerance met).
-/
namespace Skglm.Proofs
open Skglm Skglm.Spec
variable {n p : Nat}

/-- states reachable from `s₀` by the moves of `AndersonCD._solve` -/
inductive Reach (P : CDProb ℝ n p) (s₀ : CDState ℝ n p) : CDState ℝ n p → Prop
  | start : Reach P s₀ s₀
  | coord {s} (j : Fin p) : Reach P s₀ s → Reach P s₀ (P.cdStep s j)
  | intercept {s} : Reach P s₀ s → P.fitInt = true → Reach P s₀ (P.interceptMove s)
  /-- guarded acceptance of the point extrapolated from `K` previously visited states that differ
      from the current one only on the working set -/
  | accept {s} {K : Nat} (inWs : Fin p → Bool) (buf : Fin K → CDState ℝ n p) (c : Fin K → ℝ) :
      Reach P s₀ s → (∀ k, Reach P s₀ (buf k)) → (∑ k, c k = 1) →
      (∀ k j, inWs j = false → (buf k).w j = s.w j) →
      Reach P s₀ (P.acceptMove s (CDProb.extrapPoint inWs s buf c))

/-- a whole epoch over any working set stays inside `Reach` -/
theorem reach_epoch (P : CDProb ℝ n p) (s₀ s : CDState ℝ n p) (ws : List (Fin p)) (h : Reach P s₀ s) :
    Reach P s₀ (P.cdEpoch s ws) := by
  unfold CDProb.cdEpoch
  induction ws generalizing s with
  | nil => exact h
  | cons j ws ih => exact ih _ (Reach.coord j h)

/-- C05 / C01 (I1): the model-fit buffer equals `X w + b` in every reachable state -/
theorem reach_consistent (P : CDProb ℝ n p) (s₀ s : CDState ℝ n p) (h₀ : Consistent P s₀)
    (h : Reach P s₀ s) : Consistent P s := by
  induction h with
  | start => exact h₀
  | coord j _ ih => exact cdStep_consistent P _ j ih
  | intercept _ _ ih => exact interceptMove_consistent P _ ih
  | accept inWs buf c _ _ hc hout ih ihbuf =>
    exact acceptMove_consistent P _ _ ih (extrapPoint_consistent P inWs _ buf c hc ihbuf hout)

/-- C04: every reachable state is feasible (penalties with a configured constraint), provided the
    prox steps are taken with admissible hyper-parameters -/
theorem reach_feasible (P : CDProb ℝ n p) (s₀ s : CDState ℝ n p) (h₀ : Feasible P s₀.w)
    (hadm : ∀ j, Admissible P.pen (P.wts j) (CDProb.stepsize (P.df.lipschitz P.X P.sw j)))
    (hg : ∀ a g pos, P.pen = .mcp a g pos ∨ P.pen = .wmcp a g pos → 0 < g)
    (h : Reach P s₀ s) : Feasible P s.w := by
  induction h with
  | start => exact h₀
  | coord j _ ih => exact cdStep_feasible P _ j ih (hadm j)
  | intercept _ _ ih => exact ih
  | accept inWs buf c _ _ _ _ ih _ => exact acceptMove_feasible P _ _ ih hg

theorem Ext_le_trans_aux (a b c : Ext ℝ) (h1 : Ext.le a b = true) (h2 : Ext.le b c = true) :
    Ext.le a c = true := by
  cases a <;> cases b <;> cases c <;>
    first
    | (simp [Ext.le] at h1 h2 ⊢; exact h1.trans h2)
    | (simp [Ext.le] at h1 h2 ⊢)

theorem Ext_le_refl (a : Ext ℝ) : Ext.le a a = true := by
  cases a <;> simp [Ext.le]

/-- C03: the solver's objective never increases along a run: whatever the budget, the point reached
    is no worse than the start, and (taking `s₀` to be any intermediate state) the objective is
    non-increasing in the budget granted -/
theorem reach_descent (P : CDProb ℝ n p) (s₀ s : CDState ℝ n p) (hP : WellPosed P)
    (hsw1 : P.df ≠ .wquadratic → ∀ i, P.sw i = 1) (hsvc : P.fitInt = true → P.df ≠ .svc)
    (hL : ∀ j, 0 < P.df.lipschitz P.X P.sw j)
    (hprox : ∀ j, ProxOptimal P j (1 / P.df.lipschitz P.X P.sw j))
    (hg : ∀ a g pos, P.pen = .mcp a g pos ∨ P.pen = .wmcp a g pos → 0 < g)
    (h : Reach P s₀ s) : Ext.le (P.objective s) (P.objective s₀) = true := by
  have trans := @Ext_le_trans_aux
  induction h with
  | start =>
    exact Ext_le_refl _
  | coord j _ ih => exact trans _ _ _ (cdStep_descent P _ j hP (hL j) (hprox j) hg) ih
  | intercept _ hfit ih =>
    exact trans _ _ _ (interceptMove_descent P _ hP (hsvc hfit) hsw1) ih
  | accept inWs buf c _ _ _ _ ih _ => exact trans _ _ _ (acceptMove_descent P _ _) ih

/-- `Ext.le` is transitive (used to chain runs: budget `k` then budget `k' - k`) -/
theorem Ext_le_trans (a b c : Ext ℝ) (h1 : Ext.le a b = true) (h2 : Ext.le b c = true) :
    Ext.le a c = true := by
  exact Ext_le_trans_aux a b c h1 h2

/-- C03 + C05 + C17 combined: in a reachable state from a consistent feasible start, the objective the
    solver computes *is* the documented objective of `(w, b)`, and it is at most the documented
    objective of the start -/
theorem reach_true_descent (P : CDProb ℝ n p) (s₀ s : CDState ℝ n p) (hP : WellPosed P)
    (hsw1 : P.df ≠ .wquadratic → ∀ i, P.sw i = 1) (hsvc : P.fitInt = true → P.df ≠ .svc)
    (hL : ∀ j, 0 < P.df.lipschitz P.X P.sw j)
    (hprox : ∀ j, ProxOptimal P j (1 / P.df.lipschitz P.X P.sw j))
    (hadm : ∀ j, Admissible P.pen (P.wts j) (CDProb.stepsize (P.df.lipschitz P.X P.sw j)))
    (hg : ∀ a g pos, P.pen = .mcp a g pos ∨ P.pen = .wmcp a g pos → 0 < g)
    (hc₀ : Consistent P s₀) (hf₀ : Feasible P s₀.w) (h : Reach P s₀ s) :
    P.objective s = .fin (trueObj P s.w s.b) ∧ trueObj P s.w s.b ≤ trueObj P s₀.w s₀.b := by
  have hc := reach_consistent P s₀ s hc₀ h
  have hf := reach_feasible P s₀ s hf₀ hadm hg h
  have e := objective_eq_trueObj P s hc hf hg
  have e0 := objective_eq_trueObj P s₀ hc₀ hf₀ hg
  have d := reach_descent P s₀ s hP hsw1 hsvc hL hprox hg h
  rw [e, e0] at d
  simp only [Ext.le, decide_eq_true_eq] at d
  exact ⟨e, d⟩

/-- the C07 theorems discharge `ProxOptimal` for the penalties they cover -/
theorem proxOptimal_of_admissible (P : CDProb ℝ n p) (j : Fin p) (st : ℝ)
    (hpen : (∃ a pos, P.pen = .l1 a pos) ∨ (∃ a pos, P.pen = .wl1 a pos) ∨ (∃ a r pos, P.pen = .l1l2 a r pos) ∨
            (∃ a g pos, P.pen = .mcp a g pos) ∨ (∃ a g pos, P.pen = .wmcp a g pos) ∨
            (∃ a, P.pen = .box a) ∨ P.pen = .pos)
    (hadm : Admissible P.pen (P.wts j) st) : ProxOptimal P j st := by
  intro x v
  rcases hpen with ⟨a, pos, hp⟩ | ⟨a, pos, hp⟩ | ⟨a, r, pos, hp⟩ | ⟨a, g, pos, hp⟩ |
    ⟨a, g, pos, hp⟩ | ⟨a, hp⟩ | hp <;> rw [hp] at hadm ⊢
  · exact C07.prox_l1 a pos _ x st hadm v
  · exact C07.prox_wl1 a pos _ x st hadm v
  · exact C07.prox_l1l2 a r pos _ x st hadm v
  · exact C07.prox_mcp a g pos _ x st hadm v
  · exact C07.prox_wmcp a g pos _ x st hadm v
  · exact C07.prox_box a _ x st hadm v
  · exact C07.prox_pos _ x st hadm v

/-- the C08 theorems discharge the score hypothesis of `stopCrit_certificate` -/
theorem score_is_distance (pn : SepPen ℝ) (wt w grad : ℝ) (hadm : ∃ s, Admissible pn wt s)
    (hbox : ∀ a, pn = .box a → 0 < a ∧ 0 ≤ w ∧ w ≤ a)
    (hscad : ∀ a g, pn = .scad a g → 1 < g)
    (hroot : ∀ a, pn = .l05 a ∨ pn = .l23 a → 0 < a) :
    IsDistToSubdiff (pen pn wt) w grad (pn.sd1 wt w grad) := by
  obtain ⟨s, _, hwt, hrest⟩ := hadm
  cases pn with
  | l1 a pos => exact C08.sd_l1 a pos wt w grad hrest
  | l1l2 a r pos =>
    have h' : 0 ≤ a ∧ 0 ≤ r ∧ r ≤ 1 := hrest
    exact C08.sd_l1l2 a r pos wt w grad h'.1 h'.2.1 h'.2.2
  | wl1 a pos => exact C08.sd_wl1 a pos wt w grad hrest hwt
  | mcp a g pos =>
    have h' : 0 ≤ a ∧ 0 < g ∧ s < g := hrest
    exact C08.sd_mcp a g pos wt w grad h'.1 h'.2.1
  | wmcp a g pos =>
    have h' : 0 ≤ a ∧ 0 < g ∧ wt * s < g := hrest
    exact C08.sd_wmcp a g pos wt w grad h'.1 h'.2.1 hwt
  | scad a g =>
    have h' : 0 ≤ a ∧ 2 < g ∧ s < g - 1 := hrest
    exact C08.sd_scad a g wt w grad h'.1 (hscad a g rfl)
  | box a =>
    obtain ⟨ha, hw0, hwa⟩ := hbox a rfl
    exact C08.sd_box a wt w grad ha hw0 hwa
  | l05 a => exact C08.sd_l05 a wt w grad (hroot a (Or.inl rfl))
  | l23 a => exact C08.sd_l23 a wt w grad (hroot a (Or.inr rfl))
  | logsum a e =>
    have h' : 0 ≤ a ∧ 0 < e := hrest
    exact C08.sd_logsum a e wt w grad h'.1 h'.2
  | pos => exact C08.sd_pos wt w grad

/-- C01 for AndersonCD (sub-differential strategy): in any reachable state, if the stopping criterion
    is at most `tol` then `(w, b)` satisfies first-order optimality within `tol` for the documented
    problem — for every start point, working-set sequence, budget and extrapolation -/
theorem reach_stop_certificate (P : CDProb ℝ n p) (s₀ s : CDState ℝ n p) (c tol : ℝ)
    (hc₀ : Consistent P s₀) (h : Reach P s₀ s)
    (hadm : ∀ j, ∃ st, Admissible P.pen (P.wts j) st)
    (hbox : ∀ a, P.pen = .box a → 0 < a ∧ ∀ j, 0 ≤ s.w j ∧ s.w j ≤ a)
    (hscad : ∀ a g, P.pen = .scad a g → 1 < g)
    (hroot : ∀ a, P.pen = .l05 a ∨ P.pen = .l23 a → 0 < a)
    (hstop : P.stopCrit false s = .fin c) (hc : c ≤ tol) :
    Certificate P s.w s.b tol := by
  have hcs := reach_consistent P s₀ s hc₀ h
  have hscale : 1 ≤ P.df.interceptScale := by
    cases P.df <;> simp [DF.interceptScale]
  refine stopCrit_certificate P s c tol hcs (fun j => ?_) hscale hstop hc
  exact score_is_distance P.pen (P.wts j) (s.w j) _ (hadm j)
    (fun a hp => ⟨(hbox a hp).1, (hbox a hp).2 j⟩) hscad hroot

end Skglm.Proofs
