import Skglm.Spec.Solver
import Skglm.Proofs.Datafits
import Skglm.Proofs.Prox
import Skglm.Proofs.CDAuxA
import Skglm.Proofs.CDAuxB
/-
  Lemmas behind the solver-level properties (C01, C03, C04, C05, C10, C17) for the
  coordinate-descent moves: each move preserves the invariants, for every state, every
  working set (any list of features, repetitions allowed), every extrapolation coefficients.
-/
namespace Skglm.Proofs
open Skglm Skglm.Spec
variable {n p : Nat}

/-! ### I1 — buffer consistency (C05, C01) -/

theorem cdStep_consistent (P : CDProb ℝ n p) (s : CDState ℝ n p) (j : Fin p) (h : Consistent P s) :
    Consistent P (P.cdStep s j) := by
  exact CDA.cdStep_consistent P s j h

theorem cdEpoch_consistent (P : CDProb ℝ n p) (s : CDState ℝ n p) (ws : List (Fin p))
    (h : Consistent P s) : Consistent P (P.cdEpoch s ws) := by
  exact CDA.cdEpoch_consistent P s ws h

theorem interceptMove_consistent (P : CDProb ℝ n p) (s : CDState ℝ n p) (h : Consistent P s) :
    Consistent P (P.interceptMove s) := by
  exact CDA.interceptMove_consistent P s h

/-- the extrapolated point is consistent for *every* coefficient vector summing to one, provided the
    buffered iterates are consistent and coincide with the current point outside the working set -/
theorem extrapPoint_consistent {K : Nat} (P : CDProb ℝ n p) (inWs : Fin p → Bool) (cur : CDState ℝ n p)
    (buf : Fin K → CDState ℝ n p) (c : Fin K → ℝ) (hc : ∑ k, c k = 1)
    (hbuf : ∀ k, Consistent P (buf k))
    (hout : ∀ k j, inWs j = false → (buf k).w j = cur.w j) :
    Consistent P (CDProb.extrapPoint inWs cur buf c) := by
  exact CDA.extrapPoint_consistent P inWs cur buf c hc hbuf hout

theorem acceptMove_consistent (P : CDProb ℝ n p) (s acc : CDState ℝ n p) (hs : Consistent P s)
    (ha : Consistent P acc) : Consistent P (P.acceptMove s acc) := by
  exact CDA.acceptMove_consistent P s acc hs ha

/-- only the coordinates of the working set (and the intercept) move during an epoch -/
theorem cdEpoch_outside (P : CDProb ℝ n p) (s : CDState ℝ n p) (ws : List (Fin p)) (j : Fin p)
    (hj : j ∉ ws) : (P.cdEpoch s ws).w j = s.w j ∧ (P.cdEpoch s ws).b = s.b := by
  exact CDA.cdEpoch_outside P s ws j hj

/-! ### C10 — the CSC epoch is the dense epoch on the represented matrix -/

theorem cdStepSparse_eq_dense (P : CDProb ℝ n p) (M : CSC ℝ n p) (s : CDState ℝ n p) (j : Fin p)
    (hX : P.X = M.toDense) (hnodup : ∀ j, ((M j).map Prod.fst).Nodup) :
    P.cdStepSparse M s j = P.cdStep s j := by
  exact CDA.cdStepSparse_eq_dense P M s j hX hnodup

theorem cdEpochSparse_eq_dense (P : CDProb ℝ n p) (M : CSC ℝ n p) (s : CDState ℝ n p)
    (ws : List (Fin p)) (hX : P.X = M.toDense) (hnodup : ∀ j, ((M j).map Prod.fst).Nodup) :
    P.cdEpochSparse M s ws = P.cdEpoch s ws := by
  exact CDA.cdEpochSparse_eq_dense P M s ws hX hnodup

/-! ### the solver's objective is the documented objective on consistent states (C17) -/

/-- `penalty.value` summand = documented penalty with the constraint as an indicator -/
theorem pen1_eq_spec (pn : SepPen ℝ) (wt w : ℝ) (hg : ∀ a g pos, pn = .mcp a g pos ∨ pn = .wmcp a g pos → 0 < g)
    : Ext.toOption (pn.pen1 wt w) = pen pn wt w := by
  exact CDB.pen1_eq_spec pn wt w hg

theorem objective_eq_trueObj (P : CDProb ℝ n p) (s : CDState ℝ n p) (h : Consistent P s)
    (hf : Feasible P s.w)
    (hg : ∀ a g pos, P.pen = .mcp a g pos ∨ P.pen = .wmcp a g pos → 0 < g) :
    P.objective s = .fin (trueObj P s.w s.b) := by
  exact CDB.objective_eq_trueObj P s h hf hg

theorem objective_inf_of_infeasible (P : CDProb ℝ n p) (s : CDState ℝ n p) (hf : ¬ Feasible P s.w)
    (hg : ∀ a g pos, P.pen = .mcp a g pos ∨ P.pen = .wmcp a g pos → 0 < g) :
    P.objective s = .inf := by
  exact CDB.objective_inf_of_infeasible P s hf hg

/-! ### C03 — every move is a descent move -/

/-- a coordinate step with the code's step `1/L_j` does not increase the objective
    (convex penalties, and non-convex ones inside their well-posed step range) -/
theorem cdStep_descent (P : CDProb ℝ n p) (s : CDState ℝ n p) (j : Fin p) (hP : WellPosed P)
    (hL : 0 < P.df.lipschitz P.X P.sw j)
    (hprox : ProxOptimal P j (1 / P.df.lipschitz P.X P.sw j))
    (hg : ∀ a g pos, P.pen = .mcp a g pos ∨ P.pen = .wmcp a g pos → 0 < g) :
    Ext.le (P.objective (P.cdStep s j)) (P.objective s) = true := by
  exact CDB.cdStep_descent P s j hP hL hprox hg

/-- the intercept step does not increase the objective.  `hsw1` (unit sample weights for the
    datafits that take none) is needed: `value` and `intercept_update_step` both use `P.sw`, so with
    `Quadratic`, `n = 1`, `sw = 10`, `y = 0`, `Xw = 1` the step is `10` and the value goes from `5`
    to `405`. -/
theorem interceptMove_descent (P : CDProb ℝ n p) (s : CDState ℝ n p) (hP : WellPosed P)
    (hsvc : P.df ≠ .svc) (hsw1 : P.df ≠ .wquadratic → ∀ i, P.sw i = 1) :
    Ext.le (P.objective (P.interceptMove s)) (P.objective s) = true := by
  exact CDB.interceptMove_descent P s hP hsvc hsw1

/-- accepting an extrapolated point never increases the objective (whatever the point is) -/
theorem acceptMove_descent (P : CDProb ℝ n p) (s acc : CDState ℝ n p) :
    Ext.le (P.objective (P.acceptMove s acc)) (P.objective s) = true := by
  exact CDB.acceptMove_descent P s acc

/-! ### C04 — feasibility is preserved by every move -/

theorem cdStep_feasible (P : CDProb ℝ n p) (s : CDState ℝ n p) (j : Fin p) (hf : Feasible P s.w)
    (hadm : Admissible P.pen (P.wts j) (CDProb.stepsize (P.df.lipschitz P.X P.sw j))) :
    Feasible P (P.cdStep s j).w := by
  exact CDB.cdStep_feasible P s j hf hadm

theorem acceptMove_feasible (P : CDProb ℝ n p) (s acc : CDState ℝ n p) (hf : Feasible P s.w)
    (hg : ∀ a g pos, P.pen = .mcp a g pos ∨ P.pen = .wmcp a g pos → 0 < g) :
    Feasible P (P.acceptMove s acc).w := by
  exact CDB.acceptMove_feasible P s acc hf hg

/-! ### C01 — the stopping criterion is a certificate -/

/-- if the criterion computed by the outer loop (sub-differential strategy) is at most `tol` on a
    consistent state, the point `(w, b)` satisfies first-order optimality within `tol` for the
    documented problem, with the violation expressed from `X, y, w, b` alone. -/
theorem stopCrit_certificate (P : CDProb ℝ n p) (s : CDState ℝ n p) (c tol : ℝ) (h : Consistent P s)
    (hpen : ∀ j, IsDistToSubdiff (pen P.pen (P.wts j)) (s.w j)
        (P.df.gradScalar P.X P.sw P.y s.Xw j) (P.pen.sd1 (P.wts j) (s.w j) (P.df.gradScalar P.X P.sw P.y s.Xw j)))
    (hscale : 1 ≤ P.df.interceptScale)
    (hstop : P.stopCrit false s = .fin c) (hc : c ≤ tol) :
    Certificate P s.w s.b tol := by
  exact CDA.stopCrit_certificate P s c tol h hpen hscale hstop hc

end Skglm.Proofs
