import Skglm.Spec.Losses
import Mathlib.Analysis.Calculus.Deriv.Basic
import Mathlib.Analysis.Calculus.Deriv.Add
import Mathlib.Analysis.Calculus.Deriv.Mul
import Mathlib.Analysis.Calculus.Deriv.Comp
import Mathlib.Analysis.Calculus.Deriv.Inv
import Mathlib.Analysis.Calculus.Deriv.Shift
import Mathlib.Analysis.Calculus.Deriv.MeanValue
import Mathlib.Analysis.SpecialFunctions.ExpDeriv
import Mathlib.Analysis.SpecialFunctions.Log.Deriv
/-
  Scalar / list lemmas behind `Skglm/Proofs/Datafits.lean`.
-/
namespace Skglm.Proofs
open Skglm Skglm.Spec

/-! ### two analysis lemmas -/

/-- a function squeezed by a quadratic around its tangent is differentiable there -/
theorem hasDerivAt_of_sq_bound {f : ℝ → ℝ} {f' x C : ℝ}
    (h : ∀ x', |f x' - f x - f' * (x' - x)| ≤ C * (x' - x) ^ 2) : HasDerivAt f f' x := by
  rw [hasDerivAt_iff_isLittleO, Asymptotics.isLittleO_iff]
  intro c hc
  rw [Metric.eventually_nhds_iff]
  refine ⟨c / (|C| + 1), by positivity, fun x' hx' => ?_⟩
  rw [Real.dist_eq] at hx'
  simp only [smul_eq_mul, Real.norm_eq_abs]
  have h1 := h x'
  have ha : 0 ≤ |x' - x| := abs_nonneg _
  have hb : |x' - x| * (|C| + 1) < c := by rwa [lt_div_iff₀ (by positivity)] at hx'
  have h2 : C * (x' - x) ^ 2 ≤ c * |x' - x| := by
    have e : (x' - x) ^ 2 = |x' - x| * |x' - x| := by rw [← sq, sq_abs]
    rw [e]
    nlinarith [mul_nonneg (mul_nonneg (sub_nonneg.2 (le_abs_self C)) ha) ha,
      mul_nonneg ha (sub_nonneg.2 hb.le), mul_nonneg ha ha]
  rw [mul_comm (x' - x) f']
  linarith

/-- second derivative bounded by `c` ⇒ quadratic upper bound with constant `c` -/
theorem smooth_of_deriv2_le {φ φ' φ'' : ℝ → ℝ} {c : ℝ}
    (h1 : ∀ t, HasDerivAt φ (φ' t) t) (h2 : ∀ t, HasDerivAt φ' (φ'' t) t)
    (hc : ∀ t, φ'' t ≤ c) (u h : ℝ) :
    φ (u + h) ≤ φ u + φ' u * h + c / 2 * h ^ 2 := by
  let G1 : ℝ → ℝ := fun s => φ' u + c * s - φ' (u + s)
  let G : ℝ → ℝ := fun s => φ u + φ' u * s + c / 2 * (s * s) - φ (u + s)
  have hG1 : ∀ s, HasDerivAt G1 (c - φ'' (u + s)) s := by
    intro s
    have a := (h2 (u + s)).comp_const_add u s
    have b : HasDerivAt (fun s : ℝ => φ' u + c * s) c s := by
      simpa using ((hasDerivAt_id s).const_mul c).const_add (φ' u)
    exact b.sub a
  have hG : ∀ s, HasDerivAt G (G1 s) s := by
    intro s
    have a := (h1 (u + s)).comp_const_add u s
    have b : HasDerivAt (fun s : ℝ => φ u + φ' u * s + c / 2 * (s * s)) (φ' u + c * s) s := by
      have b1 : HasDerivAt (fun s : ℝ => φ u + φ' u * s) (φ' u) s := by
        simpa using ((hasDerivAt_id s).const_mul (φ' u)).const_add (φ u)
      have b2 : HasDerivAt (fun s : ℝ => c / 2 * (s * s)) (c * s) s :=
        (((hasDerivAt_id' s).mul (hasDerivAt_id' s)).const_mul (c / 2)).congr_deriv (by ring)
      exact b1.add b2
    exact b.sub a
  have hmono : Monotone G1 :=
    monotone_of_deriv_nonneg (fun s => (hG1 s).differentiableAt)
      (fun s => by rw [(hG1 s).deriv]; linarith [hc (u + s)])
  have hG10 : G1 0 = 0 := by simp [G1]
  have hG0 : G 0 = 0 := by simp [G]
  have hGd : Differentiable ℝ G := fun s => (hG s).differentiableAt
  have goal : 0 ≤ G h := by
    rcases le_total 0 h with hh | hh
    · have hm : MonotoneOn G (Set.Ici 0) :=
        monotoneOn_of_deriv_nonneg (convex_Ici 0) hGd.continuous.continuousOn
          hGd.differentiableOn (fun x hx => by
            rw [interior_Ici] at hx
            rw [(hG x).deriv, ← hG10]
            exact hmono (le_of_lt hx))
      have := hm (Set.mem_Ici.2 (le_refl 0)) (Set.mem_Ici.2 hh) hh
      rwa [hG0] at this
    · have hm : AntitoneOn G (Set.Iic 0) :=
        antitoneOn_of_deriv_nonpos (convex_Iic 0) hGd.continuous.continuousOn
          hGd.differentiableOn (fun x hx => by
            rw [interior_Iic] at hx
            rw [(hG x).deriv, ← hG10]
            exact hmono (le_of_lt hx))
      have := hm (Set.mem_Iic.2 hh) (Set.mem_Iic.2 (le_refl 0)) hh
      rwa [hG0] at this
  simp only [G] at goal
  linarith

/-! ### Huber -/

theorem loss1_huber (δ y u : ℝ) : (DF.huber δ).loss1 y u =
    if |y - u| < δ then 1 / 2 * (|y - u| * |y - u|) else δ * |y - u| - 1 / 2 * (δ * δ) := by
  simp only [DF.loss1, sabs_eq, frac_eq, Nat.cast_one, Nat.cast_ofNat]

theorem dloss1_huber (δ y u : ℝ) : (DF.huber δ).dloss1 y u =
    if |y - u| < δ then -(y - u) else -(sgn (y - u) * δ) := by
  simp only [DF.dloss1, sabs_eq]

/-- the three regimes of the Huber function `H` and of its slope `K` -/
theorem huber_cases (δ x : ℝ) (hδ : 0 < δ) :
    ((-δ < x ∧ x < δ) ∧
      (if |x| < δ then 1 / 2 * (|x| * |x|) else δ * |x| - 1 / 2 * (δ * δ)) = x ^ 2 / 2 ∧
      (if |x| < δ then x else sgn x * δ) = x) ∨
    (δ ≤ x ∧
      (if |x| < δ then 1 / 2 * (|x| * |x|) else δ * |x| - 1 / 2 * (δ * δ)) = δ * x - δ ^ 2 / 2 ∧
      (if |x| < δ then x else sgn x * δ) = δ) ∨
    (x ≤ -δ ∧
      (if |x| < δ then 1 / 2 * (|x| * |x|) else δ * |x| - 1 / 2 * (δ * δ)) = -δ * x - δ ^ 2 / 2 ∧
      (if |x| < δ then x else sgn x * δ) = -δ) := by
  by_cases h : |x| < δ
  · left
    rw [if_pos h, if_pos h]
    refine ⟨abs_lt.1 h, ?_, rfl⟩
    rw [abs_mul_abs_self]; ring
  · rw [if_neg h, if_neg h]
    have h' : δ ≤ |x| := not_lt.mp h
    rcases le_or_gt 0 x with hx | hx
    · right; left
      rw [abs_of_nonneg hx] at h' ⊢
      have : 0 < x := by linarith
      rw [sgn_pos this]
      exact ⟨h', by ring, by ring⟩
    · right; right
      rw [abs_of_neg hx] at h' ⊢
      rw [sgn_neg hx]
      exact ⟨by linarith, by ring, by ring⟩

/-- Huber is convex and 1-smooth (hence C¹) -/
theorem huber_sandwich (δ y u u' : ℝ) (hδ : 0 < δ) :
    0 ≤ (DF.huber δ).loss1 y u' - (DF.huber δ).loss1 y u - (DF.huber δ).dloss1 y u * (u' - u) ∧
    (DF.huber δ).loss1 y u' - (DF.huber δ).loss1 y u - (DF.huber δ).dloss1 y u * (u' - u)
      ≤ (u' - u) ^ 2 / 2 := by
  rw [loss1_huber, loss1_huber, dloss1_huber]
  have hK : (if |y - u| < δ then -(y - u) else -(sgn (y - u) * δ))
      = -(if |y - u| < δ then (y - u) else sgn (y - u) * δ) := by
    split_ifs <;> rfl
  rw [hK]
  obtain ⟨r, hr⟩ : ∃ r, r = y - u := ⟨_, rfl⟩
  obtain ⟨r', hr'⟩ : ∃ r', r' = y - u' := ⟨_, rfl⟩
  have hd : u' - u = r - r' := by rw [hr, hr']; ring
  rw [← hr, ← hr', hd]
  clear hK hd hr hr'
  rcases huber_cases δ r hδ with ⟨⟨h1, h2⟩, e1, e2⟩ | ⟨h1, e1, e2⟩ | ⟨h1, e1, e2⟩ <;>
  rcases huber_cases δ r' hδ with ⟨⟨h1', h2'⟩, e1', e2'⟩ | ⟨h1', e1', e2'⟩ | ⟨h1', e1', e2'⟩ <;>
  rw [e1, e2, e1'] <;> constructor <;>
  nlinarith [sq_nonneg (r' - r), sq_nonneg (r' - δ), sq_nonneg (r' + δ), sq_nonneg (r - δ),
    sq_nonneg (r + δ)]

/-! ### scalar derivatives -/

theorem dloss1_hasDerivAt_aux (d : DF ℝ) (y u : ℝ)
    (hdelta : ∀ delta, d = .huber delta → 0 < delta) :
    HasDerivAt (fun t => d.loss1 y t) (d.dloss1 y u) u := by
  have hq : HasDerivAt (fun t : ℝ => (y - t) * (y - t) / 2) (u - y) u := by
    have h := (hasDerivAt_id' u).const_sub y
    exact ((h.mul h).div_const 2).congr_deriv (by ring)
  cases d with
  | quadratic => simpa only [DF.loss1, DF.dloss1, nat_eq, Nat.cast_ofNat] using hq
  | wquadratic => simpa only [DF.loss1, DF.dloss1, nat_eq, Nat.cast_ofNat] using hq
  | logistic =>
    simp only [DF.loss1, DF.dloss1, scalar_log_eq, scalar_exp_eq]
    have h1 : HasDerivAt (fun t : ℝ => -(y * t)) (-y) u :=
      (((hasDerivAt_id' u).const_mul y).neg).congr_deriv (by ring)
    have h3 := (h1.exp.const_add 1).log (by positivity : (1:ℝ) + Real.exp (-(y * u)) ≠ 0)
    refine h3.congr_deriv ?_
    rw [Real.exp_neg]
    have : 0 < Real.exp (y * u) := Real.exp_pos _
    field_simp
    ring
  | huber δ =>
    have hδ := hdelta δ rfl
    apply hasDerivAt_of_sq_bound (C := 1 / 2)
    intro x'
    obtain ⟨h1, h2⟩ := huber_sandwich δ y u x' hδ
    rw [abs_le]
    constructor <;> nlinarith [sq_nonneg (x' - u)]
  | poisson =>
    simp only [DF.loss1, DF.dloss1, scalar_exp_eq]
    exact ((Real.hasDerivAt_exp u).sub ((hasDerivAt_id' u).const_mul y)).congr_deriv (by ring)
  | gamma =>
    simp only [DF.loss1, DF.dloss1, scalar_log_eq, scalar_exp_eq]
    have h1 : HasDerivAt (fun t : ℝ => Real.exp (-t)) (Real.exp (-u) * -1) u :=
      (hasDerivAt_neg' u).exp
    exact ((((hasDerivAt_id' u).add (h1.const_mul y)).sub_const 1).sub_const
      (Real.log y)).congr_deriv (by ring)
  | svc =>
    simp only [DF.loss1, DF.dloss1, nat_eq, Nat.cast_ofNat]
    exact (((hasDerivAt_id' u).mul (hasDerivAt_id' u)).div_const 2).congr_deriv (by ring)

theorem d2loss1_hasDerivAt_aux (d : DF ℝ) (y u : ℝ) (hd : ∀ delta, d ≠ .huber delta)
    (hy : d = .logistic → y = 1 ∨ y = -1) :
    HasDerivAt (fun t => d.dloss1 y t) (d.d2loss1 y u) u := by
  cases d with
  | quadratic => exact (hasDerivAt_id' u).sub_const y
  | wquadratic => exact (hasDerivAt_id' u).sub_const y
  | logistic =>
    simp only [DF.dloss1, DF.d2loss1, scalar_exp_eq]
    have h1 : HasDerivAt (fun t : ℝ => y * t) y u := by
      simpa using (hasDerivAt_id' u).const_mul y
    have h2 := h1.exp.const_add 1
    have h3 := (hasDerivAt_const u (-y)).div h2
      (by positivity : (1:ℝ) + Real.exp (y * u) ≠ 0)
    refine h3.congr_deriv ?_
    have : 0 < Real.exp u := Real.exp_pos _
    rcases hy rfl with rfl | rfl
    · simp only [one_mul, Real.exp_neg]; field_simp; ring
    · simp only [neg_mul, one_mul, Real.exp_neg, neg_neg]; field_simp; ring
  | huber δ => exact absurd rfl (hd δ)
  | poisson =>
    simp only [DF.dloss1, DF.d2loss1, scalar_exp_eq]
    exact (Real.hasDerivAt_exp u).sub_const y
  | gamma =>
    simp only [DF.dloss1, DF.d2loss1, scalar_exp_eq]
    have h1 : HasDerivAt (fun t : ℝ => Real.exp (-t)) (Real.exp (-u) * -1) u :=
      (hasDerivAt_neg' u).exp
    exact ((h1.const_mul y).const_sub 1).congr_deriv (by ring)
  | svc => exact hasDerivAt_id' u

theorem d2loss1_le_curvBound_aux (d : DF ℝ) (c y u : ℝ) (hc : d.curvBound = some c) :
    0 ≤ d.d2loss1 y u ∧ d.d2loss1 y u ≤ c := by
  cases d with
  | quadratic => simp [DF.curvBound] at hc; subst hc; exact ⟨zero_le_one, le_refl _⟩
  | wquadratic => simp [DF.curvBound] at hc; subst hc; exact ⟨zero_le_one, le_refl _⟩
  | svc => simp [DF.curvBound] at hc; subst hc; exact ⟨zero_le_one, le_refl _⟩
  | huber δ => simp [DF.curvBound] at hc; subst hc; exact ⟨zero_le_one, le_refl _⟩
  | poisson => simp [DF.curvBound] at hc
  | gamma => simp [DF.curvBound] at hc
  | logistic =>
    have hc' : c = 1 / 4 := by
      simp [DF.curvBound] at hc; rw [← hc]; norm_num
    subst hc'
    simp only [DF.d2loss1, scalar_exp_eq]
    have he : 0 < Real.exp (-(y * u)) := Real.exp_pos _
    refine ⟨by positivity, ?_⟩
    rw [div_le_iff₀ (by positivity)]
    nlinarith [sq_nonneg (1 - Real.exp (-(y * u)))]

/-! ### CSC folds -/

variable {n : Nat}

theorem foldl_dense (l : List (Fin n × ℝ)) (i : Fin n) (a : ℝ) :
    l.foldl (fun acc e => if e.1 = i then acc + e.2 else acc) a
      = a + (l.map (fun e => if e.1 = i then e.2 else 0)).sum := by
  induction l generalizing a with
  | nil => simp
  | cons e l ih =>
    simp only [List.foldl_cons, List.map_cons, List.sum_cons]
    rw [ih]; split_ifs <;> ring

theorem toDense_eq {p : Nat} (M : CSC ℝ n p) (i : Fin n) (j : Fin p) :
    M.toDense i j = ((M j).map (fun e => if e.1 = i then e.2 else 0)).sum :=
  (foldl_dense (M j) i 0).trans (zero_add _)

theorem foldl_colDot (l : List (Fin n × ℝ)) (f : Fin n → ℝ) (a : ℝ) :
    l.foldl (fun acc e => acc + e.2 * f e.1) a = a + (l.map (fun e => e.2 * f e.1)).sum := by
  induction l generalizing a with
  | nil => simp
  | cons e l ih =>
    simp only [List.foldl_cons, List.map_cons, List.sum_cons]
    rw [ih]; ring

theorem sum_dense_mul (l : List (Fin n × ℝ)) (f : Fin n → ℝ) :
    ∑ i, (l.map (fun e => if e.1 = i then e.2 else 0)).sum * f i
      = (l.map (fun e => e.2 * f e.1)).sum := by
  induction l with
  | nil => simp
  | cons e l ih =>
    simp only [List.map_cons, List.sum_cons, add_mul, Finset.sum_add_distrib, ih]
    congr 1
    simp [ite_mul]

theorem foldl_axpy (l : List (Fin n × ℝ)) (c : ℝ) (u : Fin n → ℝ) (i : Fin n) :
    (l.foldl (fun acc e => fun i => if i = e.1 then acc i + c * e.2 else acc i) u) i
      = u i + c * (l.map (fun e => if e.1 = i then e.2 else 0)).sum := by
  induction l generalizing u with
  | nil => simp
  | cons e l ih =>
    simp only [List.foldl_cons, List.map_cons, List.sum_cons]
    rw [ih]
    by_cases h : i = e.1
    · rw [if_pos h, if_pos h.symm]; ring
    · rw [if_neg h, if_neg (fun h' => h h'.symm)]; ring

theorem dense_zero_of_not_mem (l : List (Fin n × ℝ)) (i : Fin n) (h : i ∉ l.map Prod.fst) :
    (l.map (fun e => if e.1 = i then e.2 else 0)).sum = 0 := by
  induction l with
  | nil => simp
  | cons e l ih =>
    simp only [List.map_cons, List.mem_cons, not_or] at h
    simp only [List.map_cons, List.sum_cons]
    rw [ih h.2, if_neg (fun h' => h.1 h'.symm)]; ring

theorem foldl_lip (l : List (Fin n × ℝ)) (sw : Fin n → ℝ) (a : ℝ)
    (hnodup : (l.map Prod.fst).Nodup) :
    l.foldl (fun acc e => acc + sw e.1 * (e.2 * e.2)) a
      = a + ∑ i, sw i * ((l.map (fun e => if e.1 = i then e.2 else 0)).sum
          * (l.map (fun e => if e.1 = i then e.2 else 0)).sum) := by
  induction l generalizing a with
  | nil => simp
  | cons e l ih =>
    simp only [List.map_cons, List.nodup_cons] at hnodup
    simp only [List.foldl_cons, List.map_cons, List.sum_cons]
    rw [ih _ hnodup.2]
    have key : ∀ i, sw i * (((if e.1 = i then e.2 else 0)
          + (l.map (fun e => if e.1 = i then e.2 else 0)).sum)
        * ((if e.1 = i then e.2 else 0) + (l.map (fun e => if e.1 = i then e.2 else 0)).sum))
        = (if e.1 = i then sw e.1 * (e.2 * e.2) else 0)
          + sw i * ((l.map (fun e => if e.1 = i then e.2 else 0)).sum
            * (l.map (fun e => if e.1 = i then e.2 else 0)).sum) := by
      intro i
      by_cases h : e.1 = i
      · subst h
        rw [if_pos rfl, if_pos rfl, dense_zero_of_not_mem l e.1 hnodup.1]; ring
      · rw [if_neg h, if_neg h]; ring
    simp only [key, Finset.sum_add_distrib, Finset.sum_ite_eq, Finset.mem_univ, if_true]
    ring

end Skglm.Proofs
