import Skglm.Spec.Penalties
import Skglm.Model.BlockPenalties
import Skglm.Proofs.Prox
import Skglm.Proofs.BlockProxAux
/-
  Lemmas behind the block / group part of C07 (and C08 for the group lasso): block
  soft-thresholding and its variants are global minimisers of the block prox objective
  `½ Σ_i (v_i - x_i)² + s · pen(v)` over all `v : Fin k → ℝ`, for every block size `k`.
-/
namespace Skglm.Proofs
open Skglm Skglm.Spec
variable {k : Nat}

/-- `½‖v - x‖²` -/
noncomputable def halfSq (x v : Fin k → ℝ) : ℝ := (∑ i, (v i - x i) ^ 2) / 2

/-! ### helpers -/

theorem halfSq_sub (x r v : Fin k → ℝ) :
    halfSq x v - halfSq x r
      = (∑ i, (v i - r i) ^ 2) / 2 + ∑ i, (r i - x i) * (v i - r i) := by
  unfold halfSq
  have e : ∀ i, (v i - x i) ^ 2
      = (r i - x i) ^ 2 + (v i - r i) ^ 2 + 2 * ((r i - x i) * (v i - r i)) := fun i => by ring
  simp only [e, Finset.sum_add_distrib, ← Finset.mul_sum]
  ring

/-- a point satisfying the variational inequality of the prox is a minimiser -/
theorem halfSq_le_of_vi (x r v : Fin k → ℝ) (pr pv : ℝ)
    (h : ∑ i, (x i - r i) * (v i - r i) ≤ pv - pr) :
    halfSq x r + pr ≤ halfSq x v + pv := by
  have h1 := halfSq_sub x r v
  have h2 : ∑ i, (r i - x i) * (v i - r i) = -∑ i, (x i - r i) * (v i - r i) := by
    rw [← Finset.sum_neg_distrib]
    exact Finset.sum_congr rfl (fun i _ => by ring)
  have h3 : 0 ≤ ∑ i, (v i - r i) ^ 2 := Finset.sum_nonneg (fun i _ => sq_nonneg _)
  linarith

/-- `½‖v - x‖² ≥ ½(‖v‖ - ‖x‖)²` -/
theorem halfSq_ge (x v : Fin k → ℝ) : (norm2 v - norm2 x) ^ 2 / 2 ≤ halfSq x v := by
  unfold halfSq
  have e : ∀ i, (v i - x i) ^ 2 = v i * v i - 2 * (x i * v i) + x i * x i := fun i => by ring
  simp only [e, Finset.sum_add_distrib, Finset.sum_sub_distrib, ← Finset.mul_sum, ← norm2_sq]
  have := inner_le x v
  nlinarith

theorem radial_facts (x : Fin k → ℝ) (c : ℝ) (hc : 0 ≤ c) (hx : norm2 x ≠ 0 ∨ c = 0) :
    norm2 (BlkPen.radial x (norm2 x) c) = c ∧
      halfSq x (BlkPen.radial x (norm2 x) c) = (c - norm2 x) ^ 2 / 2 := by
  unfold BlkPen.radial
  by_cases hn : norm2 x = 0
  · rw [if_pos ((eqb_iff _ _).2 hn)]
    have hc0 : c = 0 := by
      rcases hx with h | h
      · exact absurd hn h
      · exact h
    subst hc0
    refine ⟨norm2_zero, ?_⟩
    unfold halfSq
    have e : ∀ i : Fin k, ((0 : ℝ) - x i) ^ 2 = x i * x i := fun i => by ring
    have e' : (∑ i : Fin k, ((0 : ℝ) - x i) ^ 2) = norm2 x * norm2 x := by
      rw [norm2_sq]; exact Finset.sum_congr rfl (fun i _ => e i)
    exact (congrArg (· / 2) e').trans (by ring)
  · rw [if_neg (by rw [eqb_iff]; exact hn)]
    have hq := norm2_sq x
    constructor
    · apply norm2_eq_of_sq _ _ hc
      have e : ∀ i, c * x i / norm2 x * (c * x i / norm2 x)
          = c * c / (norm2 x * norm2 x) * (x i * x i) := fun i => by field_simp
      simp only [e, ← Finset.mul_sum, ← hq]
      field_simp
    · unfold halfSq
      have e : ∀ i, (c * x i / norm2 x - x i) ^ 2
          = (c - norm2 x) ^ 2 / (norm2 x * norm2 x) * (x i * x i) := fun i => by
        field_simp
      simp only [e, ← Finset.mul_sum, ← hq]
      field_simp

theorem prox_MCP_nonneg (n s a g : ℝ) (hn : 0 ≤ n) (has : 0 ≤ a * (1 * s))
    (hD : 0 < 1 - 1 * s / g) :
    0 ≤ prox_MCP n s a g false 1 ∧ (n = 0 → prox_MCP n s a g false 1 = 0) := by
  unfold prox_MCP
  simp only [sabs_eq, abs_of_nonneg hn, Bool.false_eq_true, false_and, or_false]
  split_ifs with c1 c2
  · exact ⟨le_refl _, fun _ => rfl⟩
  · exact ⟨hn, fun h => h⟩
  · have hlt : a * (1 * s) < n := not_le.mp c1
    have hpos : 0 < n := by linarith
    rw [sgn_pos hpos, one_mul]
    exact ⟨div_nonneg (by linarith) hD.le, fun h => absurd h hpos.ne'⟩


/-- block soft-thresholding is the prox of `u‖·‖₂` -/
theorem BST0_prox (x v : Fin k → ℝ) (u : ℝ) (hu : 0 ≤ u) :
    halfSq x (BST0 x u) + u * norm2 (BST0 x u) ≤ halfSq x v + u * norm2 v := by
  exact halfSq_le_of_vi x (BST0 x u) v _ _ (BST0_vi x v u hu)

/-- positive block soft-thresholding is the prox of `u‖·‖₂ + indicator(v ≥ 0)` and is feasible -/
theorem BST_pos_prox (x v : Fin k → ℝ) (u : ℝ) (hu : 0 ≤ u) (hv : ∀ i, 0 ≤ v i) :
    (∀ i, 0 ≤ BST x u true i) ∧
    halfSq x (BST x u true) + u * norm2 (BST x u true) ≤ halfSq x v + u * norm2 v := by
  rw [BST_pos_eq]
  have hxp : ∀ i, 0 ≤ (fun i => if 0 < x i then x i else 0 : Fin k → ℝ) i := by
    intro i; dsimp only; split_ifs with h
    · exact h.le
    · exact le_refl _
  refine ⟨BST0_nonneg _ u hu hxp, ?_⟩
  apply halfSq_le_of_vi
  refine le_trans ?_ (BST0_vi (fun i => if 0 < x i then x i else 0) v u hu)
  obtain ⟨κ, hκ, hr⟩ := BST0_eq_smul (fun i => if 0 < x i then x i else 0) u hu
  apply Finset.sum_le_sum
  intro i _
  by_cases h : 0 < x i
  · simp only [if_pos h]; exact le_refl _
  · have hr0 : BST0 (fun i => if 0 < x i then x i else 0) u i = 0 := by
      rw [hr i]; simp only [if_neg h, mul_zero]
    rw [hr0]
    simp only [if_neg h, sub_zero]
    have := hv i
    nlinarith [not_lt.mp h]

/-- the group-lasso prox of the model (both positivity settings, group weight included) -/
theorem prox_wgl2 (a wg s : ℝ) (pos : Bool) (wf x v : Fin k → ℝ) (ha : 0 ≤ a) (hwg : 0 ≤ wg) (hs : 0 < s)
    (hv : pos = true → ∀ i, 0 ≤ v i) :
    let r := (BlkPen.wgl2 a pos).proxBlk wg wf x s
    (pos = true → ∀ i, 0 ≤ r i) ∧
    halfSq x r + s * (a * wg * norm2 r) ≤ halfSq x v + s * (a * wg * norm2 v) := by
  intro r
  have hτ : 0 ≤ a * s * wg := mul_nonneg (mul_nonneg ha hs.le) hwg
  have e : ∀ w : Fin k → ℝ, s * (a * wg * norm2 w) = a * s * wg * norm2 w := fun w => by ring
  rw [e, e]
  cases pos with
  | false =>
    refine ⟨fun h => absurd h (by simp), ?_⟩
    have hr : r = BST0 x (a * s * wg) := by simp only [r, BlkPen.proxBlk, BST]; rfl
    rw [hr]
    exact BST0_prox x v _ hτ
  | true =>
    have hr : r = BST x (a * s * wg) true := rfl
    rw [hr]
    have := BST_pos_prox x v _ hτ (hv rfl)
    exact ⟨fun _ => this.1, this.2⟩

/-- L2/1 row penalty -/
theorem prox_l21 (a s : ℝ) (wf x v : Fin k → ℝ) (ha : 0 ≤ a) (hs : 0 < s) :
    let r := (BlkPen.l21 a).proxBlk 1 wf x s
    halfSq x r + s * (a * norm2 r) ≤ halfSq x v + s * (a * norm2 v) := by
  intro r
  have hr : r = BST0 x (a * s) := rfl
  have e : ∀ w : Fin k → ℝ, s * (a * norm2 w) = a * s * norm2 w := fun w => by ring
  rw [e, e, hr]
  exact BST0_prox x v _ (mul_nonneg ha hs.le)

/-- sparse group lasso: entrywise soft-thresholding with the *features'* weights followed by block
    soft-thresholding minimises `½‖v-x‖² + s·a·(wg‖v‖ + Σ_i wf_i |v_i|)` -/
theorem prox_wl1gl2 (a wg s : ℝ) (wf x v : Fin k → ℝ) (ha : 0 ≤ a) (hwg : 0 ≤ wg) (hs : 0 < s)
    (hwf : ∀ i, 0 ≤ wf i) :
    let r := (BlkPen.wl1gl2 a).proxBlk wg wf x s
    halfSq x r + s * (a * (wg * norm2 r + ∑ i, wf i * |r i|)) ≤
      halfSq x v + s * (a * (wg * norm2 v + ∑ i, wf i * |v i|)) := by
  intro r
  have hτ : 0 ≤ a * s * wg := mul_nonneg (mul_nonneg ha hs.le) hwg
  have hl : ∀ i, 0 ≤ a * s * wf i := fun i => mul_nonneg (mul_nonneg ha hs.le) (hwf i)
  have hr : r = BST0 (fun i => STv1 (x i) (a * s * wf i)) (a * s * wg) := rfl
  obtain ⟨κ, hκ, hrk⟩ := BST0_eq_smul (fun i => STv1 (x i) (a * s * wf i)) (a * s * wg) hτ
  have hvi := BST0_vi (fun i => STv1 (x i) (a * s * wf i)) v (a * s * wg) hτ
  rw [← hr] at hvi hrk
  have e : ∀ w : Fin k → ℝ, s * (a * (wg * norm2 w + ∑ i, wf i * |w i|))
      = a * s * wg * norm2 w + ∑ i, a * s * wf i * |w i| := by
    intro w
    have hsum : ∑ i, a * s * wf i * |w i| = a * s * ∑ i, wf i * |w i| := by
      rw [Finset.mul_sum]
      exact Finset.sum_congr rfl (fun i _ => by ring)
    rw [hsum]
    ring
  rw [e, e]
  apply halfSq_le_of_vi
  have hst : ∀ i, (x i - STv1 (x i) (a * s * wf i)) * (v i - r i)
      ≤ a * s * wf i * |v i| - a * s * wf i * |r i| := by
    intro i
    have := STv1_vi (x i) (a * s * wf i) κ (v i) (hl i) hκ
    rw [← hrk i] at this
    exact this
  have hsum := Finset.sum_le_sum (fun i (_ : i ∈ Finset.univ) => hst i)
  rw [Finset.sum_sub_distrib] at hsum
  have hsplit : ∑ i, (x i - r i) * (v i - r i)
      = ∑ i, (STv1 (x i) (a * s * wf i) - r i) * (v i - r i)
        + ∑ i, (x i - STv1 (x i) (a * s * wf i)) * (v i - r i) := by
    rw [← Finset.sum_add_distrib]
    exact Finset.sum_congr rfl (fun i _ => by ring)
  rw [hsplit]
  linarith

/-- radial reduction: if `ρ : ℝ → ℝ` and `c ≥ 0` minimises `t ↦ ½(t - ‖x‖)² + s ρ(t)` over `t ≥ 0`,
    then `c · x/‖x‖` minimises `v ↦ ½‖v - x‖² + s ρ(‖v‖)` (for `x ≠ 0`); at `x = 0` the zero block is
    a minimiser whenever `0` minimises the scalar problem. -/
theorem radial_prox (ρ : ℝ → ℝ) (x v : Fin k → ℝ) (s c : ℝ) (hc : 0 ≤ c) (hx : norm2 x ≠ 0 ∨ c = 0)
    (hmin : ∀ t, 0 ≤ t → (c - norm2 x) ^ 2 / 2 + s * ρ c ≤ (t - norm2 x) ^ 2 / 2 + s * ρ t) :
    let r := BlkPen.radial x (norm2 x) c
    halfSq x r + s * ρ (norm2 r) ≤ halfSq x v + s * ρ (norm2 v) := by
  intro r
  obtain ⟨h1, h2⟩ := radial_facts x c hc hx
  have hr : r = BlkPen.radial x (norm2 x) c := rfl
  rw [hr, h1, h2]
  have := hmin (norm2 v) (norm2_nonneg v)
  have := halfSq_ge x v
  linarith

/-- block MCP inside its well-posed step range -/
theorem prox_bmcp (a g s : ℝ) (wf x v : Fin k → ℝ) (ha : 0 ≤ a) (hg : 0 < g) (hs : 0 < s) (hsg : s < g) :
    let r := (BlkPen.bmcp a g).proxBlk 1 wf x s
    halfSq x r + s * Spec.mcp a g (norm2 r) ≤ halfSq x v + s * Spec.mcp a g (norm2 v) := by
  intro r
  have hr : r = BlkPen.radial x (norm2 x) (prox_MCP (norm2 x) s a g false 1) := rfl
  have hD : 0 < 1 - 1 * s / g := by rw [one_mul, sub_pos, div_lt_one hg]; exact hsg
  have has : 0 ≤ a * (1 * s) := by rw [one_mul]; exact mul_nonneg ha hs.le
  obtain ⟨hc, hc0⟩ := prox_MCP_nonneg (norm2 x) s a g (norm2_nonneg x) has hD
  have hx : norm2 x ≠ 0 ∨ prox_MCP (norm2 x) s a g false 1 = 0 := by
    by_cases hn : norm2 x = 0
    · exact Or.inr (hc0 hn)
    · exact Or.inl hn
  rw [hr]
  refine radial_prox (Spec.mcp a g) x v s _ hc hx ?_
  intro t _
  have := prox_MCP_prox (norm2 x) s a g 1 t false (by linarith) ha hg (by linarith)
    (fun h => absurd h (by simp))
  simpa only [one_mul] using this

end Skglm.Proofs
