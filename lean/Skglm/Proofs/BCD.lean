import Skglm.Model.BCD
import Skglm.Spec.Solver
import Skglm.Proofs.BlockProx
import Skglm.Proofs.CDAuxB
import Skglm.Proofs.Reductions
/-
  Lemmas about the block coordinate-descent moves of `Skglm/Model/BCD.lean` (GroupBCD):
  buffer consistency, locality, block descent, feasibility, and their lift to every reachable state.
-/
namespace Skglm.Proofs.BCD
open Skglm Skglm.Spec Skglm.Proofs
variable {n p : Nat}

/-- the model-fit buffer equals `X w + b·1` -/
def GConsistent (P : GrpProb ℝ n p) (s : CDState ℝ n p) : Prop :=
  ∀ i, s.Xw i = (∑ j, P.X i j * s.w j) + s.b

/-! ### the two loops of a block step, over the reals -/

theorem assign_succ {k : Nat} (idx : Fin (k + 1) → Fin p) (new : Fin (k + 1) → ℝ) (w : Fin p → ℝ)
    (j : Fin p) :
    Fin.foldl (k + 1) (fun acc i => fun j => if j = idx i then new i else acc j) w j
      = if j = idx (Fin.last k) then new (Fin.last k)
        else Fin.foldl k (fun acc i => fun j => if j = idx i.castSucc then new i.castSucc else acc j) w j := by
  rw [Fin.foldl_succ_last]

/-- entries outside the index family are untouched -/
theorem assignF_outside : ∀ (k : Nat) (idx : Fin k → Fin p) (new : Fin k → ℝ) (w : Fin p → ℝ) (j : Fin p),
    (∀ i, idx i ≠ j) →
    Fin.foldl k (fun acc i => fun j => if j = idx i then new i else acc j) w j = w j := by
  intro k
  induction k with
  | zero => intro idx new w j _; simp [Fin.foldl_zero]
  | succ k ih =>
    intro idx new w j h
    rw [assign_succ, if_neg (fun e => h _ e.symm)]
    exact ih _ _ w j (fun i => h _)

/-- with distinct indices, entry `idx i` receives `new i` -/
theorem assignF_get : ∀ (k : Nat) (idx : Fin k → Fin p) (new : Fin k → ℝ) (w : Fin p → ℝ),
    Function.Injective idx → ∀ i,
    Fin.foldl k (fun acc i => fun j => if j = idx i then new i else acc j) w (idx i) = new i := by
  intro k
  induction k with
  | zero => intro idx new w _ i; exact i.elim0
  | succ k ih =>
    intro idx new w hinj i
    rw [assign_succ]
    refine Fin.lastCases ?_ (fun i' => ?_) i
    · rw [if_pos rfl]
    · have hne : idx i'.castSucc ≠ idx (Fin.last k) := by
        intro e
        have := hinj e
        exact absurd this (Fin.castSucc_lt_last i').ne
      rw [if_neg hne]
      exact ih (fun i => idx i.castSucc) (fun i => new i.castSucc) w
        (fun a b e => Fin.castSucc_injective _ (hinj e)) i'

/-- every entry is an old entry or one of the new values -/
theorem assignF_cases : ∀ (k : Nat) (idx : Fin k → Fin p) (new : Fin k → ℝ) (w : Fin p → ℝ) (j : Fin p),
    Fin.foldl k (fun acc i => fun j => if j = idx i then new i else acc j) w j = w j ∨
    ∃ i, idx i = j ∧ Fin.foldl k (fun acc i => fun j => if j = idx i then new i else acc j) w j = new i := by
  intro k
  induction k with
  | zero => intro idx new w j; left; simp [Fin.foldl_zero]
  | succ k ih =>
    intro idx new w j
    rw [assign_succ]
    by_cases h : j = idx (Fin.last k)
    · right; exact ⟨Fin.last k, h.symm, by rw [if_pos h]⟩
    · rw [if_neg h]
      rcases ih (fun i => idx i.castSucc) (fun i => new i.castSucc) w j with h1 | ⟨i, hi, h1⟩
      · left; exact h1
      · right; exact ⟨i.castSucc, hi, h1⟩

/-- the model-fit loop adds `Σ_i (w'[idx i] − old_i) · X[:, idx i]` (stated with `mat` removed:
    `simp only [mat_eq]` first) -/
theorem updXwF_eq : ∀ (k : Nat) (idx : Fin k → Fin p) (old : Fin k → ℝ) (w' : Fin p → ℝ)
    (X : Fin n → Fin p → ℝ) (Xw : Fin n → ℝ) (r : Fin n),
    Fin.foldl k (fun acc i =>
      if eqb (old i) (w' (idx i)) then acc
      else (fun r => acc r + (w' (idx i) - old i) * X r (idx i))) Xw r
      = Xw r + ∑ i, (w' (idx i) - old i) * X r (idx i) := by
  intro k
  induction k with
  | zero => intro idx old w' X Xw r; simp [Fin.foldl_zero]
  | succ k ih =>
    intro idx old w' X Xw r
    rw [Fin.foldl_succ_last, Fin.sum_univ_castSucc]
    have := ih (fun i => idx i.castSucc) (fun i => old i.castSucc) w' X Xw r
    by_cases h : eqb (old (Fin.last k)) (w' (idx (Fin.last k))) = true
    · rw [if_pos h, this]
      rw [eqb_iff] at h
      rw [h]; ring
    · rw [if_neg h]
      show _ + _ = _
      rw [this]; ring

/-- reindexing a sum supported on the range of an injective family -/
theorem sum_eq_sum_idx {k : Nat} (idx : Fin k → Fin p) (hinj : Function.Injective idx) (f : Fin p → ℝ)
    (hf : ∀ j, (∀ i, idx i ≠ j) → f j = 0) : ∑ j, f j = ∑ i, f (idx i) := by
  rw [← Finset.sum_image (s := Finset.univ) (g := idx) (f := f) (fun a _ b _ e => hinj e)]
  symm
  apply Finset.sum_subset (Finset.subset_univ _)
  intro j _ hj
  apply hf
  intro i e
  exact hj (Finset.mem_image.2 ⟨i, Finset.mem_univ _, e⟩)

theorem get_injective {grp : List (Fin p)} (h : grp.Nodup) : Function.Injective grp.get :=
  List.nodup_iff_injective_get.1 h

/-! ### closed form of a block step -/

/-- the new block values computed by a step on group `grp` with constant `L` and weight `wg` -/
noncomputable def blockNew (P : GrpProb ℝ n p) (s : CDState ℝ n p) (grp : List (Fin p)) (L wg : ℝ) :
    Fin grp.length → ℝ :=
  P.pen.proxBlk wg (GrpProb.block P.wfs grp)
    (fun i => s.w (grp.get i) - P.df.gradScalar P.X P.sw P.y s.Xw (grp.get i) / L) (1 / L)

/-- closed form of a block step over the reals -/
theorem bcdStep_eq (P : GrpProb ℝ n p) (s : CDState ℝ n p) (g : Nat) (grp : List (Fin p)) (L wg : ℝ)
    (h1 : P.groups[g]? = some grp) (h2 : P.lips[g]? = some L) (h3 : P.wgs[g]? = some wg)
    (hL : L ≠ 0) :
    P.bcdStep s g =
      { w := GrpProb.assign s.w grp (blockNew P s grp L wg), b := s.b,
        Xw := fun r => s.Xw r + ∑ i, (GrpProb.assign s.w grp (blockNew P s grp L wg) (grp.get i)
                - s.w (grp.get i)) * P.X r (grp.get i) } := by
  unfold GrpProb.bcdStep
  rw [h1, h2, h3]
  simp only
  rw [if_neg (by rw [eqb_iff]; exact hL)]
  simp only [mat_eq, CDState.mk.injEq, true_and]
  refine ⟨rfl, ?_⟩
  funext r
  unfold GrpProb.updXw
  simp only [mat_eq]
  exact updXwF_eq grp.length grp.get (GrpProb.block s.w grp) _ P.X s.Xw r

theorem bcdStep_eq_self (P : GrpProb ℝ n p) (s : CDState ℝ n p) (g : Nat)
    (h : P.groups[g]? = none ∨ P.lips[g]? = none ∨ P.wgs[g]? = none ∨ P.lips[g]? = some 0) :
    P.bcdStep s g = s := by
  unfold GrpProb.bcdStep
  rcases h with h | h | h | h
  · rw [h]
  · rw [h]; cases P.groups[g]? <;> rfl
  · rw [h]; cases P.groups[g]? <;> cases P.lips[g]? <;> rfl
  · rw [h]
    cases P.groups[g]? with
    | none => rfl
    | some grp =>
      cases P.wgs[g]? with
      | none => rfl
      | some wg =>
        simp only
        rw [if_pos ((eqb_iff _ _).2 rfl)]

/-- case analysis used by all the step lemmas -/
theorem bcdStep_cases (P : GrpProb ℝ n p) (s : CDState ℝ n p) (g : Nat) :
    P.bcdStep s g = s ∨ ∃ grp L wg, P.groups[g]? = some grp ∧ P.lips[g]? = some L ∧
      P.wgs[g]? = some wg ∧ L ≠ 0 := by
  cases h1 : P.groups[g]? with
  | none => exact Or.inl (bcdStep_eq_self P s g (Or.inl h1))
  | some grp =>
    cases h2 : P.lips[g]? with
    | none => exact Or.inl (bcdStep_eq_self P s g (Or.inr (Or.inl h2)))
    | some L =>
      cases h3 : P.wgs[g]? with
      | none => exact Or.inl (bcdStep_eq_self P s g (Or.inr (Or.inr (Or.inl h3))))
      | some wg =>
        by_cases hL : L = 0
        · subst hL; exact Or.inl (bcdStep_eq_self P s g (Or.inr (Or.inr (Or.inr h2))))
        · exact Or.inr ⟨grp, L, wg, rfl, rfl, rfl, hL⟩

/-! ### a. buffer consistency -/

theorem bcdStep_consistent (P : GrpProb ℝ n p) (s : CDState ℝ n p) (g : Nat)
    (hnd : ∀ grp ∈ P.groups, grp.Nodup) (h : GConsistent P s) : GConsistent P (P.bcdStep s g) := by
  rcases bcdStep_cases P s g with e | ⟨grp, L, wg, h1, h2, h3, hL⟩
  · rw [e]; exact h
  rw [bcdStep_eq P s g grp L wg h1 h2 h3 hL]
  have hinj := get_injective (hnd grp (List.mem_of_getElem? h1))
  intro r
  simp only
  rw [h r]
  set w' := GrpProb.assign s.w grp (blockNew P s grp L wg) with hw'
  have hsum : ∑ j, P.X r j * (w' j - s.w j) = ∑ i, (w' (grp.get i) - s.w (grp.get i)) * P.X r (grp.get i) := by
    rw [sum_eq_sum_idx grp.get hinj (fun j => P.X r j * (w' j - s.w j))]
    · exact Finset.sum_congr rfl (fun i _ => by ring)
    · intro j hj
      have : w' j = s.w j := assignF_outside grp.length grp.get _ s.w j hj
      rw [this]; ring
  rw [← hsum]
  have : ∑ j, P.X r j * w' j = ∑ j, P.X r j * s.w j + ∑ j, P.X r j * (w' j - s.w j) := by
    rw [← Finset.sum_add_distrib]
    exact Finset.sum_congr rfl (fun j _ => by ring)
  rw [this]; ring

theorem bcdEpoch_consistent (P : GrpProb ℝ n p) (s : CDState ℝ n p) (ws : List Nat)
    (hnd : ∀ grp ∈ P.groups, grp.Nodup) (h : GConsistent P s) : GConsistent P (P.bcdEpoch s ws) := by
  unfold GrpProb.bcdEpoch
  induction ws generalizing s with
  | nil => exact h
  | cons g ws ih => exact ih _ (bcdStep_consistent P s g hnd h)

theorem interceptMove_consistent (P : GrpProb ℝ n p) (s : CDState ℝ n p) (h : GConsistent P s) :
    GConsistent P (P.interceptMove s) := by
  intro i
  simp only [GrpProb.interceptMove, mat_eq]
  rw [h i]; ring

/-- the affine (indeed any linear) combination of consistent states is consistent: the relation
    `Xw = X w + b` is linear and whole vectors, intercept included, are combined — no condition on
    the coefficients -/
theorem extrapPoint_consistent {K : Nat} (P : GrpProb ℝ n p) (buf : Fin K → CDState ℝ n p)
    (c : Fin K → ℝ) (hbuf : ∀ k, GConsistent P (buf k)) :
    GConsistent P (GrpProb.extrapPoint buf c) := by
  intro i
  simp only [GrpProb.extrapPoint, mat_eq, vsum_eq]
  simp only [fun k => hbuf k i, mul_add, Finset.sum_add_distrib, Finset.mul_sum]
  rw [Finset.sum_comm]
  congr 1
  refine Finset.sum_congr rfl (fun j _ => Finset.sum_congr rfl (fun k _ => ?_))
  ring

theorem acceptMove_consistent (P : GrpProb ℝ n p) (s acc : CDState ℝ n p) (hs : GConsistent P s)
    (ha : GConsistent P acc) : GConsistent P (P.acceptMove s acc) := by
  unfold GrpProb.acceptMove
  split_ifs
  · exact ha
  · exact hs

/-! ### b. locality -/

theorem bcdStep_outside (P : GrpProb ℝ n p) (s : CDState ℝ n p) (g : Nat) (j : Fin p)
    (hj : ∀ grp, P.groups[g]? = some grp → j ∉ grp) :
    (P.bcdStep s g).w j = s.w j ∧ (P.bcdStep s g).b = s.b := by
  rcases bcdStep_cases P s g with e | ⟨grp, L, wg, h1, h2, h3, hL⟩
  · rw [e]; exact ⟨rfl, rfl⟩
  rw [bcdStep_eq P s g grp L wg h1 h2 h3 hL]
  refine ⟨assignF_outside grp.length grp.get _ s.w j (fun i e => ?_), rfl⟩
  exact hj grp h1 (e ▸ List.get_mem grp i)

/-! ### d. feasibility -/

/-- the penalty value is finite: no group violates the configured positivity constraint -/
def GFeasible (P : GrpProb ℝ n p) (w : Fin p → ℝ) : Prop := ∀ gi, P.penTerm w gi ≠ .inf

theorem penBlk_ne_inf_iff {k : Nat} (pen : BlkPen ℝ) (wg : ℝ) (wf w : Fin k → ℝ) :
    pen.penBlk wg wf w ≠ .inf ↔ ∀ a, pen = .wgl2 a true → ∀ i, 0 ≤ w i := by
  cases pen with
  | wgl2 a pos =>
    cases pos with
    | false =>
      simp only [BlkPen.penBlk, Bool.false_eq_true, false_and, if_false]
      exact ⟨fun _ a' h => (by cases h), fun _ h => (by cases h)⟩
    | true =>
      simp only [BlkPen.penBlk, true_and]
      constructor
      · intro h a' _ i
        by_contra hneg
        push Not at hneg
        apply h
        rw [if_pos]
        rw [Red.foldl_or_eq_true]
        exact Or.inr ⟨i, decide_eq_true hneg⟩
      · intro h
        rw [if_neg]
        · intro e; cases e
        · rw [Red.foldl_or_eq_true]
          rintro (e | ⟨i, hi⟩)
          · cases e
          · exact absurd (of_decide_eq_true hi) (not_lt.2 (h a rfl i))
  | _ =>
    simp only [BlkPen.penBlk]
    exact ⟨fun _ a' h => (by cases h), fun _ h => (by cases h)⟩

/-- for the positive group lasso, feasibility is non-negativity of the coefficients of every group;
    the other penalties have no constraint -/
theorem gfeasible_iff (P : GrpProb ℝ n p) (w : Fin p → ℝ) :
    GFeasible P w ↔ ∀ a, P.pen = .wgl2 a true → ∀ grp ∈ P.groups, ∀ j ∈ grp, 0 ≤ w j := by
  unfold GFeasible GrpProb.penTerm
  simp only [penBlk_ne_inf_iff, GrpProb.block]
  constructor
  · intro h a ha grp hgrp j hj
    obtain ⟨gi, hgi⟩ := List.get_of_mem hgrp
    obtain ⟨i, hi⟩ := List.get_of_mem hj
    subst hgi
    rw [← hi]
    exact h gi a ha i
  · intro h gi a ha i
    exact h a ha _ (List.get_mem _ gi) _ (List.get_mem _ i)

/-- a block step keeps every coefficient non-negative (positive group lasso) -/
theorem bcdStep_feasible (P : GrpProb ℝ n p) (s : CDState ℝ n p) (g : Nat) (hf : GFeasible P s.w) :
    GFeasible P (P.bcdStep s g).w := by
  rcases bcdStep_cases P s g with e | ⟨grp, L, wg, h1, h2, h3, hL⟩
  · rw [e]; exact hf
  rw [bcdStep_eq P s g grp L wg h1 h2 h3 hL]
  rw [gfeasible_iff] at hf ⊢
  intro a ha grp' hgrp' j hj
  simp only
  rcases assignF_cases grp.length grp.get (blockNew P s grp L wg) s.w j with e | ⟨i, _, e⟩
  · rw [GrpProb.assign, e]; exact hf a ha grp' hgrp' j hj
  · rw [GrpProb.assign, e]
    unfold blockNew
    rw [ha]
    exact C04.BST_pos_nonneg _ _ i

theorem objective_inf_of_infeasible (P : GrpProb ℝ n p) (s : CDState ℝ n p) (h : ¬ GFeasible P s.w) :
    P.objective s = .inf := by
  unfold GFeasible at h
  push Not at h
  unfold GrpProb.objective GrpProb.penValue
  rw [CDB.esum_inf _ h]
  rfl

/-- the guarded acceptance rejects infeasible points -/
theorem acceptMove_feasible (P : GrpProb ℝ n p) (s acc : CDState ℝ n p) (hf : GFeasible P s.w) :
    GFeasible P (P.acceptMove s acc).w := by
  unfold GrpProb.acceptMove
  split_ifs with h
  · by_contra hnf
    exact CDB.ne_inf_of_lt h (objective_inf_of_infeasible P acc hnf)
  · exact hf

theorem acceptMove_descent (P : GrpProb ℝ n p) (s acc : CDState ℝ n p) :
    Ext.le (P.objective (P.acceptMove s acc)) (P.objective s) = true := by
  unfold GrpProb.acceptMove
  split_ifs with h
  · exact CDB.ext_le_of_lt h
  · exact CDB.le_refl' _

/-! ### c. block descent -/

/-- block curvature: along the columns of group `g` the datafit is bounded by its quadratic model
    with the constant `lips[g]` (what `get_lipschitz` is meant to guarantee) -/
def BlockSmooth (P : GrpProb ℝ n p) (g : Nat) : Prop :=
  ∀ grp L, P.groups[g]? = some grp → P.lips[g]? = some L →
    ∀ (u : Fin n → ℝ) (w w' : Fin p → ℝ) (d : Fin grp.length → ℝ),
      P.df.value P.sw P.y (fun r => u r + ∑ i, d i * P.X r (grp.get i)) w' ≤
        P.df.value P.sw P.y u w + ∑ i, P.df.gradScalar P.X P.sw P.y u (grp.get i) * d i
          + L / 2 * ∑ i, d i ^ 2

/-- hyper-parameter ranges of the group-lasso penalties -/
def PenOK (P : GrpProb ℝ n p) : Prop :=
  (∀ wg ∈ P.wgs, 0 ≤ wg) ∧
  ((∃ a pos, P.pen = .wgl2 a pos ∧ 0 ≤ a) ∨ (∃ a, P.pen = .wl1gl2 a ∧ 0 ≤ a ∧ ∀ j, 0 ≤ P.wfs j))

/-- prox optimality of the block kernel against a point with finite penalty, at value level -/
theorem penBlk_prox {k : Nat} (pen : BlkPen ℝ) (wg st Aold : ℝ) (wf x old : Fin k → ℝ)
    (hwg : 0 ≤ wg) (hst : 0 < st)
    (hpen : (∃ a pos, pen = .wgl2 a pos ∧ 0 ≤ a) ∨ (∃ a, pen = .wl1gl2 a ∧ 0 ≤ a ∧ ∀ i, 0 ≤ wf i))
    (hold : pen.penBlk wg wf old = .fin Aold) :
    ∃ Anew, pen.penBlk wg wf (pen.proxBlk wg wf x st) = .fin Anew ∧
      halfSq x (pen.proxBlk wg wf x st) + st * Anew ≤ halfSq x old + st * Aold := by
  rcases hpen with ⟨a, pos, rfl, ha⟩ | ⟨a, rfl, ha, hwf⟩
  · have hne : (BlkPen.wgl2 a pos).penBlk wg wf old ≠ .inf := by rw [hold]; intro e; cases e
    have hv : pos = true → ∀ i, 0 ≤ old i := by
      intro hp; subst hp
      exact (penBlk_ne_inf_iff _ wg wf old).1 hne a rfl
    obtain ⟨hr, hineq⟩ := prox_wgl2 a wg st pos wf x old ha hwg hst hv
    have hfin : ∀ w : Fin k → ℝ, (pos = true → ∀ i, 0 ≤ w i) →
        (BlkPen.wgl2 a pos).penBlk wg wf w = .fin (a * wg * norm2 w) := by
      intro w hw
      have h1 : (BlkPen.wgl2 a pos).penBlk wg wf w ≠ .inf := by
        rw [penBlk_ne_inf_iff]
        intro a' e i
        cases e
        exact hw rfl i
      simp only [BlkPen.penBlk] at h1 ⊢
      split_ifs with hc
      · rw [if_pos hc] at h1; exact absurd rfl h1
      · rfl
    have e1 := hfin old hv
    rw [hold] at e1
    injection e1 with e1
    refine ⟨_, hfin _ hr, ?_⟩
    rw [e1]; exact hineq
  · have hineq := prox_wl1gl2 a wg st wf x old ha hwg hst hwf
    have hfin : ∀ w : Fin k → ℝ, (BlkPen.wl1gl2 a).penBlk wg wf w
        = .fin (a * (wg * norm2 w + ∑ i, wf i * |w i|)) := by
      intro w
      simp only [BlkPen.penBlk, vsum_eq, sabs_eq]
    have e1 := hfin old
    rw [hold] at e1
    injection e1 with e1
    refine ⟨_, hfin _, ?_⟩
    rw [e1]; exact hineq

/-- from the prox inequality at `x = old − grad/L`, step `1/L`, to the decrease of the model -/
theorem prox_step_algebra {k : Nat} (L Anew Aold : ℝ) (old gr r : Fin k → ℝ) (hL : 0 < L)
    (h : halfSq (fun i => old i - gr i / L) r + 1 / L * Anew
        ≤ halfSq (fun i => old i - gr i / L) old + 1 / L * Aold) :
    ∑ i, gr i * (r i - old i) + L / 2 * ∑ i, (r i - old i) ^ 2 + Anew ≤ Aold := by
  unfold halfSq at h
  have e1 : ∀ i, (r i - (old i - gr i / L)) ^ 2
      = (r i - old i) ^ 2 + 2 / L * (gr i * (r i - old i)) + (gr i / L) ^ 2 := fun i => by ring
  have e2 : ∀ i, (old i - (old i - gr i / L)) ^ 2 = (gr i / L) ^ 2 := fun i => by ring
  simp only [e1, e2, Finset.sum_add_distrib, ← Finset.mul_sum] at h
  generalize ∑ i, (r i - old i) ^ 2 = S2 at h ⊢
  generalize ∑ i, gr i * (r i - old i) = Sg at h ⊢
  generalize ∑ i, (gr i / L) ^ 2 = G2 at h
  have h' := mul_le_mul_of_nonneg_left h hL.le
  have hq : L * (1 / L) = 1 := by field_simp
  have e3 : L * ((S2 + 2 / L * Sg + G2) / 2 + 1 / L * Anew)
      = L / 2 * S2 + (L * (1 / L)) * Sg + L * G2 / 2 + (L * (1 / L)) * Anew := by ring
  have e4 : L * (G2 / 2 + 1 / L * Aold) = L * G2 / 2 + (L * (1 / L)) * Aold := by ring
  rw [e3, e4, hq] at h'
  linarith

theorem bcdStep_descent (P : GrpProb ℝ n p) (s : CDState ℝ n p) (g : Nat)
    (hnd : ∀ grp ∈ P.groups, grp.Nodup) (hdisj : P.groups.Pairwise List.Disjoint)
    (hpen : PenOK P) (hlips : ∀ L ∈ P.lips, 0 ≤ L) (hcurv : BlockSmooth P g) :
    Ext.le (P.objective (P.bcdStep s g)) (P.objective s) = true := by
  rcases bcdStep_cases P s g with e | ⟨grp, L, wg, h1, h2, h3, hL0⟩
  · rw [e]; exact CDB.le_refl' _
  by_cases hinf : ∃ gi, P.penTerm s.w gi = .inf
  · have : P.objective s = .inf := by
      unfold GrpProb.objective GrpProb.penValue
      rw [CDB.esum_inf _ hinf]; rfl
    rw [this]; exact CDB.le_inf _
  push Not at hinf
  have hL : 0 < L := lt_of_le_of_ne (hlips L (List.mem_of_getElem? h2)) (Ne.symm hL0)
  have hwg : 0 ≤ wg := hpen.1 wg (List.mem_of_getElem? h3)
  have hinj := get_injective (hnd grp (List.mem_of_getElem? h1))
  -- the index of the group
  obtain ⟨hg, hgrp⟩ := List.getElem?_eq_some_iff.1 h1
  subst hgrp
  set grp := P.groups[g] with hgrpdef
  set gi : Fin P.groups.length := ⟨g, hg⟩ with hgi
  have hwgD : P.wgs.getD g 0 = wg := by
    rw [List.getD_eq_getElem?_getD, h3]; rfl
  set A : Fin P.groups.length → ℝ := fun k => CDB.val (P.penTerm s.w k) with hA
  have hAk : ∀ k, P.penTerm s.w k = .fin (A k) := fun k => CDB.eq_fin_val (hinf k)
  -- the new block
  set new := blockNew P s grp L wg with hnew
  set w' := GrpProb.assign s.w grp new with hw'
  have hw'get : ∀ i, w' (grp.get i) = new i := assignF_get grp.length grp.get new s.w hinj
  -- the penalty term of group `g`, before and after
  have hold : P.pen.penBlk wg (GrpProb.block P.wfs grp) (GrpProb.block s.w grp) = .fin (A gi) := by
    have := hAk gi
    rw [← hwgD]
    exact this
  have hpen' : (∃ a pos, P.pen = .wgl2 a pos ∧ 0 ≤ a) ∨
      (∃ a, P.pen = .wl1gl2 a ∧ 0 ≤ a ∧ ∀ i, 0 ≤ GrpProb.block P.wfs grp i) := by
    rcases hpen.2 with h | ⟨a, h, ha, hwf⟩
    · exact Or.inl h
    · exact Or.inr ⟨a, h, ha, fun i => hwf _⟩
  obtain ⟨Anew, hAnew, hprox⟩ := penBlk_prox P.pen wg (1 / L) (A gi) (GrpProb.block P.wfs grp)
    (fun i => s.w (grp.get i) - P.df.gradScalar P.X P.sw P.y s.Xw (grp.get i) / L)
    (GrpProb.block s.w grp) hwg (by positivity) hpen' hold
  have hkey := prox_step_algebra L Anew (A gi) (GrpProb.block s.w grp)
    (fun i => P.df.gradScalar P.X P.sw P.y s.Xw (grp.get i)) new hL hprox
  -- the datafit part
  have hdat := hcurv grp L h1 h2 s.Xw s.w w' (fun i => new i - s.w (grp.get i))
  -- penalty terms of the new point
  have hterm : ∀ k, P.penTerm w' k = .fin (if k = gi then Anew else A k) := by
    intro k
    by_cases hk : k = gi
    · rw [if_pos hk, hk]
      have hb : GrpProb.block w' grp = new := funext hw'get
      show P.pen.penBlk (P.wgs.getD g 0) (GrpProb.block P.wfs grp) (GrpProb.block w' grp) = _
      rw [hb, hwgD]
      exact hAnew
    · rw [if_neg hk, ← hAk k]
      have hdj : List.Disjoint (P.groups.get k) grp := by
        have hkne : k.1 ≠ g := fun e => hk (Fin.ext e)
        rw [List.pairwise_iff_getElem] at hdisj
        rcases lt_or_gt_of_ne hkne with hlt | hlt
        · exact hdisj k.1 g k.2 hg hlt
        · exact (hdisj g k.1 hg k.2 hlt).symm
      have hb : GrpProb.block w' (P.groups.get k) = GrpProb.block s.w (P.groups.get k) := by
        funext i
        refine assignF_outside grp.length grp.get new s.w _ (fun i' e => ?_)
        exact hdj (List.get_mem _ i) (e ▸ List.get_mem grp i')
      simp only [GrpProb.penTerm, hb]
  have hobj_s : P.objective s = .fin (P.df.value P.sw P.y s.Xw s.w + ∑ k, A k) := by
    unfold GrpProb.objective GrpProb.penValue
    rw [CDB.esum_fin _ A hAk]; rfl
  rw [bcdStep_eq P s g grp L wg h1 h2 h3 hL0, hobj_s]
  unfold GrpProb.objective GrpProb.penValue
  rw [CDB.esum_fin _ _ hterm, CDB.sum_ite_replace]
  apply CDB.fin_le_fin
  have hfun : (fun r => s.Xw r + ∑ i, (w' (grp.get i) - s.w (grp.get i)) * P.X r (grp.get i))
      = (fun r => s.Xw r + ∑ i, (new i - s.w (grp.get i)) * P.X r (grp.get i)) := by
    funext r; simp only [hw'get]
  show P.df.value P.sw P.y
      (fun r => s.Xw r + ∑ i, (w' (grp.get i) - s.w (grp.get i)) * P.X r (grp.get i)) w' + _ ≤ _
  rw [hfun]
  have e1 : ∑ i, P.df.gradScalar P.X P.sw P.y s.Xw (grp.get i) * (new i - GrpProb.block s.w grp i)
      = ∑ i, P.df.gradScalar P.X P.sw P.y s.Xw (grp.get i) * (new i - s.w (grp.get i)) := rfl
  have e2 : ∑ i, (new i - GrpProb.block s.w grp i) ^ 2 = ∑ i, (new i - s.w (grp.get i)) ^ 2 := rfl
  rw [e1, e2] at hkey
  linarith

/-! ### the block curvature hypothesis from the operator-norm contract -/

/-- the data for which the curvature theorems of C09 apply (the group datafits are
    `DF.quadratic` and `DF.logistic`) -/
def GWellPosed (P : GrpProb ℝ n p) : Prop :=
  (∀ i, 0 ≤ P.sw i) ∧ 0 < P.df.normaliser P.sw ∧
  (P.df = .logistic → ∀ i, P.y i = 1 ∨ P.y i = -1) ∧
  (∀ delta, P.df = .huber delta → 0 < delta) ∧
  (∃ c, P.df.curvBound = some c) ∧ P.df ≠ .svc

theorem lin_zero_of_ne_svc (d : DF ℝ) (h : d ≠ .svc) : d.lin = 0 := by
  cases d <;> first | rfl | exact absurd rfl h

/-- if `lips[g]` dominates `c · λ_max(X_gᵀ diag(sw) X_g) / normaliser` (`c` the curvature bound of
    the loss: `1` for Quadratic, `1/4` for Logistic) — stated as a quadratic-form inequality, i.e.
    exactly the contract of `numpy.linalg.norm(X_g, ord=2) ** 2` — the block curvature holds -/
theorem blockSmooth_of_opnorm (P : GrpProb ℝ n p) (g : Nat) (c : ℝ) (hP : GWellPosed P)
    (hc : P.df.curvBound = some c)
    (hop : ∀ grp L, P.groups[g]? = some grp → P.lips[g]? = some L → ∀ d : Fin grp.length → ℝ,
      c * (∑ r, P.sw r * (∑ i, P.X r (grp.get i) * d i) ^ 2) / P.df.normaliser P.sw
        ≤ L * ∑ i, d i ^ 2) :
    BlockSmooth P g := by
  obtain ⟨hsw, hN, hy, hdelta, _, hsvc⟩ := hP
  intro grp L h1 h2 u w w' d
  have hlin := lin_zero_of_ne_svc P.df hsvc
  have hop' := hop grp L h1 h2 d
  rw [value_eq, value_eq, hlin, zero_mul, zero_mul, add_zero, add_zero]
  set δ : Fin n → ℝ := fun r => ∑ i, d i * P.X r (grp.get i) with hδ
  have hδ' : ∀ r, ∑ i, P.X r (grp.get i) * d i = δ r := fun r =>
    Finset.sum_congr rfl (fun i _ => mul_comm _ _)
  simp only [hδ'] at hop'
  generalize hNd : P.df.normaliser P.sw = N at hN hop'
  have hsum : ∑ r, P.sw r * P.df.loss1 (P.y r) (u r + δ r)
      ≤ ∑ r, P.sw r * (P.df.loss1 (P.y r) (u r) + P.df.dloss1 (P.y r) (u r) * δ r + c / 2 * δ r ^ 2) :=
    Finset.sum_le_sum (fun r _ => mul_le_mul_of_nonneg_left
      (loss1_smooth P.df c (P.y r) (u r) (δ r) hc (fun h => hy h r) hdelta) (hsw r))
  have hexp : ∑ r, P.sw r * (P.df.loss1 (P.y r) (u r) + P.df.dloss1 (P.y r) (u r) * δ r + c / 2 * δ r ^ 2)
      = (∑ r, P.sw r * P.df.loss1 (P.y r) (u r)) + (∑ r, P.sw r * P.df.dloss1 (P.y r) (u r) * δ r)
        + c / 2 * ∑ r, P.sw r * δ r ^ 2 := by
    simp only [mul_add, Finset.sum_add_distrib, Finset.mul_sum]
    congr 1
    · congr 1
      exact Finset.sum_congr rfl (fun r _ => by ring)
    · exact Finset.sum_congr rfl (fun r _ => by ring)
  rw [hexp] at hsum
  -- the linear term is `⟨grad_g, d⟩`
  have hgrad : ∑ i, P.df.gradScalar P.X P.sw P.y u (grp.get i) * d i
      = (∑ r, P.sw r * P.df.dloss1 (P.y r) (u r) * δ r) / N := by
    simp only [DF.gradScalar, DF.rawGrad, vsum_eq, hlin, add_zero, hNd, hδ, Finset.sum_mul,
      Finset.mul_sum, Finset.sum_div]
    rw [Finset.sum_comm]
    refine Finset.sum_congr rfl (fun r _ => Finset.sum_congr rfl (fun i _ => ?_))
    field_simp
  rw [hgrad]
  have h1' : (∑ r, P.sw r * P.df.loss1 (P.y r) (u r + δ r)) / N
      ≤ ((∑ r, P.sw r * P.df.loss1 (P.y r) (u r)) + (∑ r, P.sw r * P.df.dloss1 (P.y r) (u r) * δ r)
        + c / 2 * ∑ r, P.sw r * δ r ^ 2) / N := div_le_div_of_nonneg_right hsum hN.le
  have h2' : ((∑ r, P.sw r * P.df.loss1 (P.y r) (u r)) + (∑ r, P.sw r * P.df.dloss1 (P.y r) (u r) * δ r)
        + c / 2 * ∑ r, P.sw r * δ r ^ 2) / N
      = (∑ r, P.sw r * P.df.loss1 (P.y r) (u r)) / N + (∑ r, P.sw r * P.df.dloss1 (P.y r) (u r) * δ r) / N
        + (c * (∑ r, P.sw r * δ r ^ 2) / N) / 2 := by ring
  rw [h2'] at h1'
  linarith

/-- QuadraticGroup (`sw = 1`, `normaliser = n`): `L_g ≥ λ_max(X_gᵀX_g)/n` suffices -/
theorem blockSmooth_quadratic (P : GrpProb ℝ n p) (g : Nat) (hdf : P.df = .quadratic)
    (hsw : ∀ i, P.sw i = 1) (hn : 0 < n)
    (hop : ∀ grp L, P.groups[g]? = some grp → P.lips[g]? = some L → ∀ d : Fin grp.length → ℝ,
      (∑ r, (∑ i, P.X r (grp.get i) * d i) ^ 2) / (n : ℝ) ≤ L * ∑ i, d i ^ 2) :
    BlockSmooth P g := by
  have hN : P.df.normaliser P.sw = (n : ℝ) := by rw [hdf]; rfl
  refine blockSmooth_of_opnorm P g 1 ?_ (by rw [hdf]; rfl) ?_
  · refine ⟨fun i => ?_, ?_, fun h => ?_, fun δ h => ?_, ⟨1, ?_⟩, ?_⟩
    · rw [hsw i]; exact zero_le_one
    · rw [hN]; exact_mod_cast hn
    · rw [hdf] at h; cases h
    · rw [hdf] at h; cases h
    · rw [hdf]; rfl
    · rw [hdf]; intro h; cases h
  · intro grp L h1 h2 d
    rw [hN]
    simp only [hsw, one_mul]
    exact hop grp L h1 h2 d

/-- LogisticGroup (`sw = 1`, labels ±1): `L_g ≥ λ_max(X_gᵀX_g)/(4n)` suffices -/
theorem blockSmooth_logistic (P : GrpProb ℝ n p) (g : Nat) (hdf : P.df = .logistic)
    (hsw : ∀ i, P.sw i = 1) (hn : 0 < n) (hy : ∀ i, P.y i = 1 ∨ P.y i = -1)
    (hop : ∀ grp L, P.groups[g]? = some grp → P.lips[g]? = some L → ∀ d : Fin grp.length → ℝ,
      (∑ r, (∑ i, P.X r (grp.get i) * d i) ^ 2) / (4 * (n : ℝ)) ≤ L * ∑ i, d i ^ 2) :
    BlockSmooth P g := by
  have hN : P.df.normaliser P.sw = (n : ℝ) := by rw [hdf]; rfl
  have hcb : P.df.curvBound = some (1 / 4) := by
    rw [hdf]; simp [DF.curvBound]
  refine blockSmooth_of_opnorm P g (1 / 4) ?_ hcb ?_
  · refine ⟨fun i => ?_, ?_, fun _ => hy, fun δ h => ?_, ⟨_, hcb⟩, ?_⟩
    · rw [hsw i]; exact zero_le_one
    · rw [hN]; exact_mod_cast hn
    · rw [hdf] at h; cases h
    · rw [hdf]; intro h; cases h
  · intro grp L h1 h2 d
    rw [hN]
    simp only [hsw, one_mul]
    have := hop grp L h1 h2 d
    have e : 1 / 4 * (∑ r, (∑ i, P.X r (grp.get i) * d i) ^ 2) / (n : ℝ)
        = (∑ r, (∑ i, P.X r (grp.get i) * d i) ^ 2) / (4 * (n : ℝ)) := by
      ring
    rw [e]; exact this

/-! ### the intercept step -/

/-- the separable problem with the same data (only its datafit accessors are used) -/
def toCD (P : GrpProb ℝ n p) : CDProb ℝ n p :=
  { X := P.X, y := P.y, sw := P.sw, df := P.df, pen := .l1 0 false, wts := fun _ => 1,
    fitInt := P.fitInt }

theorem interceptMove_descent (P : GrpProb ℝ n p) (s : CDState ℝ n p) (hP : GWellPosed P)
    (hsw1 : P.df ≠ .wquadratic → ∀ i, P.sw i = 1) :
    Ext.le (P.objective (P.interceptMove s)) (P.objective s) = true := by
  obtain ⟨hsw, hN, hy, hdelta, hc, hsvc⟩ := hP
  have h := CDB.interceptMove_descent (toCD P) s ⟨hsw, hN, hy, hdelta, hc⟩ hsvc hsw1
  -- the penalty of `toCD P` is identically zero
  have hpen : ∀ w : Fin p → ℝ, (toCD P).pen.value (toCD P).wts w = .fin (∑ _j : Fin p, (0:ℝ)) := by
    intro w
    unfold SepPen.value
    refine CDB.esum_fin _ _ (fun j => ?_)
    simp [toCD, SepPen.pen1, SepPen.positive]
  unfold CDProb.objective at h
  rw [hpen, hpen] at h
  have hle : (toCD P).df.value (toCD P).sw (toCD P).y ((toCD P).interceptMove s).Xw ((toCD P).interceptMove s).w
      ≤ (toCD P).df.value (toCD P).sw (toCD P).y s.Xw s.w := by
    have h' : decide (_ ≤ _) = true := h
    have := of_decide_eq_true h'
    linarith
  unfold GrpProb.objective
  exact CDB.add_le_add_fin _ hle

/-! ### e. every reachable state -/

/-- states reachable from `s₀` by the moves of `GroupBCD._solve`: block steps on any group index,
    intercept updates, guarded acceptance of any combination of previously visited states -/
inductive GReach (P : GrpProb ℝ n p) (s₀ : CDState ℝ n p) : CDState ℝ n p → Prop
  | start : GReach P s₀ s₀
  | block {s} (g : Nat) : GReach P s₀ s → GReach P s₀ (P.bcdStep s g)
  | intercept {s} : GReach P s₀ s → P.fitInt = true → GReach P s₀ (P.interceptMove s)
  | accept {s} {K : Nat} (buf : Fin K → CDState ℝ n p) (c : Fin K → ℝ) :
      GReach P s₀ s → (∀ k, GReach P s₀ (buf k)) →
      GReach P s₀ (P.acceptMove s (GrpProb.extrapPoint buf c))

theorem greach_epoch (P : GrpProb ℝ n p) (s₀ s : CDState ℝ n p) (ws : List Nat) (h : GReach P s₀ s) :
    GReach P s₀ (P.bcdEpoch s ws) := by
  unfold GrpProb.bcdEpoch
  induction ws generalizing s with
  | nil => exact h
  | cons g ws ih => exact ih _ (GReach.block g h)

theorem greach_consistent (P : GrpProb ℝ n p) (s₀ s : CDState ℝ n p)
    (hnd : ∀ grp ∈ P.groups, grp.Nodup) (h₀ : GConsistent P s₀) (h : GReach P s₀ s) :
    GConsistent P s := by
  induction h with
  | start => exact h₀
  | block g _ ih => exact bcdStep_consistent P _ g hnd ih
  | intercept _ _ ih => exact interceptMove_consistent P _ ih
  | accept buf c _ _ ih ihbuf =>
    exact acceptMove_consistent P _ _ ih (extrapPoint_consistent P buf c ihbuf)

theorem greach_feasible (P : GrpProb ℝ n p) (s₀ s : CDState ℝ n p) (h₀ : GFeasible P s₀.w)
    (h : GReach P s₀ s) : GFeasible P s.w := by
  induction h with
  | start => exact h₀
  | block g _ ih => exact bcdStep_feasible P _ g ih
  | intercept _ _ ih => exact ih
  | accept buf c _ _ ih _ => exact acceptMove_feasible P _ _ ih

theorem ext_le_trans (a b c : Ext ℝ) (h1 : Ext.le a b = true) (h2 : Ext.le b c = true) :
    Ext.le a c = true := by
  cases a with
  | inf =>
    cases b with
    | inf => exact h2
    | fin _ => cases h1
  | fin x =>
    cases c with
    | inf => rfl
    | fin z =>
      cases b with
      | inf => cases h2
      | fin y =>
        have h1' : x ≤ y := of_decide_eq_true h1
        have h2' : y ≤ z := of_decide_eq_true h2
        exact CDB.fin_le_fin (h1'.trans h2')

theorem greach_descent (P : GrpProb ℝ n p) (s₀ s : CDState ℝ n p)
    (hnd : ∀ grp ∈ P.groups, grp.Nodup) (hdisj : P.groups.Pairwise List.Disjoint)
    (hpen : PenOK P) (hlips : ∀ L ∈ P.lips, 0 ≤ L) (hcurv : ∀ g, BlockSmooth P g)
    (hP : GWellPosed P) (hsw1 : P.df ≠ .wquadratic → ∀ i, P.sw i = 1)
    (h : GReach P s₀ s) : Ext.le (P.objective s) (P.objective s₀) = true := by
  induction h with
  | start => exact CDB.le_refl' _
  | block g _ ih =>
    exact ext_le_trans _ _ _ (bcdStep_descent P _ g hnd hdisj hpen hlips (hcurv g)) ih
  | intercept _ _ ih => exact ext_le_trans _ _ _ (interceptMove_descent P _ hP hsw1) ih
  | accept buf c _ _ ih _ => exact ext_le_trans _ _ _ (acceptMove_descent P _ _) ih

end Skglm.Proofs.BCD
