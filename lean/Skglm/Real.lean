import Skglm.Scalar
import Mathlib.Data.Real.Basic
import Mathlib.Analysis.SpecialFunctions.Log.Basic
import Mathlib.Analysis.SpecialFunctions.Sqrt
import Mathlib.Analysis.SpecialFunctions.Pow.Real
import Mathlib.Analysis.SpecialFunctions.Trigonometric.Inverse
import Mathlib.Algebra.BigOperators.Fin
import Mathlib.Tactic
/-
  The real-number reading of the model, and the bridging lemmas that turn the model's
  primitive operations into Mathlib's.
-/

noncomputable instance : Scalar ℝ where
  decLt := fun _ _ => Classical.propDecidable _
  decLe := fun _ _ => Classical.propDecidable _
  sqrt := Real.sqrt
  exp := Real.exp
  log := Real.log
  cos := Real.cos
  acos := Real.arccos
  pow := fun x y => x ^ y

namespace Skglm

@[simp] theorem nat_eq (n : Nat) : (nat n : ℝ) = (n : ℝ) := rfl
@[simp] theorem frac_eq (a b : Nat) : (frac a b : ℝ) = (a : ℝ) / (b : ℝ) := rfl
@[simp] theorem scalar_sqrt_eq (x : ℝ) : Scalar.sqrt x = Real.sqrt x := rfl
@[simp] theorem scalar_exp_eq (x : ℝ) : Scalar.exp x = Real.exp x := rfl
@[simp] theorem scalar_log_eq (x : ℝ) : Scalar.log x = Real.log x := rfl
@[simp] theorem scalar_cos_eq (x : ℝ) : Scalar.cos x = Real.cos x := rfl
@[simp] theorem scalar_acos_eq (x : ℝ) : Scalar.acos x = Real.arccos x := rfl
@[simp] theorem scalar_pow_eq (x y : ℝ) : Scalar.pow x y = x ^ y := rfl

theorem sabs_eq (x : ℝ) : sabs x = |x| := by
  unfold sabs
  split_ifs with h
  · exact (abs_of_neg h).symm
  · exact (abs_of_nonneg (not_lt.mp h)).symm

theorem smax_eq (a b : ℝ) : smax a b = max a b := by
  unfold smax
  split_ifs with h
  · exact (max_eq_right h.le).symm
  · exact (max_eq_left (not_lt.mp h)).symm

theorem smin_eq (a b : ℝ) : smin a b = min a b := by
  unfold smin
  split_ifs with h
  · exact (min_eq_right h.le).symm
  · exact (min_eq_left (not_lt.mp h)).symm

theorem sgn_pos {x : ℝ} (h : 0 < x) : sgn x = 1 := by simp [sgn, h]
theorem sgn_neg {x : ℝ} (h : x < 0) : sgn x = -1 := by
  simp [sgn, h, not_lt.mpr h.le]
@[simp] theorem sgn_zero : sgn (0 : ℝ) = 0 := by simp [sgn]
theorem sgn_mul_sabs (x : ℝ) : sgn x * sabs x = x := by
  rcases lt_trichotomy x 0 with h | h | h
  · rw [sgn_neg h, sabs_eq, abs_of_neg h]; ring
  · subst h; simp
  · rw [sgn_pos h, sabs_eq, abs_of_pos h]; ring

theorem eqb_iff (x y : ℝ) : eqb x y = true ↔ x = y := by
  unfold eqb
  rw [Bool.and_eq_true, decide_eq_true_iff, decide_eq_true_iff]
  exact le_antisymm_iff.symm

theorem eqb_false_iff (x y : ℝ) : eqb x y = false ↔ x ≠ y := by
  rw [Ne, ← eqb_iff, Bool.not_eq_true]

theorem nz_iff (x : ℝ) : nz x = true ↔ x ≠ 0 := by
  simp [nz, eqb_false_iff]

/-- the model's left-fold sum is the big-operator sum -/
theorem vsum_eq {n : Nat} (f : Fin n → ℝ) : vsum f = ∑ i, f i := by
  unfold vsum
  induction n with
  | zero => simp [Fin.foldl_zero]
  | succ n ih =>
    rw [Fin.foldl_succ_last, Fin.sum_univ_castSucc]
    rw [ih (fun i => f i.castSucc)]

theorem dot_eq {n : Nat} (x y : Fin n → ℝ) : dot x y = ∑ i, x i * y i := by
  unfold dot; rw [vsum_eq]

theorem norm2_eq {n : Nat} (x : Fin n → ℝ) : norm2 x = Real.sqrt (∑ i, x i * x i) := by
  unfold norm2; rw [vsum_eq]; rfl

@[simp] theorem mat_eq {n : Nat} (f : Fin n → ℝ) : mat f = f := by
  funext i; simp [mat]

end Skglm
