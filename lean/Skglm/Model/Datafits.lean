import Skglm.Scalar
/-
  Model of `skglm/datafits/single_task.py` (and the quadratic group / multitask datafits, which
  use the same per-sample formulas): every datafit is "per-sample loss of the linear predictor,
  weighted, normalised, plus a linear term in `w`" and all accessors the solvers call are
  derived from three scalar functions: the loss, its first and its second derivative in the
  linear predictor.
-/
namespace Skglm
variable {α : Type} [Scalar α]

inductive DF (α : Type) where
  | quadratic
  | wquadratic          -- sample weights are passed to every accessor (ones otherwise)
  | logistic
  | huber (delta : α)
  | poisson
  | gamma
  | svc                 -- QuadraticSVC: `X` is `yXT`, the linear predictor is `yXT w`
  deriving Repr

namespace DF

/-- `sigmoid(x)` -/
def sigmoid (x : α) : α := 1 / (1 + Scalar.exp (-x))

/-- per-sample loss of the linear predictor `u` with target `y` (before normalisation) -/
def loss1 (d : DF α) (y u : α) : α :=
  match d with
  | quadratic | wquadratic => (y - u) * (y - u) / nat 2
  | logistic => Scalar.log (1 + Scalar.exp (-(y * u)))
  | huber delta =>
      let r := sabs (y - u)
      if r < delta then frac 1 2 * (r * r) else delta * r - frac 1 2 * (delta * delta)
  | poisson => Scalar.exp u - y * u
  | gamma => u + y * Scalar.exp (-u) - 1 - Scalar.log y
  | svc => u * u / nat 2

/-- derivative of `loss1` in `u` (the code's `raw_grad` before normalisation) -/
def dloss1 (d : DF α) (y u : α) : α :=
  match d with
  | quadratic | wquadratic => u - y
  | logistic => -y / (1 + Scalar.exp (y * u))
  | huber delta =>
      let r := y - u
      if sabs r < delta then -r else -(sgn r * delta)
  | poisson => Scalar.exp u - y
  | gamma => 1 - y * Scalar.exp (-u)
  | svc => u

/-- second derivative of `loss1` in `u` (the code's `raw_hessian` before normalisation; for Huber
    the curvature bound used by `get_lipschitz`) -/
def d2loss1 (d : DF α) (y u : α) : α :=
  match d with
  | quadratic | wquadratic | svc => 1
  | logistic =>
      let e := Scalar.exp (-(y * u))
      e / ((1 + e) * (1 + e))
  | huber _ => 1
  | poisson => Scalar.exp u
  | gamma => y * Scalar.exp (-u)

/-- global bound on `d2loss1` used by `get_lipschitz` (`none`: the datafit offers none) -/
def curvBound (d : DF α) : Option α :=
  match d with
  | quadratic | wquadratic | svc | huber _ => some 1
  | logistic => some (frac 1 4)
  | poisson | gamma => none

/-- normalisation: `n_samples`, the sum of sample weights, or `1` -/
def normaliser {n : Nat} (d : DF α) (sw : Fin n → α) : α :=
  match d with
  | wquadratic => vsum sw
  | svc => 1
  | _ => nat n

/-- coefficient of `Σ_j w_j` in the value (`-1` for the SVC dual) -/
def lin (d : DF α) : α :=
  match d with
  | svc => -1
  | _ => 0

/-- `1 / L_0`: factor between the intercept gradient and `intercept_update_step` -/
def interceptScale (d : DF α) : α :=
  match d with
  | logistic => nat 4
  | _ => 1

variable {n p : Nat}

/-- `datafit.value(y, w, Xw)` -/
def value (d : DF α) (sw y u : Fin n → α) (w : Fin p → α) : α :=
  vsum (fun i => sw i * d.loss1 (y i) (u i)) / d.normaliser sw + d.lin * vsum w

/-- `datafit.raw_grad(y, Xw)` -/
def rawGrad (d : DF α) (sw y u : Fin n → α) : Fin n → α :=
  fun i => sw i * d.dloss1 (y i) (u i) / d.normaliser sw

/-- `datafit.raw_hessian(y, Xw)` -/
def rawHess (d : DF α) (sw y u : Fin n → α) : Fin n → α :=
  fun i => sw i * d.d2loss1 (y i) (u i) / d.normaliser sw

/-- `datafit.gradient_scalar(X, y, w, Xw, j)` -/
def gradScalar (d : DF α) (X : Fin n → Fin p → α) (sw y u : Fin n → α) (j : Fin p) : α :=
  vsum (fun i => X i j * d.rawGrad sw y u i) + d.lin

/-- `datafit.get_lipschitz(X, y)[j]` -/
def lipschitz (d : DF α) (X : Fin n → Fin p → α) (sw : Fin n → α) (j : Fin p) : α :=
  match d.curvBound with
  | some c => vsum (fun i => sw i * (X i j * X i j)) * c / d.normaliser sw
  | none => 0

/-- `datafit.intercept_update_step(y, Xw)` -/
def interceptStep (d : DF α) (sw y u : Fin n → α) : α :=
  d.interceptScale * vsum (d.rawGrad sw y u)

end DF

/-! ### CSC matrices: a column is the list of its stored entries `(row, value)` -/

abbrev CSC (α : Type) (n p : Nat) := Fin p → List (Fin n × α)

namespace CSC
variable {n p : Nat}

/-- the dense matrix a CSC structure represents (duplicates add up, explicit zeros allowed) -/
def toDense (M : CSC α n p) : Fin n → Fin p → α :=
  fun i j => (M j).foldl (fun acc e => if e.1 = i then acc + e.2 else acc) 0

/-- `Σ_{stored (i, v) in column j} v * f i` (loop order of the `_sparse` kernels) -/
def colDot (M : CSC α n p) (j : Fin p) (f : Fin n → α) : α :=
  (M j).foldl (fun acc e => acc + e.2 * f e.1) 0

/-- `Xw += d * X[:, j]` on the stored entries of column `j` -/
def colAxpy (M : CSC α n p) (j : Fin p) (d : α) (u : Fin n → α) : Fin n → α :=
  (M j).foldl (fun acc e => fun i => if i = e.1 then acc i + d * e.2 else acc i) u

end CSC

namespace DF
variable {n p : Nat}

/-- `datafit.gradient_scalar_sparse(data, indptr, indices, y, Xw, j)` -/
def gradScalarSparse (d : DF α) (M : CSC α n p) (sw y u : Fin n → α) (j : Fin p) : α :=
  M.colDot j (d.rawGrad sw y u) + d.lin

/-- `datafit.get_lipschitz_sparse(...)[j]` -/
def lipschitzSparse (d : DF α) (M : CSC α n p) (sw : Fin n → α) (j : Fin p) : α :=
  match d.curvBound with
  | some c => (M j).foldl (fun acc e => acc + sw e.1 * (e.2 * e.2)) 0 * c / d.normaliser sw
  | none => 0

end DF
end Skglm
