import Skglm.Model.Prox
/-
  Model of `skglm/penalties/block_separable.py`: penalties acting on a block (a row of `W` in
  multitask problems, a group of features in group problems).  The block is a vector
  `Fin k → α`; the group weight and (for the sparse group lasso) the feature weights *of the
  features of that group* are arguments.
-/
namespace Skglm
variable {α : Type} [Scalar α]

inductive BlkPen (α : Type) where
  | l21 (alpha : α)
  | l205 (alpha : α)
  | bmcp (alpha gamma : α)
  | bscad (alpha gamma : α)
  | wgl2 (alpha : α) (positive : Bool)
  | wl1gl2 (alpha : α)
  deriving Repr

namespace BlkPen
variable {k : Nat}

/-- `x * c / nx` with the zero block mapped to the zero block -/
def radial (x : Fin k → α) (nx c : α) : Fin k → α :=
  if eqb nx 0 then fun _ => 0 else fun i => c * x i / nx

/-- `prox_1feat(value, stepsize, j)` / `prox_1group(value, stepsize, g)`;
    `wg` = weight of the group, `wf` = feature weights of the group's features -/
def proxBlk (pen : BlkPen α) (wg : α) (wf : Fin k → α) (x : Fin k → α) (s : α) : Fin k → α :=
  match pen with
  | l21 a => BST0 x (a * s)
  | l205 a =>
      let nx := norm2 x
      if eqb nx 0 then fun _ => 0 else fun i => (prox_05 nx (a * s) / nx) * x i
  | bmcp a g => let nx := norm2 x; radial x nx (prox_MCP nx s a g false 1)
  | bscad a g => let nx := norm2 x; radial x nx (prox_SCAD nx s a g)
  | wgl2 a p => BST x (a * s * wg) p
  | wl1gl2 a => BST0 (fun i => STv1 (x i) (a * s * wf i)) (a * s * wg)

/-- `value` summand of one block -/
def penBlk (pen : BlkPen α) (wg : α) (wf : Fin k → α) (w : Fin k → α) : Ext α :=
  match pen with
  | l21 a => .fin (a * norm2 w)
  | l205 a => .fin (a * Scalar.sqrt (norm2 w))
  | bmcp a g => .fin (pen_MCP (norm2 w) a g)
  | bscad a g => .fin (pen_SCAD (norm2 w) a g)
  | wgl2 a p =>
      if p = true ∧ (Fin.foldl k (fun acc i => acc || decide (w i < 0)) false) = true then .inf
      else .fin (a * wg * norm2 w)
  | wl1gl2 a => .fin (a * (wg * norm2 w + vsum (fun i => wf i * sabs (w i))))

/-- entry of `subdiff_distance` for one block (`none`: the class has no such method) -/
def sdBlk (pen : BlkPen α) (wg : α) (w grad : Fin k → α) : Option (Ext α) :=
  let nW := norm2 w
  match pen with
  | l21 a =>
      if !anyNz w then some (.fin (smax 0 (norm2 grad - a)))
      else some (.fin (norm2 (fun i => grad i + a * w i / nW)))
  | l205 a =>
      if !anyNz w then some (.fin 0)
      else some (.fin (norm2 (fun i => grad i + a * w i / (nat 2 * Scalar.pow nW (frac 3 2)))))
  | bmcp a g =>
      if !anyNz w then some (.fin (smax 0 (norm2 grad - a)))
      else if nW < a * g then some (.fin (norm2 (fun i => grad i + a * w i / nW - w i / g)))
      else some (.fin (norm2 grad))
  | bscad a g =>
      if !anyNz w then some (.fin (smax 0 (norm2 grad - a)))
      else if nW ≤ a then some (.fin (norm2 (fun i => grad i + a * w i / nW)))
      else if nW ≤ g * a then
        some (.fin (norm2 (fun i => grad i + ((a * g - nW) / (nW * (g - 1))) * w i)))
      else some (.fin (norm2 grad))
  | wgl2 a p =>
      if p then
        if eqb nW 0 then
          some (.fin (smax 0 (norm2 (fun i => if grad i < 0 then grad i else 0) - a * wg)))
        else if (Fin.foldl k (fun acc i => acc || decide (w i < 0)) false) then some .inf
        else some (.fin (norm2 (fun i =>
          if 0 < w i then -grad i - a * wg * w i / nW else smax (-grad i) 0)))
      else
        if eqb nW 0 then some (.fin (smax 0 (norm2 grad - a * wg)))
        else some (.fin (norm2 (fun i => grad i + a * wg * w i / nW)))
  | wl1gl2 _ => none

end BlkPen
end Skglm
