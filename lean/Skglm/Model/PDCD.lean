import Skglm.Model.Penalties
/-
  Model of the primal-dual coordinate-descent solver `skglm/experimental/pdcd_ws.py`
  (class `PDCD_WS`: `_solve`, `_solve_subproblem`, `_scores_primal`, `_score_dual`) and of the two
  datafits it is used with: `SqrtQuadratic` (`skglm/experimental/sqrt_lasso.py`) and `Pinball`
  (`skglm/experimental/quantile_regression.py`) — `value` and `prox_conjugate`, the only two
  datafit methods the solver calls (`subdiff_distance` of the datafits is never called by it;
  it is modelled at the end of the file because its formula is compared with `prox_conjugate`
  in `Skglm/Properties/PDCD.lean`).

  ```
  dual_step = 1 / norm(X, ord=2)
  norm_cols = norm(X, axis=0, ord=2)
  primal_steps = 1 / np.where(norm_cols == 0., 1., norm_cols)   # since commit d14cecb
  w = zeros or w_init ; Xw = zeros or Xw_init ; z = z_bar = zeros or dual_init.copy()
  stop_crit = 0.
  for iteration in range(max_iter):
      opts_primal = _scores_primal(X, w, z, penalty, primal_steps, all_features)
      opt_dual = _score_dual(y, z, Xw, datafit, dual_step)
      stop_crit = max(max(opts_primal), opt_dual)
      if stop_crit <= tol: break
      gsupp_size = (w != 0).sum()
      ws_size = max(min(p0, n_features), min(n_features, 2 * gsupp_size))
      ws = np.argpartition(opts_primal, -ws_size)[-ws_size:]
      _solve_subproblem(..., ws, max_epochs, tol_in=0.3*stop_crit)
      p_objs.append(datafit.value(y, w, Xw) + penalty.value(w))
  return w, np.asarray(p_objs), stop_crit
  ```

  * `pyMax`                  Python's `max` over a sequence / numba's loop for `norm(·, ord=inf)`
  * `projL2ball`             `proj_L2ball` of `skglm/utils/prox_funcs.py`
  * `PDDatafit`, `value`, `proxConj`   the two datafits
  * `PDProb`                 data, datafit, penalty and the two kinds of steps
  * `PDProb.ofData`          the first lines of `_solve` (`norm(X, ord=2)`, a singular value
                             computed by LAPACK, is a *parameter*; the column norms are computed)
  * `PDProb.ofDataOld`       the same before commit d14cecb (`primal_steps = 1 / norm_cols`)
  * `PDState`, `init`        `w, Xw, z, z_bar`
  * `pdcdStep`               loop body of `_solve_subproblem` for one feature `j`
  * `epoch`                  one pass over a working set
  * `scorePrimal`, `scoreDual`, `critOn`, `stopCrit`   the fixed-point scores and their maximum
  * `subLoop`, `solveSubproblem`   the epochs of `_solve_subproblem`, test every 10 epochs
  * `objective`              `datafit.value(y, w, Xw) + penalty.value(w)`
  * `wsSize`, `solveLoop`, `solve`   the outer loop; `np.argpartition` is a parameter `sel`
-/
namespace Skglm
variable {α : Type} [Scalar α]

/-- Python's `max(xs)` over a non-empty sequence, and the loop numba compiles for
    `norm(x, ord=np.inf)` on the absolute values: start from the first element, replace when a
    later one is strictly larger (`0` on the empty sequence, where Python raises) -/
def pyMax : List α → α
  | [] => 0
  | x :: xs => xs.foldl smax x

/-- `proj_L2ball(u)` of `skglm/utils/prox_funcs.py` -/
def projL2ball {n : Nat} (u : Fin n → α) : Fin n → α :=
  let nu := norm2 u
  if nu ≤ 1 then u else mat (fun i => u i / nu)

/-- the datafits `PDCD_WS` is used with -/
inductive PDDatafit (α : Type) where
  /-- `SqrtQuadratic()`: `‖y - Xw‖₂` -/
  | sqrtQuad
  /-- `Pinball(quantile_level)` -/
  | pinball (q : α)
  deriving Repr

namespace PDDatafit
variable {n : Nat}

/-- one summand of `Pinball.value`:
    `sign = residual >= 0; quantile_level * sign * residual - (1 - quantile_level) * (1 - sign) * residual` -/
def pinballLoss1 (q r : α) : α :=
  let sign : α := if 0 ≤ r then 1 else 0
  q * sign * r - (1 - q) * (1 - sign) * r

/-- `datafit.value(y, w, Xw)` (`w` is not used by either class) -/
def value (d : PDDatafit α) (y Xw : Fin n → α) : α :=
  match d with
  | sqrtQuad => norm2 (fun i => y i - Xw i)
  | pinball q => vsum (fun i => pinballLoss1 q (y i - Xw i))

/-- `Pinball.prox(w, step, y)`: `shift_cst = (quantile_level - 1/2) * step`,
    `y - ST_vec(y - w - shift_cst, step / 2)` -/
def pinballProx (q : α) (w : Fin n → α) (step : α) (y : Fin n → α) : Fin n → α :=
  let shift := (q - frac 1 2) * step
  fun i => y i - STv1 (y i - w i - shift) (step / nat 2)

/-- `datafit.prox_conjugate(z, step, y)`:
    SqrtQuadratic `proj_L2ball(z - step * y)`;
    Pinball (Moreau) `inv_step = 1 / step; z - step * self.prox(inv_step * z, inv_step, y)` -/
def proxConj (d : PDDatafit α) (z : Fin n → α) (step : α) (y : Fin n → α) : Fin n → α :=
  match d with
  | sqrtQuad => projL2ball (mat (fun i => z i - step * y i))
  | pinball q =>
    let inv := 1 / step
    let pr := mat (pinballProx q (mat (fun i => inv * z i)) inv y)
    fun i => z i - step * pr i

/-- `datafit.subdiff_distance(Xw, z, y)` — **not called by `PDCD_WS`** (nor by anything else in the
    package).  SqrtQuadratic: `norm(z + (y - Xw) / norm(y - Xw))` if `np.any(y - Xw)` else
    `norm(z - proj_L2ball(z))`.  Pinball: the maximum over the samples of
    `max(0, abs(z[i] - shift_cst) - 1)` where `y[i] == Xw[i]` and of
    `abs(z[i] + shift_cst + np.sign(y[i] - Xw[i]))` elsewhere, `shift_cst = quantile_level - 1/2`. -/
def subdiffDistance (d : PDDatafit α) (Xw z y : Fin n → α) : α :=
  match d with
  | sqrtQuad =>
    let r : Fin n → α := mat (fun i => y i - Xw i)
    if anyNz r then
      let nr := norm2 r
      norm2 (fun i => z i + r i / nr)
    else
      let pz := projL2ball z
      norm2 (fun i => z i - pz i)
  | pinball q =>
    let shift := q - frac 1 2
    Fin.foldl n (fun acc i =>
      let r := y i - Xw i
      let di := if eqb r 0 then smax 0 (sabs (z i - shift) - 1) else sabs (z i + shift + sgn r)
      smax acc di) 0

end PDDatafit

structure PDProb (α : Type) (n p : Nat) where
  X : Fin n → Fin p → α
  y : Fin n → α
  df : PDDatafit α
  pen : SepPen α
  /-- `penalty.weights` (ones for the unweighted penalties) -/
  wts : Fin p → α
  /-- `primal_steps` -/
  tau : Fin p → α
  /-- `dual_step` -/
  sigma : α

structure PDState (α : Type) (n p : Nat) where
  w : Fin p → α
  Xw : Fin n → α
  z : Fin n → α
  zbar : Fin n → α

variable {n p : Nat}

namespace PDProb

/-- `norm(X, axis=0, ord=2)[j]` -/
def normCol (X : Fin n → Fin p → α) (j : Fin p) : α := norm2 (fun i => X i j)

/-- the first lines of `_solve` (since commit d14cecb):
    `dual_step = 1 / norm(X, ord=2)`; `norm_cols = norm(X, axis=0, ord=2)`;
    `primal_steps = 1 / np.where(norm_cols == 0., 1., norm_cols)`.
    `specNorm = norm(X, ord=2)` is the largest singular value, returned by LAPACK. -/
def ofData (X : Fin n → Fin p → α) (y : Fin n → α) (df : PDDatafit α) (pen : SepPen α)
    (wts : Fin p → α) (specNorm : α) : PDProb α n p :=
  { X := X, y := y, df := df, pen := pen, wts := wts
    tau := mat (fun j => let nc := normCol X j; 1 / (if eqb nc 0 then 1 else nc))
    sigma := 1 / specNorm }

/-- the same before commit d14cecb: `primal_steps = 1 / norm(X, axis=0, ord=2)` -/
def ofDataOld (X : Fin n → Fin p → α) (y : Fin n → α) (df : PDDatafit α) (pen : SepPen α)
    (wts : Fin p → α) (specNorm : α) : PDProb α n p :=
  { X := X, y := y, df := df, pen := pen, wts := wts
    tau := mat (fun j => 1 / normCol X j)
    sigma := 1 / specNorm }

/-- the variables before the loop: `w = zeros or w_init` (**no copy**: the caller's arrays are
    updated in place), `Xw = zeros or Xw_init` (**independently of `w_init`**),
    `z = z_bar = zeros or dual_init.copy()` -/
def init (w0 : Option (Fin p → α)) (Xw0 : Option (Fin n → α)) (dual0 : Option (Fin n → α)) :
    PDState α n p :=
  { w := w0.getD (fun _ => 0), Xw := Xw0.getD (fun _ => 0),
    z := dual0.getD (fun _ => 0), zbar := dual0.getD (fun _ => 0) }

/-- loop body of `_solve_subproblem` for feature `j`:
    ```
    old_w_j = w[j]
    pseudo_grad = X[:, j] @ (2 * z_bar - z)
    w[j] = penalty.prox_1d(old_w_j - primal_steps[j] * pseudo_grad, primal_steps[j], j)
    delta_w_j = w[j] - old_w_j
    if delta_w_j: Xw += delta_w_j * X[:, j]
    z_bar[:] = datafit.prox_conjugate(z + dual_step * Xw, dual_step, y)
    z += (z_bar - z) / n_features
    ```
    (`n_features = X.shape[1]`: the number of **all** features, not the size of the working set;
    the branch on `delta_w_j` is taken inside the materialised vector so that evaluation of the
    `Float` instance stays linear) -/
def pdcdStep (P : PDProb α n p) (s : PDState α n p) (j : Fin p) : PDState α n p :=
  let old := s.w j
  let pg := dot (fun i => P.X i j) (mat (fun i => nat 2 * s.zbar i - s.z i))
  let new := P.pen.prox1 (P.wts j) (old - P.tau j * pg) (P.tau j)
  let w' := mat (fun k => if k = j then new else s.w k)
  let delta := new - old
  let moved := nz delta
  let Xw' := mat (fun i => if moved then s.Xw i + delta * P.X i j else s.Xw i)
  let zbar' := mat (P.df.proxConj (mat (fun i => s.z i + P.sigma * Xw' i)) P.sigma P.y)
  let z' := mat (fun i => s.z i + (zbar' i - s.z i) / nat p)
  { w := w', Xw := Xw', z := z', zbar := zbar' }

/-- `for j in ws:` one pass over the working set, in the order of the array `ws` -/
def epoch (P : PDProb α n p) (s : PDState α n p) (ws : List (Fin p)) : PDState α n p :=
  ws.foldl P.pdcdStep s

/-- `all_features = np.arange(n_features)` -/
def allFeatures (p : Nat) : List (Fin p) := List.finRange p

/-- one entry of `_scores_primal(X, w, z, penalty, primal_steps, ws)`:
    `abs(w[j] - penalty.prox_1d(w[j] - primal_steps[j] * X[:, j] @ z, primal_steps[j], j))`
    (Python parses `a * v @ z` as `(a * v) @ z`) -/
def scorePrimal (P : PDProb α n p) (w : Fin p → α) (z : Fin n → α) (j : Fin p) : α :=
  sabs (w j - P.pen.prox1 (P.wts j) (w j - dot (fun i => P.tau j * P.X i j) z) (P.tau j))

/-- `next_z` of `_score_dual`: `datafit.prox_conjugate(z + dual_step * Xw, dual_step, y)` -/
def nextZ (P : PDProb α n p) (s : PDState α n p) : Fin n → α :=
  P.df.proxConj (mat (fun i => s.z i + P.sigma * s.Xw i)) P.sigma P.y

/-- `_score_dual(y, z, Xw, datafit, dual_step) = norm(z - next_z, ord=np.inf)` -/
def scoreDual (P : PDProb α n p) (s : PDState α n p) : α :=
  let nx := mat (P.nextZ s)
  pyMax ((List.finRange n).map (fun i => sabs (s.z i - nx i)))

/-- `max(max(_scores_primal(…, ws)), _score_dual(…))` for a list of features `ws` -/
def critOn (P : PDProb α n p) (s : PDState α n p) (ws : List (Fin p)) : α :=
  smax (pyMax (ws.map (P.scorePrimal s.w s.z))) (P.scoreDual s)

/-- the outer `stop_crit`: the scores of **all** features -/
def stopCrit (P : PDProb α n p) (s : PDState α n p) : α := P.critOn s (allFeatures p)

/-- the epochs of `_solve_subproblem`: `fuel` epochs remain, `ep` is the value of `epoch`;
    the criterion restricted to `ws` is tested after the epochs with `epoch % 10 == 0` -/
def subLoop (P : PDProb α n p) (ws : List (Fin p)) (tolIn : α) :
    Nat → Nat → PDState α n p → PDState α n p
  | 0, _, s => s
  | fuel + 1, ep, s =>
    let s' := P.epoch s ws
    if ep % 10 == 0 && decide (P.critOn s' ws ≤ tolIn) then s'
    else subLoop P ws tolIn fuel (ep + 1) s'

/-- `_solve_subproblem(y, X, w, Xw, z, z_bar, datafit, penalty, primal_steps, dual_step, ws,
    max_epochs, tol_in)` -/
def solveSubproblem (P : PDProb α n p) (ws : List (Fin p)) (maxEpochs : Nat) (tolIn : α)
    (s : PDState α n p) : PDState α n p :=
  P.subLoop ws tolIn maxEpochs 0 s

/-- `datafit.value(y, w, Xw) + penalty.value(w)` (the datafit is evaluated on the **buffer**) -/
def objective (P : PDProb α n p) (s : PDState α n p) : Ext α :=
  Ext.add (.fin (P.df.value P.y s.Xw)) (P.pen.value P.wts s.w)

/-- `gsupp_size = (w != 0).sum()` (not `penalty.generalized_support`) -/
def gsuppSize (w : Fin p → α) : Nat :=
  Fin.foldl p (fun acc j => if nz (w j) then acc + 1 else acc) 0

/-- `ws_size = max(min(p0, n_features), min(n_features, 2 * gsupp_size))` -/
def wsSize (p0 : Nat) (w : Fin p → α) : Nat :=
  Nat.max (Nat.min p0 p) (Nat.min p (2 * gsuppSize w))

/-- the outer loop of `_solve` (`fuel = max_iter`).  `sel opts k` stands for
    `np.argpartition(opts, -k)[-k:]` (`k` indices of largest scores, in an order that depends on
    numpy's introselect).  Arguments: state, current `stop_crit` (`0.` before the loop), `p_objs`;
    returns the final state (its `w` is the returned vector), `p_objs` and the returned
    `stop_crit`: the one computed **at the top of the last iteration entered** (`0.` if
    `max_iter = 0`). -/
def solveLoop (P : PDProb α n p) (sel : (Fin p → α) → Nat → List (Fin p)) (p0 maxEpochs : Nat)
    (tol : α) : Nat → PDState α n p → α → List (Ext α) → PDState α n p × List (Ext α) × α
  | 0, s, crit, objs => (s, objs, crit)
  | fuel + 1, s, _, objs =>
    let opts := mat (P.scorePrimal s.w s.z)
    let crit := smax (pyMax ((allFeatures p).map opts)) (P.scoreDual s)
    if crit ≤ tol then (s, objs, crit)
    else
      let ws := sel opts (wsSize p0 s.w)
      let s' := P.solveSubproblem ws maxEpochs (frac 3 10 * crit) s
      solveLoop P sel p0 maxEpochs tol fuel s' crit (objs ++ [P.objective s'])

/-- `PDCD_WS(max_iter, max_epochs, dual_init, p0, tol)._solve(X, y, datafit, penalty, w_init, Xw_init)` -/
def solve (P : PDProb α n p) (sel : (Fin p → α) → Nat → List (Fin p)) (p0 maxEpochs maxIter : Nat)
    (tol : α) (w0 : Option (Fin p → α)) (Xw0 : Option (Fin n → α)) (dual0 : Option (Fin n → α)) :
    PDState α n p × List (Ext α) × α :=
  P.solveLoop sel p0 maxEpochs tol maxIter (init w0 Xw0 dual0) 0 []

end PDProb
end Skglm
