import Skglm.Model.BlockPenalties
import Skglm.Model.Penalties
/-
  Model of the multitask block coordinate-descent solver `skglm/solvers/multitask_bcd.py`
  (MultiTaskBCD) on the datafit `QuadraticMultiTask` of `skglm/datafits/multi_task.py`, with the row
  penalties of `skglm/penalties/block_separable.py` (`L2_1`, `L2_05`, `BlockMCPenalty`, `BlockSCAD`,
  i.e. `BlkPen.l21 / l205 / bmcp / bscad` called with group weight `1` and feature weights `1`):
  the moves the solver is built from.

  * `mtLipschitz`, `mtXtY`     `datafit.get_lipschitz`, `datafit.initialize`
  * `gradientJ`                `datafit.gradient_j`
  * `mtStep` / `mtEpoch`       one pass of the loop body of `_bcd_epoch` for a feature / an epoch
  * `interceptStep/Move`       `datafit.intercept_update_step` and the intercept update of `_solve`
  * `penValue`, `datafitValue`, `objective`
  * `extrapPoint`              the Anderson-extrapolated point `(W_acc, Xw_acc)` of `_solve`
  * `acceptMove`               guarded acceptance `p_obj_acc < p_obj`

  The coefficient matrix `W` of the code has shape `(n_features + fit_intercept, n_tasks)`; the model
  keeps the feature rows `W : Fin p → Fin T → α` and the intercept row `W[-1]` (`b`) apart.  Without
  intercept the code has no such row; the model then keeps `b` and never moves it.
  The constants `lipschitz = datafit.get_lipschitz(X, Y)` are a parameter of the problem (`lips`);
  `mtLipschitz` is what the code computes for them.
-/
namespace Skglm
variable {α : Type} [Scalar α]

structure MTProb (α : Type) (n p T : Nat) where
  X : Fin n → Fin p → α
  Y : Fin n → Fin T → α
  pen : BlkPen α
  /-- `lipschitz = datafit.get_lipschitz(X, Y)`: one constant per feature -/
  lips : Fin p → α
  fitInt : Bool

structure MTState (α : Type) (n p T : Nat) where
  /-- `W[:n_features]` -/
  W : Fin p → Fin T → α
  /-- `W[-1]` when `fit_intercept` -/
  b : Fin T → α
  XW : Fin n → Fin T → α

variable {n p T : Nat}

/-- `QuadraticMultiTask.get_lipschitz(X, Y)[j] = norm(X[:, j]) ** 2 / n_samples`
    (`** 2` of a float scalar is a product in numba) -/
def mtLipschitz (X : Fin n → Fin p → α) (j : Fin p) : α :=
  let nr := norm2 (fun i => X i j)
  nr * nr / nat n

/-- `QuadraticMultiTask.initialize`: `XtY = X.T @ Y` -/
def mtXtY (X : Fin n → Fin p → α) (Y : Fin n → Fin T → α) : Fin p → Fin T → α :=
  mat (fun j => mat (fun k => dot (fun i => X i j) (fun i => Y i k)))

namespace MTProb

/-- the problem whose constants are the ones the code computes -/
def ofData (X : Fin n → Fin p → α) (Y : Fin n → Fin T → α) (pen : BlkPen α) (fitInt : Bool) :
    MTProb α n p T :=
  { X := X, Y := Y, pen := pen, lips := mat (fun j => mtLipschitz X j), fitInt := fitInt }

/-- `datafit.gradient_j(X, Y, W, XW, j) = (X[:, j] @ XW - XtY[j, :]) / n_samples`
    (`W` is not used by the code) -/
def gradientJ (P : MTProb α n p T) (XW : Fin n → Fin T → α) (j : Fin p) : Fin T → α :=
  fun k => (dot (fun i => P.X i j) (fun i => XW i k) - dot (fun i => P.X i j) (fun i => P.Y i k))
    / nat n

/-- `penalty.prox_1feat(value, stepsize, j)` of the row penalties -/
def rowProx (P : MTProb α n p T) (x : Fin T → α) (s : α) : Fin T → α :=
  P.pen.proxBlk 1 (fun _ => 1) x s

/-- `np.all(x == y)` -/
def allEq (x y : Fin T → α) : Bool := Fin.foldl T (fun acc k => acc && eqb (x k) (y k)) true

/-- one pass of the loop body of `_bcd_epoch` for feature `j`:
    ```
    if lc[j] == 0.: continue
    old_W_j = W[j, :].copy()
    W[j, :] = penalty.prox_1feat(W[j, :] - datafit.gradient_j(X, Y, W, XW, j) / lc[j], 1 / lc[j], j)
    if not np.all(W[j, :] == old_W_j):
        for k in range(n_tasks):
            tmp = W[j, k] - old_W_j[k]
            if tmp != 0: XW[:, k] += tmp * Xj
    ``` -/
def mtStep (P : MTProb α n p T) (s : MTState α n p T) (j : Fin p) : MTState α n p T :=
  let L := P.lips j
  if eqb L 0 then s
  else
    let old : Fin T → α := mat (s.W j)
    let grad : Fin T → α := mat (P.gradientJ s.XW j)
    let new : Fin T → α := mat (P.rowProx (fun k => old k - grad k / L) (1 / L))
    let W' : Fin p → Fin T → α := mat (fun j' => if j' = j then new else s.W j')
    if allEq new old then { W := W', b := s.b, XW := s.XW }
    else
      let tmp : Fin T → α := mat (fun k => new k - old k)
      { W := W', b := s.b,
        XW := mat (fun i => mat (fun k =>
          if nz (tmp k) then s.XW i k + tmp k * P.X i j else s.XW i k)) }

/-- `_bcd_epoch(X, Y, W, XW, lipschitz, datafit, penalty, ws)` -/
def mtEpoch (P : MTProb α n p T) (s : MTState α n p T) (ws : List (Fin p)) : MTState α n p T :=
  ws.foldl P.mtStep s

/-- `datafit.intercept_update_step(Y, XW) = np.sum(XW - Y, axis=0) / len(Y)` -/
def interceptStep (P : MTProb α n p T) (XW : Fin n → Fin T → α) : Fin T → α :=
  fun k => vsum (fun i => XW i k - P.Y i k) / nat n

/-- `intercept_old = W[-1, :].copy(); W[-1, :] -= datafit.intercept_update_step(Y, XW);
    XW += (W[-1, :] - intercept_old)` -/
def interceptMove (P : MTProb α n p T) (s : MTState α n p T) : MTState α n p T :=
  let b' : Fin T → α := mat (fun k => s.b k - P.interceptStep s.XW k)
  { W := s.W, b := b', XW := mat (fun i => mat (fun k => s.XW i k + (b' k - s.b k))) }

/-- `penalty.value(W[:n_features])`: sum over the rows, in order -/
def penValue (P : MTProb α n p T) (W : Fin p → Fin T → α) : Ext α :=
  esum (fun j => P.pen.penBlk 1 (fun _ => 1) (W j))

/-- `datafit.value(Y, W, XW) = np.sum((Y - XW) ** 2) / (2 * n_samples)` -/
def datafitValue (P : MTProb α n p T) (XW : Fin n → Fin T → α) : α :=
  vsum (fun i => vsum (fun k => (P.Y i k - XW i k) * (P.Y i k - XW i k))) / (nat 2 * nat n)

/-- `datafit.value(Y, W, XW) + penalty.value(W[:n_features])` -/
def objective (P : MTProb α n p T) (s : MTState α n p T) : Ext α :=
  Ext.add (.fin (P.datafitValue s.XW)) (P.penValue s.W)

/-- the Anderson-extrapolated point of `_solve`, for the coefficients `c` on the buffered iterates
    `buf` (`last_K_w[:-1]`, rows `ws_ = ws (+ intercept)` of the iterates):
    ```
    W_acc = np.zeros((n_features + fit_intercept, n_tasks))
    W_acc[ws_, :] = np.sum(last_K_w[:-1] * c[:, None], axis=0).reshape(...)
    Xw_acc = X[:, ws] @ W_acc[ws] + fit_intercept * W_acc[-1]
    ```
    Rows outside the working set are *zero* (not the current ones) and the model fit is recomputed
    from the working-set columns. -/
def extrapPoint {K : Nat} (P : MTProb α n p T) (ws : List (Fin p))
    (buf : Fin K → MTState α n p T) (c : Fin K → α) : MTState α n p T :=
  let Wacc : Fin p → Fin T → α :=
    mat (fun j => mat (fun k => if j ∈ ws then vsum (fun t => c t * (buf t).W j k) else 0))
  let bacc : Fin T → α :=
    mat (fun k => if P.fitInt then vsum (fun t => c t * (buf t).b k) else 0)
  { W := Wacc, b := bacc,
    XW := mat (fun i => mat (fun k =>
      ws.foldl (fun acc j => acc + P.X i j * Wacc j k) 0 + (if P.fitInt then bacc k else 0))) }

/-- guarded acceptance `if p_obj_acc < p_obj: W[:] = W_acc; XW[:] = Xw_acc` -/
def acceptMove (P : MTProb α n p T) (s acc : MTState α n p T) : MTState α n p T :=
  if Ext.lt (P.objective acc) (P.objective s) then acc else s

end MTProb
end Skglm
