import Skglm.Scalar
/-
  Model of the accelerator itself, `skglm/utils/anderson.py` (class `AndersonAcceleration`).

  ```
  def __init__(self, K):
      self.K, self.current_iter = K, 0
      self.arr_w_, self.arr_Xw_ = None, None

  def extrapolate(self, w, Xw):
      if self.arr_w_ is None or self.arr_Xw_ is None:
          self.arr_w_ = np.zeros((w.shape[0], self.K+1))
          self.arr_Xw_ = np.zeros((Xw.shape[0], self.K+1))
      if self.current_iter <= self.K:
          self.arr_w_[:, self.current_iter] = w
          self.arr_Xw_[:, self.current_iter] = Xw
          self.current_iter += 1
          return w, Xw, False
      U = np.diff(self.arr_w_, axis=1)
      try:
          inv_UTU_ones = np.linalg.solve(U.T @ U, np.ones(self.K))
      except np.linalg.LinAlgError:
          return w, Xw, False
      finally:
          self.current_iter = 0
      C = inv_UTU_ones / np.sum(inv_UTU_ones)
      return self.arr_w_[:, 1:] @ C, self.arr_Xw_[:, 1:] @ C, True
  ```

  * `AAState`        the object: `K`, `current_iter`, and the `K+1` columns of `arr_w_`, `arr_Xw_`
                     kept as one list of pairs `(arr_w_[:, k], arr_Xw_[:, k])`, `k = 0..K`
  * `aaInit`         `__init__` followed by the lazy `np.zeros` allocation of the first call
  * `aaPush`         the branch `current_iter <= K` (write column `current_iter`, count)
  * `aaResiduals`, `aaGram`   `U = np.diff(arr_w_, axis=1)`, `U.T @ U`
  * `aaCoefs`        `C = z / np.sum(z)`
  * `aaCombine`      `arr[:, 1:] @ C` once the columns `1..K` have been selected
  * `aaExtrapolate`  one call; the result `z` of `np.linalg.solve(U.T @ U, np.ones(K))` is a
                     parameter (`none` = `LinAlgError`); it is only looked at by the branch that
                     calls `solve`
  * `aaFrom`, `aaCallFrom`, `aaAfter`, `aaCall`   an object (a fresh one) driven through a
                     sequence of calls

  The columns are *not* cleared when the counter is reset (the arrays are kept, only
  `current_iter = 0`): the list keeps the stale pairs and `aaPush` overwrites them one by one.
-/
namespace Skglm
variable {α : Type} [Scalar α]

/-- `np.sum` of a 1-d array, accumulated left to right -/
def lsum (l : List α) : α := l.foldl (fun acc x => acc + x) 0

/-- one column of `arr_w_` together with the same column of `arr_Xw_` -/
abbrev AAPair (α : Type) (d m : Nat) := (Fin d → α) × (Fin m → α)

/-- the object `AndersonAcceleration`: `d = w.shape[0]`, `m = Xw.shape[0]` -/
structure AAState (α : Type) (d m : Nat) where
  /-- `self.K` -/
  K : Nat
  /-- `self.current_iter` -/
  cur : Nat
  /-- column `k` of `arr_w_` and of `arr_Xw_`, `k = 0, …, K` -/
  buf : List (AAPair α d m)

/-- what `extrapolate` returns, and the object afterwards -/
structure AAResult (α : Type) (d m : Nat) where
  state : AAState α d m
  w : Fin d → α
  Xw : Fin m → α
  extrapolated : Bool

/-- arguments of one call; `z` is what `np.linalg.solve` would answer *if* this call reaches it -/
structure AAInput (α : Type) (d m : Nat) where
  z : Option (List α)
  w : Fin d → α
  Xw : Fin m → α

variable {d m : Nat}

/-- `AndersonAcceleration(K)` (with the `np.zeros((·, K+1))` buffers of the first call) -/
def aaInit (K : Nat) : AAState α d m :=
  { K := K, cur := 0, buf := List.replicate (K + 1) (fun _ => 0, fun _ => 0) }

/-- `arr_w_[:, current_iter] = w; arr_Xw_[:, current_iter] = Xw; current_iter += 1` -/
def aaPush (s : AAState α d m) (w : Fin d → α) (Xw : Fin m → α) : AAState α d m :=
  { s with buf := s.buf.set s.cur (w, Xw), cur := s.cur + 1 }

/-- `U = np.diff(arr_w_, axis=1)`: column `k` is `arr_w_[:, k+1] - arr_w_[:, k]`, `k = 0..K-1` -/
def aaResiduals (s : AAState α d m) : List (Fin d → α) :=
  List.zipWith (fun a b => fun j => b.1 j - a.1 j) s.buf (s.buf.drop 1)

/-- `U.T @ U` (entry `(a, b)` is the dot product of the columns `a` and `b` of `U`) -/
def aaGram (s : AAState α d m) : List (List α) :=
  let U := aaResiduals s
  U.map (fun ua => U.map (fun ub => dot ua ub))

/-- `C = inv_UTU_ones / np.sum(inv_UTU_ones)` -/
def aaCoefs (z : List α) : List α :=
  let t := lsum z
  z.map (fun x => x / t)

/-- `cols @ C` for the selected columns `cols` (a `(d, K)` array times a `(K,)` array) -/
def aaCombine {d : Nat} (C : List α) (cols : List (Fin d → α)) : Fin d → α :=
  mat (fun j => lsum (List.zipWith (fun c col => c * col j) C cols))

/-- `extrapolate(w, Xw)` -/
def aaExtrapolate (s : AAState α d m) (z : Option (List α)) (w : Fin d → α) (Xw : Fin m → α) :
    AAResult α d m :=
  if s.cur ≤ s.K then
    { state := aaPush s w Xw, w := w, Xw := Xw, extrapolated := false }
  else
    match z with
    | none =>
      -- `except LinAlgError: return w, Xw, False` … `finally: self.current_iter = 0`
      { state := { s with cur := 0 }, w := w, Xw := Xw, extrapolated := false }
    | some z =>
      let C := aaCoefs z
      let cols := s.buf.drop 1          -- `arr_w_[:, 1:]`, `arr_Xw_[:, 1:]`
      { state := { s with cur := 0 }
        w := aaCombine C (cols.map Prod.fst)
        Xw := aaCombine C (cols.map Prod.snd)
        extrapolated := true }

/-- the object `s₀` after the further calls `inp 0, …, inp (k-1)` -/
def aaFrom (s₀ : AAState α d m) (inp : Nat → AAInput α d m) : Nat → AAState α d m
  | 0 => s₀
  | k + 1 => (aaExtrapolate (aaFrom s₀ inp k) (inp k).z (inp k).w (inp k).Xw).state

/-- the call number `k + 1` made on `s₀` (its arguments are `inp k`) -/
def aaCallFrom (s₀ : AAState α d m) (inp : Nat → AAInput α d m) (k : Nat) : AAResult α d m :=
  aaExtrapolate (aaFrom s₀ inp k) (inp k).z (inp k).w (inp k).Xw

/-- the object after the calls `inp 0, …, inp (k-1)` on a fresh `AndersonAcceleration(K)` -/
def aaAfter (K : Nat) (inp : Nat → AAInput α d m) (k : Nat) : AAState α d m :=
  aaFrom (aaInit K) inp k

/-- the call number `k + 1` (its arguments are `inp k`) on a fresh `AndersonAcceleration(K)` -/
def aaCall (K : Nat) (inp : Nat → AAInput α d m) (k : Nat) : AAResult α d m :=
  aaCallFrom (aaInit K) inp k

end Skglm
