import Skglm.Model.Datafits
/-
  Model of the `Cox` datafit of `skglm/datafits/single_task.py`: the O(n) sweeps
  `_B_dot_vec`, `_B_T_dot_vec`, `_A_dot_vec`, `_AT_dot_vec`, and `value`, `raw_grad` built from them.

  Inputs are the structures `initialize` builds: `T` = groups of sample indices with equal time,
  in ascending time order (`T_indices` cut by `T_indptr`); `H` = groups of *uncensored* tied
  samples, in ascending time order (`H_indices` cut by `H_indptr`).
-/
namespace Skglm
namespace Cox
variable {α : Type} [Scalar α] {n : Nat}

/-- `np.sum(vec[idx])` -/
def lsum (g : List (Fin n)) (v : Fin n → α) : α := g.foldl (fun acc i => acc + v i) 0

/-- one iteration of the cumulative sweeps: `cum_sum += np.sum(vec[g]); out[g] = cum_sum` -/
def sweepStep (v : Fin n → α) (st : α × (Fin n → α)) (g : List (Fin n)) : α × (Fin n → α) :=
  let cs := st.1 + lsum g v
  (cs, mat (fun i => if i ∈ g then cs else st.2 i))

/-- `_B_dot_vec`: reverse sweep over the time groups (`(B v)_i = Σ_{j : tm_j ≥ tm_i} v_j`) -/
def B_dot_vec (T : List (List (Fin n))) (v : Fin n → α) : Fin n → α :=
  (T.reverse.foldl (sweepStep v) (0, fun _ => 0)).2

/-- `_B_T_dot_vec`: forward sweep (`(Bᵀ v)_i = Σ_{j : tm_j ≤ tm_i} v_j`) -/
def B_T_dot_vec (T : List (List (Fin n))) (v : Fin n → α) : Fin n → α :=
  (T.foldl (sweepStep v) (0, fun _ => 0)).2

/-- position of `i` in `g` (`g.length` if absent) -/
def posIn (i : Fin n) : List (Fin n) → Nat
  | [] => 0
  | a :: l => if a = i then 0 else posIn i l + 1

/-- `out[g] = val g` for each group in turn, starting from `np.zeros_like(vec)` -/
def groupAssign (val : List (Fin n) → Fin n → α) (H : List (List (Fin n))) : Fin n → α :=
  H.foldl (fun out g => mat (fun i => if i ∈ g then val g i else out i)) (fun _ => 0)

/-- boxed accumulator: the compiled fold keeps each intermediate vector materialised -/
structure Box (β : Type) where
  val : β

/-- `groupAssign` as executed by the driver (same function: `groupAssign_eq_impl`) -/
def groupAssignImpl (val : List (Fin n) → Fin n → α) (H : List (List (Fin n))) : Fin n → α :=
  (H.foldl (fun (out : Box (Fin n → α)) g =>
      (⟨mat (fun i => if i ∈ g then val g i else out.val i)⟩ : Box (Fin n → α)))
    ⟨fun _ => 0⟩).val

theorem foldl_box {β γ : Type} (f : β → γ → β) (l : List γ) (b : β) :
    (l.foldl (fun (x : Box β) g => (⟨f x.val g⟩ : Box β)) ⟨b⟩).val = l.foldl f b := by
  induction l generalizing b with
  | nil => rfl
  | cons a l ih => simpa using ih (f b a)

@[csimp] theorem groupAssign_eq_impl : @groupAssign = @groupAssignImpl := by
  funext α _ n val H
  exact (foldl_box (fun out g => mat (fun i => if i ∈ g then val g i else out i)) H (fun _ => 0)).symm

/-- `vec[g] @ frac_range` with `frac_range = arange(m) / m`, accumulated in index order -/
def fracDotGo (m : Nat) (v : Fin n → α) : List (Fin n) → Nat → α → α
  | [], _, acc => acc
  | a :: l, k, acc => fracDotGo m v l (k + 1) (acc + v a * (nat k / nat m))

def fracDot (g : List (Fin n)) (v : Fin n → α) : α := fracDotGo g.length v g 0 0

/-- `_A_dot_vec`: `out[g] = np.sum(vec[g]) * (arange(m) / m)` -/
def A_dot_vec (H : List (List (Fin n))) (v : Fin n → α) : Fin n → α :=
  groupAssign (fun g i => lsum g v * (nat (posIn i g) / nat g.length)) H

/-- `_AT_dot_vec`: `out[g] = (vec[g] @ (arange(m) / m)) * ones(m)` -/
def AT_dot_vec (H : List (List (Fin n))) (v : Fin n → α) : Fin n → α :=
  groupAssign (fun g _ => fracDot g v) H

/-- the term inside the logarithm: `B @ exp(Xw)`, minus `A @ exp(Xw)` with Efron's correction -/
def innerLog (useEfron : Bool) (T H : List (List (Fin n))) (e : Fin n → α) : Fin n → α :=
  let B := B_dot_vec T e
  if useEfron then
    let A := A_dot_vec H e
    mat (fun i => B i - A i)
  else B

/-- `Cox.value(y, w, Xw)` with `s = y[:, 1]` (censoring indicators) -/
def coxValue (useEfron : Bool) (T H : List (List (Fin n))) (s u : Fin n → α) : α :=
  let e := mat (fun i => Scalar.exp (u i))
  let B := innerLog useEfron T H e
  (-(dot s u) + dot s (fun i => Scalar.log (B i))) / nat n

/-- `Cox.raw_grad(y, Xw)` -/
def coxRawGrad (useEfron : Bool) (T H : List (List (Fin n))) (s u : Fin n → α) : Fin n → α :=
  let e := mat (fun i => Scalar.exp (u i))
  let B := innerLog useEfron T H e
  let sB := mat (fun i => s i / B i)
  let bt := B_T_dot_vec T sB
  if useEfron then
    let atv := AT_dot_vec H sB
    mat (fun i => ((-(s i) + e i * bt i) - e i * atv i) / nat n)
  else
    mat (fun i => (-(s i) + e i * bt i) / nat n)

end Cox
end Skglm
