import Skglm.Model.CD
/-
  Model of the backtracking line search of `skglm/solvers/prox_newton.py`
  (`_backtrack_line_search`, called once per prox-Newton iteration in `_solve`).

  The search direction is given: `delta_w_ws` (coefficients of the working set, then the
  intercept when `fit_intercept`) and `X_delta_w_ws`, which `_descent_direction` maintains as
  `X[:, ws] @ delta_w + delta_intercept`.
-/
namespace Skglm
variable {α : Type} [Scalar α] {n p : Nat}

/-- a prox-Newton direction: `dw` on the coefficients (zero outside the working set), `db` on the
    intercept (`0` without intercept), `Xd = X_delta_w_ws` -/
structure PNDir (α : Type) (n p : Nat) where
  dw : Fin p → α
  db : α
  Xd : Fin n → α

namespace CDProb

/-- `w[ws_intercept] += t * delta_w_ws; Xw += t * X_delta_w_ws` -/
def moveBy (s : CDState α n p) (d : PNDir α n p) (t : α) : CDState α n p :=
  { w := mat (fun j => s.w j + t * d.dw j)
    b := s.b + t * d.db
    Xw := mat (fun i => s.Xw i + t * d.Xd i) }

/-- `_construct_grad`: `X[:, j] @ datafit.raw_grad(y, Xw)` -/
def pnGrad (P : CDProb α n p) (Xw : Fin n → α) : Fin p → α :=
  let r := mat (P.df.rawGrad P.sw P.y Xw)
  mat (fun j => vsum (fun i => P.X i j * r i))

/-- `a - b` on penalty values, for a finite `b`: `inf − finite = inf`.  (With `b = inf` the code's
    value is `-inf` or `nan`; that case is decided by `lineSearchAcceptAt`, the value returned
    here is then `inf`.) -/
def extSub : Ext α → Ext α → Ext α
  | .fin a, .fin b => .fin (a - b)
  | _, _ => .inf

/-- `stop_crit` of one backtracking iteration, evaluated at the trial point `cur` (reached with the
    cumulated step `step`); `oldPen` is `penalty.value` at the start of the search -/
def lineSearchTestAt (P : CDProb α n p) (oldPen : Ext α) (cur : CDState α n p) (d : PNDir α n p)
    (step : α) : Ext α :=
  match extSub (P.pen.value P.wts cur.w) oldPen with
  | .inf => .inf
  | .fin pd =>
    let g := P.pnGrad cur.Xw
    let c := pd + step * vsum (fun j => g j * d.dw j)
    if P.fitInt then .fin (c + step * d.db * vsum (P.df.rawGrad P.sw P.y cur.Xw)) else .fin c

/-- the test `stop_crit < 0` (`inf`, `nan`: false; `-inf`: true) -/
def lineSearchAcceptAt (P : CDProb α n p) (oldPen : Ext α) (cur : CDState α n p)
    (d : PNDir α n p) (step : α) : Bool :=
  match oldPen, P.pen.value P.wts cur.w with
  | .fin _, _ => Ext.lt (P.lineSearchTestAt oldPen cur d step) (.fin 0)
  | .inf, .fin _ => true
  | .inf, .inf => false

/-- `stop_crit` for the step `t` from `s0` -/
def lineSearchTest (P : CDProb α n p) (s0 : CDState α n p) (d : PNDir α n p) (t : α) : Ext α :=
  P.lineSearchTestAt (P.pen.value P.wts s0.w) (moveBy s0 d t) d t

def lineSearchAccept (P : CDProb α n p) (s0 : CDState α n p) (d : PNDir α n p) (t : α) : Bool :=
  P.lineSearchAcceptAt (P.pen.value P.wts s0.w) (moveBy s0 d t) d t

/-- the `for _ in range(MAX_BACKTRACK_ITER)` loop: move by `step - prev_step`, test, halve.
    When the fuel runs out — no trial step passed the test — the `for … else:` branch of the code
    undoes the last trial step (`prev` is the step of the last trial point, because a failed test
    does `prev_step = step; step /= 2`), so the search goes back to where it started. -/
def backtrackLoop (P : CDProb α n p) (oldPen : Ext α) (d : PNDir α n p) :
    Nat → CDState α n p → α → α → CDState α n p
  -- `else: w[ws_intercept] -= prev_step * delta_w_ws; Xw -= prev_step * X_delta_w_ws`
  | 0, cur, _, prev => moveBy cur d (-prev)
  | fuel + 1, cur, step, prev =>
    let cur' := moveBy cur d (step - prev)
    if P.lineSearchAcceptAt oldPen cur' d step then cur'
    else backtrackLoop P oldPen d fuel cur' (step / nat 2) step

/-- `_backtrack_line_search` with `MAX_BACKTRACK_ITER = fuel` (`20` in the code): the first
    accepted trial point `s0 + 2^{-k} d`, or — every test failed — `s0` with the last trial step
    undone -/
def backtrack (fuel : Nat) (P : CDProb α n p) (s0 : CDState α n p) (d : PNDir α n p) :
    CDState α n p :=
  P.backtrackLoop (P.pen.value P.wts s0.w) d fuel s0 1 0

end CDProb
end Skglm
