import Skglm.Model.Prox
/-
  Model of `skglm/penalties/separable.py`: every penalty that acts coordinate by coordinate,
  as one inductive type with the per-coordinate kernels the solvers call
  (`prox_1d`, `subdiff_distance` entry, `value` summand, `generalized_support` entry,
  `is_penalized` entry).  The weight of the coordinate is an argument (`1` when the
  penalty has no weights).
-/
namespace Skglm
variable {α : Type} [Scalar α]

inductive SepPen (α : Type) where
  | l1 (alpha : α) (positive : Bool)
  | l1l2 (alpha l1_ratio : α) (positive : Bool)
  | wl1 (alpha : α) (positive : Bool)
  | mcp (alpha gamma : α) (positive : Bool)
  | wmcp (alpha gamma : α) (positive : Bool)
  | scad (alpha gamma : α)
  | box (alpha : α)
  | l05 (alpha : α)
  | l23 (alpha : α)
  | logsum (alpha eps : α)
  | pos
  deriving Repr

namespace SepPen

/-- does the penalty carry a positivity constraint -/
def positive : SepPen α → Bool
  | l1 _ p | l1l2 _ _ p | wl1 _ p | mcp _ _ p | wmcp _ _ p => p
  | pos => true
  | _ => false

/-- the bisection tolerance `1e-8` of `_find_root_by_bisection` -/
def tol8 : α := nat 1 / nat 100000000

/-- `prox_1d(value, stepsize, j)`; `wt = weights[j]` (`1` for unweighted penalties). -/
def prox1 (pen : SepPen α) (wt value stepsize : α) : α :=
  match pen with
  | l1 a p => ST value (a * stepsize) p
  | l1l2 a r p => ST value (r * a * stepsize) p / (1 + stepsize * (1 - r) * a)
  | wl1 a p => ST value (a * stepsize * wt) p
  | mcp a g p => prox_MCP value stepsize a g p 1
  | wmcp a g p => prox_MCP value stepsize a g p wt
  | scad a g => prox_SCAD value stepsize a g
  | box a => box_proj value 0 a
  | l05 a => prox_05 value (a * stepsize)
  | l23 a => prox_2_3 value (a * stepsize)
  | logsum a e => prox_log_sum value (a * stepsize) e tol8
  | pos => smax 0 value

/-- the summand of `value(w)` for one coordinate (`inf` where an indicator or the configured
    positivity constraint is violated) -/
def pen1 (pen : SepPen α) (wt w : α) : Ext α :=
  if pen.positive = true ∧ w < 0 then .inf else
  match pen with
  | l1 a _ => .fin (a * sabs w)
  | l1l2 a r _ => .fin (r * a * sabs w + (1 - r) * a / nat 2 * (w * w))
  | wl1 a _ => .fin (a * (sabs w * wt))
  | mcp a g _ => .fin (pen_MCP w a g)
  | wmcp a g _ => .fin (wt * pen_MCP w a g)
  | scad a g => .fin (pen_SCAD w a g)
  | box a => if a < w then .inf else if w < 0 then .inf else .fin 0
  | l05 a => .fin (a * Scalar.pow (sabs w) (frac 1 2))
  | l23 a => .fin (a * Scalar.pow (sabs w) (frac 2 3))
  | logsum a e => .fin (a * Scalar.log (1 + sabs w / e))
  | pos => .fin 0

/-- shared shape of the convex-at-zero scores: `w = 0`, level `lvl`, unconstrained -/
@[inline] def sdZero (grad lvl : α) : α := smax 0 (sabs grad - lvl)
/-- `w = 0`, positive: distance of `-grad` to `(-inf, lvl]` -/
@[inline] def sdZeroPos (grad lvl : α) : α := smax 0 (-grad - lvl)

/-- entry of `subdiff_distance(w, grad, ws)` for a coordinate with value `w`, gradient `grad` -/
def sd1 (pen : SepPen α) (wt w grad : α) : Ext α :=
  match pen with
  | l1 a p =>
      if p then
        if w < 0 then .inf
        else if eqb w 0 then .fin (sdZeroPos grad a)
        else .fin (sabs (grad + a))
      else
        if eqb w 0 then .fin (sdZero grad a)
        else .fin (sabs (grad + sgn w * a))
  | l1l2 a r p =>
      if p then
        if w < 0 then .inf
        else if eqb w 0 then .fin (sdZeroPos grad (a * r))
        else .fin (sabs (grad + a * (r + (1 - r) * w)))
      else
        if eqb w 0 then .fin (sdZero grad (a * r))
        else .fin (sabs (grad + a * (r * sgn w + (1 - r) * w)))
  | wl1 a p =>
      if p then
        if w < 0 then .inf
        else if eqb w 0 then .fin (sdZeroPos grad (a * wt))
        else .fin (sabs (grad + a * wt))
      else
        if eqb w 0 then .fin (sdZero grad (a * wt))
        else .fin (sabs (grad + a * wt * sgn w))
  | mcp a g p =>
      if p = true ∧ w < 0 then .inf
      else if p = true ∧ eqb w 0 = true then .fin (sdZeroPos grad a)
      else if eqb w 0 then .fin (sdZero grad a)
      else if sabs w < a * g then .fin (sabs (grad + a * sgn w - w / g))
      else .fin (sabs grad)
  | wmcp a g p =>
      if p = true ∧ w < 0 then .inf
      else if p = true ∧ eqb w 0 = true then .fin (sdZeroPos grad (a * wt))
      else if eqb w 0 then .fin (sdZero grad (a * wt))
      else if sabs w < a * g then .fin (sabs (grad + a * wt * sgn w - wt * w / g))
      else .fin (sabs grad)
  | scad a g =>
      if eqb w 0 then .fin (sdZero grad a)
      else if sabs w ≤ a then .fin (sabs (grad + a * sgn w))
      else if sabs w ≤ a * g then .fin (sabs (grad + (sgn w * a * g - w) / (g - 1)))
      else .fin (sabs grad)
  | box a =>
      if eqb w 0 then .fin (smax 0 (-grad))
      else if eqb w a then .fin (smax 0 grad)
      else .fin (sabs grad)
  | l05 a =>
      if eqb w 0 then .fin 0
      else .fin (sabs (-grad - sgn w * a / (nat 2 * Scalar.sqrt (sabs w))))
  | l23 a =>
      if eqb w 0 then .fin 0
      else .fin (sabs (-grad - sgn w * a * nat 2 / (nat 3 * Scalar.pow (sabs w) (frac 1 3))))
  | logsum a e =>
      if eqb w 0 then .fin (sdZero grad (a / e))
      else .fin (sabs (grad + sgn w * a / (e + sabs w)))
  | pos =>
      if eqb w 0 then .fin (smax 0 (-grad))
      else if 0 < w then .fin (sabs (-grad))
      else .inf

/-- entry of `generalized_support(w)` -/
def gsupp1 (pen : SepPen α) (w : α) : Bool :=
  match pen with
  | box a => nz w && !(eqb w a)
  | _ => nz w

/-- entry of `is_penalized(n_features)` -/
def isPen1 (pen : SepPen α) (wt : α) : Bool :=
  match pen with
  | wl1 _ _ => nz wt
  | _ => true

/-- does the class offer `alpha_max` -/
def hasAlphaMax : SepPen α → Bool
  | l1 .. | l1l2 .. | wl1 .. | mcp .. | wmcp .. => true
  | _ => false

/-- contribution of coordinate `j` to `alpha_max(gradient0)` (`none`: coordinate excluded) -/
def alphaMax1 (pen : SepPen α) (wt g0 : α) : Option α :=
  match pen with
  | l1 .. | mcp .. => some (sabs g0)
  | l1l2 _ r _ => some (sabs g0 / r)
  | wl1 .. | wmcp .. => if nz wt then some (sabs (g0 / wt)) else none
  | _ => none

end SepPen

/-! ### sums of `Ext` values -/

def Ext.add : Ext α → Ext α → Ext α
  | .fin a, .fin b => .fin (a + b)
  | _, _ => .inf

def esum {n : Nat} (f : Fin n → Ext α) : Ext α :=
  Fin.foldl n (fun acc i => Ext.add acc (f i)) (.fin 0)

/-- `penalty.value(w)` for a separable penalty -/
def SepPen.value {p : Nat} (pen : SepPen α) (wts w : Fin p → α) : Ext α :=
  esum (fun j => pen.pen1 (wts j) (w j))

/-- `a < b` on `Ext` (the acceptance test `p_obj_acc < p_obj`) -/
def Ext.lt : Ext α → Ext α → Bool
  | .fin a, .fin b => decide (a < b)
  | .fin _, .inf => true
  | .inf, _ => false

/-- `a <= b` on `Ext` -/
def Ext.le : Ext α → Ext α → Bool
  | .fin a, .fin b => decide (a ≤ b)
  | _, .inf => true
  | .inf, .fin _ => false

def Ext.max : Ext α → Ext α → Ext α
  | .fin a, .fin b => .fin (smax a b)
  | _, _ => .inf

end Skglm
