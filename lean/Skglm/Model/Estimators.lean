import Skglm.Model.CD
/-
  Model of the *glue* of `skglm/estimators.py`: what each estimator's `fit` builds (datafit,
  penalty, weights, intercept flag) before calling `_glm_fit`, the two-class label handling of
  `_glm_fit`, the prediction conventions of the linear classifiers (`decision_function`,
  `predict`, `predict_proba`, one-vs-rest normalisation), LinearSVC's primal coefficients, and
  the compile cache of `skglm/utils/jit_compilation.py` as a small state machine.
-/
namespace Skglm
variable {α : Type} [Scalar α]

/-- the estimators of `skglm/estimators.py` that go through `_glm_fit` with a separable penalty,
    with the constructor arguments that determine the optimisation problem -/
inductive Est (α : Type) where
  /-- `Lasso(alpha, positive, fit_intercept)` -/
  | lasso (alpha : α) (positive fitInt : Bool)
  /-- `WeightedLasso(alpha, weights, positive, fit_intercept)`; `hasWeights = false` is
      `weights=None` -/
  | wlasso (alpha : α) (hasWeights : Bool) (positive fitInt : Bool)
  /-- `ElasticNet(alpha, l1_ratio, positive, fit_intercept)` -/
  | enet (alpha l1_ratio : α) (positive fitInt : Bool)
  /-- `MCPRegression(alpha, gamma, weights, positive, fit_intercept)` -/
  | mcpreg (alpha gamma : α) (hasWeights : Bool) (positive fitInt : Bool)
  /-- `SparseLogisticRegression(alpha, fit_intercept)` -/
  | slr (alpha : α) (fitInt : Bool)
  /-- `LinearSVC(C)` (dual problem, never an intercept) -/
  | svc (C : α)
  deriving Repr

namespace Est

/-- the datafit each `fit` passes to `_glm_fit` -/
def datafit : Est α → DF α
  | lasso .. | wlasso .. | enet .. | mcpreg .. => .quadratic
  | slr .. => .logistic
  | svc .. => .svc

/-- the penalty each `fit` passes to `_glm_fit` -/
def penalty : Est α → SepPen α
  | lasso a pos _ => .l1 a pos
  | wlasso a hasW pos _ => if hasW then .wl1 a pos else .l1 a pos
  | enet a r pos _ => .l1l2 a r pos
  | mcpreg a g hasW pos _ => if hasW then .wmcp a g pos else .mcp a g pos
  | slr a _ => .l1 a false
  | svc C => .box C

/-- `solver.fit_intercept` -/
def fitInt : Est α → Bool
  | lasso _ _ fi | wlasso _ _ _ fi | enet _ _ _ fi | mcpreg _ _ _ _ fi | slr _ fi => fi
  | svc _ => false

/-- does the penalty built by `fit` read the `weights` argument -/
def usesWeights : Est α → Bool
  | wlasso _ hasW _ _ | mcpreg _ _ hasW _ _ => hasW
  | _ => false

/-- the optimisation problem handed to the solver: design `X` (for `LinearSVC`: `(yX)ᵀ`), targets `y`,
    unit sample weights, feature weights (ones unless the penalty is a weighted one) -/
def problem {n p : Nat} (e : Est α) (X : Fin n → Fin p → α) (y : Fin n → α) (wts : Fin p → α) :
    CDProb α n p :=
  { X := X, y := y, sw := fun _ => 1, df := e.datafit, pen := e.penalty,
    wts := if e.usesWeights then wts else fun _ => 1, fitInt := e.fitInt }

end Est

/-! ### `_glm_fit`: labels of a two-class problem, prediction conventions -/

/-- `y = 2 * LabelEncoder().fit_transform(y) - 1`: the first class (sorted order) is `-1`, the
    second `+1` -/
def encodeBinary (isSecondClass : Bool) : α := if isSecondClass then 1 else -1

/-- `decision_function`: `x · coef_ + intercept_` -/
def decision {p : Nat} (w : Fin p → α) (b : α) (x : Fin p → α) : α :=
  vsum (fun j => w j * x j) + b

/-- `predict` of a binary linear classifier: index into `classes_` (`true` = `classes_[1]`) -/
def predictBinary (d : α) : Bool := decide (0 < d)

/-- `expit(decision)`: probability of `classes_[1]` -/
def sigmoidProba (d : α) : α := 1 / (1 + Scalar.exp (-d))

/-- binary `predict_proba` row as the code computes it for `len(classes_) <= 2`:
    `softmax(np.c_[-decision, decision])`, i.e. `[P(classes_[0]), P(classes_[1])]`
    (scipy's `softmax` subtracts the row maximum first, which does not change the value) -/
def probaBinary (d : α) : α × α :=
  let a := Scalar.exp (-d)
  let b := Scalar.exp d
  (a / (a + b), b / (a + b))

/-- the row `_predict_proba_lr` would return for a 1-d decision: `[1 - expit(d), expit(d)]`
    (the one-vs-rest convention, used by the code only for more than two classes) -/
def probaBinaryLr (d : α) : α × α := (1 - sigmoidProba d, sigmoidProba d)

/-- one-vs-rest normalisation of `predict_proba` for more than two classes -/
def ovrNormalise {k : Nat} (ps : Fin k → α) : Fin k → α := fun c => ps c / vsum ps

/-- `LinearSVC.coef_` from `dual_coef_`: `Σ_i y_i dual_i X[i, :]` -/
def svcPrimal {n p : Nat} (X : Fin n → Fin p → α) (ypm dual : Fin n → α) : Fin p → α :=
  fun j => vsum (fun i => ypm i * dual i * X i j)

/-- the matrix `(yX)ᵀ` handed to the solver by `_glm_fit` for `QuadraticSVC`
    (rows = features, columns = samples) -/
def svcDesign {n p : Nat} (X : Fin n → Fin p → α) (ypm : Fin n → α) : Fin p → Fin n → α :=
  fun j i => X i j * ypm i

/-! ### the compile cache of `jit_compilation.py` -/

/-- key of `jit_cached_compile(klass, spec, to_float32)` (an `lru_cache`) -/
structure CacheKey where
  cls : Nat
  spec : Nat
  f32 : Bool
  deriving DecidableEq, Repr

/-- the cache stores compiled *classes*, one per key -/
abbrev Cache := List CacheKey

/-- `jit_cached_compile`: compile on a miss, reuse on a hit -/
def Cache.lookupOrCompile (c : Cache) (k : CacheKey) : Cache := if k ∈ c then c else k :: c

/-- identity of the compiled class the cache returns for a key: its rank in order of compilation -/
def Cache.idOf (c : Cache) (k : CacheKey) : Option Nat :=
  if k ∈ c then some (c.length - 1 - c.idxOf k) else none

/-- a sequence of `jit_cached_compile` requests from an empty cache: the identity of the class
    returned by each request -/
def cacheIds (reqs : List CacheKey) : List (Option Nat) :=
  (reqs.foldl (fun (st : Cache × List (Option Nat)) k =>
      let c' := Cache.lookupOrCompile st.1 k
      (c', st.2 ++ [Cache.idOf c' k])) ([], [])).2

/-- one `fit`: `compiled_clone` looks the class up (or compiles it) and builds a *fresh instance*
    from `params_to_dict()`, so what the solver computes is a function of the arguments only -/
def fitOnce {Args R : Type} (solve : Args → R) (c : Cache) (k : CacheKey) (args : Args) :
    Cache × R :=
  (Cache.lookupOrCompile c k, solve args)

/-- a session: successive fits from an empty cache; the state is the cache and the last result -/
def fitHistory {Args R : Type} (solve : Args → R) (h : List (CacheKey × Args)) :
    Cache × Option R :=
  h.foldl (fun st ka => let r := fitOnce solve st.1 ka.1 ka.2; (r.1, some r.2)) ([], none)

end Skglm
