import Skglm.Model.BCD
import Skglm.Model.MultiTask
import Skglm.Model.Cox
import Skglm.Model.Penalties
/-
  Model of the glue of the four estimators that `Skglm/Model/Estimators.lean` does not cover:

  * `GroupLasso`      (`skglm/estimators.py`)  → `QuadraticGroup` + `WeightedGroupL2`, `GroupBCD`
  * `MultiTaskLasso`  (`skglm/estimators.py`)  → `QuadraticMultiTask` + `L2_1`, `MultiTaskBCD`
  * `CoxEstimator`    (`skglm/estimators.py`)  → `Cox` + `L1` / `L1_plus_L2` / `L2`,
                                                  `ProxNewton` / `LBFGS`
  * `SqrtLasso`       (`skglm/experimental/sqrt_lasso.py`) → `SqrtQuadratic` + `L1`, `ProxNewton`

  and of `skglm.utils.data.grp_converter`, through which `GroupLasso.fit` reads its `groups`
  argument.  What is modelled is what each `fit` *builds* before it calls the solver.
-/
namespace Skglm
variable {α : Type} [Scalar α]

/-! ### `grp_converter(groups, n_features)` -/

/-- the three accepted forms of `groups`.  Feature indices given explicitly are typed in
    `Fin p` (an index `≥ n_features` is outside the model; the code does not check it).
    Python `int`s are modelled by `Nat` (negative sizes are outside the model). -/
inductive GroupsArg (p : Nat) where
  /-- `isinstance(groups, int)` -/
  | size (k : Nat)
  /-- `isinstance(groups, list) and isinstance(groups[0], int)` -/
  | sizes (l : List Nat)
  /-- `isinstance(groups, list) and isinstance(groups[0], list)` -/
  | lists (l : List (List (Fin p)))
  deriving Repr

/-- the ways `grp_converter` / `GroupLasso.fit` stop with an exception -/
inductive GrpError where
  /-- `n_features % 0` : `ZeroDivisionError` -/
  | zeroDivision
  /-- `ValueError("n_features (%d) is not a multiple of the desired group size (%d)")` -/
  | notMultiple
  /-- `groups[0]` of an empty list: `IndexError` -/
  | emptyList
  /-- `GroupLasso.fit`: `ValueError("The total number of group members must equal the number of
      features. …")` -/
  | countMismatch
  deriving Repr, DecidableEq

/-- `np.cumsum(np.hstack([[a], sizes]))` -/
def cumsumFrom (a : Nat) : List Nat → List Nat
  | [] => [a]
  | x :: l => a :: cumsumFrom (a + x) l

/-- `grp_converter`: the pair `(grp_indices, grp_ptr)` -/
def grpConverter {p : Nat} (groups : GroupsArg p) : Except GrpError (List (Fin p) × List Nat) :=
  match groups with
  | .size k =>
      -- `if n_features % grp_size != 0: raise ValueError`
      if k = 0 then .error .zeroDivision
      else if p % k ≠ 0 then .error .notMultiple
      else
        -- `grp_ptr = grp_size * np.arange(n_groups + 1)`, `grp_indices = np.arange(n_features)`
        .ok (List.finRange p, (List.range (p / k + 1)).map (fun g => k * g))
  | .sizes l =>
      -- `grp_indices = np.arange(n_features)`, `grp_ptr = np.cumsum(np.hstack([[0], groups]))`
      if l.isEmpty then .error .emptyList
      else .ok (List.finRange p, cumsumFrom 0 l)
  | .lists l =>
      -- `grp_ptr = np.cumsum(np.hstack([[0], [len(ls) for ls in groups]]))`,
      -- `grp_indices = np.array([idx for grp in groups for idx in grp])`
      if l.isEmpty then .error .emptyList
      else .ok (l.flatten, cumsumFrom 0 (l.map List.length))

/-- `grp_indices[grp_ptr[g] : grp_ptr[g+1]]` (a slice: clipped at the end of the array, empty when
    the bounds are out of order) -/
def grpSlice {p : Nat} (indices : List (Fin p)) (ptr : List Nat) (g : Nat) : List (Fin p) :=
  (indices.drop (ptr.getD g 0)).take (ptr.getD (g + 1) 0 - ptr.getD g 0)

/-- the groups every consumer of `(grp_indices, grp_ptr)` reads:
    `for g in range(len(grp_ptr) - 1): grp_indices[grp_ptr[g] : grp_ptr[g+1]]` -/
def groupsOf {p : Nat} (c : List (Fin p) × List Nat) : List (List (Fin p)) :=
  (List.range (c.2.length - 1)).map (grpSlice c.1 c.2)

/-- `np.diff(grp_ptr)` (for a non-decreasing `grp_ptr`) -/
def ptrDiff : List Nat → List Nat
  | a :: b :: l => (b - a) :: ptrDiff (b :: l)
  | _ => []

/-- `np.sum` of a list of naturals -/
def natSum (l : List Nat) : Nat := l.foldr (· + ·) 0

/-! ### `GroupLasso` -/

/-- `GroupLasso(groups, alpha, weights, positive, fit_intercept)`; `weights = none` is
    `weights=None` -/
structure GroupLassoArgs (α : Type) (p : Nat) where
  groups : GroupsArg p
  alpha : α
  weights : Option (List α)
  positive : Bool
  fitInt : Bool

/-- what `GroupLasso.fit` hands to `_glm_fit` (and from there to `GroupBCD`):
    ```
    grp_indices, grp_ptr = grp_converter(self.groups, n_features_X)
    group_sizes = np.diff(grp_ptr)
    if n_features_X != np.sum(group_sizes): raise ValueError
    weights = np.ones(len(group_sizes)) if self.weights is None else self.weights
    group_penalty = WeightedGroupL2(alpha, weights, grp_ptr, grp_indices, positive)
    quad_group = QuadraticGroup(grp_ptr, grp_indices)
    ```
    `lips` stands for `datafit.get_lipschitz(X, y)` (a parameter of the solver model). -/
def GroupLassoArgs.fit {n p : Nat} (a : GroupLassoArgs α p) (X : Fin n → Fin p → α)
    (y : Fin n → α) (lips : List α) : Except GrpError (GrpProb α n p) :=
  match grpConverter a.groups with
  | .error e => .error e
  | .ok c =>
    let sizes := ptrDiff c.2
    if p ≠ natSum sizes then .error .countMismatch
    else
      .ok { X := X, y := y, sw := fun _ => 1, df := .quadratic,
            pen := .wgl2 a.alpha a.positive,
            groups := groupsOf c,
            wgs := match a.weights with
              | none => sizes.map (fun _ => 1)
              | some ws => ws,
            wfs := fun _ => 1, lips := lips, fitInt := a.fitInt }

/-! ### `MultiTaskLasso` -/

/-- `MultiTaskLasso(alpha, fit_intercept)` -/
structure MultiTaskLassoArgs (α : Type) where
  alpha : α
  fitInt : Bool

/-- `QuadraticMultiTask()` + `L2_1(self.alpha)`, solved by
    `MultiTaskBCD(fit_intercept=self.fit_intercept)` -/
def MultiTaskLassoArgs.fit {n p T : Nat} (a : MultiTaskLassoArgs α) (X : Fin n → Fin p → α)
    (Y : Fin n → Fin T → α) : MTProb α n p T :=
  MTProb.ofData X Y (.l21 a.alpha) a.fitInt

/-! ### `CoxEstimator` -/

/-- the penalties `CoxEstimator.fit` chooses from: `L1`, `L1_plus_L2` (both separable, without
    positivity constraint) and `L2` -/
inductive CoxPen (α : Type) where
  | sep (pen : SepPen α)
  /-- `L2(alpha)` -/
  | l2 (alpha : α)
  deriving Repr

/-- `penalty.value(w)`; `L2.value = alpha * (w ** 2).sum() / 2` -/
def CoxPen.value {p : Nat} (pen : CoxPen α) (w : Fin p → α) : Ext α :=
  match pen with
  | .sep q => q.value (fun _ => 1) w
  | .l2 a => .fin (a * vsum (fun j => w j * w j) / nat 2)

/-- the solver `CoxEstimator.fit` instantiates -/
inductive CoxSolver where
  | lbfgs
  | proxNewton
  deriving Repr, DecidableEq

/-- `CoxEstimator(alpha, l1_ratio, method)`; `efron = (method == "efron")` -/
structure CoxArgs (α : Type) where
  alpha : α
  l1_ratio : α
  efron : Bool

/-- the defaults of `CoxEstimator.__init__`: `alpha=1., l1_ratio=0.7, method="efron"` -/
def CoxArgs.default : CoxArgs α := { alpha := 1, l1_ratio := frac 7 10, efron := true }

/-- the default of `l1_ratio` announced by the class docstring: `default=0.5` -/
def CoxArgs.docDefaultL1Ratio : α := frac 1 2

/-- ```
    if self.l1_ratio == 1.:        penalty = L1(self.alpha)
    elif 0. < self.l1_ratio < 1.:  penalty = L1_plus_L2(self.alpha, self.l1_ratio)
    else:                          penalty = L2(self.alpha)
    ``` -/
def CoxArgs.penalty (a : CoxArgs α) : CoxPen α :=
  if eqb a.l1_ratio 1 then .sep (.l1 a.alpha false)
  else if 0 < a.l1_ratio ∧ a.l1_ratio < 1 then .sep (.l1l2 a.alpha a.l1_ratio false)
  else .l2 a.alpha

/-- `LBFGS` if `self.l1_ratio == 0.` else `ProxNewton(fit_intercept=False)` -/
def CoxArgs.solver (a : CoxArgs α) : CoxSolver :=
  if eqb a.l1_ratio 0 then .lbfgs else .proxNewton

/-- the problem `CoxEstimator.fit` builds: design, censoring indicators `s = y[:, 1]`, the
    structures `datafit.initialize(X, y)` builds from the times `y[:, 0]` (`T`: time groups, `H`:
    tie groups of uncensored samples), `Cox(use_efron)`, the penalty; never an intercept -/
structure CoxProb (α : Type) (n p : Nat) where
  X : Fin n → Fin p → α
  s : Fin n → α
  T : List (List (Fin n))
  H : List (List (Fin n))
  useEfron : Bool
  pen : CoxPen α

/-- `y` as accepted by `CoxEstimator.fit`: two columns `(tm, s)`, or one column of times, in
    which case `y = np.column_stack((y, np.ones_like(y)))` (no censoring) -/
def coxCensoring {n : Nat} (s : Option (Fin n → α)) : Fin n → α :=
  match s with
  | some s => s
  | none => fun _ => 1

def CoxArgs.fit {n p : Nat} (a : CoxArgs α) (X : Fin n → Fin p → α) (s : Option (Fin n → α))
    (T H : List (List (Fin n))) : CoxProb α n p :=
  { X := X, s := coxCensoring s, T := T, H := H, useEfron := a.efron, pen := a.penalty }

/-- `X @ w` (no intercept) -/
def matVec {n p : Nat} (X : Fin n → Fin p → α) (w : Fin p → α) : Fin n → α :=
  fun i => vsum (fun j => X i j * w j)

/-- `datafit.value(y, w, Xw) + penalty.value(w)` as the solvers compute it, at `Xw = X @ w` -/
def CoxProb.objective {n p : Nat} (P : CoxProb α n p) (w : Fin p → α) : Ext α :=
  Ext.add (.fin (Cox.coxValue P.useEfron P.T P.H P.s (matVec P.X w))) (P.pen.value w)

/-! ### `SqrtLasso` -/

/-- `SqrtQuadratic.value(y, w, Xw) = np.linalg.norm(y - Xw)` -/
def sqrtQuadraticValue {n : Nat} (y Xw : Fin n → α) : α := norm2 (fun i => y i - Xw i)

/-- `SqrtLasso(alpha)` -/
structure SqrtLassoArgs (α : Type) where
  alpha : α

/-- the problem `SqrtLasso.fit` solves: `self.path(X, y, alphas=[self.alpha])` builds
    `SqrtQuadratic()` and `L1(1.)`, sets `l1_penalty.alpha = alphas[0]` and calls
    `ProxNewton(fit_intercept=False)` -/
structure SqrtProb (α : Type) (n p : Nat) where
  X : Fin n → Fin p → α
  y : Fin n → α
  pen : SepPen α

def SqrtLassoArgs.fit {n p : Nat} (a : SqrtLassoArgs α) (X : Fin n → Fin p → α) (y : Fin n → α) :
    SqrtProb α n p :=
  { X := X, y := y, pen := .l1 a.alpha false }

/-- `datafit.value(y, w, Xw) + penalty.value(w)` at `Xw = X @ w` -/
def SqrtProb.objective {n p : Nat} (P : SqrtProb α n p) (w : Fin p → α) : Ext α :=
  Ext.add (.fin (sqrtQuadraticValue P.y (matVec P.X w))) (P.pen.value (fun _ => 1) w)

/-- `max_j |v_j|` (`norm(v, ord=np.inf)`) -/
def normInf {p : Nat} (v : Fin p → α) : α := Fin.foldl p (fun acc j => smax acc (sabs (v j))) 0

/-- the first `alpha` of `SqrtLasso.path(alphas=None)`:
    `alpha_max = norm(X.T @ y, ord=np.inf) / norm(y)` (the critical strength of the objective the
    solver minimises, `‖y - Xw‖₂ + alpha ‖w‖₁`) -/
def sqrtLassoPathAlphaMax {n p : Nat} (X : Fin n → Fin p → α) (y : Fin n → α) : α :=
  normInf (fun j => vsum (fun i => X i j * y i)) / norm2 y

/-- the expression the code had before commit 56310fe ("SqrtLasso.path starts its automatic grid a
    factor sqrt(n) below the critical strength"):
    `alpha_max = norm(X.T @ y, ord=np.inf) / (np.sqrt(len(y)) * norm(y))`, the critical strength of
    the *normalised* objective `‖y - Xw‖₂ / sqrt(n) + alpha ‖w‖₁`, kept for the record -/
def sqrtLassoPathAlphaMaxOld {n p : Nat} (X : Fin n → Fin p → α) (y : Fin n → α) : α :=
  normInf (fun j => vsum (fun i => X i j * y i)) / (Scalar.sqrt (nat n) * norm2 y)

end Skglm
