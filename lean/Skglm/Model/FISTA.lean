import Skglm.Model.CD
/-
  Model of the accelerated proximal-gradient solver `skglm/solvers/fista.py` (class `FISTA`,
  `_solve`).

  ```
  p_objs_out = [] ; stop_crit = np.inf ; t_new = 1.
  w = w_init.copy() or zeros ; z = w_init.copy() or zeros ; Xw = Xw_init.copy() or zeros
  lipschitz = datafit.get_global_lipschitz(X, y)            # (…_sparse for CSC input)
  for n_iter in range(max_iter):
      t_old = t_new
      t_new = (1 + np.sqrt(1 + 4 * t_old ** 2)) / 2
      w_old = w.copy()
      grad = datafit.gradient(X, y, X @ z)                  # or construct_grad(X, y, z, X @ z, …)
      step = 1 / lipschitz
      z -= step * grad
      w = penalty.prox_vec(z, step)                         # or _prox_vec(w, z, penalty, step)
      Xw = X @ w
      z = w + (t_old - 1.) / t_new * (w - w_old)
      grad_w = datafit.gradient(X, y, Xw)                   # or construct_grad(X, y, w, Xw, …)
      opt = penalty.subdiff_distance(w, grad_w, all_features) # "subdiff"
          | np.abs(w - penalty.prox_vec(w - grad_w / lipschitz, 1 / lipschitz)) # "fixpoint"
      stop_crit = np.max(opt)
      p_objs_out.append(datafit.value(y, w, Xw) + penalty.value(w))
      if stop_crit < self.tol: break
  return w, np.array(p_objs_out), stop_crit
  ```

  * `FistaProb`            the data of the problem, the global constant `L = lipschitz` included
                           (it comes from `numpy.linalg.norm(·, ord=2)` for dense input and from an
                           unseeded power iteration for CSC input: a *parameter* here)
  * `FistaState`           what the loop carries: `w`, `z`, `t_new` (`Xw = X @ w` is recomputed in
                           every iteration before it is read, `Xw_init` is never read)
  * `init`                 the state before the loop (`w_init is None` / given)
  * `grad`                 `grad`: the gradient of the datafit **at the extrapolated point `z`**
  * `fistaStep`            one pass of the loop body
  * `scores`, `critOf`     `opt` and `np.max(opt)` for a given pair (point, gradient)
  * `fistaStop`            the `stop_crit` computed by the pass that starts in a given state:
                           scores of the **new** `w` with the gradient **at the new `w`**
  * `fistaStopOld`         its value before commit 202760b: new `w`, gradient at the **old `z`**
  * `fistaObjective`       the value appended to `p_objs_out`
  * `fistaIter`            `k` passes without the stopping test
  * `fistaRun`             the loop (`fuel = max_iter`): returns state, `stop_crit`, `p_objs_out`
-/
namespace Skglm
variable {α : Type} [Scalar α]

namespace DF
variable {n p : Nat}

/-- `grad` as FISTA computes it from the model fit `u = X @ z`:
    `datafit.gradient(X, y, u)` when the class has it — Quadratic `X.T @ (u - y) / len(y)`,
    WeightedQuadratic `X.T @ (sw * (u - y)) / sw.sum()` (division after the product),
    Logistic `X.T @ raw_grad` — otherwise (Huber, QuadraticSVC) `construct_grad`, a loop of
    `gradient_scalar`.  All of them are the vector of `gradScalar` over ℝ (`DF.gradient_eq`). -/
def gradient (d : DF α) (X : Fin n → Fin p → α) (sw y u : Fin n → α) : Fin p → α :=
  match d with
  | quadratic =>
      mat (fun j => vsum (fun i => X i j * (sw i * (u i - y i))) / (quadratic : DF α).normaliser sw)
  | wquadratic =>
      mat (fun j => vsum (fun i => X i j * (sw i * (u i - y i))) / (wquadratic : DF α).normaliser sw)
  | d => mat (fun j => d.gradScalar X sw y u j)

end DF

structure FistaProb (α : Type) (n p : Nat) where
  X : Fin n → Fin p → α
  y : Fin n → α
  /-- sample weights (ones unless the datafit is `wquadratic`) -/
  sw : Fin n → α
  df : DF α
  pen : SepPen α
  wts : Fin p → α
  /-- `lipschitz = datafit.get_global_lipschitz(X, y)` (or `…_sparse`) -/
  L : α

/-- the variables carried from one pass of the loop to the next -/
structure FistaState (α : Type) (p : Nat) where
  /-- the iterate (the returned vector) -/
  w : Fin p → α
  /-- the extrapolated point at which the next gradient is taken -/
  z : Fin p → α
  /-- `t_new` -/
  t : α

variable {n p : Nat}

namespace FistaProb

/-- the problem AndersonCD would be given: same data, datafit, penalty; FISTA has
    `fit_intercept = False` -/
def toCD (P : FistaProb α n p) : CDProb α n p :=
  { X := P.X, y := P.y, sw := P.sw, df := P.df, pen := P.pen, wts := P.wts, fitInt := false }

/-- `w = z = w_init.copy()` or zeros, `t_new = 1.` -/
def init (w0 : Option (Fin p → α)) : FistaState α p :=
  match w0 with
  | none => { w := fun _ => 0, z := fun _ => 0, t := 1 }
  | some v => { w := v, z := v, t := 1 }

/-- `X @ v` -/
def Xv (P : FistaProb α n p) (v : Fin p → α) : Fin n → α := mat (fun i => dot (P.X i) v)

/-- `grad`: gradient of the datafit at the point `z` (model fit `X @ z` recomputed) -/
def grad (P : FistaProb α n p) (z : Fin p → α) : Fin p → α :=
  P.df.gradient P.X P.sw P.y (P.Xv z)

/-- `t_new = (1 + np.sqrt(1 + 4 * t_old ** 2)) / 2` -/
def tNext (t : α) : α := (1 + Scalar.sqrt (1 + nat 4 * (t * t))) / nat 2

/-- one pass of the loop body:
    `z -= step * grad; w = prox(z, step); z = w + (t_old - 1.) / t_new * (w - w_old)` -/
def fistaStep (P : FistaProb α n p) (s : FistaState α p) : FistaState α p :=
  let tOld := s.t
  let tNew := tNext tOld
  let g := P.grad s.z
  let step := 1 / P.L
  let zz := mat (fun j => s.z j - step * g j)
  let w' := mat (fun j => P.pen.prox1 (P.wts j) (zz j) step)
  let c := (tOld - 1) / tNew
  { w := w', z := mat (fun j => w' j + c * (w' j - s.w j)), t := tNew }

/-- `opt` for a point `w` and a gradient vector `g`:
    `penalty.subdiff_distance(w, g, all_features)` (`fixpoint = false`) or
    `np.abs(w - penalty.prox_vec(w - g / lipschitz, 1 / lipschitz))` (`fixpoint = true`; the code
    calls `prox_vec` here without the `_prox_vec` fallback of the step) -/
def scores (P : FistaProb α n p) (fixpoint : Bool) (w g : Fin p → α) : Fin p → Ext α :=
  fun j =>
    if fixpoint then
      .fin (sabs (w j - P.pen.prox1 (P.wts j) (w j - g j / P.L) (1 / P.L)))
    else P.pen.sd1 (P.wts j) (w j) (g j)

/-- `np.max(opt)` (scores are non-negative, so starting the running maximum at `0` changes
    nothing for `p ≥ 1`) -/
def critOf (P : FistaProb α n p) (fixpoint : Bool) (w g : Fin p → α) : Ext α :=
  Fin.foldl p (fun acc j => Ext.max acc (P.scores fixpoint w g j)) (.fin 0)

/-- the `stop_crit` computed by the pass that starts in state `s` (since commit 202760b): the scores
    of the **new iterate** `w' = (fistaStep s).w` evaluated with `grad_w`, the gradient of the datafit
    **at that same point** (`datafit.gradient(X, y, Xw)` / `construct_grad(X, y, w, Xw, …)` with
    `Xw = X @ w'`, recomputed after the prox step) -/
def fistaStop (P : FistaProb α n p) (fixpoint : Bool) (s : FistaState α p) : Ext α :=
  let w' := (P.fistaStep s).w
  P.critOf fixpoint w' (P.grad w')

/-- the pre-repair value of `stop_crit` (before commit 202760b): the scores of the new iterate
    `(fistaStep s).w` evaluated with `grad`, the gradient at the **old extrapolated point `s.z`**
    (the variable `grad` was not recomputed after `w` had been updated).  Kept so that the defect
    witnesses of `Skglm/Properties/FISTA.lean` remain statable; not used by `fistaRun`. -/
def fistaStopOld (P : FistaProb α n p) (fixpoint : Bool) (s : FistaState α p) : Ext α :=
  P.critOf fixpoint (P.fistaStep s).w (P.grad s.z)

/-- `p_obj = datafit.value(y, w, Xw) + penalty.value(w)` with `Xw = X @ w` -/
def fistaObjective (P : FistaProb α n p) (w : Fin p → α) : Ext α :=
  Ext.add (.fin (P.df.value P.sw P.y (P.Xv w) w)) (P.pen.value P.wts w)

/-- `k` passes of the loop body, no stopping test -/
def fistaIter (P : FistaProb α n p) : Nat → FistaState α p → FistaState α p
  | 0, s => s
  | k + 1, s => fistaIter P k (P.fistaStep s)

/-- the loop of `_solve`, `fuel = max_iter`.  Arguments: the state, the current `stop_crit`
    (`np.inf` before the loop) and `p_objs_out` so far; returns the final state (its `w` is the
    returned vector), the returned `stop_crit` and `p_objs_out`.
    `max_iter = 0`: the start is returned with `stop_crit = inf` and an empty history. -/
def fistaRun (P : FistaProb α n p) (fixpoint : Bool) (tol : α) :
    Nat → FistaState α p → Ext α → List (Ext α) → FistaState α p × Ext α × List (Ext α)
  | 0, s, crit, objs => (s, crit, objs)
  | fuel + 1, s, _, objs =>
    let s' := P.fistaStep s
    let crit := P.fistaStop fixpoint s
    let objs' := objs ++ [P.fistaObjective s'.w]
    if Ext.lt crit (.fin tol) then (s', crit, objs')
    else fistaRun P fixpoint tol fuel s' crit objs'

/-- `FISTA(max_iter, tol, opt_strategy)._solve(X, y, datafit, penalty, w_init)` -/
def solve (P : FistaProb α n p) (fixpoint : Bool) (tol : α) (maxIter : Nat)
    (w0 : Option (Fin p → α)) : FistaState α p × Ext α × List (Ext α) :=
  P.fistaRun fixpoint tol maxIter (init w0) .inf []

end FistaProb
end Skglm
