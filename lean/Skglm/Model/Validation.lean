import Skglm.Generated.Tables
/-
  Model of `BaseSolver._validate`, `skglm/utils/validation.py:check_attrs / check_group_compatible` and of
  each solver's `custom_checks`, over the class tables regenerated from the source
  (`Skglm/Generated/Tables.lean`).  No numeric content: this is the finite decision logic of C13.
-/
namespace Skglm.Gen

/-- `check_attrs(obj, solver, required_attr, support_sparse)`: every entry (an alternative list) has at
    least one member among the object's methods, with the `_sparse` suffix when asked -/
def checkAttrs (methods : List Nat) (req : List (List Nat)) (sparse : Bool) : Bool :=
  req.all (fun alts => alts.any (fun a => methods.contains (if sparse then sparseTwin a else a)))

/-- outcome of validation for a composition (datafit `none` = the user passed `datafit=None`) -/
def validate (s : SolverC) (d : Option DatafitC) (p : PenaltyC) (sparse subdiff : Bool) : Bool :=
  if s.flagDfMustBeNone then
    d.isNone && checkAttrs p.methods s.reqPenalty false
  else
    match d with
    | none => false
    | some d =>
      (!s.flagGroupDf || d.isGroup) && (!s.flagGroupPen || p.isGroup) &&
      (!(s.flagRefuseSparse && sparse)) &&
      (!s.flagSparseSuffix || checkAttrs d.methods s.reqDatafit sparse) &&
      (!(s.flagStrategyNeedsSubdiff && subdiff) || p.methods.contains subdiffId) &&
      checkAttrs d.methods s.reqDatafit false && checkAttrs p.methods s.reqPenalty false

/-- is a kernel call site executed for this storage format -/
def KCall.active (c : KCall) (sparse : Bool) : Bool :=
  c.kind == 2 || (c.kind == 1 && sparse) || (c.kind == 0 && !sparse)

/-- every method a compiled kernel of the solver uses on the datafit / penalty in this configuration exists
    (otherwise numba fails with a typing error instead of an explanatory refusal) -/
def kernelsClosed (s : SolverC) (d : Option DatafitC) (p : PenaltyC) (sparse : Bool) : Bool :=
  s.kernelCalls.all (fun c =>
    !c.active sparse || c.guarded ||
    (match c.unlessDatafitHas, d with
     | some m, some d => d.methods.contains m
     | _, _ => false) ||
    (if c.onDatafit then (match d with | some d => d.methods.contains c.meth | none => true)
     else (p.methods.contains c.meth || c.meth == subdiffId)))

def allCells : List (SolverC × Option DatafitC × PenaltyC × Bool × Bool) :=
  SolverC.all.flatMap fun s => (none :: DatafitC.all.map some).flatMap fun d => PenaltyC.all.flatMap fun p =>
    [(s, d, p, false, false), (s, d, p, false, true), (s, d, p, true, false), (s, d, p, true, true)]

end Skglm.Gen
