import Skglm.Model.BCD
import Skglm.Model.ProxNewton
/-
  Model of the backtracking line search of `skglm/solvers/group_prox_newton.py`
  (`_backtrack_line_search`, with the helpers `_construct_grad` and `_slice_array`).

  The search direction is given as the code holds it: the *stacked* vector `delta_w_ws` (one entry
  per feature of the working-set groups, group after group in the order of `ws`, each group in the
  order of its `grp_indices` slice; then the intercept entry when `fit_intercept`) and
  `X_delta_w_ws`.

  Two group layouts are read by the code and both are kept:
    * `P.groups`  = `penalty.grp_ptr / penalty.grp_indices`   (the move `w[grp_g_indices] += …`,
                    `n_features_ws`, `penalty.value`);
    * `dg`        = `datafit.grp_ptr / datafit.grp_indices`   (`_construct_grad`).
  Nothing in the solver checks that they agree.

  Faithful to the code, when no step passes the test within the budget the last trial point is
  kept (`for … else: pass`).
-/
namespace Skglm
variable {α : Type} [Scalar α] {n p : Nat}

/-- a group prox-Newton direction: `dws = delta_w_ws[:n_features_ws]` (stacked), `db =
    delta_w_ws[-1]` (read only when `fit_intercept`), `Xd = X_delta_w_ws` -/
structure GPNDir (α : Type) (n : Nat) where
  dws : List α
  db : α
  Xd : Fin n → α

namespace GrpProb

/-- `grp_indices[grp_ptr[g] : grp_ptr[g+1]]` (the working set only holds valid group indices) -/
def grpOf (groups : List (List (Fin p))) (g : Nat) : List (Fin p) := groups.getD g []

/-- the feature index of every stacked position: the loop nest
    `for g in ws: for j in grp_g_indices: …[ptr] …; ptr += 1` -/
def stackIdx (groups : List (List (Fin p))) (ws : List Nat) : List (Fin p) :=
  ws.flatMap (grpOf groups)

/-- `n_features_ws = sum([grp_ptr[g+1] - grp_ptr[g] for g in ws])` -/
def nFeatWs (groups : List (List (Fin p))) (ws : List Nat) : Nat := (stackIdx groups ws).length

/-- `a @ b` for stacked vectors of equal length (positions beyond the shorter one do not occur in
    the code: numpy raises on a shape mismatch) -/
def sdot (a b : List α) : α := (List.zipWith (· * ·) a b).foldl (· + ·) 0

/-- the loop
    `ptr = 0; for g in ws: w[grp_g_indices] += t * delta_w_ws[ptr:ptr+len(grp_g_indices)]; ptr += len(…)`.
    `w[idx] += v` is `w[idx] = w[idx] + v`: all reads come first, and for an index listed twice the
    last write wins. -/
def gpnScatter (groups : List (List (Fin p))) (dws : List α) (t : α) :
    List Nat → Nat → (Fin p → α) → (Fin p → α)
  | [], _, w => w
  | g :: ws, ptr, w =>
    gpnScatter groups dws t ws (ptr + (grpOf groups g).length)
      (mat (assign w (grpOf groups g) (fun i => w ((grpOf groups g).get i) + t * dws.getD (ptr + i.1) 0)))

/-- the first lines of the loop body with `t = step - prev_step`:
    the scatter loop, `if fit_intercept: w[-1] += t * delta_w_ws[-1]`, `Xw += t * X_delta_w_ws` -/
def gpnMoveBy (P : GrpProb α n p) (ws : List Nat) (s : CDState α n p) (d : GPNDir α n) (t : α) :
    CDState α n p :=
  { w := gpnScatter P.groups d.dws t ws 0 s.w
    b := if P.fitInt then s.b + t * d.db else s.b
    Xw := mat (fun i => s.Xw i + t * d.Xd i) }

/-- `gpnMoveBy` as executed by the driver: the scattered coefficients are materialised (same function:
    `gpnMoveBy_eq_impl`), otherwise every access re-runs the scatter recursion of all earlier trials -/
def gpnMoveByImpl (P : GrpProb α n p) (ws : List Nat) (s : CDState α n p) (d : GPNDir α n) (t : α) :
    CDState α n p :=
  { w := mat (gpnScatter P.groups d.dws t ws 0 s.w)
    b := if P.fitInt then s.b + t * d.db else s.b
    Xw := mat (fun i => s.Xw i + t * d.Xd i) }

theorem mat_id {m : Nat} (f : Fin m → α) : mat f = f := by
  funext i; simp [mat]

@[csimp] theorem gpnMoveBy_eq_impl : @gpnMoveBy = @gpnMoveByImpl := by
  funext α _ n p P ws s d t
  simp [gpnMoveBy, gpnMoveByImpl, mat_id]

/-- `_construct_grad(X, y, w, Xw, datafit, ws)`: stacked, in the layout `dg` of the *datafit* -/
def gpnConstructGrad (P : GrpProb α n p) (dg : List (List (Fin p))) (ws : List Nat)
    (Xw : Fin n → α) : List α :=
  let r := mat (P.df.rawGrad P.sw P.y Xw)
  (stackIdx dg ws).map (fun j => vsum (fun i => P.X i j * r i))

/-- `_slice_array(arr, ws, grp_ptr, grp_indices)` (without the intercept entry):
    `sliced[ptr : ptr+len] = arr[grp_g_indices]` — `arr` is indexed by *feature index* -/
def gpnSliceArray (groups : List (List (Fin p))) (ws : List Nat) (arr : List α) : List α :=
  (stackIdx groups ws).map (fun j => arr.getD j.1 0)

/-- what `_solve` hands to the first `_descent_direction` of an outer iteration:
    `grad = _construct_grad(…, all_groups)` (stacked over all groups in the datafit's layout), then
    `grad_ws = _slice_array(grad, ws, grp_ptr, grp_indices)` (indexed by feature index, penalty's
    layout) -/
def gpnInitialGradWs (P : GrpProb α n p) (dg : List (List (Fin p))) (ws : List Nat)
    (Xw : Fin n → α) : List α :=
  gpnSliceArray P.groups ws (gpnConstructGrad P dg (List.range dg.length) Xw)

/-- `stop_crit` of one backtracking iteration, evaluated at the trial point `cur` (reached with the
    cumulated step `step`); `oldPen` is `penalty.value` at the start of the search:
    `penalty.value(w) - old_penalty_val + step * grad_ws @ delta_w_ws[:n_features_ws]
      (+ step * delta_w_ws[-1] * np.sum(datafit.raw_grad(y, Xw)))` -/
def gpnLineSearchTestAt (P : GrpProb α n p) (dg : List (List (Fin p))) (ws : List Nat)
    (oldPen : Ext α) (cur : CDState α n p) (d : GPNDir α n) (step : α) : Ext α :=
  match CDProb.extSub (P.penValue cur.w) oldPen with
  | .inf => .inf
  | .fin pd =>
    let g := gpnConstructGrad P dg ws cur.Xw
    let c := pd + step * sdot g (d.dws.take (nFeatWs P.groups ws))
    if P.fitInt then .fin (c + step * d.db * vsum (P.df.rawGrad P.sw P.y cur.Xw)) else .fin c

/-- the test `stop_crit < 0` (`inf`, `nan`: false; `-inf`: true) -/
def gpnLineSearchAcceptAt (P : GrpProb α n p) (dg : List (List (Fin p))) (ws : List Nat)
    (oldPen : Ext α) (cur : CDState α n p) (d : GPNDir α n) (step : α) : Bool :=
  match oldPen, P.penValue cur.w with
  | .fin _, _ => Ext.lt (P.gpnLineSearchTestAt dg ws oldPen cur d step) (.fin 0)
  | .inf, .fin _ => true
  | .inf, .inf => false

/-- `stop_crit` for the step `t` from `s0` -/
def gpnLineSearchTest (P : GrpProb α n p) (dg : List (List (Fin p))) (ws : List Nat)
    (s0 : CDState α n p) (d : GPNDir α n) (t : α) : Ext α :=
  P.gpnLineSearchTestAt dg ws (P.penValue s0.w) (P.gpnMoveBy ws s0 d t) d t

def gpnLineSearchAccept (P : GrpProb α n p) (dg : List (List (Fin p))) (ws : List Nat)
    (s0 : CDState α n p) (d : GPNDir α n) (t : α) : Bool :=
  P.gpnLineSearchAcceptAt dg ws (P.penValue s0.w) (P.gpnMoveBy ws s0 d t) d t

/-- the `for _ in range(MAX_BACKTRACK_ITER)` loop: move by `step - prev_step`, test, halve.
    When the fuel runs out — no trial step passed the test — the code does nothing
    (`else: pass  # TODO this case is not handled yet`): the last trial point is returned. -/
def gpnBacktrackLoop (P : GrpProb α n p) (dg : List (List (Fin p))) (ws : List Nat)
    (oldPen : Ext α) (d : GPNDir α n) : Nat → CDState α n p → α → α → CDState α n p
  | 0, cur, _, _ => cur
  | fuel + 1, cur, step, prev =>
    let cur' := P.gpnMoveBy ws cur d (step - prev)
    if P.gpnLineSearchAcceptAt dg ws oldPen cur' d step then cur'
    else gpnBacktrackLoop P dg ws oldPen d fuel cur' (step / nat 2) step

/-- `_backtrack_line_search` with `MAX_BACKTRACK_ITER = fuel` (`20` in the code): the state
    (`w[:n_features]`, `w[-1]`, `Xw`) after the in-place updates -/
def gpnBacktrack (fuel : Nat) (P : GrpProb α n p) (dg : List (List (Fin p))) (ws : List Nat)
    (s0 : CDState α n p) (d : GPNDir α n) : CDState α n p :=
  P.gpnBacktrackLoop dg ws (P.penValue s0.w) d fuel s0 1 0

/-- the value returned by `_backtrack_line_search`: `grad_ws` at the point it stops at -/
def gpnBacktrackGrad (fuel : Nat) (P : GrpProb α n p) (dg : List (List (Fin p))) (ws : List Nat)
    (s0 : CDState α n p) (d : GPNDir α n) : List α :=
  P.gpnConstructGrad dg ws (P.gpnBacktrack fuel dg ws s0 d).Xw

end GrpProb
end Skglm
