import Skglm.Model.Penalties
/-
  Model of the Gram-matrix coordinate-descent solver `skglm/solvers/gram_cd.py`
  (class `GramCD`: `_solve`, `_gram_cd_epoch`), and of the part of
  `skglm/utils/anderson.py` it uses (the extrapolated point for given coefficients).

  The solver never touches `X`, `y` after the first lines of `_solve`: it works on
  `scaled_gram = XᵀX/n`, `scaled_Xty = Xᵀy/n`, `scaled_y_norm2 = ‖y‖²/(2n)` and keeps the
  gradient `grad = scaled_gram @ w - scaled_Xty` up to date with rank-one Gram updates.

  * `GramProb.ofData`          the first lines of `_solve`
  * `init` / `initWarm`        `w, grad` before the loop (`w_init is None` / given)
  * `gramStep`                 loop body of `_gram_cd_epoch` for the selected coordinate
  * `gramEpoch`                an epoch over a given sequence of selected coordinates
  * `scores`, `argmax`, `gramEpochGreedy`   the greedy selection rule (`np.argmax(opt)`)
  * `cyclic`                   the cyclic sequence `0, …, p-1`
  * `objective`, `objNoConst`  the two expressions `_solve` computes for `p_obj`
  * `extrapPoint`, `acceptMove` Anderson point for given coefficients, guarded acceptance
  * `stopCrit`                 `np.max(penalty.subdiff_distance(w, grad, all_features))`
  * `solve`                    the outer loop without acceleration (fuel = `max_iter`)
-/
namespace Skglm
variable {α : Type} [Scalar α]

/-- materialise a square matrix (identity for proofs, see `matM_eq`) -/
def matM {p : Nat} (f : Fin p → Fin p → α) : Fin p → Fin p → α :=
  let a : Array (Array α) := Array.ofFn (fun j => Array.ofFn (f j))
  fun j k => if h : j.1 < a.size then
      (if h' : k.1 < a[j.1].size then a[j.1][k.1] else f j k)
    else f j k

structure GramProb (α : Type) (p : Nat) where
  /-- `scaled_gram = XᵀX / n_samples` -/
  G : Fin p → Fin p → α
  /-- `scaled_Xty = Xᵀy / n_samples` -/
  q : Fin p → α
  /-- `scaled_y_norm2 = ‖y‖² / (2 n_samples)` -/
  c : α
  pen : SepPen α
  wts : Fin p → α

structure GramState (α : Type) (p : Nat) where
  w : Fin p → α
  grad : Fin p → α

variable {n p : Nat}

namespace GramProb

/-- the first lines of `_solve`:
    `scaled_gram = X.T @ X / n_samples`, `scaled_Xty = X.T @ y / n_samples`,
    `scaled_y_norm2 = np.linalg.norm(y) ** 2 / (2 * n_samples)` -/
def ofData (X : Fin n → Fin p → α) (y : Fin n → α) (pen : SepPen α) (wts : Fin p → α) :
    GramProb α p :=
  { G := matM (fun j k => vsum (fun i => X i j * X i k) / nat n)
    q := mat (fun j => vsum (fun i => X i j * y i) / nat n)
    c := norm2 y * norm2 y / (nat 2 * nat n)
    pen := pen
    wts := wts }

/-- `scaled_gram @ w` -/
def Gw (P : GramProb α p) (w : Fin p → α) : Fin p → α :=
  mat (fun j => dot (P.G j) w)

/-- `w = np.zeros(n_features)`, `grad = -scaled_Xty` (`w_init is None`) -/
def init (P : GramProb α p) : GramState α p :=
  { w := fun _ => 0, grad := mat (fun j => -(P.q j)) }

/-- `w = w_init`, `grad = scaled_gram @ w_init - scaled_Xty` -/
def initWarm (P : GramProb α p) (w0 : Fin p → α) : GramState α p :=
  let g := P.Gw w0
  { w := w0, grad := mat (fun j => g j - P.q j) }

/-- loop body of `_gram_cd_epoch` once feature `j` has been selected:
    ```
    old_w_j = w[j]
    if scaled_gram[j, j] == 0.: continue
    step = 1 / scaled_gram[j, j]
    w[j] = penalty.prox_1d(old_w_j - step * grad[j], step, j)
    if w[j] != old_w_j:
        grad += (w[j] - old_w_j) * scaled_gram[:, j]
    ``` -/
def gramStep (P : GramProb α p) (s : GramState α p) (j : Fin p) : GramState α p :=
  let old := s.w j
  if eqb (P.G j j) 0 then s
  else
    let step := 1 / P.G j j
    let new := P.pen.prox1 (P.wts j) (old - step * s.grad j) step
    let w' := mat (fun k => if k = j then new else s.w k)
    if eqb new old then { w := w', grad := s.grad }
    else { w := w', grad := mat (fun k => s.grad k + (new - old) * P.G k j) }

/-- an epoch in which the features `js` were selected, in this order (cyclic rule: `cyclic`;
    greedy rule: whatever `np.argmax` returned — see `gramEpochGreedy`) -/
def gramEpoch (P : GramProb α p) (s : GramState α p) (js : List (Fin p)) : GramState α p :=
  js.foldl P.gramStep s

/-- `all_features` in loop order -/
def cyclic (p : Nat) : List (Fin p) := List.finRange p

/-- `penalty.subdiff_distance(w, grad, all_features)` -/
def scores (P : GramProb α p) (s : GramState α p) : Fin p → Ext α :=
  fun j => P.pen.sd1 (P.wts j) (s.w j) (s.grad j)

/-- `np.argmax(opt)`: first index at which the maximum is attained (`d` only witnesses `0 < p`) -/
def argmax (f : Fin p → Ext α) (d : Fin p) : Fin p :=
  let z : Fin p := ⟨0, Nat.lt_of_le_of_lt (Nat.zero_le _) d.2⟩
  (Fin.foldl p (fun (acc : Fin p × Ext α) k =>
      let v := f k
      if Ext.lt acc.2 v then (k, v) else acc) (z, f z)).1

/-- `_gram_cd_epoch(..., greedy_cd=True)`: `p` steps, each on the feature with the largest score -/
def gramEpochGreedy (P : GramProb α p) (s : GramState α p) : GramState α p :=
  Fin.foldl p (fun s cdIter =>
    let opt := mat (P.scores s)
    P.gramStep s (argmax opt cdIter)) s

/-- the quadratic part without the constant:
    `0.5 * w @ (scaled_gram @ w) - scaled_Xty @ w`
    (Python parses `0.5 * w @ v` as `(0.5 * w) @ v`) -/
def quadNoConst (P : GramProb α p) (w : Fin p → α) : α :=
  dot (mat (fun j => frac 1 2 * w j)) (P.Gw w) - dot P.q w

/-- `p_obj = 0.5 * w @ (scaled_gram @ w) - scaled_Xty @ w + scaled_y_norm2 + penalty.value(w)`
    (verbose print and `p_objs_out`) -/
def objective (P : GramProb α p) (w : Fin p → α) : Ext α :=
  Ext.add (.fin (P.quadNoConst w + P.c)) (P.pen.value P.wts w)

/-- `0.5 * w @ (scaled_gram @ w) - scaled_Xty @ w + penalty.value(w)`: the two values compared by
    the acceptance test ("omit constant term for comparison") -/
def objNoConst (P : GramProb α p) (w : Fin p → α) : Ext α :=
  Ext.add (.fin (P.quadNoConst w)) (P.pen.value P.wts w)

/-- `accelerator.extrapolate(w, grad)` when it extrapolates: `arr_w_[:, 1:] @ C`,
    `arr_Xw_[:, 1:] @ C` where the second buffer holds the *gradients* (GramCD passes `grad` in
    the place of `Xw`); `buf k` are the buffered `(w, grad)` pairs, `c` the coefficients `C` -/
def extrapPoint {K : Nat} (buf : Fin K → GramState α p) (c : Fin K → α) : GramState α p :=
  { w := mat (fun j => vsum (fun k => c k * (buf k).w j))
    grad := mat (fun j => vsum (fun k => c k * (buf k).grad j)) }

/-- guarded acceptance: `if p_obj_acc < p_obj: w[:] = w_acc; grad[:] = grad_acc`
    (the gradient of the accepted point is the *extrapolated* gradient, it is not recomputed) -/
def acceptMove (P : GramProb α p) (s acc : GramState α p) : GramState α p :=
  if Ext.lt (P.objNoConst acc.w) (P.objNoConst s.w) then acc else s

/-- `stop_crit = np.max(opt)` with `opt = penalty.subdiff_distance(w, grad, all_features)`
    (scores are non-negative, so starting the running maximum at `0` changes nothing) -/
def stopCrit (P : GramProb α p) (s : GramState α p) : Ext α :=
  Fin.foldl p (fun acc j => Ext.max acc (P.scores s j)) (.fin 0)

/-- the outer loop of `_solve` with `use_acc=False`: `fuel = max_iter`; returns the final state and
    the `stop_crit` that `_solve` returns (the one computed at the top of the last iteration
    entered; `inf` if `max_iter = 0`) -/
def solve (P : GramProb α p) (greedy : Bool) (tol : α) :
    Nat → GramState α p → Ext α → GramState α p × Ext α
  | 0, s, crit => (s, crit)
  | fuel + 1, s, _ =>
    let crit := P.stopCrit s
    if Ext.le crit (.fin tol) then (s, crit)
    else
      let s' := if greedy then P.gramEpochGreedy s else P.gramEpoch s (cyclic p)
      solve P greedy tol fuel s' crit

end GramProb
end Skglm
