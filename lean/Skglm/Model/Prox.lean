import Skglm.Scalar
/-
  Model of `skglm/utils/prox_funcs.py`, function by function, in the code's operation order.
-/
namespace Skglm
variable {α : Type} [Scalar α]

/-- `ST(x, u, positive)` -/
def ST (x u : α) (positive : Bool) : α :=
  if u < x then x - u
  else if x < -u ∧ positive = false then x + u
  else 0

/-- one entry of `ST_vec(x, u)`: `np.sign(x) * np.maximum(0., np.abs(x) - u)` -/
def STv1 (x u : α) : α := sgn x * smax 0 (sabs x - u)

def ST_vec {n : Nat} (x : Fin n → α) (u : α) : Fin n → α := fun i => STv1 (x i) u

/-- `BST(x, u, positive=False)` -/
def BST0 {n : Nat} (x : Fin n → α) (u : α) : Fin n → α :=
  let nx := norm2 x
  if nx ≤ u then fun _ => 0 else fun i => (1 - u / nx) * x i

/-- `BST(x, u, positive)`; for `positive` the norm is that of the strictly positive entries,
    the other entries are set to zero. -/
def BST {n : Nat} (x : Fin n → α) (u : α) (positive : Bool) : Fin n → α :=
  if positive then
    let xp : Fin n → α := fun i => if 0 < x i then x i else 0
    let r := BST0 xp u
    fun i => if 0 < x i then r i else 0
  else BST0 x u

/-- `box_proj(x, low, up)` -/
def box_proj (x low up : α) : α :=
  if up < x then up else if x < low then low else x

/-- one summand of `value_MCP` -/
def pen_MCP (w alpha gamma : α) : α :=
  if sabs w < gamma * alpha then alpha * sabs w - w * w / (nat 2 * gamma)
  else gamma * (alpha * alpha) / nat 2

def value_MCP {n : Nat} (w : Fin n → α) (alpha gamma : α) : α :=
  vsum (fun i => pen_MCP (w i) alpha gamma)

def value_weighted_MCP {n : Nat} (w : Fin n → α) (alpha gamma : α) (weights : Fin n → α) : α :=
  vsum (fun i => weights i * pen_MCP (w i) alpha gamma)

/-- `prox_MCP(value, stepsize, alpha, gamma, positive, weight)` -/
def prox_MCP (value stepsize alpha gamma : α) (positive : Bool) (weight : α) : α :=
  let ws := weight * stepsize
  if sabs value ≤ alpha * ws ∨ (positive = true ∧ value ≤ 0) then 0
  else if alpha * gamma < sabs value then value
  else sgn value * (sabs value - alpha * ws) / (1 - ws / gamma)

/-- one summand of `value_SCAD` -/
def pen_SCAD (w alpha gamma : α) : α :=
  if sabs w ≤ alpha then alpha * sabs w
  else if sabs w ≤ alpha * gamma then
    (nat 2 * gamma * alpha * sabs w - w * w - alpha * alpha) / (nat 2 * (gamma - 1))
  else alpha * alpha * (gamma + 1) / nat 2

def value_SCAD {n : Nat} (w : Fin n → α) (alpha gamma : α) : α :=
  vsum (fun i => pen_SCAD (w i) alpha gamma)

/-- `prox_SCAD(value, stepsize, alpha, gamma)`: best of three candidates, first minimum wins
    (`np.argmin`). -/
def prox_SCAD (value stepsize alpha gamma : α) : α :=
  let tau := gamma * alpha
  let av := sabs value
  let x1 := smax 0 (av - alpha * stepsize)
  let x2 := sabs (((gamma - 1) * av - stepsize * tau) / (gamma - 1 - stepsize))
  let x3 := av
  let obj := fun x => (frac 1 2 / stepsize) * ((x - av) * (x - av)) + pen_SCAD x alpha gamma
  let o1 := obj x1
  let o2 := obj x2
  let o3 := obj x3
  let best := if o2 < o1 then (if o3 < o2 then x3 else x2) else (if o3 < o1 then x3 else x1)
  sgn value * best

/-- `prox_05(x, u)` -/
def prox_05 (x u : α) : α :=
  let t := frac 3 2 * Scalar.pow u (frac 2 3)
  if sabs x < t then 0
  else x * frac 2 3 * (1 + Scalar.cos (frac 2 3 * Scalar.acos
      (-(Scalar.pow (nat 3) (frac 3 2) / nat 4) * u * Scalar.pow (sabs x) (-(frac 3 2)))))

/-- `prox_block_2_05(x, u)` -/
def prox_block_2_05 {n : Nat} (x : Fin n → α) (u : α) : Fin n → α :=
  let nx := norm2 x
  fun i => (prox_05 nx u / nx) * x i

/-- `prox_2_3(x, u)` -/
def prox_2_3 (x u : α) : α :=
  let t := nat 2 * Scalar.pow (frac 2 3 * u) (frac 3 4)
  if sabs x < t then 0
  else
    let x2 := x * x
    let x4 := x2 * x2
    let disc := Scalar.sqrt (x4 / nat 256 - nat 8 * (u * u * u) / nat 729)
    let z := Scalar.pow (x2 / nat 16 + disc) (frac 1 3) + Scalar.pow (x2 / nat 16 - disc) (frac 1 3)
    let s := Scalar.sqrt (nat 2 * z) +
      Scalar.sqrt (nat 2 * sabs x / Scalar.sqrt (nat 2 * z) - nat 2 * z)
    sgn x * 1 / nat 8 * (s * s * s)

/-! ### log-sum -/

def r2 (x alpha eps : α) : α :=
  (x - eps) / nat 2 + Scalar.sqrt (smax (((x + eps) * (x + eps)) / nat 4 - alpha) 0)

/-- `_log_sum_prox_val(x, z, alpha, eps)` (`log1p(t)` read as `log(1 + t)`) -/
def log_sum_prox_val (x z alpha eps : α) : α :=
  ((x - z) * (x - z)) / (nat 2 * alpha) + Scalar.log (1 + sabs x / eps)

def r_ls (x alpha eps : α) : α :=
  log_sum_prox_val (r2 x alpha eps) x alpha eps - log_sum_prox_val 0 x alpha eps

/-- `_find_root_by_bisection` with explicit fuel (the code's `while b - a > tol`); returns the
    last midpoint `c` (initialised to `(a + b) / 2`). -/
def bisect (fuel : Nat) (a b alpha eps tol : α) (c : α) : α :=
  match fuel with
  | 0 => c
  | fuel + 1 =>
    if tol < b - a then
      let c' := (a + b) / nat 2
      if r_ls a alpha eps * r_ls c' alpha eps < 0 then bisect fuel a c' alpha eps tol c'
      else bisect fuel c' b alpha eps tol c'
    else c

/-- `prox_log_sum(x, alpha, eps)`; `tol = 1e-8` is passed by the caller, fuel 200 halvings. -/
def prox_log_sum (x alpha eps tol : α) : α :=
  if Scalar.sqrt alpha ≤ eps then
    if sabs x ≤ alpha / eps then 0 else sgn x * r2 (sabs x) alpha eps
  else
    let a := nat 2 * Scalar.sqrt alpha - eps
    let b := alpha / eps
    let xs := bisect 200 a b alpha eps tol ((a + b) / nat 2)
    if sabs x ≤ xs then 0 else sgn x * r2 (sabs x) alpha eps

/-! ### SLOPE: stack-based pool-adjacent-violators, on lists -/

/-- a block of the PAVA stack: first index, last index, sum, mean -/
structure SlopeBlk (α : Type) where
  i0 : Nat
  i1 : Nat
  s : α
  w : α

/-- merge the top block into the ones below while `w[k-1] <= w[k]` (stack is head = top) -/
def slopeMerge (fuel : Nat) (top : SlopeBlk α) (stack : List (SlopeBlk α)) (i : Nat) :
    List (SlopeBlk α) :=
  match fuel, stack with
  | 0, _ => top :: stack
  | _, [] => [top]
  | fuel + 1, b :: rest =>
    if b.w ≤ top.w then
      let s := b.s + top.s
      let nb : SlopeBlk α := { i0 := b.i0, i1 := i, s := s, w := s / nat (i - b.i0 + 1) }
      slopeMerge fuel nb rest i
    else top :: b :: rest

/-- `prox_SLOPE(z, alphas)` for `z` sorted non-increasing, non-negative -/
def prox_SLOPE (z alphas : List α) : List α :=
  let n := z.length
  let zs := List.zip z alphas
  let rec go (i : Nat) (l : List (α × α)) (stack : List (SlopeBlk α)) : List (SlopeBlk α) :=
    match l with
    | [] => stack
    | (zi, ai) :: tl =>
      let s := zi - ai
      let st := slopeMerge (n + 1) { i0 := i, i1 := i, s := s, w := s } stack i
      go (i + 1) tl st
  let blocks := (go 0 zs []).reverse
  blocks.flatMap (fun b =>
    let d := if b.w < 0 then 0 else b.w
    List.replicate (b.i1 - b.i0 + 1) d)

end Skglm
