import Skglm.Model.FISTA
/-
  Model of the L-BFGS wrapper `skglm/solvers/lbfgs.py` (class `LBFGS`, `_solve`) and of the smooth
  penalty it is used with, `L2` of `skglm/penalties/separable.py`.

  ```
  def objective(w):  Xw = X @ w ; return datafit.value(y, w, Xw) + penalty.value(w)
  def d_jac(w):      Xw = X @ w ; return datafit.gradient(X, y, Xw) + penalty.gradient(w)
  def s_jac(w):      Xw = X @ w ; return datafit.gradient_sparse(X.data, X.indptr, X.indices, y, Xw)
                                         + penalty.gradient(w)
  def callback_post_iter(w_k):  p_objs_out.append(objective(w_k))
  w = np.zeros(n_features) if w_init is None else w_init
  jac = s_jac if issparse(X) else d_jac
  result = scipy.optimize.minimize(fun=objective, jac=jac, x0=w, method="L-BFGS-B",
      options=dict(maxiter=self.max_iter, gtol=self.tol, ftol=0.), callback=callback_post_iter)
  if not result.success: warnings.warn(...)
  w = result.x
  stop_crit = norm(result.jac, ord=np.inf)
  return w, np.asarray(p_objs_out), stop_crit
  ```

  **Contract of the external call.**  scipy's iteration is *not* modelled.  What the model assumes
  about `scipy.optimize.minimize(..., method="L-BFGS-B")` is only
    (E1) `result.x` is some point of `ℝ^p` (an arbitrary point here);
    (E2) `result.jac` is `jac(result.x)`, the value of the function passed as `jac` at the returned
         point (checked on the installed scipy 1.18.1 with bitwise equality, for runs stopped by
         `gtol`, by `ftol`, by `maxiter` and at iteration 0);
    (E3) the callback is called with some finite sequence of points (`ScipyResult.cbIterates`).
  Nothing is assumed on how `result.x` relates to `x0`, `maxiter`, `gtol`, nor to the callback points.

  * `l2Value`, `l2Grad`         `L2.value`, `L2.gradient`
  * `DF.offersGradient`         the datafits of the model that have a `gradient` method (the others
                                are rejected by `_validate` with an `AttributeError`)
  * `DF.offersGradientSparse`   … that have a `gradient_sparse` method (`custom_checks`)
  * `DF.gradientSparse`         `datafit.gradient_sparse(data, indptr, indices, y, Xw)`
  * `CSC.matVec`                `X @ w` for a scipy CSC matrix
  * `LbfgsProb`                 the data of the problem
  * `lbfgsObjective`, `lbfgsJac`            `objective`, `d_jac`
  * `lbfgsObjectiveSparse`, `lbfgsJacSparse` `objective`, `s_jac` for CSC input
  * `supNorm`, `lbfgsStop`      `norm(·, ord=np.inf)`, `stop_crit`
  * `lbfgsCallback`, `lbfgsHistory`, `lbfgsReturn`   the callback, `p_objs_out`, the returned triple
-/
namespace Skglm
variable {α : Type} [Scalar α]
variable {n p : Nat}

/-! ### the `L2` penalty -/

/-- `L2.value(w) = self.alpha * (w ** 2).sum() / 2` (`*` and `/` associate to the left) -/
def l2Value (alpha : α) (w : Fin p → α) : α := alpha * vsum (fun j => w j * w j) / nat 2

/-- `L2.gradient(w) = self.alpha * w` -/
def l2Grad (alpha : α) (w : Fin p → α) : Fin p → α := fun j => alpha * w j

/-! ### datafit accessors used by the wrapper -/

namespace DF

/-- the datafits of the model with a `gradient` method (`_datafit_required_attr = ("gradient",)`):
    Quadratic, WeightedQuadratic, Logistic, Poisson (and Cox, modelled apart in `Model/Cox.lean`).
    Huber, Gamma and QuadraticSVC have none: `LBFGS.solve` raises `AttributeError` for them.
    (`DF.gradient` is total: for these three it is FISTA's `construct_grad` fallback.) -/
def offersGradient (d : DF α) : Bool :=
  match d with
  | quadratic | wquadratic | logistic | poisson => true
  | huber _ | gamma | svc => false

/-- … with a `gradient_sparse` method: Logistic only (and Cox).  `LBFGS.custom_checks` raises
    `AttributeError` for CSC input with Quadratic, WeightedQuadratic and Poisson. -/
def offersGradientSparse (d : DF α) : Bool :=
  match d with
  | logistic => true
  | _ => false

/-- `datafit.gradient_sparse(X.data, X.indptr, X.indices, y, Xw)`.
    Logistic: `out[j] = _sparse_xj_dot(X_data, X_indptr, X_indices, j, raw_grad)` with
    `raw_grad = self.raw_grad(y, Xw)`, i.e. the loop `res += X_data[i] * raw_grad[X_indices[i]]`
    over the stored entries of column `j`.
    The other datafits have no such method (the call is never reached: `offersGradientSparse`);
    the vector of `gradient_scalar_sparse` stands in for them so that the function is total. -/
def gradientSparse (d : DF α) (M : CSC α n p) (sw y u : Fin n → α) : Fin p → α :=
  match d with
  | logistic => mat (fun j => M.colDot j ((logistic : DF α).rawGrad sw y u))
  | d => mat (fun j => d.gradScalarSparse M sw y u j)

end DF

namespace CSC

/-- `X @ w` for a scipy CSC matrix (`csc_matvec`): `Xw = zeros(n)`, then column after column
    `Xw[indices[k]] += data[k] * w[j]` over the stored entries of column `j` -/
def matVec (M : CSC α n p) (w : Fin p → α) : Fin n → α :=
  mat (Fin.foldl p (fun u j => M.colAxpy j (w j) u) (fun _ => 0))

end CSC

/-! ### the wrapper -/

structure LbfgsProb (α : Type) (n p : Nat) where
  X : Fin n → Fin p → α
  y : Fin n → α
  /-- sample weights (ones unless the datafit is `wquadratic`) -/
  sw : Fin n → α
  df : DF α
  /-- `penalty = L2(alpha)` -/
  alpha : α

/-- `np.abs(g).max()`, i.e. `numpy.linalg.norm(g, ord=np.inf)`; the entries are non-negative, so
    starting the running maximum at `0` changes nothing for `p ≥ 1` (for `p = 0` numpy raises
    `ValueError: zero-size array to reduction operation maximum`) -/
def supNorm (g : Fin p → α) : α := Fin.foldl p (fun acc j => smax acc (sabs (g j))) 0

namespace LbfgsProb

/-- `Xw = X @ w` (dense `X`) -/
def Xv (P : LbfgsProb α n p) (w : Fin p → α) : Fin n → α := mat (fun i => dot (P.X i) w)

/-- `objective(w) = datafit.value(y, w, X @ w) + penalty.value(w)`: the `fun` handed to scipy -/
def lbfgsObjective (P : LbfgsProb α n p) (w : Fin p → α) : α :=
  P.df.value P.sw P.y (P.Xv w) w + l2Value P.alpha w

/-- `d_jac(w) = datafit.gradient(X, y, X @ w) + penalty.gradient(w)`: the `jac` handed to scipy for
    dense input -/
def lbfgsJac (P : LbfgsProb α n p) (w : Fin p → α) : Fin p → α :=
  let g := P.df.gradient P.X P.sw P.y (P.Xv w)
  mat (fun j => g j + l2Grad P.alpha w j)

/-- `objective(w)` when `X` is the CSC matrix `M` (`X @ w` is the sparse product) -/
def lbfgsObjectiveSparse (P : LbfgsProb α n p) (M : CSC α n p) (w : Fin p → α) : α :=
  P.df.value P.sw P.y (M.matVec w) w + l2Value P.alpha w

/-- `s_jac(w) = datafit.gradient_sparse(X.data, X.indptr, X.indices, y, X @ w) + penalty.gradient(w)`:
    the `jac` handed to scipy for CSC input `M` (`P.X` is not read) -/
def lbfgsJacSparse (P : LbfgsProb α n p) (M : CSC α n p) (w : Fin p → α) : Fin p → α :=
  let g := P.df.gradientSparse M P.sw P.y (M.matVec w)
  mat (fun j => g j + l2Grad P.alpha w j)

/-- `stop_crit = norm(result.jac, ord=np.inf)` with `result.jac = jac(result.x)` (contract (E2)) and
    `w = result.x`, dense input -/
def lbfgsStop (P : LbfgsProb α n p) (w : Fin p → α) : α := supNorm (P.lbfgsJac w)

/-- the same for CSC input -/
def lbfgsStopSparse (P : LbfgsProb α n p) (M : CSC α n p) (w : Fin p → α) : α :=
  supNorm (P.lbfgsJacSparse M w)

/-- `callback_post_iter(w_k)`: `p_objs_out.append(objective(w_k))` -/
def lbfgsCallback (P : LbfgsProb α n p) (hist : List α) (wk : Fin p → α) : List α :=
  hist ++ [P.lbfgsObjective wk]

/-- `p_objs_out` after the callback has been called with the points `iters`, in this order,
    starting from `p_objs_out = []` -/
def lbfgsHistory (P : LbfgsProb α n p) (iters : List (Fin p → α)) : List α :=
  iters.foldl P.lbfgsCallback []

end LbfgsProb

/-- what the model reads from the external call: `result.x` and the points the callback received -/
structure ScipyResult (α : Type) (p : Nat) where
  x : Fin p → α
  cbIterates : List (Fin p → α)

/-- the triple returned by `_solve` (dense input): `result.x`, `np.asarray(p_objs_out)`, `stop_crit` -/
def LbfgsProb.lbfgsReturn (P : LbfgsProb α n p) (r : ScipyResult α p) :
    (Fin p → α) × List α × α :=
  (r.x, P.lbfgsHistory r.cbIterates, P.lbfgsStop r.x)

end Skglm
