import Skglm.Model.BlockPenalties
import Skglm.Model.CD
/-
  Model of the block coordinate-descent solver `skglm/solvers/group_bcd.py` (GroupBCD) on the
  group datafits of `skglm/datafits/group.py`: the moves the solver is built from.

  * `bcdStep` / `bcdEpoch`   one pass of the loop body of `_bcd_epoch` for a group / a whole epoch
  * `interceptMove`          the intercept update after each epoch
  * `extrapPoint`            the Anderson-extrapolated point for given coefficients (whole vectors)
  * `acceptMove`             guarded acceptance `p_obj_acc < p_obj`
  * `penValue`, `objective`  `penalty.value(w)` as a sum over groups, `datafit.value + penalty.value`

  A group is the list of its feature indices, in the group's own order (arbitrary, possibly
  non-contiguous).  The per-group constants returned by `datafit.get_lipschitz` are a parameter of
  the problem (`lips`): the code obtains them from `numpy.linalg.norm(·, ord=2)`.
  The state is the `CDState` of the coordinate-descent model (coefficients, intercept, model fit).
-/
namespace Skglm
variable {α : Type} [Scalar α]

structure GrpProb (α : Type) (n p : Nat) where
  X : Fin n → Fin p → α
  y : Fin n → α
  sw : Fin n → α
  df : DF α
  pen : BlkPen α
  /-- `grp_indices[grp_ptr[g] : grp_ptr[g+1]]` for every group `g` -/
  groups : List (List (Fin p))
  /-- `penalty.weights` (`weights_groups` for the sparse group lasso): one per group -/
  wgs : List α
  /-- `weights_features` of the sparse group lasso (ignored by the other penalties) -/
  wfs : Fin p → α
  /-- `lipschitz = datafit.get_lipschitz(X, y)`: one constant per group -/
  lips : List α
  fitInt : Bool

variable {n p : Nat}

namespace GrpProb

/-- the entries of `w` on the features of a group, in the group's order: `w[grp_g_indices]` -/
def block (w : Fin p → α) (grp : List (Fin p)) : Fin grp.length → α := fun i => w (grp.get i)

/-- `w[grp_g_indices] = new` (numpy fancy assignment: in order, the last write wins) -/
def assign (w : Fin p → α) (grp : List (Fin p)) (new : Fin grp.length → α) : Fin p → α :=
  Fin.foldl grp.length (fun acc i => fun j => if j = grp.get i then new i else acc j) w

/-- the loop `for idx, j in enumerate(grp_g_indices): if old_w_g[idx] != w[j]: Xw += (w[j] - old_w_g[idx]) * X[:, j]` -/
def updXw (X : Fin n → Fin p → α) (grp : List (Fin p)) (old : Fin grp.length → α) (w' : Fin p → α)
    (Xw : Fin n → α) : Fin n → α :=
  Fin.foldl grp.length (fun acc i =>
    if eqb (old i) (w' (grp.get i)) then acc
    else mat (fun r => acc r + (w' (grp.get i) - old i) * X r (grp.get i))) Xw

/-- one pass of the loop body of `_bcd_epoch` for the group of index `g`
    (a group index without group, constant or weight leaves the state unchanged) -/
def bcdStep (P : GrpProb α n p) (s : CDState α n p) (g : Nat) : CDState α n p :=
  match P.groups[g]?, P.lips[g]?, P.wgs[g]? with
  | some grp, some L, some wg =>
    if eqb L 0 then s
    else
      let old : Fin grp.length → α := mat (block s.w grp)
      let grad : Fin grp.length → α :=
        mat (fun i => P.df.gradScalar P.X P.sw P.y s.Xw (grp.get i))
      let new : Fin grp.length → α :=
        mat (P.pen.proxBlk wg (block P.wfs grp) (fun i => old i - grad i / L) (1 / L))
      let w' : Fin p → α := mat (assign s.w grp new)
      { w := w', b := s.b, Xw := updXw P.X grp old w' s.Xw }
  | _, _, _ => s

/-- `_bcd_epoch(X, y, w, Xw, lipschitz, datafit, penalty, ws)` -/
def bcdEpoch (P : GrpProb α n p) (s : CDState α n p) (ws : List Nat) : CDState α n p :=
  ws.foldl P.bcdStep s

/-- `w[-1] -= datafit.intercept_update_step(y, Xw); Xw += (w[-1] - intercept_old)` -/
def interceptMove (P : GrpProb α n p) (s : CDState α n p) : CDState α n p :=
  let b' := s.b - P.df.interceptStep P.sw P.y s.Xw
  { w := s.w, b := b', Xw := mat (fun i => s.Xw i + (b' - s.b)) }

/-- summand of `penalty.value(w)` for the group of index `g` (weight `0` if none is given) -/
def penTerm (P : GrpProb α n p) (w : Fin p → α) (g : Fin P.groups.length) : Ext α :=
  let grp := P.groups.get g
  P.pen.penBlk (P.wgs.getD g.1 0) (block P.wfs grp) (block w grp)

/-- `penalty.value(w)`: sum over the groups, in order -/
def penValue (P : GrpProb α n p) (w : Fin p → α) : Ext α := esum (P.penTerm w)

/-- `datafit.value(y, w, Xw) + penalty.value(w[:n_features])` -/
def objective (P : GrpProb α n p) (s : CDState α n p) : Ext α :=
  Ext.add (.fin (P.df.value P.sw P.y s.Xw s.w)) (P.penValue s.w)

/-- the Anderson-extrapolated point: the affine combination, with coefficients `c k`, of the
    buffered iterates `buf k` — whole vectors (coefficients, intercept and model fit) -/
def extrapPoint {K : Nat} (buf : Fin K → CDState α n p) (c : Fin K → α) : CDState α n p :=
  { w := mat (fun j => vsum (fun k => c k * (buf k).w j))
    b := vsum (fun k => c k * (buf k).b)
    Xw := mat (fun i => vsum (fun k => c k * (buf k).Xw i)) }

/-- guarded acceptance: take the extrapolated point iff its objective is strictly smaller -/
def acceptMove (P : GrpProb α n p) (s acc : CDState α n p) : CDState α n p :=
  if Ext.lt (P.objective acc) (P.objective s) then acc else s

end GrpProb
end Skglm
