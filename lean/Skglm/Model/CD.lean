import Skglm.Model.Penalties
import Skglm.Model.Datafits
/-
  Model of the coordinate-descent solver `skglm/solvers/anderson_cd.py` (and of the helpers in
  `skglm/solvers/common.py`, `skglm/utils/anderson.py`): the moves the solver is built from.

  * `cdStep` / `cdEpoch`            one coordinate update / `_cd_epoch` over a working set
  * `cdStepSparse` / `cdEpochSparse` the CSC variants
  * `interceptMove`                 the intercept update after each epoch
  * `extrapPoint`                   the Anderson-extrapolated point for given coefficients
  * `acceptMove`                    guarded acceptance `p_obj_acc < p_obj`
  * `scores`, `stopCrit`            the optimality test of the outer loop
  * `wsSize`                        size of the working set
  * `objective`                     `datafit.value + penalty.value` (intercept unpenalised)
-/
namespace Skglm
variable {α : Type} [Scalar α]

structure CDProb (α : Type) (n p : Nat) where
  X : Fin n → Fin p → α
  y : Fin n → α
  sw : Fin n → α
  df : DF α
  pen : SepPen α
  wts : Fin p → α
  fitInt : Bool

structure CDState (α : Type) (n p : Nat) where
  w : Fin p → α
  b : α
  Xw : Fin n → α

variable {n p : Nat}

namespace CDProb

/-- `stepsize = 1/lc[j] if lc[j] != 0 else 1000` -/
def stepsize (lc : α) : α := if nz lc then 1 / lc else nat 1000

/-- Lipschitz constants `datafit.get_lipschitz(X, y)` -/
def lips (P : CDProb α n p) : Fin p → α := mat (fun j => P.df.lipschitz P.X P.sw j)

/-- one pass of the loop body of `_cd_epoch` for coordinate `j` -/
def cdStep (P : CDProb α n p) (s : CDState α n p) (j : Fin p) : CDState α n p :=
  let lc := P.df.lipschitz P.X P.sw j
  let st := stepsize lc
  let old := s.w j
  let g := P.df.gradScalar P.X P.sw P.y s.Xw j
  let new := P.pen.prox1 (P.wts j) (old - g * st) st
  if eqb new old then s
  else
    { w := mat (fun k => if k = j then new else s.w k)
      b := s.b
      Xw := mat (fun i => s.Xw i + (new - old) * P.X i j) }

/-- `_cd_epoch(X, y, w, Xw, lc, datafit, penalty, ws)` -/
def cdEpoch (P : CDProb α n p) (s : CDState α n p) (ws : List (Fin p)) : CDState α n p :=
  ws.foldl P.cdStep s

/-- loop body of `_cd_epoch_sparse` for coordinate `j` on the CSC matrix `M` -/
def cdStepSparse (P : CDProb α n p) (M : CSC α n p) (s : CDState α n p) (j : Fin p) : CDState α n p :=
  let lc := P.df.lipschitzSparse M P.sw j
  let st := stepsize lc
  let old := s.w j
  let g := P.df.gradScalarSparse M P.sw P.y s.Xw j
  let new := P.pen.prox1 (P.wts j) (old - g * st) st
  let diff := new - old
  if eqb diff 0 then s
  else
    { w := mat (fun k => if k = j then new else s.w k)
      b := s.b
      Xw := mat (M.colAxpy j diff s.Xw) }

def cdEpochSparse (P : CDProb α n p) (M : CSC α n p) (s : CDState α n p) (ws : List (Fin p)) :
    CDState α n p :=
  ws.foldl (P.cdStepSparse M) s

/-- `w[-1] -= datafit.intercept_update_step(y, Xw); Xw += (w[-1] - intercept_old)` -/
def interceptMove (P : CDProb α n p) (s : CDState α n p) : CDState α n p :=
  let b' := s.b - P.df.interceptStep P.sw P.y s.Xw
  { w := s.w, b := b', Xw := mat (fun i => s.Xw i + (b' - s.b)) }

/-- `datafit.value(y, w, Xw) + penalty.value(w[:n_features])` (`inf` if the penalty is) -/
def objective (P : CDProb α n p) (s : CDState α n p) : Ext α :=
  Ext.add (.fin (P.df.value P.sw P.y s.Xw s.w)) (P.pen.value P.wts s.w)

/-- gradient of the datafit at the current model fit, all features -/
def grad (P : CDProb α n p) (s : CDState α n p) : Fin p → α :=
  mat (fun j => P.df.gradScalar P.X P.sw P.y s.Xw j)

/-- score of feature `j`: `subdiff_distance` entry (`fixpoint = false`) or `dist_fix_point_cd` entry -/
def score (P : CDProb α n p) (fixpoint : Bool) (s : CDState α n p) (g : α) (j : Fin p) : Ext α :=
  if fixpoint then
    let lc := P.df.lipschitz P.X P.sw j
    if nz lc then
      let st := 1 / lc
      .fin (sabs (s.w j - P.pen.prox1 (P.wts j) (s.w j - st * g) st))
    else .fin 0
  else P.pen.sd1 (P.wts j) (s.w j) g

/-- `intercept_opt` -/
def interceptOpt (P : CDProb α n p) (s : CDState α n p) : α :=
  if P.fitInt then sabs (P.df.interceptStep P.sw P.y s.Xw) else 0

/-- `stop_crit = max(np.max(opt), intercept_opt)` over all features -/
def stopCrit (P : CDProb α n p) (fixpoint : Bool) (s : CDState α n p) : Ext α :=
  let g := P.grad s
  let m := Fin.foldl p (fun acc j => Ext.max acc (P.score fixpoint s (g j) j)) (.fin 0)
  Ext.max m (.fin (P.interceptOpt s))

/-- number of `true`s -/
def countB (f : Fin p → Bool) : Nat := Fin.foldl p (fun acc j => if f j then acc + 1 else acc) 0

/-- `ws_size = max(min(p0 + n_unpen, n_features), min(2 * gsupp_size - n_unpen, n_features))`
    (integer arithmetic of the code; the subtraction is on Python ints and may go negative) -/
def wsSize (P : CDProb α n p) (p0 : Nat) (s : CDState α n p) : Nat :=
  let nUnpen : Int := countB (fun j => !(P.pen.isPen1 (P.wts j)))
  let gs : Int := countB (fun j => P.pen.gsupp1 (s.w j))
  let a : Int := min ((p0 : Int) + nUnpen) (p : Int)
  let b : Int := min (2 * gs - nUnpen) (p : Int)
  (max a b).toNat

/-- the Anderson-extrapolated point: coefficients `c k` on the buffered iterates `buf k`
    (columns `1..K` of `arr_w_`, `arr_Xw_`); coordinates outside the working set keep the current
    value (they are not touched by the inner loop). -/
def extrapPoint {K : Nat} (inWs : Fin p → Bool) (cur : CDState α n p)
    (buf : Fin K → CDState α n p) (c : Fin K → α) : CDState α n p :=
  { w := mat (fun j => if inWs j then vsum (fun k => c k * (buf k).w j) else cur.w j)
    b := vsum (fun k => c k * (buf k).b)
    Xw := mat (fun i => vsum (fun k => c k * (buf k).Xw i)) }

/-- guarded acceptance: take the extrapolated point iff its objective is strictly smaller -/
def acceptMove (P : CDProb α n p) (s acc : CDState α n p) : CDState α n p :=
  if Ext.lt (P.objective acc) (P.objective s) then acc else s

end CDProb
end Skglm
