import Skglm.Model.ProxNewton
/-
  Model of `_descent_direction` of `skglm/solvers/prox_newton.py` (dense version): the inner
  coordinate descent on the quadratic model of the datafit that PRODUCES the direction handed to
  the backtracking line search of `Skglm/Model/ProxNewton.lean`.

      raw_hess = datafit.raw_hessian(y, Xw_epoch)
      lipschitz_ws[idx] = raw_hess @ X[:, j] ** 2
      X_delta_w_ws = 0;  w_ws = w_epoch[ws_intercept]
      lipschitz_intercept = sum(raw_hess);  grad_intercept = sum(raw_grad(y, Xw_epoch))
      for cd_iter in range(MAX_CD_ITER):
          for idx, j in enumerate(ws):            -- `dirStep`
              if lipschitz_ws[idx] == 0: continue
              past_grads[idx] = grad_ws[idx] + X[:, j] @ (raw_hess * X_delta_w_ws)
              old = w_ws[idx];  stepsize = 1 / lipschitz_ws[idx]
              w_ws[idx] = prox_1d(old - stepsize * past_grads[idx], stepsize, j)
              if w_ws[idx] != old: X_delta_w_ws += (w_ws[idx] - old) * X[:, j]
          if fit_intercept:                       -- `dirInterceptStep`
              past_grads_intercept = grad_intercept + raw_hess @ X_delta_w_ws
              old = w_ws[-1]
              if lipschitz_intercept != 0: w_ws[-1] -= past_grads_intercept / lipschitz_intercept
              if w_ws[-1] != old: X_delta_w_ws += w_ws[-1] - old
          if cd_iter % 5 == 0 and stop_crit <= tol: break
      return w_ws - w_epoch[ws_intercept], X_delta_w_ws, lipschitz_ws

  * The trial coefficients are kept on all `p` features (`DirState.w`); they are `w_epoch` outside
    the working set, which the loop never touches.  The code keeps one trial coefficient per
    *position* of `ws` (`w_ws[idx]`); this is the same for a working set without repeated
    features, which is what `np.argpartition` in `_solve` produces (a repeated feature would have
    two independent trial coefficients in the code, one shared coefficient here).
  * `grad_ws` is an argument of the Python function; `_solve` always passes
    `_construct_grad(X, y, w, Xw, datafit, ws)` evaluated at the epoch point (the value returned by
    the previous line search, or `grad[ws]` at the first prox-Newton iteration), i.e. `pnGrad`.
  * `past_grads` only feeds the stopping criterion.  The early `break` (tested after the epochs
    `1, 6, 11, 16`) is abstracted: the number of epochs performed is a parameter, any number
    `≤ MAX_CD_ITER` is a possible outcome (`descentDirection` caps it).
  * Everything that is constant during the loop is computed once, in `DirCtx`, as the code does.
-/
namespace Skglm
variable {α : Type} [Scalar α] {n p : Nat}

/-- state of the inner coordinate descent: trial coefficients `w_ws` (scattered on all features,
    `w_epoch` outside the working set), trial intercept `w_ws[-1]`, `XdW = X_delta_w_ws` -/
structure DirState (α : Type) (n p : Nat) where
  w : Fin p → α
  b : α
  XdW : Fin n → α

/-- the loop constants of `_descent_direction` -/
structure DirCtx (α : Type) (n p : Nat) where
  /-- `raw_hess = datafit.raw_hessian(y, Xw_epoch)` -/
  h : Fin n → α
  /-- `grad_ws` (on all features) -/
  g : Fin p → α
  /-- `lipschitz_ws` (on all features) -/
  L : Fin p → α
  /-- `lipschitz_intercept = np.sum(raw_hess)` -/
  Lb : α
  /-- `grad_intercept = np.sum(datafit.raw_grad(y, Xw_epoch))` -/
  gb : α

/-- `MAX_CD_ITER` -/
def maxCdIter : Nat := 20

namespace CDProb

/-- `lipschitz_ws[idx] = raw_hess @ X[:, j] ** 2` with `raw_hess = datafit.raw_hessian(y, Xw)` -/
def hessLips (P : CDProb α n p) (Xw : Fin n → α) (j : Fin p) : α :=
  vsum (fun i => P.df.rawHess P.sw P.y Xw i * (P.X i j * P.X i j))

/-- the constants computed before the loop, at the epoch point `s0` -/
def dirCtx (P : CDProb α n p) (s0 : CDState α n p) : DirCtx α n p :=
  let h := mat (P.df.rawHess P.sw P.y s0.Xw)
  { h := h
    g := P.pnGrad s0.Xw
    L := mat (fun j => vsum (fun i => h i * (P.X i j * P.X i j)))
    Lb := vsum h
    gb := vsum (P.df.rawGrad P.sw P.y s0.Xw) }

/-- `X_delta_w_ws = np.zeros(n); w_ws = w_epoch[ws_intercept]` -/
def dirInit (s0 : CDState α n p) : DirState α n p :=
  { w := s0.w, b := s0.b, XdW := fun _ => 0 }

/-- loop body of `_descent_direction` for the feature `j` of the working set -/
def dirStep (P : CDProb α n p) (c : DirCtx α n p) (s : DirState α n p) (j : Fin p) :
    DirState α n p :=
  -- `if lipschitz_ws[idx] == 0: continue`
  if eqb (c.L j) 0 then s
  else
    -- `past_grads[idx] = grad_ws[idx] + X[:, j] @ (raw_hess * X_delta_w_ws)`
    let pg := c.g j + vsum (fun i => P.X i j * (c.h i * s.XdW i))
    let old := s.w j
    let st := 1 / c.L j
    let new := P.pen.prox1 (P.wts j) (old - st * pg) st
    -- `w_ws[idx] = ...` is written unconditionally
    let w' := mat (fun k => if k = j then new else s.w k)
    -- `if w_ws[idx] != old_w_idx: X_delta_w_ws += (w_ws[idx] - old_w_idx) * X[:, j]`
    if eqb new old then { w := w', b := s.b, XdW := s.XdW }
    else { w := w', b := s.b, XdW := mat (fun i => s.XdW i + (new - old) * P.X i j) }

/-- the `if fit_intercept:` block; since repair 3e1a3d1 the step is skipped when
    `lipschitz_intercept == 0` (before, the division was not guarded) -/
def dirInterceptStep (c : DirCtx α n p) (s : DirState α n p) : DirState α n p :=
  -- `past_grads_intercept = grad_intercept + raw_hess @ X_delta_w_ws`
  let pg := c.gb + vsum (fun i => c.h i * s.XdW i)
  -- `if lipschitz_intercept != 0: w_ws[-1] -= past_grads_intercept / lipschitz_intercept`
  let b' := if eqb c.Lb 0 then s.b else s.b - pg / c.Lb
  -- `if w_ws[-1] != old_intercept: X_delta_w_ws += w_ws[-1] - old_intercept`
  if eqb b' s.b then { w := s.w, b := b', XdW := s.XdW }
  else { w := s.w, b := b', XdW := mat (fun i => s.XdW i + (b' - s.b)) }

/-- one iteration of `for cd_iter in range(MAX_CD_ITER)`: the features of `ws` in order, then the
    intercept -/
def dirEpoch (P : CDProb α n p) (c : DirCtx α n p) (ws : List (Fin p)) (s : DirState α n p) :
    DirState α n p :=
  let s' := ws.foldl (P.dirStep c) s
  if P.fitInt then dirInterceptStep c s' else s'

/-- `k` iterations of the `cd_iter` loop -/
def dirLoop (P : CDProb α n p) (c : DirCtx α n p) (ws : List (Fin p)) :
    Nat → DirState α n p → DirState α n p
  | 0, s => s
  | k + 1, s => dirLoop P c ws k (P.dirEpoch c ws s)

/-- the returned `(w_ws - w_epoch[ws_intercept], X_delta_w_ws)` as a line-search direction -/
def direction (P : CDProb α n p) (s0 : CDState α n p) (s : DirState α n p) : PNDir α n p :=
  { dw := mat (fun j => s.w j - s0.w j)
    db := if P.fitInt then s.b - s0.b else 0
    Xd := s.XdW }

/-- `_descent_direction(X, y, w_epoch, Xw_epoch, fit_intercept, grad_ws, datafit, penalty, ws, …)`
    when the loop performs `k` epochs (`min k MAX_CD_ITER`: the loop never runs longer; the code
    leaves it after epoch `1, 6, 11, 16` if the criterion is met, else after epoch `20`) -/
def descentDirection (P : CDProb α n p) (s0 : CDState α n p) (ws : List (Fin p)) (k : Nat) :
    PNDir α n p :=
  P.direction s0 (P.dirLoop (P.dirCtx s0) ws (min k maxCdIter) (dirInit s0))

/-- the third returned value `lipschitz_ws` (used by the `fixpoint` criterion of `_solve`) -/
def descentLips (P : CDProb α n p) (s0 : CDState α n p) : Fin p → α := (P.dirCtx s0).L

/-- one prox-Newton iteration of `_solve`: direction, then backtracking line search
    (`fuel = MAX_BACKTRACK_ITER`) -/
def pnIteration (fuel k : Nat) (P : CDProb α n p) (s0 : CDState α n p) (ws : List (Fin p)) :
    CDState α n p :=
  P.backtrack fuel s0 (P.descentDirection s0 ws k)

end CDProb
end Skglm
