import Skglm.Spec.Solver
import Skglm.Proofs.Subdiff
import Skglm.Properties.C08
/-
  C19 — degenerate data: an all-zero column of the design.  The gradient of the datafit in that
  coordinate vanishes, its Lipschitz constant is `0`, the coordinate step takes the code's
  `stepsize = 1000` branch (no division by zero) and leaves a zero coefficient at zero, and a
  certified point has a zero coefficient there as soon as the ℓ1 level exceeds the tolerance.
-/
namespace Skglm.C19
open Skglm Skglm.Spec Skglm.Proofs
variable {n p : Nat}

/-! ### 1. gradient and Lipschitz constant of a null column -/

theorem zero_column_gradient (P : CDProb ℝ n p) (u : Fin n → ℝ) (j : Fin p)
    (hcol : ∀ i, P.X i j = 0) :
    P.df.gradScalar P.X P.sw P.y u j = P.df.lin ∧ P.df.lipschitz P.X P.sw j = 0 := by
  constructor
  · simp only [DF.gradScalar, vsum_eq, hcol, zero_mul, Finset.sum_const_zero, zero_add]
  · unfold DF.lipschitz
    cases P.df.curvBound with
    | none => rfl
    | some c =>
      simp only [vsum_eq, hcol, mul_zero, Finset.sum_const_zero, zero_mul, zero_div]

/-- the coefficient of `Σ_j w_j` is zero for every datafit but the SVC dual -/
theorem lin_eq_zero (d : DF ℝ) (h : d ≠ .svc) : d.lin = 0 := by
  cases d <;> first | rfl | exact absurd rfl h

/-! ### 4 (first half). the step size never divides by zero -/

theorem stepsize_eq (lc : ℝ) : CDProb.stepsize lc = if lc ≠ 0 then 1 / lc else 1000 := by
  unfold CDProb.stepsize
  by_cases h : lc = 0
  · have : nz lc = false := by
      cases hn : nz lc with
      | false => rfl
      | true => exact absurd h ((nz_iff lc).1 hn)
    rw [this, if_neg (not_not.mpr h)]
    simp
  · rw [(nz_iff lc).2 h, if_pos h, if_pos rfl]

theorem stepsize_zero : CDProb.stepsize (0 : ℝ) = 1000 := by
  rw [stepsize_eq]; simp

theorem stepsize_pos_of_nonneg (lc : ℝ) (h : 0 ≤ lc) : 0 < CDProb.stepsize lc := by
  rw [stepsize_eq]
  split_ifs with h0
  · exact one_div_pos.2 (lt_of_le_of_ne h (Ne.symm h0))
  · norm_num

/-! ### 2. a coordinate step on a null column keeps a zero coefficient -/

/-- sparsity-inducing penalties with parameters in their documented range (for this coordinate) -/
def SparsityPen (pn : SepPen ℝ) (wt : ℝ) : Prop :=
  match pn with
  | .l1 a _ => 0 ≤ a
  | .wl1 a _ => 0 ≤ a ∧ 0 ≤ wt
  | .l1l2 a r _ => 0 ≤ a ∧ 0 ≤ r
  | .mcp a _ _ => 0 ≤ a
  | .wmcp a _ _ => 0 ≤ a ∧ 0 ≤ wt
  | _ => False

theorem ST_zero (u : ℝ) (pos : Bool) (hu : 0 ≤ u) : ST (0 : ℝ) u pos = 0 := by
  unfold ST
  rw [if_neg (not_lt.mpr hu), if_neg (fun h => by linarith [h.1])]

/-- the prox of a sparsity penalty maps `0` to `0`, for every step -/
theorem prox1_zero (pn : SepPen ℝ) (wt st : ℝ) (h : SparsityPen pn wt) (hst : 0 ≤ st) :
    pn.prox1 wt 0 st = 0 := by
  cases pn with
  | l1 a pos =>
    have ha : 0 ≤ a := h
    exact ST_zero _ pos (mul_nonneg ha hst)
  | wl1 a pos =>
    obtain ⟨ha, hwt⟩ : 0 ≤ a ∧ 0 ≤ wt := h
    exact ST_zero _ pos (mul_nonneg (mul_nonneg ha hst) hwt)
  | l1l2 a r pos =>
    obtain ⟨ha, hr⟩ : 0 ≤ a ∧ 0 ≤ r := h
    show ST (0 : ℝ) (r * a * st) pos / _ = 0
    rw [ST_zero _ pos (mul_nonneg (mul_nonneg hr ha) hst), zero_div]
  | mcp a g pos =>
    have ha : 0 ≤ a := h
    show prox_MCP (0 : ℝ) st a g pos 1 = 0
    unfold prox_MCP
    simp only [sabs_eq, abs_zero]
    rw [if_pos (Or.inl (mul_nonneg ha (by linarith)))]
  | wmcp a g pos =>
    obtain ⟨ha, hwt⟩ : 0 ≤ a ∧ 0 ≤ wt := h
    show prox_MCP (0 : ℝ) st a g pos wt = 0
    unfold prox_MCP
    simp only [sabs_eq, abs_zero]
    rw [if_pos (Or.inl (mul_nonneg ha (mul_nonneg hwt hst)))]
  | scad a g => exact absurd h (by simp [SparsityPen])
  | box a => exact absurd h (by simp [SparsityPen])
  | l05 a => exact absurd h (by simp [SparsityPen])
  | l23 a => exact absurd h (by simp [SparsityPen])
  | logsum a e => exact absurd h (by simp [SparsityPen])
  | pos => exact absurd h (by simp [SparsityPen])

/-- on an all-zero column (datafit without linear term, sparsity penalty) a zero coefficient stays
    zero and the whole state is unchanged: the code's `stepsize = 1000` branch computes
    `prox(0 − 0·1000, 1000) = 0` -/
theorem cd_step_zero_column_keeps_zero (P : CDProb ℝ n p) (s : CDState ℝ n p) (j : Fin p)
    (hcol : ∀ i, P.X i j = 0) (hlin : P.df.lin = 0) (hpen : SparsityPen P.pen (P.wts j))
    (hw : s.w j = 0) : P.cdStep s j = s := by
  obtain ⟨hG, hL⟩ := zero_column_gradient P s.Xw j hcol
  have hnew : P.pen.prox1 (P.wts j)
      (s.w j - P.df.gradScalar P.X P.sw P.y s.Xw j * CDProb.stepsize (P.df.lipschitz P.X P.sw j))
      (CDProb.stepsize (P.df.lipschitz P.X P.sw j)) = s.w j := by
    rw [hG, hL, hw, hlin, stepsize_zero, show (0 : ℝ) - 0 * 1000 = 0 by ring]
    exact prox1_zero _ _ _ hpen (by norm_num)
  unfold CDProb.cdStep
  dsimp only
  rw [if_pos ((eqb_iff _ _).2 hnew)]

/-! ### 4 (second half). the fixed-point score of a null column -/

theorem fixpoint_score_zero_column (P : CDProb ℝ n p) (s : CDState ℝ n p) (g : ℝ) (j : Fin p)
    (hcol : ∀ i, P.X i j = 0) : P.score true s g j = .fin 0 := by
  obtain ⟨_, hL⟩ := zero_column_gradient P s.Xw j hcol
  have hnz : nz (0 : ℝ) = false := by
    cases hn : nz (0 : ℝ) with
    | false => rfl
    | true => exact absurd rfl ((nz_iff 0).1 hn)
  unfold CDProb.score
  simp only [if_true, hL, hnz, Bool.false_eq_true, if_false]

/-- `stepsize` and the fixed-point score never divide by zero -/
theorem no_division_in_cd_step (P : CDProb ℝ n p) (s : CDState ℝ n p) (g : ℝ) (j : Fin p) :
    (∀ lc : ℝ, CDProb.stepsize lc = if lc ≠ 0 then 1 / lc else 1000) ∧
    ((∀ i, P.X i j = 0) → P.score true s g j = .fin 0) :=
  ⟨stepsize_eq, fixpoint_score_zero_column P s g j⟩

/-! ### 3. a certificate forces a zero coefficient on a null column -/

/-- a regular sub-gradient within `tol` of `0` bounds the score at zero gradient by `tol` -/
theorem score_le_of_subgrad {φ : ℝ → Option ℝ} {w g tol : ℝ} {d : Ext ℝ}
    (hd : IsDistToSubdiff φ w 0 d) (hg : IsRegSubgrad φ w g) (hle : |(-0) - g| ≤ tol) :
    ∃ x, d = .fin x ∧ x ≤ tol := by
  cases d with
  | inf => exact absurd hg (hd g)
  | fin x => exact ⟨x, rfl, (hd.2 g hg).trans hle⟩

theorem sd1_l1_away (a : ℝ) (pos : Bool) (wt w : ℝ) (ha : 0 ≤ a) (hw : w ≠ 0) :
    (SepPen.l1 a pos).sd1 wt w 0 = .inf ∨ (SepPen.l1 a pos).sd1 wt w 0 = .fin a := by
  have he : eqb w 0 = false := (eqb_false_iff _ _).2 hw
  cases pos with
  | true =>
    simp only [SepPen.sd1, if_true, he, Bool.false_eq_true, if_false]
    by_cases h : w < 0
    · left; rw [if_pos h]
    · right; rw [if_neg h, sabs_eq, zero_add, abs_of_nonneg ha]
  | false =>
    right
    simp only [SepPen.sd1, Bool.false_eq_true, if_false, he, sabs_eq, zero_add]
    rcases SD.sgn_cases hw with h | h <;> rw [h]
    · rw [one_mul, abs_of_nonneg ha]
    · rw [neg_one_mul, abs_neg, abs_of_nonneg ha]

theorem sd1_wl1_away (a : ℝ) (pos : Bool) (wt w : ℝ) (ha : 0 ≤ a * wt) (hw : w ≠ 0) :
    (SepPen.wl1 a pos).sd1 wt w 0 = .inf ∨ (SepPen.wl1 a pos).sd1 wt w 0 = .fin (a * wt) := by
  have he : eqb w 0 = false := (eqb_false_iff _ _).2 hw
  cases pos with
  | true =>
    simp only [SepPen.sd1, if_true, he, Bool.false_eq_true, if_false]
    by_cases h : w < 0
    · left; rw [if_pos h]
    · right; rw [if_neg h, sabs_eq, zero_add, abs_of_nonneg ha]
  | false =>
    right
    simp only [SepPen.sd1, Bool.false_eq_true, if_false, he, sabs_eq, zero_add]
    rcases SD.sgn_cases hw with h | h <;> rw [h]
    · rw [mul_one, abs_of_nonneg ha]
    · rw [mul_neg, mul_one, abs_neg, abs_of_nonneg ha]

theorem sd1_l1l2_away (a r : ℝ) (pos : Bool) (wt w : ℝ) (ha : 0 ≤ a) (hr1 : r ≤ 1)
    (hw : w ≠ 0) :
    (SepPen.l1l2 a r pos).sd1 wt w 0 = .inf ∨
      ∃ x, (SepPen.l1l2 a r pos).sd1 wt w 0 = .fin x ∧ a * r ≤ x := by
  have he : eqb w 0 = false := (eqb_false_iff _ _).2 hw
  have h1r : 0 ≤ 1 - r := by linarith
  cases pos with
  | true =>
    simp only [SepPen.sd1, if_true, he, Bool.false_eq_true, if_false]
    by_cases h : w < 0
    · left; rw [if_pos h]
    · right
      rw [if_neg h, sabs_eq, zero_add]
      refine ⟨_, rfl, le_trans ?_ (le_abs_self _)⟩
      have hw0 : 0 ≤ w := not_lt.mp h
      nlinarith [mul_nonneg ha (mul_nonneg h1r hw0)]
  | false =>
    right
    simp only [SepPen.sd1, Bool.false_eq_true, if_false, he, sabs_eq, zero_add]
    refine ⟨_, rfl, ?_⟩
    rcases lt_or_gt_of_ne hw with h | h
    · rw [sgn_neg h]
      refine le_trans ?_ (neg_le_abs _)
      nlinarith [mul_nonneg ha (mul_nonneg h1r (by linarith : 0 ≤ -w))]
    · rw [sgn_pos h]
      refine le_trans ?_ (le_abs_self _)
      nlinarith [mul_nonneg ha (mul_nonneg h1r h.le)]

/-- ℓ1-type penalties whose level at this coordinate exceeds the tolerance -/
def ZeroForcing (pn : SepPen ℝ) (wt tol : ℝ) : Prop :=
  match pn with
  | .l1 a _ => tol < a
  | .wl1 a _ => 0 ≤ a ∧ 0 ≤ wt ∧ tol < a * wt
  | .l1l2 a r _ => 0 ≤ a ∧ 0 ≤ r ∧ r ≤ 1 ∧ tol < a * r
  | _ => False

/-- on an all-zero column (datafit without linear term), a point certified within `tol` has a zero
    coefficient as soon as the ℓ1 level (`a`, `a·wt`, `a·l1_ratio`) exceeds `tol` -/
theorem certificate_forces_zero_on_null_column (P : CDProb ℝ n p) (w : Fin p → ℝ) (b tol : ℝ)
    (j : Fin p) (hcol : ∀ i, P.X i j = 0) (hlin : P.df.lin = 0)
    (hcert : Certificate P w b tol) (hpen : ZeroForcing P.pen (P.wts j) tol) : w j = 0 := by
  by_contra hw
  obtain ⟨g, hg, hle⟩ := hcert.1 j
  rw [(zero_column_gradient P (linPred P w b) j hcol).1, hlin] at hle
  have htol : 0 ≤ tol := (abs_nonneg _).trans hle
  cases hp : P.pen with
  | l1 a pos =>
    rw [hp] at hg hpen
    have hta : tol < a := hpen
    have ha : 0 ≤ a := by linarith
    obtain ⟨x, hx, hxt⟩ := score_le_of_subgrad (C08.sd_l1 a pos (P.wts j) (w j) 0 ha) hg hle
    rcases sd1_l1_away a pos (P.wts j) (w j) ha hw with h | h <;> rw [h] at hx
    · cases hx
    · obtain rfl := Ext.fin.inj hx; linarith
  | wl1 a pos =>
    rw [hp] at hg hpen
    obtain ⟨ha, hwt, hta⟩ : 0 ≤ a ∧ 0 ≤ P.wts j ∧ tol < a * P.wts j := hpen
    obtain ⟨x, hx, hxt⟩ :=
      score_le_of_subgrad (C08.sd_wl1 a pos (P.wts j) (w j) 0 ha hwt) hg hle
    rcases sd1_wl1_away a pos (P.wts j) (w j) (mul_nonneg ha hwt) hw with h | h <;> rw [h] at hx
    · cases hx
    · obtain rfl := Ext.fin.inj hx; linarith
  | l1l2 a r pos =>
    rw [hp] at hg hpen
    obtain ⟨ha, hr0, hr1, hta⟩ : 0 ≤ a ∧ 0 ≤ r ∧ r ≤ 1 ∧ tol < a * r := hpen
    obtain ⟨x, hx, hxt⟩ :=
      score_le_of_subgrad (C08.sd_l1l2 a r pos (P.wts j) (w j) 0 ha hr0 hr1) hg hle
    rcases sd1_l1l2_away a r pos (P.wts j) (w j) ha hr1 hw with h | ⟨x', h, hx'⟩ <;>
      rw [h] at hx
    · cases hx
    · obtain rfl := Ext.fin.inj hx; linarith
  | mcp a g pos => rw [hp] at hpen; exact hpen
  | wmcp a g pos => rw [hp] at hpen; exact hpen
  | scad a g => rw [hp] at hpen; exact hpen
  | box a => rw [hp] at hpen; exact hpen
  | l05 a => rw [hp] at hpen; exact hpen
  | l23 a => rw [hp] at hpen; exact hpen
  | logsum a e => rw [hp] at hpen; exact hpen
  | pos => rw [hp] at hpen; exact hpen

end Skglm.C19
