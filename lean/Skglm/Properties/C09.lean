import Skglm.Proofs.Datafits
/-
  C09 — step-size constants are valid curvature bounds (single-task datafits; the group /
  global constants rest on the operator-norm contract of `numpy.linalg.norm(·, ord=2)` and the
  power iteration, which are covered by the correspondence and the SVD oracle only).
-/
namespace Skglm.C09
open Skglm Skglm.Spec
variable {n p : Nat}

/-- `raw_hessian` is the second derivative w.r.t. the linear predictor (labels in `{-1,1}` for Logistic) -/
theorem rawHess_is_second_deriv (d : DF ℝ) (y u : ℝ) (hd : ∀ delta, d ≠ .huber delta)
    (hy : d = .logistic → y = 1 ∨ y = -1) :
    HasDerivAt (fun t => d.dloss1 y t) (d.d2loss1 y u) u := Proofs.d2loss1_hasDerivAt d y u hd hy

/-- the constant behind `get_lipschitz` bounds the curvature of the per-sample loss -/
theorem curvature_le_bound (d : DF ℝ) (c y u : ℝ) (hc : d.curvBound = some c)
    (hy : d = .logistic → y = 1 ∨ y = -1) : 0 ≤ d.d2loss1 y u ∧ d.d2loss1 y u ≤ c :=
  Proofs.d2loss1_le_curvBound d c y u hc hy

/-- `get_lipschitz(X, y)[j]` upper-bounds the curvature of the loss along coordinate `j`:
    quadratic upper bound at every point, for every step, all data and sample weights -/
theorem lipschitz_is_curvature_bound (d : DF ℝ) (c : ℝ) (X : Fin n → Fin p → ℝ) (sw y u : Fin n → ℝ)
    (w : Fin p → ℝ) (j : Fin p) (t : ℝ) (hc : d.curvBound = some c)
    (hsw : ∀ i, 0 ≤ sw i) (hN : 0 < d.normaliser sw)
    (hy : d = .logistic → ∀ i, y i = 1 ∨ y i = -1) (hdelta : ∀ delta, d = .huber delta → 0 < delta) :
    d.value sw y (fun i => u i + t * X i j) (Function.update w j (w j + t)) ≤
      d.value sw y u w + t * d.gradScalar X sw y u j + d.lipschitz X sw j / 2 * t ^ 2 :=
  Proofs.coord_descent_lemma d c X sw y u w j t hc hsw hN hy hdelta

/-- exactly for the quadratic family -/
theorem quadratic_curvature_exact (d : DF ℝ) (y u h : ℝ) (hd : d = .quadratic ∨ d = .wquadratic ∨ d = .svc) :
    d.loss1 y (u + h) = d.loss1 y u + d.dloss1 y u * h + 1 / 2 * h ^ 2 :=
  Proofs.loss1_smooth_eq_quadratic d y u h hd

/-- sparse and dense constants agree (no row stored twice in a column) -/
theorem lipschitz_sparse_eq_dense (d : DF ℝ) (M : CSC ℝ n p) (sw : Fin n → ℝ) (j : Fin p)
    (hnodup : ((M j).map Prod.fst).Nodup) :
    d.lipschitzSparse M sw j = d.lipschitz M.toDense sw j :=
  Proofs.lipschitzSparse_eq_dense d M sw j hnodup

example : (DF.logistic : DF ℝ).curvBound = some (1 / 4) := by simp [DF.curvBound]

end Skglm.C09
