import Skglm.Proofs.Run
/-
  C03 — monotone descent under every iteration budget; extrapolation never hurts (AndersonCD).
-/
namespace Skglm.C03
open Skglm Skglm.Spec Skglm.Proofs
variable {n p : Nat}

/-- every coordinate step with the code's step `1/L_j` is a descent step, for convex penalties and
    non-convex ones inside their well-posed range (only global optimality of the prox is used) -/
theorem coordinate_step_descent (P : CDProb ℝ n p) (s : CDState ℝ n p) (j : Fin p) (hP : WellPosed P)
    (hL : 0 < P.df.lipschitz P.X P.sw j) (hprox : ProxOptimal P j (1 / P.df.lipschitz P.X P.sw j))
    (hg : ∀ a g pos, P.pen = .mcp a g pos ∨ P.pen = .wmcp a g pos → 0 < g) :
    Ext.le (P.objective (P.cdStep s j)) (P.objective s) = true := cdStep_descent P s j hP hL hprox hg

/-- accepting an Anderson-extrapolated point never increases the objective, whatever the point -/
theorem extrapolation_never_hurts (P : CDProb ℝ n p) (s acc : CDState ℝ n p) :
    Ext.le (P.objective (P.acceptMove s acc)) (P.objective s) = true := acceptMove_descent P s acc

/-- stopping after any number of moves returns a point whose *documented* objective (recomputed from
    `w, b`) is no larger than at the start; taking `s₀` to be the state reached with a smaller budget,
    the objective is non-increasing in the budget -/
theorem descent_along_runs (P : CDProb ℝ n p) (s₀ s : CDState ℝ n p) (hP : WellPosed P)
    (hsw1 : P.df ≠ .wquadratic → ∀ i, P.sw i = 1) (hsvc : P.fitInt = true → P.df ≠ .svc)
    (hL : ∀ j, 0 < P.df.lipschitz P.X P.sw j)
    (hprox : ∀ j, ProxOptimal P j (1 / P.df.lipschitz P.X P.sw j))
    (hadm : ∀ j, Admissible P.pen (P.wts j) (CDProb.stepsize (P.df.lipschitz P.X P.sw j)))
    (hg : ∀ a g pos, P.pen = .mcp a g pos ∨ P.pen = .wmcp a g pos → 0 < g)
    (hc₀ : Consistent P s₀) (hf₀ : Feasible P s₀.w) (h : Reach P s₀ s) :
    P.objective s = .fin (trueObj P s.w s.b) ∧ trueObj P s.w s.b ≤ trueObj P s₀.w s₀.b :=
  reach_true_descent P s₀ s hP hsw1 hsvc hL hprox hadm hg hc₀ hf₀ h

/-- the prox-optimality hypothesis is discharged by C07 for the penalties it covers -/
theorem prox_hypothesis_from_C07 (P : CDProb ℝ n p) (j : Fin p) (st : ℝ)
    (hpen : (∃ a pos, P.pen = .l1 a pos) ∨ (∃ a pos, P.pen = .wl1 a pos) ∨ (∃ a r pos, P.pen = .l1l2 a r pos) ∨
            (∃ a g pos, P.pen = .mcp a g pos) ∨ (∃ a g pos, P.pen = .wmcp a g pos) ∨
            (∃ a, P.pen = .box a) ∨ P.pen = .pos)
    (hadm : Admissible P.pen (P.wts j) st) : ProxOptimal P j st :=
  proxOptimal_of_admissible P j st hpen hadm

end Skglm.C03
